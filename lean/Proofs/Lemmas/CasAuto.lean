import Proofs.Lemmas.CasAutoBase
/-!
# Soundness of `automaticSimplify` on the integer-power fragment (strict mode)

By induction on the fuel over the eight mutually recursive functions of `Model/Cas/AutoSimp.lean`:
`SoundAt f` = all eight specifications hold at fuel `f`; `SoundAt 0` is trivial (everything throws),
and each function's specification at `f+1` follows from `SoundAt f`.

Products and sums are `List` products / sums (`P`, `S`) in the lifted arithmetic of `Option ℝ`;
`ltF` only chooses between two orders, so its result never matters.
-/
namespace Bingo
namespace Cas
namespace Auto
open Gen.OpDefs Expr

section specs
variable (k : Bool) (T : Int → Int → Bool)

def PowSpec (f : Nat) : Prop :=
  ∀ (b e : Expr) (n : Int) (np : Bool) (r : Expr), e = term INTEGER n np → Ok k T b = true →
    simplifyPower true f b e = .ok r →
    Ok k T r = true ∧ ∀ x cv, (den x cv b).bind (zpowDen n) ⊑ den x cv r

def CPowSpec (f : Nat) : Prop :=
  ∀ (b e : Expr) (n : Int) (np : Bool) (r : Expr), e = term INTEGER n np → Ok k T b = true →
    simplifyConstantPower true f b e = .ok r →
    Ok k T r = true ∧ ∀ x cv, (den x cv b).bind (zpowDen n) ⊑ den x cv r

def ProdSpec (f : Nat) : Prop :=
  ∀ (l : List Expr) (r : Expr), (∀ e ∈ l, OkM k T MULTIPLICATION e) →
    (∀ a, l = [a] → Ok k T a = true) → simplifyProduct true f l = .ok r →
    Ok k T r = true ∧ ∀ x cv, P x cv l ⊑ den x cv r

def ProdRecSpec (f : Nat) : Prop :=
  ∀ (l rs : List Expr), (∀ e ∈ l, OkM k T MULTIPLICATION e) →
    simplifyProductRec true f l = .ok rs →
    (∀ r ∈ rs, Ok k T r = true) ∧ ∀ x cv, P x cv l ⊑ P x cv rs

def MergePSpec (f : Nat) : Prop :=
  ∀ (l₁ l₂ rs : List Expr), (∀ e ∈ l₁, Ok k T e = true) → (∀ e ∈ l₂, Ok k T e = true) →
    mergeProducts true f l₁ l₂ = .ok rs →
    (∀ r ∈ rs, Ok k T r = true) ∧ ∀ x cv, omul (P x cv l₁) (P x cv l₂) ⊑ P x cv rs

def SumSpec (f : Nat) : Prop :=
  ∀ (l : List Expr) (r : Expr), (∀ e ∈ l, OkM k T ADDITION e) →
    (∀ a, l = [a] → Ok k T a = true) → simplifySum true f l = .ok r →
    Ok k T r = true ∧ ∀ x cv, S x cv l ⊑ den x cv r

def SumRecSpec (f : Nat) : Prop :=
  ∀ (l rs : List Expr), (∀ e ∈ l, OkM k T ADDITION e) →
    simplifySumRec true f l = .ok rs →
    (∀ r ∈ rs, Ok k T r = true) ∧ ∀ x cv, S x cv l ⊑ S x cv rs

def MergeSSpec (f : Nat) : Prop :=
  ∀ (l₁ l₂ rs : List Expr), (∀ e ∈ l₁, Ok k T e = true) → (∀ e ∈ l₂, Ok k T e = true) →
    mergeSums true f l₁ l₂ = .ok rs →
    (∀ r ∈ rs, Ok k T r = true) ∧ ∀ x cv, oadd (S x cv l₁) (S x cv l₂) ⊑ S x cv rs

structure SoundAt (f : Nat) : Prop where
  pow : PowSpec k T f
  cpow : CPowSpec k T f
  prod : ProdSpec k T f
  prodRec : ProdRecSpec k T f
  mergeP : MergePSpec k T f
  sum : SumSpec k T f
  sumRec : SumRecSpec k T f
  mergeS : MergeSSpec k T f

end specs

section steps
variable {k : Bool} {T : Int → Int → Bool}

theorem pow_step {f : Nat} (ih : SoundAt k T f) : PowSpec k T (f+1) := by
  intro b e n np r he hb h
  subst he
  rw [simplifyPower.eq_2] at h
  split at h
  · rename_i h1
    cases pure_ok h
    refine ⟨Ok_ONE, fun x cv => ?_⟩
    rw [isOne_den x cv h1, den_ONE, Option.bind_some, zpowDen_one_base]
    exact Refines.rfl'
  · split at h
    · rename_i h2
      cases pure_ok h
      rw [Bool.and_eq_true, isPosInt_lit] at h2
      refine ⟨Ok_ZERO, fun x cv => ?_⟩
      rw [isZero_den x cv h2.1, den_ZERO, Option.bind_some, zpowDen_nonneg (le_of_lt h2.2)]
      apply Refines.of_eq
      congr 1
      exact zero_pow (by have := h2.2; omega)
    · rw [if_pos (isIntOrConst_lit n np)] at h
      exact ih.cpow b _ n np r rfl hb h

theorem forall₂_mem_right {α β : Type} {R : α → β → Prop} : ∀ {l : List α} {rs : List β},
    List.Forall₂ R l rs → ∀ r ∈ rs, ∃ a ∈ l, R a r
  | _, _, .nil, r, hr => by cases hr
  | _, _, .cons h t, r, hr => by
    rcases List.mem_cons.mp hr with rfl | hr
    · exact ⟨_, List.mem_cons_self, h⟩
    · obtain ⟨a, ha, har⟩ := forall₂_mem_right t r hr
      exact ⟨a, List.mem_cons_of_mem _ ha, har⟩

theorem forall₂_imp_mem {α β : Type} {R Q : α → β → Prop} : ∀ {l : List α} {rs : List β},
    List.Forall₂ R l rs → (∀ a r, a ∈ l → R a r → Q a r) → List.Forall₂ Q l rs
  | _, _, .nil, _ => .nil
  | _, _, .cons h t, hq =>
    .cons (hq _ _ List.mem_cons_self h)
      (forall₂_imp_mem t (fun a r ha => hq a r (List.mem_cons_of_mem _ ha)))

theorem bind_zpow_omul (n : Int) (u v : Option ℝ) :
    (omul u v).bind (zpowDen n) ⊑ omul (u.bind (zpowDen n)) (v.bind (zpowDen n)) := by
  cases u with
  | none => exact Refines.none_left _
  | some a =>
    cases v with
    | none => simp only [omul_none_right]; exact Refines.none_left _
    | some b => exact zpowDen_mul_base n a b

theorem bind_zpow_P (n : Int) (x : List ℝ) (cv : Int → ℝ) : ∀ {as parts : List Expr},
    List.Forall₂ (fun a p => (den x cv a).bind (zpowDen n) ⊑ den x cv p) as parts →
    (P x cv as).bind (zpowDen n) ⊑ P x cv parts
  | _, _, .nil => by
    rw [P_nil, Option.bind_some, zpowDen_one_base]; exact Refines.rfl'
  | _, _, .cons h t => by
    rw [P_cons, P_cons]
    exact (bind_zpow_omul n _ _).trans (omul_mono h (bind_zpow_P n x cv t))

theorem cpow_step {f : Nat} (ih : SoundAt k T f) : CPowSpec k T (f+1) := by
  intro b e n np r he hb h
  subst he
  rw [simplifyConstantPower.eq_2] at h
  split at h
  · -- exponent 1
    rename_i h1
    cases pure_ok h
    rw [isOne_lit] at h1; subst h1
    exact ⟨hb, fun x cv => Refines.of_eq (bind_zpowDen_one _)⟩
  · rename_i h1
    rw [isOne_lit] at h1
    split at h
    · -- exponent 0
      rename_i h0
      cases pure_ok h
      rw [isZero_lit] at h0; subst h0
      refine ⟨Ok_ONE, fun x cv => ?_⟩
      rw [den_ONE]
      cases den x cv b with
      | none => exact Refines.none_left _
      | some v => rw [Option.bind_some, zpowDen_zero]; exact Refines.rfl'
    · rename_i h0
      rw [isZero_lit] at h0
      have keep : Ok k T (node POWER [b, term INTEGER n np]) = true ∧
          ∀ x cv, (den x cv b).bind (zpowDen n) ⊑ den x cv (node POWER [b, term INTEGER n np]) :=
        ⟨Ok_pow_node hb h1, fun x cv => Refines.of_eq (den_pow_lit x cv b n np).symm⟩
      split at h
      · -- integer base
        rename_i bv ev hbv hev
        rw [intVal?_lit] at hev
        cases hev
        have hbe := intVal?_eq hbv
        split at h
        · rename_i hpos
          obtain ⟨p, hp, h⟩ := bind_ok h
          cases pure_ok h
          have hv := intPow_strict hp
          dsimp only at hv hpos
          refine ⟨Ok_ofPInt _, fun x cv => ?_⟩
          rw [hbe, den_int, Option.bind_some, zpowDen_nonneg (le_of_lt hpos), ofPInt, den_int, hv]
          apply Refines.of_eq
          push_cast
          rfl
        · cases pure_ok h; exact keep
      · split at h
        · -- power of a power
          rename_i hop'
          rw [Bool.and_eq_true] at hop'
          have hop := hop'.1
          rw [beq_iff_eq] at hop
          cases b with
          | term o v np' =>
            simp only [args] at h
            exact (throw_ok h).elim
          | node o as =>
            simp only [op] at hop; subst hop
            obtain ⟨bb, m, mp, rfl, hbb⟩ := Ok_pow_inv hb
            simp only [args] at h
            obtain ⟨ne, hne, h⟩ := bind_ok h
            obtain ⟨np', rfl⟩ := simplifyProduct_lits hne
            rw [if_pos (isIntOrConst_lit m mp)] at h
            obtain ⟨hr, hd⟩ := ih.cpow bb _ (m * n) np' r rfl hbb h
            refine ⟨hr, fun x cv => ?_⟩
            rw [den_pow_lit, Option.bind_assoc]
            exact (bind_mono Refines.rfl' (fun y => zpowDen_mul m n y)).trans (hd x cv)
        · split at h
          · -- power of a product
            rename_i hnp hop
            obtain ⟨parts, hparts, h⟩ := bind_ok h
            have hf := mapM_ok hparts
            have hall : ∀ p ∈ parts, Ok k T p = true := by
              intro p hp
              obtain ⟨a, ha, hap⟩ := forall₂_mem_right hf p hp
              exact (ih.cpow a _ n np p rfl (Ok_args hb a ha) hap).1
            obtain ⟨hr, hd⟩ := ih.prod parts r (fun e he => OkM_of_Ok (hall e he))
              (fun a ha => hall a (by rw [ha]; exact List.mem_singleton_self a)) h
            refine ⟨hr, fun x cv => ?_⟩
            have h2 : List.Forall₂ (fun a p => (den x cv a).bind (zpowDen n) ⊑ den x cv p)
                b.args parts :=
              forall₂_imp_mem hf (fun a p ha hap =>
                (ih.cpow a _ n np p rfl (Ok_args hb a ha) hap).2 x cv)
            exact (bind_mono (den_args_mul x cv hop) (fun _ => Refines.rfl')).trans
              ((bind_zpow_P n x cv h2).trans (hd x cv))
          · cases pure_ok h; exact keep

theorem prod_step {f : Nat} (ih : SoundAt k T f) : ProdSpec k T (f+1) := by
  intro l r hl h1 h
  by_cases hsingle : ∃ a, l = [a]
  · obtain ⟨a, rfl⟩ := hsingle
    rw [simplifyProduct.eq_2] at h
    split at h
    · rename_i hz
      cases pure_ok h
      exact ⟨Ok_ZERO, fun x cv => by rw [den_ZERO]; exact P_any_isZero x cv hz⟩
    · cases pure_ok h
      exact ⟨h1 _ rfl, fun x cv => by rw [P_cons, P_nil, omul_one]; exact Refines.rfl'⟩
  · rw [simplifyProduct.eq_3 _ _ _ (fun a ha => hsingle ⟨a, ha⟩)] at h
    split at h
    · rename_i hz
      cases pure_ok h
      exact ⟨Ok_ZERO, fun x cv => by rw [den_ZERO]; exact P_any_isZero x cv hz⟩
    · obtain ⟨rs, hrs, h⟩ := bind_ok h
      obtain ⟨hok, hd⟩ := ih.prodRec l rs hl hrs
      split at h
      · cases pure_ok h
        exact ⟨Ok_ONE, fun x cv => by rw [den_ONE]; exact hd x cv⟩
      · rename_i a
        cases pure_ok h
        refine ⟨hok _ (by simp), fun x cv => ?_⟩
        have := hd x cv
        rwa [P_cons, P_nil, omul_one] at this
      · rename_i hn0 hn1
        cases pure_ok h
        have hlen : 2 ≤ rs.length := by
          match rs, hn0, hn1 with
          | [], hn0, _ => exact (hn0 rfl).elim
          | [a], _, hn1 => exact (hn1 a rfl).elim
          | _ :: _ :: _, _, _ => simp
        exact ⟨Ok_mul_node hok hlen, fun x cv => by rw [den_mul]; exact hd x cv⟩

theorem sum_step {f : Nat} (ih : SoundAt k T f) : SumSpec k T (f+1) := by
  intro l r hl h1 h
  by_cases hsingle : ∃ a, l = [a]
  · obtain ⟨a, rfl⟩ := hsingle
    rw [simplifySum.eq_2] at h
    cases pure_ok h
    exact ⟨h1 _ rfl, fun x cv => by rw [S_cons, S_nil, oadd_zero]; exact Refines.rfl'⟩
  · rw [simplifySum.eq_3 _ _ _ (fun a ha => hsingle ⟨a, ha⟩)] at h
    obtain ⟨rs, hrs, h⟩ := bind_ok h
    obtain ⟨hok, hd⟩ := ih.sumRec l rs hl hrs
    split at h
    · cases pure_ok h
      exact ⟨Ok_ZERO, fun x cv => by rw [den_ZERO]; exact hd x cv⟩
    · rename_i a
      cases pure_ok h
      refine ⟨hok _ (by simp), fun x cv => ?_⟩
      have := hd x cv
      rwa [S_cons, S_nil, oadd_zero] at this
    · rename_i hn0 hn1
      cases pure_ok h
      have hlen : 2 ≤ rs.length := by
        match rs, hn0, hn1 with
        | [], hn0, _ => exact (hn0 rfl).elim
        | [a], _, hn1 => exact (hn1 a rfl).elim
        | _ :: _ :: _, _, _ => simp
      exact ⟨Ok_add_node hok hlen, fun x cv => by rw [den_add]; exact hd x cv⟩

theorem P_singleton (x : List ℝ) (cv : Int → ℝ) (a : Expr) : P x cv [a] = den x cv a := by
  rw [P_cons, P_nil, omul_one]
theorem S_singleton (x : List ℝ) (cv : Int → ℝ) (a : Expr) : S x cv [a] = den x cv a := by
  rw [S_cons, S_nil, oadd_zero]

theorem bind_zpow_add (m n : Int) (u : Option ℝ) :
    omul (u.bind (zpowDen m)) (u.bind (zpowDen n)) ⊑ u.bind (zpowDen (m + n)) := by
  cases u with
  | none => exact Refines.none_left _
  | some v => exact zpowDen_add m n v

theorem optBeq_some_left {a : Expr} {ob : Option Expr} (h : optBeq (some a) ob = true) :
    ∃ b, ob = some b ∧ a.beq b = true := by
  cases ob with
  | none => simp [optBeq] at h
  | some b => exact ⟨b, rfl, h⟩

theorem mem_ite_nil_singleton {c : Prop} [Decidable c] {a r : Expr}
    (h : r ∈ (if c then [] else [a])) : r = a ∧ ¬ c := by
  split at h
  · cases h
  · rename_i hc; exact ⟨List.mem_singleton.mp h, hc⟩

/-- `_simplify_product_rec` on two operands -/
theorem prodRec_pair {f : Nat} (ih : SoundAt k T f) (op1 op2 : Expr) (rs : List Expr)
    (h1 : OkM k T MULTIPLICATION op1) (h2 : OkM k T MULTIPLICATION op2)
    (h : simplifyProductRec true (f+1) [op1, op2] = .ok rs) :
    (∀ r ∈ rs, Ok k T r = true) ∧ ∀ x cv, P x cv [op1, op2] ⊑ P x cv rs := by
  rw [simplifyProductRec.eq_3] at h
  split at h
  · -- two integers
    rename_i a b ha hb
    obtain ⟨p, hp, h⟩ := bind_ok h
    have hv := arith_strict hp
    cases pure_ok h
    refine ⟨fun r hr => ?_, fun x cv => ?_⟩
    · rw [(mem_ite_nil_singleton hr).1]; exact Ok_ofPInt _
    · rw [intVal?_eq ha, intVal?_eq hb]
      simp only [P_cons, P_nil, den_int, omul_some, mul_one]
      split
      · rename_i hone
        simp only [ofPInt, isOne_lit] at hone
        rw [P_nil]
        apply Refines.of_eq
        congr 1
        rw [← Int.cast_mul, ← hv, hone]; simp
      · simp only [P_cons, P_nil, ofPInt, den_int, omul_some, mul_one, hv]
        apply Refines.of_eq
        push_cast; rfl
  · split at h
    · rename_i hne
      rw [Bool.and_eq_true] at hne
      have ho1 := Ok_of_OkM h1 hne.1
      have ho2 := Ok_of_OkM h2 hne.2
      split at h
      · rename_i hone
        cases pure_ok h
        refine ⟨fun r hr => by rw [List.mem_singleton.mp hr]; exact ho2, fun x cv => ?_⟩
        rw [P_cons, isOne_den x cv hone, one_omul]; exact Refines.rfl'
      · split at h
        · rename_i hone
          cases pure_ok h
          refine ⟨fun r hr => by rw [List.mem_singleton.mp hr]; exact ho1, fun x cv => ?_⟩
          rw [P_cons, P_cons, isOne_den x cv hone, one_omul]; exact Refines.rfl'
        · split at h
          · rename_i hbeq
            split at h
            · rename_i b e1 e2 hb he1 he2
              rw [hb] at hbeq
              obtain ⟨b2, hb2, hbb⟩ := optBeq_some_left hbeq
              obtain ⟨n1, np1, rfl, hokb, hd1⟩ := base_exponent_den ho1 hb he1
              obtain ⟨n2, np2, rfl, _, hd2⟩ := base_exponent_den ho2 hb2 he2
              obtain ⟨ne, hne', h⟩ := bind_ok h
              obtain ⟨np', rfl⟩ := simplifySum_lits hne'
              obtain ⟨comb, hcomb, h⟩ := bind_ok h
              cases pure_ok h
              obtain ⟨hokc, hdc⟩ := ih.pow b _ (n1 + n2) np' comb rfl hokb hcomb
              refine ⟨fun r hr => by rw [(mem_ite_nil_singleton hr).1]; exact hokc, fun x cv => ?_⟩
              have key : P x cv [op1, op2] ⊑ den x cv comb := by
                rw [P_cons, P_cons, P_nil, omul_one, hd1, hd2, ← beq_den x cv b b2 hbb]
                exact (bind_zpow_add n1 n2 _).trans (hdc x cv)
              split
              · rename_i hone
                rw [P_nil, ← isOne_den x cv hone]; exact key
              · rw [P_singleton]; exact key
            · exact (throw_ok h).elim
          · obtain ⟨lt, _, h⟩ := bind_ok h
            split at h
            · cases pure_ok h
              refine ⟨fun r hr => ?_, fun x cv => ?_⟩
              · simp only [List.mem_cons, List.not_mem_nil, or_false] at hr
                rcases hr with rfl | rfl <;> assumption
              · simp only [P_cons, P_nil]
                apply Refines.of_eq; ac_rfl
            · cases pure_ok h
              refine ⟨fun r hr => ?_, fun x cv => Refines.rfl'⟩
              simp only [List.mem_cons, List.not_mem_nil, or_false] at hr
              rcases hr with rfl | rfl <;> assumption
    · obtain ⟨hok, hd⟩ := ih.mergeP _ _ rs h1 h2 h
      refine ⟨hok, fun x cv => ?_⟩
      rw [P_cons, P_cons, P_nil, omul_one]
      exact (omul_mono (den_mergeOperands_mul x cv op1) (den_mergeOperands_mul x cv op2)).trans
        (hd x cv)

theorem prodRec_step {f : Nat} (ih : SoundAt k T f) : ProdRecSpec k T (f+1) := by
  intro l rs hl h
  by_cases hpair : ∃ op1 op2, l = [op1, op2]
  · obtain ⟨op1, op2, rfl⟩ := hpair
    exact prodRec_pair ih op1 op2 rs (hl _ (by simp)) (hl _ (by simp)) h
  · cases l with
    | nil => rw [simplifyProductRec.eq_2] at h; exact (throw_ok h).elim
    | cons op rest =>
      rw [simplifyProductRec.eq_4 _ _ _ _ (fun op2 h2 => hpair ⟨op, op2, by rw [h2]⟩)] at h
      obtain ⟨rsimp, h1, h2⟩ := bind_ok h
      obtain ⟨hok1, hd1⟩ := ih.prodRec rest rsimp (fun e he => hl e (List.mem_cons_of_mem _ he)) h1
      obtain ⟨hok, hd⟩ := ih.mergeP _ _ rs (hl op List.mem_cons_self) hok1 h2
      refine ⟨hok, fun x cv => ?_⟩
      rw [P_cons]
      exact (omul_mono (den_mergeOperands_mul x cv op) (hd1 x cv)).trans (hd x cv)

/-- the possible shapes of `_simplify_product_rec([a, b])` for two non-products -/
theorem prodRec_pair_shape {f : Nat} {a b : Expr} {rs : List Expr}
    (ha : ¬ (a.op == MULTIPLICATION) = true) (hb : ¬ (b.op == MULTIPLICATION) = true)
    (h : simplifyProductRec true (f+1) [a, b] = .ok rs) :
    rs = [] ∨ (∃ s, rs = [s]) ∨ rs = [a, b] ∨ rs = [b, a] := by
  rw [simplifyProductRec.eq_3] at h
  split at h
  · obtain ⟨p, _, h⟩ := bind_ok h
    cases pure_ok h
    split
    · exact Or.inl rfl
    · exact Or.inr (Or.inl ⟨_, rfl⟩)
  · split at h
    · split at h
      · cases pure_ok h; exact Or.inr (Or.inl ⟨_, rfl⟩)
      · split at h
        · cases pure_ok h; exact Or.inr (Or.inl ⟨_, rfl⟩)
        · split at h
          · split at h
            · obtain ⟨ne, _, h⟩ := bind_ok h
              obtain ⟨comb, _, h⟩ := bind_ok h
              cases pure_ok h
              split
              · exact Or.inl rfl
              · exact Or.inr (Or.inl ⟨_, rfl⟩)
            · exact (throw_ok h).elim
          · obtain ⟨lt, _, h⟩ := bind_ok h
            split at h
            · cases pure_ok h; exact Or.inr (Or.inr (Or.inr rfl))
            · cases pure_ok h; exact Or.inr (Or.inr (Or.inl rfl))
    · rename_i hne
      have ha' : a.op ≠ MULTIPLICATION := by simpa using ha
      have hb' : b.op ≠ MULTIPLICATION := by simpa using hb
      exact (hne (by simp [ha', hb'])).elim

theorem mergeP_step {f : Nat} (ih : SoundAt k T f) : MergePSpec k T (f+1) := by
  intro l₁ l₂ rs h1 h2 h
  cases l₁ with
  | nil =>
    rw [mergeProducts.eq_2] at h
    cases pure_ok h
    exact ⟨h2, fun x cv => by rw [P_nil, one_omul]; exact Refines.rfl'⟩
  | cons a as =>
    cases l₂ with
    | nil =>
      rw [mergeProducts.eq_3 _ _ _ (by intro h; cases h)] at h
      cases pure_ok h
      exact ⟨h1, fun x cv => by rw [P_nil, omul_one]; exact Refines.rfl'⟩
    | cons b bs =>
      have hoa := h1 a List.mem_cons_self
      have hob := h2 b List.mem_cons_self
      have has : ∀ e ∈ as, Ok k T e = true := fun e he => h1 e (List.mem_cons_of_mem _ he)
      have hbs : ∀ e ∈ bs, Ok k T e = true := fun e he => h2 e (List.mem_cons_of_mem _ he)
      rw [mergeProducts.eq_4] at h
      split at h
      · -- flatten `a`
        rename_i hop
        obtain ⟨hok, hd⟩ := ih.mergeP (a.args ++ as) (b :: bs) rs
          (fun e he => (List.mem_append.mp he).elim (Ok_args hoa e) (has e)) h2 h
        refine ⟨hok, fun x cv => ?_⟩
        refine Refines.trans ?_ (hd x cv)
        rw [P_cons, P_append]
        exact omul_mono (omul_mono (den_args_mul x cv hop) Refines.rfl') Refines.rfl'
      · rename_i hopa
        split at h
        · -- flatten `b`
          rename_i hop
          obtain ⟨hok, hd⟩ := ih.mergeP (a :: as) (b.args ++ bs) rs h1
            (fun e he => (List.mem_append.mp he).elim (Ok_args hob e) (hbs e)) h
          refine ⟨hok, fun x cv => ?_⟩
          refine Refines.trans ?_ (hd x cv)
          rw [P_cons x cv b, P_append]
          exact omul_mono Refines.rfl' (omul_mono (den_args_mul x cv hop) Refines.rfl')
        · rename_i hopb
          obtain ⟨firsts, hfirsts, h⟩ := bind_ok h
          obtain ⟨hokf, hdf⟩ := ih.prodRec [a, b] firsts
            (by
              intro e he
              simp only [List.mem_cons, List.not_mem_nil, or_false] at he
              rcases he with rfl | rfl
              · exact OkM_of_Ok hoa
              · exact OkM_of_Ok hob) hfirsts
          cases f with
          | zero => rw [simplifyProductRec.eq_1] at hfirsts; exact (throw_ok hfirsts).elim
          | succ f' =>
          have hshape := prodRec_pair_shape hopa hopb hfirsts
          split at h
          · -- the two heads cancel
            obtain ⟨hok, hd⟩ := ih.mergeP as bs rs has hbs h
            refine ⟨hok, fun x cv => ?_⟩
            have h0 := hdf x cv
            rw [P_cons, P_singleton, P_nil] at h0
            calc omul (P x cv (a :: as)) (P x cv (b :: bs))
                = omul (omul (den x cv a) (den x cv b)) (omul (P x cv as) (P x cv bs)) := by
                  rw [P_cons, P_cons]; ac_rfl
              _ ⊑ omul (some 1) (P x cv rs) := omul_mono h0 (hd x cv)
              _ = P x cv rs := one_omul _
          · -- the two heads combine
            rename_i s
            obtain ⟨rest, hrest, h⟩ := bind_ok h
            cases pure_ok h
            obtain ⟨hok, hd⟩ := ih.mergeP as bs rest has hbs hrest
            refine ⟨?_, fun x cv => ?_⟩
            · intro r hr
              rcases List.mem_cons.mp hr with rfl | hr
              · exact hokf _ (by simp)
              · exact hok r hr
            · have h0 := hdf x cv
              rw [P_cons, P_singleton, P_singleton] at h0
              calc omul (P x cv (a :: as)) (P x cv (b :: bs))
                  = omul (omul (den x cv a) (den x cv b)) (omul (P x cv as) (P x cv bs)) := by
                    rw [P_cons, P_cons]; ac_rfl
                _ ⊑ omul (den x cv s) (P x cv rest) := omul_mono h0 (hd x cv)
                _ = P x cv (s :: rest) := (P_cons x cv s rest).symm
          · -- the two heads stay apart (in one of the two orders)
            rename_i s tail hn1
            have hperm : (s = a) ∨ (s = b) := by
              rcases hshape with h' | ⟨s', h'⟩ | h' | h'
              · cases h'
              · cases h'; exact (hn1 rfl).elim
              · cases h'; exact Or.inl rfl
              · cases h'; exact Or.inr rfl
            split at h
            · rename_i hsa
              obtain ⟨rest, hrest, h⟩ := bind_ok h
              cases pure_ok h
              obtain ⟨hok, hd⟩ := ih.mergeP as (b :: bs) rest has h2 hrest
              refine ⟨?_, fun x cv => ?_⟩
              · intro r hr
                rcases List.mem_cons.mp hr with rfl | hr
                · exact hokf _ (by simp)
                · exact hok r hr
              · rw [P_cons x cv s, beq_den x cv s a hsa, P_cons x cv a, omul_assoc]
                exact omul_mono Refines.rfl' (hd x cv)
            · rename_i hsa
              have hsb : s = b := by
                rcases hperm with rfl | rfl
                · exact (hsa (beq_refl _)).elim
                · rfl
              obtain ⟨rest, hrest, h⟩ := bind_ok h
              cases pure_ok h
              obtain ⟨hok, hd⟩ := ih.mergeP (a :: as) bs rest h1 hbs hrest
              rw [hsb]
              refine ⟨?_, fun x cv => ?_⟩
              · intro r hr
                rcases List.mem_cons.mp hr with rfl | hr
                · exact hob
                · exact hok r hr
              · rw [P_cons x cv b rest, P_cons x cv b bs]
                calc omul (P x cv (a :: as)) (omul (den x cv b) (P x cv bs))
                    = omul (den x cv b) (omul (P x cv (a :: as)) (P x cv bs)) := by ac_rfl
                  _ ⊑ omul (den x cv b) (P x cv rest) := omul_mono Refines.rfl' (hd x cv)

theorem oadd_like (c1 c2 t : Option ℝ) :
    oadd (omul c1 t) (omul c2 t) = omul (oadd c1 c2) t := by
  rw [oadd_omul]

/-- `_simplify_sum_rec` on two operands -/
theorem sumRec_pair {f : Nat} (ih : SoundAt k T f) (op1 op2 : Expr) (rs : List Expr)
    (h1 : OkM k T ADDITION op1) (h2 : OkM k T ADDITION op2)
    (h : simplifySumRec true (f+1) [op1, op2] = .ok rs) :
    (∀ r ∈ rs, Ok k T r = true) ∧ ∀ x cv, S x cv [op1, op2] ⊑ S x cv rs := by
  rw [simplifySumRec.eq_3] at h
  split at h
  · -- two integers
    rename_i a b ha hb
    obtain ⟨p, hp, h⟩ := bind_ok h
    have hv := arith_strict hp
    cases pure_ok h
    refine ⟨fun r hr => ?_, fun x cv => ?_⟩
    · rw [(mem_ite_nil_singleton hr).1]; exact Ok_ofPInt _
    · rw [intVal?_eq ha, intVal?_eq hb]
      simp only [S_cons, S_nil, den_int, oadd_some, add_zero]
      split
      · rename_i hzero
        simp only [ofPInt, isZero_lit] at hzero
        rw [S_nil]
        apply Refines.of_eq
        congr 1
        rw [← Int.cast_add, ← hv, hzero]; simp
      · simp only [S_cons, S_nil, ofPInt, den_int, oadd_some, add_zero, hv]
        apply Refines.of_eq
        push_cast; rfl
  · split at h
    · rename_i hne
      rw [Bool.and_eq_true] at hne
      have ho1 := Ok_of_OkM h1 hne.1
      have ho2 := Ok_of_OkM h2 hne.2
      split at h
      · rename_i hzero
        cases pure_ok h
        refine ⟨fun r hr => by rw [List.mem_singleton.mp hr]; exact ho2, fun x cv => ?_⟩
        rw [S_cons, isZero_den x cv hzero, zero_oadd]; exact Refines.rfl'
      · split at h
        · rename_i hzero
          cases pure_ok h
          refine ⟨fun r hr => by rw [List.mem_singleton.mp hr]; exact ho1, fun x cv => ?_⟩
          rw [S_cons, S_cons, isZero_den x cv hzero, zero_oadd]; exact Refines.rfl'
        · split at h
          · rename_i hbeq
            split at h
            · rename_i t c1 c2 ht hc1 hc2
              rw [ht] at hbeq
              obtain ⟨t2, ht2, htt⟩ := optBeq_some_left hbeq
              obtain ⟨hokc1, hokt, htop, hd1⟩ := coeff_term_den ho1 ht hc1
              obtain ⟨hokc2, _, _, hd2⟩ := coeff_term_den ho2 ht2 hc2
              obtain ⟨nc, hnc, h⟩ := bind_ok h
              obtain ⟨comb, hcomb, h⟩ := bind_ok h
              cases pure_ok h
              obtain ⟨hoknc, hdnc⟩ := ih.sum [c1, c2] nc
                (by
                  intro e he
                  simp only [List.mem_cons, List.not_mem_nil, or_false] at he
                  rcases he with rfl | rfl
                  · exact OkM_of_Ok hokc1
                  · exact OkM_of_Ok hokc2) (fun a ha => by cases ha) hnc
              obtain ⟨hokc, hdc⟩ := ih.prod [nc, t] comb
                (by
                  intro e he
                  simp only [List.mem_cons, List.not_mem_nil, or_false] at he
                  rcases he with rfl | rfl
                  · exact OkM_of_Ok hoknc
                  · exact hokt) (fun a ha => by cases ha) hcomb
              refine ⟨fun r hr => by rw [(mem_ite_nil_singleton hr).1]; exact hokc, fun x cv => ?_⟩
              have key : S x cv [op1, op2] ⊑ den x cv comb := by
                rw [S_cons, S_singleton, hd1, hd2, ← beq_den x cv t t2 htt, oadd_like]
                refine Refines.trans ?_ (hdc x cv)
                rw [P_cons, P_singleton]
                refine omul_mono ?_ Refines.rfl'
                have := hdnc x cv
                rwa [S_cons, S_singleton] at this
              split
              · rename_i hzero
                rw [S_nil, ← isZero_den x cv hzero]; exact key
              · rw [S_singleton]; exact key
            · exact (throw_ok h).elim
          · obtain ⟨lt, _, h⟩ := bind_ok h
            split at h
            · cases pure_ok h
              refine ⟨fun r hr => ?_, fun x cv => ?_⟩
              · simp only [List.mem_cons, List.not_mem_nil, or_false] at hr
                rcases hr with rfl | rfl <;> assumption
              · simp only [S_cons, S_nil]
                apply Refines.of_eq; ac_rfl
            · cases pure_ok h
              refine ⟨fun r hr => ?_, fun x cv => Refines.rfl'⟩
              simp only [List.mem_cons, List.not_mem_nil, or_false] at hr
              rcases hr with rfl | rfl <;> assumption
    · obtain ⟨hok, hd⟩ := ih.mergeS _ _ rs h1 h2 h
      refine ⟨hok, fun x cv => ?_⟩
      rw [S_cons, S_cons, S_nil, oadd_zero]
      exact (oadd_mono (den_mergeOperands_add x cv op1) (den_mergeOperands_add x cv op2)).trans
        (hd x cv)

theorem sumRec_step {f : Nat} (ih : SoundAt k T f) : SumRecSpec k T (f+1) := by
  intro l rs hl h
  by_cases hpair : ∃ op1 op2, l = [op1, op2]
  · obtain ⟨op1, op2, rfl⟩ := hpair
    exact sumRec_pair ih op1 op2 rs (hl _ (by simp)) (hl _ (by simp)) h
  · cases l with
    | nil => rw [simplifySumRec.eq_2] at h; exact (throw_ok h).elim
    | cons op rest =>
      rw [simplifySumRec.eq_4 _ _ _ _ (fun op2 h2 => hpair ⟨op, op2, by rw [h2]⟩)] at h
      obtain ⟨rsimp, h1, h2⟩ := bind_ok h
      obtain ⟨hok1, hd1⟩ := ih.sumRec rest rsimp (fun e he => hl e (List.mem_cons_of_mem _ he)) h1
      obtain ⟨hok, hd⟩ := ih.mergeS _ _ rs (hl op List.mem_cons_self) hok1 h2
      refine ⟨hok, fun x cv => ?_⟩
      rw [S_cons]
      exact (oadd_mono (den_mergeOperands_add x cv op) (hd1 x cv)).trans (hd x cv)

/-- the possible shapes of `_simplify_sum_rec([a, b])` for two non-sums -/
theorem sumRec_pair_shape {f : Nat} {a b : Expr} {rs : List Expr}
    (ha : ¬ (a.op == ADDITION) = true) (hb : ¬ (b.op == ADDITION) = true)
    (h : simplifySumRec true (f+1) [a, b] = .ok rs) :
    rs = [] ∨ (∃ s, rs = [s]) ∨ rs = [a, b] ∨ rs = [b, a] := by
  rw [simplifySumRec.eq_3] at h
  split at h
  · obtain ⟨p, _, h⟩ := bind_ok h
    cases pure_ok h
    split
    · exact Or.inl rfl
    · exact Or.inr (Or.inl ⟨_, rfl⟩)
  · split at h
    · split at h
      · cases pure_ok h; exact Or.inr (Or.inl ⟨_, rfl⟩)
      · split at h
        · cases pure_ok h; exact Or.inr (Or.inl ⟨_, rfl⟩)
        · split at h
          · split at h
            · obtain ⟨ne, _, h⟩ := bind_ok h
              obtain ⟨comb, _, h⟩ := bind_ok h
              cases pure_ok h
              split
              · exact Or.inl rfl
              · exact Or.inr (Or.inl ⟨_, rfl⟩)
            · exact (throw_ok h).elim
          · obtain ⟨lt, _, h⟩ := bind_ok h
            split at h
            · cases pure_ok h; exact Or.inr (Or.inr (Or.inr rfl))
            · cases pure_ok h; exact Or.inr (Or.inr (Or.inl rfl))
    · rename_i hne
      have ha' : a.op ≠ ADDITION := by simpa using ha
      have hb' : b.op ≠ ADDITION := by simpa using hb
      exact (hne (by simp [ha', hb'])).elim

theorem mergeS_step {f : Nat} (ih : SoundAt k T f) : MergeSSpec k T (f+1) := by
  intro l₁ l₂ rs h1 h2 h
  cases l₁ with
  | nil =>
    rw [mergeSums.eq_2] at h
    cases pure_ok h
    exact ⟨h2, fun x cv => by rw [S_nil, zero_oadd]; exact Refines.rfl'⟩
  | cons a as =>
    cases l₂ with
    | nil =>
      rw [mergeSums.eq_3 _ _ _ (by intro h; cases h)] at h
      cases pure_ok h
      exact ⟨h1, fun x cv => by rw [S_nil, oadd_zero]; exact Refines.rfl'⟩
    | cons b bs =>
      have hoa := h1 a List.mem_cons_self
      have hob := h2 b List.mem_cons_self
      have has : ∀ e ∈ as, Ok k T e = true := fun e he => h1 e (List.mem_cons_of_mem _ he)
      have hbs : ∀ e ∈ bs, Ok k T e = true := fun e he => h2 e (List.mem_cons_of_mem _ he)
      rw [mergeSums.eq_4] at h
      split at h
      · -- flatten `a`
        rename_i hop
        obtain ⟨hok, hd⟩ := ih.mergeS (a.args ++ as) (b :: bs) rs
          (fun e he => (List.mem_append.mp he).elim (Ok_args hoa e) (has e)) h2 h
        refine ⟨hok, fun x cv => ?_⟩
        refine Refines.trans ?_ (hd x cv)
        rw [S_cons, S_append]
        exact oadd_mono (oadd_mono (den_args_add x cv hop) Refines.rfl') Refines.rfl'
      · rename_i hopa
        split at h
        · -- flatten `b`
          rename_i hop
          obtain ⟨hok, hd⟩ := ih.mergeS (a :: as) (b.args ++ bs) rs h1
            (fun e he => (List.mem_append.mp he).elim (Ok_args hob e) (hbs e)) h
          refine ⟨hok, fun x cv => ?_⟩
          refine Refines.trans ?_ (hd x cv)
          rw [S_cons x cv b, S_append]
          exact oadd_mono Refines.rfl' (oadd_mono (den_args_add x cv hop) Refines.rfl')
        · rename_i hopb
          obtain ⟨firsts, hfirsts, h⟩ := bind_ok h
          obtain ⟨hokf, hdf⟩ := ih.sumRec [a, b] firsts
            (by
              intro e he
              simp only [List.mem_cons, List.not_mem_nil, or_false] at he
              rcases he with rfl | rfl
              · exact OkM_of_Ok hoa
              · exact OkM_of_Ok hob) hfirsts
          cases f with
          | zero => rw [simplifySumRec.eq_1] at hfirsts; exact (throw_ok hfirsts).elim
          | succ f' =>
          have hshape := sumRec_pair_shape hopa hopb hfirsts
          split at h
          · -- the two heads cancel
            obtain ⟨hok, hd⟩ := ih.mergeS as bs rs has hbs h
            refine ⟨hok, fun x cv => ?_⟩
            have h0 := hdf x cv
            rw [S_cons, S_singleton, S_nil] at h0
            calc oadd (S x cv (a :: as)) (S x cv (b :: bs))
                = oadd (oadd (den x cv a) (den x cv b)) (oadd (S x cv as) (S x cv bs)) := by
                  rw [S_cons, S_cons]; ac_rfl
              _ ⊑ oadd (some 0) (S x cv rs) := oadd_mono h0 (hd x cv)
              _ = S x cv rs := zero_oadd _
          · -- the two heads combine
            rename_i s
            obtain ⟨rest, hrest, h⟩ := bind_ok h
            cases pure_ok h
            obtain ⟨hok, hd⟩ := ih.mergeS as bs rest has hbs hrest
            refine ⟨?_, fun x cv => ?_⟩
            · intro r hr
              rcases List.mem_cons.mp hr with rfl | hr
              · exact hokf _ (by simp)
              · exact hok r hr
            · have h0 := hdf x cv
              rw [S_cons, S_singleton, S_singleton] at h0
              calc oadd (S x cv (a :: as)) (S x cv (b :: bs))
                  = oadd (oadd (den x cv a) (den x cv b)) (oadd (S x cv as) (S x cv bs)) := by
                    rw [S_cons, S_cons]; ac_rfl
                _ ⊑ oadd (den x cv s) (S x cv rest) := oadd_mono h0 (hd x cv)
                _ = S x cv (s :: rest) := (S_cons x cv s rest).symm
          · -- the two heads stay apart (in one of the two orders)
            rename_i s tail hn1
            have hperm : (s = a) ∨ (s = b) := by
              rcases hshape with h' | ⟨s', h'⟩ | h' | h'
              · cases h'
              · cases h'; exact (hn1 rfl).elim
              · cases h'; exact Or.inl rfl
              · cases h'; exact Or.inr rfl
            split at h
            · rename_i hsa
              obtain ⟨rest, hrest, h⟩ := bind_ok h
              cases pure_ok h
              obtain ⟨hok, hd⟩ := ih.mergeS as (b :: bs) rest has h2 hrest
              refine ⟨?_, fun x cv => ?_⟩
              · intro r hr
                rcases List.mem_cons.mp hr with rfl | hr
                · exact hokf _ (by simp)
                · exact hok r hr
              · rw [S_cons x cv s, beq_den x cv s a hsa, S_cons x cv a, oadd_assoc]
                exact oadd_mono Refines.rfl' (hd x cv)
            · rename_i hsa
              have hsb : s = b := by
                rcases hperm with rfl | rfl
                · exact (hsa (beq_refl _)).elim
                · rfl
              obtain ⟨rest, hrest, h⟩ := bind_ok h
              cases pure_ok h
              obtain ⟨hok, hd⟩ := ih.mergeS (a :: as) bs rest h1 hbs hrest
              rw [hsb]
              refine ⟨?_, fun x cv => ?_⟩
              · intro r hr
                rcases List.mem_cons.mp hr with rfl | hr
                · exact hob
                · exact hok r hr
              · rw [S_cons x cv b rest, S_cons x cv b bs]
                calc oadd (S x cv (a :: as)) (oadd (den x cv b) (S x cv bs))
                    = oadd (den x cv b) (oadd (S x cv (a :: as)) (S x cv bs)) := by ac_rfl
                  _ ⊑ oadd (den x cv b) (S x cv rest) := oadd_mono Refines.rfl' (hd x cv)

theorem soundAt_zero : SoundAt k T 0 where
  pow := by intro b e n np r _ _ h; rw [simplifyPower.eq_1] at h; exact (throw_ok h).elim
  cpow := by intro b e n np r _ _ h; rw [simplifyConstantPower.eq_1] at h; exact (throw_ok h).elim
  prod := by intro l r _ _ h; rw [simplifyProduct.eq_1] at h; exact (throw_ok h).elim
  prodRec := by intro l r _ h; rw [simplifyProductRec.eq_1] at h; exact (throw_ok h).elim
  mergeP := by intro l₁ l₂ r _ _ h; rw [mergeProducts.eq_1] at h; exact (throw_ok h).elim
  sum := by intro l r _ _ h; rw [simplifySum.eq_1] at h; exact (throw_ok h).elim
  sumRec := by intro l r _ h; rw [simplifySumRec.eq_1] at h; exact (throw_ok h).elim
  mergeS := by intro l₁ l₂ r _ _ h; rw [mergeSums.eq_1] at h; exact (throw_ok h).elim

theorem soundAt_succ {f : Nat} (ih : SoundAt k T f) : SoundAt k T (f+1) where
  pow := pow_step ih
  cpow := cpow_step ih
  prod := prod_step ih
  prodRec := prodRec_step ih
  mergeP := mergeP_step ih
  sum := sum_step ih
  sumRec := sumRec_step ih
  mergeS := mergeS_step ih

/-- all eight specifications hold at every fuel -/
theorem soundAt (k : Bool) (T : Int → Int → Bool) : ∀ f, SoundAt k T f
  | 0 => soundAt_zero
  | f+1 => soundAt_succ (soundAt k T f)

end steps

end Auto
end Cas
end Bingo
