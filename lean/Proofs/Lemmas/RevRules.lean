import Proofs.Lemmas.Partials
/-!
# The generated reverse rules add `R * ∂op/∂operand` to the operands' adjoints

`revRule_spec` executes the statements of `Gen.OpRules.revRules` (regenerated from
`operator_eval.py`) with `Eval.applyStmts` and compares the outcome with the textbook partials
`AD.dA`, `AD.dB` of `Proofs/Lemmas/Partials.lean`.
-/
namespace Bingo
namespace AD
open Gen.OpDefs

/-- add `v` to entry `p` of a list -/
def addAt (l : List ℝ) (p : Nat) (v : ℝ) : List ℝ := l.set p (l.getD p 0 + v)

@[simp] lemma length_addAt (l : List ℝ) (p : Nat) (v : ℝ) : (addAt l p v).length = l.length := by
  simp [addAt]

lemma getElem?_addAt_ne (l : List ℝ) {p k : Nat} (v : ℝ) (h : p ≠ k) :
    (addAt l p v)[k]? = l[k]? := by
  simp [addAt, List.getElem?_set_ne h]

lemma getD_addAt (l : List ℝ) {p : Nat} (v : ℝ) (k : Nat) (hp : p < l.length) :
    (addAt l p v).getD k 0 = if k = p then l.getD k 0 + v else l.getD k 0 := by
  unfold addAt
  by_cases h : k = p
  · subst h; simp [List.getD_eq_getElem?_getD, hp]
  · simp [List.getD_eq_getElem?_getD, List.getElem?_set_ne (Ne.symm h), h]

lemma addAt_zero (l : List ℝ) {p : Nat} (hp : p < l.length) : addAt l p 0 = l := by
  unfold addAt
  simp [List.getD_eq_getElem?_getD, hp]

/-- the rule context of an operator row with operand values `a`, `b`, own value `F`, adjoint `R` -/
def mkCtx (ip a b F R : ℝ) : RuleCtx ℝ :=
  { intParam := ip
    loadX := none
    loadC := none
    fwd := fun r => match r with
      | .p1 => some a
      | .p2 => some b
      | .self => some F
    rev := some R }

lemma revCtx_eq {N i p q : Nat} {cmd : Cmd} {fw radj : List ℝ} {a b F R : ℝ}
    (hp : pyIdx N cmd.p1 = some p) (hq : pyIdx N cmd.p2 = some q)
    (ha : fw[p]? = some a) (hb : fw[q]? = some b) (hF : fw[i]? = some F)
    (hR : radj[i]? = some R) :
    Eval.revCtx N fw radj i cmd = mkCtx (cmd.p1 : ℝ) a b F R := by
  unfold Eval.revCtx mkCtx
  congr 1
  funext r
  cases r <;> simp [hp, hq, ha, hb, hF]

/-- the increment a statement makes -/
def signed : RevMode → ℝ → ℝ
  | .addTo, v => v
  | .subFrom, v => -v
  | .assign, _ => 0

lemma applyStmt_spec {N i k : Nat} {cmd : Cmd} {fw radj : List ℝ} {tgt : Ref} {mode : RevMode}
    {e : RExpr} {v : ℝ} (hmode : mode ≠ .assign)
    (hv : e.interp (Eval.revCtx N fw radj i cmd) = some v)
    (hk : Eval.refIdx N i cmd tgt = some k) (hkl : k < radj.length) :
    Eval.applyStmt N fw i cmd radj ⟨tgt, mode, e⟩ = some (addAt radj k (signed mode v)) := by
  unfold Eval.applyStmt
  cases mode
  · simp [hv, hk, List.getElem?_eq_getElem hkl, addAt, signed, List.getD_eq_getElem?_getD]
  · simp [hv, hk, List.getElem?_eq_getElem hkl, addAt, signed, List.getD_eq_getElem?_getD,
      sub_eq_add_neg]
  · exact absurd rfl hmode

section
variable {N i p q : Nat} {cmd : Cmd} {fw radj : List ℝ} {a b F R : ℝ}

lemma applyStmts_pair
    (hp : pyIdx N cmd.p1 = some p) (hq : pyIdx N cmd.p2 = some q) (hpi : p < i) (hqi : q < i)
    (hi : i < radj.length) (ha : fw[p]? = some a) (hb : fw[q]? = some b) (hF : fw[i]? = some F)
    (hR : radj[i]? = some R) {m1 m2 : RevMode} {e1 e2 : RExpr} {v1 v2 : ℝ}
    (hm1 : m1 ≠ .assign) (hm2 : m2 ≠ .assign)
    (h1 : e1.interp (mkCtx (cmd.p1 : ℝ) a b F R) = some v1)
    (h2 : e2.interp (mkCtx (cmd.p1 : ℝ) a b F R) = some v2) :
    Eval.applyStmts N fw i cmd [⟨.p1, m1, e1⟩, ⟨.p2, m2, e2⟩] radj
      = some (addAt (addAt radj p (signed m1 v1)) q (signed m2 v2)) := by
  have c1 := revCtx_eq hp hq ha hb hF hR
  have s1 : Eval.applyStmt N fw i cmd radj ⟨.p1, m1, e1⟩ = some (addAt radj p (signed m1 v1)) :=
    applyStmt_spec hm1 (by rw [c1]; exact h1) (by simpa [Eval.refIdx] using hp) (by omega)
  have hR' : (addAt radj p (signed m1 v1))[i]? = some R := by
    rw [getElem?_addAt_ne _ _ (by omega)]; exact hR
  have c2 := revCtx_eq (radj := addAt radj p (signed m1 v1)) hp hq ha hb hF hR'
  have s2 : Eval.applyStmt N fw i cmd (addAt radj p (signed m1 v1)) ⟨.p2, m2, e2⟩
      = some (addAt (addAt radj p (signed m1 v1)) q (signed m2 v2)) :=
    applyStmt_spec hm2 (by rw [c2]; exact h2) (by simpa [Eval.refIdx] using hq)
      (by simp; omega)
  simp [Eval.applyStmts, s1, s2]

lemma applyStmts_single
    (hp : pyIdx N cmd.p1 = some p) (hq : pyIdx N cmd.p2 = some q) (hpi : p < i) (hqi : q < i)
    (hi : i < radj.length) (ha : fw[p]? = some a) (hb : fw[q]? = some b) (hF : fw[i]? = some F)
    (hR : radj[i]? = some R) {m1 : RevMode} {e1 : RExpr} {v1 : ℝ}
    (hm1 : m1 ≠ .assign)
    (h1 : e1.interp (mkCtx (cmd.p1 : ℝ) a b F R) = some v1) :
    Eval.applyStmts N fw i cmd [⟨.p1, m1, e1⟩] radj
      = some (addAt (addAt radj p (signed m1 v1)) q 0) := by
  have c1 := revCtx_eq hp hq ha hb hF hR
  have s1 : Eval.applyStmt N fw i cmd radj ⟨.p1, m1, e1⟩ = some (addAt radj p (signed m1 v1)) :=
    applyStmt_spec hm1 (by rw [c1]; exact h1) (by simpa [Eval.refIdx] using hp) (by omega)
  rw [addAt_zero _ (by simp; omega)]
  simp [Eval.applyStmts, s1]

end

lemma addAt_pair_congr {l : List ℝ} {p q : Nat} {u1 u2 v1 v2 : ℝ} (h1 : u1 = v1) (h2 : u2 = v2) :
    some (addAt (addAt l p u1) q u2) = some (addAt (addAt l p v1) q v2) := by rw [h1, h2]

/-- **The generated reverse rule of every operator node adds `R·∂/∂operand`.**
`R` is the adjoint of the row, `a`, `b` the operand values, the row's own forward value is
`opFn n a b`.  Also when `p = q` (same row used twice): then both increments land on it. -/
theorem revRule_spec {n : Int} (hop : Ops.isTerminal n = some false) {N i p q : Nat} {cmd : Cmd}
    (hp : pyIdx N cmd.p1 = some p) (hq : pyIdx N cmd.p2 = some q) (hpi : p < i) (hqi : q < i)
    {fw radj : List ℝ} (hi : i < radj.length) {a b R : ℝ}
    (ha : fw[p]? = some a) (hb : fw[q]? = some b) (hF : fw[i]? = some (opFn n a b))
    (hR : radj[i]? = some R) (hd : NodeDiff n a b) :
    ∃ stmts, Eval.revRule n = some stmts ∧
      Eval.applyStmts N fw i cmd stmts radj
        = some (addAt (addAt radj p (R * dA n a b)) q (R * dB n a b)) := by
  obtain ⟨hdiv, hlog, habs, hsqrt, hpow, hspow⟩ := hd
  rcases isOp_cases hop with rfl | rfl | rfl | rfl | rfl | rfl | rfl | rfl | rfl | rfl | rfl | rfl | rfl | rfl
  · -- ADDITION
    refine ⟨_, rfl, (applyStmts_pair hp hq hpi hqi hi ha hb hF hR (by decide) (by decide) rfl rfl).trans
      (addAt_pair_congr ?_ ?_)⟩
    · simp [signed, dA_add]
    · simp [signed, dB_add]
  · -- SUBTRACTION
    refine ⟨_, rfl, (applyStmts_pair hp hq hpi hqi hi ha hb hF hR (by decide) (by decide) rfl rfl).trans
      (addAt_pair_congr ?_ ?_)⟩
    · simp [signed, dA_sub]
    · simp [signed, dB_sub]
  · -- MULTIPLICATION
    refine ⟨_, rfl, (applyStmts_pair hp hq hpi hqi hi ha hb hF hR (by decide) (by decide) rfl rfl).trans
      (addAt_pair_congr ?_ ?_)⟩
    · simp [signed, dA_mul]
    · simp [signed, dB_mul]
  · -- DIVISION
    refine ⟨_, rfl, (applyStmts_pair hp hq hpi hqi hi ha hb hF hR (by decide) (by decide) rfl rfl).trans
      (addAt_pair_congr ?_ ?_)⟩
    · simp [signed, dA_div]; ring
    · simp [signed, dB_div, opFn_div]; ring
  · -- SIN
    refine ⟨_, rfl, (applyStmts_single hp hq hpi hqi hi ha hb hF hR (by decide) rfl).trans
      (addAt_pair_congr ?_ ?_)⟩
    · simp [signed, dA_sin, UnFn.apply]
    · simp [dB_sin]
  · -- COS
    refine ⟨_, rfl, (applyStmts_single hp hq hpi hqi hi ha hb hF hR (by decide) rfl).trans
      (addAt_pair_congr ?_ ?_)⟩
    · simp [signed, dA_cos, UnFn.apply]
    · simp [dB_cos]
  · -- EXPONENTIAL
    refine ⟨_, rfl, (applyStmts_single hp hq hpi hqi hi ha hb hF hR (by decide) rfl).trans
      (addAt_pair_congr ?_ ?_)⟩
    · simp [signed, dA_exp, opFn_exp]
    · simp [dB_exp]
  · -- LOGARITHM
    refine ⟨_, rfl, (applyStmts_single hp hq hpi hqi hi ha hb hF hR (by decide) rfl).trans
      (addAt_pair_congr ?_ ?_)⟩
    · simp [signed, dA_log]; ring
    · simp [dB_log]
  · -- POWER
    have ha0 : a ≠ 0 := (hpow rfl).ne'
    refine ⟨_, rfl, (applyStmts_pair hp hq hpi hqi hi ha hb hF hR (by decide) (by decide) rfl rfl).trans
      (addAt_pair_congr ?_ ?_)⟩
    · simp [signed, dA_pow, opFn_pow, Real.rpow_sub_one ha0]; ring
    · simp [signed, dB_pow, opFn_pow, UnFn.apply]; ring
  · -- ABS
    refine ⟨_, rfl, (applyStmts_single hp hq hpi hqi hi ha hb hF hR (by decide) rfl).trans
      (addAt_pair_congr ?_ ?_)⟩
    · simp [signed, dA_abs, UnFn.apply]
    · simp [dB_abs]
  · -- SQRT
    refine ⟨_, rfl, (applyStmts_single hp hq hpi hqi hi ha hb hF hR (by decide) rfl).trans
      (addAt_pair_congr ?_ ?_)⟩
    · simp [signed, dA_sqrt, opFn_sqrt, UnFn.apply]; ring
    · simp [dB_sqrt]
  · -- SAFE_POWER
    have ha0 : a ≠ 0 := hspow rfl
    have habs0 : |a| ≠ 0 := abs_ne_zero.2 ha0
    have hsign : Real.sign a = a / |a| := by
      rcases lt_or_gt_of_ne ha0 with h | h
      · rw [Real.sign_of_neg h, abs_of_neg h]; field_simp
      · rw [Real.sign_of_pos h, abs_of_pos h]; field_simp
    refine ⟨_, rfl, (applyStmts_pair hp hq hpi hqi hi ha hb hF hR (by decide) (by decide) rfl rfl).trans
      (addAt_pair_congr ?_ ?_)⟩
    · simp [signed, dA_safe_pow, opFn_safe_pow, Real.rpow_sub_one habs0, hsign]
      field_simp
      rw [sq_abs]
    · simp [signed, dB_safe_pow, opFn_safe_pow, UnFn.apply]; ring
  · -- SINH
    refine ⟨_, rfl, (applyStmts_single hp hq hpi hqi hi ha hb hF hR (by decide) rfl).trans
      (addAt_pair_congr ?_ ?_)⟩
    · simp [signed, dA_sinh, UnFn.apply]
    · simp [dB_sinh]
  · -- COSH
    refine ⟨_, rfl, (applyStmts_single hp hq hpi hqi hi ha hb hF hR (by decide) rfl).trans
      (addAt_pair_congr ?_ ?_)⟩
    · simp [signed, dA_cosh, UnFn.apply]
    · simp [dB_cosh]

end AD
end Bingo
