import Proofs.Lemmas.CasAutoTop
/-!
# User-facing forms of the specifications of the eight mutually recursive simplifiers

`(soundAt k T f).…` states them with the weak list invariant `OkM` needed inside the induction; here
they are restated for operand lists all of whose members are in the fragment.
-/
namespace Bingo
namespace Cas
open Gen.OpDefs Expr Auto

section
variable {k : Bool} {T : Int → Int → Bool} {f : Nat}

theorem simplifyProductRec_sound {l rs : List Expr} (hl : ∀ e ∈ l, Ok k T e = true)
    (h : simplifyProductRec true f l = .ok rs) :
    (∀ r ∈ rs, Ok k T r = true) ∧ ∀ x cv, P x cv l ⊑ P x cv rs :=
  (soundAt k T f).prodRec l rs (fun e he => OkM_of_Ok (hl e he)) h

theorem mergeProducts_sound {l₁ l₂ rs : List Expr} (h1 : ∀ e ∈ l₁, Ok k T e = true)
    (h2 : ∀ e ∈ l₂, Ok k T e = true) (h : mergeProducts true f l₁ l₂ = .ok rs) :
    (∀ r ∈ rs, Ok k T r = true) ∧ ∀ x cv, omul (P x cv l₁) (P x cv l₂) ⊑ P x cv rs :=
  (soundAt k T f).mergeP l₁ l₂ rs h1 h2 h

theorem simplifyProduct_sound {l : List Expr} {r : Expr} (hl : ∀ e ∈ l, Ok k T e = true)
    (h : simplifyProduct true f l = .ok r) :
    Ok k T r = true ∧ ∀ x cv, den x cv (node MULTIPLICATION l) ⊑ den x cv r := by
  obtain ⟨hok, hd⟩ := (soundAt k T f).prod l r (fun e he => OkM_of_Ok (hl e he))
    (fun a ha => hl a (by rw [ha]; exact List.mem_singleton_self a)) h
  exact ⟨hok, fun x cv => by rw [den_mul]; exact hd x cv⟩

theorem simplifySumRec_sound {l rs : List Expr} (hl : ∀ e ∈ l, Ok k T e = true)
    (h : simplifySumRec true f l = .ok rs) :
    (∀ r ∈ rs, Ok k T r = true) ∧ ∀ x cv, S x cv l ⊑ S x cv rs :=
  (soundAt k T f).sumRec l rs (fun e he => OkM_of_Ok (hl e he)) h

theorem mergeSums_sound {l₁ l₂ rs : List Expr} (h1 : ∀ e ∈ l₁, Ok k T e = true)
    (h2 : ∀ e ∈ l₂, Ok k T e = true) (h : mergeSums true f l₁ l₂ = .ok rs) :
    (∀ r ∈ rs, Ok k T r = true) ∧ ∀ x cv, oadd (S x cv l₁) (S x cv l₂) ⊑ S x cv rs :=
  (soundAt k T f).mergeS l₁ l₂ rs h1 h2 h

theorem simplifySum_sound {l : List Expr} {r : Expr} (hl : ∀ e ∈ l, Ok k T e = true)
    (h : simplifySum true f l = .ok r) :
    Ok k T r = true ∧ ∀ x cv, den x cv (node ADDITION l) ⊑ den x cv r := by
  obtain ⟨hok, hd⟩ := (soundAt k T f).sum l r (fun e he => OkM_of_Ok (hl e he))
    (fun a ha => hl a (by rw [ha]; exact List.mem_singleton_self a)) h
  exact ⟨hok, fun x cv => by rw [den_add]; exact hd x cv⟩

theorem simplifyPower_sound {b r : Expr} {n : Int} {np : Bool} (hb : Ok k T b = true)
    (h : simplifyPower true f b (term INTEGER n np) = .ok r) :
    Ok k T r = true ∧ ∀ x cv, den x cv (node POWER [b, term INTEGER n np]) ⊑ den x cv r := by
  obtain ⟨hok, hd⟩ := (soundAt k T f).pow b _ n np r rfl hb h
  exact ⟨hok, fun x cv => by rw [den_pow_lit]; exact hd x cv⟩

theorem simplifyConstantPower_sound {b r : Expr} {n : Int} {np : Bool} (hb : Ok k T b = true)
    (h : simplifyConstantPower true f b (term INTEGER n np) = .ok r) :
    Ok k T r = true ∧ ∀ x cv, den x cv (node POWER [b, term INTEGER n np]) ⊑ den x cv r := by
  obtain ⟨hok, hd⟩ := (soundAt k T f).cpow b _ n np r rfl hb h
  exact ⟨hok, fun x cv => by rw [den_pow_lit]; exact hd x cv⟩

end

end Cas
end Bingo
