import Proofs.Lemmas.CheckpointFS
/-!
# C13 helper lemmas, part 2: checkpoint rotation during one call

`master` is one induction over the ages at which the call writes checkpoints, with an invariant
`Inv` at the boundaries between `_update_checkpoints` calls and a property `Q` of every reachable
disk state (= the state after a prefix of the steps).
-/
namespace Bingo
namespace Checkpoint

/-! ### observations on step sequences -/

def opensAge : FOp → Option Nat
  | .openW (.temp a) => some a
  | .openW (.ckpt a) => some a
  | _ => none

/-- the generational age whose checkpoint was most recently begun in `p`
(= the optimizer's age at the crash point) -/
def writing (p : List FOp) : Option Nat := (p.filterMap opensAge).getLast?

def isRename : FOp → Bool
  | .rename _ _ => true
  | _ => false

/-- has some `os.replace` already happened in `p`? -/
def hasRename (p : List FOp) : Bool := p.any isRename

/-- the defective variant of `dump_to_file`: write the target file in place -/
def dumpOpsInPlace (a : Nat) : List FOp := [.openW (.ckpt a), .finish (.ckpt a)]

theorem hasRename_of_mem {p : List FOp} {s d : FName} (h : FOp.rename s d ∈ p) :
    hasRename p = true := by
  unfold hasRename; rw [List.any_eq_true]; exact ⟨_, h, rfl⟩

theorem hasRename_append (p q : List FOp) : hasRename (p ++ q) = (hasRename p || hasRename q) := by
  unfold hasRename; exact List.any_append

theorem hasRename_prefix {p q : List FOp} (h : p <+: q) (hq : hasRename q = false) :
    hasRename p = false := by
  obtain ⟨t, rfl⟩ := h
  rw [hasRename_append] at hq
  cases hp : hasRename p
  · rfl
  · rw [hp] at hq; simp at hq

theorem writing_append (p q : List FOp) : writing (p ++ q) = (writing q).or (writing p) := by
  simp [writing, List.filterMap_append, List.getLast?_append]

theorem writing_open (done : List FOp) (a : Nat) :
    writing (done ++ [.openW (.temp a)]) = some a := by
  rw [writing_append]; rfl

theorem writing_open_finish (done : List FOp) (a : Nat) :
    writing (done ++ [.openW (.temp a), .finish (.temp a)]) = some a := by
  rw [writing_append]; rfl

theorem writing_dump (done : List FOp) (a : Nat) :
    writing (done ++ dumpOps a) = some a := by
  rw [writing_append]; rfl

theorem writing_dump_remove (done : List FOp) (a old : Nat) :
    writing (done ++ (dumpOps a ++ [.remove (.ckpt old)])) = some a := by
  rw [writing_append]; rfl

/-! ### `roundOps` -/

theorem tooMany_eq (len n : Nat) : tooMany len n = decide (len > n) := rfl

theorem roundOps_keep {n : Nat} {P : List Nat} (a : Nat) (h : P.length + 1 ≤ n) :
    roundOps (some n) P a = (dumpOps a, P ++ [a]) := by
  unfold roundOps
  simp only [tooMany_eq, List.length_append, List.length_singleton]
  rw [if_neg (by simp; omega)]

theorem roundOps_drop {n : Nat} (old : Nat) (t : List Nat) (a : Nat) (h : n < t.length + 2) :
    roundOps (some n) (old :: t) a = (dumpOps a ++ [.remove (.ckpt old)], t ++ [a]) := by
  unfold roundOps
  simp only [tooMany_eq, List.length_append, List.length_cons]
  rw [if_pos (by simp; omega)]
  rfl

/-! ### counting -/

theorem length_filter_cons_le (S : Nat → Bool) (a : Nat) (l : List Nat) :
    ((a :: l.filter (· ≠ a)).filter S).length ≤ (l.filter S).length + 1 := by
  have h := ((List.filter_sublist (p := (· ≠ a)) (l := l)).filter S).length_le
  rw [List.filter_cons]; split <;> (try simp only [List.length_cons]) <;> omega

theorem length_filter_ne_succ_le (S : Nat → Bool) (old : Nat) (l : List Nat) (hmem : old ∈ l)
    (hS : S old = true) :
    ((l.filter (· ≠ old)).filter S).length + 1 ≤ (l.filter S).length := by
  induction l with
  | nil => simp at hmem
  | cons x xs ih =>
    by_cases hx : x = old
    · subst hx
      have h := ((List.filter_sublist (p := (· ≠ x)) (l := xs)).filter S).length_le
      rw [List.filter_cons_of_neg (by simp), List.filter_cons_of_pos hS, List.length_cons]
      omega
    · have hmem' : old ∈ xs := by
        rcases List.mem_cons.1 hmem with h | h
        · exact absurd h.symm hx
        · exact h
      have := ih hmem'
      rw [List.filter_cons_of_pos (by simpa using hx)]
      by_cases hSx : S x = true
      · rw [List.filter_cons_of_pos hSx, List.filter_cons_of_pos hSx, List.length_cons,
          List.length_cons]
        omega
      · rw [List.filter_cons_of_neg hSx, List.filter_cons_of_neg hSx]
        exact this

/-! ### the invariant -/

section Master
variable (n : Nat) (fs0 : FS) (ages0 : List Nat) (S : Nat → Bool) (c : Nat)

/-- invariant between two `_update_checkpoints` calls: `done` = steps so far, `ages` = ages still
to come, `fs` = disk, `P` = `_previous_checkpoints` -/
structure Inv (done : List FOp) (ages : List Nat) (fs : FS) (P : List Nat) : Prop where
  complete : ∀ b ∈ P, b ∈ completeCkpts fs
  renamed : ∀ b ∈ P, FOp.rename (.temp b) (.ckpt b) ∈ done
  sorted : (P ++ ages).Pairwise (· < ·)
  len : P.length ≤ n
  fresh : P = [] → done = [] ∧ fs = fs0 ∧ ages = ages0
  wr : ∀ g, writing done = some g → ∀ b ∈ P, b ≤ g
  own : ∀ b ∈ P, S b = true
  future : ∀ a ∈ ages, S a = true
  cnt : P ≠ [] → ((ckptFiles fs).filter S).length ≤ c + P.length

/-- what holds in every reachable state `fs'`, reached by the steps `p` -/
def Q (p : List FOp) (fs' : FS) : Prop :=
  (hasRename p = false →
    completeCkpts fs' = completeCkpts fs0 ∧ ckptFiles fs' = ckptFiles fs0) ∧
  (hasRename p = true →
    ∃ b ∈ completeCkpts fs', FOp.rename (.temp b) (.ckpt b) ∈ p ∧
      ∀ g, writing p = some g → b ≤ g) ∧
  (hasRename p = true → ((ckptFiles fs').filter S).length ≤ c + n + 1)

variable {n fs0 ages0 S c}

theorem Inv.nil_of_not_hasRename {done : List FOp} {ages : List Nat} {fs : FS} {P : List Nat}
    (h : Inv n fs0 ages0 S c done ages fs P) (hr : hasRename done = false) : P = [] := by
  cases P with
  | nil => rfl
  | cons b t =>
    have := hasRename_of_mem (h.renamed b (List.mem_cons_self ..))
    rw [hr] at this; contradiction

theorem Inv.ne_nil_of_hasRename {done : List FOp} {ages : List Nat} {fs : FS} {P : List Nat}
    (h : Inv n fs0 ages0 S c done ages fs P) (hr : hasRename done = true) : P ≠ [] := by
  intro hP
  obtain ⟨h1, _⟩ := h.fresh hP
  subst h1; simp [hasRename] at hr

theorem Q_of_Inv {done : List FOp} {ages : List Nat} {fs : FS} {P : List Nat}
    (h : Inv n fs0 ages0 S c done ages fs P) : Q n fs0 S c done fs := by
  refine ⟨fun hr => ?_, fun hr => ?_, fun hr => ?_⟩
  · obtain ⟨_, h2, _⟩ := h.fresh (h.nil_of_not_hasRename hr)
    subst h2; exact ⟨rfl, rfl⟩
  · obtain ⟨b, t, rfl⟩ := List.exists_cons_of_ne_nil (h.ne_nil_of_hasRename hr)
    have hb : b ∈ b :: t := List.mem_cons_self ..
    exact ⟨b, h.complete b hb, h.renamed b hb, fun g hg => h.wr g hg b hb⟩
  · have := h.cnt (h.ne_nil_of_hasRename hr)
    have := h.len
    omega

theorem Inv.lt_next {done : List FOp} {a : Nat} {rest : List Nat} {fs : FS} {P : List Nat}
    (h : Inv n fs0 ages0 S c done (a :: rest) fs P) {b : Nat} (hb : b ∈ P) : b < a :=
  (List.pairwise_append.1 h.sorted).2.2 b hb a (List.mem_cons_self ..)

/-- states inside a dump, before the rename -/
theorem Q_mid {done : List FOp} {a : Nat} {rest : List Nat} {fs : FS} {P : List Nat}
    (h : Inv n fs0 ages0 S c done (a :: rest) fs P) (q : List FOp) (fs' : FS)
    (hC : completeCkpts fs' = completeCkpts fs) (hF : ckptFiles fs' = ckptFiles fs)
    (hq : hasRename q = false) (hw : writing (done ++ q) = some a) :
    Q n fs0 S c (done ++ q) fs' := by
  have hrr : hasRename (done ++ q) = hasRename done := by rw [hasRename_append, hq]; simp
  refine ⟨fun hr => ?_, fun hr => ?_, fun hr => ?_⟩
  · rw [hrr] at hr
    obtain ⟨_, h2, _⟩ := h.fresh (h.nil_of_not_hasRename hr)
    subst h2; exact ⟨hC, hF⟩
  · rw [hrr] at hr
    obtain ⟨b, t, rfl⟩ := List.exists_cons_of_ne_nil (h.ne_nil_of_hasRename hr)
    have hb : b ∈ b :: t := List.mem_cons_self ..
    refine ⟨b, hC ▸ h.complete b hb, List.mem_append_left _ (h.renamed b hb), fun g hg => ?_⟩
    rw [hw] at hg; injection hg with hg; subst hg
    exact Nat.le_of_lt (h.lt_next hb)
  · rw [hrr] at hr
    have := h.cnt (h.ne_nil_of_hasRename hr)
    have := h.len
    rw [hF]; omega

theorem rename_mem_dumpOps (a : Nat) : FOp.rename (.temp a) (.ckpt a) ∈ dumpOps a := by
  simp [dumpOps_eq]

/-- the state right after the rename when a removal follows -/
theorem Q_renamed {done : List FOp} {a : Nat} {rest : List Nat} {fs : FS} {P : List Nat}
    (h : Inv n fs0 ages0 S c done (a :: rest) fs P) (hP : P ≠ []) (fs3 : FS)
    (hC : completeCkpts fs3 = a :: (completeCkpts fs).filter (· ≠ a))
    (hF : ckptFiles fs3 = a :: (ckptFiles fs).filter (· ≠ a)) :
    Q n fs0 S c (done ++ dumpOps a) fs3 := by
  have hrr : hasRename (done ++ dumpOps a) = true :=
    hasRename_of_mem (List.mem_append_right _ (rename_mem_dumpOps a))
  refine ⟨fun hr => ?_, fun _ => ?_, fun _ => ?_⟩
  · rw [hrr] at hr; contradiction
  · refine ⟨a, by rw [hC]; exact List.mem_cons_self .., List.mem_append_right _ (rename_mem_dumpOps a),
      fun g hg => ?_⟩
    rw [writing_dump] at hg; injection hg with hg; subst hg; exact Nat.le_refl _
  · have h1 := length_filter_cons_le S a (ckptFiles fs)
    have := h.cnt hP
    have := h.len
    rw [hF]; omega

theorem Inv_keep (hc : ∀ a rest, ages0 = a :: rest →
      (((ckptFiles fs0).filter (· ≠ a)).filter S).length ≤ c)
    {done : List FOp} {a : Nat} {rest : List Nat} {fs : FS} {P : List Nat}
    (h : Inv n fs0 ages0 S c done (a :: rest) fs P) (hk : P.length + 1 ≤ n) (fs3 : FS)
    (hC : completeCkpts fs3 = a :: (completeCkpts fs).filter (· ≠ a))
    (hF : ckptFiles fs3 = a :: (ckptFiles fs).filter (· ≠ a)) :
    Inv n fs0 ages0 S c (done ++ dumpOps a) rest fs3 (P ++ [a]) where
  complete := by
    intro b hb
    rw [hC]
    rcases List.mem_append.1 hb with hb | hb
    · have hlt := h.lt_next hb
      refine List.mem_cons_of_mem _ (List.mem_filter.2 ⟨h.complete b hb, ?_⟩)
      simp; omega
    · have : b = a := by simpa using hb
      subst this; exact List.mem_cons_self ..
  renamed := by
    intro b hb
    rcases List.mem_append.1 hb with hb | hb
    · exact List.mem_append_left _ (h.renamed b hb)
    · have : b = a := by simpa using hb
      subst this; exact List.mem_append_right _ (rename_mem_dumpOps b)
  sorted := by simpa [List.append_assoc] using h.sorted
  len := by simp; omega
  fresh := by intro hP; simp at hP
  wr := by
    intro g hg b hb
    rw [writing_dump] at hg; injection hg with hg; subst hg
    rcases List.mem_append.1 hb with hb | hb
    · exact Nat.le_of_lt (h.lt_next hb)
    · have : b = a := by simpa using hb
      omega
  own := by
    intro b hb
    rcases List.mem_append.1 hb with hb | hb
    · exact h.own b hb
    · have : b = a := by simpa using hb
      subst this; exact h.future b (List.mem_cons_self ..)
  future := fun a' ha' => h.future a' (List.mem_cons_of_mem _ ha')
  cnt := by
    intro _
    rw [hF]
    by_cases hP : P = []
    · obtain ⟨_, h2, h3⟩ := h.fresh hP
      subst h2 hP
      have := hc a rest h3.symm
      rw [List.filter_cons]
      split <;> simp only [List.length_cons, List.length_nil, List.length_append] <;> omega
    · have h1 := length_filter_cons_le S a (ckptFiles fs)
      have := h.cnt hP
      simp only [List.length_append, List.length_singleton]; omega

theorem Inv_drop {done : List FOp} {a : Nat} {rest : List Nat} {fs : FS} {old : Nat} {t : List Nat}
    (h : Inv n fs0 ages0 S c done (a :: rest) fs (old :: t)) (fs3 fs4 : FS)
    (hC : completeCkpts fs3 = a :: (completeCkpts fs).filter (· ≠ a))
    (hF : ckptFiles fs3 = a :: (ckptFiles fs).filter (· ≠ a))
    (hC4 : completeCkpts fs4 = (completeCkpts fs3).filter (· ≠ old))
    (hF4 : ckptFiles fs4 = (ckptFiles fs3).filter (· ≠ old)) :
    Inv n fs0 ages0 S c (done ++ (dumpOps a ++ [.remove (.ckpt old)])) rest fs4 (t ++ [a]) := by
  have hsorted : (old :: (t ++ a :: rest)).Pairwise (· < ·) := by simpa using h.sorted
  have hold : ∀ b ∈ t ++ [a], old < b := by
    intro b hb
    refine (List.pairwise_cons.1 hsorted).1 b ?_
    rcases List.mem_append.1 hb with hb | hb
    · exact List.mem_append_left _ hb
    · exact List.mem_append_right _ (List.mem_cons.2 (Or.inl (by simpa using hb)))
  have hold_a : old < a := h.lt_next (List.mem_cons_self ..)
  have hmem3 : old ∈ ckptFiles fs3 := by
    rw [hF]
    refine List.mem_cons_of_mem _ (List.mem_filter.2
      ⟨completeCkpts_subset_ckptFiles (h.complete old (List.mem_cons_self ..)), ?_⟩)
    simp; omega
  exact {
    complete := by
      intro b hb
      have hlt := hold b hb
      rw [hC4, hC]
      refine List.mem_filter.2 ⟨?_, by simp; omega⟩
      rcases List.mem_append.1 hb with hb | hb
      · have hba := h.lt_next (List.mem_cons_of_mem _ hb)
        refine List.mem_cons_of_mem _ (List.mem_filter.2
          ⟨h.complete b (List.mem_cons_of_mem _ hb), ?_⟩)
        simp; omega
      · have : b = a := by simpa using hb
        subst this; exact List.mem_cons_self ..
    renamed := by
      intro b hb
      rcases List.mem_append.1 hb with hb | hb
      · exact List.mem_append_left _ (h.renamed b (List.mem_cons_of_mem _ hb))
      · have : b = a := by simpa using hb
        subst this
        exact List.mem_append_right _ (List.mem_append_left _ (rename_mem_dumpOps b))
    sorted := by simpa [List.append_assoc] using (List.pairwise_cons.1 hsorted).2
    len := by have := h.len; simp at this ⊢; omega
    fresh := by intro hP; simp at hP
    wr := by
      intro g hg b hb
      rw [writing_dump_remove] at hg; injection hg with hg; subst hg
      rcases List.mem_append.1 hb with hb | hb
      · exact Nat.le_of_lt (h.lt_next (List.mem_cons_of_mem _ hb))
      · have : b = a := by simpa using hb
        omega
    own := by
      intro b hb
      rcases List.mem_append.1 hb with hb | hb
      · exact h.own b (List.mem_cons_of_mem _ hb)
      · have : b = a := by simpa using hb
        subst this; exact h.future b (List.mem_cons_self ..)
    future := fun a' ha' => h.future a' (List.mem_cons_of_mem _ ha')
    cnt := by
      intro _
      have h1 := length_filter_cons_le S a (ckptFiles fs)
      have h2 := length_filter_ne_succ_le S old (ckptFiles fs3) hmem3
        (h.own old (List.mem_cons_self ..))
      have h3 := h.cnt (by simp)
      rw [hF4]; rw [hF] at h2 ⊢
      simp only [List.length_append, List.length_cons] at h3 ⊢
      omega }

theorem master (hn : 1 ≤ n)
    (hc : ∀ a rest, ages0 = a :: rest → (((ckptFiles fs0).filter (· ≠ a)).filter S).length ≤ c) :
    ∀ (ages : List Nat) (done : List FOp) (fs : FS) (P : List Nat),
      Inv n fs0 ages0 S c done ages fs P →
      ∀ p, p <+: callOps (some n) P ages →
        ∃ fs', fsRun fs p = some fs' ∧ Q n fs0 S c (done ++ p) fs' := by
  intro ages
  induction ages with
  | nil =>
    intro done fs P hInv p hp
    have : p = [] := List.prefix_nil.1 hp
    subst this
    exact ⟨fs, rfl, by simpa using Q_of_Inv hInv⟩
  | cons a rest ih =>
    intro done fs P hInv p hp
    obtain ⟨fs1, fs2, fs3, hr1, hr2, hr3, hC1, hF1, hC2, hF2, hC3, hF3⟩ := dump_states fs a
    by_cases hk : P.length + 1 ≤ n
    · rw [callOps, roundOps_keep a hk] at hp
      simp only [dumpOps_eq, List.cons_append, List.nil_append] at hp
      rcases List.prefix_cons_iff.1 hp with rfl | ⟨p1, rfl, hp1⟩
      · exact ⟨fs, rfl, by simpa using Q_of_Inv hInv⟩
      rcases List.prefix_cons_iff.1 hp1 with rfl | ⟨p2, rfl, hp2⟩
      · exact ⟨fs1, hr1, Q_mid hInv _ fs1 hC1 hF1 rfl (writing_open done a)⟩
      rcases List.prefix_cons_iff.1 hp2 with rfl | ⟨p3, rfl, hp3⟩
      · exact ⟨fs2, hr2, Q_mid hInv _ fs2 hC2 hF2 rfl (writing_open_finish done a)⟩
      obtain ⟨fs', hrun, hQ⟩ := ih (done ++ dumpOps a) fs3 (P ++ [a])
        (Inv_keep hc hInv hk fs3 hC3 hF3) p3 hp3
      refine ⟨fs', ?_, ?_⟩
      · have := fsRun_append fs (dumpOps a) p3
        rw [hr3] at this
        simpa [dumpOps_eq] using this.trans hrun
      · simpa [dumpOps_eq] using hQ
    · have hP : P ≠ [] := by intro hP; subst hP; simp at hk; omega
      obtain ⟨old, t, rfl⟩ := List.exists_cons_of_ne_nil hP
      have hlen : n < t.length + 2 := by simp at hk; omega
      rw [callOps, roundOps_drop old t a hlen] at hp
      simp only [dumpOps_eq, List.cons_append, List.nil_append] at hp
      rcases List.prefix_cons_iff.1 hp with rfl | ⟨p1, rfl, hp1⟩
      · exact ⟨fs, rfl, by simpa using Q_of_Inv hInv⟩
      rcases List.prefix_cons_iff.1 hp1 with rfl | ⟨p2, rfl, hp2⟩
      · exact ⟨fs1, hr1, Q_mid hInv _ fs1 hC1 hF1 rfl (writing_open done a)⟩
      rcases List.prefix_cons_iff.1 hp2 with rfl | ⟨p3, rfl, hp3⟩
      · exact ⟨fs2, hr2, Q_mid hInv _ fs2 hC2 hF2 rfl (writing_open_finish done a)⟩
      rcases List.prefix_cons_iff.1 hp3 with rfl | ⟨p4, rfl, hp4⟩
      · exact ⟨fs3, by simpa [dumpOps_eq] using hr3,
          by simpa [dumpOps_eq] using Q_renamed hInv hP fs3 hC3 hF3⟩
      have hmem3 : old ∈ ckptFiles fs3 := by
        rw [hF3]
        have hlt := hInv.lt_next (List.mem_cons_self ..)
        refine List.mem_cons_of_mem _ (List.mem_filter.2
          ⟨completeCkpts_subset_ckptFiles (hInv.complete old (List.mem_cons_self ..)), ?_⟩)
        simp; omega
      obtain ⟨fs4, hr4, hC4, hF4⟩ := remove_state hmem3
      obtain ⟨fs', hrun, hQ⟩ := ih (done ++ (dumpOps a ++ [.remove (.ckpt old)])) fs4 (t ++ [a])
        (Inv_drop hInv fs3 fs4 hC3 hF3 hC4 hF4) p4 hp4
      refine ⟨fs', ?_, ?_⟩
      · have h1 := fsRun_append fs (dumpOps a) (.remove (.ckpt old) :: p4)
        rw [hr3] at h1
        have h2 := fsRun_append fs3 [.remove (.ckpt old)] p4
        rw [hr4] at h2
        simp only [List.singleton_append] at h2
        simpa [dumpOps_eq] using h1.trans (h2.trans hrun)
      · simpa [dumpOps_eq] using hQ

end Master

end Checkpoint
end Bingo
