import Model.AGraphState
/-!
# Helper definitions and lemmas about the `AGraph` state machine (`Model/AGraphState.lean`)

`derive : Bool → Stack → Stack` (the simplifier) and `one : V` (the default constant) are arbitrary
throughout.
-/
namespace Bingo
namespace AG

variable {V : Type}

/-! ## constant renumbering keeps the number of constants -/

theorem numConsts_go : ∀ (l : List Cmd) (k : Nat),
    Renumber.numConsts (Renumber.go l k) = Renumber.numConsts l := by
  intro l
  induction l with
  | nil => intro k; rfl
  | cons cmd rest ih =>
    intro k
    have ih' := fun k => ih k
    simp only [Renumber.numConsts] at ih' ⊢
    simp only [Renumber.go]
    split
    next h => simp [h, ih']
    next h => simp [h, ih']

theorem numConsts_renumber (t : Stack) :
    Renumber.numConsts (Renumber.renumber t) = Renumber.numConsts t :=
  numConsts_go t 0

/-! ## legality of histories, the cache invariant -/

/-- `set_local_optimization_params(p)` is legal in state `s` only when `len(p)` equals what
`get_number_local_optimization_params()` returns in `s`; every other operation is always legal -/
def LegalOp (derive : Bool → Stack → Stack) (one : V) (s : St V) : Op V → Prop
  | .setConsts p => p.length = (observe derive one s).2.consts.length
  | _ => True

instance (derive : Bool → Stack → Stack) (one : V) (s : St V) (op : Op V) :
    Decidable (LegalOp derive one s op) := by
  cases op <;> unfold LegalOp <;> infer_instance

/-- a history is legal from `s` when every operation is legal in the state it is applied to -/
def Legal (derive : Bool → Stack → Stack) (one : V) : St V → List (Op V) → Prop
  | _, [] => True
  | s, op :: ops => LegalOp derive one s op ∧ Legal derive one (step derive one s op) ops

instance instDecidableLegal (derive : Bool → Stack → Stack) (one : V) :
    ∀ (s : St V) (ops : List (Op V)), Decidable (Legal derive one s ops)
  | _, [] => isTrue trivial
  | s, op :: ops =>
    have := instDecidableLegal derive one (step derive one s op) ops
    inferInstanceAs (Decidable (LegalOp derive one s op ∧ Legal derive one (step derive one s op) ops))

@[simp] theorem legal_nil (derive : Bool → Stack → Stack) (one : V) (s : St V) :
    Legal derive one s [] := trivial

@[simp] theorem legal_cons (derive : Bool → Stack → Stack) (one : V) (s : St V) (op : Op V)
    (ops : List (Op V)) :
    Legal derive one s (op :: ops) ↔
      LegalOp derive one s op ∧ Legal derive one (step derive one s op) ops := Iff.rfl

theorem legal_append (derive : Bool → Stack → Stack) (one : V) :
    ∀ (s : St V) (a b : List (Op V)),
      Legal derive one s (a ++ b) ↔
        Legal derive one s a ∧ Legal derive one (run derive one s a) b := by
  intro s a
  induction a generalizing s with
  | nil => intro b; simp [run]
  | cons op a ih =>
    intro b
    have := ih (step derive one s op) b
    simp only [run] at this
    simp [run, this, and_assoc]

/-- the cache is either stale (`_modified`) or consistent with the command stack: the simplified
stack is the renumbered simplification and there are exactly as many constants as it has `CONSTANT`
rows -/
def Inv (derive : Bool → Stack → Stack) (_one : V) (s : St V) : Prop :=
  s.modified = true ∨
    (s.simp = Renumber.renumber (derive s.useSimp s.cmd) ∧
      s.consts.length = Renumber.numConsts s.simp)

/-! ## `run` -/

@[simp] theorem run_nil (derive : Bool → Stack → Stack) (one : V) (s : St V) :
    run derive one s [] = s := rfl

@[simp] theorem run_cons (derive : Bool → Stack → Stack) (one : V) (s : St V) (op : Op V)
    (ops : List (Op V)) :
    run derive one s (op :: ops) = run derive one (step derive one s op) ops := rfl

theorem run_append (derive : Bool → Stack → Stack) (one : V) (s : St V) (a b : List (Op V)) :
    run derive one s (a ++ b) = run derive one (run derive one s a) b := by
  simp [run, List.foldl_append]

/-! ## `update` / `ensure` -/

theorem update_modified (derive : Bool → Stack → Stack) (one : V) (s : St V) :
    (update derive one s).modified = false := by
  unfold update; simp only []; split <;> rfl

theorem update_simp (derive : Bool → Stack → Stack) (one : V) (s : St V) :
    (update derive one s).simp = Renumber.renumber (derive s.useSimp s.cmd) := by
  unfold update; simp only []; split <;> rfl

theorem update_cmd (derive : Bool → Stack → Stack) (one : V) (s : St V) :
    (update derive one s).cmd = s.cmd := by
  unfold update; simp only []; split <;> rfl

theorem update_useSimp (derive : Bool → Stack → Stack) (one : V) (s : St V) :
    (update derive one s).useSimp = s.useSimp := by
  unfold update; simp only []; split <;> rfl

theorem update_fit (derive : Bool → Stack → Stack) (one : V) (s : St V) :
    (update derive one s).fit = s.fit := by
  unfold update; simp only []; split <;> rfl

theorem update_fitSet (derive : Bool → Stack → Stack) (one : V) (s : St V) :
    (update derive one s).fitSet = s.fitSet := by
  unfold update; simp only []; split <;> rfl

theorem update_age (derive : Bool → Stack → Stack) (one : V) (s : St V) :
    (update derive one s).age = s.age := by
  unfold update; simp only []; split <;> rfl

/-- the constants after `_update`: truncated when there are enough, reset to `one` otherwise -/
theorem update_consts (derive : Bool → Stack → Stack) (one : V) (s : St V) :
    (update derive one s).consts =
      (let n := Renumber.numConsts (Renumber.renumber (derive s.useSimp s.cmd))
       if n ≤ s.consts.length then s.consts.take n else List.replicate n one) := by
  unfold update; simp only []; split <;> rfl

/-- after `_update` there are exactly `num_const` constants, in both branches -/
theorem update_consts_length (derive : Bool → Stack → Stack) (one : V) (s : St V) :
    (update derive one s).consts.length = Renumber.numConsts (update derive one s).simp := by
  rw [update_simp, update_consts]
  simp only []
  split
  next h => simp [List.length_take, Nat.min_eq_left h]
  next h => simp

/-- the observable part of `_update` depends only on `(use_simplification, command_array,
constants)` -/
theorem update_congr (derive : Bool → Stack → Stack) (one : V) (s t : St V)
    (hu : s.useSimp = t.useSimp) (hc : s.cmd = t.cmd) (hk : s.consts = t.consts) :
    (update derive one s).simp = (update derive one t).simp ∧
      (update derive one s).consts = (update derive one t).consts ∧
      (update derive one s).cmd = (update derive one t).cmd := by
  simp [update_simp, update_consts, update_cmd, hu, hc, hk]

theorem inv_update (derive : Bool → Stack → Stack) (one : V) (s : St V) :
    Inv derive one (update derive one s) := by
  right
  refine ⟨?_, update_consts_length derive one s⟩
  rw [update_simp, update_useSimp, update_cmd]

theorem ensure_modified (derive : Bool → Stack → Stack) (one : V) (s : St V) :
    (ensure derive one s).modified = false := by
  unfold ensure
  split
  · exact update_modified derive one s
  · next h => simpa using h

theorem ensure_of_not_modified (derive : Bool → Stack → Stack) (one : V) (s : St V)
    (h : s.modified = false) : ensure derive one s = s := by
  simp [ensure, h]

theorem ensure_of_modified (derive : Bool → Stack → Stack) (one : V) (s : St V)
    (h : s.modified = true) : ensure derive one s = update derive one s := by
  simp [ensure, h]

theorem ensure_idem (derive : Bool → Stack → Stack) (one : V) (s : St V) :
    ensure derive one (ensure derive one s) = ensure derive one s :=
  ensure_of_not_modified derive one _ (ensure_modified derive one s)

theorem ensure_cmd (derive : Bool → Stack → Stack) (one : V) (s : St V) :
    (ensure derive one s).cmd = s.cmd := by
  unfold ensure; split
  · exact update_cmd derive one s
  · rfl

theorem ensure_useSimp (derive : Bool → Stack → Stack) (one : V) (s : St V) :
    (ensure derive one s).useSimp = s.useSimp := by
  unfold ensure; split
  · exact update_useSimp derive one s
  · rfl

theorem ensure_fit (derive : Bool → Stack → Stack) (one : V) (s : St V) :
    (ensure derive one s).fit = s.fit := by
  unfold ensure; split
  · exact update_fit derive one s
  · rfl

theorem ensure_fitSet (derive : Bool → Stack → Stack) (one : V) (s : St V) :
    (ensure derive one s).fitSet = s.fitSet := by
  unfold ensure; split
  · exact update_fitSet derive one s
  · rfl

theorem ensure_age (derive : Bool → Stack → Stack) (one : V) (s : St V) :
    (ensure derive one s).age = s.age := by
  unfold ensure; split
  · exact update_age derive one s
  · rfl

theorem inv_ensure (derive : Bool → Stack → Stack) (one : V) (s : St V)
    (h : Inv derive one s) : Inv derive one (ensure derive one s) := by
  unfold ensure; split
  · exact inv_update derive one s
  · exact h

/-- a non-stale state satisfying the invariant is a fixed point of `_update` as far as the
observation goes -/
theorem update_of_inv (derive : Bool → Stack → Stack) (one : V) (s : St V)
    (h1 : s.simp = Renumber.renumber (derive s.useSimp s.cmd))
    (h2 : s.consts.length = Renumber.numConsts s.simp) :
    (update derive one s).simp = s.simp ∧ (update derive one s).consts = s.consts := by
  refine ⟨by rw [update_simp, h1], ?_⟩
  rw [update_consts]
  simp only []
  rw [← h1, ← h2]
  simp

/-! ## `observe` -/

@[simp] theorem observe_fst (derive : Bool → Stack → Stack) (one : V) (s : St V) :
    (observe derive one s).1 = ensure derive one s := rfl

theorem observe_snd (derive : Bool → Stack → Stack) (one : V) (s : St V) :
    (observe derive one s).2 =
      { simp := (ensure derive one s).simp, consts := (ensure derive one s).consts,
        cmd := (ensure derive one s).cmd } := rfl

/-! ## the command stack as a function of the writes only -/

/-- the effect of one operation on the command stack: only `command_array = a` and
`mutable_command_array[i] = row` matter -/
def cmdStep (c : Stack) : Op V → Stack
  | .setCmd a => a
  | .editRow i row => c.set i row
  | _ => c

/-- the command stack after a history, computed from the write operations only -/
def cmdOf (c : Stack) (ops : List (Op V)) : Stack := ops.foldl cmdStep c

theorem step_cmd (derive : Bool → Stack → Stack) (one : V) (s : St V) (op : Op V) :
    (step derive one s op).cmd = cmdStep s.cmd op := by
  cases op <;> simp [step, cmdStep, setCmd, editRow, notify, setConsts, setFitness, resetFlag, ensure_cmd]

theorem step_useSimp (derive : Bool → Stack → Stack) (one : V) (s : St V) (op : Op V) :
    (step derive one s op).useSimp = s.useSimp := by
  cases op <;> simp [step, setCmd, editRow, notify, setConsts, setFitness, resetFlag, ensure_useSimp]

/-! ## two objects side by side (source and copy) -/

/-- a world with two equation objects; an operation tagged `false` acts on the first (the source),
one tagged `true` on the second (the copy) -/
def stepPair (derive : Bool → Stack → Stack) (one : V) (p : St V × St V) (t : Bool × Op V) :
    St V × St V :=
  if t.1 then (p.1, step derive one p.2 t.2) else (step derive one p.1 t.2, p.2)

def runPair (derive : Bool → Stack → Stack) (one : V) (p : St V × St V)
    (ops : List (Bool × Op V)) : St V × St V :=
  ops.foldl (stepPair derive one) p

/-- the operations of an interleaved history that act on the object with tag `b` -/
def opsOf (b : Bool) (ops : List (Bool × Op V)) : List (Op V) :=
  (ops.filter (fun t => t.1 == b)).map (·.2)

theorem runPair_eq (derive : Bool → Stack → Stack) (one : V) :
    ∀ (ops : List (Bool × Op V)) (p : St V × St V),
      runPair derive one p ops =
        (run derive one p.1 (opsOf false ops), run derive one p.2 (opsOf true ops)) := by
  intro ops
  induction ops with
  | nil => intro p; rfl
  | cons t ops ih =>
    intro p
    obtain ⟨b, op⟩ := t
    have := ih (stepPair derive one p (b, op))
    simp only [runPair, List.foldl_cons] at this ⊢
    rw [this]
    cases b <;> simp [stepPair, opsOf, run]

/-! ## writes -/

/-- a write operation: `command_array = a` or `mutable_command_array[i] = row` -/
def IsWrite : Op V → Prop
  | .setCmd _ => True
  | .editRow _ _ => True
  | _ => False

/-- after a write the invariant holds whatever the state was before -/
theorem inv_write (derive : Bool → Stack → Stack) (one : V) (s : St V) (w : Op V) (hw : IsWrite w) :
    Inv derive one (step derive one s w) := by
  cases w with
  | setCmd a => left; rfl
  | editRow i row => left; rfl
  | setConsts p => cases hw
  | observe => cases hw
  | setFitness v => cases hw
  | resetFlag => cases hw

/-! ## concrete data for the non-vacuity examples of C18 -/

namespace Ex

/-- `X_0` -/
def x : Cmd := ⟨0, 0, 0⟩
/-- a constant (its parameter columns are rewritten by `_update`) -/
def c : Cmd := ⟨1, 7, 7⟩
/-- row 0 times row 1 -/
def xc : Cmd := ⟨4, 0, 1⟩

def idDerive : Bool → Stack → Stack := fun _ s => s

/-- `command_array = [x, c, x*c]; observe; set params [5]; observe; row 0 := c; observe;
set params [5, 6]; fitness = 3; row 0 := x; observe` -/
def hist : List (Op Int) :=
  [.setCmd [x, c, xc], .observe, .setConsts [5], .observe, .editRow 0 c, .observe,
   .setConsts [5, 6], .setFitness (some 3), .editRow 0 x, .observe]

end Ex

end AG
end Bingo
