import Proofs.Lemmas.SavGol
import Mathlib.Algebra.Order.Field.Basic
/-!
# One row of `ImplicitRegression.evaluate_fitness_vector` and the mean absolute error over rows
-/
namespace Bingo
namespace SavGol

/-- `np.mean(np.abs(v))`; the empty vector gives NaN (`none`) -/
def meanAbs (rs : List Rat) : Option Rat :=
  if rs = [] then none else some ((rs.map fun r => |r|).sum / (rs.length : Rat))

/-- mean absolute error of the implicit fitness vector: `none` = some row is non-finite (the
metric is then `inf`/`nan`) or there are no rows -/
def fitnessMae (rows : List (List Rat)) : Option Rat :=
  (rows.mapM implicitRow).bind meanAbs

theorem ite_neg_eq_abs (d : Rat) : (if d < 0 then -d else d) = |d| := by
  split
  · rename_i h; rw [abs_of_neg h]
  · rename_i h; rw [abs_of_nonneg (not_lt.mp h)]

theorem implicitRow_eq (dot : List Rat) :
    implicitRow dot
      = if (dot.map fun d => |d|).sum = 0 then none
        else some (dot.sum / (dot.map fun d => |d|).sum) := by
  unfold implicitRow
  simp only [foldl_add_eq_sum', zero_add, ite_neg_eq_abs]

theorem sum_abs_nonneg (l : List Rat) : 0 ≤ (l.map fun d => |d|).sum := by
  induction l with
  | nil => simp
  | cons a l ih => simp only [List.map_cons, List.sum_cons]; have := abs_nonneg a; linarith

theorem abs_sum_le_sum_abs (l : List Rat) : |l.sum| ≤ (l.map fun d => |d|).sum := by
  induction l with
  | nil => simp
  | cons a l ih =>
    simp only [List.map_cons, List.sum_cons]
    have := abs_add_le a l.sum
    linarith

theorem sum_abs_eq_zero_iff (l : List Rat) : (l.map fun d => |d|).sum = 0 ↔ ∀ d ∈ l, d = 0 := by
  induction l with
  | nil => simp
  | cons a l ih =>
    simp only [List.map_cons, List.sum_cons, List.mem_cons, forall_eq_or_imp]
    have h1 := abs_nonneg a
    have h2 := sum_abs_nonneg l
    constructor
    · intro h
      have ha : |a| = 0 := by linarith
      have hl : (l.map fun d => |d|).sum = 0 := by linarith
      exact ⟨abs_eq_zero.mp ha, ih.mp hl⟩
    · rintro ⟨rfl, hl⟩
      rw [ih.mpr hl]; simp

theorem sum_map_mul_left (α : Rat) (l : List Rat) : (l.map (α * ·)).sum = α * l.sum := by
  induction l with
  | nil => simp
  | cons a l ih => simp [ih, mul_add]

theorem sum_abs_map_mul_left (α : Rat) (l : List Rat) :
    ((l.map (α * ·)).map fun d => |d|).sum = |α| * (l.map fun d => |d|).sum := by
  induction l with
  | nil => simp
  | cons a l ih =>
    simp only [List.map_cons, List.sum_cons, abs_mul, mul_add]
    rw [ih]

theorem implicitRow_none_iff (dot : List Rat) :
    implicitRow dot = none ↔ (dot.map fun d => |d|).sum = 0 := by
  rw [implicitRow_eq]; split <;> simp [*]

theorem implicitRow_range {dot : List Rat} {r : Rat} (h : implicitRow dot = some r) :
    -1 ≤ r ∧ r ≤ 1 := by
  rw [implicitRow_eq] at h
  split at h
  · cases h
  · rename_i hne
    have hpos : 0 < (dot.map fun d => |d|).sum :=
      lt_of_le_of_ne (sum_abs_nonneg dot) (Ne.symm hne)
    have hle := abs_sum_le_sum_abs dot
    obtain ⟨h1, h2⟩ := abs_le.mp hle
    cases h
    constructor
    · rw [le_div_iff₀ hpos]; linarith
    · rw [div_le_iff₀ hpos]; linarith

theorem implicitRow_scale (dot : List Rat) (α : Rat) (hα : α ≠ 0) :
    implicitRow (dot.map (α * ·))
      = (implicitRow dot).map fun r => α / |α| * r := by
  have hα' : |α| ≠ 0 := abs_ne_zero.mpr hα
  rw [implicitRow_eq, implicitRow_eq, sum_map_mul_left, sum_abs_map_mul_left]
  by_cases h0 : (dot.map fun d => |d|).sum = 0
  · simp [h0]
  · rw [if_neg h0, if_neg (mul_ne_zero hα' h0)]
    simp only [Option.map_some, Option.some.injEq]
    rw [mul_div_mul_comm]

theorem implicitRow_scale_abs (dot : List Rat) (α : Rat) (hα : α ≠ 0) :
    (implicitRow (dot.map (α * ·))).map (fun r => |r|) = (implicitRow dot).map (fun r => |r|) := by
  rw [implicitRow_scale dot α hα]
  cases implicitRow dot with
  | none => rfl
  | some r =>
    simp only [Option.map_some, Option.some.injEq, abs_mul, abs_div, abs_abs]
    rw [div_self (abs_ne_zero.mpr hα), one_mul]

theorem implicitRow_scale_pos (dot : List Rat) (α : Rat) (hα : 0 < α) :
    implicitRow (dot.map (α * ·)) = implicitRow dot := by
  rw [implicitRow_scale dot α (ne_of_gt hα), abs_of_pos hα, div_self (ne_of_gt hα)]
  cases implicitRow dot <;> simp

theorem implicitRow_scale_neg (dot : List Rat) (α : Rat) (hα : α < 0) :
    implicitRow (dot.map (α * ·)) = (implicitRow dot).map (fun r => -r) := by
  rw [implicitRow_scale dot α (ne_of_lt hα), abs_of_neg hα, div_neg, div_self (ne_of_lt hα)]
  cases implicitRow dot <;> simp

theorem implicitRow_zero {dot : List Rat} (hs : dot.sum = 0) (hne : ¬ ∀ d ∈ dot, d = 0) :
    implicitRow dot = some 0 := by
  rw [implicitRow_eq, if_neg (fun h => hne ((sum_abs_eq_zero_iff dot).mp h)), hs, zero_div]

/-- conversely a finite row is zero only when the signed sum vanishes -/
theorem implicitRow_eq_zero_iff {dot : List Rat} :
    implicitRow dot = some 0 ↔ dot.sum = 0 ∧ ¬ ∀ d ∈ dot, d = 0 := by
  constructor
  · intro h
    have hn : ¬ (dot.map fun d => |d|).sum = 0 := by
      intro h0; rw [(implicitRow_none_iff dot).mpr h0] at h; cases h
    refine ⟨?_, fun hall => hn ((sum_abs_eq_zero_iff dot).mpr hall)⟩
    rw [implicitRow_eq, if_neg hn] at h
    have := Option.some.inj h
    rcases div_eq_zero_iff.mp this with h | h
    · exact h
    · exact absurd h hn
  · rintro ⟨h1, h2⟩; exact implicitRow_zero h1 h2

theorem meanAbs_range {rs : List Rat} {f : Rat} (hr : ∀ r ∈ rs, -1 ≤ r ∧ r ≤ 1)
    (h : meanAbs rs = some f) : 0 ≤ f ∧ f ≤ 1 := by
  unfold meanAbs at h
  split at h
  · cases h
  · rename_i hne
    cases h
    have hlen : (0 : Rat) < rs.length := by
      have : 0 < rs.length := List.length_pos_iff.mpr hne
      exact_mod_cast this
    have hsum : (rs.map fun r => |r|).sum ≤ rs.length := by
      clear hne hlen
      induction rs with
      | nil => simp
      | cons a l ih =>
        simp only [List.map_cons, List.sum_cons, List.length_cons]
        have h1 := hr a (by simp)
        have h2 := ih (fun r hr' => hr r (by simp [hr']))
        have : |a| ≤ 1 := abs_le.mpr h1
        push_cast; linarith
    exact ⟨div_nonneg (sum_abs_nonneg rs) (le_of_lt hlen), (div_le_one hlen).mpr hsum⟩

theorem meanAbs_congr_abs {rs rs' : List Rat} (h : rs.map (fun r => |r|) = rs'.map (fun r => |r|)) :
    meanAbs rs = meanAbs rs' := by
  have hl : rs.length = rs'.length := by simpa using congrArg List.length h
  unfold meanAbs
  have : rs = [] ↔ rs' = [] := by
    rw [← List.length_eq_zero_iff, ← List.length_eq_zero_iff, hl]
  by_cases h0 : rs = []
  · rw [if_pos h0, if_pos (this.mp h0)]
  · rw [if_neg h0, if_neg (fun h' => h0 (this.mpr h')), h, hl]

theorem fitnessMae_range {rows : List (List Rat)} {f : Rat} (h : fitnessMae rows = some f) :
    0 ≤ f ∧ f ≤ 1 := by
  unfold fitnessMae at h
  cases hm : rows.mapM implicitRow with
  | none => rw [hm] at h; cases h
  | some rs =>
    rw [hm] at h
    refine meanAbs_range ?_ h
    intro r hr
    rw [ListAux.mapM_eq_some_iff] at hm
    have : some r ∈ rows.map implicitRow := by rw [hm]; exact List.mem_map_of_mem hr
    obtain ⟨dot, _, hdot⟩ := List.mem_map.mp this
    exact implicitRow_range hdot

theorem fitnessMae_none_iff (rows : List (List Rat)) :
    fitnessMae rows = none ↔ rows = [] ∨ ∃ dot ∈ rows, ∀ d ∈ dot, d = 0 := by
  unfold fitnessMae
  cases hm : rows.mapM implicitRow with
  | none =>
    simp only [Option.bind_none, true_iff]
    right
    by_contra hcon
    have hall : ∀ dot ∈ rows, ∃ r, implicitRow dot = some r := by
      intro dot hdot
      cases hd : implicitRow dot with
      | none =>
        exact absurd ⟨dot, hdot, (sum_abs_eq_zero_iff dot).mp ((implicitRow_none_iff dot).mp hd)⟩ hcon
      | some r => exact ⟨r, rfl⟩
    have : rows.mapM implicitRow = some (rows.map fun dot => (implicitRow dot).getD 0) := by
      rw [ListAux.mapM_eq_some_iff, List.map_map]
      apply List.map_congr_left
      intro dot hdot
      obtain ⟨r, hr⟩ := hall dot hdot
      simp [hr]
    rw [this] at hm; cases hm
  | some rs =>
    rw [ListAux.mapM_eq_some_iff] at hm
    have hl : rows.length = rs.length := by simpa using congrArg List.length hm
    simp only [Option.bind_some, meanAbs]
    constructor
    · intro h
      split at h
      · rename_i h0
        left; rw [← List.length_eq_zero_iff, hl, h0]; rfl
      · cases h
    · rintro (h | ⟨dot, hdot, hz⟩)
      · subst h
        have : rs = [] := by rw [← List.length_eq_zero_iff, ← hl]; rfl
        simp [this]
      · exfalso
        have : implicitRow dot ∈ rs.map some := by rw [← hm]; exact List.mem_map_of_mem hdot
        rw [(implicitRow_none_iff dot).mpr ((sum_abs_eq_zero_iff dot).mpr hz)] at this
        simp at this

theorem fitnessMae_scale (rows : List (List Rat)) (α : Rat) (hα : α ≠ 0) :
    fitnessMae (rows.map fun dot => dot.map (α * ·)) = fitnessMae rows := by
  unfold fitnessMae
  have hrow : ∀ dot : List Rat,
      implicitRow (dot.map (α * ·)) = (implicitRow dot).map fun r => α / |α| * r :=
    fun dot => implicitRow_scale dot α hα
  cases hm : rows.mapM implicitRow with
  | none =>
    have : (rows.map fun dot => dot.map (α * ·)).mapM implicitRow = none := by
      cases hm' : (rows.map fun dot => dot.map (α * ·)).mapM implicitRow with
      | none => rfl
      | some rs' =>
        exfalso
        rw [ListAux.mapM_eq_some_iff, List.map_map] at hm'
        have : rows.mapM implicitRow = some (rows.map fun dot => (implicitRow dot).getD 0) := by
          rw [ListAux.mapM_eq_some_iff, List.map_map]
          apply List.map_congr_left
          intro dot hdot
          have h1 : implicitRow (dot.map (α * ·)) ∈ rs'.map some := by
            rw [← hm']; exact List.mem_map.mpr ⟨dot, hdot, rfl⟩
          rw [hrow] at h1
          cases hd : implicitRow dot with
          | none => rw [hd] at h1; simp at h1
          | some r => simp [hd]
        rw [this] at hm; cases hm
    rw [this]
  | some rs =>
    have : (rows.map fun dot => dot.map (α * ·)).mapM implicitRow
        = some (rs.map fun r => α / |α| * r) := by
      rw [ListAux.mapM_eq_some_iff] at hm ⊢
      rw [List.map_map, List.map_map]
      have : (some ∘ fun r => α / |α| * r) = (Option.map fun r => α / |α| * r) ∘ some := by
        funext r; rfl
      rw [this, ← List.map_map (f := some), ← hm, List.map_map]
      apply List.map_congr_left
      intro dot _
      exact hrow dot
    rw [this]
    simp only [Option.bind_some]
    apply meanAbs_congr_abs
    rw [List.map_map]
    apply List.map_congr_left
    intro r _
    simp only [Function.comp, abs_mul, abs_div, abs_abs]
    rw [div_self (abs_ne_zero.mpr hα), one_mul]

theorem fitnessMae_zero {rows : List (List Rat)} (hne : rows ≠ [])
    (h : ∀ dot ∈ rows, dot.sum = 0 ∧ ¬ ∀ d ∈ dot, d = 0) : fitnessMae rows = some 0 := by
  unfold fitnessMae
  have : rows.mapM implicitRow = some (rows.map fun _ => (0 : Rat)) := by
    rw [ListAux.mapM_eq_some_iff, List.map_map]
    apply List.map_congr_left
    intro dot hdot
    exact implicitRow_zero (h dot hdot).1 (h dot hdot).2
  rw [this]
  simp only [Option.bind_some, meanAbs, List.map_eq_nil_iff, if_neg hne, List.map_map]
  have : ∀ l : List (List Rat), (l.map ((fun r : Rat => |r|) ∘ fun _ => (0 : Rat))).sum = 0 := by
    intro l; induction l with
    | nil => rfl
    | cons a l ih => simp only [List.map_cons, List.sum_cons, ih, Function.comp, abs_zero, add_zero]
  rw [this, zero_div]

end SavGol
end Bingo
