import Model.HallOfFame
/-!
# `bisect_right` and `HallOfFame.insert`

`oins k x l` is the specification of a stable ordered insert (after all elements whose key is `≤`).
-/
namespace Bingo

namespace Key

theorem le_trans {a b c : Key} (h1 : le a b = true) (h2 : le b c = true) : le a c = true := by
  cases a <;> cases b <;> cases c <;> simp_all [le] ; omega

theorem lt_of_lt_of_le {a b c : Key} (h1 : lt a b = true) (h2 : le b c = true) : lt a c = true := by
  cases a <;> cases b <;> cases c <;> simp_all [le, lt] ; omega

theorem le_of_not_lt {a b : Key} (ha : a.isNan = false) (hb : b.isNan = false)
    (h : lt a b = false) : le b a = true := by
  cases a <;> cases b <;> simp_all [le, lt, isNan]

theorem not_le_of_lt {a b : Key} (h : lt a b = true) : le b a = false := by
  cases a <;> cases b <;> simp_all [le, lt] 

theorem isNan_false_iff {a : Key} : a.isNan = false ↔ ∃ v, a = some v := by
  cases a <;> simp [isNan]

end Key

namespace HOF

/-! ## bisect -/

theorem bisectGo_spec (a : List Key) (x : Key) (hx : x.isNan = false)
    (hs : a.Pairwise (fun p q => Key.le p q = true)) (hnn : ∀ k ∈ a, k.isNan = false) :
    ∀ (fuel lo hi : Nat), lo ≤ hi → hi ≤ a.length → hi - lo < fuel →
      (∀ k ∈ a.take lo, Key.le k x = true) → (∀ k ∈ a.drop hi, Key.lt x k = true) →
      bisectGo a x fuel lo hi ≤ a.length ∧
      (∀ k ∈ a.take (bisectGo a x fuel lo hi), Key.le k x = true) ∧
      (∀ k ∈ a.drop (bisectGo a x fuel lo hi), Key.lt x k = true) := by
  intro fuel
  induction fuel with
  | zero => intro lo hi _ _ hf; omega
  | succ fuel ih =>
    intro lo hi hlh hhi hf hlo hhi'
    unfold bisectGo
    by_cases hlt : lo < hi
    · simp only [hlt, if_true]
      have hmid1 : lo ≤ (lo + hi) / 2 := by omega
      have hmid2 : (lo + hi) / 2 < hi := by omega
      generalize (lo + hi) / 2 = mid at *
      have hmlen : mid < a.length := by omega
      have hget : a.getD mid none = a[mid] := by
        rw [List.getD_eq_getElem?_getD, List.getElem?_eq_getElem hmlen]; rfl
      rw [hget]
      have hdrop : a.drop mid = a[mid] :: a.drop (mid + 1) := List.drop_eq_getElem_cons hmlen
      have htake : a.take (mid + 1) = a.take mid ++ [a[mid]] := List.take_succ_eq_append_getElem hmlen
      by_cases hc : Key.lt x a[mid] = true
      · simp only [hc, if_true]
        refine ih lo mid hmid1 (by omega) (by omega) hlo ?_
        intro k hk
        rw [hdrop] at hk
        rcases List.mem_cons.1 hk with h | h
        · rw [h]; exact hc
        · have hp : (a[mid] :: a.drop (mid + 1)).Pairwise (fun p q => Key.le p q = true) := by
            rw [← hdrop]; exact hs.sublist (List.drop_sublist _ _)
          exact Key.lt_of_lt_of_le hc (List.rel_of_pairwise_cons hp h)
      · have hc' : Key.lt x a[mid] = false := by simpa using hc
        simp only [hc', Bool.false_eq_true, if_false]
        refine ih (mid + 1) hi (by omega) hhi (by omega) ?_ hhi'
        have hle : Key.le a[mid] x = true :=
          Key.le_of_not_lt hx (hnn _ (List.getElem_mem hmlen)) hc'
        intro k hk
        rw [htake] at hk
        rcases List.mem_append.1 hk with h | h
        · have hp : (a.take mid ++ [a[mid]]).Pairwise (fun p q => Key.le p q = true) := by
            rw [← htake]; exact hs.sublist (List.take_sublist _ _)
          exact Key.le_trans ((List.pairwise_append.1 hp).2.2 k h a[mid] (by simp)) hle
        · simp at h; rw [h]; exact hle
    · simp only [hlt, if_false]
      have : lo = hi := by omega
      subst this
      exact ⟨hhi, hlo, hhi'⟩

/-- the three facts that pin down the insertion index -/
theorem bisectRight_split (a : List Key) (x : Key) (hx : x.isNan = false)
    (hs : a.Pairwise (fun p q => Key.le p q = true)) (hnn : ∀ k ∈ a, k.isNan = false) :
    bisectRight a x ≤ a.length ∧
    (∀ k ∈ a.take (bisectRight a x), Key.le k x = true) ∧
    (∀ k ∈ a.drop (bisectRight a x), Key.lt x k = true) :=
  bisectGo_spec a x hx hs hnn (a.length + 1) 0 a.length (by omega) (by omega) (by omega)
    (by simp) (by simp)

theorem bisectRight_eq_count (a : List Key) (x : Key) (hx : x.isNan = false)
    (hs : a.Pairwise (fun p q => Key.le p q = true)) (hnn : ∀ k ∈ a, k.isNan = false) :
    bisectRight a x = (a.filter (fun k => Key.le k x)).length := by
  obtain ⟨h1, h2, h3⟩ := bisectRight_split a x hx hs hnn
  generalize bisectRight a x = r at *
  conv => rhs; rw [← List.take_append_drop r a]
  rw [List.filter_append, List.filter_eq_self.2 h2,
    List.filter_eq_nil_iff.2 (fun k hk => by simp [Key.not_le_of_lt (h3 k hk)])]
  simp [List.length_take, Nat.min_eq_left h1]

/-! ## stable ordered insert (specification) -/

def oins {α : Type} (k : α → Int) (x : α) : List α → List α
  | [] => [x]
  | a :: l => if k x < k a then x :: a :: l else a :: oins k x l

/-- integer value of a non-NaN key (junk value 0 for NaN) -/
def keyInt (it : Item) : Int := it.key.getD 0

def NoNan (h : List Item) : Prop := ∀ it ∈ h, it.key.isNan = false

/-- non-decreasing keys, and increasing ids among equal keys -/
def StableSorted (h : List Item) : Prop :=
  h.Pairwise (fun a b => keyInt a ≤ keyInt b ∧ (keyInt a = keyInt b → a.id < b.id))

theorem key_eq_of_noNan {it : Item} (h : it.key.isNan = false) : it.key = some (keyInt it) := by
  obtain ⟨v, hv⟩ := Key.isNan_false_iff.1 h
  simp [keyInt, hv]

theorem insertAt_eq_oins (it : Item) (hit : it.key.isNan = false) :
    ∀ (h : List Item) (r : Nat), NoNan h →
      (∀ k ∈ h.take r, Key.le k.key it.key = true) → (∀ k ∈ h.drop r, Key.lt it.key k.key = true) →
      insertAt h r it = oins keyInt it h := by
  intro h
  induction h with
  | nil => intro r _ _ _; simp [insertAt, oins]
  | cons a l ih =>
    intro r hnn h1 h2
    have ha := key_eq_of_noNan (hnn a (List.mem_cons_self))
    have hi := key_eq_of_noNan hit
    cases r with
    | zero =>
      have := h2 a (by simp)
      rw [ha, hi] at this
      simp only [Key.lt, decide_eq_true_eq] at this
      simp [insertAt, oins, this]
    | succ r =>
      have := h1 a (by simp)
      rw [ha, hi] at this
      simp only [Key.le, decide_eq_true_eq] at this
      have hn : ¬ keyInt it < keyInt a := by omega
      have ih' := ih r (fun k hk => hnn k (List.mem_cons_of_mem _ hk))
        (fun k hk => h1 k (by simp [hk])) (fun k hk => h2 k (by simpa using hk))
      simp only [insertAt] at ih' ⊢
      simp [oins, hn, ih']

theorem keys_sorted_of_stableSorted {h : List Item} (hnn : NoNan h) (hs : StableSorted h) :
    (h.map (·.key)).Pairwise (fun p q => Key.le p q = true) := by
  rw [List.pairwise_map]
  refine List.Pairwise.imp_of_mem ?_ hs
  intro a b ha hb hab
  rw [key_eq_of_noNan (hnn a ha), key_eq_of_noNan (hnn b hb)]
  simpa [Key.le] using hab.1

theorem insert_eq_oins {h : List Item} {it : Item} (hit : it.key.isNan = false) (hnn : NoNan h)
    (hs : (h.map (·.key)).Pairwise (fun p q => Key.le p q = true)) :
    insert h it = oins keyInt it h := by
  obtain ⟨_, h2, h3⟩ := bisectRight_split (h.map (·.key)) it.key hit hs
    (by intro k hk; obtain ⟨a, ha, rfl⟩ := List.mem_map.1 hk; exact hnn a ha)
  unfold insert
  apply insertAt_eq_oins it hit h _ hnn
  · intro k hk; apply h2; rw [← List.map_take]; exact List.mem_map_of_mem hk
  · intro k hk; apply h3; rw [← List.map_drop]; exact List.mem_map_of_mem hk

end HOF
end Bingo
