import Model.StringsTok
/-!
# Token classification of the numerals and variable names the sympy printer emits (C16)

Core-only facts about `toString (p : Int)` as seen by the parser of `Model/Strings.lean`:
`digits_repr`, `varTok_spec`, `intTok_spec`, `negIntTok_spec`, with reusable helpers
(`isReDigit_iff`, `spanDigits_of_digits`, `pyFloatOk_neg_digits`, `isAtomTok_iff`, `atomExcl_eq`,
`isAtomTok_of_digit_head`, `isAtomTok_of_two`, `toString_nonneg_toList`, `toString_neg_toList`,
`pyInt_toDigits`, `matchVarOrConst_digit_head`).
-/
namespace Bingo.Str
open Tables


theorem isReDigit_iff (c : Char) : isReDigit c = true ↔ 48 ≤ c.toNat ∧ c.toNat ≤ 57 := by
  simp only [isReDigit, Bool.and_eq_true, decide_eq_true_eq, Char.le_def, Char.toNat]
  constructor
  · intro h; have := h.1; have := h.2; simp [UInt32.le_iff_toNat_le] at *; omega
  · intro h; simp [UInt32.le_iff_toNat_le] at *; omega

theorem isReDigit_of_isDigit {c : Char} (h : c.isDigit = true) : isReDigit c = true := by
  rw [isReDigit_iff]
  simp only [Char.isDigit, Bool.and_eq_true, decide_eq_true_eq, UInt32.le_iff_toNat_le, ge_iff_le] at h
  exact h

theorem digitsToNat_eq (ds : List Char) : digitsToNat ds = Nat.ofDigitChars 10 ds 0 := by
  unfold digitsToNat Nat.ofDigitChars
  congr 1
  funext a d
  omega

theorem matchInt_of_digits {ds : List Char} (hne : ds ≠ []) (h : ∀ c ∈ ds, isReDigit c = true) :
    matchInt ds = true := by
  simp only [matchInt, Bool.and_eq_true, Bool.not_eq_true', List.isEmpty_eq_false_iff, List.all_eq_true]
  exact ⟨hne, h⟩

/-- the decimal digits of a natural number, as the parser sees them -/
theorem digits_repr (n : Nat) :
    matchInt (Nat.toDigits 10 n) = true ∧ digitsToNat (Nat.toDigits 10 n) = n ∧
    (∀ c ∈ Nat.toDigits 10 n, isReDigit c = true) ∧ (∀ c ∈ Nat.toDigits 10 n, c.toNat < 128) := by
  have hd : ∀ c ∈ Nat.toDigits 10 n, isReDigit c = true := fun c hc =>
    isReDigit_of_isDigit (Nat.isDigit_of_mem_toDigits (by decide) (by decide) hc)
  refine ⟨matchInt_of_digits Nat.toDigits_ne_nil hd, ?_, hd, ?_⟩
  · rw [digitsToNat_eq, Nat.ofDigitChars_ten_toDigits]
  · intro c hc
    have := (isReDigit_iff c).1 (hd c hc)
    omega

theorem spanDigits_of_digits (ds : List Char) (h : ∀ c ∈ ds, isReDigit c = true) :
    spanDigits ds = (ds.length, []) := by
  induction ds with
  | nil => rfl
  | cons c r ih =>
    have hc := h c (List.mem_cons_self)
    have hr := ih (fun d hd => h d (List.mem_cons_of_mem _ hd))
    simp only [spanDigits, hc, hr, if_true, List.length_cons]

theorem isDecimalLiteral_of_digits {ds : List Char} (hne : ds ≠ []) (h : ∀ c ∈ ds, isReDigit c = true) :
    isDecimalLiteral ds = true := by
  have hl : 0 < ds.length := List.length_pos_iff.2 hne
  simp only [isDecimalLiteral, spanDigits_of_digits ds h, isExponentOrEnd, Bool.and_true, decide_eq_true_eq]
  exact hl

theorem isCSpace_of_isReDigit {c : Char} (h : isReDigit c = true) : isCSpace c = false := by
  have := (isReDigit_iff c).1 h
  simp only [isCSpace, Bool.or_eq_false_iff, Bool.and_eq_false_iff, decide_eq_false_iff_not, beq_eq_false_iff_ne]
  omega

theorem dropWhile_isCSpace_digits_rev {ds : List Char} (hne : ds ≠ []) (h : ∀ c ∈ ds, isReDigit c = true) (pre : List Char) :
    ((pre ++ ds).reverse.dropWhile isCSpace) = (pre ++ ds).reverse := by
  obtain ⟨c, r, hcr⟩ := List.exists_cons_of_ne_nil (l := ds.reverse) (by simpa using hne)
  have hc : isReDigit c = true := h c (by rw [← List.mem_reverse, hcr]; exact List.mem_cons_self)
  rw [List.reverse_append, hcr, List.cons_append, List.dropWhile_cons, isCSpace_of_isReDigit hc]
  rfl

theorem pyFloatOk_neg_digits {ds : List Char} (hne : ds ≠ []) (h : ∀ c ∈ ds, isReDigit c = true) :
    pyFloatOk ('-' :: ds) = true := by
  have hu : ('-' :: ds).contains '_' = false := by
    rw [List.contains_eq_mem, decide_eq_false_iff_not]
    intro hm
    rcases List.mem_cons.1 hm with h1 | h1
    · exact absurd h1 (by decide)
    · exact absurd (h _ h1) (by decide)
  have h1 : ('-' :: ds).dropWhile isCSpace = '-' :: ds := by
    rw [List.dropWhile_cons]; rfl
  have h2 := dropWhile_isCSpace_digits_rev hne h ['-']
  simp only [List.cons_append, List.nil_append] at h2
  simp only [pyFloatOk, hu, h1, h2, List.reverse_reverse, dropSign, isDecimalLiteral_of_digits hne h,
    Bool.true_or, Bool.false_eq_true, if_false]

theorem atomExcl_eq : (operators ++ functions ++ [LPAREN, RPAREN]).map String.toList =
    [['+'], ['-'], ['*'], ['/'], ['^'], ['s','i','n'], ['c','o','s'], ['s','i','n','h'], ['c','o','s','h'],
     ['e','x','p'], ['l','o','g'], ['a','b','s'], ['s','q','r','t'], ['('], [')']] := by decide

theorem isAtomTok_iff (a : String) : GE.isAtomTok a = true ↔
    a.toList ∉ (operators ++ functions ++ [LPAREN, RPAREN]).map String.toList := by
  have hinj : ∀ L : List String, a.toList ∈ L.map String.toList ↔ a ∈ L := by
    intro L
    simp only [List.mem_map]
    constructor
    · rintro ⟨b, hb, hab⟩
      rwa [← String.toList_inj.1 hab]
    · intro h; exact ⟨a, h, rfl⟩
  rw [hinj]
  simp only [GE.isAtomTok, Bool.and_eq_true, Bool.not_eq_true', List.contains_eq_mem, decide_eq_false_iff_not,
    bne_iff_ne, List.mem_append, List.mem_cons, List.not_mem_nil, or_false, not_or, and_assoc, ne_eq]

theorem isAtomTok_of_digit_head {a : String} {c : Char} {r : List Char} (h : a.toList = c :: r)
    (hc : isReDigit c = true) : GE.isAtomTok a = true := by
  have hn := (isReDigit_iff c).1 hc
  rw [isAtomTok_iff, atomExcl_eq, h]
  simp only [List.mem_cons, List.cons.injEq, List.not_mem_nil, or_false, not_or]
  refine ⟨?_, ?_, ?_, ?_, ?_, ?_, ?_, ?_, ?_, ?_, ?_, ?_, ?_, ?_, ?_⟩ <;>
    (rintro ⟨rfl, -⟩; revert hn; decide)

theorem isAtomTok_of_two {a : String} {c d : Char} {r : List Char} (h : a.toList = c :: d :: r)
    (hc : c = 'x' ∨ c = '-') (hd : d = '_' ∨ isReDigit d = true) : GE.isAtomTok a = true := by
  have hn : d = '_' ∨ (48 ≤ d.toNat ∧ d.toNat ≤ 57) := hd.imp id (isReDigit_iff d).1
  rw [isAtomTok_iff, atomExcl_eq, h]
  simp only [List.mem_cons, List.cons.injEq, List.not_mem_nil, or_false, not_or]
  refine ⟨?_, ?_, ?_, ?_, ?_, ?_, ?_, ?_, ?_, ?_, ?_, ?_, ?_, ?_, ?_⟩ <;>
    first
    | (rintro ⟨rfl, -⟩; revert hc; decide)
    | (rintro ⟨rfl, h2⟩; exact absurd h2 (by simp))
    | (rintro ⟨rfl, rfl, -⟩; revert hn; decide)

theorem toString_nonneg_toList {p : Int} (h0 : 0 ≤ p) : (toString p).toList = Nat.toDigits 10 p.toNat := by
  rw [Int.toString_eq_repr, Int.repr_eq_if, if_pos h0, Nat.toList_repr]

theorem toString_neg_toList {p : Int} (h0 : p < 0) :
    (toString p).toList = '-' :: Nat.toDigits 10 (-p).toNat := by
  rw [Int.toString_eq_repr, Int.repr_eq_if, if_neg (by omega), String.toList_append, Nat.toList_repr]
  rfl

theorem toDigits_length_le_of_fits {p : Int} (h0 : 0 ≤ p) (hfit : fitsInt64 p = true) :
    (Nat.toDigits 10 p.toNat).length ≤ intMaxStrDigits := by
  simp only [fitsInt64, Bool.and_eq_true, decide_eq_true_eq] at hfit
  have h1 : p.toNat < 10 ^ 19 := by omega
  have hk : 19 ≤ intMaxStrDigits := by decide
  rw [Nat.length_toDigits_le_iff (by decide) (Nat.lt_of_lt_of_le (by decide) hk)]
  exact Nat.lt_of_lt_of_le h1 (Nat.pow_le_pow_right (by decide) hk)

theorem pyInt_toDigits {p : Int} (h0 : 0 ≤ p) (hfit : fitsInt64 p = true) :
    pyInt (Nat.toDigits 10 p.toNat) = .ok p := by
  have hl := toDigits_length_le_of_fits h0 hfit
  have hv := (digits_repr p.toNat).2.1
  simp only [pyInt, gt_iff_lt, Nat.not_lt.2 hl, if_false, hv, pure, Except.pure, Int.toNat_of_nonneg h0]

theorem digits_head (n : Nat) : ∃ c r, Nat.toDigits 10 n = c :: r ∧ isReDigit c = true := by
  obtain ⟨c, r, h⟩ := List.exists_cons_of_ne_nil (Nat.toDigits_ne_nil (n := n) (b := 10))
  exact ⟨c, r, h, (digits_repr n).2.2.1 c (h ▸ List.mem_cons_self)⟩

/-- `x_k`, k ≥ 0 within C long -/
theorem varTok_spec (p : Int) (h0 : 0 ≤ p) (hfit : fitsInt64 p = true) :
    let tok := "x_" ++ toString p
    ∃ ds, matchVarOrConst tok.toList = some ('x', ds) ∧ pyInt ds = .ok p ∧
      GE.isAtomTok tok = true ∧ (∀ c ∈ tok.toList, c.toNat < 128) := by
  intro tok
  have ht : tok.toList = 'x' :: '_' :: Nat.toDigits 10 p.toNat := by
    show ("x_" ++ toString p).toList = _
    rw [String.toList_append, toString_nonneg_toList h0]; rfl
  obtain ⟨hm, -, -, ha⟩ := digits_repr p.toNat
  refine ⟨Nat.toDigits 10 p.toNat, ?_, pyInt_toDigits h0 hfit, isAtomTok_of_two ht (.inl rfl) (.inl rfl), ?_⟩
  · rw [ht]; simp [matchVarOrConst, hm]
  · rw [ht]; intro c hc
    simp only [List.mem_cons] at hc
    rcases hc with rfl | rfl | hc
    · decide
    · decide
    · exact ha c hc

theorem matchVarOrConst_digit_head {c : Char} {r : List Char} (hc : isReDigit c = true) :
    matchVarOrConst (c :: r) = none := by
  have hn := (isReDigit_iff c).1 hc
  cases r with
  | nil => rfl
  | cons d r =>
    unfold matchVarOrConst
    split
    · next heq =>
      have hx : (c == 'X' || c == 'x' || c == 'C' || c == 'c') = false := by
        simp only [Bool.or_eq_false_iff, beq_eq_false_iff_ne]
        refine ⟨⟨⟨?_, ?_⟩, ?_⟩, ?_⟩ <;> (rintro rfl; revert hn; decide)
      simp_all
    · rfl

/-- a non-negative integer numeral within C long -/
theorem intTok_spec (p : Int) (h0 : 0 ≤ p) (hfit : fitsInt64 p = true) :
    let tok := toString p
    matchVarOrConst tok.toList = none ∧ matchInt tok.toList = true ∧ pyInt tok.toList = .ok p ∧
      GE.isAtomTok tok = true ∧ (∀ c ∈ tok.toList, c.toNat < 128) := by
  intro tok
  have ht : tok.toList = Nat.toDigits 10 p.toNat := toString_nonneg_toList h0
  obtain ⟨hm, -, -, ha⟩ := digits_repr p.toNat
  obtain ⟨c, r, hcr, hc⟩ := digits_head p.toNat
  refine ⟨?_, ht ▸ hm, ht ▸ pyInt_toDigits h0 hfit, isAtomTok_of_digit_head (ht.trans hcr) hc, ht ▸ ha⟩
  rw [ht, hcr]; exact matchVarOrConst_digit_head hc

/-- a negative integer numeral is read as a float literal (any size) -/
theorem negIntTok_spec (p : Int) (h0 : p < 0) :
    let tok := toString p
    matchVarOrConst tok.toList = none ∧ matchInt tok.toList = false ∧ pyFloatOk tok.toList = true ∧
      GE.isAtomTok tok = true ∧ (∀ c ∈ tok.toList, c.toNat < 128) := by
  intro tok
  have ht : tok.toList = '-' :: Nat.toDigits 10 (-p).toNat := toString_neg_toList h0
  obtain ⟨-, -, hd, ha⟩ := digits_repr (-p).toNat
  obtain ⟨c, r, hcr, hc⟩ := digits_head (-p).toNat
  refine ⟨?_, ?_, ?_, isAtomTok_of_two (ht.trans (by rw [hcr])) (.inr rfl) (.inr hc), ?_⟩
  · rw [ht, hcr]
    unfold matchVarOrConst
    split
    · next heq =>
      simp only [List.cons.injEq] at heq
      obtain ⟨rfl, -, -⟩ := heq
      rfl
    · rfl
  · rw [ht]; simp [matchInt, isReDigit]
  · rw [ht]; exact pyFloatOk_neg_digits Nat.toDigits_ne_nil hd
  · rw [ht]; intro c hc
    rcases List.mem_cons.1 hc with rfl | hc
    · decide
    · exact ha c hc

end Bingo.Str
