import Model.ParArch
import Proofs.Lemmas.ParArch
import Proofs.Lemmas.ParArchLive
import Proofs.Lemmas.ParArchLiveFair
/-!
# C12 -- liveness, part 6: finite runs as infinite executions (non-vacuity of the hypotheses)

A complete run (an action list that leads to a state where every rank has returned) gives an infinite
execution that stutters in the final state.  It is fair as soon as a finite check succeeds, and it
satisfies `SpeedBound p q (p * total number of helper sends)` for every `p`, `q`.
-/
set_option linter.unusedSimpArgs false
set_option linter.unusedVariables false
namespace Bingo
namespace C12
open ParArch

/-- state after the first `n` actions of `as` (the last state from then on) -/
def stOf (s0 : State) (as : List Action) (n : Nat) : State := (run s0 (as.take n)).getD s0

/-- the `n`-th action of `as`, `none` after the end -/
def actOf (as : List Action) (n : Nat) : Option Action := as[n]?

theorem stOf_ge {s0 t : State} {as : List Action} (h : run s0 as = some t) {n : Nat} (hn : as.length ≤ n) :
    stOf s0 as n = t := by
  unfold stOf
  rw [List.take_of_length_le hn, h]; rfl

theorem stOf_step {s0 t : State} {as : List Action} (h : run s0 as = some t) {n : Nat} (hn : n < as.length) :
    step (stOf s0 as n) as[n] = some (stOf s0 as (n + 1)) := by
  have hsplit : as = as.take n ++ as[n] :: as.drop (n + 1) := by
    rw [List.getElem_cons_drop]; exact (List.take_append_drop n as).symm
  have h' := h
  rw [hsplit, run_append] at h'
  obtain ⟨m, hm, hrest⟩ := h'
  obtain ⟨m', hstep, _⟩ := run_cons_inv hrest
  have e1 : stOf s0 as n = m := by unfold stOf; rw [hm]; rfl
  have e2 : stOf s0 as (n + 1) = m' := by
    unfold stOf
    have : as.take (n + 1) = as.take n ++ [as[n]] := by
      rw [List.take_add_one, List.getElem?_eq_getElem hn]; rfl
    rw [this]
    have : run s0 (as.take n ++ [as[n]]) = some m' := by
      rw [run_append]; exact ⟨m, hm, by rw [run_cons hstep]; rfl⟩
    rw [this]; rfl
  rw [e1, e2]; exact hstep

/-- a complete run, continued by stuttering, is an execution -/
theorem isExec_of_run {s0 t : State} {as : List Action} (h : run s0 as = some t) (hf : isFinal t = true) :
    IsExec (stOf s0 as) (actOf as) := by
  intro n
  by_cases hn : n < as.length
  · exact Or.inl ⟨as[n], by simp [actOf, hn], stOf_step h hn⟩
  · refine Or.inr ⟨by simp [actOf]; omega, ?_, ?_⟩
    · rw [stOf_ge h (by omega)]; exact hf
    · rw [stOf_ge h (by omega), stOf_ge h (by omega)]

theorem seg_actOf (as : List Action) (n : Nat) : ∀ len, seg (actOf as) n len = (as.drop n).take len
  | 0 => by simp [seg]
  | len + 1 => by
    show seg (actOf as) n len ++ (actOf as (n + len)).toList = _
    rw [seg_actOf as n len, List.take_add_one, List.getElem?_drop]
    rfl

/-- with the total number of helper sends as slack, every speed bound holds -/
theorem speedBound_of_run (st : Nat → State) (as : List Action) (p q : Nat) :
    SpeedBound st (actOf as) p q (p * as.countP helperSend) := by
  intro n len _
  rw [seg_actOf]
  have h1 : ((as.drop n).take len).Sublist as := (List.take_sublist _ _).trans (List.drop_sublist _ _)
  have h2 := h1.countP_le (p := helperSend)
  have := Nat.mul_le_mul_left p h2
  omega

theorem enabled_lt {s : State} {r : Nat} (hR : 0 < s.R) (h : enabled s r = true) : r < s.R := by
  apply Classical.byContradiction
  intro hr
  have h0 : r ≠ 0 := by omega
  unfold enabled nextAction at h
  simp [h0, hr] at h

/-- nobody can move once every rank has returned -/
theorem enabled_final {s : State} (hf : isFinal s = true) (r : Nat) : enabled s r = false := by
  simp only [isFinal, Bool.and_eq_true, beq_iff_eq, List.all_eq_true, List.mem_range] at hf
  obtain ⟨hd, hall⟩ := hf
  unfold enabled nextAction
  by_cases h0 : r = 0
  · simp [h0, hd]
  · by_cases hr : r < s.R
    · have := hall r hr
      simp [h0] at this
      simp [h0, hr, this]
    · simp [h0, hr]

/-- fairness of a complete run (continued by stuttering) reduces to a finite check -/
theorem fair_of_run {s0 t : State} {as : List Action} (h : run s0 as = some t) (hf : isFinal t = true) (hR : 0 < s0.R)
    (hchk : ∀ n, n < as.length → ∀ r, r < s0.R → enabled (stOf s0 as n) r = true →
      ∃ m, m < as.length ∧ n ≤ m ∧ ∃ a, as[m]? = some a ∧ a.rank = r ∧ isTick a = false) :
    Fair (stOf s0 as) (actOf as) := by
  intro r n hen
  by_cases hn : n < as.length
  · have hRn : (stOf s0 as n).R = s0.R := by
      have : run s0 (as.take n) = some (stOf s0 as n) := by
        have hsplit : as = as.take n ++ as.drop n := (List.take_append_drop n as).symm
        have h' := h
        rw [hsplit, run_append] at h'
        obtain ⟨m, hm, _⟩ := h'
        unfold stOf; rw [hm]; rfl
      exact (reachable_frame (run_reachable this)).1
    have hr : r < s0.R := by rw [← hRn]; exact enabled_lt (by rw [hRn]; exact hR) hen
    obtain ⟨m, _, hnm, a, ha, hra, hta⟩ := hchk n hn r hr hen
    exact ⟨m, hnm, a, ha, hra, hta⟩
  · rw [stOf_ge h (by omega), enabled_final hf] at hen
    cases hen

/-- the finite fairness check of a complete run, executable -/
def fairCheck (s0 : State) (as : List Action) : Bool :=
  (List.range as.length).all fun n => (List.range s0.R).all fun r =>
    !enabled (stOf s0 as n) r ||
      (List.range as.length).any fun m => decide (n ≤ m) && (as[m]?).any fun a => a.rank == r && !isTick a

theorem fair_of_check {s0 t : State} {as : List Action} (h : run s0 as = some t) (hf : isFinal t = true) (hR : 0 < s0.R)
    (hchk : fairCheck s0 as = true) : Fair (stOf s0 as) (actOf as) := by
  apply fair_of_run h hf hR
  intro n hn r hr hen
  simp only [fairCheck, List.all_eq_true, List.mem_range, Bool.or_eq_true, Bool.not_eq_true', List.any_eq_true,
    Bool.and_eq_true, decide_eq_true_eq] at hchk
  rcases hchk n hn r hr with h1 | ⟨m, hm, hnm, hany⟩
  · rw [hen] at h1; cases h1
  · cases ha : as[m]? with
    | none => rw [ha] at hany; simp at hany
    | some a =>
      rw [ha] at hany
      simp at hany
      exact ⟨m, hm, hnm, a, ha, hany.1, hany.2⟩

end C12
end Bingo
