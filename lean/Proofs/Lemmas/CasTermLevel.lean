import Model.Cas.AutoSimp
/-!
# Termination of the automatic simplifier: the level functions

Three mutually defined "levels" of an expression, according to the role in which it is used:
* `sl e` : as an operand of a SUM (`simplifySum`, `simplifySumRec`, `mergeSums`);
* `pl e` : as an operand of a PRODUCT (`simplifyProduct`, `simplifyProductRec`, `mergeProducts`);
* `cl e` : as the BASE of a power (`simplifyPower`, `simplifyConstantPower`).

They are designed so that
* the operand lists of one level are closed under the results of the functions (`CasTermClosure.lean`);
* every call made by a function is at a strictly lower level, or at the same level on a smaller argument
  (`CasTermMain.lean`).
`NE T e`: structural well-formedness (`_simplify_product_rec([])` recurses forever, so a product without
operands, or a terminal whose operator is `MULTIPLICATION`, must be excluded).
-/
namespace Bingo
namespace Cas
namespace Term
open Gen.OpDefs Expr

mutual
/-- level as operand of a sum -/
def sl : Expr → Nat
  | term o _ _ => if o = INTEGER then 0 else 2
  | node o as =>
    if o = ADDITION then slL as
    else if o = MULTIPLICATION then 1 + max 1 (plL as)
    else if o = POWER then
      match as with
      | b :: x :: _ => 2 + sl x + cl b
      | _ => 2
    else 2
/-- level as operand of a product -/
def pl : Expr → Nat
  | term o _ _ => if o = INTEGER then 0 else 1
  | node o as =>
    if o = MULTIPLICATION then plL as
    else if o = POWER then
      match as with
      | b :: x :: _ => 1 + sl x + cl b
      | _ => 1
    else if o = ADDITION then 1 + (slL as - 2)
    else 1
/-- level as base of a power -/
def cl : Expr → Nat
  | term _ _ _ => 0
  | node o as =>
    if o = MULTIPLICATION then 1 + clL as
    else if o = POWER then
      match as with
      | b :: x :: _ => cl b + pl x + sl x + 4
      | _ => 0
    else if o = ADDITION then slL as - 2
    else 0
def slL : List Expr → Nat
  | [] => 0
  | a :: as => max (sl a) (slL as)
def plL : List Expr → Nat
  | [] => 0
  | a :: as => max (pl a) (plL as)
def clL : List Expr → Nat
  | [] => 0
  | a :: as => max (cl a) (clL as)
end

mutual
/-- structural well-formedness: every terminal is an `INTEGER` or an operator allowed by `T` other than
`MULTIPLICATION`; every node has at least one operand, sums and products at least two, every other node
at most two -/
def NE (T : Int → Bool) : Expr → Bool
  | term o _ _ => o == INTEGER || (o != MULTIPLICATION && T o)
  | node o as =>
    !as.isEmpty &&
      (if o == ADDITION || o == MULTIPLICATION then decide (2 ≤ as.length) else decide (as.length ≤ 2))
      && NEL T as
def NEL (T : Int → Bool) : List Expr → Bool
  | [] => true
  | a :: as => NE T a && NEL T as
end

mutual
/-- number of nodes -/
def size : Expr → Nat
  | term _ _ _ => 1
  | node _ as => 1 + sizeL as
def sizeL : List Expr → Nat
  | [] => 0
  | a :: as => size a + sizeL as
end

end Term
end Cas
end Bingo
