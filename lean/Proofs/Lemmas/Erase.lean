import Model.EvalPy
import Proofs.Lemmas.Deps
/-!
# Erasing Python object kinds: object-level success implies value-level success with the same
values (core only, no Mathlib)
-/
namespace Bingo
namespace Erase
variable {α : Type} [Scalar α]

theorem optE_ok {β : Type} {o : Option β} {v : β} : EvalPy.optE o = .ok v ↔ o = some v := by
  cases o <;> simp [EvalPy.optE, pure, Except.pure, throw, throwThe, MonadExceptOf.throw]

theorem idx_map {β γ : Type} (f : β → γ) (n : Nat) (p : Int) (l : List β) (v : β)
    (h : (pyIdx n p).bind (l[·]?) = some v) :
    (pyIdx n p).bind ((l.map f)[·]?) = some (f v) := by
  cases hp : pyIdx n p with
  | none => simp [hp] at h
  | some j =>
    simp only [hp, Option.bind_some] at h
    simp [List.getElem?_map, h]

theorem fwdCtx_erase (N : Nat) (x : List α) (c acc : List (KVal α)) (cmd : Cmd) :
    ∀ d v, (EvalPy.fwdCtx N x c acc cmd).get d = .ok v →
      (Eval.fwdCtx N x (c.map Prod.snd) (acc.map Prod.snd) cmd).get d = some v.2 := by
  intro d v h
  cases d with
  | intParam =>
    simp only [RuleCtxK.get, EvalPy.fwdCtx, Except.ok.injEq] at h
    subst h; rfl
  | loadX =>
    simp only [RuleCtxK.get, EvalPy.fwdCtx, optE_ok, Option.map_eq_some_iff] at h
    obtain ⟨a, ha, rfl⟩ := h
    exact ha
  | loadC =>
    simp only [RuleCtxK.get, EvalPy.fwdCtx, optE_ok] at h
    simpa [RuleCtx.get, Eval.fwdCtx] using idx_map Prod.snd c.length cmd.p1 c v h
  | fwd r =>
    cases r with
    | p1 =>
      simp only [RuleCtxK.get, EvalPy.fwdCtx, EvalPy.lookupFwd, optE_ok] at h
      exact idx_map Prod.snd N cmd.p1 acc v h
    | p2 =>
      simp only [RuleCtxK.get, EvalPy.fwdCtx, EvalPy.lookupFwd, optE_ok] at h
      exact idx_map Prod.snd N cmd.p2 acc v h
    | self => simp [RuleCtxK.get, EvalPy.fwdCtx, throw, throwThe, MonadExceptOf.throw] at h
  | rev => simp [RuleCtxK.get, EvalPy.fwdCtx, throw, throwThe, MonadExceptOf.throw] at h

theorem fwdRow_erase (isZero : α → Bool) (N : Nat) (x : List α) (c acc : List (KVal α))
    (cmd : Cmd) (v : KVal α) (h : EvalPy.fwdRow isZero N x c acc cmd = .ok v) :
    Eval.fwdRow N x (c.map Prod.snd) (acc.map Prod.snd) cmd = some v.2 := by
  unfold EvalPy.fwdRow at h
  unfold Eval.fwdRow
  cases hr : Eval.fwdRule cmd.node with
  | none => simp [hr, throw, throwThe, MonadExceptOf.throw] at h
  | some rule =>
    simp only [hr] at h
    exact RExpr.interpK_ok_erase isZero rule _ _ (fwdCtx_erase N x c acc cmd) v h

theorem fwdAux_erase (isZero : α → Bool) (N : Nat) (x : List α) (c : List (KVal α))
    (rest : List Cmd) (acc kv : List (KVal α))
    (h : EvalPy.fwdAux isZero N x c rest acc = .ok kv) :
    Eval.fwdAux N x (c.map Prod.snd) rest (acc.map Prod.snd) = some (kv.map Prod.snd) := by
  induction rest generalizing acc with
  | nil =>
    simp only [EvalPy.fwdAux, pure, Except.pure, Except.ok.injEq] at h
    subst h; rfl
  | cons cmd rest ih =>
    simp only [EvalPy.fwdAux, bind, Except.bind] at h
    cases hv : EvalPy.fwdRow isZero N x c acc cmd with
    | error e => simp [hv] at h
    | ok v =>
      simp only [hv] at h
      have := ih _ h
      simp only [Eval.fwdAux, fwdRow_erase isZero N x c acc cmd v hv]
      simpa using this

theorem evalpy_ok_erase (isZero : α → Bool) (s : Stack) (x : List α) (c : List (KVal α))
    (kv : List (KVal α)) (h : EvalPy.fwd isZero s x c = .ok kv) :
    Eval.fwd s x (c.map Prod.snd) = some (kv.map Prod.snd) :=
  fwdAux_erase isZero s.length x c s [] kv h

end Erase
end Bingo
