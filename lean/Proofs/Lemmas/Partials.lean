import Proofs.Lemmas.MathSem
import Mathlib.Analysis.SpecialFunctions.Pow.Deriv
import Mathlib.Analysis.Calculus.Deriv.Abs
import Mathlib.Analysis.SpecialFunctions.Sqrt
import Mathlib.Analysis.SpecialFunctions.Log.Deriv
import Mathlib.Analysis.SpecialFunctions.Trigonometric.Deriv
import Mathlib.Analysis.SpecialFunctions.Trigonometric.DerivHyp
import Mathlib.Analysis.SpecialFunctions.ExpDeriv
/-!
# Local partial derivatives of the operator nodes (specification side of C02)

Nothing here looks at `Gen.OpRules`.  `opFn n` is the real function `MathSem.bin n` /
`MathSem.un n` denotes; `dA n a b`, `dB n a b` are the textbook partial derivatives, and
`opFn_hasDerivAt` *proves* with Mathlib's `HasDerivAt` that they are the partial derivatives
(in the strong, chain-rule form needed for forward-mode differentiation of a whole stack).
-/
namespace Bingo

/-! simp lemmas: what the `Scalar ℝ` instance computes -/
section ScalarReal
@[simp] lemma scalar_ofInt_real (n : Int) : (Scalar.ofInt n : ℝ) = (n : ℝ) := rfl
@[simp] lemma scalar_add_real (a b : ℝ) : Scalar.add a b = a + b := rfl
@[simp] lemma scalar_sub_real (a b : ℝ) : Scalar.sub a b = a - b := rfl
@[simp] lemma scalar_mul_real (a b : ℝ) : Scalar.mul a b = a * b := rfl
@[simp] lemma scalar_div_real (a b : ℝ) : Scalar.div a b = a / b := rfl
@[simp] lemma scalar_pow_real (a b : ℝ) : Scalar.pow a b = a ^ b := rfl
@[simp] lemma scalar_sin_real (a : ℝ) : Scalar.sin a = Real.sin a := rfl
@[simp] lemma scalar_cos_real (a : ℝ) : Scalar.cos a = Real.cos a := rfl
@[simp] lemma scalar_sinh_real (a : ℝ) : Scalar.sinh a = Real.sinh a := rfl
@[simp] lemma scalar_cosh_real (a : ℝ) : Scalar.cosh a = Real.cosh a := rfl
@[simp] lemma scalar_exp_real (a : ℝ) : Scalar.exp a = Real.exp a := rfl
@[simp] lemma scalar_log_real (a : ℝ) : Scalar.log a = Real.log a := rfl
@[simp] lemma scalar_abs_real (a : ℝ) : Scalar.abs a = |a| := rfl
@[simp] lemma scalar_sqrt_real (a : ℝ) : Scalar.sqrt a = Real.sqrt a := rfl
@[simp] lemma scalar_sign_real (a : ℝ) : Scalar.sign a = Real.sign a := rfl
end ScalarReal

namespace AD
open Gen.OpDefs

/-- every operator (non-terminal) node number -/
lemma isOp_cases {n : Int} (h : Ops.isTerminal n = some false) :
    n = ADDITION ∨ n = SUBTRACTION ∨ n = MULTIPLICATION ∨ n = DIVISION ∨ n = SIN ∨ n = COS ∨
    n = EXPONENTIAL ∨ n = LOGARITHM ∨ n = POWER ∨ n = ABS ∨ n = SQRT ∨ n = SAFE_POWER ∨
    n = SINH ∨ n = COSH := by
  unfold Ops.isTerminal Gen.OpDefs.isTerminalTbl at h
  simp only [List.lookup] at h
  repeat' split at h
  all_goals first
    | (exfalso; simp at h; done)
    | (rename_i hh; simp only [beq_iff_eq] at hh; subst hh; decide)

/-- the real function an operator row computes from its two operand values
(arity-1 nodes ignore `b`) -/
noncomputable def opFn (n : Int) (a b : ℝ) : ℝ :=
  match MathSem.bin n a b with
  | some v => v
  | none => (MathSem.un n a).getD 0

lemma opFn_of_bin {n : Int} {a b v : ℝ} (h : MathSem.bin n a b = some v) : opFn n a b = v := by
  simp [opFn, h]

lemma opFn_of_un {n : Int} {a b v : ℝ} (hb : MathSem.bin n a b = none)
    (h : MathSem.un n a = some v) : opFn n a b = v := by
  simp [opFn, hb, h]

/-- where the node's function is differentiable in the operand values -/
def NodeDiff (n : Int) (a b : ℝ) : Prop :=
  (n = DIVISION → b ≠ 0) ∧ (n = LOGARITHM → a ≠ 0) ∧ (n = ABS → a ≠ 0) ∧ (n = SQRT → a ≠ 0) ∧
  (n = POWER → 0 < a) ∧ (n = SAFE_POWER → a ≠ 0)

/-- textbook ∂/∂(operand 1) -/
noncomputable def dA (n : Int) (a b : ℝ) : ℝ :=
  if n = ADDITION then 1
  else if n = SUBTRACTION then 1
  else if n = MULTIPLICATION then b
  else if n = DIVISION then 1 / b
  else if n = POWER then b * a ^ (b - 1)
  else if n = SAFE_POWER then b * |a| ^ (b - 1) * Real.sign a
  else if n = SIN then Real.cos a
  else if n = COS then -Real.sin a
  else if n = EXPONENTIAL then Real.exp a
  else if n = LOGARITHM then 1 / a
  else if n = ABS then Real.sign a
  else if n = SQRT then Real.sign a / (2 * Real.sqrt |a|)
  else if n = SINH then Real.cosh a
  else if n = COSH then Real.sinh a
  else 0

/-- textbook ∂/∂(operand 2) (`0` for arity-1 nodes) -/
noncomputable def dB (n : Int) (a b : ℝ) : ℝ :=
  if n = ADDITION then 1
  else if n = SUBTRACTION then -1
  else if n = MULTIPLICATION then a
  else if n = DIVISION then -a / b ^ 2
  else if n = POWER then a ^ b * Real.log a
  else if n = SAFE_POWER then |a| ^ b * Real.log |a|
  else 0

macro "node_simp" : tactic =>
  `(tactic| simp [opFn, dA, dB, MathSem.bin, MathSem.un, ADDITION, SUBTRACTION, MULTIPLICATION,
      DIVISION, SIN, COS, EXPONENTIAL, LOGARITHM, POWER, ABS, SQRT, SAFE_POWER, SINH, COSH])

lemma opFn_add (a b : ℝ) : opFn ADDITION a b = a + b := by node_simp
lemma opFn_sub (a b : ℝ) : opFn SUBTRACTION a b = a - b := by node_simp
lemma opFn_mul (a b : ℝ) : opFn MULTIPLICATION a b = a * b := by node_simp
lemma opFn_div (a b : ℝ) : opFn DIVISION a b = a / b := by node_simp
lemma opFn_pow (a b : ℝ) : opFn POWER a b = a ^ b := by node_simp
lemma opFn_safe_pow (a b : ℝ) : opFn SAFE_POWER a b = |a| ^ b := by node_simp
lemma opFn_sin (a b : ℝ) : opFn SIN a b = Real.sin a := by node_simp
lemma opFn_cos (a b : ℝ) : opFn COS a b = Real.cos a := by node_simp
lemma opFn_exp (a b : ℝ) : opFn EXPONENTIAL a b = Real.exp a := by node_simp
lemma opFn_log (a b : ℝ) : opFn LOGARITHM a b = Real.log |a| := by node_simp
lemma opFn_abs (a b : ℝ) : opFn ABS a b = |a| := by node_simp
lemma opFn_sqrt (a b : ℝ) : opFn SQRT a b = Real.sqrt |a| := by node_simp
lemma opFn_sinh (a b : ℝ) : opFn SINH a b = Real.sinh a := by node_simp
lemma opFn_cosh (a b : ℝ) : opFn COSH a b = Real.cosh a := by node_simp

lemma dA_add (a b : ℝ) : dA ADDITION a b = 1 := by node_simp
lemma dA_sub (a b : ℝ) : dA SUBTRACTION a b = 1 := by node_simp
lemma dA_mul (a b : ℝ) : dA MULTIPLICATION a b = b := by node_simp
lemma dA_div (a b : ℝ) : dA DIVISION a b = 1 / b := by node_simp
lemma dA_pow (a b : ℝ) : dA POWER a b = b * a ^ (b - 1) := by node_simp
lemma dA_safe_pow (a b : ℝ) : dA SAFE_POWER a b = b * |a| ^ (b - 1) * Real.sign a := by node_simp
lemma dA_sin (a b : ℝ) : dA SIN a b = Real.cos a := by node_simp
lemma dA_cos (a b : ℝ) : dA COS a b = -Real.sin a := by node_simp
lemma dA_exp (a b : ℝ) : dA EXPONENTIAL a b = Real.exp a := by node_simp
lemma dA_log (a b : ℝ) : dA LOGARITHM a b = 1 / a := by node_simp
lemma dA_abs (a b : ℝ) : dA ABS a b = Real.sign a := by node_simp
lemma dA_sqrt (a b : ℝ) : dA SQRT a b = Real.sign a / (2 * Real.sqrt |a|) := by node_simp
lemma dA_sinh (a b : ℝ) : dA SINH a b = Real.cosh a := by node_simp
lemma dA_cosh (a b : ℝ) : dA COSH a b = Real.sinh a := by node_simp

lemma dB_add (a b : ℝ) : dB ADDITION a b = 1 := by node_simp
lemma dB_sub (a b : ℝ) : dB SUBTRACTION a b = -1 := by node_simp
lemma dB_mul (a b : ℝ) : dB MULTIPLICATION a b = a := by node_simp
lemma dB_div (a b : ℝ) : dB DIVISION a b = -a / b ^ 2 := by node_simp
lemma dB_pow (a b : ℝ) : dB POWER a b = a ^ b * Real.log a := by node_simp
lemma dB_safe_pow (a b : ℝ) : dB SAFE_POWER a b = |a| ^ b * Real.log |a| := by node_simp
lemma dB_sin (a b : ℝ) : dB SIN a b = 0 := by node_simp
lemma dB_cos (a b : ℝ) : dB COS a b = 0 := by node_simp
lemma dB_exp (a b : ℝ) : dB EXPONENTIAL a b = 0 := by node_simp
lemma dB_log (a b : ℝ) : dB LOGARITHM a b = 0 := by node_simp
lemma dB_abs (a b : ℝ) : dB ABS a b = 0 := by node_simp
lemma dB_sqrt (a b : ℝ) : dB SQRT a b = 0 := by node_simp
lemma dB_sinh (a b : ℝ) : dB SINH a b = 0 := by node_simp
lemma dB_cosh (a b : ℝ) : dB COSH a b = 0 := by node_simp

lemma hasDerivAt_abs_comp {f : ℝ → ℝ} {f' θ : ℝ} (hf : HasDerivAt f f' θ) (h : f θ ≠ 0) :
    HasDerivAt (fun t => |f t|) (Real.sign (f θ) * f') θ := by
  rcases lt_or_gt_of_ne h with hneg | hpos
  · rw [Real.sign_of_neg hneg]; exact (hasDerivAt_abs_neg hneg).comp θ hf
  · rw [Real.sign_of_pos hpos]; exact (hasDerivAt_abs_pos hpos).comp θ hf

/-- **Chain rule for one operator node**: if the operand values move along differentiable
curves `f`, `g`, the node's value moves with velocity `dA·f' + dB·g'`. -/
theorem opFn_hasDerivAt {n : Int} (hop : Ops.isTerminal n = some false) {f g : ℝ → ℝ}
    {f' g' θ : ℝ} (hf : HasDerivAt f f' θ) (hg : HasDerivAt g g' θ)
    (hd : NodeDiff n (f θ) (g θ)) :
    HasDerivAt (fun t => opFn n (f t) (g t))
      (dA n (f θ) (g θ) * f' + dB n (f θ) (g θ) * g') θ := by
  obtain ⟨hdiv, hlog, habs, hsqrt, hpow, hspow⟩ := hd
  rcases isOp_cases hop with rfl | rfl | rfl | rfl | rfl | rfl | rfl | rfl | rfl | rfl | rfl | rfl | rfl | rfl
  · simp only [opFn_add, dA_add, dB_add]
    exact (hf.add hg).congr_deriv (by ring)
  · simp only [opFn_sub, dA_sub, dB_sub]
    exact (hf.sub hg).congr_deriv (by ring)
  · simp only [opFn_mul, dA_mul, dB_mul]
    exact (hf.mul hg).congr_deriv (by ring)
  · simp only [opFn_div, dA_div, dB_div]
    have hb := hdiv rfl
    exact (hf.div hg hb).congr_deriv (by field_simp; ring)
  · simp only [opFn_sin, dA_sin, dB_sin]
    exact (hf.sin).congr_deriv (by ring)
  · simp only [opFn_cos, dA_cos, dB_cos]
    exact (hf.cos).congr_deriv (by ring)
  · simp only [opFn_exp, dA_exp, dB_exp]
    exact (hf.exp).congr_deriv (by ring)
  · simp only [opFn_log, dA_log, dB_log, Real.log_abs]
    exact (hf.log (hlog rfl)).congr_deriv (by ring)
  · simp only [opFn_pow, dA_pow, dB_pow]
    exact (hf.rpow hg (hpow rfl)).congr_deriv (by ring)
  · simp only [opFn_abs, dA_abs, dB_abs]
    exact (hasDerivAt_abs_comp hf (habs rfl)).congr_deriv (by ring)
  · simp only [opFn_sqrt, dA_sqrt, dB_sqrt]
    have ha := hsqrt rfl
    exact ((hasDerivAt_abs_comp hf ha).sqrt (abs_ne_zero.2 ha)).congr_deriv (by ring)
  · simp only [opFn_safe_pow, dA_safe_pow, dB_safe_pow]
    have ha := hspow rfl
    exact ((hasDerivAt_abs_comp hf ha).rpow hg (abs_pos.2 ha)).congr_deriv (by ring)
  · simp only [opFn_sinh, dA_sinh, dB_sinh]
    exact (hf.sinh).congr_deriv (by ring)
  · simp only [opFn_cosh, dA_cosh, dB_cosh]
    exact (hf.cosh).congr_deriv (by ring)

/-- `dA` is the partial derivative in operand 1 -/
theorem hasDerivAt_opFn_left {n : Int} (hop : Ops.isTerminal n = some false) {a b : ℝ}
    (hd : NodeDiff n a b) : HasDerivAt (fun t => opFn n t b) (dA n a b) a := by
  have := opFn_hasDerivAt hop (hasDerivAt_id a) (hasDerivAt_const a b) hd
  simpa using this

/-- `dB` is the partial derivative in operand 2 -/
theorem hasDerivAt_opFn_right {n : Int} (hop : Ops.isTerminal n = some false) {a b : ℝ}
    (hd : NodeDiff n a b) : HasDerivAt (fun t => opFn n a t) (dB n a b) b := by
  have := opFn_hasDerivAt hop (hasDerivAt_const b a) (hasDerivAt_id b) hd
  simpa using this

end AD
end Bingo
