import Proofs.Lemmas.SelAgeFitness
import Proofs.Lemmas.SelExamples
/-!
# Concrete age-fitness run used by the non-vacuity examples of C09
-/
namespace Bingo
namespace Sel
namespace Ex

theorem demo_drawsOK : RunDrawsOK 3 3 2 50 [ia, ib, ic] 0 0 [[0, 1, 2]] := by
  rw [RunDrawsOK]
  intro _
  refine ⟨⟨by decide, by decide, by decide, by decide⟩, ?_⟩
  intro rem pop' _ _
  rw [RunDrawsOK]
  trivial

/-- `AFResult` has no `DecidableEq`; the kernel evaluates the call -/
theorem demo_sel : ageFitness 3 50 ([ia, ib] ++ [ic]) 1 [[0, 1, 2]] =
    some ⟨[ib, ia, ic], 1, 1, [[10, 12]]⟩ := rfl

end Ex
end Sel
end Bingo
