import Model.Strings
/-!
# The `-N^` pass of the tokenizer (`negative_base_pattern`, repair of F11b): what a match does (core only)

`negativeBaseGo_spec`: at a `-` that the lookbehind does not block and that is followed by a non-empty run of
digits and `^`, the pass emits `-1 * `, the digits and `^`, and continues behind the `^` as on a fresh string.
`negativeBaseGo_blocked`: a `-` preceded by the mantissa-and-`e` of a float literal is left alone.
-/
namespace Bingo
namespace Str
namespace NegBase
open Bingo.Str.Tables

theorem spanDigits'_digits (ds rest : List Char) (hds : ∀ c ∈ ds, isReDigit c = true)
    (hrest : ∀ c r, rest = c :: r → isReDigit c = false) :
    spanDigits' (ds ++ rest) = (ds.length, rest) := by
  induction ds with
  | nil =>
    cases rest with
    | nil => rfl
    | cons c r => simp [spanDigits', hrest c r rfl]
  | cons d ds ih =>
    have hd := hds d List.mem_cons_self
    have := ih (fun c hc => hds c (List.mem_cons_of_mem _ hc))
    simp [spanDigits', hd, this]

theorem matchNumberCaret_digits (ds post : List Char) (hne : ds ≠ [])
    (hds : ∀ c ∈ ds, isReDigit c = true) :
    matchNumberCaret (ds ++ '^' :: post) = some (ds.length + 1) := by
  have hsd := spanDigits'_digits ds ('^' :: post) hds (by
    intro c r e; cases e; decide)
  have hpos : ds.length > 0 := List.length_pos_iff.mpr hne
  simp only [matchNumberCaret, hsd, hpos, ↓reduceIte, skipExponent]
  simp [isReSpace]
  omega

/-- the state before the match start only matters through the lookbehind -/
theorem negativeBaseGo_congr (k : Nat) (p2 p2' p1 : Option Char) (s : List Char)
    (h : ∀ q, lookbehindBlocks p2 q = lookbehindBlocks p2' q) :
    negativeBaseGo k p2 p1 s = negativeBaseGo k p2' p1 s := by
  cases s with
  | nil => cases k <;> rfl
  | cons c r =>
    cases k with
    | succ k => rfl
    | zero => simp only [negativeBaseGo, h p1]

theorem lookbehind_caret (q : Option Char) :
    lookbehindBlocks (some '^') q = lookbehindBlocks none q := by
  cases q <;> simp [lookbehindBlocks, show isReDigit '^' = false from by decide]

/-- behind a `^` the pass continues as on a fresh string -/
theorem negativeBaseGo_after_caret (p2 : Option Char) (post : List Char) :
    negativeBaseGo 0 p2 (some '^') post = negativeBaseGo 0 none none post := by
  have hb : lookbehindBlocks p2 (some '^') = false := by
    cases p2 <;> simp [lookbehindBlocks]
  cases post with
  | nil => rfl
  | cons c r =>
    simp only [negativeBaseGo, hb, show lookbehindBlocks none none = false from rfl]
    split
    · split
      · rw [negativeBaseGo_congr _ (some '^') none _ _ lookbehind_caret]
      · rw [negativeBaseGo_congr _ (some '^') none _ _ lookbehind_caret]
    · rw [negativeBaseGo_congr _ (some '^') none _ _ lookbehind_caret]

/-- skipping the characters of a match that ends with `x` -/
theorem negativeBaseGo_skip (a : List Char) (x : Char) (post : List Char) :
    ∀ q2 q1, ∃ p2, negativeBaseGo (a.length + 1) q2 q1 (a ++ x :: post) =
      negativeBaseGo 0 p2 (some x) post := by
  induction a with
  | nil => intro q2 q1; exact ⟨q1, rfl⟩
  | cons c a ih =>
    intro q2 q1
    obtain ⟨p2, hp⟩ := ih q1 (some c)
    exact ⟨p2, hp⟩

theorem negative_base_repl_eq : negative_base_repl.toList = ['-', '1', ' ', '*', ' ', '\\', '1'] := by
  decide

theorem take_len_succ (ds : List Char) (x : Char) (post : List Char) :
    (ds ++ x :: post).take (ds.length + 1) = ds ++ [x] := by
  induction ds with
  | nil => simp
  | cons d ds ih => simp [ih]

theorem expandRepl_neg (g : List Char) :
    expandRepl g ['-', '1', ' ', '*', ' ', '\\', '1'] = ['-', '1', ' ', '*', ' '] ++ g := by
  simp [expandRepl]

/-- what a match of `-` digits `^` does -/
theorem negativeBaseGo_spec (p2 p1 : Option Char) (hb : lookbehindBlocks p2 p1 = false)
    (ds post : List Char) (hne : ds ≠ []) (hds : ∀ c ∈ ds, isReDigit c = true) :
    negativeBaseGo 0 p2 p1 ('-' :: (ds ++ '^' :: post)) =
      ['-', '1', ' ', '*', ' '] ++ ds ++ '^' :: negativeBaseSub post := by
  have hm := matchNumberCaret_digits ds post hne hds
  obtain ⟨q, hq⟩ := negativeBaseGo_skip ds '^' post p1 (some '-')
  simp only [negativeBaseGo, hb, hm, beq_self_eq_true, Bool.not_false, Bool.and_self, ↓reduceIte,
    negative_base_repl_eq]
  rw [take_len_succ, expandRepl_neg, hq, negativeBaseGo_after_caret]
  simp [negativeBaseSub]

/-- a `-` in the exponent of a float literal is left alone -/
theorem negativeBaseGo_blocked (p2 p1 : Option Char) (hb : lookbehindBlocks p2 p1 = true)
    (r : List Char) :
    negativeBaseGo 0 p2 p1 ('-' :: r) = '-' :: negativeBaseGo 0 p1 (some '-') r := by
  simp [negativeBaseGo, hb]

end NegBase
end Str
end Bingo
