import Model.SavGol
import Model.Generated.Consts
/-!
# Savitzky–Golay weight table for `window = 7`, `order = 3`, `deriv = 1` (core Lean only)

All facts here are closed rational identities evaluated by the kernel.
-/
namespace Bingo
namespace SavGol

theorem range7 : List.range 7 = [0, 1, 2, 3, 4, 5, 6] := by decide

/-- the centred column (`w_ind = m = 3`) of the weight table: the classical
`[22, -67, -58, 0, 58, 67, -22] / 252` first-derivative filter -/
theorem weights_centre :
    (List.range 7).map (fun a => weight 3 3 1 a 3)
      = [11/126, -67/252, -29/126, 0, 29/126, 67/252, -11/126] := by decide +kernel

theorem weight_0_3 : weight 3 3 1 0 3 = 11/126 := by decide +kernel
theorem weight_1_3 : weight 3 3 1 1 3 = -67/252 := by decide +kernel
theorem weight_2_3 : weight 3 3 1 2 3 = -29/126 := by decide +kernel
theorem weight_3_3 : weight 3 3 1 3 3 = 0 := by decide +kernel
theorem weight_4_3 : weight 3 3 1 4 3 = 29/126 := by decide +kernel
theorem weight_5_3 : weight 3 3 1 5 3 = 67/252 := by decide +kernel
theorem weight_6_3 : weight 3 3 1 6 3 = -11/126 := by decide +kernel

/-- the full 7×7 table `weights[a][b]`, listed by column `b` (filter) then row `a` (sample) -/
theorem weights_table :
    (List.range 7).map (fun b => (List.range 7).map (fun a => weight 3 3 1 a b))
      = [[-257/252, 61/126, 185/252, 2/7, -11/36, -61/126, 11/36],
         [-61/126, 17/252, 31/126, 4/21, 5/126, -17/252, 1/126],
         [-29/252, -23/126, -19/252, 2/21, 55/252, 23/126, -31/252],
         [11/126, -67/252, -29/126, 0, 29/126, 67/252, -11/126],
         [31/252, -23/126, -55/252, -2/21, 19/252, 23/126, 29/252],
         [-1/126, 17/252, -5/126, -4/21, -31/126, -17/252, 61/126],
         [-11/36, 61/126, 11/36, -2/7, -185/252, -61/126, 257/252]] := by decide +kernel

/-- moment identities of the centred column: it annihilates `1, k², k³` and returns 1 on `k` -/
theorem moments_centre :
    ∀ j ∈ ([0, 1, 2, 3] : List Nat),
      ((List.range 7).map fun a => weight 3 3 1 a 3 * ((a : Rat) - 3) ^ j).sum
        = if j = 1 then 1 else 0 := by decide +kernel

/-- every column `b` (also the asymmetric boundary filters) reproduces the derivative of `kʲ`,
`j ≤ 3`, at its own evaluation point `b - 3` -/
theorem moments_all :
    ∀ b ∈ List.range 7, ∀ j ∈ ([0, 1, 2, 3] : List Nat),
      ((List.range 7).map fun a => weight 3 3 1 a b * ((a : Rat) - 3) ^ j).sum
        = (j : Rat) * ((b : Rat) - 3) ^ (j - 1) := by decide +kernel

end SavGol
end Bingo
