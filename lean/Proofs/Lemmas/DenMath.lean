import Proofs.Lemmas.MathSem
import Proofs.Lemmas.TreeShape
import Proofs.Lemmas.FwdDen
/-!
# The generated rules denote the hand-written mathematical functions (needs Mathlib's `ℝ`)
-/
namespace Bingo
namespace DenMath
open Gen.OpDefs

section real
@[simp] theorem ofInt_real (n : Int) : (Scalar.ofInt n : ℝ) = (n : ℝ) := rfl
@[simp] theorem add_real (a b : ℝ) : Scalar.add a b = a + b := rfl
@[simp] theorem sub_real (a b : ℝ) : Scalar.sub a b = a - b := rfl
@[simp] theorem mul_real (a b : ℝ) : Scalar.mul a b = a * b := rfl
@[simp] theorem div_real (a b : ℝ) : Scalar.div a b = a / b := rfl
@[simp] theorem pow_real (a b : ℝ) : Scalar.pow a b = a ^ b := rfl
@[simp] theorem sin_real (a : ℝ) : Scalar.sin a = Real.sin a := rfl
@[simp] theorem cos_real (a : ℝ) : Scalar.cos a = Real.cos a := rfl
@[simp] theorem sinh_real (a : ℝ) : Scalar.sinh a = Real.sinh a := rfl
@[simp] theorem cosh_real (a : ℝ) : Scalar.cosh a = Real.cosh a := rfl
@[simp] theorem exp_real (a : ℝ) : Scalar.exp a = Real.exp a := rfl
@[simp] theorem log_real (a : ℝ) : Scalar.log a = Real.log a := rfl
@[simp] theorem abs_real (a : ℝ) : Scalar.abs a = |a| := rfl
@[simp] theorem sqrt_real (a : ℝ) : Scalar.sqrt a = Real.sqrt a := rfl
@[simp] theorem sign_real (a : ℝ) : Scalar.sign a = Real.sign a := rfl
end real

/-- a node number is one of the 17 keys of the generated table, or has no rule -/
theorem node_cases (n : Int) :
    n = -1 ∨ n = 0 ∨ n = 1 ∨ n = 2 ∨ n = 3 ∨ n = 4 ∨ n = 5 ∨ n = 6 ∨ n = 7 ∨ n = 8 ∨ n = 9 ∨
    n = 10 ∨ n = 11 ∨ n = 12 ∨ n = 13 ∨ n = 14 ∨ n = 15 ∨ (n < -1 ∨ 15 < n) := by
  omega

theorem fwdRule_none_of_out {n : Int} (h : n < -1 ∨ 15 < n) : Eval.fwdRule n = none := by
  unfold Eval.fwdRule
  rw [List.lookup_eq_none_iff]
  intro p hp
  simp only [Gen.OpRules.fwdRules, List.mem_cons, List.not_mem_nil, or_false] at hp
  rw [bne_iff_ne]
  rcases hp with rfl | rfl | rfl | rfl | rfl | rfl | rfl | rfl | rfl | rfl | rfl | rfl | rfl | rfl |
    rfl | rfl | rfl <;> dsimp only <;> omega

/-- the rule interpreted at a node (what `ETree.den` does after the children are evaluated) -/
noncomputable def nodeVal (n : Int) (cx : RuleCtx ℝ) : Option ℝ :=
  match Eval.fwdRule n with
  | none => none
  | some rule => rule.interp cx

theorem den_leaf (x c : List ℝ) (n p1 : Int) :
    ETree.den x c (.leaf n p1) = nodeVal n (ETree.leafCtx x c p1) := rfl
theorem den_un (x c : List ℝ) (n : Int) (a : ETree) :
    ETree.den x c (.un n a) = nodeVal n (ETree.opCtx (ETree.den x c a) none) := rfl
theorem den_bin (x c : List ℝ) (n : Int) (a b : ETree) :
    ETree.den x c (.bin n a b) =
      nodeVal n (ETree.opCtx (ETree.den x c a) (ETree.den x c b)) := rfl

theorem nodeVal_out {n : Int} (h : n < -1 ∨ 15 < n) (cx : RuleCtx ℝ) : nodeVal n cx = none := by
  simp [nodeVal, fwdRule_none_of_out h]

macro "table_simp" : tactic => `(tactic|
  simp [nodeVal, Eval.fwdRule, Gen.OpRules.fwdRules, List.lookup, RExpr.interp, ETree.opCtx,
    ETree.leafCtx, UnFn.apply, MathSem.un, MathSem.bin, MathSem.leaf,
    INTEGER, VARIABLE, CONSTANT, ADDITION, SUBTRACTION, MULTIPLICATION, DIVISION, SIN, COS,
    EXPONENTIAL, LOGARITHM, POWER, ABS, SQRT, SAFE_POWER, SINH, COSH])

theorem leaf_spec (x c : List ℝ) (n p1 : Int) :
    nodeVal n (ETree.leafCtx x c p1) = MathSem.leaf x c n p1 := by
  rcases node_cases n with h | h | h | h | h | h | h | h | h | h | h | h | h | h | h | h | h | h
  case inr.inr.inr.inr.inr.inr.inr.inr.inr.inr.inr.inr.inr.inr.inr.inr.inr =>
    rw [nodeVal_out h]
    have : n ≠ INTEGER ∧ n ≠ VARIABLE ∧ n ≠ CONSTANT := by
      simp only [INTEGER, VARIABLE, CONSTANT]; omega
    simp [MathSem.leaf, this]
  all_goals (subst h; table_simp)

theorem un_spec (n : Int) (hn : Ops.isTerminal n ≠ some true) (va : Option ℝ) :
    nodeVal n (ETree.opCtx va none) = va.bind (MathSem.un n) := by
  rcases node_cases n with h | h | h | h | h | h | h | h | h | h | h | h | h | h | h | h | h | h
  case inr.inr.inr.inr.inr.inr.inr.inr.inr.inr.inr.inr.inr.inr.inr.inr.inr =>
    rw [nodeVal_out h]
    have : MathSem.un n = fun _ => none := by
      funext a
      have : n ≠ SIN ∧ n ≠ COS ∧ n ≠ EXPONENTIAL ∧ n ≠ LOGARITHM ∧ n ≠ ABS ∧ n ≠ SQRT ∧
          n ≠ SINH ∧ n ≠ COSH := by
        simp only [SIN, COS, EXPONENTIAL, LOGARITHM, ABS, SQRT, SINH, COSH]; omega
      simp [MathSem.un, this]
    cases va <;> simp [this]
  case inl => subst h; exact absurd (by decide) hn
  case inr.inl => subst h; exact absurd (by decide) hn
  case inr.inr.inl => subst h; exact absurd (by decide) hn
  all_goals (subst h; cases va <;> table_simp)

theorem bin_spec (n : Int) (hn : Ops.isArity2 n ≠ some false) (va vb : Option ℝ) :
    nodeVal n (ETree.opCtx va vb) = va.bind fun a => vb.bind fun b => MathSem.bin n a b := by
  rcases node_cases n with h | h | h | h | h | h | h | h | h | h | h | h | h | h | h | h | h | h
  case inr.inr.inr.inr.inr.inr.inr.inr.inr.inr.inr.inr.inr.inr.inr.inr.inr =>
    rw [nodeVal_out h]
    have : MathSem.bin n = fun _ _ => none := by
      funext a b
      have : n ≠ ADDITION ∧ n ≠ SUBTRACTION ∧ n ≠ MULTIPLICATION ∧ n ≠ DIVISION ∧ n ≠ POWER ∧
          n ≠ SAFE_POWER := by
        simp only [ADDITION, SUBTRACTION, MULTIPLICATION, DIVISION, POWER, SAFE_POWER]; omega
      simp [MathSem.bin, this]
    cases va <;> cases vb <;> simp [this]
  all_goals first
    | (subst h; exact absurd (by decide) hn)
    | (subst h; cases va <;> cases vb <;> table_simp)

/-- on arity-respecting trees, the rules regenerated from `operator_eval.py` denote exactly the
hand-written mathematical functions -/
theorem den_eq_math (x c : List ℝ) (t : ETree) (h : t.arityOK = true) :
    ETree.den x c t = MathSem.den x c t := by
  induction t with
  | bad => rfl
  | leaf n p1 => rw [den_leaf]; exact leaf_spec x c n p1
  | un n a iha =>
    simp only [ETree.arityOK, Bool.and_eq_true, bne_iff_ne, ne_eq] at h
    rw [den_un, un_spec n h.1, iha h.2]
    rfl
  | bin n a b iha ihb =>
    simp only [ETree.arityOK, Bool.and_eq_true, bne_iff_ne, ne_eq] at h
    rw [den_bin, bin_spec n h.1.1, iha h.1.2, ihb h.2]
    rfl

/-- end to end: the DAG sweep of any stack computes the mathematical value of every row -/
theorem fwd_eq_math (s : Stack) (x c : List ℝ) :
    Eval.fwd s x c = (ETree.trees s).mapM (MathSem.den x c) := by
  rw [FwdDen.fwd_eq_den]
  have : ∀ l : List ETree, (∀ t ∈ l, t.arityOK = true) →
      l.mapM (ETree.den x c) = l.mapM (MathSem.den x c) := by
    intro l hl
    induction l with
    | nil => rfl
    | cons t l ih =>
      rw [List.mapM_cons, List.mapM_cons, den_eq_math x c t (hl t (by simp)),
        ih (fun t ht => hl t (by simp [ht]))]
  exact this _ (ETree.trees_arityOK s)

end DenMath
end Bingo
