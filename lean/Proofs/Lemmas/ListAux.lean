/-!
# Small list facts used by the C01 proofs (core only, no Mathlib)
-/
namespace Bingo
namespace ListAux

theorem lookup_some_mem {α β : Type} [BEq α] [LawfulBEq α] {l : List (α × β)} {a : α} {b : β}
    (h : l.lookup a = some b) : (a, b) ∈ l := by
  obtain ⟨l₁, l₂, rfl, _⟩ := List.lookup_eq_some_iff.mp h
  simp

/-- `mapM` in `Option` succeeds with `l'` iff `f` is `some` of the matching entry everywhere -/
theorem mapM_eq_some_iff {α β : Type} {f : α → Option β} {l : List α} {l' : List β} :
    l.mapM f = some l' ↔ l.map f = l'.map some := by
  induction l generalizing l' with
  | nil => cases l' <;> simp
  | cons a l ih =>
    rw [List.mapM_cons]
    cases hfa : f a with
    | none => cases l' <;> simp [hfa]
    | some b =>
      cases hl : l.mapM f with
      | none =>
        cases l' with
        | nil => simp
        | cons b' l'' =>
          have := @ih l''
          simp [hl] at this
          simp [hfa, this]
      | some bs =>
        have h1 := (@ih bs).mp hl
        cases l' with
        | nil => simp
        | cons b' l'' =>
          simp only [Option.bind_eq_bind, Option.bind_some, Option.pure_def, Option.some.injEq,
            List.cons.injEq, List.map_cons, hfa]
          constructor
          · rintro ⟨rfl, rfl⟩; exact ⟨rfl, h1⟩
          · rintro ⟨rfl, h2⟩
            refine ⟨rfl, ?_⟩
            have := (@ih l'').mpr h2
            rw [hl] at this
            exact Option.some.inj this

theorem mapM_append_none_left {α β : Type} {f : α → Option β} {l₁ l₂ : List α}
    (h : l₁.mapM f = none) : (l₁ ++ l₂).mapM f = none := by
  rw [List.mapM_append, h]; rfl

theorem mapM_concat_none {α β : Type} {f : α → Option β} {l : List α} {a : α}
    (h : f a = none) : (l ++ [a]).mapM f = none := by
  rw [List.mapM_append, List.mapM_cons, h]
  cases l.mapM f <;> rfl

end ListAux
end Bingo
