import Model.Selection
/-!
# `_swap_removals_to_end`: `sortDesc`, `swap`, and the position-level specification (core only)
-/
namespace Bingo
namespace Sel

/-! ## `sortDesc` -/

theorem insertDesc_perm (x : Nat) (l : List Nat) : (insertDesc x l).Perm (x :: l) := by
  induction l with
  | nil => exact List.Perm.refl _
  | cons y ys ih =>
    unfold insertDesc
    split
    · exact List.Perm.refl _
    · exact (List.Perm.cons y ih).trans (List.Perm.swap x y ys)

theorem sortDesc_perm (l : List Nat) : (sortDesc l).Perm l := by
  induction l with
  | nil => exact List.Perm.refl _
  | cons x xs ih =>
    show (insertDesc x (sortDesc xs)).Perm (x :: xs)
    exact (insertDesc_perm x _).trans (List.Perm.cons x ih)

theorem insertDesc_sorted (x : Nat) (l : List Nat) (h : l.Pairwise (· ≥ ·)) :
    (insertDesc x l).Pairwise (· ≥ ·) := by
  induction l with
  | nil => simp [insertDesc]
  | cons y ys ih =>
    unfold insertDesc
    rw [List.pairwise_cons] at h
    split
    · rename_i hxy
      refine List.pairwise_cons.2 ⟨?_, List.pairwise_cons.2 h⟩
      intro a ha
      rcases List.mem_cons.1 ha with rfl | ha
      · exact hxy
      · have := h.1 a ha; omega
    · rename_i hxy
      refine List.pairwise_cons.2 ⟨?_, ih h.2⟩
      intro a ha
      have := (insertDesc_perm x ys).mem_iff.1 ha
      rcases List.mem_cons.1 this with rfl | ha'
      · omega
      · exact h.1 a ha'

theorem sortDesc_sorted (l : List Nat) : (sortDesc l).Pairwise (· ≥ ·) := by
  induction l with
  | nil => simp [sortDesc]
  | cons x xs ih => exact insertDesc_sorted x _ ih

theorem sortDesc_strict {l : List Nat} (h : l.Nodup) : (sortDesc l).Pairwise (· > ·) := by
  have h1 : (sortDesc l).Nodup := (sortDesc_perm l).nodup_iff.2 h
  rw [List.nodup_iff_pairwise_ne] at h1
  exact ((sortDesc_sorted l).and h1).imp (fun ⟨a, b⟩ => by omega)

theorem sortDesc_length (l : List Nat) : (sortDesc l).length = l.length :=
  (sortDesc_perm l).length_eq

theorem mem_sortDesc {l : List Nat} {a : Nat} : a ∈ sortDesc l ↔ a ∈ l :=
  (sortDesc_perm l).mem_iff

/-! ## `swap` -/

section swap
variable {β : Type}

theorem swap_isSome {l : List β} {i j : Nat} (hi : i < l.length) (hj : j < l.length) :
    swap l i j = some ((l.set i l[j]).set j l[i]) := by
  simp [swap, List.getElem?_eq_getElem hi, List.getElem?_eq_getElem hj]

theorem swap_some_iff {l l' : List β} {i j : Nat} (h : swap l i j = some l') :
    ∃ (hi : i < l.length) (hj : j < l.length), l' = (l.set i l[j]).set j l[i] := by
  unfold swap at h
  cases hi : l[i]? with
  | none => simp [hi] at h
  | some a =>
    cases hj : l[j]? with
    | none => simp [hi, hj] at h
    | some b =>
      obtain ⟨hi', rfl⟩ := List.getElem?_eq_some_iff.1 hi
      obtain ⟨hj', rfl⟩ := List.getElem?_eq_some_iff.1 hj
      simp only [hi, hj, Option.some.injEq] at h
      exact ⟨hi', hj', h.symm⟩

theorem swap_length {l l' : List β} {i j : Nat} (h : swap l i j = some l') :
    l'.length = l.length := by
  obtain ⟨_, _, rfl⟩ := swap_some_iff h; simp

theorem swap_get_right {l l' : List β} {i j : Nat} (h : swap l i j = some l') :
    l'[j]? = l[i]? := by
  obtain ⟨hi, hj, rfl⟩ := swap_some_iff h
  rw [List.getElem?_set_self (by simpa using hj), List.getElem?_eq_getElem hi]

theorem swap_get_left {l l' : List β} {i j : Nat} (h : swap l i j = some l') :
    l'[i]? = l[j]? := by
  obtain ⟨hi, hj, rfl⟩ := swap_some_iff h
  by_cases hij : i = j
  · subst hij
    rw [List.getElem?_set_self (by simpa using hj), List.getElem?_eq_getElem hi]
  · rw [List.getElem?_set_ne (Ne.symm hij), List.getElem?_set_self hi, List.getElem?_eq_getElem hj]

theorem swap_get_other {l l' : List β} {i j k : Nat} (h : swap l i j = some l')
    (hki : k ≠ i) (hkj : k ≠ j) : l'[k]? = l[k]? := by
  obtain ⟨hi, hj, rfl⟩ := swap_some_iff h
  rw [List.getElem?_set_ne (Ne.symm hkj), List.getElem?_set_ne (Ne.symm hki)]

theorem swap_perm [DecidableEq β] {l l' : List β} {i j : Nat} (h : swap l i j = some l') :
    l'.Perm l := by
  obtain ⟨hi, hj, rfl⟩ := swap_some_iff h
  by_cases hij : i = j
  · subst hij
    rw [List.set_set, List.set_getElem_self]
  · rw [List.perm_iff_count]
    intro c
    have hj' : j < (l.set i l[j]).length := by simpa using hj
    rw [List.count_set hj', List.count_set hi]
    have e1 : (l.set i l[j])[j] = l[j] := by
      rw [List.getElem_set_ne hij]
    rw [e1]
    have p1 : (l[i] == c) = true → 0 < List.count c l := by
      intro hc
      have : l[i] = c := by simpa using hc
      rw [List.count_pos_iff, ← this]; exact List.getElem_mem hi
    split <;> split <;> first | omega | (have := p1 (by assumption); omega)

end swap

/-! ## the loop of `_swap_removals_to_end` -/

/-- any successful run only permutes -/
theorem swapGo_perm (k : Nat) : ∀ (S : List Nat) (p : List Indv) (i : Nat) (p' : List Indv),
    swapRemovalsToEnd.go k p i S = some p' → p'.Perm p ∧ p'.length = p.length := by
  intro S
  induction S with
  | nil => intro p i p' h; simp [swapRemovalsToEnd.go] at h; subst h; exact ⟨List.Perm.refl _, rfl⟩
  | cons s rest ih =>
    intro p i p' h
    rw [swapRemovalsToEnd.go] at h
    split at h
    · cases hs : swap p s (p.length - (i + k + 1)) with
      | none => simp [hs] at h
      | some p1 =>
        simp only [hs] at h
        obtain ⟨h1, h2⟩ := ih p1 (i + 1) p' h
        exact ⟨h1.trans (swap_perm hs), h2.trans (swap_length hs)⟩
    · cases h

theorem swapRemovalsToEnd_perm {pop pop' : List Indv} {R : List Nat} {k : Nat}
    (h : swapRemovalsToEnd pop R k = some pop') : pop'.Perm pop ∧ pop'.length = pop.length :=
  swapGo_perm k _ _ _ _ h

/-- position-level specification of the loop: `S` strictly decreasing and below the live bound
`M = p.length - (i + k)` -/
theorem swapGo_spec (k : Nat) : ∀ (S : List Nat) (p : List Indv) (i M : Nat),
    M + (i + k) = p.length → S.Pairwise (· > ·) → (∀ s ∈ S, s < M) →
    ∃ p', swapRemovalsToEnd.go k p i S = some p' ∧
      (∀ j, M ≤ j → p'[j]? = p[j]?) ∧
      (∀ t (ht : t < S.length), p'[M - 1 - t]? = p[S[t]]?) := by
  intro S
  induction S with
  | nil =>
    intro p i M _ _ _
    exact ⟨p, by simp [swapRemovalsToEnd.go], fun _ _ => rfl, fun t ht => by simp at ht⟩
  | cons s rest ih =>
    intro p i M hM hS hlt
    have hs : s < M := hlt s (by simp)
    rw [List.pairwise_cons] at hS
    rw [swapRemovalsToEnd.go]
    have hc : i + k + 1 ≤ p.length := by omega
    simp only [hc, if_true]
    have hpos : p.length - (i + k + 1) = M - 1 := by omega
    rw [hpos]
    have hsw := swap_isSome (l := p) (i := s) (j := M - 1) (by omega) (by omega)
    generalize hp1 : (p.set s p[M - 1]).set (M - 1) p[s] = p1 at hsw
    simp only [hsw]
    have hlen1 : p1.length = p.length := swap_length hsw
    obtain ⟨p', hgo, hhi, hmid⟩ := ih p1 (i + 1) (M - 1) (by omega) hS.2
      (fun r hr => by have := hS.1 r hr; omega)
    refine ⟨p', hgo, ?_, ?_⟩
    · intro j hj
      rw [hhi j (by omega)]
      exact swap_get_other hsw (by omega) (by omega)
    · intro t ht
      cases t with
      | zero =>
        rw [hhi (M - 1 - 0) (by omega)]
        simpa using swap_get_right hsw
      | succ t =>
        have ht' : t < rest.length := by simpa using ht
        have e : M - 1 - (t + 1) = M - 1 - 1 - t := by omega
        rw [e, hmid t ht']
        have hr : rest[t] < s := hS.1 _ (List.getElem_mem ht')
        simpa using swap_get_other hsw (k := rest[t]) (by omega) (by omega)

/-! ## list helpers -/

theorem range_filterMap_getElem? {β : Type} (l : List β) (n : Nat) :
    (List.range n).filterMap (fun j => l[j]?) = l.take n := by
  induction n with
  | zero => simp
  | succ n ih =>
    rw [List.range_succ, List.filterMap_append, ih, List.take_add_one]
    congr 1

theorem filterMap_eq_of_map_eq {α β : Type} {f : α → Option β} {l : List α} {l' : List β}
    (h : l.map f = l'.map some) : l.filterMap f = l' := by
  have : l.filterMap f = (l.map f).filterMap id := by rw [List.filterMap_map]; rfl
  rw [this, h, List.filterMap_map]
  exact List.filterMap_some

/-- the specification of `_swap_removals_to_end` (`L` = size of the live prefix) -/
theorem swapRemovalsToEnd_spec {pop : List Indv} {R : List Nat} {k : Nat}
    (hk : k ≤ pop.length) (hnd : R.Nodup) (hlt : ∀ x ∈ R, x < pop.length - k) :
    ∃ pop', swapRemovalsToEnd pop R k = some pop' ∧
      pop'.length = pop.length ∧ pop'.Perm pop ∧
      -- positions `≥ L` are unchanged
      (∀ j, pop.length - k ≤ j → pop'[j]? = pop[j]?) ∧
      pop'.drop (pop.length - k) = pop.drop (pop.length - k) ∧
      -- position `L-1-t` holds the individual that was at the `t`-th largest index of `R`
      (∀ t (ht : t < (sortDesc R).length), pop'[pop.length - k - 1 - t]? = pop[(sortDesc R)[t]]?) ∧
      -- positions `[L - |R|, L)` hold exactly the individuals that were at the indices in `R`
      ((pop'.take (pop.length - k)).drop (pop.length - k - R.length)
        = (sortDesc R).reverse.filterMap (fun j => pop[j]?)) ∧
      ((pop'.take (pop.length - k)).drop (pop.length - k - R.length)).Perm
        (R.filterMap (fun j => pop[j]?)) ∧
      -- positions `[0, L - |R|)` hold exactly the other individuals of `[0, L)`
      (pop'.take (pop.length - k - R.length)).Perm
        (((List.range (pop.length - k)).filter (fun j => !R.contains j)).filterMap (fun j => pop[j]?)) := by
  generalize hL : pop.length - k = L at *
  obtain ⟨pop', hgo, hhi, hmid⟩ := swapGo_spec k (sortDesc R) pop 0 L (by omega)
    (sortDesc_strict hnd) (fun s hs => hlt s (mem_sortDesc.1 hs))
  have hperm := swapRemovalsToEnd_perm (R := R) hgo
  have hR : ((List.range L).filter (fun j => R.contains j)).Perm R := by
    rw [List.perm_ext_iff_of_nodup (List.nodup_range.sublist List.filter_sublist) hnd]
    intro a
    simp only [List.mem_filter, List.mem_range, List.contains_iff_mem]
    exact ⟨fun h => h.2, fun h => ⟨hlt a h, h⟩⟩
  have hRlen : R.length ≤ L := by
    rw [← hR.length_eq]
    have := List.length_filter_le (fun j => R.contains j) (List.range L)
    simpa using this
  have hdrop : pop'.drop L = pop.drop L := by
    apply List.ext_getElem?
    intro j
    rw [List.getElem?_drop, List.getElem?_drop]
    exact hhi _ (by omega)
  have hmidEq : (pop'.take L).drop (L - R.length)
      = (sortDesc R).reverse.filterMap (fun j => pop[j]?) := by
    symm
    apply filterMap_eq_of_map_eq
    apply List.ext_getElem?
    intro u
    have hn := sortDesc_length R
    by_cases hu : u < R.length
    · rw [List.getElem?_map, List.getElem?_reverse (by omega), List.getElem?_map,
        List.getElem?_drop, List.getElem?_take, if_pos (by omega)]
      have h1 : (sortDesc R).length - 1 - u < (sortDesc R).length := by omega
      rw [List.getElem?_eq_getElem h1]
      have := hmid ((sortDesc R).length - 1 - u) h1
      have e : L - 1 - ((sortDesc R).length - 1 - u) = L - R.length + u := by omega
      rw [e] at this
      rw [this]
      have hb : (sortDesc R)[(sortDesc R).length - 1 - u] < pop.length := by
        have := hlt _ (mem_sortDesc.1 (List.getElem_mem h1)); omega
      simp [List.getElem?_eq_getElem hb]
    · have e1 : (List.map (fun j => pop[j]?) (sortDesc R).reverse)[u]? = none := by
        rw [List.getElem?_eq_none_iff]; simp; omega
      have e2 : (List.map some (List.drop (L - R.length) (List.take L pop')))[u]? = none := by
        rw [List.getElem?_eq_none_iff]; simp; omega
      rw [e1, e2]
  have hmidPerm : ((pop'.take L).drop (L - R.length)).Perm (R.filterMap (fun j => pop[j]?)) := by
    rw [hmidEq]
    exact ((List.reverse_perm _).trans (sortDesc_perm R)).filterMap _
  refine ⟨pop', hgo, hperm.2, hperm.1, hhi, hdrop, ?_, hmidEq, hmidPerm, ?_⟩
  · intro t ht; exact hmid t ht
  · -- cancellation argument
    have hT : (pop'.take L).Perm (pop.take L) := by
      have h1 : (pop'.take L ++ pop'.drop L).Perm (pop.take L ++ pop.drop L) := by
        rw [List.take_append_drop, List.take_append_drop]; exact hperm.1
      rw [hdrop] at h1
      exact (List.perm_append_right_iff _).1 h1
    have hsplit : pop'.take L = pop'.take (L - R.length) ++ (pop'.take L).drop (L - R.length) := by
      conv => lhs; rw [← List.take_append_drop (L - R.length) (pop'.take L)]
      rw [List.take_take]
      congr 2; omega
    have hpopL : (pop.take L).Perm
        (((List.range L).filter (fun j => !R.contains j)).filterMap (fun j => pop[j]?)
          ++ R.filterMap (fun j => pop[j]?)) := by
      rw [← range_filterMap_getElem? pop L]
      have := (List.filter_append_perm (fun j => R.contains j) (List.range L)).symm
      have h2 := this.filterMap (fun j => pop[j]?)
      rw [List.filterMap_append] at h2
      exact h2.trans (List.perm_append_comm.trans (List.Perm.append_left _ (hR.filterMap _)))
    have h3 : (pop'.take (L - R.length) ++ (pop'.take L).drop (L - R.length)).Perm
        (((List.range L).filter (fun j => !R.contains j)).filterMap (fun j => pop[j]?)
          ++ (pop'.take L).drop (L - R.length)) := by
      rw [← hsplit]
      exact hT.trans (hpopL.trans (List.Perm.append_left _ hmidPerm.symm))
    exact (List.perm_append_right_iff _).1 h3

end Sel
end Bingo
