import Proofs.Lemmas.ReverseMode
import Proofs.Lemmas.RevRules
import Proofs.Lemmas.FwdSpec
/-!
# `Eval.revSweep` on a well-formed stack *is* the abstract reverse sweep

`absRows seed v s` is the linear DAG of a stack at forward values `v`: operator rows carry the
textbook local partials `dA`, `dB`; terminal rows carry a seed.  `revSweep_sim` shows that the
adjoint list of `Eval.revSweep` (which executes the generated rules) follows
`ReverseMode.revSweep` step by step, and that the derivative list collects, per column, the
final adjoints of the rows loading that column.  `rev_eq_tangent` then reads
`ReverseMode.reverse_is_tangent` on it.
-/
namespace Bingo
namespace AD
open Gen.OpDefs Finset

/-- the abstract row of a command -/
noncomputable def absRow (seed : Cmd → ℝ) (v : Nat → ℝ) (cmd : Cmd) : ReverseMode.Row ℝ :=
  if Ops.isTerminal cmd.node = some false then
    .op cmd.p1.toNat cmd.p2.toNat
      (dA cmd.node (v cmd.p1.toNat) (v cmd.p2.toNat))
      (dB cmd.node (v cmd.p1.toNat) (v cmd.p2.toNat))
  else .leaf (seed cmd)

/-- the linear DAG of a stack at forward values `v`, with leaf seeds `seed` -/
noncomputable def absRows (seed : Cmd → ℝ) (v : Nat → ℝ) (s : Stack) : List (ReverseMode.Row ℝ) :=
  s.map (absRow seed v)

/-- seed 1 on the rows that load column `j` with node type `wrt`, 0 on every other terminal -/
def colSeed (wrt : Int) (j : Nat) (cmd : Cmd) : ℝ :=
  if cmd.node = wrt ∧ cmd.p1 = (j : Int) then 1 else 0

@[simp] lemma length_absRows (seed : Cmd → ℝ) (v : Nat → ℝ) (s : Stack) :
    (absRows seed v s).length = s.length := by simp [absRows]

lemma getElem?_absRows (seed : Cmd → ℝ) (v : Nat → ℝ) (s : Stack) {i : Nat} (hi : i < s.length) :
    (absRows seed v s)[i]? = some (absRow seed v s[i]) := by
  simp [absRows, List.getElem?_eq_getElem hi]

lemma wf_absRows {D L : Nat} {s : Stack} (hwf : WF.WFEval D L s) (seed : Cmd → ℝ) (v : Nat → ℝ) :
    ReverseMode.WF (absRows seed v s) := by
  intro i h
  have hi : i < s.length := by simpa using h
  have hrow : (absRows seed v s)[i] = absRow seed v s[i] := by simp [absRows]
  rw [hrow]
  unfold absRow
  split_ifs with hop
  · rcases rowOK_cases (rowOK_of_wf hwf i hi) with ⟨hn, _⟩ | ⟨hn, _⟩ | hn | ⟨_, b0, b1, b2, b3⟩
    · rw [hn, isTerminal_VARIABLE] at hop; cases hop
    · rw [hn, isTerminal_CONSTANT] at hop; cases hop
    · rw [hn, isTerminal_INTEGER] at hop; cases hop
    · simp only; omega
  · trivial

/-! ## one reverse step -/

section step
variable {D L : Nat} {s : Stack} {fw : List ℝ} {wrt : Int} {ncols : Nat}

/-- hypotheses shared by the simulation lemmas -/
structure SimHyp (D L : Nat) (s : Stack) (fw : List ℝ) (wrt : Int) (ncols : Nat) : Prop where
  wf : WF.WFEval D L s
  len : fw.length = s.length
  val : ∀ i (hi : i < s.length), Ops.isTerminal s[i].node = some false →
    fw.getD i 0 = opFn s[i].node (fw.getD s[i].p1.toNat 0) (fw.getD s[i].p2.toNat 0)
  diff : ∀ i (hi : i < s.length), Ops.isTerminal s[i].node = some false →
    NodeDiff s[i].node (fw.getD s[i].p1.toNat 0) (fw.getD s[i].p2.toNat 0)
  wrtT : Ops.isTerminal wrt = some true
  cols : ∀ i (hi : i < s.length), s[i].node = wrt → 0 ≤ s[i].p1 ∧ s[i].p1 < ncols

lemma getD_set (l : List ℝ) (p : Nat) (a : ℝ) (k : Nat) (hp : p < l.length) :
    (l.set p a).getD k 0 = if k = p then a else l.getD k 0 := by
  by_cases h : k = p
  · subst h; simp [List.getD_eq_getElem?_getD, hp]
  · simp [List.getD_eq_getElem?_getD, List.getElem?_set_ne (Ne.symm h), h]

lemma getD_addAt_pair (radj : List ℝ) {p q : Nat} (u w : ℝ) (hp : p < radj.length)
    (hq : q < radj.length) :
    (fun i => (addAt (addAt radj p u) q w).getD i 0) =
      Function.update (Function.update (fun i => radj.getD i 0) p (radj.getD p 0 + u)) q
        ((Function.update (fun i => radj.getD i 0) p (radj.getD p 0 + u)) q + w) := by
  funext i
  have hql : q < (addAt radj p u).length := by simpa using hq
  rw [getD_addAt _ _ _ hql, getD_addAt _ _ _ hp]
  simp only [Function.update_apply]
  by_cases hiq : i = q
  · subst hiq
    by_cases hip : i = p
    · subst hip; simp only [if_true]
    · simp only [hip, if_true, if_false]
  · by_cases hip : i = p
    · subst hip; simp only [hiq, if_true, if_false]
    · simp only [hiq, hip, if_false]

lemma revStep_sim (H : SimHyp D L s fw wrt ncols) {k : Nat} (hk : k < s.length)
    {radj d : List ℝ} (hr : radj.length = s.length) (hdl : d.length = ncols) :
    ∃ radj' d', Eval.revStep s wrt fw k (radj, d) = some (radj', d') ∧
      radj'.length = s.length ∧ d'.length = ncols ∧
      (∀ seed, (fun i => radj'.getD i 0) =
        ReverseMode.revStep (absRows seed (fun m => fw.getD m 0) s) (fun i => radj.getD i 0) k) ∧
      ∀ j : Nat, d'.getD j 0 = d.getD j 0 +
        (if s[k].node = wrt ∧ s[k].p1 = (j : Int) then radj.getD k 0 else 0) := by
  have hsk : s[k]? = some s[k] := List.getElem?_eq_getElem hk
  have hkr : k < radj.length := by rw [hr]; exact hk
  have hrk' : radj[k]? = some (radj.getD k 0) := by
    simp [List.getD_eq_getElem?_getD, hkr]
  by_cases hop : Ops.isTerminal s[k].node = some false
  · -- operator row
    have hne : s[k].node ≠ wrt := by
      intro e; rw [e, H.wrtT] at hop; cases hop
    rcases rowOK_cases (rowOK_of_wf H.wf k hk) with ⟨hn, _⟩ | ⟨hn, _⟩ | hn | ⟨_, b0, b1, b2, b3⟩
    · rw [hn, isTerminal_VARIABLE] at hop; cases hop
    · rw [hn, isTerminal_CONSTANT] at hop; cases hop
    · rw [hn, isTerminal_INTEGER] at hop; cases hop
    have hpk : s[k].p1.toNat < k := by omega
    have hqk : s[k].p2.toNat < k := by omega
    have hp : pyIdx s.length s[k].p1 = some s[k].p1.toNat := pyIdx_of_lt b0 (by omega)
    have hq : pyIdx s.length s[k].p2 = some s[k].p2.toNat := pyIdx_of_lt b2 (by omega)
    have hfa : fw[s[k].p1.toNat]? = some (fw.getD s[k].p1.toNat 0) := by
      have : s[k].p1.toNat < fw.length := by rw [H.len]; omega
      simp [List.getD_eq_getElem?_getD, this]
    have hfb : fw[s[k].p2.toNat]? = some (fw.getD s[k].p2.toNat 0) := by
      have : s[k].p2.toNat < fw.length := by rw [H.len]; omega
      simp [List.getD_eq_getElem?_getD, this]
    have hfk : fw[k]? = some (opFn s[k].node (fw.getD s[k].p1.toNat 0) (fw.getD s[k].p2.toNat 0)) := by
      have : k < fw.length := by rw [H.len]; exact hk
      rw [← H.val k hk hop]
      simp [List.getD_eq_getElem?_getD, this]
    obtain ⟨stmts, hrule, happ⟩ := revRule_spec hop hp hq hpk hqk hkr
      hfa hfb hfk hrk' (H.diff k hk hop)
    have hstep : Eval.revStep s wrt fw k (radj, d) =
        (Eval.applyStmts s.length fw k s[k] stmts radj).map (·, d) := by
      simp only [Eval.revStep, hsk, hne, if_false, hrule]
    rw [happ, Option.map_some] at hstep
    refine ⟨_, d, hstep, by simp [hr], hdl, ?_, ?_⟩
    · intro seed
      rw [getD_addAt_pair radj _ _ (by omega) (by omega)]
      unfold ReverseMode.revStep
      rw [getElem?_absRows _ _ _ hk]
      simp only [absRow, hop, if_true]
    · intro j
      simp [hne]
  · -- terminal row
    have hrow : (s[k].node = VARIABLE ∧ 0 ≤ s[k].p1 ∧ s[k].p1 < D) ∨
        (s[k].node = CONSTANT ∧ 0 ≤ s[k].p1 ∧ s[k].p1 < L) ∨ s[k].node = INTEGER := by
      rcases rowOK_cases (rowOK_of_wf H.wf k hk) with h | h | h | ⟨h, _⟩
      · exact Or.inl h
      · exact Or.inr (Or.inl h)
      · exact Or.inr (Or.inr h)
      · exact absurd h hop
    have hrm : ∀ seed, (fun i => radj.getD i 0) =
        ReverseMode.revStep (absRows seed (fun m => fw.getD m 0) s) (fun i => radj.getD i 0) k := by
      intro seed
      unfold ReverseMode.revStep
      rw [getElem?_absRows _ _ _ hk]
      simp only [absRow, hop, if_false]
    by_cases hw : s[k].node = wrt
    · obtain ⟨c0, c1⟩ := H.cols k hk hw
      have hjl : s[k].p1.toNat < d.length := by omega
      have hp : pyIdx d.length s[k].p1 = some s[k].p1.toNat := pyIdx_of_lt c0 hjl
      have hdk : d[s[k].p1.toNat]? = some (d.getD s[k].p1.toNat 0) := by
        simp [List.getD_eq_getElem?_getD, hjl]
      have hstep : Eval.revStep s wrt fw k (radj, d) =
          some (radj, d.set s[k].p1.toNat (d.getD s[k].p1.toNat 0 + radj.getD k 0)) := by
        simp only [Eval.revStep, hsk, hw, if_true, hp, hdk, hrk', Option.bind_eq_bind,
          Option.bind_some, Option.pure_def, scalar_add_real]
      refine ⟨_, _, hstep, hr, by simp [hdl], hrm, ?_⟩
      intro j
      rw [getD_set _ _ _ _ hjl]
      by_cases hj : j = s[k].p1.toNat
      · have hpj : s[k].p1 = (j : Int) := by omega
        rw [if_pos hj, if_pos ⟨hw, hpj⟩, hj]
      · have hpj : ¬ s[k].p1 = (j : Int) := by omega
        rw [if_neg hj, if_neg (fun h => hpj h.2), add_zero]
    · have hrule : Eval.revRule s[k].node = some [] := by
        rcases hrow with ⟨h, _⟩ | ⟨h, _⟩ | h <;> rw [h] <;> rfl
      have hstep : Eval.revStep s wrt fw k (radj, d) = some (radj, d) := by
        simp only [Eval.revStep, hsk, hw, if_false, hrule, Eval.applyStmts, Option.map_some]
      refine ⟨_, _, hstep, hr, hdl, hrm, ?_⟩
      intro j
      rw [if_neg (fun h => hw h.1), add_zero]

end step

/-! ## the whole sweep -/

/-- contribution of row `i` to output column `j` -/
def colTerm (wrt : Int) (j : Nat) (s : Stack) (adj : Nat → ℝ) (i : Nat) : ℝ :=
  match s[i]? with
  | some cmd => if cmd.node = wrt ∧ cmd.p1 = (j : Int) then adj i else 0
  | none => 0

theorem revSweep_sim {D L : Nat} {s : Stack} {fw : List ℝ} {wrt : Int} {ncols : Nat}
    (H : SimHyp D L s fw wrt ncols) :
    ∀ (k : Nat), k ≤ s.length → ∀ (radj d : List ℝ), radj.length = s.length → d.length = ncols →
      ∃ radj' d', Eval.revSweep s wrt fw k (radj, d) = some (radj', d') ∧
        radj'.length = s.length ∧ d'.length = ncols ∧
        (∀ seed, (fun i => radj'.getD i 0) =
          ReverseMode.revSweep (absRows seed (fun m => fw.getD m 0) s) k (fun i => radj.getD i 0)) ∧
        ∀ j : Nat, d'.getD j 0 = d.getD j 0 +
          ∑ i ∈ range k, colTerm wrt j s (fun i => radj'.getD i 0) i
  | 0, _, radj, d, hr, hdl => ⟨radj, d, rfl, hr, hdl, fun _ => rfl, fun j => by simp⟩
  | k+1, hk, radj, d, hr, hdl => by
    have hk' : k < s.length := by omega
    obtain ⟨radj1, d1, hstep, hr1, hd1, hadj1, hcol1⟩ := revStep_sim H hk' hr hdl
    obtain ⟨radj', d', hsw, hr', hd', hadj', hcol'⟩ :=
      revSweep_sim H k (by omega) radj1 d1 hr1 hd1
    refine ⟨radj', d', by simp [Eval.revSweep, hstep, hsw], hr', hd', ?_, ?_⟩
    · intro seed
      rw [hadj' seed, hadj1 seed]
      rfl
    · intro j
      rw [hcol' j, hcol1 j, Finset.sum_range_succ, add_assoc]
      congr 1
      rw [add_comm]
      congr 1
      -- the adjoint of row `k` is final once the sweep has passed it
      have hwfR := wf_absRows H.wf (fun _ => 0) (fun m => fw.getD m 0)
      have e1 : radj'.getD k 0 = radj1.getD k 0 := by
        have : radj'.getD k 0 = _ := congrFun (hadj' (fun _ => 0)) k
        rw [this, ReverseMode.revSweep_of_ge _ hwfR k _ k (le_refl _)]
      have e2 : radj1.getD k 0 = radj.getD k 0 := by
        have : radj1.getD k 0 = _ := congrFun (hadj1 (fun _ => 0)) k
        rw [this, ReverseMode.revStep_of_ge _ hwfR _ k k (le_refl _)]
      unfold colTerm
      rw [List.getElem?_eq_getElem hk']
      simp only [e1, e2]

lemma getD_radj0 (n i : Nat) :
    (List.replicate n (Eval.zero : ℝ) ++ [Eval.one]).getD i 0
      = (ReverseMode.seed (n+1) : Nat → ℝ) i := by
  unfold ReverseMode.seed
  rcases Nat.lt_trichotomy i n with h | h | h
  · have : ¬ (i + 1 = n + 1) := by omega
    simp [List.getD_eq_getElem?_getD, List.getElem?_append_left, h, Eval.zero]
    omega
  · subst h
    simp [List.getD_eq_getElem?_getD, Eval.one]
  · have : ¬ (i + 1 = n + 1) := by omega
    have h2 : (List.replicate n (Eval.zero : ℝ) ++ [Eval.one]).length ≤ i := by simp; omega
    simp [List.getD_eq_getElem?_getD, List.getElem?_eq_none h2]
    omega

/-- **Reverse sweep = forward tangent.**  On a well-formed stack whose forward values `fw`
satisfy the row equations and the differentiability conditions, `Eval.rev` succeeds and its
entry `j` is the forward-mode tangent of the last row of the linearised stack when the seed is
`1` on the rows loading column `j` (node type `wrt`) and `0` on all other terminals. -/
theorem rev_eq_tangent {D L : Nat} {s : Stack} {fw : List ℝ} {wrt : Int} {ncols : Nat}
    (H : SimHyp D L s fw wrt ncols) :
    ∃ d, Eval.rev s wrt ncols fw = some d ∧ d.length = ncols ∧
      ∀ j : Nat, d.getD j 0 =
        (ReverseMode.tangents (absRows (colSeed wrt j) (fun m => fw.getD m 0) s)).getD
          (s.length - 1) 0 := by
  have hpos := length_pos_of_wf H.wf
  obtain ⟨n, hn⟩ : ∃ n, s.length = n + 1 := ⟨s.length - 1, by omega⟩
  obtain ⟨radj', d', hsw, hr', hd', hadj', hcol'⟩ :=
    revSweep_sim H (n+1) (by omega) (List.replicate n (Eval.zero : ℝ) ++ [Eval.one])
      (List.replicate ncols Eval.zero) (by simp [hn]) (by simp)
  refine ⟨d', ?_, hd', ?_⟩
  · unfold Eval.rev
    split
    · omega
    · rename_i m hm
      have : m = n := by omega
      subst this
      simp [hsw]
  · intro j
    set rows := absRows (colSeed wrt j) (fun m => fw.getD m 0) s with hrows
    have hwfR : ReverseMode.WF rows := wf_absRows H.wf _ _
    have hT := ReverseMode.tangentSpec_tangents rows hwfR
    have hlen : rows.length = s.length := by simp [hrows]
    have hmain := ReverseMode.reverse_is_tangent rows _ hwfR hT (by omega)
    rw [ReverseMode.pot_zero_leaves rows _ hT] at hmain
    simp only [hlen] at hmain
    rw [← hmain, hcol' j]
    have h0 : (List.replicate ncols (Eval.zero : ℝ)).getD j 0 = 0 := by
      by_cases hj : j < ncols
      · simp [List.getD_eq_getElem?_getD, hj, Eval.zero]
      · simp [List.getD_eq_getElem?_getD, hj]
    rw [h0, zero_add, hn]
    apply Finset.sum_congr rfl
    intro i hi
    have hi' : i < s.length := by rw [hn]; exact mem_range.mp hi
    have hadjF : ∀ m, radj'.getD m 0 =
        ReverseMode.revSweep rows (n+1) (ReverseMode.seed (n+1)) m := by
      intro m
      have : radj'.getD m 0 = _ := congrFun (hadj' (colSeed wrt j)) m
      rw [this]
      congr 1
      funext i
      exact getD_radj0 n i
    rw [getElem?_absRows _ _ _ hi']
    simp only [colTerm, List.getElem?_eq_getElem hi', absRow]
    split_ifs with hc hop hop
    · exfalso; rw [hc.1, H.wrtT] at hop; cases hop
    · rw [hadjF]; simp [colSeed, hc]
    · rfl
    · simp [colSeed, hc]

end AD
end Bingo
