import Model.HallOfFame
import Proofs.Lemmas.Bisect
import Proofs.Lemmas.HallOfFame
/-!
# Sortedness / exactness invariants of `HallOfFame.update`
-/
namespace Bingo
namespace HOF

/-- keys (as integers) non-decreasing -/
def KSorted (h : List Item) : Prop := (h.map keyInt).Pairwise (· ≤ ·)

theorem StableSorted.kSorted {h : List Item} (hs : StableSorted h) : KSorted h := by
  unfold KSorted
  rw [List.pairwise_map]
  exact hs.imp (fun hab => hab.1)

theorem keys_sorted_of_kSorted {h : List Item} (hnn : NoNan h) (hs : KSorted h) :
    (h.map (·.key)).Pairwise (fun p q => Key.le p q = true) := by
  unfold KSorted at hs
  rw [List.pairwise_map] at hs ⊢
  refine List.Pairwise.imp_of_mem ?_ hs
  intro a b ha hb hab
  rw [key_eq_of_noNan (hnn a ha), key_eq_of_noNan (hnn b hb)]
  simpa [Key.le] using hab

theorem insert_eq_oins' {h : List Item} {it : Item} (hit : it.key.isNan = false) (hnn : NoNan h)
    (hs : KSorted h) : insert h it = oins keyInt it h :=
  insert_eq_oins hit hnn (keys_sorted_of_kSorted hnn hs)

theorem NoNan.sublist {h h' : List Item} (hnn : NoNan h) (hs : h'.Sublist h) : NoNan h' :=
  fun x hx => hnn x (hs.subset hx)

theorem KSorted.sublist {h h' : List Item} (hk : KSorted h) (hs : h'.Sublist h) : KSorted h' :=
  List.Pairwise.sublist (hs.map keyInt) hk

/-- the similarity test of `_not_similar` -/
def simOk (sim : Option (Item → Item → Bool)) (h : List Item) (it : Item) : Bool :=
  match sim with
  | none => true
  | some f => notSimilar f h it

theorem shouldAdd_eq (m sim h it) : shouldAdd m sim h it =
    (!it.key.isNan && (h.isEmpty ||
      ((Key.le it.key (h.getLast?.map (·.key)).join || decide (h.length < m)) && simOk sim h it))) := by
  unfold shouldAdd simOk
  cases it.key.isNan <;> cases h.isEmpty <;>
    cases (Key.le it.key (h.getLast?.map (·.key)).join || decide (h.length < m)) <;>
    cases sim <;> simp

/-- What one iteration of `update` does to a sorted NaN-free hall of fame. -/
theorem offer_cases {m sim h it} (hm : 1 ≤ m) (hnn : NoNan h) (hs : KSorted h) :
    ∃ h', offer m sim h it = some h' ∧
      ((h' = h ∧ (sim = none → it.key.isNan = true ∨
          (it.key.isNan = false ∧ m ≤ h.length ∧ ∃ A b, h = A ++ [b] ∧ keyInt b < keyInt it))) ∨
       (it.key.isNan = false ∧ h.length < m ∧ h' = oins keyInt it h) ∨
       (it.key.isNan = false ∧ m ≤ h.length ∧
          ∃ A b, h = A ++ [b] ∧ keyInt it ≤ keyInt b ∧ h' = oins keyInt it A)) := by
  cases hn : it.key.isNan with
  | true =>
    refine ⟨h, ?_, Or.inl ⟨rfl, fun _ => Or.inl rfl⟩⟩
    simp [offer, shouldAdd_eq, hn]
  | false =>
    by_cases hne : h = []
    · subst hne
      refine ⟨oins keyInt it [], ?_, Or.inr (Or.inl ⟨rfl, by simp; omega, rfl⟩)⟩
      have hm0 : m ≠ 0 := by omega
      simp [offer, shouldAdd_eq, hn, hm0, insert_eq_oins' hn hnn hs]
    · obtain ⟨A, b, hAb⟩ : ∃ A b, h = A ++ [b] :=
        ⟨h.dropLast, h.getLast hne, (List.dropLast_concat_getLast hne).symm⟩
      have hb : b.key = some (keyInt b) := key_eq_of_noNan (hnn b (by simp [hAb]))
      have hi : it.key = some (keyInt it) := key_eq_of_noNan hn
      have hempty : h.isEmpty = false := by simp [hne]
      have hlast : Key.le it.key (h.getLast?.map (·.key)).join = decide (keyInt it ≤ keyInt b) := by
        rw [hAb, List.getLast?_concat]
        simp only [Option.map_some, Option.join_some]
        rw [hb, hi]; rfl
      have hA : A = h.dropLast := by rw [hAb, List.dropLast_concat]
      have hnnA : NoNan A := hnn.sublist (by rw [hA]; exact List.dropLast_sublist _)
      have hsA : KSorted A := hs.sublist (by rw [hA]; exact List.dropLast_sublist _)
      have hsimNone : simOk sim h it = false → sim = none → False := by
        intro h1 h2; subst h2; simp [simOk] at h1
      by_cases hlen : h.length < m
      · -- room left: plain insert (if not similar)
        have hge : ¬ h.length ≥ m := by omega
        cases hsim : simOk sim h it with
        | true =>
          refine ⟨oins keyInt it h, ?_, Or.inr (Or.inl ⟨rfl, hlen, rfl⟩)⟩
          simp only [offer, shouldAdd_eq, hn, hempty, hlast, hlen, hsim, hge,
            insert_eq_oins' hn hnn hs, decide_true, Bool.or_true, Bool.and_true, Bool.not_false,
            if_true, if_false]
        | false =>
          refine ⟨h, ?_, Or.inl ⟨rfl, fun hnone => (hsimNone hsim hnone).elim⟩⟩
          simp only [offer, shouldAdd_eq, hn, hempty, hlast, hlen, hsim,
            decide_true, Bool.or_true, Bool.and_false, Bool.not_false,
            Bool.false_or, Bool.false_eq_true, if_false]
      · have hge : h.length ≥ m := by omega
        by_cases hle : keyInt it ≤ keyInt b
        · cases hsim : simOk sim h it with
          | true =>
            refine ⟨oins keyInt it A, ?_, Or.inr (Or.inr ⟨rfl, hge, A, b, hAb, hle, rfl⟩)⟩
            simp only [offer, shouldAdd_eq, hn, hempty, hlast, hle, hsim, hge,
              remove_neg_one hne, Option.map_some, ← hA, insert_eq_oins' hn hnnA hsA,
              decide_true, Bool.true_or, Bool.and_true, Bool.not_false,
              Bool.false_or, if_true]
          | false =>
            refine ⟨h, ?_, Or.inl ⟨rfl, fun hnone => (hsimNone hsim hnone).elim⟩⟩
            simp only [offer, shouldAdd_eq, hn, hempty, hlast, hle, hsim,
              decide_true, Bool.true_or, Bool.and_false, Bool.not_false,
              Bool.false_or, Bool.false_eq_true, if_false]
        · refine ⟨h, ?_, Or.inl ⟨rfl, fun _ => Or.inr ⟨rfl, hge, A, b, hAb, by omega⟩⟩⟩
          simp only [offer, shouldAdd_eq, hn, hempty, hlast, hle, hlen,
            decide_false, Bool.or_false, Bool.false_and, Bool.not_false, Bool.and_false,
            Bool.false_eq_true, if_false]

/-! ## sorted + stable -/

theorem stableSorted_oins {h : List Item} {it : Item} (hs : StableSorted h)
    (hid : ∀ a ∈ h, a.id < it.id) : StableSorted (oins keyInt it h) := by
  apply pairwise_oins keyInt it h hs
  · intro a _ hlt; exact ⟨by omega, fun heq => by omega⟩
  · intro a ha hge; exact ⟨by omega, fun _ => hid a ha⟩
  · intro a _ b _ hlt hab; have := hab.1; omega

theorem offer_inv {m sim h it h'} (hm : 1 ≤ m) (hnn : NoNan h) (hs : StableSorted h)
    (hid : ∀ a ∈ h, a.id < it.id) (ho : offer m sim h it = some h') :
    NoNan h' ∧ StableSorted h' := by
  refine ⟨fun x hx => ?_, ?_⟩
  · rcases offer_mem ho x hx with h1 | h1
    · exact hnn x h1
    · rw [h1.1]; exact h1.2
  · obtain ⟨h'', ho', hc⟩ := offer_cases (sim := sim) (it := it) hm hnn hs.kSorted
    rw [ho] at ho'; cases ho'
    rcases hc with ⟨rfl, _⟩ | ⟨_, _, rfl⟩ | ⟨_, _, A, b, hAb, _, rfl⟩
    · exact hs
    · exact stableSorted_oins hs hid
    · have hsub : A.Sublist h := by rw [hAb]; exact List.sublist_append_left _ _
      exact stableSorted_oins (List.Pairwise.sublist hsub hs) (fun a ha => hid a (hsub.subset ha))

theorem update_inv {m sim} (hm : 1 ≤ m) : ∀ (pop h h' : List Item), NoNan h → StableSorted h →
    (∀ a ∈ h, ∀ b ∈ pop, a.id < b.id) → pop.Pairwise (fun a b => a.id < b.id) →
    update m sim h pop = some h' → NoNan h' ∧ StableSorted h' := by
  intro pop
  induction pop with
  | nil => intro h h' hnn hs _ _ hu; simp only [update, Option.some.injEq] at hu; subst hu; exact ⟨hnn, hs⟩
  | cons it rest ih =>
    intro h h' hnn hs hid hp hu
    unfold update at hu
    cases ho : offer m sim h it with
    | none => simp [ho] at hu
    | some h1 =>
      simp only [ho] at hu
      have hpc := List.pairwise_cons.1 hp
      obtain ⟨hnn1, hs1⟩ := offer_inv hm hnn hs (fun a ha => hid a ha it (List.mem_cons_self)) ho
      refine ih h1 h' hnn1 hs1 ?_ hpc.2 hu
      intro a ha b hb
      rcases offer_mem ho a ha with h2 | h2
      · exact hid a h2 b (List.mem_cons_of_mem _ hb)
      · rw [h2.1]; exact hpc.1 b hb

/-! ## exactness (no similarity filter) -/

/-- the sorted history of non-NaN keys after one more offer -/
def histStep (S : List Int) (it : Item) : List Int :=
  match it.key with
  | none => S
  | some v => oins id v S

theorem histStep_sorted {S it} (hS : S.Pairwise (· ≤ ·)) : (histStep S it).Pairwise (· ≤ ·) := by
  unfold histStep; split
  · exact hS
  · exact sorted_oins _ _ hS

theorem offer_exact {m h it h'} {S : List Int} (hm : 1 ≤ m) (hnn : NoNan h)
    (hS : S.Pairwise (· ≤ ·)) (hK : h.map keyInt = S.take m)
    (ho : offer m none h it = some h') :
    h'.map keyInt = (histStep S it).take m := by
  have hks : KSorted h := by
    unfold KSorted; rw [hK]; exact hS.sublist (List.take_sublist _ _)
  obtain ⟨h'', ho', hc⟩ := offer_cases (sim := none) (it := it) hm hnn hks
  rw [ho] at ho'; cases ho'
  have hlen : h.length = (S.take m).length := by rw [← hK]; simp
  rcases hc with ⟨rfl, hrej⟩ | ⟨hn, hlt, rfl⟩ | ⟨hn, hge, A, b, hAb, hle, rfl⟩
  · rcases hrej rfl with hn | ⟨hn, hge, A, b, hAb, hlt⟩
    · have : it.key = none := by cases hk : it.key <;> simp_all [Key.isNan]
      simp [histStep, this, hK]
    · have hi := key_eq_of_noNan hn
      have hK' : S.take m = A.map keyInt ++ [keyInt b] := by rw [← hK, hAb]; simp
      simp only [histStep, hi]
      rw [hK]
      exact kstep_reject m S _ _ _ hS hK' (by omega) hlt
  · have hi := key_eq_of_noNan hn
    simp only [histStep, hi]
    rw [map_oins, hK]
    exact kstep_small m S _ (by omega)
  · have hi := key_eq_of_noNan hn
    have hK' : S.take m = A.map keyInt ++ [keyInt b] := by rw [← hK, hAb]; simp
    simp only [histStep, hi]
    rw [map_oins]
    exact kstep_replace m S _ _ _ hK' (by omega) hle

theorem update_exact {m} (hm : 1 ≤ m) : ∀ (pop h h' : List Item) (S : List Int), NoNan h →
    S.Pairwise (· ≤ ·) → h.map keyInt = S.take m → update m none h pop = some h' →
    h'.map keyInt = (pop.foldl histStep S).take m := by
  intro pop
  induction pop with
  | nil => intro h h' S _ _ hK hu; simp only [update, Option.some.injEq] at hu; subst hu; simpa using hK
  | cons it rest ih =>
    intro h h' S hnn hS hK hu
    unfold update at hu
    cases ho : offer m none h it with
    | none => simp [ho] at hu
    | some h1 =>
      simp only [ho] at hu
      have hnn1 : NoNan h1 := by
        intro x hx
        rcases offer_mem ho x hx with h2 | h2
        · exact hnn x h2
        · rw [h2.1]; exact h2.2
      exact ih h1 h' (histStep S it) hnn1 (histStep_sorted hS) (offer_exact hm hnn hS hK ho) hu

theorem foldl_histStep_sorted : ∀ (pop : List Item) (S : List Int), S.Pairwise (· ≤ ·) →
    (pop.foldl histStep S).Pairwise (· ≤ ·) := by
  intro pop
  induction pop with
  | nil => intro S hS; exact hS
  | cons it rest ih => intro S hS; exact ih _ (histStep_sorted hS)

theorem foldl_histStep_perm : ∀ (pop : List Item) (S : List Int),
    (pop.foldl histStep S).Perm (S ++ pop.filterMap (·.key)) := by
  intro pop
  induction pop with
  | nil => intro S; simp
  | cons it rest ih =>
    intro S
    simp only [List.foldl_cons]
    refine (ih _).trans ?_
    cases hk : it.key with
    | none => simp [histStep, hk]
    | some v =>
      simp only [histStep, hk, List.filterMap_cons]
      exact ((oins_perm id v S).append_right _).trans (List.perm_middle).symm

theorem foldl_histStep_eq_mergeSort (pop : List Item) :
    pop.foldl histStep [] = (pop.filterMap (·.key)).mergeSort (fun a b => decide (a ≤ b)) := by
  have hp1 := foldl_histStep_perm pop []
  have hs1 := foldl_histStep_sorted pop [] List.Pairwise.nil
  have hp2 := List.mergeSort_perm (pop.filterMap (·.key)) (fun a b => decide (a ≤ b))
  have hs2 := List.pairwise_mergeSort (le := fun (a b : Int) => decide (a ≤ b))
    (by intro a b c h1 h2; simp only [decide_eq_true_eq] at *; omega)
    (by intro a b; simp only [Bool.or_eq_true, decide_eq_true_eq]; omega)
    (pop.filterMap (·.key))
  simp only [List.nil_append] at hp1
  refine List.Perm.eq_of_pairwise (le := fun (a b : Int) => a ≤ b) ?_ hs1 ?_ (hp1.trans hp2.symm)
  · intro a b _ _ h1 h2; omega
  · exact hs2.imp (fun h => by simpa using h)

theorem map_key_of_noNan {h : List Item} (hnn : NoNan h) : h.map (·.key) = (h.map keyInt).map some := by
  rw [List.map_map]
  apply List.map_congr_left
  intro a ha
  exact key_eq_of_noNan (hnn a ha)

theorem kSorted_of_keys_sorted {h : List Item} (hnn : NoNan h)
    (hs : (h.map (·.key)).Pairwise (fun p q => Key.le p q = true)) : KSorted h := by
  unfold KSorted
  rw [List.pairwise_map] at hs ⊢
  refine List.Pairwise.imp_of_mem ?_ hs
  intro a b ha hb hab
  rw [key_eq_of_noNan (hnn a ha), key_eq_of_noNan (hnn b hb)] at hab
  simpa [Key.le] using hab

theorem kSorted_oins {h : List Item} {it : Item} (hs : KSorted h) : KSorted (oins keyInt it h) := by
  unfold KSorted at *
  rw [map_oins]
  exact sorted_oins _ _ hs

theorem Key.not_lt_of_le {a b : Key} (h : Key.le a b = true) : Key.lt b a = false := by
  cases a <;> cases b <;> simp_all [Key.le, Key.lt]

/-- `insert` puts the item after all keys `≤` its key (in particular after all equal keys) and
before all greater keys. -/
theorem insert_eq_filter {h : List Item} {it : Item} (hit : it.key.isNan = false) (hnn : NoNan h)
    (hs : (h.map (·.key)).Pairwise (fun p q => Key.le p q = true)) :
    insert h it = h.filter (fun a => Key.le a.key it.key) ++
      it :: h.filter (fun a => Key.lt it.key a.key) := by
  obtain ⟨_, h2, h3⟩ := bisectRight_split (h.map (·.key)) it.key hit hs
    (by intro k hk; obtain ⟨a, ha, rfl⟩ := List.mem_map.1 hk; exact hnn a ha)
  unfold insert insertAt
  generalize bisectRight (h.map (·.key)) it.key = r at *
  have h2' : ∀ a ∈ h.take r, Key.le a.key it.key = true := by
    intro a ha; apply h2; rw [← List.map_take]; exact List.mem_map_of_mem ha
  have h3' : ∀ a ∈ h.drop r, Key.lt it.key a.key = true := by
    intro a ha; apply h3; rw [← List.map_drop]; exact List.mem_map_of_mem ha
  have e1 : h.filter (fun a => Key.le a.key it.key) = h.take r := by
    conv => lhs; rw [← List.take_append_drop r h]
    rw [List.filter_append, List.filter_eq_self.2 h2',
      List.filter_eq_nil_iff.2 (fun a ha => by simp [Key.not_le_of_lt (h3' a ha)])]
    simp
  have e2 : h.filter (fun a => Key.lt it.key a.key) = h.drop r := by
    conv => lhs; rw [← List.take_append_drop r h]
    rw [List.filter_append, List.filter_eq_self.2 h3',
      List.filter_eq_nil_iff.2 (fun a ha => by simp [Key.not_lt_of_le (h2' a ha)])]
    simp
  rw [e1, e2]

end HOF
end Bingo
