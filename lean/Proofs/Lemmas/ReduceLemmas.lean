import Model.Reduce
import Model.WF
import Model.Eval
import Model.Renumber
import Proofs.Lemmas.RuleDeps
/-!
# Lemmas about `get_utilized_commands` / `reduce_stack` / constant renumbering

Everything is proved from `Rows s` (the row shape every `WF.wf D L ops s` stack has, whatever
`D L ops`), so the results apply to `WFGenome` and to `WFEval` alike.
-/
namespace Bingo
namespace ReduceLemmas
open Reduce

/-! ## what `WF.wf` says about one row -/

/-- the shape of row `i`: a terminal, or an operator whose two parameters are earlier rows -/
inductive RowKind (i : Nat) (cmd : Cmd) : Prop
  | term : Ops.isTerminal cmd.node = some true → Ops.isArity2 cmd.node = some false → RowKind i cmd
  | op (b : Bool) : Ops.isTerminal cmd.node = some false → Ops.isArity2 cmd.node = some b →
      0 ≤ cmd.p1 → cmd.p1 < i → 0 ≤ cmd.p2 → cmd.p2 < i → RowKind i cmd

/-- non-empty, and every row has a `RowKind` -/
structure Rows (s : Stack) : Prop where
  ne : s ≠ []
  kind : ∀ i cmd, s[i]? = some cmd → RowKind i cmd

theorem rowOK_kind {D : Nat} {L : Option Nat} {ops : Option (List Int)} {i : Nat} {cmd : Cmd}
    (h : WF.rowOK D L ops i cmd = true) : RowKind i cmd := by
  unfold WF.rowOK at h
  split at h
  · exact .term ‹_› ‹_›
  · simp only [Bool.and_eq_true, decide_eq_true_eq] at h
    exact .op _ ‹_› ‹_› h.1.1.1.1 h.1.1.1.2 h.1.1.2 h.1.2
  · cases h

theorem rowsOK_get {D : Nat} {L : Option Nat} {ops : Option (List Int)} :
    ∀ (l : List Cmd) (k i : Nat) (cmd : Cmd), WF.rowsOK D L ops k l = true → l[i]? = some cmd →
      WF.rowOK D L ops (k + i) cmd = true := by
  intro l
  induction l with
  | nil => intro k i cmd _ h; simp at h
  | cons hd tl ih =>
    intro k i cmd h hi
    simp only [WF.rowsOK, Bool.and_eq_true] at h
    cases i with
    | zero => simp at hi; subst hi; simpa using h.1
    | succ i =>
      simp at hi
      have := ih (k+1) i cmd h.2 hi
      have e : k + (i + 1) = k + 1 + i := by omega
      rw [e]; exact this

theorem rowsOK_of_get {D : Nat} {L : Option Nat} {ops : Option (List Int)} :
    ∀ (l : List Cmd) (k : Nat),
      (∀ i cmd, l[i]? = some cmd → WF.rowOK D L ops (k + i) cmd = true) →
      WF.rowsOK D L ops k l = true := by
  intro l
  induction l with
  | nil => intro k _; rfl
  | cons hd tl ih =>
    intro k h
    simp only [WF.rowsOK, Bool.and_eq_true]
    refine ⟨by simpa using h 0 hd (by simp), ih (k+1) ?_⟩
    intro i cmd hi
    have := h (i+1) cmd (by simpa using hi)
    have e : k + (i + 1) = k + 1 + i := by omega
    rw [← e]; exact this

theorem wf_ne {D : Nat} {L : Option Nat} {ops : Option (List Int)} {s : Stack}
    (h : WF.wf D L ops s = true) : s ≠ [] := by
  intro e; subst e; simp [WF.wf] at h

theorem wf_rowOK {D : Nat} {L : Option Nat} {ops : Option (List Int)} {s : Stack}
    (h : WF.wf D L ops s = true) {i : Nat} {cmd : Cmd} (hi : s[i]? = some cmd) :
    WF.rowOK D L ops i cmd = true := by
  simp only [WF.wf, Bool.and_eq_true] at h
  simpa using rowsOK_get s 0 i cmd h.2 hi

theorem wf_rows {D : Nat} {L : Option Nat} {ops : Option (List Int)} {s : Stack}
    (h : WF.wf D L ops s = true) : Rows s :=
  ⟨wf_ne h, fun _ _ hi => rowOK_kind (wf_rowOK h hi)⟩

theorem pyIdx_nonneg {n : Nat} {p : Int} {k : Nat} (h0 : 0 ≤ p) (hk : p < k) (hkn : k ≤ n) :
    pyIdx n p = some p.toNat := by
  apply pyIdx_of_lt h0; omega

theorem pyIdx_ofNat {n a : Nat} (h : a < n) : pyIdx n (Int.ofNat a) = some a := by
  have := pyIdx_of_lt (n := n) (p := Int.ofNat a) (by simp) (by simpa using h)
  simpa using this

/-! ## reachability from the last row -/

/-- the rows the last row depends on -/
inductive Reach (s : Stack) : Nat → Prop
  | last : s ≠ [] → Reach s (s.length - 1)
  | p1 {i a : Nat} {cmd : Cmd} : Reach s i → s[i]? = some cmd →
      Ops.isTerminal cmd.node = some false → pyIdx s.length cmd.p1 = some a → Reach s a
  | p2 {i b : Nat} {cmd : Cmd} : Reach s i → s[i]? = some cmd →
      Ops.isTerminal cmd.node = some false → Ops.isArity2 cmd.node = some true →
      pyIdx s.length cmd.p2 = some b → Reach s b

theorem Reach.lt {s : Stack} {i : Nat} (h : Reach s i) : i < s.length := by
  induction h with
  | last hne => have := List.length_pos_iff.mpr hne; omega
  | p1 _ _ _ h _ => exact pyIdx_lt h
  | p2 _ _ _ _ h _ => exact pyIdx_lt h

/-- closure of a mask under "an operator row uses its parameter rows" -/
def Closed (s : Stack) (k : Nat) (util : List Bool) : Prop :=
  ∀ i cmd, k < i → s[i]? = some cmd → util[i]? = some true →
    Ops.isTerminal cmd.node = some false →
    util[cmd.p1.toNat]? = some true ∧
      (Ops.isArity2 cmd.node = some true → util[cmd.p2.toNat]? = some true)

/-- loop invariant of `get_utilized_commands` before row `k` is expanded -/
structure UInv (s : Stack) (k : Nat) (util : List Bool) : Prop where
  len : util.length = s.length
  sound : ∀ i, util[i]? = some true → Reach s i
  last : util[s.length - 1]? = some true
  closed : Closed s k util

theorem utilStep_inv {s : Stack} (hrows : Rows s) {j : Nat} {util : List Bool}
    (h : UInv s j util) (hj : 0 < j) (hjN : j < s.length) :
    ∃ util', utilStep s util j = some util' ∧ UInv s (j - 1) util' := by
  obtain ⟨cmd, hcmd⟩ : ∃ cmd, s[j]? = some cmd := ⟨s[j], by simp [hjN]⟩
  obtain ⟨b, hb⟩ : ∃ b, util[j]? = some b := ⟨util[j]'(by rw [h.len]; exact hjN), by simp [h.len, hjN]⟩
  have hlen := h.len
  cases b with
  | false =>
    refine ⟨util, by simp [utilStep, hcmd, hb], h.len, h.sound, h.last, ?_⟩
    intro i c hi hc hu ht
    by_cases hij : i = j
    · subst hij; rw [hb] at hu; cases hu
    · exact h.closed i c (by omega) hc hu ht
  | true =>
    cases hrows.kind j cmd hcmd with
    | term ht h2 =>
      refine ⟨util, by simp [utilStep, hcmd, hb, ht], h.len, h.sound, h.last, ?_⟩
      intro i c hi hc hu ht'
      by_cases hij : i = j
      · subst hij; rw [hcmd] at hc; cases hc; rw [ht] at ht'; cases ht'
      · exact h.closed i c (by omega) hc hu ht'
    | op b2 ht h2 h10 h1j h20 h2j =>
      have hp1 : pyIdx util.length cmd.p1 = some cmd.p1.toNat := pyIdx_nonneg h10 h1j (by omega)
      have hp2 : pyIdx util.length cmd.p2 = some cmd.p2.toNat := pyIdx_nonneg h20 h2j (by omega)
      have hrj : Reach s j := h.sound j hb
      have hr1 : Reach s cmd.p1.toNat := Reach.p1 hrj hcmd ht (by rw [← hlen]; exact hp1)
      have ha : cmd.p1.toNat < j := by omega
      have hbb : cmd.p2.toNat < j := by omega
      cases b2 with
      | false =>
        refine ⟨util.set cmd.p1.toNat true, by simp [utilStep, hcmd, hb, ht, hp1, h2], ?_, ?_, ?_, ?_⟩
        · simpa using h.len
        · intro i hi
          by_cases hia : i = cmd.p1.toNat
          · subst hia; exact hr1
          · rw [List.getElem?_set_ne (by omega)] at hi; exact h.sound i hi
        · have := h.last
          by_cases hia : s.length - 1 = cmd.p1.toNat
          · omega
          · rw [List.getElem?_set_ne (by omega)]; exact this
        · intro i c hi hc hu ht'
          have hia : i ≠ cmd.p1.toNat := by omega
          rw [List.getElem?_set_ne (by omega)] at hu
          by_cases hij : i = j
          · subst hij; rw [hcmd] at hc; cases hc
            refine ⟨by simp [List.getElem?_set]; omega, ?_⟩
            intro h2'; rw [h2] at h2'; cases h2'
          · have := h.closed i c (by omega) hc hu ht'
            refine ⟨?_, fun h2' => ?_⟩
            · by_cases e : c.p1.toNat = cmd.p1.toNat
              · rw [e]; simp [List.getElem?_set]; omega
              · rw [List.getElem?_set_ne (by omega)]; exact this.1
            · by_cases e : c.p2.toNat = cmd.p1.toNat
              · rw [e]; simp [List.getElem?_set]; omega
              · rw [List.getElem?_set_ne (by omega)]; exact this.2 h2'
      | true =>
        have hr2 : Reach s cmd.p2.toNat := Reach.p2 hrj hcmd ht h2 (by rw [← hlen]; exact hp2)
        refine ⟨(util.set cmd.p1.toNat true).set cmd.p2.toNat true,
          by simp [utilStep, hcmd, hb, ht, hp1, hp2, h2], ?_, ?_, ?_, ?_⟩
        · simpa using h.len
        · intro i hi
          by_cases hib : i = cmd.p2.toNat
          · subst hib; exact hr2
          · rw [List.getElem?_set_ne (by omega)] at hi
            by_cases hia : i = cmd.p1.toNat
            · subst hia; exact hr1
            · rw [List.getElem?_set_ne (by omega)] at hi; exact h.sound i hi
        · have := h.last
          rw [List.getElem?_set_ne (by omega), List.getElem?_set_ne (by omega)]; exact this
        · have key : ∀ m, util[m]? = some true ∨ m = cmd.p1.toNat ∨ m = cmd.p2.toNat →
              ((util.set cmd.p1.toNat true).set cmd.p2.toNat true)[m]? = some true := by
            intro m hm
            simp only [List.getElem?_set, List.length_set]
            rcases hm with hm | hm | hm
            · split
              · have := (List.getElem?_eq_some_iff.mp hm).1; simp; omega
              · split
                · have := (List.getElem?_eq_some_iff.mp hm).1; simp; omega
                · exact hm
            · subst hm; split
              · simp; omega
              · simp; omega
            · subst hm; simp; omega
          intro i c hi hc hu ht'
          rw [List.getElem?_set_ne (by omega), List.getElem?_set_ne (by omega)] at hu
          by_cases hij : i = j
          · subst hij; rw [hcmd] at hc; cases hc
            exact ⟨key _ (Or.inr (Or.inl rfl)), fun _ => key _ (Or.inr (Or.inr rfl))⟩
          · have := h.closed i c (by omega) hc hu ht'
            exact ⟨key _ (Or.inl this.1), fun h2' => key _ (Or.inl (this.2 h2'))⟩

theorem utilLoop_inv {s : Stack} (hrows : Rows s) :
    ∀ (k : Nat) (util : List Bool), k < s.length → UInv s k util →
      ∃ u, utilLoop s k util = some u ∧ UInv s 0 u := by
  intro k
  induction k with
  | zero => intro util _ h; exact ⟨util, rfl, h⟩
  | succ k ih =>
    intro util hk h
    obtain ⟨util', hstep, hinv⟩ := utilStep_inv hrows h (by omega) hk
    obtain ⟨u, hu, hinv'⟩ := ih util' (by omega) (by simpa using hinv)
    exact ⟨u, by simp [utilLoop, hstep, hu], hinv'⟩

theorem utilized_inv {s : Stack} (hrows : Rows s) :
    ∃ u, utilized s = some u ∧ UInv s 0 u := by
  obtain ⟨n, hn⟩ : ∃ n, s.length = n + 1 :=
    ⟨s.length - 1, by have := List.length_pos_iff.mpr hrows.ne; omega⟩
  have h0 : UInv s n (List.replicate n false ++ [true]) := by
    refine ⟨by simp [hn], ?_, ?_, ?_⟩
    · intro i hi
      have hlt : i < n + 1 := by
        have := (List.getElem?_eq_some_iff.mp hi).1; simpa using this
      by_cases hin : i = n
      · subst hin
        have := Reach.last hrows.ne
        rw [hn] at this; simpa using this
      · rw [List.getElem?_append_left (by simp; omega)] at hi
        simp [List.getElem?_replicate] at hi
    · rw [hn]; simp
    · intro i cmd hi hc
      have := (List.getElem?_eq_some_iff.mp hc).1
      omega
  obtain ⟨u, hu, hinv⟩ := utilLoop_inv hrows n _ (by omega) h0
  refine ⟨u, ?_, hinv⟩
  unfold utilized
  rw [hn]; exact hu

/-- the final mask is closed at every row (row 0 is a terminal) -/
theorem UInv.closedAll {s : Stack} (hrows : Rows s) {u : List Bool} (h : UInv s 0 u) :
    ∀ (i : Nat) (cmd : Cmd), s[i]? = some cmd → u[i]? = some true →
      Ops.isTerminal cmd.node = some false →
      u[cmd.p1.toNat]? = some true ∧
        (Ops.isArity2 cmd.node = some true → u[cmd.p2.toNat]? = some true) := by
  intro i cmd hc hu ht
  cases hrows.kind i cmd hc with
  | term ht' _ => rw [ht] at ht'; cases ht'
  | op b _ _ h10 h1i _ _ => exact h.closed i cmd (by omega) hc hu ht

theorem UInv.complete {s : Stack} (hrows : Rows s) {u : List Bool} (h : UInv s 0 u) :
    ∀ i, Reach s i → u[i]? = some true := by
  intro i hr
  induction hr with
  | last _ => exact h.last
  | @p1 i a cmd _ hc ht hp ih =>
    cases hrows.kind i cmd hc with
    | term ht' _ => rw [ht] at ht'; cases ht'
    | op b _ _ h10 h1i _ _ =>
      have hi := (List.getElem?_eq_some_iff.mp hc).1
      rw [pyIdx_nonneg h10 h1i (by omega)] at hp
      cases hp
      exact (h.closedAll hrows i cmd hc ih ht).1
  | @p2 i b cmd _ hc ht h2 hp ih =>
    cases hrows.kind i cmd hc with
    | term ht' _ => rw [ht] at ht'; cases ht'
    | op b _ _ _ _ h20 h2i =>
      have hi := (List.getElem?_eq_some_iff.mp hc).1
      rw [pyIdx_nonneg h20 h2i (by omega)] at hp
      cases hp
      exact (h.closedAll hrows i cmd hc ih ht).2 h2

/-! ## `reduce_stack` -/

/-- number of utilized rows strictly before row `k` = the new index of old row `k` -/
def pos (u : List Bool) : Nat → Nat
  | 0 => 0
  | k+1 => pos u k + (if u[k]? = some true then 1 else 0)

theorem pos_succ_true {u : List Bool} {k : Nat} (h : u[k]? = some true) :
    pos u (k+1) = pos u k + 1 := by simp [pos, h]

theorem pos_succ_not {u : List Bool} {k : Nat} (h : u[k]? ≠ some true) :
    pos u (k+1) = pos u k := by simp [pos, h]

theorem pos_mono {u : List Bool} {k k' : Nat} (h : k ≤ k') : pos u k ≤ pos u k' := by
  induction k' with
  | zero => have : k = 0 := by omega
            subst this; exact Nat.le_refl _
  | succ n ih =>
    by_cases e : k = n + 1
    · subst e; exact Nat.le_refl _
    · have := ih (by omega)
      simp only [pos]; omega

theorem pos_lt {u : List Bool} {i k : Nat} (hi : u[i]? = some true) (hik : i < k) :
    pos u i < pos u k := by
  have h1 := pos_succ_true hi
  have h2 := pos_mono (u := u) (show i + 1 ≤ k by omega)
  omega

theorem pos_eq_filter (u : List Bool) (k : Nat) :
    pos u k = ((u.take k).filter id).length := by
  induction k with
  | zero => simp [pos]
  | succ k ih =>
    rw [List.take_add_one, List.filter_append, List.length_append, ← ih]
    simp only [pos]
    cases h : u[k]? with
    | none => simp
    | some b => cases b <;> simp

theorem pos_length (u : List Bool) : pos u u.length = (u.filter id).length := by
  rw [pos_eq_filter, List.take_length]

/-- every new index is the image of a utilized old row -/
theorem pos_surj {u : List Bool} : ∀ (N j : Nat), j < pos u N →
    ∃ i, i < N ∧ u[i]? = some true ∧ pos u i = j := by
  intro N
  induction N with
  | zero => intro j h; simp [pos] at h
  | succ N ih =>
    intro j h
    by_cases hj : j < pos u N
    · obtain ⟨i, hi, hu, hp⟩ := ih j hj
      exact ⟨i, by omega, hu, hp⟩
    · by_cases hu : u[N]? = some true
      · rw [pos_succ_true hu] at h
        exact ⟨N, by omega, hu, by omega⟩
      · rw [pos_succ_not hu] at h; omega

/-- the row `reduce_stack` writes for old row `cmd` -/
def newCmd (u : List Bool) (cmd : Cmd) : Cmd :=
  match Ops.isTerminal cmd.node with
  | some false =>
    ⟨cmd.node, Int.ofNat (pos u cmd.p1.toNat),
      Int.ofNat (pos u (if Ops.isArity2 cmd.node = some true then cmd.p2.toNat else cmd.p1.toNat))⟩
  | _ => cmd

theorem mapLookup_cons_self (m : List (Int × Nat)) (i v : Nat) :
    mapLookup ((Int.ofNat i, v) :: m) (Int.ofNat i) = some v := by
  simp [mapLookup, List.lookup]

theorem mapLookup_cons_ne (m : List (Int × Nat)) {i j : Nat} (v : Nat) (h : j ≠ i) :
    mapLookup ((Int.ofNat i, v) :: m) (Int.ofNat j) = mapLookup m (Int.ofNat j) := by
  have : ((j : Int) == (i : Int)) = false := by simp; omega
  simp [mapLookup, List.lookup, this]

/-- closure of the mask at every row -/
def ClosedAll (s : Stack) (u : List Bool) : Prop :=
  ∀ (i : Nat) (cmd : Cmd), s[i]? = some cmd → u[i]? = some true →
    Ops.isTerminal cmd.node = some false →
    u[cmd.p1.toNat]? = some true ∧
      (Ops.isArity2 cmd.node = some true → u[cmd.p2.toNat]? = some true)

theorem reduceLoop_spec {s : Stack} {u : List Bool} (hrows : Rows s) (hcl : ClosedAll s u) :
    ∀ (rest pre : List Cmd) (i : Nat) (m : List (Int × Nat)) (out : List Cmd),
      s = pre ++ rest → pre.length = i →
      (∀ j, j < i → u[j]? = some true → mapLookup m (Int.ofNat j) = some (pos u j)) →
      out.length = pos u i →
      ∃ r, reduceLoop u rest i m out = some r ∧ r.length = pos u s.length ∧
        (∀ j, j < out.length → r[j]? = out[j]?) ∧
        ∀ k cmd, rest[k]? = some cmd → u[i + k]? = some true →
          r[pos u (i + k)]? = some (newCmd u cmd) := by
  intro rest
  induction rest with
  | nil =>
    intro pre i m out hs hi hm ho
    refine ⟨out, rfl, ?_, fun _ _ => rfl, ?_⟩
    · rw [hs]; simp [hi, ho]
    · intro k cmd h; simp at h
  | cons cmd rest ih =>
    intro pre i m out hs hi hm ho
    have hs' : s = (pre ++ [cmd]) ++ rest := by simp [hs]
    have hi' : (pre ++ [cmd]).length = i + 1 := by simp [hi]
    have hcmd : s[i]? = some cmd := by
      rw [hs, ← hi]; simp
    -- the conclusion for the tail, once the head has been dealt with
    have tail : ∀ (m' : List (Int × Nat)) (out' : List Cmd) (r : List Cmd),
        (∀ j, j < out.length → out'[j]? = out[j]?) → out.length ≤ out'.length →
        (u[i]? = some true → out'[pos u i]? = some (newCmd u cmd)) →
        (reduceLoop u rest (i+1) m' out' = some r ∧ r.length = pos u s.length ∧
          (∀ j, j < out'.length → r[j]? = out'[j]?) ∧
          ∀ k c, rest[k]? = some c → u[i + 1 + k]? = some true →
            r[pos u (i + 1 + k)]? = some (newCmd u c)) →
        (r.length = pos u s.length ∧ (∀ j, j < out.length → r[j]? = out[j]?) ∧
          ∀ k c, (cmd :: rest)[k]? = some c → u[i + k]? = some true →
            r[pos u (i + k)]? = some (newCmd u c)) := by
      intro m' out' r hpre hle hhead ⟨_, hlen, hout, hrows'⟩
      refine ⟨hlen, fun j hj => by rw [hout j (by omega), hpre j hj], ?_⟩
      intro k c hk hu
      cases k with
      | zero =>
        simp at hk; subst hk
        have hu' : u[i]? = some true := by simpa using hu
        have h1 := hhead hu'
        have hlt : pos u i < out'.length := (List.getElem?_eq_some_iff.mp h1).1
        rw [Nat.add_zero, hout _ hlt]; exact h1
      | succ k =>
        have e : i + (k + 1) = i + 1 + k := by omega
        rw [e] at hu ⊢
        exact hrows' k c (by simpa using hk) hu
    by_cases hu : u[i]? = some true
    · -- a utilized row
      have hm' : ∀ v, v = pos u i → ∀ j, j < i + 1 → u[j]? = some true →
          mapLookup ((Int.ofNat i, v) :: m) (Int.ofNat j) = some (pos u j) := by
        intro v hv j hj huj
        by_cases e : j = i
        · subst e; rw [mapLookup_cons_self, hv]
        · rw [mapLookup_cons_ne _ _ e]; exact hm j (by omega) huj
      cases hrows.kind i cmd hcmd with
      | term ht h2 =>
        obtain ⟨r, hr⟩ := ih (pre ++ [cmd]) (i+1) ((Int.ofNat i, out.length) :: m) (out ++ [cmd])
          hs' hi' (hm' _ ho) (by simp [ho, pos_succ_true hu])
        refine ⟨r, by simp only [reduceLoop, hu, ht]; exact hr.1, ?_⟩
        refine tail _ _ r (fun j hj => List.getElem?_append_left hj) (by simp) ?_ hr
        intro _
        rw [← ho]; simp [newCmd, ht]
      | op b ht h2 h10 h1i h20 h2i =>
        have hcl' := hcl i cmd hcmd hu ht
        have hl1 : mapLookup m cmd.p1 = some (pos u cmd.p1.toNat) := by
          have := hm cmd.p1.toNat (by omega) hcl'.1
          rwa [show Int.ofNat cmd.p1.toNat = cmd.p1 from by simp; omega] at this
        cases b with
        | false =>
          obtain ⟨r, hr⟩ := ih (pre ++ [cmd]) (i+1) ((Int.ofNat i, out.length) :: m)
            (out ++ [⟨cmd.node, Int.ofNat (pos u cmd.p1.toNat), Int.ofNat (pos u cmd.p1.toNat)⟩])
            hs' hi' (hm' _ ho) (by simp [ho, pos_succ_true hu])
          refine ⟨r, by simp only [reduceLoop, hu, ht, hl1, h2]; exact hr.1, ?_⟩
          refine tail _ _ r (fun j hj => List.getElem?_append_left hj) (by simp) ?_ hr
          intro _
          rw [← ho]; simp [newCmd, ht, h2]
        | true =>
          have hl2 : mapLookup m cmd.p2 = some (pos u cmd.p2.toNat) := by
            have := hm cmd.p2.toNat (by omega) (hcl'.2 h2)
            rwa [show Int.ofNat cmd.p2.toNat = cmd.p2 from by simp; omega] at this
          obtain ⟨r, hr⟩ := ih (pre ++ [cmd]) (i+1) ((Int.ofNat i, out.length) :: m)
            (out ++ [⟨cmd.node, Int.ofNat (pos u cmd.p1.toNat), Int.ofNat (pos u cmd.p2.toNat)⟩])
            hs' hi' (hm' _ ho) (by simp [ho, pos_succ_true hu])
          refine ⟨r, by simp only [reduceLoop, hu, ht, hl1, hl2, h2]; exact hr.1, ?_⟩
          refine tail _ _ r (fun j hj => List.getElem?_append_left hj) (by simp) ?_ hr
          intro _
          rw [← ho]; simp [newCmd, ht, h2]
    · -- an unused row is skipped
      obtain ⟨r, hr⟩ := ih (pre ++ [cmd]) (i+1) m out hs' hi'
        (fun j hj huj => hm j (by
          by_cases e : j = i
          · subst e; exact absurd huj hu
          · omega) huj)
        (by rw [ho, pos_succ_not hu])
      have hstep : reduceLoop u (cmd :: rest) i m out = reduceLoop u rest (i+1) m out := by
        simp only [reduceLoop]
      exact ⟨r, by rw [hstep]; exact hr.1,
        tail m out r (fun _ _ => rfl) (Nat.le_refl _) (fun h => absurd h hu) hr⟩

/-- `r` is the reduction of `s` along the mask `u` -/
structure IsReduction (u : List Bool) (s r : Stack) : Prop where
  rows : Rows s
  ulen : u.length = s.length
  ulast : u[s.length - 1]? = some true
  closed : ClosedAll s u
  rlen : r.length = pos u s.length
  rrow : ∀ (i : Nat) (cmd : Cmd), s[i]? = some cmd → u[i]? = some true →
    r[pos u i]? = some (newCmd u cmd)

theorem reduce_isReduction {s : Stack} (hrows : Rows s) :
    ∃ u r, utilized s = some u ∧ reduce s = some r ∧ UInv s 0 u ∧ IsReduction u s r := by
  obtain ⟨u, hu, hinv⟩ := utilized_inv hrows
  have hcl : ClosedAll s u := hinv.closedAll hrows
  obtain ⟨r, hr, hlen, _, hrow⟩ := reduceLoop_spec hrows hcl s [] 0 [] [] rfl rfl
    (fun j hj => by omega) rfl
  refine ⟨u, r, hu, by simp [reduce, hu, hr], hinv, hrows, hinv.len, hinv.last, hcl, hlen, ?_⟩
  intro i cmd hc hui
  simpa using hrow i cmd hc (by simpa using hui)

end ReduceLemmas
end Bingo
