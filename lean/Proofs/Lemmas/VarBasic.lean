import Model.Variation
import Model.WF
import Proofs.Lemmas.ReduceLemmas
/-!
# Basic lemmas for the variation model (`Model/Variation.lean`)

* the draw monad `M`: when is a result `ok`, and the Hoare-style predicate `Post m P`
  ("every `ok` result of `m` satisfies `P`, and the returned draw list is a suffix of the given one");
* the draw primitives, `getRow` / `setRow`, `indicesWhere`, `findPos`;
* a propositional reading (`RowSpec`) of `WF.rowOK D none (some ops)` and list lemmas about `WF.rowsOK`.
-/
namespace Bingo
namespace VarLemmas
open Var Gen.OpDefs ReduceLemmas

/-! ## the monad -/

theorem bind_ok_iff {α β : Type} (m : M α) (f : α → M β) (ds : List Nat) (b : β) (rest : List Nat) :
    (m >>= f) ds = .ok (b, rest) ↔ ∃ a ds', m ds = .ok (a, ds') ∧ f a ds' = .ok (b, rest) := by
  show M.andThen m f ds = _ ↔ _
  unfold M.andThen
  split
  · next a ds' h =>
    constructor
    · intro hh; exact ⟨a, ds', h, hh⟩
    · rintro ⟨a', ds'', e, hh⟩; rw [h] at e; cases e; exact hh
  · next h => simp [h]
  · next h => simp [h]
  · next h => simp [h]

theorem pure_ok_iff {α : Type} (a b : α) (ds rest : List Nat) :
    (pure a : M α) ds = .ok (b, rest) ↔ a = b ∧ ds = rest := by
  show M.ret a ds = _ ↔ _
  simp [M.ret]

theorem raise_not_ok {α : Type} (k : PyErr) (ds : List Nat) (r : α × List Nat) :
    (M.raise k : M α) ds ≠ .ok r := by
  simp [M.raise]

theorem starve_not_ok {α : Type} (ds : List Nat) (r : α × List Nat) :
    (M.starve : M α) ds ≠ .ok r := by
  simp [M.starve]

theorem ofOption_ok_iff {α : Type} (k : PyErr) (o : Option α) (ds : List Nat) (a : α)
    (rest : List Nat) : M.ofOption k o ds = .ok (a, rest) ↔ o = some a ∧ ds = rest := by
  cases o with
  | none => simp [M.ofOption, M.raise]
  | some x => simp [M.ofOption, M.ret]

theorem remaining_ok_iff (ds : List Nat) (n : Nat) (rest : List Nat) :
    M.remaining ds = .ok (n, rest) ↔ n = ds.length ∧ ds = rest := by
  simp [M.remaining, eq_comm]

/-- "within the requested bounds": an `ok` draw is the head of the draw list and lies in `[lo, hi)` -/
theorem drawRange_ok_iff (lo hi : Nat) (ds : List Nat) (d : Nat) (rest : List Nat) :
    drawRange lo hi ds = .ok (d, rest) ↔ ds = d :: rest ∧ lo ≤ d ∧ d < hi := by
  unfold drawRange
  split
  · simp; intro _ _; omega
  · cases ds with
    | nil => simp
    | cons x xs =>
      simp only []
      split
      · simp; rintro rfl rfl; assumption
      · simp; rintro rfl rfl; simp_all

theorem drawBelow_ok_iff (h : Nat) (ds : List Nat) (d : Nat) (rest : List Nat) :
    drawBelow h ds = .ok (d, rest) ↔ ds = d :: rest ∧ d < h := by
  simp [drawBelow, drawRange_ok_iff]

theorem drawPmf_ok_iff (n : Nat) (ds : List Nat) (d : Nat) (rest : List Nat) :
    drawPmf n ds = .ok (d, rest) ↔ ds = d :: rest ∧ d < n := by
  unfold drawPmf
  cases ds with
  | nil => simp
  | cons x xs =>
    simp only []
    split
    · simp; rintro rfl rfl; assumption
    · split
      · simp; rintro rfl rfl; simp_all
      · simp; rintro rfl rfl; simp_all

/-! ## `Post` -/

/-- every `ok` result of `m` satisfies `P`, and the draws left over are a suffix of the draws given -/
def Post {α : Type} (m : M α) (P : α → Prop) : Prop :=
  ∀ ds a rest, m ds = .ok (a, rest) → P a ∧ rest <:+ ds

theorem Post.bind {α β : Type} {m : M α} {f : α → M β} {P : α → Prop} {Q : β → Prop}
    (hm : Post m P) (hf : ∀ a, P a → Post (f a) Q) : Post (m >>= f) Q := by
  intro ds b rest h
  obtain ⟨a, ds', h1, h2⟩ := (bind_ok_iff m f ds b rest).mp h
  obtain ⟨pa, s1⟩ := hm ds a ds' h1
  obtain ⟨qb, s2⟩ := hf a pa ds' b rest h2
  exact ⟨qb, s2.trans s1⟩

theorem Post.mono {α : Type} {m : M α} {P Q : α → Prop} (hm : Post m P) (h : ∀ a, P a → Q a) :
    Post m Q := fun ds a rest e => ⟨h a (hm ds a rest e).1, (hm ds a rest e).2⟩

theorem Post.and {α : Type} {m : M α} {P Q : α → Prop} (h1 : Post m P) (h2 : Post m Q) :
    Post m (fun a => P a ∧ Q a) := fun ds a rest e => ⟨⟨(h1 ds a rest e).1, (h2 ds a rest e).1⟩, (h1 ds a rest e).2⟩

theorem post_pure {α : Type} {a : α} {P : α → Prop} (h : P a) : Post (pure a : M α) P := by
  intro ds b rest e
  obtain ⟨rfl, rfl⟩ := (pure_ok_iff a b ds rest).mp e
  exact ⟨h, List.suffix_refl _⟩

theorem post_raise {α : Type} {k : PyErr} {P : α → Prop} : Post (M.raise k : M α) P :=
  fun ds a rest e => absurd e (raise_not_ok k ds (a, rest))

theorem post_starve {α : Type} {P : α → Prop} : Post (M.starve : M α) P :=
  fun ds a rest e => absurd e (starve_not_ok ds (a, rest))

theorem post_ofOption {α : Type} {k : PyErr} {o : Option α} {P : α → Prop}
    (h : ∀ a, o = some a → P a) : Post (M.ofOption k o) P := by
  intro ds a rest e
  obtain ⟨rfl, rfl⟩ := (ofOption_ok_iff k o ds a rest).mp e
  exact ⟨h a rfl, List.suffix_refl _⟩

theorem post_remaining : Post M.remaining (fun _ => True) := by
  intro ds a rest e
  obtain ⟨_, rfl⟩ := (remaining_ok_iff ds a rest).mp e
  exact ⟨trivial, List.suffix_refl _⟩

theorem post_drawRange (lo hi : Nat) : Post (drawRange lo hi) (fun d => lo ≤ d ∧ d < hi) := by
  intro ds d rest e
  obtain ⟨rfl, h⟩ := (drawRange_ok_iff lo hi ds d rest).mp e
  exact ⟨h, List.suffix_cons _ _⟩

theorem post_drawBelow (h : Nat) : Post (drawBelow h) (fun d => d < h) :=
  (post_drawRange 0 h).mono fun _ x => x.2

theorem post_drawPmf (n : Nat) : Post (drawPmf n) (fun d => d < n) := by
  intro ds d rest e
  obtain ⟨rfl, h⟩ := (drawPmf_ok_iff n ds d rest).mp e
  exact ⟨h, List.suffix_cons _ _⟩

theorem post_ite {α : Type} {c : Prop} [Decidable c] {m1 m2 : M α} {P : α → Prop}
    (h1 : c → Post m1 P) (h2 : ¬c → Post m2 P) : Post (if c then m1 else m2) P := by
  split
  · exact h1 ‹_›
  · exact h2 ‹_›

theorem post_isTerminalM (n : Int) : Post (isTerminalM n) (fun b => Ops.isTerminal n = some b) :=
  post_ofOption fun _ h => h

theorem post_isArity2M (n : Int) : Post (isArity2M n) (fun b => Ops.isArity2 n = some b) :=
  post_ofOption fun _ h => h

theorem post_getRow (s : Stack) (i : Nat) : Post (getRow s i) (fun c => s[i]? = some c) :=
  post_ofOption fun _ h => h

theorem post_setRow (s : Stack) (i : Nat) (c : Cmd) :
    Post (setRow s i c) (fun s' => i < s.length ∧ s' = s.set i c) := by
  unfold setRow
  apply post_ite
  · intro h; exact post_pure ⟨h, rfl⟩
  · intro _; exact post_raise

theorem post_utilizedM (s : Stack) : Post (utilizedM s) (fun u => Reduce.utilized s = some u) := by
  unfold utilizedM
  split
  · next u h => exact post_pure h
  · split
    · exact post_raise
    · exact post_raise

/-! ## `indicesWhere`, `findPos` -/

theorem mem_indicesWhere {α : Type} (p : Nat → α → Bool) :
    ∀ (l : List α) (k i : Nat), i ∈ indicesWhere p k l ↔
      ∃ j x, i = k + j ∧ l[j]? = some x ∧ p i x = true := by
  intro l
  induction l with
  | nil => intro k i; simp [indicesWhere]
  | cons hd tl ih =>
    intro k i
    have key : (∃ j x, i = k + j ∧ (hd :: tl)[j]? = some x ∧ p i x = true) ↔
        ((i = k ∧ p i hd = true) ∨ ∃ j x, i = k + 1 + j ∧ tl[j]? = some x ∧ p i x = true) := by
      constructor
      · rintro ⟨j, x, hj, hx, hp⟩
        cases j with
        | zero => simp at hx; subst hx; exact Or.inl ⟨by omega, hp⟩
        | succ j => simp at hx; exact Or.inr ⟨j, x, by omega, hx, hp⟩
      · rintro (⟨h1, h2⟩ | ⟨j, x, hj, hx, hp⟩)
        · exact ⟨0, hd, by omega, by simp, h2⟩
        · exact ⟨j + 1, x, by omega, by simpa using hx, hp⟩
    rw [key]
    unfold indicesWhere
    split
    · next hp =>
      rw [List.mem_cons, ih]
      constructor
      · rintro (h | h)
        · subst h; exact Or.inl ⟨rfl, hp⟩
        · exact Or.inr h
      · rintro (⟨h, _⟩ | h)
        · exact Or.inl h
        · exact Or.inr h
    · next hp =>
      rw [ih]
      constructor
      · intro h; exact Or.inr h
      · rintro (⟨h, h2⟩ | h)
        · subst h; exact absurd h2 hp
        · exact h

theorem mem_indicesWhere_zero {α : Type} (p : Nat → α → Bool) (l : List α) (i : Nat) :
    i ∈ indicesWhere p 0 l ↔ ∃ x, l[i]? = some x ∧ p i x = true := by
  rw [mem_indicesWhere]
  constructor
  · rintro ⟨j, x, hj, hx, hp⟩
    have : i = j := by omega
    subst this; exact ⟨x, hx, hp⟩
  · rintro ⟨x, hx, hp⟩; exact ⟨i, x, by omega, hx, hp⟩

theorem findPos_append_of_mem (x : Nat) : ∀ (l r : List Nat), x ∈ l →
    ∃ k, findPos x (l ++ r) = some k ∧ k < l.length := by
  intro l
  induction l with
  | nil => intro r h; simp at h
  | cons y ys ih =>
    intro r h
    by_cases e : y = x
    · exact ⟨0, by simp [findPos, e], by simp⟩
    · have hx : x ∈ ys := by
        rcases List.mem_cons.mp h with h | h
        · exact absurd h.symm e
        · exact h
      obtain ⟨k, hk, hlt⟩ := ih r hx
      exact ⟨k + 1, by simp [findPos, e, hk], by simp; omega⟩

/-! ## tables -/

theorem lookup_mem {α β : Type} [BEq α] [LawfulBEq α] (a : α) (b : β) :
    ∀ l : List (α × β), l.lookup a = some b → (a, b) ∈ l := by
  intro l
  induction l with
  | nil => simp
  | cons hd tl ih =>
    obtain ⟨x, y⟩ := hd
    simp only [List.lookup]
    split
    · next h => intro e; simp at e; subst e; have := eq_of_beq h; subst this; simp
    · intro e; exact List.mem_cons_of_mem _ (ih e)

/-- a node the terminal table calls an operator has an entry in the arity table -/
theorem arity_of_operator {n : Int} (h : Ops.isTerminal n = some false) :
    ∃ b, Ops.isArity2 n = some b := by
  have hm := lookup_mem n false isTerminalTbl h
  have hall : ∀ p ∈ isTerminalTbl, p.2 = false → (Ops.isArity2 p.1).isSome = true := by decide
  have := hall _ hm rfl
  exact Option.isSome_iff_exists.mp this

theorem terminal_cases {n : Int} (h : Ops.isTerminal n = some true) :
    n = INTEGER ∨ n = VARIABLE ∨ n = CONSTANT := by
  have hm := lookup_mem n true isTerminalTbl h
  have hall : ∀ p ∈ isTerminalTbl, p.2 = true → (p.1 = INTEGER ∨ p.1 = VARIABLE ∨ p.1 = CONSTANT) := by
    decide
  exact hall _ hm rfl

theorem variable_facts : Ops.isTerminal VARIABLE = some true ∧ Ops.isArity2 VARIABLE = some false := by
  decide
theorem constant_facts : Ops.isTerminal CONSTANT = some true ∧ Ops.isArity2 CONSTANT = some false := by
  decide
theorem integer_facts : Ops.isTerminal INTEGER = some true ∧ Ops.isArity2 INTEGER = some false := by
  decide

/-! ## configurations, rows -/

/-- the operators the user enabled are operators (not terminals) of the arity tables, and at least one
row is forced to be a terminal (`num_initial_load_statements ≥ 1`, checked by bingo's constructor) -/
def CfgOK (cfg : Config) : Prop := (∀ o ∈ cfg.ops, Ops.isTerminal o = some false) ∧ 1 ≤ cfg.nLoad

instance (cfg : Config) : Decidable (CfgOK cfg) := by unfold CfgOK; infer_instance

/-- `WF.rowOK` for genomes of configuration `cfg` -/
abbrev RowOK (cfg : Config) (i : Nat) (c : Cmd) : Prop := WF.rowOK cfg.D none (some cfg.ops) i c = true

/-- propositional reading of `RowOK` -/
inductive RowSpec (cfg : Config) (i : Nat) (c : Cmd) : Prop
  | var : c.node = VARIABLE → 0 ≤ c.p1 → c.p1 < cfg.D → RowSpec cfg i c
  | const : c.node = CONSTANT → RowSpec cfg i c
  | int : c.node = INTEGER → RowSpec cfg i c
  | op : Ops.isTerminal c.node = some false → c.node ∈ cfg.ops → 0 ≤ c.p1 → c.p1 < i → 0 ≤ c.p2 →
      c.p2 < i → RowSpec cfg i c

theorem rowOK_iff_spec {cfg : Config} {i : Nat} {c : Cmd} : RowOK cfg i c ↔ RowSpec cfg i c := by
  constructor
  · intro h
    unfold RowOK WF.rowOK at h
    split at h
    · next ht h2 =>
      split at h
      · next hv => simp at h; exact .var hv h.1 h.2
      · split at h
        · next hc => exact .const hc
        · simp at h; exact .int h
    · next ht h2 =>
      simp only [Bool.and_eq_true, decide_eq_true_eq] at h
      exact .op ht (by simpa using h.2) h.1.1.1.1 h.1.1.1.2 h.1.1.2 h.1.2
    · cases h
  · intro h
    unfold RowOK WF.rowOK
    cases h with
    | var hv h0 h1 =>
      simp [hv, variable_facts.1, variable_facts.2, h0, h1]
    | const hc =>
      have hne : CONSTANT ≠ VARIABLE := by decide
      simp [hc, constant_facts.1, constant_facts.2, hne]
    | int hc =>
      have hne : INTEGER ≠ VARIABLE := by decide
      have hne2 : INTEGER ≠ CONSTANT := by decide
      simp [hc, integer_facts.1, integer_facts.2, hne, hne2]
    | op ht hm h10 h1 h20 h2 =>
      obtain ⟨b, hb⟩ := arity_of_operator ht
      simp [ht, hb, h10, h1, h20, h2, hm]

theorem RowSpec.term_any {cfg : Config} {i j : Nat} {c : Cmd} (h : RowSpec cfg i c)
    (ht : Ops.isTerminal c.node = some true) : RowSpec cfg j c := by
  cases h with
  | var hv h0 h1 => exact .var hv h0 h1
  | const hc => exact .const hc
  | int hc => exact .int hc
  | op ht' _ _ _ _ _ => rw [ht] at ht'; cases ht'

/-- moving a row: a terminal row is fine everywhere, an operator row wherever its parameters are
earlier rows -/
theorem RowSpec.reindex {cfg : Config} {i j : Nat} {c : Cmd} (h : RowSpec cfg i c)
    (hop : Ops.isTerminal c.node = some false → c.p1 < j ∧ c.p2 < j) : RowSpec cfg j c := by
  cases h with
  | var hv h0 h1 => exact .var hv h0 h1
  | const hc => exact .const hc
  | int hc => exact .int hc
  | op ht hm h10 _ h20 _ => exact .op ht hm h10 (hop ht).1 h20 (hop ht).2

theorem RowSpec.is_terminal_or {cfg : Config} {i : Nat} {c : Cmd} (h : RowSpec cfg i c) :
    Ops.isTerminal c.node = some true ∨ Ops.isTerminal c.node = some false := by
  cases h with
  | var hv _ _ => rw [hv]; exact Or.inl variable_facts.1
  | const hc => rw [hc]; exact Or.inl constant_facts.1
  | int hc => rw [hc]; exact Or.inl integer_facts.1
  | op ht _ _ _ _ _ => exact Or.inr ht

/-! ## stacks -/

abbrev RowsOK (cfg : Config) (k : Nat) (l : List Cmd) : Prop :=
  WF.rowsOK cfg.D none (some cfg.ops) k l = true

theorem rowsOK_iff {cfg : Config} {k : Nat} {l : List Cmd} :
    RowsOK cfg k l ↔ ∀ i c, l[i]? = some c → RowOK cfg (k + i) c :=
  ⟨fun h i c hi => rowsOK_get l k i c h hi, fun h => rowsOK_of_get l k h⟩

theorem wfGenome_iff {cfg : Config} {s : Stack} :
    WF.WFGenome cfg.D cfg.ops s ↔ s ≠ [] ∧ ∀ i c, s[i]? = some c → RowOK cfg i c := by
  unfold WF.WFGenome WF.wf
  rw [Bool.and_eq_true]
  constructor
  · rintro ⟨h1, h2⟩
    refine ⟨by intro e; subst e; simp at h1, fun i c hi => ?_⟩
    simpa using rowsOK_get s 0 i c h2 hi
  · rintro ⟨h1, h2⟩
    refine ⟨by cases s <;> simp_all, rowsOK_of_get s 0 fun i c hi => ?_⟩
    simpa using h2 i c hi

theorem wfGenome_of_rowsOK {cfg : Config} {s : Stack} (hlen : 0 < s.length) (h : RowsOK cfg 0 s) :
    WF.WFGenome cfg.D cfg.ops s := by
  rw [wfGenome_iff]
  refine ⟨by intro e; subst e; simp at hlen, fun i c hi => ?_⟩
  simpa using rowsOK_iff.mp h i c hi

/-- replacing row `i` by a row that is fine at position `i` -/
theorem wfGenome_set {cfg : Config} {s : Stack} {i : Nat} {c : Cmd}
    (h : WF.WFGenome cfg.D cfg.ops s) (hc : RowOK cfg i c) :
    WF.WFGenome cfg.D cfg.ops (s.set i c) := by
  rw [wfGenome_iff] at h ⊢
  refine ⟨by intro e; apply h.1; simpa using e, fun j c' hj => ?_⟩
  rw [List.getElem?_set] at hj
  split at hj
  · next e =>
    subst e
    split at hj
    · cases hj; exact hc
    · cases hj
  · exact h.2 j c' hj

end VarLemmas
end Bingo
