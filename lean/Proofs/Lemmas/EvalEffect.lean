import Model.EvalEffect
/-!
# The evaluation phase for a fitness function that changes the individual (core Lean only)

Mirrors `EvalPhase.lean` / `EvalMultiprocess.lean` for `Model/EvalEffect.lean`:
`serialEvalE` as a map and its count as a filtered sum, `multiprocessEvalE = serialEvalE` for every
completion order, and the consistency invariant (`Consistent`) the phase establishes for an
idempotent fitness function.
-/
namespace Bingo
namespace EvalEffect

abbrev Fit := Nat → Nat → Nat × Key
abbrev JobE := Nat × EInd × Nat

/-- is the individual evaluated by a call of the evaluation phase? -/
def touchedE (redundant : Bool) (i : EInd) : Bool := redundant || !i.flag

theorem touchedE_iff (red : Bool) (i : EInd) :
    touchedE red i = true ↔ (red = true ∨ i.flag = false) := by
  simp [touchedE]

theorem flag_of_not_touchedE {red : Bool} {i : EInd} (h : ¬ touchedE red i = true) : i.flag = true := by
  cases hfl : i.flag with
  | true => rfl
  | false => simp [touchedE, hfl] at h

/-! ## the serial phase -/

theorem serialEvalE_cons (F : Fit) (cost : Nat → Nat → Nat) (red : Bool) (i : EInd) (l : List EInd) :
    serialEvalE F cost red (i :: l) =
      if touchedE red i then
        (evalOneE F i :: (serialEvalE F cost red l).1, (serialEvalE F cost red l).2 + cost i.genome i.state)
      else (i :: (serialEvalE F cost red l).1, (serialEvalE F cost red l).2) := by
  rfl

theorem serialEvalE_fst (F : Fit) (cost : Nat → Nat → Nat) (red : Bool) (l : List EInd) :
    (serialEvalE F cost red l).1 = l.map fun i => if touchedE red i then evalOneE F i else i := by
  induction l with
  | nil => rfl
  | cons i l ih =>
    rw [serialEvalE_cons]
    by_cases h : touchedE red i = true <;> simp [h, ih]

theorem serialEvalE_snd (F : Fit) (cost : Nat → Nat → Nat) (red : Bool) (l : List EInd) :
    (serialEvalE F cost red l).2 =
      ((l.filter fun i => touchedE red i).map (fun i => cost i.genome i.state)).sum := by
  induction l with
  | nil => rfl
  | cons i l ih =>
    rw [serialEvalE_cons]
    by_cases h : touchedE red i = true <;> simp [h, ih]
    omega

theorem serialEvalE_length (F : Fit) (cost : Nat → Nat → Nat) (red : Bool) (l : List EInd) :
    (serialEvalE F cost red l).1.length = l.length := by
  simp [serialEvalE_fst]

theorem serialEvalE_getElem? (F : Fit) (cost : Nat → Nat → Nat) (red : Bool) (l : List EInd) (k : Nat) :
    (serialEvalE F cost red l).1[k]? = l[k]?.map fun i => if touchedE red i then evalOneE F i else i := by
  simp [serialEvalE_fst]

theorem serialEvalE_getElem (F : Fit) (cost : Nat → Nat → Nat) (red : Bool) (l : List EInd) (k : Nat)
    (h : k < l.length) :
    ((serialEvalE F cost red l).1[k]'(by rw [serialEvalE_length]; exact h)) =
      if touchedE red l[k] then evalOneE F l[k] else l[k] := by
  simp [serialEvalE_fst]

/-- a member of the output is the image of a member of the input -/
theorem mem_serialEvalE {F : Fit} {cost : Nat → Nat → Nat} {red : Bool} {l : List EInd} {o : EInd}
    (h : o ∈ (serialEvalE F cost red l).1) :
    ∃ i ∈ l, o = if touchedE red i then evalOneE F i else i := by
  rw [serialEvalE_fst] at h
  obtain ⟨i, hi, rfl⟩ := List.mem_map.mp h
  exact ⟨i, hi, rfl⟩

/-! ## writing results back -/

theorem applyResultsE_snd (pop : List EInd) (c : Nat) (js : List JobE) :
    (applyResultsE pop c js).2 = c + (js.map (·.2.2)).sum := by
  induction js generalizing pop c with
  | nil => simp [applyResultsE]
  | cons j js ih =>
    obtain ⟨slot, indv, extra⟩ := j
    simp only [applyResultsE, ih, List.map_cons, List.sum_cons]
    omega

theorem applyResultsE_length (pop : List EInd) (c : Nat) (js : List JobE) :
    (applyResultsE pop c js).1.length = pop.length := by
  induction js generalizing pop c with
  | nil => simp [applyResultsE]
  | cons j js ih =>
    obtain ⟨slot, indv, extra⟩ := j
    simp only [applyResultsE, ih, List.length_set]

/-- a slot no job writes keeps its content -/
theorem applyResultsE_getElem?_of_not_mem (pop : List EInd) (c : Nat) (js : List JobE) (k : Nat)
    (hk : k ∉ js.map (·.1)) : (applyResultsE pop c js).1[k]? = pop[k]? := by
  induction js generalizing pop c with
  | nil => simp [applyResultsE]
  | cons j js ih =>
    obtain ⟨slot, indv, extra⟩ := j
    simp only [List.map_cons, List.mem_cons, not_or] at hk
    simp only [applyResultsE]
    rw [ih _ _ hk.2, List.getElem?_set]
    have : slot ≠ k := fun h => hk.1 h.symm
    simp [this]

/-- a slot written by a job of a list with distinct slots holds that job's individual -/
theorem applyResultsE_getElem?_of_mem (pop : List EInd) (c : Nat) (js : List JobE) (k : Nat)
    (indv : EInd) (e : Nat) (hnd : (js.map (·.1)).Nodup) (hmem : (k, indv, e) ∈ js)
    (hk : k < pop.length) : (applyResultsE pop c js).1[k]? = some indv := by
  induction js generalizing pop c with
  | nil => cases hmem
  | cons j js ih =>
    obtain ⟨slot, indv', extra⟩ := j
    simp only [List.map_cons, List.nodup_cons] at hnd
    simp only [applyResultsE]
    rcases List.mem_cons.mp hmem with h | h
    · simp only [Prod.mk.injEq] at h
      obtain ⟨rfl, rfl, rfl⟩ := h
      rw [applyResultsE_getElem?_of_not_mem _ _ _ _ hnd.1, List.getElem?_set]
      simp [hk]
    · exact ih _ _ hnd.2 h (by rw [List.length_set]; exact hk)

/-! ## the job list -/

theorem mem_jobsE {F : Fit} {cost : Nat → Nat → Nat} {red : Bool} {pop : List EInd} {j : JobE} :
    j ∈ jobsE F cost red pop ↔
      ∃ i, pop[j.1]? = some i ∧ touchedE red i = true ∧ j = (j.1, evalOneE F i, cost i.genome i.state) := by
  obtain ⟨slot, indv, extra⟩ := j
  simp only [jobsE, List.mem_map, List.mem_filter, List.mem_zipIdx_iff_getElem?, jobE]
  constructor
  · rintro ⟨⟨i, s⟩, ⟨hget, ht⟩, heq⟩
    simp only [Prod.mk.injEq] at heq
    obtain ⟨rfl, rfl, rfl⟩ := heq
    exact ⟨i, hget, ht, rfl⟩
  · rintro ⟨i, hget, ht, heq⟩
    simp only [Prod.mk.injEq] at heq
    obtain ⟨_, rfl, rfl⟩ := heq
    exact ⟨(i, slot), ⟨hget, ht⟩, rfl⟩

theorem jobsE_slots_nodup (F : Fit) (cost : Nat → Nat → Nat) (red : Bool) (pop : List EInd) :
    ((jobsE F cost red pop).map (·.1)).Nodup := by
  have h : (jobsE F cost red pop).map (·.1) =
      ((pop.zipIdx.filter fun p => red || !p.1.flag).map Prod.snd) := by
    simp [jobsE, jobE, List.map_map, Function.comp_def]
  rw [h]
  refine List.Sublist.nodup (List.Sublist.map _ List.filter_sublist) ?_
  rw [List.zipIdx_map_snd]
  exact List.nodup_range' 1

theorem filter_zipIdx_mapE {β : Type} (q : EInd → Bool) (g : EInd → β) (l : List EInd) (n : Nat) :
    ((l.zipIdx n).filter fun p => q p.1).map (fun p => g p.1) = (l.filter q).map g := by
  induction l generalizing n with
  | nil => rfl
  | cons i l ih =>
    rw [List.zipIdx_cons]
    by_cases h : q i = true <;> simp [h, ih]

theorem jobsE_extras_sum (F : Fit) (cost : Nat → Nat → Nat) (red : Bool) (pop : List EInd) :
    ((jobsE F cost red pop).map (·.2.2)).sum = (serialEvalE F cost red pop).2 := by
  have h : (jobsE F cost red pop).map (·.2.2) =
      ((pop.zipIdx.filter fun p => touchedE red p.1).map fun p => cost p.1.genome p.1.state) := by
    simp [jobsE, jobE, touchedE, List.map_map, Function.comp_def]
  rw [h, filter_zipIdx_mapE (touchedE red) (fun i => cost i.genome i.state) pop 0, serialEvalE_snd]

/-- writing back any list of results that has the members of the job list and distinct slots
yields the serially evaluated population -/
theorem applyResultsE_fst_eq_serial (F : Fit) (cost : Nat → Nat → Nat) (red : Bool)
    (pop : List EInd) (c : Nat) (js : List JobE)
    (hmem : ∀ j, j ∈ js ↔ j ∈ jobsE F cost red pop) (hnd : (js.map (·.1)).Nodup) :
    (applyResultsE pop c js).1 = (serialEvalE F cost red pop).1 := by
  apply List.ext_getElem?
  intro k
  rw [serialEvalE_getElem?]
  cases hget : pop[k]? with
  | none =>
    have hlen : pop.length ≤ k := List.getElem?_eq_none_iff.mp hget
    rw [Option.map_none]
    exact List.getElem?_eq_none_iff.mpr (by rw [applyResultsE_length]; exact hlen)
  | some i =>
    have hk : k < pop.length := (List.getElem?_eq_some_iff.mp hget).1
    rw [Option.map_some]
    by_cases ht : touchedE red i = true
    · simp only [ht, if_true]
      have : (k, evalOneE F i, cost i.genome i.state) ∈ js :=
        (hmem _).mpr (mem_jobsE.mpr ⟨i, hget, ht, rfl⟩)
      exact applyResultsE_getElem?_of_mem pop c js k _ _ hnd this hk
    · have hnot : k ∉ js.map (·.1) := by
        intro hin
        obtain ⟨j, hj, hjk⟩ := List.mem_map.mp hin
        obtain ⟨i', hget', ht', _⟩ := mem_jobsE.mp ((hmem j).mp hj)
        rw [hjk, hget] at hget'
        cases hget'
        exact ht ht'
      rw [applyResultsE_getElem?_of_not_mem _ _ _ _ hnot, hget]
      simp [ht]

theorem multiprocessEvalE_eq_serialEvalE (F : Fit) (cost : Nat → Nat → Nat) (red : Bool)
    (pop : List EInd) (order : List JobE → List JobE)
    (hperm : (order (jobsE F cost red pop)).Perm (jobsE F cost red pop)) :
    multiprocessEvalE F cost red pop order = serialEvalE F cost red pop := by
  unfold multiprocessEvalE
  apply Prod.ext
  · apply applyResultsE_fst_eq_serial
    · intro j; exact hperm.mem_iff
    · exact ((hperm.map (·.1)).nodup_iff).mpr (jobsE_slots_nodup F cost red pop)
  · rw [applyResultsE_snd, Nat.zero_add, (hperm.map (·.2.2)).sum_nat, jobsE_extras_sum]

/-! ## consistency -/

/-- the stored fitness is the fitness function's value for the individual the slot holds, and
evaluating it again would not change it -/
def Consistent (F : Fit) (i : EInd) : Prop :=
  i.flag = true → i.fit = some (F i.genome i.state).2 ∧ (F i.genome i.state).1 = i.state

instance (F : Fit) (i : EInd) : Decidable (Consistent F i) :=
  inferInstanceAs (Decidable (i.flag = true →
    i.fit = some (F i.genome i.state).2 ∧ (F i.genome i.state).1 = i.state))

/-- a second call on an already optimized individual changes nothing and returns the same value -/
def Idempotent (F : Fit) : Prop := ∀ g s, F g (F g s).1 = ((F g s).1, (F g s).2)

/-- flagged and consistent -/
def EvaluatedE (F : Fit) (i : EInd) : Prop :=
  i.flag = true ∧ i.fit = some (F i.genome i.state).2 ∧ (F i.genome i.state).1 = i.state

instance (F : Fit) (i : EInd) : Decidable (EvaluatedE F i) :=
  inferInstanceAs (Decidable (i.flag = true ∧
    i.fit = some (F i.genome i.state).2 ∧ (F i.genome i.state).1 = i.state))

theorem EvaluatedE.consistent {F : Fit} {i : EInd} (h : EvaluatedE F i) : Consistent F i := fun _ => h.2

theorem evaluatedE_iff {F : Fit} {i : EInd} : EvaluatedE F i ↔ i.flag = true ∧ Consistent F i :=
  ⟨fun h => ⟨h.1, h.consistent⟩, fun h => ⟨h.1, h.2 h.1⟩⟩

theorem consistent_of_unflagged {F : Fit} {i : EInd} (h : i.flag = false) : Consistent F i := by
  intro hf; rw [h] at hf; cases hf

/-- for an idempotent fitness function the evaluated individual is consistent -/
theorem evalOneE_evaluated {F : Fit} (hI : Idempotent F) (i : EInd) : EvaluatedE F (evalOneE F i) := by
  have h := hI i.genome i.state
  refine ⟨rfl, ?_, ?_⟩
  · show some (F i.genome i.state).2 = some (F i.genome (F i.genome i.state).1).2
    rw [h]
  · show (F i.genome (F i.genome i.state).1).1 = (F i.genome i.state).1
    rw [h]

/-- the wrapped fitness function: optimize (change the state), then evaluate the base fitness of
the changed individual -/
def wrap (opt : Nat → Nat → Nat) (base : Nat → Nat → Key) : Fit := fun g s => (opt g s, base g (opt g s))

/-- if the optimizer leaves an optimized individual alone, the wrapped function is idempotent -/
theorem wrap_idempotent (opt : Nat → Nat → Nat) (base : Nat → Nat → Key)
    (h : ∀ g s, opt g (opt g s) = opt g s) : Idempotent (wrap opt base) := by
  intro g s
  simp only [wrap, h]

/-- a flagged consistent individual of a wrapped function carries the base fitness of the
individual as it stands -/
theorem consistent_wrap_base {opt : Nat → Nat → Nat} {base : Nat → Nat → Key} {i : EInd}
    (h : Consistent (wrap opt base) i) (hf : i.flag = true) : i.fit = some (base i.genome i.state) := by
  obtain ⟨h1, h2⟩ := h hf
  simp only [wrap] at h1 h2
  rw [h1, h2]

/-- every member of the output is flagged; it is consistent if the input member was -/
theorem serialEvalE_all_evaluated {F : Fit} (hI : Idempotent F) (cost : Nat → Nat → Nat) (red : Bool)
    {l : List EInd} (hl : ∀ i ∈ l, Consistent F i) :
    ∀ o ∈ (serialEvalE F cost red l).1, EvaluatedE F o := by
  intro o ho
  obtain ⟨i, hi, rfl⟩ := mem_serialEvalE ho
  by_cases h : touchedE red i = true
  · simp only [h, if_true]; exact evalOneE_evaluated hI i
  · simp only [h]
    have hf := flag_of_not_touchedE h
    exact ⟨hf, hl i hi hf⟩

/-- when every member is touched, nothing is asked of the input -/
theorem serialEvalE_touched_evaluated {F : Fit} (hI : Idempotent F) (cost : Nat → Nat → Nat) (red : Bool)
    {l : List EInd} (hl : ∀ i ∈ l, touchedE red i = true) :
    ∀ o ∈ (serialEvalE F cost red l).1, EvaluatedE F o := by
  intro o ho
  obtain ⟨i, hi, rfl⟩ := mem_serialEvalE ho
  simp only [hl i hi, if_true]
  exact evalOneE_evaluated hI i

/-! ## the variant that returns only the fitness: what it leaves in a slot -/

theorem applyFitnessOnlyE_snd (pop : List EInd) (c : Nat) (js : List JobE) :
    (applyFitnessOnlyE pop c js).2 = c + (js.map (·.2.2)).sum := by
  induction js generalizing pop c with
  | nil => simp [applyFitnessOnlyE]
  | cons j js ih =>
    obtain ⟨slot, indv, extra⟩ := j
    simp only [applyFitnessOnlyE, ih, List.map_cons, List.sum_cons]
    omega

theorem applyFitnessOnlyE_length (pop : List EInd) (c : Nat) (js : List JobE) :
    (applyFitnessOnlyE pop c js).1.length = pop.length := by
  induction js generalizing pop c with
  | nil => simp [applyFitnessOnlyE]
  | cons j js ih =>
    obtain ⟨slot, indv, extra⟩ := j
    simp only [applyFitnessOnlyE, ih, List.length_modify]

/-- the state of every slot survives the lossy write-back: the effect of the fitness function on
the copy never reaches the population -/
theorem applyFitnessOnlyE_state (pop : List EInd) (c : Nat) (js : List JobE) (k : Nat) :
    ((applyFitnessOnlyE pop c js).1[k]?).map (·.state) = (pop[k]?).map (·.state) := by
  induction js generalizing pop c with
  | nil => simp [applyFitnessOnlyE]
  | cons j js ih =>
    obtain ⟨slot, indv, extra⟩ := j
    simp only [applyFitnessOnlyE]
    rw [ih, List.getElem?_modify]
    by_cases h : slot = k
    · subst h; cases pop[slot]? <;> simp [setFitnessE]
    · simp [h]

/-- a slot no job names keeps its content -/
theorem applyFitnessOnlyE_getElem?_of_not_mem (pop : List EInd) (c : Nat) (js : List JobE) (k : Nat)
    (hk : k ∉ js.map (·.1)) : (applyFitnessOnlyE pop c js).1[k]? = pop[k]? := by
  induction js generalizing pop c with
  | nil => simp [applyFitnessOnlyE]
  | cons j js ih =>
    obtain ⟨slot, indv, extra⟩ := j
    simp only [List.map_cons, List.mem_cons, not_or] at hk
    simp only [applyFitnessOnlyE]
    rw [ih _ _ hk.2, List.getElem?_modify]
    have : slot ≠ k := fun h => hk.1 h.symm
    simp [this]

/-- a slot named by a job of a list with distinct slots keeps its own object and gets that job's
fitness -/
theorem applyFitnessOnlyE_getElem?_of_mem (pop : List EInd) (c : Nat) (js : List JobE) (k : Nat)
    (i indv : EInd) (e : Nat) (hnd : (js.map (·.1)).Nodup) (hmem : (k, indv, e) ∈ js)
    (hk : pop[k]? = some i) :
    (applyFitnessOnlyE pop c js).1[k]? = some (setFitnessE i (indv.fit.getD none)) := by
  induction js generalizing pop c with
  | nil => cases hmem
  | cons j js ih =>
    obtain ⟨slot, indv', extra⟩ := j
    simp only [List.map_cons, List.nodup_cons] at hnd
    simp only [applyFitnessOnlyE]
    rcases List.mem_cons.mp hmem with h | h
    · simp only [Prod.mk.injEq] at h
      obtain ⟨rfl, rfl, rfl⟩ := h
      rw [applyFitnessOnlyE_getElem?_of_not_mem _ _ _ _ hnd.1, List.getElem?_modify]
      simp [hk]
    · have hne : slot ≠ k := by
        intro heq
        exact hnd.1 (List.mem_map.mpr ⟨_, h, heq.symm⟩)
      exact ih _ _ hnd.2 h (by rw [List.getElem?_modify]; simp [hne, hk])

/-- the lossy phase as a map, for every completion order -/
theorem multiprocessEvalLossyE_fst (F : Fit) (cost : Nat → Nat → Nat) (red : Bool)
    (pop : List EInd) (order : List JobE → List JobE)
    (hperm : (order (jobsE F cost red pop)).Perm (jobsE F cost red pop)) :
    (multiprocessEvalLossyE F cost red pop order).1 =
      pop.map fun i => if touchedE red i then setFitnessE i (F i.genome i.state).2 else i := by
  unfold multiprocessEvalLossyE
  have hmem : ∀ j, j ∈ order (jobsE F cost red pop) ↔ j ∈ jobsE F cost red pop := fun j => hperm.mem_iff
  have hnd : ((order (jobsE F cost red pop)).map (·.1)).Nodup :=
    ((hperm.map (·.1)).nodup_iff).mpr (jobsE_slots_nodup F cost red pop)
  generalize order (jobsE F cost red pop) = js at hmem hnd
  apply List.ext_getElem?
  intro k
  rw [List.getElem?_map]
  cases hget : pop[k]? with
  | none =>
    have hlen : pop.length ≤ k := List.getElem?_eq_none_iff.mp hget
    rw [Option.map_none]
    exact List.getElem?_eq_none_iff.mpr (by rw [applyFitnessOnlyE_length]; exact hlen)
  | some i =>
    rw [Option.map_some]
    by_cases ht : touchedE red i = true
    · simp only [ht, if_true]
      have : (k, evalOneE F i, cost i.genome i.state) ∈ js :=
        (hmem _).mpr (mem_jobsE.mpr ⟨i, hget, ht, rfl⟩)
      exact applyFitnessOnlyE_getElem?_of_mem pop 0 js k i _ _ hnd this hget
    · have hnot : k ∉ js.map (·.1) := by
        intro hin
        obtain ⟨j, hj, hjk⟩ := List.mem_map.mp hin
        obtain ⟨i', hget', ht', _⟩ := mem_jobsE.mp ((hmem j).mp hj)
        rw [hjk, hget] at hget'
        cases hget'
        exact ht ht'
      rw [applyFitnessOnlyE_getElem?_of_not_mem _ _ _ _ hnot, hget]
      simp [ht]

theorem multiprocessEvalLossyE_snd (F : Fit) (cost : Nat → Nat → Nat) (red : Bool)
    (pop : List EInd) (order : List JobE → List JobE)
    (hperm : (order (jobsE F cost red pop)).Perm (jobsE F cost red pop)) :
    (multiprocessEvalLossyE F cost red pop order).2 = (serialEvalE F cost red pop).2 := by
  unfold multiprocessEvalLossyE
  rw [applyFitnessOnlyE_snd, Nat.zero_add, (hperm.map (·.2.2)).sum_nat, jobsE_extras_sum]

/-- the object the lossy phase leaves in a touched slot is consistent exactly when the fitness
function did not change the individual -/
theorem consistent_setFitnessE_iff (F : Fit) (i : EInd) :
    Consistent F (setFitnessE i (F i.genome i.state).2) ↔ (F i.genome i.state).1 = i.state := by
  constructor
  · intro h; exact (h rfl).2
  · intro h _; exact ⟨rfl, h⟩

/-- a fitness function that changes nothing: the lossy write-back is the write-back -/
theorem setFitnessE_eq_evalOneE {F : Fit} {i : EInd} (h : (F i.genome i.state).1 = i.state) :
    setFitnessE i (F i.genome i.state).2 = evalOneE F i := by
  cases i
  simp only [setFitnessE, evalOneE] at h ⊢
  rw [h]

/-! ## data for the non-vacuity examples and the counterexample -/
namespace Ex

/-- the optimizer: state 0 = "constants need optimization"; it stores `genome + 1` and leaves an
already optimized individual alone -/
def opt : Nat → Nat → Nat := fun g s => if s = 0 then g + 1 else s
/-- base fitness of the individual as it stands -/
def base : Nat → Nat → Key := fun g s => some (Int.ofNat (g + 2 * s))
def F : Fit := wrap opt base
/-- an optimization costs three base invocations, a plain evaluation one -/
def cost : Nat → Nat → Nat := fun _ s => if s = 0 then 3 else 1

theorem opt_opt (g s : Nat) : opt g (opt g s) = opt g s := by
  unfold opt
  by_cases h : s = 0 <;> simp [h]

theorem F_idempotent : Idempotent F := wrap_idempotent opt base opt_opt

/-- slot 0 unflagged with a stale value and an optimization request, slot 1 flagged and consistent,
slot 2 never evaluated, slot 3 unflagged with constants already set -/
def pop : List EInd :=
  [⟨3, 0, some (some 99), false, 4⟩, ⟨5, 6, some (some 17), true, 2⟩, ⟨7, 0, none, false, 0⟩,
    ⟨4, 9, none, false, 1⟩]

/-- a fitness function whose second call changes the individual again -/
def G : Fit := fun _ s => (s + 1, some (Int.ofNat s))

end Ex

end EvalEffect
end Bingo
