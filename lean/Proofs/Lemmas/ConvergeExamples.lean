import Proofs.Lemmas.ConvergeLoops
/-!
# C14: the two concrete configurations used by the non-vacuity examples
-/
namespace Bingo
namespace Converge

/-- stops by threshold after 2 rounds with `freq = 3` (first call on a fresh optimizer) -/
def cfgA : Cfg :=
  { maxGen := 100, minGen := 0, freq := 3, thr := some 10, stag := none,
    maxEvals := none, maxTime := none }
def obsA (k : Nat) : Obs :=
  { best := some (if k < 2 then 50 else 5), evals := 10 * k, elapsed := k, est := none, gens := 3 }

theorem obsA_gens : ∀ k, 1 ≤ (obsA k).gens := fun _ => (by decide : 1 ≤ 3)

/-- reaches `maxGen = 10` with `freq = 4` (so `freq ∤ maxGen`), under a time limit, with a
shortened round, resumed at age 7 with a carried best -/
def cfgB : Cfg :=
  { maxGen := 10, minGen := 4, freq := 4, thr := some 0, stag := some 100,
    maxEvals := some 1000, maxTime := some 100000 }
def obsB (k : Nat) : Obs :=
  { best := some (100 - k), evals := 10 * k, elapsed := 1000 * k,
    est := if k = 2 then some 5000 else some 50000, gens := if k = 2 then 1 else 4 }

theorem obsB_gens : ∀ k, 1 ≤ (obsB k).gens := by
  intro k; unfold obsB; simp only []; split <;> decide

end Converge
end Bingo
