import Model.ParArch
import Proofs.Lemmas.ParArch
import Proofs.Lemmas.ParArchLive
import Proofs.Lemmas.ParArchLiveFair
import Proofs.Lemmas.ParArchLiveWitness
/-!
# C12 -- liveness, part 7: the livelock, formally

Two ranks.  After the helper's first `_send_updated_age` and rank 0's first slice, the schedule

    rank 0: iprobe(AGE_UPDATE) -> finds the helper's message
    helper: iprobe(EXIT) -> nothing;  evolve one slice;  _send_updated_age
    rank 0: recv

repeats forever: when rank 0 probes again the next age update is already waiting.  Both ranks perform
protocol operations in every period, so the execution is fair; rank 0 never leaves its first
`_gather_updated_ages`.
-/
set_option linter.unusedSimpArgs false
set_option linter.unusedVariables false
namespace Bingo
namespace C12
open ParArch

/-- the state at the start of a period: rank 0 about to probe, one age update of the helper waiting -/
def lockState (a1 : Nat) (t1 : Option Nat) (x : Nat) : State :=
  { R := 2, sync := 1, target := 1, pc0 := .draining none, pcH := [.done, .checking], mbox := [(1, x)],
    exitQ := [0, 0], arrived := [false, false], ages := [1, a1], table := [some 1, t1] }

/-- one period of the schedule -/
def lockCycle : List Action :=
  [.iprobe 0 none tagAge (some 1), .iprobe 1 (some 0) tagExit none, .evolve 1 1, .isend 1 0 tagAge, .recv 0 1 tagAge]

/-- the two actions leading from the start of the call to the first period -/
def lockPrefix : List Action := [.isend 1 0 tagAge, .evolve 0 1]

theorem lock_prefix : run (initial 2 1 1 [0, 0]) lockPrefix = some (lockState 0 none 0) := rfl

theorem lock_period (a1 : Nat) (t1 : Option Nat) (x : Nat) :
    run (lockState a1 t1 x) lockCycle = some (lockState (a1 + 1) (some x) (a1 + 1)) := rfl

/-- `total_age[1]` at the start of period `k` -/
def lockTab : Nat → Option Nat
  | 0 => none
  | k + 1 => some k

/-- start of period `k` -/
def lockS (k : Nat) : State := lockState k (lockTab k) k

theorem lockS_period (k : Nat) : run (lockS k) lockCycle = some (lockS (k + 1)) := lock_period k (lockTab k) k

/-- the livelock execution (from the first period on) -/
def lockSt (n : Nat) : State := stOf (lockS (n / 5)) lockCycle (n % 5)
def lockAct (n : Nat) : Option Action := lockCycle[n % 5]?

theorem lock_isExec : IsExec lockSt lockAct := by
  intro n
  have hlt : n % 5 < lockCycle.length := by show n % 5 < 5; omega
  refine Or.inl ⟨lockCycle[n % 5], by simp [lockAct, hlt], ?_⟩
  have hstep := stOf_step (lockS_period (n / 5)) hlt
  by_cases h : n % 5 + 1 < 5
  · have e1 : (n + 1) / 5 = n / 5 := by omega
    have e2 : (n + 1) % 5 = n % 5 + 1 := by omega
    show step (stOf (lockS (n / 5)) lockCycle (n % 5)) _ = some (stOf (lockS ((n + 1) / 5)) lockCycle ((n + 1) % 5))
    rw [e1, e2]; exact hstep
  · have e1 : (n + 1) / 5 = n / 5 + 1 := by omega
    have e2 : (n + 1) % 5 = 0 := by omega
    have e3 : n % 5 + 1 = 5 := by omega
    show step (stOf (lockS (n / 5)) lockCycle (n % 5)) _ = some (stOf (lockS ((n + 1) / 5)) lockCycle ((n + 1) % 5))
    rw [e1, e2]
    have e4 : stOf (lockS (n / 5)) lockCycle 5 = lockS (n / 5 + 1) :=
      stOf_ge (lockS_period (n / 5)) (Nat.le_refl _)
    rw [e3, e4] at hstep
    exact hstep

/-- rank 0 is draining in every state of the execution -/
theorem lock_draining (n : Nat) : isDraining (lockSt n).pc0 = true := by
  have h5 : n % 5 < 5 := by omega
  have key : ∀ (a1 : Nat) (t1 : Option Nat) (x j : Nat), j < 5 →
      isDraining (stOf (lockState a1 t1 x) lockCycle j).pc0 = true := by
    intro a1 t1 x j hj
    match j, hj with
    | 0, _ => rfl
    | 1, _ => rfl
    | 2, _ => rfl
    | 3, _ => rfl
    | 4, _ => rfl
  exact key _ _ _ _ h5

theorem lock_not_final (n : Nat) : isFinal (lockSt n) = false := by
  have := lock_draining n
  unfold isFinal
  cases h : (lockSt n).pc0 <;> rw [h] at this <;> simp [isDraining] at this ⊢

/-- both ranks perform a protocol operation in every period -/
theorem lock_acts (r : Nat) (hr : r < 2) (n : Nat) :
    ∃ m, n ≤ m ∧ ∃ a, lockAct m = some a ∧ a.rank = r ∧ isTick a = false := by
  match r, hr with
  | 0, _ =>
    refine ⟨5 * (n / 5 + 1), by omega, .iprobe 0 none tagAge (some 1), ?_, rfl, rfl⟩
    have : (5 * (n / 5 + 1)) % 5 = 0 := by omega
    simp only [lockAct, this]; rfl
  | 1, _ =>
    refine ⟨5 * (n / 5 + 1) + 1, by omega, .iprobe 1 (some 0) tagExit none, ?_, rfl, rfl⟩
    have : (5 * (n / 5 + 1) + 1) % 5 = 1 := by omega
    simp only [lockAct, this]; rfl

theorem lock_slices : ∀ n a, lockAct n = some a → slicePos a = true := by
  intro n a ha
  have hall : lockCycle.all slicePos = true := by decide
  rw [List.all_eq_true] at hall
  exact hall a (List.mem_of_getElem? ha)

/-! ## the same execution from the start of the call -/

/-- prepend a state / an action to an execution -/
def consSt (s0 : State) (st : Nat → State) : Nat → State
  | 0 => s0
  | n + 1 => st n

def consAct (a : Action) (act : Nat → Option Action) : Nat → Option Action
  | 0 => some a
  | n + 1 => act n

theorem isExec_cons {s0 : State} {a : Action} {st : Nat → State} {act : Nat → Option Action}
    (h : step s0 a = some (st 0)) (he : IsExec st act) : IsExec (consSt s0 st) (consAct a act) := by
  intro n
  cases n with
  | zero => exact Or.inl ⟨a, rfl, h⟩
  | succ n => exact he n

/-- state after the helper's first `_send_updated_age` -/
def lockMid : State := stOf (initial 2 1 1 [0, 0]) lockPrefix 1

/-- the livelock as an execution of one call of `_non_blocking_execution` on two ranks -/
def lockFullSt : Nat → State := consSt (initial 2 1 1 [0, 0]) (consSt lockMid lockSt)
def lockFullAct : Nat → Option Action := consAct (.isend 1 0 tagAge) (consAct (.evolve 0 1) lockAct)

theorem lockFull_isExec : IsExec lockFullSt lockFullAct := by
  have h0 : step (initial 2 1 1 [0, 0]) (.isend 1 0 tagAge) = some lockMid :=
    stOf_step lock_prefix (n := 0) (by decide)
  have h1 : step lockMid (.evolve 0 1) = some (lockSt 0) := by
    have := stOf_step lock_prefix (n := 1) (by decide)
    rw [stOf_ge lock_prefix (n := 2) (Nat.le_refl _)] at this
    exact this
  exact isExec_cons h0 (isExec_cons h1 lock_isExec)

theorem lockFull_not_final : ∀ n, isFinal (lockFullSt n) = false
  | 0 => by decide
  | 1 => by decide
  | n + 2 => lock_not_final n

theorem lockFull_slices : ∀ n a, lockFullAct n = some a → slicePos a = true
  | 0, a, h => by
    have : a = .isend 1 0 tagAge := by
      have h' : some (Action.isend 1 0 tagAge) = some a := h
      injection h' with h'; exact h'.symm
    subst this; rfl
  | 1, a, h => by
    have : a = .evolve 0 1 := by
      have h' : some (Action.evolve 0 1) = some a := h
      injection h' with h'; exact h'.symm
    subst this; rfl
  | n + 2, a, h => by
    have hall : lockCycle.all slicePos = true := by decide
    rw [List.all_eq_true] at hall
    exact hall a (List.mem_of_getElem? (h : lockAct n = some a))

theorem lockFull_fair : Fair lockFullSt lockFullAct := by
  intro r n hen
  have hreach : Reachable (lockFullSt 0) (lockFullSt n) := by
    have := run_reachable (run_seg lockFull_isExec 0 n)
    rw [Nat.zero_add] at this
    exact this
  have hR : (lockFullSt n).R = 2 := (reachable_frame hreach).1
  have hr : r < 2 := by
    have := enabled_lt (by rw [hR]; omega) hen
    omega
  obtain ⟨m, hm, a, ha, hra, hta⟩ := lock_acts r hr n
  exact ⟨m + 2, by omega, a, ha, hra, hta⟩

end C12
end Bingo
