import Model.ParArch
import Proofs.Lemmas.ParArch
import Proofs.Lemmas.ParArchLive
import Proofs.Lemmas.ParArchLiveFair
import Proofs.Lemmas.ParArchLiveWitness
/-!
# C12 -- liveness, part 7: the livelock, formally

Two ranks.  After the collecting receive of rank 0 (served by the helper's first `_send_updated_age`),
one loop iteration of the helper and rank 0's first slice, the schedule

    rank 0: iprobe(AGE_UPDATE) -> finds the helper's message
    helper: iprobe(EXIT) -> nothing;  evolve one slice;  _send_updated_age
    rank 0: recv

repeats forever: when rank 0 probes again the next age update is already waiting.  Both ranks perform
protocol operations in every period, so the execution is fair; rank 0 never leaves its first
`_gather_updated_ages`.
-/
set_option linter.unusedSimpArgs false
set_option linter.unusedVariables false
namespace Bingo
namespace C12
open ParArch

/-- the state at the start of a period: rank 0 about to probe, one age update of the helper waiting;
`target_total_age = 0 + 0 + 1 * 2` -/
def lockState (a1 : Nat) (t1 : Option Nat) (x : Nat) : State :=
  { R := 2, sync := 1, numSteps := 1, goal := 2, pc0 := .draining none, pcH := [.done, .checking], mbox := [(1, x)],
    exitQ := [0, 0], arrived := [false, false], ages := [1, a1], table := [some 1, t1], ages0 := [0, 0] }

/-- one period of the schedule -/
def lockCycle : List Action :=
  [.iprobe 0 none tagAge (some 1), .iprobe 1 (some 0) tagExit none, .evolve 1 1, .isend 1 0 tagAge, .recv 0 1 tagAge]

/-- the six actions leading from the start of the call to the first period: the helper's first age
update, rank 0's collecting receive, one loop iteration of the helper, rank 0's first slice -/
def lockPrefix : List Action :=
  [.isend 1 0 tagAge, .recv 0 1 tagAge, .iprobe 1 (some 0) tagExit none, .evolve 1 1, .isend 1 0 tagAge, .evolve 0 1]

theorem lock_prefix : run (initial 2 1 1 [0, 0]) lockPrefix = some (lockState 1 (some 0) 1) := rfl

theorem lock_period (a1 : Nat) (t1 : Option Nat) (x : Nat) :
    run (lockState a1 t1 x) lockCycle = some (lockState (a1 + 1) (some x) (a1 + 1)) := rfl

/-- start of period `k` -/
def lockS (k : Nat) : State := lockState (k + 1) (some k) (k + 1)

theorem lockS_period (k : Nat) : run (lockS k) lockCycle = some (lockS (k + 1)) := lock_period (k + 1) (some k) (k + 1)

/-- the livelock execution (from the first period on) -/
def lockSt (n : Nat) : State := stOf (lockS (n / 5)) lockCycle (n % 5)
def lockAct (n : Nat) : Option Action := lockCycle[n % 5]?

theorem lock_isExec : IsExec lockSt lockAct := by
  intro n
  have hlt : n % 5 < lockCycle.length := by show n % 5 < 5; omega
  refine Or.inl ⟨lockCycle[n % 5], by simp [lockAct, hlt], ?_⟩
  have hstep := stOf_step (lockS_period (n / 5)) hlt
  by_cases h : n % 5 + 1 < 5
  · have e1 : (n + 1) / 5 = n / 5 := by omega
    have e2 : (n + 1) % 5 = n % 5 + 1 := by omega
    show step (stOf (lockS (n / 5)) lockCycle (n % 5)) _ = some (stOf (lockS ((n + 1) / 5)) lockCycle ((n + 1) % 5))
    rw [e1, e2]; exact hstep
  · have e1 : (n + 1) / 5 = n / 5 + 1 := by omega
    have e2 : (n + 1) % 5 = 0 := by omega
    have e3 : n % 5 + 1 = 5 := by omega
    show step (stOf (lockS (n / 5)) lockCycle (n % 5)) _ = some (stOf (lockS ((n + 1) / 5)) lockCycle ((n + 1) % 5))
    rw [e1, e2]
    have e4 : stOf (lockS (n / 5)) lockCycle 5 = lockS (n / 5 + 1) :=
      stOf_ge (lockS_period (n / 5)) (Nat.le_refl _)
    rw [e3, e4] at hstep
    exact hstep

/-- rank 0 is draining in every state of the execution -/
theorem lock_draining (n : Nat) : isDraining (lockSt n).pc0 = true := by
  have h5 : n % 5 < 5 := by omega
  have key : ∀ (a1 : Nat) (t1 : Option Nat) (x j : Nat), j < 5 →
      isDraining (stOf (lockState a1 t1 x) lockCycle j).pc0 = true := by
    intro a1 t1 x j hj
    match j, hj with
    | 0, _ => rfl
    | 1, _ => rfl
    | 2, _ => rfl
    | 3, _ => rfl
    | 4, _ => rfl
  exact key _ _ _ _ h5

theorem lock_not_final (n : Nat) : isFinal (lockSt n) = false := by
  have := lock_draining n
  unfold isFinal
  cases h : (lockSt n).pc0 <;> rw [h] at this <;> simp [isDraining] at this ⊢

/-- both ranks perform a protocol operation in every period -/
theorem lock_acts (r : Nat) (hr : r < 2) (n : Nat) :
    ∃ m, n ≤ m ∧ ∃ a, lockAct m = some a ∧ a.rank = r ∧ isTick a = false := by
  match r, hr with
  | 0, _ =>
    refine ⟨5 * (n / 5 + 1), by omega, .iprobe 0 none tagAge (some 1), ?_, rfl, rfl⟩
    have : (5 * (n / 5 + 1)) % 5 = 0 := by omega
    simp only [lockAct, this]; rfl
  | 1, _ =>
    refine ⟨5 * (n / 5 + 1) + 1, by omega, .iprobe 1 (some 0) tagExit none, ?_, rfl, rfl⟩
    have : (5 * (n / 5 + 1) + 1) % 5 = 1 := by omega
    simp only [lockAct, this]; rfl

theorem lock_slices : ∀ n a, lockAct n = some a → slicePos a = true := by
  intro n a ha
  have hall : lockCycle.all slicePos = true := by decide
  rw [List.all_eq_true] at hall
  exact hall a (List.mem_of_getElem? ha)

/-! ## the same execution from the start of the call -/

/-- prepend a finite run to an execution -/
def preSt (s0 : State) (pre : List Action) (st : Nat → State) (n : Nat) : State :=
  if n < pre.length then stOf s0 pre n else st (n - pre.length)

def preAct (pre : List Action) (act : Nat → Option Action) (n : Nat) : Option Action :=
  if n < pre.length then pre[n]? else act (n - pre.length)

theorem preSt_ge (s0 : State) (pre : List Action) (st : Nat → State) (n : Nat) :
    preSt s0 pre st (n + pre.length) = st n := by
  have : ¬ n + pre.length < pre.length := by omega
  simp only [preSt, this, if_false, Nat.add_sub_cancel]

theorem preAct_ge (pre : List Action) (act : Nat → Option Action) (n : Nat) :
    preAct pre act (n + pre.length) = act n := by
  have : ¬ n + pre.length < pre.length := by omega
  simp only [preAct, this, if_false, Nat.add_sub_cancel]

theorem isExec_pre {s0 : State} {pre : List Action} {st : Nat → State} {act : Nat → Option Action}
    (h : run s0 pre = some (st 0)) (he : IsExec st act) : IsExec (preSt s0 pre st) (preAct pre act) := by
  intro n
  by_cases hn : n < pre.length
  · refine Or.inl ⟨pre[n], by simp [preAct, hn], ?_⟩
    have hstep := stOf_step h hn
    have e1 : preSt s0 pre st n = stOf s0 pre n := by simp only [preSt, hn, if_true]
    rw [e1]
    by_cases hn1 : n + 1 < pre.length
    · have e2 : preSt s0 pre st (n + 1) = stOf s0 pre (n + 1) := by simp only [preSt, hn1, if_true]
      rw [e2]; exact hstep
    · have e2 : preSt s0 pre st (n + 1) = st 0 := by
        have : n + 1 = 0 + pre.length := by omega
        rw [this]; exact preSt_ge s0 pre st 0
      rw [e2]
      have e3 : stOf s0 pre (n + 1) = st 0 := stOf_ge h (by omega)
      rw [e3] at hstep
      exact hstep
  · obtain ⟨j, rfl⟩ : ∃ j, n = j + pre.length := ⟨n - pre.length, by omega⟩
    have e2 : j + pre.length + 1 = (j + 1) + pre.length := by omega
    rw [e2, preSt_ge, preSt_ge, preAct_ge]
    exact he j

/-- the livelock as an execution of one call of `_non_blocking_execution` on two ranks -/
def lockFullSt : Nat → State := preSt (initial 2 1 1 [0, 0]) lockPrefix lockSt
def lockFullAct : Nat → Option Action := preAct lockPrefix lockAct

theorem lockFull_start : lockFullSt 0 = initial 2 1 1 [0, 0] := rfl

theorem lockFull_ge (n : Nat) : lockFullSt (n + 6) = lockSt n ∧ lockFullAct (n + 6) = lockAct n :=
  ⟨preSt_ge (initial 2 1 1 [0, 0]) lockPrefix lockSt n, preAct_ge lockPrefix lockAct n⟩

theorem lockFull_isExec : IsExec lockFullSt lockFullAct :=
  isExec_pre (st := lockSt) lock_prefix lock_isExec

theorem lockFull_not_final (n : Nat) : isFinal (lockFullSt n) = false := by
  by_cases hn : n < 6
  · have : n = 0 ∨ n = 1 ∨ n = 2 ∨ n = 3 ∨ n = 4 ∨ n = 5 := by omega
    rcases this with h | h | h | h | h | h <;> subst h <;> decide
  · obtain ⟨j, rfl⟩ : ∃ j, n = j + 6 := ⟨n - 6, by omega⟩
    rw [(lockFull_ge j).1]; exact lock_not_final j

theorem lockFull_slices (n : Nat) (a : Action) (h : lockFullAct n = some a) : slicePos a = true := by
  by_cases hn : n < 6
  · have h' : lockPrefix[n]? = some a := by
      have hn' : n < lockPrefix.length := hn
      simpa [lockFullAct, preAct, hn'] using h
    have hall : lockPrefix.all slicePos = true := by decide
    rw [List.all_eq_true] at hall
    exact hall a (List.mem_of_getElem? h')
  · obtain ⟨j, rfl⟩ : ∃ j, n = j + 6 := ⟨n - 6, by omega⟩
    rw [(lockFull_ge j).2] at h
    exact lock_slices j a h

theorem lockFull_fair : Fair lockFullSt lockFullAct := by
  intro r n hen
  have hreach : Reachable (lockFullSt 0) (lockFullSt n) := by
    have := run_reachable (run_seg lockFull_isExec 0 n)
    rw [Nat.zero_add] at this
    exact this
  have hR : (lockFullSt n).R = 2 := (reachable_frame hreach).1
  have hr : r < 2 := by
    have := enabled_lt (by rw [hR]; omega) hen
    omega
  obtain ⟨m, hm, a, ha, hra, hta⟩ := lock_acts r hr n
  exact ⟨m + 6, by omega, a, by rw [(lockFull_ge m).2]; exact ha, hra, hta⟩

end C12
end Bingo
