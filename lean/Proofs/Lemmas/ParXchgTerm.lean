import Proofs.Lemmas.ParXchgSafe
/-!
# C11 (parallel clause) -- termination of the exchange

Every step advances one rank's program counter, so the potential `Σ_r weight (pc r)` (2 before the send
half, 1 before the receive half, 0 afterwards) drops by exactly one per step: a run from a state with
`R` ranks has at most `2 * R` steps.  No invariant is needed for this.
-/
namespace Bingo
namespace ParXchg
open ParArch

def weight : XPc → Nat
  | .toSend => 2
  | .toRecv => 1
  | .done => 0

/-- number of steps still to be made -/
def potential (s : XState) : Nat := (s.pcs.map weight).sum

theorem sum_set (l : List XPc) (r : Nat) (x : XPc) (h : r < l.length) :
    ((l.set r x).map weight).sum + weight (l.getD r .done) = (l.map weight).sum + weight x := by
  induction l generalizing r with
  | nil => simp at h
  | cons y ys ih =>
    cases r with
    | zero => simp [List.getD]; omega
    | succ k =>
      have := ih k (by simpa using h)
      simp only [List.getD, List.set_cons_succ, List.map_cons, List.sum_cons, List.getElem?_cons_succ] at this ⊢
      omega

theorem lt_of_pcOf_ne {s : XState} {r : Nat} (h : pcOf s r ≠ .done) : r < s.pcs.length := by
  apply Classical.byContradiction
  intro hn
  apply h
  simp only [pcOf, List.getD]
  rw [List.getElem?_eq_none (by omega)]; rfl

theorem potential_step {s s' : XState} {r : Nat} (h : xstep s r = some s') :
    potential s' + 1 = potential s := by
  rcases xstep_cases h with ⟨p, _, hpc, rfl⟩ | ⟨p, m, rest, _, hpc, _, rfl⟩
  · have hr : r < s.pcs.length := lt_of_pcOf_ne (by rw [hpc]; simp)
    have := sum_set s.pcs r .toRecv hr
    unfold pcOf at hpc
    rw [hpc] at this
    simp only [potential, afterSend, weight] at this ⊢
    omega
  · have hr : r < s.pcs.length := lt_of_pcOf_ne (by rw [hpc]; simp)
    have := sum_set s.pcs r .done hr
    unfold pcOf at hpc
    rw [hpc] at this
    simp only [potential, afterRecv, weight] at this ⊢
    omega

theorem potential_le (s : XState) : potential s ≤ 2 * s.pcs.length := by
  unfold potential
  induction s.pcs with
  | nil => simp
  | cons y ys ih =>
    have : weight y ≤ 2 := by cases y <;> simp [weight]
    simp only [List.map_cons, List.sum_cons, List.length_cons]; omega

theorem potential_run {s0 s : XState} {n : Nat} (h : XRun s0 n s) : n + potential s = potential s0 := by
  induction h with
  | refl => simp
  | step r _ hs ih => have := potential_step hs; omega

theorem sum_zero_done (l : List XPc) (h : (l.map weight).sum = 0) : ∀ x ∈ l, x = .done := by
  induction l with
  | nil => simp
  | cons y ys ih =>
    simp only [List.map_cons, List.sum_cons] at h
    intro x hx
    rcases List.mem_cons.mp hx with rfl | hx
    · cases x <;> simp_all [weight]
    · exact ih (by omega) x hx

theorem potential_final {s : XState} (h : potential s = 0) : xFinal s = true := by
  simp only [xFinal, List.all_eq_true, beq_iff_eq]
  exact sum_zero_done s.pcs h

theorem sum_of_done (l : List XPc) (h : ∀ x ∈ l, x = .done) : (l.map weight).sum = 0 := by
  induction l with
  | nil => rfl
  | cons y ys ih =>
    have hy := h y (List.mem_cons_self ..)
    have := ih (fun x hx => h x (List.mem_cons_of_mem _ hx))
    simp only [List.map_cons, List.sum_cons, this, hy, weight]

theorem potential_of_final {s : XState} (h : xFinal s = true) : potential s = 0 := by
  simp only [xFinal, List.all_eq_true, beq_iff_eq] at h
  exact sum_of_done s.pcs h

/-- from every reachable state the exchange can be completed -/
theorem final_reachable {P : Nat → Option Nat} {pops0 : List (List Nat)} {R : Nat} (hm : Matching P R)
    {s0 : XState} (inv0 : XInv P pops0 R s0) :
    ∀ (k : Nat) (s : XState), potential s = k → XReachable s0 s → ∃ s', XReachable s0 s' ∧ xFinal s' = true := by
  intro k
  induction k with
  | zero => intro s hk hr; exact ⟨s, hr, potential_final hk⟩
  | succ k ih =>
    intro s hk hr
    cases hf : xFinal s with
    | true => exact ⟨s, hr, hf⟩
    | false =>
      obtain ⟨r, _, hs⟩ := inv_progress hm (inv_reachable hm inv0 hr) hf
      cases hx : xstep s r with
      | none => simp [hx] at hs
      | some s1 =>
        have := potential_step hx
        exact ih s1 (by omega) (.step r hr hx)

end ParXchg
end Bingo
