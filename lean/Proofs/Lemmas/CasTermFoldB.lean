import Proofs.Lemmas.CasTermFoldA
/-!
# A folding pass never makes the expression bigger, and makes it smaller when it acts on a node

`size` = number of nodes.  Inserted expressions are terminals (size 1), so replacing or deleting operands
cannot increase the size; replacing an operand of size `≥ 2` (or deleting any operand) decreases it.
-/
namespace Bingo
namespace Cas
namespace Term
open Gen.OpDefs Expr Auto

theorem sizeL_foldRel {R : Expr → Expr → Prop} {D : Expr → Prop} {as bs : List Expr}
    (h : FoldRel R D as bs) (hR : ∀ a ∈ as, ∀ b, R a b → size b ≤ size a) :
    sizeL bs ≤ sizeL as := by
  induction h with
  | nil => exact Nat.le_refl _
  | @keep a b as bs hr _ ih =>
    have := ih (fun a ha => hR a (List.mem_cons_of_mem _ ha))
    have := hR a List.mem_cons_self b hr
    simp only [sizeL]; omega
  | @drop a as bs _ _ ih =>
    have := ih (fun a ha => hR a (List.mem_cons_of_mem _ ha))
    simp only [sizeL]; omega

theorem sizeL_foldRel_lt {R : Expr → Expr → Prop} {D : Expr → Prop} {as bs : List Expr}
    (h : FoldRel R D as bs) (hR : ∀ a ∈ as, ∀ b, R a b → size b ≤ size a)
    (hs : ∃ a ∈ as, ∀ b, R a b → size b < size a) : sizeL bs < sizeL as := by
  induction h with
  | nil => obtain ⟨a, ha, _⟩ := hs; cases ha
  | @keep a b as bs hr hrest ih =>
    have hle := sizeL_foldRel hrest (fun a ha => hR a (List.mem_cons_of_mem _ ha))
    have hab := hR a List.mem_cons_self b hr
    obtain ⟨a', ha', hs'⟩ := hs
    simp only [sizeL]
    rcases List.mem_cons.1 ha' with rfl | ha'
    · have := hs' b hr; omega
    · have := ih (fun a ha => hR a (List.mem_cons_of_mem _ ha)) ⟨a', ha', hs'⟩
      omega
  | @drop a as bs _ hrest ih =>
    have hle := sizeL_foldRel hrest (fun a ha => hR a (List.mem_cons_of_mem _ ha))
    have := size_pos a
    simp only [sizeL]; omega

theorem size_goodConst {c : Expr} (h : GoodConst TT c) : size c = 1 := by
  obtain ⟨j, np, rfl, _⟩ := h
  rfl

section pass
variable {repl : Replacements}

/-- a pass never increases the size -/
theorem pCF_size_le (hn : NoNoneKey repl) (hr : RInv ReplBoth repl) :
    ∀ e e', performConstantFolding repl e = .ok e' → size e' ≤ size e := by
  intro e
  induction e using Expr.ind' with
  | ht o v n => intro e' he; rw [pCF_term hn] at he; cases he; exact Nat.le_refl _
  | hn o args ih =>
    intro e' he
    obtain ⟨bs, hbs, rfl⟩ := pCF_node hn he
    have hrel := foldOperands_rel repl _ args bs hbs
    have := sizeL_foldRel hrel (fun a ha b hab => by
      rcases hab with ⟨kv, hkv, _, hv⟩ | ⟨_, hp⟩
      · obtain ⟨p, _, ⟨hg, _, _⟩, _⟩ := replacementsFor_inv hr (node o args) kv hkv
        rw [size_goodConst (hg b hv)]; exact size_pos a
      · exact ih a ha b hp)
    simp only [size]; omega

/-- `X` has an operand of size `≥ 2` for which the pass has an instruction -/
def Marked (repl : Replacements) (X : Expr) : Prop :=
  ∃ a ∈ X.args, 2 ≤ size a ∧ ∃ kv ∈ replacementsFor repl X, kv.1.beq a = true

/-- a marked node occurs in the expression -/
inductive Reach (repl : Replacements) : Expr → Prop
  | here {X : Expr} : Marked repl X → Reach repl X
  | under {o : Int} {as : List Expr} {a : Expr} : a ∈ as → Reach repl a → Reach repl (node o as)

theorem size_of_reach {X : Expr} (h : Reach repl X) : 2 ≤ size X := by
  cases h with
  | here hm =>
    obtain ⟨a, ha, h2, _⟩ := hm
    cases X with
    | term o v n => cases ha
    | node o as => simp only [args] at ha; have := size_mem ha; simp only [size]; omega
  | under ha h' =>
    have := size_mem ha
    have := size_pos ‹Expr›
    simp only [size]; omega

/-- a pass that acts on a node of size `≥ 2` somewhere decreases the size -/
theorem pCF_size_lt (hn : NoNoneKey repl) (hr : RInv ReplBoth repl) {e : Expr} (h : Reach repl e) :
    ∀ e', performConstantFolding repl e = .ok e' → size e' < size e := by
  have hRle : ∀ (o : Int) (args : List Expr), ∀ a ∈ args, ∀ b,
      ((∃ kv ∈ replacementsFor repl (node o args), kv.1.beq a = true ∧ kv.2 = some b) ∨
        ((∀ kv ∈ replacementsFor repl (node o args), kv.1.beq a = false) ∧
          performConstantFolding repl a = .ok b)) → size b ≤ size a := by
    intro o args a _ b hab
    rcases hab with ⟨kv, hkv, _, hv⟩ | ⟨_, hp⟩
    · obtain ⟨p, _, ⟨hg, _, _⟩, _⟩ := replacementsFor_inv hr (node o args) kv hkv
      rw [size_goodConst (hg b hv)]; exact size_pos a
    · exact pCF_size_le hn hr a b hp
  induction h with
  | @here X hm =>
    intro e' he
    obtain ⟨a, ha, h2, kv0, hkv0, hb0⟩ := hm
    cases X with
    | term o v n => cases ha
    | node o args =>
      simp only [Expr.args] at ha
      obtain ⟨bs, hbs, rfl⟩ := pCF_node hn he
      have hrel := foldOperands_rel repl _ args bs hbs
      have := sizeL_foldRel_lt hrel (hRle o args) ⟨a, ha, fun b hab => by
        rcases hab with ⟨kv, hkv, _, hv⟩ | ⟨hno, _⟩
        · obtain ⟨p, _, ⟨hg, _, _⟩, _⟩ := replacementsFor_inv hr (node o args) kv hkv
          rw [size_goodConst (hg b hv)]; omega
        · rw [hno kv0 hkv0] at hb0; cases hb0⟩
      simp only [size]; omega
  | @under o as a ha hreach ih =>
    intro e' he
    obtain ⟨bs, hbs, rfl⟩ := pCF_node hn he
    have hrel := foldOperands_rel repl _ as bs hbs
    have h2 := size_of_reach hreach
    have := sizeL_foldRel_lt hrel (hRle o as) ⟨a, ha, fun b hab => by
      rcases hab with ⟨kv, hkv, _, hv⟩ | ⟨_, hp⟩
      · obtain ⟨p, _, ⟨hg, _, _⟩, _⟩ := replacementsFor_inv hr (node o as) kv hkv
        rw [size_goodConst (hg b hv)]; omega
      · exact ih b hp⟩
    simp only [size]; omega

end pass

end Term
end Cas
end Bingo
