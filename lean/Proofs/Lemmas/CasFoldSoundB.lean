import Proofs.Lemmas.CasFoldSoundA
/-!
# Invariants of the replacement instructions used by the soundness proof

* the constant dictionary: distinct ids, `id ↦ CONSTANT id`;
* the subsets tried by `firstFold` are duplicate-free;
* a position-aware invariant lemma for `genZip`;
* every recorded insertion starts with a child whose meaning is that of the representative of its key;
* a deleted operand only occurs below a node with at least three operands.
-/
namespace Bingo
namespace Cas
open Gen.OpDefs
open Expr

/-! ## the constant dictionary -/

/-- distinct keys, and `id ↦ term CONSTANT id _` -/
def DictOK (d : List (Int × Expr)) : Prop :=
  (d.map (·.1)).Nodup ∧ ∀ p ∈ d, ∃ np, p.2 = term CONSTANT p.1 np

theorem dictSet_ok {d : List (Int × Expr)} (h : DictOK d) (k : Int) (np : Bool) :
    DictOK (dictSet d k (term CONSTANT k np)) := by
  unfold dictSet
  split
  · have hmap : (d.map fun p => if (p.1 == k) = true then (k, term CONSTANT k np) else p).map (·.1)
        = d.map (·.1) := by
      rw [List.map_map]
      apply List.map_congr_left
      intro p _
      simp only [Function.comp]
      split
      · rename_i hk
        exact (beq_iff_eq.1 hk).symm
      · rfl
    refine ⟨by rw [hmap]; exact h.1, fun p hp => ?_⟩
    obtain ⟨p0, hp0, rfl⟩ := List.mem_map.1 hp
    split
    · exact ⟨np, rfl⟩
    · exact h.2 p0 hp0
  · rename_i hany
    refine ⟨?_, fun p hp => ?_⟩
    · rw [List.map_append, List.nodup_append]
      refine ⟨h.1, by simp, fun a ha b hb => ?_⟩
      simp only [List.map_cons, List.map_nil, List.mem_singleton] at hb
      subst hb
      intro hab
      subst hab
      obtain ⟨p, hp, rfl⟩ := List.mem_map.1 ha
      exact hany (List.any_eq_true.2 ⟨p, hp, by simp⟩)
    · rcases List.mem_append.1 hp with hp | hp
      · exact h.2 p hp
      · simp only [List.mem_singleton] at hp
        subst hp
        exact ⟨np, rfl⟩

theorem getConstantsList_ok : ∀ (as : List Expr),
    (∀ a ∈ as, ∀ acc, DictOK acc → DictOK (getConstantsAcc a acc)) →
    ∀ acc, DictOK acc → DictOK (getConstantsList as acc) := by
  intro as
  induction as with
  | nil => intro _ acc h; rw [getConstantsList]; exact h
  | cons a as ih =>
    intro hm acc h
    rw [getConstantsList]
    exact ih (fun b hb => hm b (List.mem_cons_of_mem _ hb)) _ (hm a List.mem_cons_self acc h)

theorem getConstantsAcc_ok : ∀ e acc, DictOK acc → DictOK (getConstantsAcc e acc) := by
  intro e
  induction e using Expr.ind' with
  | ht o v n =>
    intro acc h
    rw [getConstantsAcc]
    split
    · rename_i ho
      subst ho
      exact dictSet_ok h v n
    · exact h
  | hn o as ih =>
    intro acc h
    rw [getConstantsAcc]
    exact getConstantsList_ok as ih acc h

theorem getConstants_ok (e : Expr) : DictOK (getConstants e) :=
  getConstantsAcc_ok e [] ⟨List.nodup_nil, fun p hp => by cases hp⟩

theorem lookup_mem_key {l : List (Int × Expr)} {j : Int} {c : Expr} (h : l.lookup j = some c) :
    (j, c) ∈ l := by
  induction l with
  | nil => simp at h
  | cons p l ih =>
    obtain ⟨k', b⟩ := p
    rw [List.lookup_cons] at h
    split at h
    · rename_i hk
      cases h
      rw [beq_iff_eq.1 hk]
      exact List.mem_cons_self
    · exact List.mem_cons_of_mem _ (ih h)

theorem getConstants_lookup_shape {e : Expr} {j : Int} {c : Expr}
    (h : (getConstants e).lookup j = some c) : ∃ np, c = term CONSTANT j np :=
  (getConstants_ok e).2 (j, c) (lookup_mem_key h)

/-! ## the subsets tried are duplicate-free -/

theorem firstFoldOfSize_zero' {e : Expr} {constants : List (Int × Expr)} {pool acc : List Int}
    {r : Replacements} (h : firstFoldOfSize e constants 0 pool acc = .ok (some r)) :
    r.isEmpty = false ∧
      generateReplacements acc.reverse constants (findInsertionPoints e acc.reverse) = .ok r := by
  rw [firstFoldOfSize] at h
  cases hg : generateReplacements acc.reverse constants (findInsertionPoints e acc.reverse) with
  | error s => simp only [hg] at h; cases h
  | ok repl =>
    simp only [hg] at h
    change Except.ok (if repl.isEmpty = true then none else some repl) = Except.ok (some r) at h
    split at h
    · cases h
    · rename_i hne
      cases h
      exact ⟨by simpa using hne, rfl⟩

theorem firstFoldOfSize_some' {e : Expr} {constants : List (Int × Expr)} :
    ∀ (pool : List Int) (k : Nat) (acc : List Int) (r : Replacements),
    (acc.reverse ++ pool).Nodup →
    firstFoldOfSize e constants k pool acc = .ok (some r) →
    ∃ S, S.Nodup ∧ r.isEmpty = false ∧
      generateReplacements S constants (findInsertionPoints e S) = .ok r := by
  intro pool
  induction pool with
  | nil =>
    intro k acc r hnd h
    cases k with
    | zero =>
      obtain ⟨h1, h2⟩ := firstFoldOfSize_zero' h
      exact ⟨_, by simpa using hnd, h1, h2⟩
    | succ k => rw [firstFoldOfSize] at h; cases h
  | cons c cs ih =>
    intro k acc r hnd h
    cases k with
    | zero =>
      obtain ⟨h1, h2⟩ := firstFoldOfSize_zero' h
      exact ⟨_, (List.nodup_append.1 hnd).1, h1, h2⟩
    | succ k =>
      rw [firstFoldOfSize] at h
      split at h
      · cases h
      · have hnd1 : ((c :: acc).reverse ++ cs).Nodup := by
          simpa [List.reverse_cons, List.append_assoc] using hnd
        have hnd2 : (acc.reverse ++ cs).Nodup := by
          refine List.Nodup.sublist ?_ hnd
          exact List.Sublist.append_left (List.sublist_cons_self c cs) _
        cases h1 : firstFoldOfSize e constants k cs (c :: acc) with
        | error s => simp only [h1] at h; cases h
        | ok o =>
          simp only [h1] at h
          cases o with
          | some r' =>
            change Except.ok (some r') = Except.ok (some r) at h
            cases h
            exact ih k _ r hnd1 h1
          | none => exact ih (k+1) acc r hnd2 h

theorem firstFold_some' {e : Expr} {constants : List (Int × Expr)} {ids : List Int}
    (hnd : ids.Nodup) :
    ∀ (n size : Nat) (r : Replacements), firstFold e constants ids n size = .ok (some r) →
    ∃ S, S.Nodup ∧ r.isEmpty = false ∧
      generateReplacements S constants (findInsertionPoints e S) = .ok r := by
  intro n
  induction n with
  | zero => intro size r h; rw [firstFold] at h; cases h
  | succ n ih =>
    intro size r h
    rw [firstFold] at h
    cases h1 : firstFoldOfSize e constants size ids [] with
    | error s => simp only [h1] at h; cases h
    | ok o =>
      simp only [h1] at h
      cases o with
      | some r' =>
        change Except.ok (some r') = Except.ok (some r) at h
        cases h
        exact firstFoldOfSize_some' ids size [] r (by simpa using hnd) h1
      | none => exact ih (size+1) r h

/-- a non-empty result of `_generate_replacement_instructions` is the result of the zip loop, and
there were at most as many insertion points as ids -/
theorem generateReplacements_nonempty {S : List Int} {constants : List (Int × Expr)}
    {ips : InsertionPoints} {repl : Replacements}
    (h : generateReplacements S constants ips = .ok repl) (hne : repl.isEmpty = false) :
    ips.length ≤ S.length ∧ ∃ ins reps, genZip constants S ips ([], [], []) = .ok (repl, ins, reps) := by
  unfold generateReplacements at h
  split at h
  · cases h; cases hne
  · rename_i hlen
    cases hz : genZip constants S ips ([], [], []) with
    | error s => rw [hz] at h; cases h
    | ok r =>
      rw [hz] at h
      obtain ⟨repl', ins, reps⟩ := r
      change (if sameSets ins reps = true then pure [] else pure repl') = Except.ok repl at h
      split at h
      · cases h; cases hne
      · cases h
        exact ⟨by omega, ins, reps, rfl⟩

/-! ## a position-aware invariant of the zip loop -/

theorem genZip_inv_zip {Φ : Option Expr → Expr → Option Expr → Prop}
    {constants : List (Int × Expr)} :
    ∀ (cs : List Int) (ips : InsertionPoints) (s r : GenState), RInv Φ s.1 →
    (∀ j ks, (j, ks) ∈ cs.zip ips → ∀ c, constants.lookup j = some c →
      ∀ ins ∈ ks.2, InsCond Φ c ins) →
    genZip constants cs ips s = .ok r → RInv Φ r.1 := by
  intro cs
  induction cs with
  | nil =>
    intro ips s r hs _ h
    rw [genZip] at h
    · cases h
      exact hs
    · intro _ _ _ _ _ h1
      cases h1
  | cons j cs ih =>
    intro ips s r hs hc h
    cases ips with
    | nil =>
      rw [genZip] at h
      · cases h
        exact hs
      · intro _ _ _ _ _ _ h2
        cases h2
    | cons ks ips =>
      obtain ⟨key, insertions⟩ := ks
      rw [genZip] at h
      split at h
      · rename_i c hl
        refine ih ips _ r (genInsertions_inv insertions s hs fun ins hins => ?_) ?_ h
        · exact hc j (key, insertions) (by simp) c hl ins hins
        · exact fun j' ks' hm => hc j' ks' (by simp only [List.zip_cons_cons]; exact List.mem_cons_of_mem _ hm)
      · cases h

theorem zip_find_of_nodup : ∀ (S : List Int) (ips : InsertionPoints), S.Nodup →
    ∀ j ks, (j, ks) ∈ S.zip ips → (S.zip ips).find? (fun p => p.1 == j) = some (j, ks) := by
  intro S
  induction S with
  | nil => intro ips _ j ks h; simp at h
  | cons a S ih =>
    intro ips hnd j ks h
    cases ips with
    | nil => simp at h
    | cons k ips =>
      rw [List.zip_cons_cons] at h ⊢
      rcases List.mem_cons.1 h with h | h
      · cases h
        simp
      · have hj : j ∈ S := (List.of_mem_zip h).1
        have hne : a ≠ j := fun e => by
          subst e
          exact (List.nodup_cons.1 hnd).1 hj
        rw [List.find?_cons_of_neg (by simpa using hne)]
        exact ih ips (List.nodup_cons.1 hnd).2 j ks h

theorem zip_find_none {S : List Int} (ips : InsertionPoints) {j : Int}
    (h : S.contains j = false) : (S.zip ips).find? (fun p => p.1 == j) = none := by
  rw [List.find?_eq_none]
  intro p hp hpj
  have h1 : p.1 ∈ S := by
    obtain ⟨a, b⟩ := p
    exact (List.of_mem_zip hp).1
  rw [beq_iff_eq.1 hpj] at h1
  have : S.contains j = true := List.contains_iff_mem.2 h1
  rw [h] at this
  cases this

/-! ## facts about `vals` -/

theorem vals_false_none {c : Expr} : ∀ {l : List Expr} {cv : Expr × Option Expr},
    cv ∈ vals c false l → cv.2 = none := by
  intro l
  induction l with
  | nil => intro cv h; cases h
  | cons a l ih =>
    intro cv h
    simp only [vals] at h
    rcases List.mem_cons.1 h with rfl | h
    · rfl
    · exact ih h

/-- only the first child gets a constant -/
theorem vals_some {c : Expr} {l : List Expr} {ch c' : Expr} (h : (ch, some c') ∈ vals c true l) :
    l.head? = some ch ∧ c' = c := by
  cases l with
  | nil => cases h
  | cons a l =>
    simp only [vals] at h
    rcases List.mem_cons.1 h with h | h
    · cases h
      exact ⟨rfl, rfl⟩
    · have := vals_false_none h
      cases this

/-- a `None` entry needs a second child -/
theorem vals_none {c : Expr} {l : List Expr} {ch : Expr} (h : (ch, none) ∈ vals c true l) :
    2 ≤ l.length := by
  match l, h with
  | [a], h =>
    simp only [vals, List.mem_singleton] at h
    cases h
  | _ :: _ :: _, _ => simp

/-! ## the representative of an insertion point -/

/-- the sub-expression whose value the constant inserted at the insertion point `K` takes over -/
def repOf (S : List Int) (K : Expr) : Expr :=
  if isCV K then K else ((dedupExprs (K.args.filter fun o => !hasOthers S o)).head?).getD K

theorem head?_dedupExprs (l : List Expr) : (dedupExprs l).head? = l.head? := by
  cases l with
  | nil => rfl
  | cons a l => rw [dedupExprs]; rfl

theorem beqList_filter_head {p : Expr → Bool} (hp : ∀ a b, a.beq b = true → p a = p b) :
    ∀ (as bs : List Expr), beqList as bs = true →
    ((as.filter p).head? = none ∧ (bs.filter p).head? = none) ∨
    ∃ a b, (as.filter p).head? = some a ∧ (bs.filter p).head? = some b ∧ a.beq b = true := by
  intro as
  induction as with
  | nil =>
    intro bs h
    cases bs with
    | nil => exact Or.inl ⟨rfl, rfl⟩
    | cons b bs => simp [beqList] at h
  | cons a as ih =>
    intro bs h
    cases bs with
    | nil => simp [beqList] at h
    | cons b bs =>
      simp only [beqList, Bool.and_eq_true] at h
      rw [List.filter_cons, List.filter_cons, ← hp a b h.1]
      by_cases hpa : p a = true
      · rw [if_pos hpa, if_pos hpa]
        exact Or.inr ⟨a, b, rfl, rfl, h.1⟩
      · rw [if_neg hpa, if_neg hpa]
        exact ih bs h.2

/-- every insertion recorded under the key `K` starts with a child meaning what `repOf S K` means -/
def HeadOK (S : List Int) (K : Expr) (ins : Insertion) : Prop :=
  ∀ ch, ins.2.head? = some ch → ∀ x cv, den x cv ch = den x cv (repOf S K)

/-- a key-aware invariant of `insertion_points` -/
def IPInvK (G : Expr → Insertion → Prop) (ips : InsertionPoints) : Prop :=
  ∀ ks ∈ ips, ∀ ins ∈ ks.2, G ks.1 ins

theorem IPInvK_nil (G : Expr → Insertion → Prop) : IPInvK G [] := by
  intro ks h; cases h

theorem addInsertion_invK {G : Expr → Insertion → Prop} {ips : InsertionPoints} {key : Expr}
    {ins : Insertion} (h : IPInvK G ips) (hi : ∀ k, k.beq key = true → G k ins) :
    IPInvK G (addInsertion ips key ins) := by
  induction ips with
  | nil =>
    intro ks hks i hi'
    simp only [addInsertion, List.mem_singleton] at hks
    subst hks
    simp only [List.mem_singleton] at hi'
    subst hi'
    exact hi key (beq_refl key)
  | cons ks0 rest ih =>
    obtain ⟨k0, set⟩ := ks0
    rw [addInsertion]
    split
    · rename_i hk
      intro ks hks i hi'
      rcases List.mem_cons.1 hks with rfl | hks
      · dsimp only at hi' ⊢
        split at hi'
        · exact h _ List.mem_cons_self i hi'
        · rcases List.mem_append.1 hi' with hi' | hi'
          · exact h _ List.mem_cons_self i hi'
          · simp only [List.mem_singleton] at hi'
            subst hi'
            exact hi k0 hk
      · exact h ks (List.mem_cons_of_mem _ hks) i hi'
    · intro ks hks i hi'
      rcases List.mem_cons.1 hks with rfl | hks
      · exact h _ List.mem_cons_self i hi'
      · exact ih (fun ks hks => h ks (List.mem_cons_of_mem _ hks)) ks hks i hi'

theorem searchListK_inv {G : Expr → Insertion → Prop} {S : List Int} {parent : Option Expr} :
    ∀ (as : List Expr) (acc : InsertionPoints),
    (∀ a ∈ as, ∀ acc, IPInvK G acc → IPInvK G (searchInsertionPoints S a parent acc)) →
    IPInvK G acc → IPInvK G (searchInsertionPointsList S as parent acc) := by
  intro as
  induction as with
  | nil => intro acc _ h; rw [searchInsertionPointsList]; exact h
  | cons a as ih =>
    intro acc hm h
    rw [searchInsertionPointsList]
    exact ih _ (fun b hb => hm b (List.mem_cons_of_mem _ hb)) (hm a List.mem_cons_self acc h)

theorem search_headOK (S : List Int) : ∀ e parent acc, IPInvK (HeadOK S) acc →
    IPInvK (HeadOK S) (searchInsertionPoints S e parent acc) := by
  intro e
  induction e using Expr.ind' with
  | ht o v n => intro parent acc h; rw [searchInsertionPoints]; exact h
  | hn o args ih =>
    intro parent acc hacc
    rw [searchInsertionPoints]
    have h1 : IPInvK (HeadOK S) (searchInsertionPointsList S args (some (node o args)) acc) :=
      searchListK_inv args acc (fun a ha acc' h => ih a ha _ acc' h) hacc
    split
    · exact h1
    · split
      · rename_i hcv
        refine addInsertion_invK h1 fun k hk ch hch x cv => ?_
        simp only [List.head?_cons, Option.some.injEq] at hch
        subst hch
        have hkcv : isCV k = true := by rw [beq_isCV k _ hk]; exact hcv
        unfold repOf
        rw [if_pos hkcv]
        exact (beq_den x cv k _ hk).symm
      · rename_i hcv
        refine addInsertion_invK h1 fun k hk ch hch x cv => ?_
        dsimp only at hch
        obtain ⟨args', rfl, hargs⟩ := beq_node_right hk
        have hkcv : ¬ isCV (node o args') = true := by rw [beq_isCV _ _ hk]; exact hcv
        unfold repOf
        rw [if_neg hkcv, head?_dedupExprs]
        rw [head?_dedupExprs] at hch
        simp only [Expr.args]
        rcases beqList_filter_head (p := fun o => !hasOthers S o)
            (fun a b hab => by simp only [beq_hasOthers S a b hab]) args' args hargs with
          ⟨_, h2⟩ | ⟨a, b, h1', h2, hab⟩
        · rw [h2] at hch; cases hch
        · rw [h2] at hch
          cases hch
          rw [h1']
          exact (beq_den x cv a ch hab).symm

theorem findInsertionPoints_headOK {S : List Int} {e : Expr} (hg : Grp e = true) :
    IPInvK (HeadOK S) (findInsertionPoints e S) := by
  unfold findInsertionPoints
  split
  · rename_i h
    simp only [Bool.and_eq_true, Bool.not_eq_true'] at h
    intro ks hks ins hins ch hch x cv
    simp only [List.mem_singleton] at hks
    subst hks
    simp only [List.mem_singleton] at hins
    subst hins
    simp only [List.head?_cons, Option.some.injEq] at hch
    subst hch
    unfold repOf
    rw [if_pos (isCV_of_not_hasOthers S _ hg h.2)]
  · exact search_headOK S e none [] (IPInvK_nil _)

/-! ## deleted operands -/

/-- an insertion has one child, or belongs to a node with more operands than children -/
def LenIns (ins : Insertion) : Prop :=
  ins.2.length ≤ 1 ∨ ∃ o args, ins.1 = some (node o args) ∧ ins.2.length + 1 ≤ args.length

theorem filter_length_succ_le {p : Expr → Bool} : ∀ {l : List Expr},
    (∃ a ∈ l, p a = false) → (l.filter p).length + 1 ≤ l.length := by
  intro l
  induction l with
  | nil => rintro ⟨a, ha, _⟩; cases ha
  | cons b l ih =>
    rintro ⟨a, ha, hpa⟩
    rw [List.filter_cons]
    by_cases hpb : p b = true
    · rw [if_pos hpb]
      rcases List.mem_cons.1 ha with rfl | ha
      · rw [hpa] at hpb; cases hpb
      · have := ih ⟨a, ha, hpa⟩
        simp only [List.length_cons]; omega
    · rw [if_neg hpb]
      have := List.length_filter_le p l
      simp only [List.length_cons]; omega

theorem search_lenIns (S : List Int) : ∀ e parent acc, IPInv LenIns acc →
    IPInv LenIns (searchInsertionPoints S e parent acc) := by
  intro e
  induction e using Expr.ind' with
  | ht o v n => intro parent acc h; rw [searchInsertionPoints]; exact h
  | hn o args ih =>
    intro parent acc hacc
    rw [searchInsertionPoints]
    have h1 : IPInv LenIns (searchInsertionPointsList S args (some (node o args)) acc) :=
      searchList_inv args acc (fun a ha acc' h => ih a ha _ acc' h) hacc
    split
    · exact h1
    · rename_i hip
      have hip' : isInsertionPoint S args = true := by simpa using hip
      split
      · exact addInsertion_inv h1 (Or.inl (Nat.le_refl 1))
      · refine addInsertion_inv h1 (Or.inr ⟨o, args, rfl, ?_⟩)
        dsimp only
        simp only [isInsertionPoint, Bool.and_eq_true] at hip'
        obtain ⟨a, ha, hoa⟩ := List.any_eq_true.1 hip'.2
        have l1 := length_dedupExprs_le (args.filter fun o => !hasOthers S o)
        have l2 := filter_length_succ_le (p := fun o => !hasOthers S o) ⟨a, ha, by simp [hoa]⟩
        omega

theorem findInsertionPoints_lenIns (S : List Int) (e : Expr) :
    IPInv LenIns (findInsertionPoints e S) := by
  unfold findInsertionPoints
  split
  · intro ks hks ins hins
    simp only [List.mem_singleton] at hks
    subst hks
    simp only [List.mem_singleton] at hins
    subst hins
    exact Or.inl (Nat.le_refl 1)
  · exact search_lenIns S e none [] (IPInv_nil _)

/-- a `None` entry only occurs below a node with at least three operands -/
def LenOK (p : Option Expr) (_ch : Expr) (v : Option Expr) : Prop :=
  v = none → ∀ q, p = some q → 3 ≤ q.args.length

theorem insCond_lenOK {c : Expr} {ins : Insertion} (h : LenIns ins) : InsCond LenOK c ins := by
  intro cv hcv p ch' hp _ hv q hq
  subst hq
  obtain ⟨ch, v⟩ := cv
  dsimp only at hv
  subst hv
  have h2 := vals_none hcv
  rcases h with h | ⟨o, args, h1, h3⟩
  · omega
  · rw [h1] at hp
    have hp' : q.beq (node o args) = true := hp
    obtain ⟨args', rfl, hargs⟩ := beq_node_right hp'
    simp only [Expr.args]
    rw [beqList_length hargs]
    omega

end Cas
end Bingo
