import Proofs.Lemmas.CasPipeline
import Proofs.Lemmas.CasInterpR
import Proofs.Lemmas.ReduceWF
import Proofs.Lemmas.WFFwd
import Proofs.Lemmas.FwdDen
import Proofs.Lemmas.DenMath
/-!
# `Cas.simplify` = `simplification_backend.simplify_stack`, the function the real code runs

`simplify s` runs the CAS (`simplifyWith false s`) and falls back to `reduce_stack` when the CAS raises
`OverflowError` / `MemoryError`.  The CAS branch is covered by `CasPipeline` (the strictness switch is
irrelevant for stacks, `CasNoNp`), the fallback branch by the reduction lemmas.
-/
namespace Bingo
namespace Cas
open Gen.OpDefs Expr CasInterp ReduceLemmas

/-- the two ways `simplify_stack` can succeed -/
theorem simplify_cases {s s' : Stack} (h : simplify s = .ok s') :
    simplifyWith true s = .ok s' ∨
      (∃ e, simplifyWith true s = .error e ∧ isCaught e = true ∧ Reduce.reduce s = some s') := by
  unfold simplify at h
  rw [NoNpM.simplifyWith_strict_irrelevant] at h
  cases hs : simplifyWith true s with
  | ok r => rw [hs] at h; exact Or.inl h
  | error e =>
    rw [hs] at h
    dsimp only at h
    split at h
    · rename_i hc
      refine Or.inr ⟨e, rfl, hc, ?_⟩
      unfold reduceR at h
      split at h
      · rename_i r hr; cases Auto.pure_ok h; exact hr
      · exact (Auto.throw_ok h).elim
    · exact (Auto.throw_ok h).elim

/-- the evaluation backend's precondition without the bound on the constants -/
theorem wf_none_of_wfeval {D L : Nat} {s : Stack} (h : WF.WFEval D L s) :
    WF.wf D none none s = true := by
  have hne := wf_ne h
  unfold WF.wf
  simp only [Bool.and_eq_true, Bool.not_eq_true', List.isEmpty_eq_false_iff]
  refine ⟨hne, rowsOK_of_get s 0 (fun i cmd hi => ?_)⟩
  have hrow := wf_rowOK h hi
  rw [Nat.zero_add]
  unfold WF.rowOK at hrow ⊢
  split
  · rename_i ht ha
    simp only [ht, ha] at hrow
    split
    · rename_i hv; rw [if_pos hv] at hrow; exact hrow
    · rename_i hv
      rw [if_neg hv] at hrow
      split
      · rfl
      · rename_i hc; rw [if_neg hc] at hrow; exact hrow
  · rename_i b ht ha
    simp only [ht, ha] at hrow
    exact hrow
  · rename_i hne1 hne2
    split at hrow
    · rename_i ht ha; exact (hne1 ht ha).elim
    · rename_i b ht ha; exact (hne2 _ ht ha).elim
    · exact hrow

/-- `reduce_stack` on an input of the evaluation backend: total semantics, same value, same constants -/
theorem reduce_mathden {D L : Nat} {s r : Stack} (hwf : WF.WFEval D L s)
    (hr : Reduce.reduce s = some r) {x c : List ℝ} (hx : x.length = D) (hc : c.length = L) :
    WF.WFEval D L r ∧ ∃ v, MathSem.den x c (ETree.ofStack s) = some v ∧
      MathSem.den x c (ETree.ofStack r) = some v := by
  obtain ⟨_, r0, _, hr0, _, hred⟩ := reduce_isReduction (wf_rows hwf)
  rw [hr] at hr0; cases hr0
  have hwfr : WF.WFEval D L r := reduce_wf_of hwf hred
  obtain ⟨v, hv⟩ := evalLast_isSome_of_loads (wf_rows hwf) (wfeval_loads hwf hx hc)
  have hvr := evalLast_reduce_of_some hred hv
  obtain ⟨vs, hvs, _⟩ := WFFwd.wf_fwd_some D L s x c hwf hx hc
  obtain ⟨vr, hvr', _⟩ := WFFwd.wf_fwd_some D L r x c hwfr hx hc
  rw [FwdDen.evalLast_eq_den s x c vs hvs, DenMath.den_eq_math x c _ (ETree.ofStack_arityOK s)] at hv
  rw [FwdDen.evalLast_eq_den r x c vr hvr',
    DenMath.den_eq_math x c _ (ETree.ofStack_arityOK r)] at hvr
  exact ⟨hwfr, v, hv, hvr⟩

theorem newCmd_node (u : List Bool) (cmd : Cmd) : (newCmd u cmd).node = cmd.node := by
  unfold newCmd; split <;> rfl

theorem numConsts_concat (l : List Cmd) (c : Cmd) :
    Renumber.numConsts (l ++ [c]) =
      Renumber.numConsts l + (if c.node = CONSTANT then 1 else 0) := by
  unfold Renumber.numConsts
  rw [List.filter_append, List.length_append]
  by_cases hc : c.node = CONSTANT
  · simp [hc]
  · simp [hc]

/-- `reduce_stack` keeps a sub-list of the rows, so it cannot have more constants -/
theorem numConsts_reduce_le {u : List Bool} {s r : Stack} (hred : IsReduction u s r) :
    Renumber.numConsts r ≤ Renumber.numConsts s := by
  have key : ∀ k, k ≤ s.length →
      Renumber.numConsts (r.take (pos u k)) ≤ Renumber.numConsts (s.take k) := by
    intro k
    induction k with
    | zero => intro _; simp [pos, Renumber.numConsts]
    | succ k ih =>
      intro hk
      have hk' : k < s.length := hk
      have hget : s[k]? = some s[k] := List.getElem?_eq_getElem hk'
      have hs : s.take (k+1) = s.take k ++ [s[k]] := by
        rw [List.take_add_one, hget]; rfl
      rw [hs, numConsts_concat]
      by_cases hu : u[k]? = some true
      · have hrow := hred.rrow k s[k] hget hu
        rw [pos_succ_true hu]
        have hlt : pos u k < r.length := (List.getElem?_eq_some_iff.mp hrow).1
        have hr : r.take (pos u k + 1) = r.take (pos u k) ++ [newCmd u s[k]] := by
          rw [List.take_add_one, hrow]; rfl
        rw [hr, numConsts_concat, newCmd_node]
        have := ih (by omega)
        omega
      · rw [pos_succ_not hu]
        have := ih (by omega)
        omega
  have := key s.length (Nat.le_refl _)
  rw [← hred.rlen, List.take_length, List.take_length] at this
  exact this

/-- **`simplify_stack` on constant-free stacks**: whichever branch is taken, the result is a
well-formed stack and at every data row where the source stack is conventionally defined it has the same
value.  No strictness switch: this is the function the real code runs. -/
theorem simplify_noconst_sound {D : Nat} {s s' : Stack} (hwf : WF.WFEval D 0 s)
    (hnp : PowLitRows s) (h : simplify s = .ok s') :
    WF.wf D none none s' = true ∧
    ∀ (x : List ℝ) (v : ℝ), x.length = D → pden x [] (ETree.ofStack s) = some v →
      MathSem.den x [] (ETree.ofStack s') = some v := by
  rcases simplify_cases h with h | ⟨e, _, _, hr⟩
  · exact simplify_stack_noconst hwf hnp h
  · refine ⟨wf_none_of_wfeval (reduce_mathden hwf hr (x := List.replicate D 0) (c := [])
      (by simp) rfl).1, fun x v hx hv => ?_⟩
    obtain ⟨_, w, hs, hr'⟩ := reduce_mathden hwf hr hx (c := []) rfl
    have := pden_sound x [] _ v hv
    rw [hs] at this
    cases this
    exact hr'

/-- **`simplify_stack` WITH constants**, followed by the constant renumbering of `AGraph._update`:
whichever branch is taken, the result is an input of the evaluation backend with no more constants than
the source, and for every value `c` of the original constants there are values `c'` of the new ones such
that at every data row where the source stack is conventionally defined the result has the same value. -/
theorem simplify_consts_sound {D L : Nat} {s s' : Stack} (hwf : WF.WFEval D L s)
    (hnp : PowLitRows s) (h : simplify s = .ok s') :
    WF.WFEval D (Renumber.numConsts s') (Renumber.renumber s') ∧
    Renumber.numConsts s' ≤ Renumber.numConsts s ∧
    ∀ c : List ℝ, c.length = L → ∃ c' : List ℝ, c'.length = Renumber.numConsts s' ∧
      ∀ (x : List ℝ) (v : ℝ), x.length = D → pden x c (ETree.ofStack s) = some v →
        MathSem.den x c' (ETree.ofStack (Renumber.renumber s')) = some v := by
  rcases simplify_cases h with h | ⟨e, _, _, hr⟩
  · exact ⟨(simplify_stack_wf hwf hnp h).2, simplify_stack_consts hwf hnp h⟩
  · obtain ⟨_, r0, _, hr0, _, hred⟩ := reduce_isReduction (wf_rows hwf)
    rw [hr] at hr0; cases hr0
    have hwfr : WF.WFEval D L s' := reduce_wf_of hwf hred
    refine ⟨renumber_wfeval_of (wf_none_of_wfeval hwfr), ?_, fun c hc => ?_⟩
    · -- the reduced stack keeps a sub-list of the rows
      exact numConsts_reduce_le hred
    · refine ⟨constVals s' c, constVals_length s' c, fun x v hx hv => ?_⟩
      obtain ⟨_, w, hs, hr'⟩ := reduce_mathden hwf hr hx hc
      have := pden_sound x c _ v hv
      rw [hs] at this
      cases this
      rw [← renumber_den hwfr hc x]
      exact hr'

end Cas
end Bingo
