import Proofs.Lemmas.CasSem
import Proofs.Lemmas.FwdDen
import Proofs.Lemmas.ReduceLemmas
import Proofs.Lemmas.DenMath
import Mathlib.Analysis.SpecialFunctions.Pow.Real
/-!
# Shared vocabulary for the two interpreter passes (`interpreter.py`)

* `gden lf t`: `MathSem.den` with the meaning of the leaves abstracted to `lf node p1`.
* `RowDen lf d j v`: "row `j` of the command list `d` denotes `v`" as an inductive relation that only
  looks at rows *before* `j` (so it is trivially monotone under appending rows), and
  `RowDen.trees`: it is sound for the tree `ETree.trees d` unfolds row `j` into.
* soundness of `Expr.den` on one/two operand nodes w.r.t. `MathSem.un` / `MathSem.bin`.
-/
namespace Bingo
namespace CasInterp
open Gen.OpDefs Cas Cas.Expr ETree

/-! ## `Except` plumbing -/

theorem bind_ok {α β : Type} {m : R α} {f : α → R β} {b : β} (h : (m >>= f) = .ok b) :
    ∃ a, m = .ok a ∧ f a = .ok b := by
  cases m with
  | error e => cases h
  | ok a => exact ⟨a, rfl, h⟩

/-! ## operator tables -/

theorem isTerminal_cases {o : Int} {b : Bool} (h : Ops.isTerminal o = some b) :
    (b = true ∧ (o = INTEGER ∨ o = VARIABLE ∨ o = CONSTANT) ∧ Ops.isArity2 o = some false) ∨
    (b = false ∧ ∃ a, Ops.isArity2 o = some a) := by
  have hm := ListAux.lookup_some_mem h
  simp only [Gen.OpDefs.isTerminalTbl, List.mem_cons, Prod.mk.injEq, List.not_mem_nil,
    or_false] at hm
  rcases hm with h | h | h | h | h | h | h | h | h | h | h | h | h | h | h | h | h <;>
    obtain ⟨rfl, rfl⟩ := h <;> simp [INTEGER, VARIABLE, CONSTANT, Ops.isArity2, isArity2Tbl, List.lookup]

theorem un_some_tables {o : Int} {a v : ℝ} (h : MathSem.un o a = some v) :
    Ops.isTerminal o = some false ∧ Ops.isArity2 o = some false := by
  have : o = SIN ∨ o = COS ∨ o = EXPONENTIAL ∨ o = LOGARITHM ∨ o = ABS ∨ o = SQRT ∨ o = SINH ∨
      o = COSH := by
    by_contra hn
    simp only [not_or] at hn
    simp [MathSem.un, hn] at h
  rcases this with rfl | rfl | rfl | rfl | rfl | rfl | rfl | rfl <;> exact ⟨by decide, by decide⟩

theorem bin_some_tables {o : Int} {a b v : ℝ} (h : MathSem.bin o a b = some v) :
    Ops.isTerminal o = some false ∧ Ops.isArity2 o = some true := by
  have : o = ADDITION ∨ o = SUBTRACTION ∨ o = MULTIPLICATION ∨ o = DIVISION ∨ o = POWER ∨
      o = SAFE_POWER := by
    by_contra hn
    simp only [not_or] at hn
    simp [MathSem.bin, hn] at h
  rcases this with rfl | rfl | rfl | rfl | rfl | rfl <;> exact ⟨by decide, by decide⟩

/-! ## `trees`: row `i` is `rowTree` of the rows before it -/

theorem treesAux_length (N : Nat) (rest : List Cmd) (acc : List ETree) :
    (treesAux N rest acc).length = acc.length + rest.length := by
  induction rest generalizing acc with
  | nil => simp [treesAux]
  | cons c rest ih => simp [treesAux, ih]; omega

theorem treesAux_get (N : Nat) (rest : List Cmd) :
    ∀ (acc : List ETree) (j : Nat) (cmd : Cmd), rest[j]? = some cmd →
      (treesAux N rest acc)[acc.length + j]? =
        some (rowTree N ((treesAux N rest acc).take (acc.length + j)) cmd) := by
  induction rest with
  | nil => intro acc j cmd h; simp at h
  | cons c rest ih =>
    intro acc j cmd h
    cases j with
    | zero =>
      simp at h; subst h
      simp only [treesAux, Nat.add_zero]
      obtain ⟨ext, he⟩ := FwdDen.treesAux_prefix N rest (acc ++ [rowTree N acc c])
      rw [he]
      simp
    | succ j =>
      simp at h
      have := ih (acc ++ [rowTree N acc c]) j cmd h
      simp only [List.length_append, List.length_cons, List.length_nil] at this
      simp only [treesAux]
      have e : acc.length + (j + 1) = acc.length + (0 + 1) + j := by omega
      rw [e]; exact this

theorem trees_length (s : Stack) : (trees s).length = s.length := by
  simp [trees, treesAux_length]

theorem trees_get {s : Stack} {i : Nat} {cmd : Cmd} (h : s[i]? = some cmd) :
    (trees s)[i]? = some (rowTree s.length ((trees s).take i) cmd) := by
  have := treesAux_get s.length s [] i cmd h
  simpa [trees] using this

/-- the tree of row `j` (`bad` out of range) -/
def treeAt (s : Stack) (j : Nat) : ETree := ((trees s)[j]?).getD bad

theorem getT_take {N i : Nat} {T : List ETree} {p : Int} (h0 : 0 ≤ p) (h1 : p.toNat < i)
    (hN : i ≤ N) : getT N (T.take i) p = (T[p.toNat]?).getD bad := by
  unfold getT
  rw [pyIdx_of_lt h0 (by omega)]
  simp [List.getElem?_take, h1]

theorem ofStack_eq (s : Stack) : ofStack s = treeAt s (s.length - 1) := by
  unfold ofStack treeAt
  rw [List.getLast?_eq_getElem?, trees_length]

/-! ## tree evaluation with abstract leaves -/

/-- `MathSem.den` with the leaves read through `lf` -/
noncomputable def gden (lf : Int → Int → Option ℝ) : ETree → Option ℝ
  | .bad => none
  | .leaf n p1 => lf n p1
  | .un n a => (gden lf a).bind (MathSem.un n)
  | .bin n a b => (gden lf a).bind fun va => (gden lf b).bind fun vb => MathSem.bin n va vb

theorem gden_math (x c : List ℝ) (t : ETree) : gden (MathSem.leaf x c) t = MathSem.den x c t := by
  induction t with
  | bad => rfl
  | leaf n p => rfl
  | un n a ih => simp [gden, MathSem.den, ih]
  | bin n a b iha ihb => simp [gden, MathSem.den, iha, ihb]

/-- "row `j` of `d` denotes `v`": every step only reads rows strictly before `j` -/
inductive RowDen (lf : Int → Int → Option ℝ) (d : List Cmd) : Nat → ℝ → Prop
  | leaf {j : Nat} {c : Cmd} {v : ℝ} : d[j]? = some c → Ops.isTerminal c.node = some true →
      Ops.isArity2 c.node = some false → lf c.node c.p1 = some v → RowDen lf d j v
  | un {j : Nat} {c : Cmd} {a v : ℝ} : d[j]? = some c → Ops.isTerminal c.node = some false →
      Ops.isArity2 c.node = some false → 0 ≤ c.p1 → c.p1.toNat < j →
      RowDen lf d c.p1.toNat a → MathSem.un c.node a = some v → RowDen lf d j v
  | bin {j : Nat} {c : Cmd} {a b v : ℝ} : d[j]? = some c → Ops.isTerminal c.node = some false →
      Ops.isArity2 c.node = some true → 0 ≤ c.p1 → c.p1.toNat < j → 0 ≤ c.p2 → c.p2.toNat < j →
      RowDen lf d c.p1.toNat a → RowDen lf d c.p2.toNat b → MathSem.bin c.node a b = some v →
      RowDen lf d j v

theorem getElem?_append_some {α : Type} {l : List α} {j : Nat} {c : α} (h : l[j]? = some c)
    (ext : List α) : (l ++ ext)[j]? = some c := by
  have hj : j < l.length := by
    by_contra hn
    rw [List.getElem?_eq_none (by omega)] at h; cases h
  rw [List.getElem?_append_left hj]; exact h

/-- appending rows does not change the meaning of the earlier rows -/
theorem RowDen.mono {lf : Int → Int → Option ℝ} {d : List Cmd} {j : Nat} {v : ℝ}
    (h : RowDen lf d j v) (ext : List Cmd) : RowDen lf (d ++ ext) j v := by
  induction h with
  | leaf h1 h2 h3 h4 => exact .leaf (getElem?_append_some h1 ext) h2 h3 h4
  | un h1 h2 h3 h4 h5 _ h7 ih => exact .un (getElem?_append_some h1 ext) h2 h3 h4 h5 ih h7
  | bin h1 h2 h3 h4 h5 h6 h7 _ _ h10 iha ihb =>
    exact .bin (getElem?_append_some h1 ext) h2 h3 h4 h5 h6 h7 iha ihb h10

/-- `RowDen` is sound for the tree `ETree.trees` unfolds the row into -/
theorem RowDen.trees {lf : Int → Int → Option ℝ} {s : List Cmd} {j : Nat} {v : ℝ}
    (h : RowDen lf s j v) : gden lf (treeAt s j) = some v := by
  induction h with
  | @leaf j c v h1 h2 h3 h4 =>
    unfold treeAt
    rw [trees_get h1]
    simp [rowTree, h2, h3, gden, h4]
  | @un j c a v h1 h2 h3 h4 h5 _ h7 ih =>
    have hj : j < s.length := by
      by_contra hn
      rw [List.getElem?_eq_none (by omega)] at h1; cases h1
    unfold treeAt at ih ⊢
    rw [trees_get h1]
    simp only [rowTree, h2, h3, Option.getD_some, gden]
    rw [getT_take h4 h5 (by omega), ih]
    exact h7
  | @bin j c a b v h1 h2 h3 h4 h5 h6 h7 _ _ h10 iha ihb =>
    have hj : j < s.length := by
      by_contra hn
      rw [List.getElem?_eq_none (by omega)] at h1; cases h1
    unfold treeAt at iha ihb ⊢
    rw [trees_get h1]
    simp only [rowTree, h2, h3, Option.getD_some, gden]
    rw [getT_take h4 h5 (by omega), getT_take h6 h7 (by omega), iha, ihb]
    exact h10

/-! ## `Expr.den` of one/two operand nodes is sound for `MathSem.un` / `MathSem.bin` -/

theorem unDen_sound {o : Int} {a v : ℝ} (h : unDen o a = some v) : MathSem.un o a = some v := by
  unfold unDen at h
  split at h
  · exact h
  · cases h

theorem binDen_sound {o : Int} {a b v : ℝ} (h : binDen o a b = some v) :
    MathSem.bin o a b = some v := by
  unfold binDen at h
  split at h
  · exact h
  · cases h

theorem zpowDen_sound {n : Int} {a v : ℝ} (h : zpowDen n a = some v) :
    MathSem.bin POWER a (n : ℝ) = some v := by
  unfold zpowDen at h
  split at h
  · cases h
  · have : MathSem.bin POWER a (n : ℝ) = some (a ^ (n : ℝ)) := by
      simp [MathSem.bin, POWER, ADDITION, SUBTRACTION, MULTIPLICATION, DIVISION]
    rw [this, Real.rpow_intCast]; exact h

theorem bind_eq_some' {α β : Type} {a : Option α} {f : α → Option β} {v : β}
    (h : a.bind f = some v) : ∃ x, a = some x ∧ f x = some v := by
  cases a with
  | none => cases h
  | some x => exact ⟨x, rfl, h⟩

theorem intVal?_some {e : Expr} {p : PInt} (h : e.intVal? = some p) :
    ∃ np, e = term INTEGER p.val np := by
  cases e with
  | term o v n =>
    simp only [intVal?] at h
    split at h
    · rename_i ho; subst ho; cases h; exact ⟨n, rfl⟩
    · cases h
  | node o as => cases h

section den
variable (x : List ℝ) (cv : Int → ℝ)

theorem den_node1_sound {o : Int} {a : Expr} {v : ℝ} (h1 : o ≠ ADDITION) (h2 : o ≠ MULTIPLICATION)
    (h : den x cv (node o [a]) = some v) :
    ∃ va, den x cv a = some va ∧ MathSem.un o va = some v := by
  rw [den_un x cv o a h1 h2] at h
  obtain ⟨va, ha, hv⟩ := bind_eq_some' h
  exact ⟨va, ha, unDen_sound hv⟩

theorem den_node2_sound {o : Int} {a b : Expr} {v : ℝ} (h : den x cv (node o [a, b]) = some v) :
    ∃ va vb, den x cv a = some va ∧ den x cv b = some vb ∧ MathSem.bin o va vb = some v := by
  by_cases hA : o = ADDITION
  · subst hA
    rw [den_add] at h
    simp only [S_cons, S_nil, oadd_zero] at h
    cases ha : den x cv a with
    | none => simp [ha] at h
    | some va =>
      cases hb : den x cv b with
      | none => simp [ha, hb] at h
      | some vb =>
        simp only [ha, hb, oadd_some] at h
        exact ⟨va, vb, rfl, rfl, by simpa [MathSem.bin] using h⟩
  by_cases hM : o = MULTIPLICATION
  · subst hM
    rw [den_mul] at h
    simp only [P_cons, P_nil, omul_one] at h
    cases ha : den x cv a with
    | none => simp [ha] at h
    | some va =>
      cases hb : den x cv b with
      | none => simp [ha, hb] at h
      | some vb =>
        simp only [ha, hb, omul_some] at h
        exact ⟨va, vb, rfl, rfl, by
          simpa [MathSem.bin, MULTIPLICATION, ADDITION, SUBTRACTION] using h⟩
  by_cases hP : o = POWER
  · subst hP
    cases hl : b.intVal? with
    | none =>
      rw [den_pow_gen x cv a b hl] at h
      obtain ⟨va, ha, h⟩ := bind_eq_some' h
      obtain ⟨vb, hb, h⟩ := bind_eq_some' h
      exact ⟨va, vb, ha, hb, binDen_sound h⟩
    | some p =>
      obtain ⟨np, rfl⟩ := intVal?_some hl
      rw [den_pow_lit] at h
      obtain ⟨va, ha, h⟩ := bind_eq_some' h
      exact ⟨va, (p.val : ℝ), ha, den_int x cv _ _, zpowDen_sound h⟩
  · rw [den_bin x cv o a b hA hM hP] at h
    obtain ⟨va, ha, h⟩ := bind_eq_some' h
    obtain ⟨vb, hb, h⟩ := bind_eq_some' h
    exact ⟨va, vb, ha, hb, binDen_sound h⟩

/-- a node of a non-associative operator has a meaning only with one or two operands -/
theorem den_node_length {o : Int} {as : List Expr} {v : ℝ} (h1 : o ≠ ADDITION)
    (h2 : o ≠ MULTIPLICATION) (h : den x cv (node o as) = some v) :
    as.length = 1 ∨ as.length = 2 := by
  rw [den_node] at h
  unfold nodeDen at h
  rw [if_neg h1, if_neg h2] at h
  match as, h with
  | [], h => simp at h
  | [_], _ => exact .inl rfl
  | [_, _], _ => exact .inr rfl
  | _ :: _ :: _ :: _, h => simp at h

theorem osum_eq_some {l : List (Option ℝ)} {v : ℝ} (h : osum l = some v) :
    ∃ vals : List ℝ, l = vals.map some ∧ v = vals.sum := by
  induction l generalizing v with
  | nil => simp at h; exact ⟨[], rfl, by simp [h]⟩
  | cons a l ih =>
    rw [osum_cons] at h
    cases a with
    | none => simp at h
    | some va =>
      cases hl : osum l with
      | none => simp [hl] at h
      | some vl =>
        obtain ⟨vals, rfl, rfl⟩ := ih hl
        simp only [hl, oadd_some, Option.some.injEq] at h
        exact ⟨va :: vals, rfl, by simp [← h]⟩

theorem oprod_eq_some {l : List (Option ℝ)} {v : ℝ} (h : oprod l = some v) :
    ∃ vals : List ℝ, l = vals.map some ∧ v = vals.prod := by
  induction l generalizing v with
  | nil => simp at h; exact ⟨[], rfl, by simp [h]⟩
  | cons a l ih =>
    rw [oprod_cons] at h
    cases a with
    | none => simp at h
    | some va =>
      cases hl : oprod l with
      | none => simp [hl] at h
      | some vl =>
        obtain ⟨vals, rfl, rfl⟩ := ih hl
        simp only [hl, omul_some, Option.some.injEq] at h
        exact ⟨va :: vals, rfl, by simp [← h]⟩

end den

end CasInterp
end Bingo
