import Proofs.Lemmas.MetricsEval
import Mathlib.Analysis.SpecialFunctions.Log.Basic
/-!
# C07, order side: a zero residual has the minimal fitness

MAE, MSE, RMSE are `≥ 0` and vanish exactly on the zero residual.  The NMLL fitness is a
non-decreasing function of the mean squared error (`nmllOf_mono`), strictly increasing for
`M ≥ 2` (`nmllOf_strictMono`), tends to `-∞` as the MSE tends to `0⁺` (`nmllOf_tendsto_atBot`),
and for `M = 1` it does not depend on the residual at all (`nmllOf_one`).
-/
namespace Bingo
namespace Metrics

lemma sum_eq_zero_iff_of_nonneg (l : List ℝ) (h : ∀ x ∈ l, 0 ≤ x) :
    l.sum = 0 ↔ ∀ x ∈ l, x = 0 := by
  induction l with
  | nil => simp
  | cons a l ih =>
    have ha : 0 ≤ a := h a (by simp)
    have hl : ∀ x ∈ l, 0 ≤ x := fun x hx => h x (List.mem_cons_of_mem _ hx)
    have hs : 0 ≤ l.sum := List.sum_nonneg hl
    rw [List.sum_cons, List.forall_mem_cons, ← ih hl]
    constructor
    · intro h0; constructor <;> linarith
    · rintro ⟨h1, h2⟩; rw [h1, h2, add_zero]

lemma sum_abs_nonneg (r : List ℝ) : 0 ≤ (r.map (|·|)).sum :=
  List.sum_nonneg (by simp)

lemma sum_sq_nonneg (r : List ℝ) : 0 ≤ (r.map (· ^ 2)).sum :=
  List.sum_nonneg (by
    intro x hx
    obtain ⟨y, -, rfl⟩ := List.mem_map.1 hx
    positivity)

lemma sum_abs_eq_zero_iff (r : List ℝ) : (r.map (|·|)).sum = 0 ↔ ∀ x ∈ r, x = 0 := by
  rw [sum_eq_zero_iff_of_nonneg _ (by simp)]
  simp

lemma sum_sq_eq_zero_iff (r : List ℝ) : (r.map (· ^ 2)).sum = 0 ↔ ∀ x ∈ r, x = 0 := by
  rw [sum_eq_zero_iff_of_nonneg _ (by
    intro x hx
    obtain ⟨y, -, rfl⟩ := List.mem_map.1 hx
    positivity)]
  simp

lemma length_pos_real {r : List ℝ} (hr : r ≠ []) : (0 : ℝ) < (r.length : ℝ) := by
  exact_mod_cast List.length_pos_iff.2 hr

theorem maeV_nonneg (r : List ℝ) : 0 ≤ maeV r :=
  div_nonneg (sum_abs_nonneg r) (Nat.cast_nonneg _)

theorem mseV_nonneg (r : List ℝ) : 0 ≤ mseV r :=
  div_nonneg (sum_sq_nonneg r) (Nat.cast_nonneg _)

theorem rmseV_nonneg (r : List ℝ) : 0 ≤ rmseV r := Real.sqrt_nonneg _

theorem maeV_eq_zero_iff {r : List ℝ} (hr : r ≠ []) : maeV r = 0 ↔ ∀ x ∈ r, x = 0 := by
  rw [maeV, div_eq_zero_iff, or_iff_left (length_pos_real hr).ne', sum_abs_eq_zero_iff]

theorem mseV_eq_zero_iff {r : List ℝ} (hr : r ≠ []) : mseV r = 0 ↔ ∀ x ∈ r, x = 0 := by
  rw [mseV, div_eq_zero_iff, or_iff_left (length_pos_real hr).ne', sum_sq_eq_zero_iff]

theorem rmseV_eq_zero_iff {r : List ℝ} (hr : r ≠ []) : rmseV r = 0 ↔ ∀ x ∈ r, x = 0 := by
  rw [rmseV, Real.sqrt_eq_zero (mseV_nonneg r), mseV_eq_zero_iff hr]

/-- a residual that is not identically zero has a positive mean squared error -/
theorem mseV_pos_iff {r : List ℝ} (hr : r ≠ []) : 0 < mseV r ↔ ∃ x ∈ r, x ≠ 0 := by
  rw [lt_iff_le_and_ne, and_iff_right (mseV_nonneg r), ne_comm, Ne, mseV_eq_zero_iff hr]
  push Not
  rfl

/-! ### NMLL as a function of the mean squared error -/

lemma one_sub_inv_sqrt_nonneg {M : ℕ} (hM : 1 ≤ M) : 0 ≤ 1 - 1 / Real.sqrt (M : ℝ) := by
  have h1 : (1 : ℝ) ≤ Real.sqrt (M : ℝ) := by
    rw [Real.one_le_sqrt]; exact_mod_cast hM
  have : 1 / Real.sqrt (M : ℝ) ≤ 1 := by
    rw [div_le_one (by linarith)]; exact h1
  linarith

lemma one_sub_inv_sqrt_pos {M : ℕ} (hM : 2 ≤ M) : 0 < 1 - 1 / Real.sqrt (M : ℝ) := by
  have h1 : (1 : ℝ) < Real.sqrt (M : ℝ) := by
    rw [Real.lt_sqrt (by norm_num)]
    have : (2 : ℝ) ≤ (M : ℝ) := by exact_mod_cast hM
    linarith
  have : 1 / Real.sqrt (M : ℝ) < 1 := by
    rw [div_lt_one (by linarith)]; exact h1
  linarith

/-- the NMLL fitness is an affine function of `log m` with slope `(1 - 1/√M) * (M/2)` -/
lemma nmllOf_eq (M L : ℕ) (m : ℝ) :
    nmllOf M L m = (1 - 1 / Real.sqrt (M : ℝ)) * ((M : ℝ) / 2) * Real.log m + nmllOf M L 1 := by
  unfold nmllOf
  rw [Real.log_one]
  ring

theorem nmllOf_mono {M : ℕ} (hM : 1 ≤ M) (L : ℕ) {m₁ m₂ : ℝ} (h₁ : 0 < m₁) (h₁₂ : m₁ ≤ m₂) :
    nmllOf M L m₁ ≤ nmllOf M L m₂ := by
  rw [nmllOf_eq M L m₁, nmllOf_eq M L m₂]
  have hlog : Real.log m₁ ≤ Real.log m₂ := Real.log_le_log h₁ h₁₂
  have hK : 0 ≤ (1 - 1 / Real.sqrt (M : ℝ)) * ((M : ℝ) / 2) :=
    mul_nonneg (one_sub_inv_sqrt_nonneg hM) (by positivity)
  have := mul_le_mul_of_nonneg_left hlog hK
  linarith

theorem nmllOf_strictMono {M : ℕ} (hM : 2 ≤ M) (L : ℕ) {m₁ m₂ : ℝ} (h₁ : 0 < m₁)
    (h₁₂ : m₁ < m₂) : nmllOf M L m₁ < nmllOf M L m₂ := by
  rw [nmllOf_eq M L m₁, nmllOf_eq M L m₂]
  have hlog : Real.log m₁ < Real.log m₂ := Real.log_lt_log h₁ h₁₂
  have hMpos : (0 : ℝ) < (M : ℝ) / 2 := by
    have : (2 : ℝ) ≤ (M : ℝ) := by exact_mod_cast hM
    linarith
  have hK : 0 < (1 - 1 / Real.sqrt (M : ℝ)) * ((M : ℝ) / 2) :=
    mul_pos (one_sub_inv_sqrt_pos hM) hMpos
  have := mul_lt_mul_of_pos_left hlog hK
  linarith

/-- with a single data point (`M = 1`, `b = 1`) the NMLL fitness is `0` whatever the residual -/
theorem nmllOf_one (L : ℕ) (m : ℝ) : nmllOf 1 L m = 0 := by
  simp [nmllOf]

/-- as the residual tends to zero (MSE `→ 0⁺`) the NMLL fitness tends to `-∞` (`M ≥ 2`):
a perfect fit is the infimum of the NMLL fitness, which is not attained at a real number.
(numpy returns `-inf` at MSE `= 0`; Mathlib's `Real.log 0 = 0` is a junk value.) -/
theorem nmllOf_tendsto_atBot {M : ℕ} (hM : 2 ≤ M) (L : ℕ) :
    Filter.Tendsto (fun m => nmllOf M L m) (nhdsWithin 0 (Set.Ioi 0)) Filter.atBot := by
  have hMpos : (0 : ℝ) < (M : ℝ) / 2 := by
    have : (2 : ℝ) ≤ (M : ℝ) := by exact_mod_cast hM
    linarith
  have hK : 0 < (1 - 1 / Real.sqrt (M : ℝ)) * ((M : ℝ) / 2) :=
    mul_pos (one_sub_inv_sqrt_pos hM) hMpos
  have h := Filter.tendsto_atBot_add_const_right _ (nmllOf M L 1)
    (Real.tendsto_log_nhdsGT_zero.const_mul_atBot hK)
  refine h.congr (fun m => ?_)
  rw [nmllOf_eq M L m]

end Metrics
end Bingo
