import Model.Selection
/-!
# Concrete individuals used by the non-vacuity examples of C08
-/
namespace Bingo
namespace Sel
namespace Ex

def ia : Indv := ⟨some 5, 1, 10⟩
def ib : Indv := ⟨some 1, 0, 11⟩
def ic : Indv := ⟨some 7, 2, 12⟩
def inan : Indv := ⟨none, 0, 13⟩

/-- the observable part of an age-fitness result (what the harness compares) -/
def view (r : Option AFResult) : Option (List Indv × Nat × Nat × List (List Nat)) :=
  r.map fun r => (r.pop, r.kept, r.rounds, r.removedLog)

end Ex
end Sel
end Bingo
