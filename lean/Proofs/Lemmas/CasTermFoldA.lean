import Proofs.Lemmas.CasTermPipe2
import Proofs.Lemmas.CasFoldSoundB
/-!
# Constant folding keeps the structural well-formedness `NE T`

On a grouped (`Grp`) well-formed expression no operand is ever deleted by a folding pass (a deletion needs a
node with three operands, which is a sum or product, and there the grouped normal form leaves at most one
constant-valued operand), so every node keeps its number of operands; the inserted expressions are
`CONSTANT` terminals.
-/
namespace Bingo
namespace Cas
namespace Term
open Gen.OpDefs Expr Auto

variable {T : Int → Bool}

/-- every `CONSTANT` terminal is allowed -/
abbrev TT : Int → Int → Bool := fun _ _ => true

/-- both invariants of the replacement instructions at once -/
def ReplBoth (p : Option Expr) (ch : Expr) (v : Option Expr) : Prop :=
  ReplOK TT True p ch v ∧ LenOK p ch v

theorem repl_both {e : Expr} (hg : Grp e = true) {S : List Int} {repl : Replacements}
    (h : generateReplacements S (getConstants e) (findInsertionPoints e S) = .ok repl) :
    RInv ReplBoth repl := by
  have h1 : RInv (ReplOK TT True) repl :=
    generateReplacements_inv (fun j c hl ks hks ins hins =>
      insCond_of_good (by
        obtain ⟨np, rfl⟩ := getConstants_lookup_shape hl
        exact ⟨j, np, rfl, rfl⟩)
        (findInsertionPoints_inv (fun _ => hg) ks hks ins hins)) h
  have h2 : RInv LenOK repl :=
    generateReplacements_inv (fun _ _ _ ks hks ins hins =>
      insCond_lenOK (findInsertionPoints_lenIns S e ks hks ins hins)) h
  exact fun pd hpd kv hkv => ⟨h1 pd hpd kv hkv, h2 pd hpd kv hkv⟩

/-- below a well-formed node nothing is deleted -/
theorem no_delete {repl : Replacements} (hr : RInv ReplBoth repl) {o : Int} {args : List Expr}
    (hne : NE T (node o args) = true) :
    ∀ kv ∈ replacementsFor repl (node o args), kv.2 ≠ none := by
  intro kv hkv hv
  obtain ⟨p, hp, ⟨_, _, h3⟩, h4⟩ := replacementsFor_inv hr (node o args) kv hkv
  obtain ⟨q, rfl, hq⟩ := optBeq_some_right hp
  obtain ⟨args', rfl, hargs⟩ := beq_node_right hq
  have hlen : 3 ≤ args'.length := h4 hv _ rfl
  rw [beqList_length hargs] at hlen
  obtain ⟨_, _, h2', _⟩ := NE_node_inv hne
  have ho : o = ADDITION ∨ o = MULTIPLICATION := by
    by_contra hc
    have := h2' hc
    omega
  have := (h3 trivial).2 _ rfl (by simpa [op] using ho)
  rw [hv] at this
  cases this

theorem NE_goodConst (hT : T CONSTANT = true) {c : Expr} (h : GoodConst TT c) : NE T c = true := by
  obtain ⟨j, np, rfl, _⟩ := h
  simp only [NE, hT, Bool.and_true, Bool.or_eq_true]
  right; decide

/-- one pass keeps `NE T` and the number of operands of every node -/
theorem pCF_NE (hT : T CONSTANT = true) {repl : Replacements} (hn : NoNoneKey repl)
    (hr : RInv ReplBoth repl) :
    ∀ e e', NE T e = true → performConstantFolding repl e = .ok e' → NE T e' = true := by
  intro e
  induction e using Expr.ind' with
  | ht o v n =>
    intro e' h he
    rw [pCF_term hn] at he
    cases he; exact h
  | hn o args ih =>
    intro e' h he
    obtain ⟨bs, hbs, rfl⟩ := pCF_node hn he
    have hrel := foldOperands_rel repl _ args bs hbs
    have hnd := no_delete hr h
    have hf := hrel.forall₂ (fun a _ ⟨kv, hkv, _, hv⟩ => hnd kv hkv hv)
    obtain ⟨h1, h2, h2', h3⟩ := NE_node_inv h
    have hlen := hf.length_eq
    refine NE_node_of ?_ (fun ho => by rw [← hlen]; exact h2 ho) (fun ho => by rw [← hlen]; exact h2' ho) ?_
    · intro hc; rw [hc] at hlen; exact h1 (List.length_eq_zero_iff.1 hlen)
    · rw [NEL_iff]
      intro b hb
      obtain ⟨a, ha, hab⟩ := forall₂_right hf b hb
      rcases hab with ⟨kv, hkv, _, hv⟩ | ⟨_, hp⟩
      · obtain ⟨p, _, ⟨hg, _, _⟩, _⟩ := replacementsFor_inv hr (node o args) kv hkv
        exact NE_goodConst hT (hg b hv)
      · exact ih a ha b (NEL_iff.1 h3 a ha) hp

theorem pCF_top_NE (hT : T CONSTANT = true) {repl : Replacements} (hr : RInv ReplBoth repl)
    {e e' : Expr} (h : NE T e = true) (he : performConstantFolding repl e = .ok e') :
    NE T e' = true := by
  by_cases hn : NoNoneKey repl
  · exact pCF_NE hT hn hr e e' h he
  · obtain ⟨pd, hpd, kv, hkv, hv⟩ := pCF_whole hn he
    exact NE_goodConst hT ((hr pd hpd kv hkv).1.1 e' hv)

/-- the folding loop keeps `NE T` and the grouped normal form -/
theorem foldLoop_NE (hT : T CONSTANT = true) : ∀ (fuel : Nat) (e e' : Expr),
    NE T e = true → Grp e = true → foldLoop fuel e = .ok e' → NE T e' = true ∧ Grp e' = true := by
  intro fuel
  induction fuel with
  | zero => intro e e' _ _ h; rw [foldLoop] at h; cases h
  | succ fuel ih =>
    intro e e' hne hg h
    rw [foldLoop] at h
    cases hff : firstFold e (getConstants e) ((getConstants e).map (·.1))
        ((getConstants e).map (·.1)).length 1 with
    | error s => simp only [hff] at h; cases h
    | ok o =>
      simp only [hff] at h
      cases o with
      | none =>
        change Except.ok e = Except.ok e' at h
        cases h
        exact ⟨hne, hg⟩
      | some repl =>
        obtain ⟨S, hgen⟩ := firstFold_some _ _ _ hff
        have hr := repl_both hg hgen
        change (performConstantFolding repl e >>= fun x => foldLoop fuel x) = Except.ok e' at h
        cases hp : performConstantFolding repl e with
        | error s => rw [hp] at h; cases h
        | ok e1 =>
          rw [hp] at h
          change foldLoop fuel e1 = Except.ok e' at h
          exact ih e1 e' (pCF_top_NE hT hr hne hp)
            (pCF_top_grp (fun pd hpd kv hkv => (hr pd hpd kv hkv).1) hg hp) h

/-- `_group_constants` establishes the grouped normal form (terminals: integers, variables, constants) -/
theorem groupConstants_grp_NE (hT : ∀ o, T o = true → o = VARIABLE ∨ o = CONSTANT) :
    ∀ e, NE T e = true → Grp (groupConstants e) = true ∧ isCV (groupConstants e) = isCV e := by
  intro e
  induction e using Expr.ind' with
  | ht o v n =>
    intro hne
    rw [groupConstants]
    refine ⟨?_, rfl⟩
    simp only [Grp, Bool.or_eq_true, beq_iff_eq]
    simp only [NE, Bool.or_eq_true, Bool.and_eq_true, beq_iff_eq] at hne
    rcases hne with h | ⟨_, h⟩
    · exact Or.inl (Or.inl h)
    · rcases hT o h with h | h
      · exact Or.inl (Or.inr h)
      · exact Or.inr h
  | hn o as ih =>
    intro hne
    have hm := NEL_iff.1 (NE_node_inv hne).2.2.2
    rw [groupConstants_node]
    have hl : ∀ b ∈ as.map groupConstants, Grp b = true := by
      intro b hb
      obtain ⟨a, ha, rfl⟩ := List.mem_map.1 hb
      exact (ih a ha (hm a ha)).1
    have hcv : isCVList (as.map groupConstants) = isCVList as := by
      rw [Bool.eq_iff_iff, isCVList_iff, isCVList_iff]
      constructor
      · intro h a ha
        rw [← (ih a ha (hm a ha)).2]
        exact h _ (List.mem_map_of_mem ha)
      · intro h b hb
        obtain ⟨a, ha, rfl⟩ := List.mem_map.1 hb
        rw [(ih a ha (hm a ha)).2]
        exact h a ha
    obtain ⟨h1, h2⟩ := groupStep_grp o _ hl
    exact ⟨h1, by rw [h2, hcv]; rfl⟩

/-- **`fold_constants` keeps `NE T`** (`T`: variables and constants) -/
theorem foldConstants_NE (hT : ∀ o, T o = true → o = VARIABLE ∨ o = CONSTANT)
    (hC : T CONSTANT = true) {fuel : Nat} {e e' : Expr} (h : NE T e = true)
    (hr : foldConstants fuel e = .ok e') : NE T e' = true :=
  (foldLoop_NE hC fuel _ e' (groupConstants_NE e h) (groupConstants_grp_NE hT e h).1 hr).1

end Term
end Cas
end Bingo
