import Proofs.Lemmas.EvalPhase
/-!
# `_multiprocess_eval` agrees with `_serial_eval` for every completion order (core Lean only)

The jobs carry pairwise distinct, in-range slots, so the result of writing them back does not
depend on the order in which they are consumed.
-/
namespace Bingo
namespace EvalPhase
open Pipeline

abbrev Job := Nat × Indiv × Nat

theorem applyResults_snd (pop : List Indiv) (c : Nat) (js : List Job) :
    (applyResults pop c js).2 = c + (js.map (·.2.2)).sum := by
  induction js generalizing pop c with
  | nil => simp [applyResults]
  | cons j js ih =>
    obtain ⟨slot, indv, extra⟩ := j
    simp only [applyResults, ih, List.map_cons, List.sum_cons]
    omega

theorem applyResults_length (pop : List Indiv) (c : Nat) (js : List Job) :
    (applyResults pop c js).1.length = pop.length := by
  induction js generalizing pop c with
  | nil => simp [applyResults]
  | cons j js ih =>
    obtain ⟨slot, indv, extra⟩ := j
    simp only [applyResults, ih, List.length_set]

/-- a slot no job writes keeps its content -/
theorem applyResults_getElem?_of_not_mem (pop : List Indiv) (c : Nat) (js : List Job) (k : Nat)
    (hk : k ∉ js.map (·.1)) : (applyResults pop c js).1[k]? = pop[k]? := by
  induction js generalizing pop c with
  | nil => simp [applyResults]
  | cons j js ih =>
    obtain ⟨slot, indv, extra⟩ := j
    simp only [List.map_cons, List.mem_cons, not_or] at hk
    simp only [applyResults]
    rw [ih _ _ hk.2, List.getElem?_set]
    have : slot ≠ k := fun h => hk.1 h.symm
    simp [this]

/-- a slot written by a job of a list with distinct slots holds that job's individual -/
theorem applyResults_getElem?_of_mem (pop : List Indiv) (c : Nat) (js : List Job) (k : Nat)
    (indv : Indiv) (e : Nat) (hnd : (js.map (·.1)).Nodup) (hmem : (k, indv, e) ∈ js)
    (hk : k < pop.length) : (applyResults pop c js).1[k]? = some indv := by
  induction js generalizing pop c with
  | nil => cases hmem
  | cons j js ih =>
    obtain ⟨slot, indv', extra⟩ := j
    simp only [List.map_cons, List.nodup_cons] at hnd
    simp only [applyResults]
    rcases List.mem_cons.mp hmem with h | h
    · simp only [Prod.mk.injEq] at h
      obtain ⟨rfl, rfl, rfl⟩ := h
      rw [applyResults_getElem?_of_not_mem _ _ _ _ hnd.1, List.getElem?_set]
      simp [hk]
    · exact ih _ _ hnd.2 h (by rw [List.length_set]; exact hk)

/-! ## the job list -/

theorem mem_jobs {f : Nat → Key} {cost : Nat → Nat} {red : Bool} {pop : List Indiv} {j : Job} :
    j ∈ jobs f cost red pop ↔
      ∃ i, pop[j.1]? = some i ∧ touched red i = true ∧ j = (j.1, evalOne f i, cost i.genome) := by
  obtain ⟨slot, indv, extra⟩ := j
  simp only [jobs, List.mem_map, List.mem_filter, List.mem_zipIdx_iff_getElem?, job]
  constructor
  · rintro ⟨⟨i, s⟩, ⟨hget, ht⟩, heq⟩
    simp only [Prod.mk.injEq] at heq
    obtain ⟨rfl, rfl, rfl⟩ := heq
    exact ⟨i, hget, ht, rfl⟩
  · rintro ⟨i, hget, ht, heq⟩
    simp only [Prod.mk.injEq] at heq
    obtain ⟨_, rfl, rfl⟩ := heq
    exact ⟨(i, slot), ⟨hget, ht⟩, rfl⟩

theorem jobs_slots_nodup (f : Nat → Key) (cost : Nat → Nat) (red : Bool) (pop : List Indiv) :
    ((jobs f cost red pop).map (·.1)).Nodup := by
  have h : (jobs f cost red pop).map (·.1) =
      ((pop.zipIdx.filter fun p => red || !p.1.flag).map Prod.snd) := by
    simp [jobs, job, List.map_map, Function.comp_def]
  rw [h]
  refine List.Sublist.nodup (List.Sublist.map _ List.filter_sublist) ?_
  rw [List.zipIdx_map_snd]
  exact List.nodup_range' 1

theorem filter_zipIdx_map {β : Type} (q : Indiv → Bool) (g : Indiv → β) (l : List Indiv) (n : Nat) :
    ((l.zipIdx n).filter fun p => q p.1).map (fun p => g p.1) = (l.filter q).map g := by
  induction l generalizing n with
  | nil => rfl
  | cons i l ih =>
    rw [List.zipIdx_cons]
    by_cases h : q i = true <;> simp [h, ih]

theorem jobs_extras_sum (f : Nat → Key) (cost : Nat → Nat) (red : Bool) (pop : List Indiv) :
    ((jobs f cost red pop).map (·.2.2)).sum = (serialEval f cost red pop).2 := by
  have h : (jobs f cost red pop).map (·.2.2) =
      ((pop.zipIdx.filter fun p => touched red p.1).map fun p => cost p.1.genome) := by
    simp [jobs, job, touched, List.map_map, Function.comp_def]
  rw [h, filter_zipIdx_map (touched red) (fun i => cost i.genome) pop 0, serialEval_snd]

/-- writing back any list of results that has the members of the job list and distinct slots
yields the serially evaluated population -/
theorem applyResults_fst_eq_serial (f : Nat → Key) (cost : Nat → Nat) (red : Bool)
    (pop : List Indiv) (c : Nat) (js : List Job)
    (hmem : ∀ j, j ∈ js ↔ j ∈ jobs f cost red pop) (hnd : (js.map (·.1)).Nodup) :
    (applyResults pop c js).1 = (serialEval f cost red pop).1 := by
  apply List.ext_getElem?
  intro k
  rw [serialEval_getElem?]
  cases hget : pop[k]? with
  | none =>
    have hlen : pop.length ≤ k := List.getElem?_eq_none_iff.mp hget
    rw [Option.map_none]
    exact List.getElem?_eq_none_iff.mpr (by rw [applyResults_length]; exact hlen)
  | some i =>
    have hk : k < pop.length := (List.getElem?_eq_some_iff.mp hget).1
    rw [Option.map_some]
    by_cases ht : touched red i = true
    · simp only [ht, if_true]
      have : (k, evalOne f i, cost i.genome) ∈ js :=
        (hmem _).mpr (mem_jobs.mpr ⟨i, hget, ht, rfl⟩)
      exact applyResults_getElem?_of_mem pop c js k _ _ hnd this hk
    · have hnot : k ∉ js.map (·.1) := by
        intro hin
        obtain ⟨j, hj, hjk⟩ := List.mem_map.mp hin
        obtain ⟨i', hget', ht', _⟩ := mem_jobs.mp ((hmem j).mp hj)
        rw [hjk, hget] at hget'
        cases hget'
        exact ht ht'
      rw [applyResults_getElem?_of_not_mem _ _ _ _ hnot, hget]
      simp [ht]

theorem multiprocessEval_eq_serialEval (f : Nat → Key) (cost : Nat → Nat) (red : Bool)
    (pop : List Indiv) (order : List Job → List Job)
    (hperm : (order (jobs f cost red pop)).Perm (jobs f cost red pop)) :
    multiprocessEval f cost red pop order = serialEval f cost red pop := by
  unfold multiprocessEval
  apply Prod.ext
  · apply applyResults_fst_eq_serial
    · intro j; exact hperm.mem_iff
    · exact ((hperm.map (·.1)).nodup_iff).mpr (jobs_slots_nodup f cost red pop)
  · rw [applyResults_snd, Nat.zero_add, (hperm.map (·.2.2)).sum_nat, jobs_extras_sum]

end EvalPhase
end Bingo
