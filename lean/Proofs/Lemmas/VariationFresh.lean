import Model.VariationPhase
import Proofs.Lemmas.PipelineSem
/-!
# The variation operators deliver fresh children

`OperatorContract f crossover mutation`: the children of crossover / mutation are `Fresh f` whenever
the parents are.  Under the contract `VarAnd` maps a fresh non-empty population to fresh offspring
(for all draws); `VarOr` and the generator part of `AddRandomIndividuals` need no contract.
Core Lean only.
-/
namespace Bingo
namespace VarPhase
open Pipeline PipelineSem

/-- what `VarAnd` needs from the operators it is configured with -/
structure OperatorContract (f : Nat → Key) (crossover : Indiv → Indiv → Nat → Indiv × Indiv)
    (mutation : Indiv → Nat → Indiv) : Prop where
  crossover_fresh : ∀ p1 p2 r, Fresh f p1 → Fresh f p2 →
    Fresh f (crossover p1 p2 r).1 ∧ Fresh f (crossover p1 p2 r).2
  mutation_fresh : ∀ p r, Fresh f p → Fresh f (mutation p r)

/-- what `AddRandomIndividuals` needs from its generator -/
def GeneratorContract (f : Nat → Key) (gen : Nat → Indiv) : Prop := ∀ r, Fresh f (gen r)

/-! ## basic facts -/

theorem fresh_of_unflagged (f : Nat → Key) {i : Indiv} (h : i.flag = false) : Fresh f i := by
  intro h'; rw [h] at h'; cases h'

theorem fresh_copy {f : Nat → Key} {i : Indiv} (h : Fresh f i) : Fresh f (copy i) := h

theorem nth_mem {pop : List Indiv} (hne : pop ≠ []) (k : Nat) : nth pop (k % pop.length) ∈ pop := by
  have hlen : 0 < pop.length := List.length_pos_iff.mpr hne
  have hk : k % pop.length < pop.length := Nat.mod_lt _ hlen
  unfold nth
  rw [List.getD_eq_getElem?_getD, List.getElem?_eq_getElem hk]
  exact List.getElem_mem hk

theorem nth_fresh {f : Nat → Key} {pop : List Indiv} (hne : pop ≠ []) (hpop : AllFresh f pop)
    (k : Nat) : Fresh f (nth pop (k % pop.length)) :=
  hpop _ (nth_mem hne k)

theorem allFresh_nil (f : Nat → Key) : AllFresh f [] := fun _ h => by cases h

theorem allFresh_cons {f : Nat → Key} {i : Indiv} {l : List Indiv} :
    AllFresh f (i :: l) ↔ Fresh f i ∧ AllFresh f l := by
  simp [AllFresh]

theorem allFresh_append {f : Nat → Key} {l1 l2 : List Indiv} :
    AllFresh f (l1 ++ l2) ↔ AllFresh f l1 ∧ AllFresh f l2 := by
  simp only [AllFresh, List.mem_append]
  exact ⟨fun h => ⟨fun i hi => h i (Or.inl hi), fun i hi => h i (Or.inr hi)⟩,
    fun h i hi => hi.elim (h.1 i) (h.2 i)⟩

/-! ## `VarAnd` -/

section VarAnd
variable {f : Nat → Key} {crossover : Indiv → Indiv → Nat → Indiv × Indiv}
  {mutation : Indiv → Nat → Indiv}

theorem crossPair_length (pop : List Indiv) (i : Nat) (d : Bool × Nat) :
    (crossPair crossover pop i d).length = 2 := by
  unfold crossPair
  split <;> rfl

theorem crossPair_fresh (hc : OperatorContract f crossover mutation) {pop : List Indiv}
    (hne : pop ≠ []) (hpop : AllFresh f pop) (i : Nat) (d : Bool × Nat) :
    AllFresh f (crossPair crossover pop i d) := by
  have h1 := nth_fresh hne hpop i
  have h2 := nth_fresh hne hpop (i % pop.length + 1)
  unfold crossPair
  split
  · have h := hc.crossover_fresh _ _ d.2 h1 h2
    exact allFresh_cons.mpr ⟨h.1, allFresh_cons.mpr ⟨h.2, allFresh_nil f⟩⟩
  · exact allFresh_cons.mpr ⟨fresh_copy h1, allFresh_cons.mpr ⟨fresh_copy h2, allFresh_nil f⟩⟩

theorem crossLoop_fresh (hc : OperatorContract f crossover mutation) {pop : List Indiv}
    (hne : pop ≠ []) (hpop : AllFresh f pop) (n fuel i : Nat) (ds : List (Bool × Nat)) :
    AllFresh f (crossLoop crossover pop n fuel i ds) := by
  induction fuel generalizing i ds with
  | zero => exact allFresh_nil f
  | succ fuel ih =>
    unfold crossLoop
    split
    · exact allFresh_append.mpr ⟨crossPair_fresh hc hne hpop i _, ih _ _⟩
    · exact allFresh_nil f

/-- the loop `range(i, n - 1, 2)` makes `(n - i) / 2` iterations of two offspring each -/
theorem crossLoop_length (pop : List Indiv) (n fuel i : Nat) (ds : List (Bool × Nat))
    (hfuel : (n - i) / 2 ≤ fuel) :
    (crossLoop crossover pop n fuel i ds).length = 2 * ((n - i) / 2) := by
  induction fuel generalizing i ds with
  | zero =>
    unfold crossLoop
    simp only [List.length_nil]
    omega
  | succ fuel ih =>
    unfold crossLoop
    split
    · rw [List.length_append, crossPair_length, ih (i + 2) ds.tail (by omega)]
      omega
    · simp only [List.length_nil]
      omega

theorem crossoverPopulation_length (pop : List Indiv) (n : Nat) (ds : List (Bool × Nat)) :
    (crossoverPopulation crossover pop n ds).length = n := by
  have h := crossLoop_length (crossover := crossover) pop n n 0 ds (by omega)
  unfold crossoverPopulation
  simp only
  split
  · rw [List.length_append, h, List.length_singleton]
    rename_i hlt
    rw [h] at hlt
    omega
  · rename_i hge
    rw [h] at hge ⊢
    omega

theorem crossoverPopulation_fresh (hc : OperatorContract f crossover mutation) {pop : List Indiv}
    (hne : pop ≠ []) (hpop : AllFresh f pop) (n : Nat) (ds : List (Bool × Nat)) :
    AllFresh f (crossoverPopulation crossover pop n ds) := by
  have h := crossLoop_fresh hc hne hpop n n 0 ds
  unfold crossoverPopulation
  simp only
  split
  · exact allFresh_append.mpr ⟨h, allFresh_cons.mpr ⟨fresh_copy (nth_fresh hne hpop _), allFresh_nil f⟩⟩
  · exact h

theorem mutatePopulation_length (l : List Indiv) (ds : List (Bool × Nat)) :
    (mutatePopulation mutation l ds).length = l.length := by
  induction l generalizing ds with
  | nil => rfl
  | cons p rest ih => simp only [mutatePopulation, List.length_cons, ih]

theorem mutatePopulation_fresh (hm : ∀ p r, Fresh f p → Fresh f (mutation p r)) {l : List Indiv}
    (hl : AllFresh f l) (ds : List (Bool × Nat)) : AllFresh f (mutatePopulation mutation l ds) := by
  induction l generalizing ds with
  | nil => exact allFresh_nil f
  | cons p rest ih =>
    obtain ⟨hp, hrest⟩ := allFresh_cons.mp hl
    simp only [mutatePopulation]
    refine allFresh_cons.mpr ⟨?_, ih hrest _⟩
    split
    · exact hm _ _ hp
    · exact hp

end VarAnd

/-! ## `VarOr`: every offspring goes through `_append_new_individual_to_offspring` -/

section VarOr
variable {crossover : Indiv → Indiv → Nat → Indiv × Indiv} {mutation : Indiv → Nat → Indiv}

def AllUnflagged (l : List Indiv) : Prop := ∀ c ∈ l, c.flag = false

theorem appendNew_unflagged {child : Indiv} {offspring : List Indiv} (h : AllUnflagged offspring) :
    AllUnflagged (appendNew child offspring) := by
  intro c hc
  simp only [appendNew, List.mem_append, List.mem_singleton] at hc
  rcases hc with hc | rfl
  · exact h c hc
  · rfl

theorem appendNew_length (child : Indiv) (offspring : List Indiv) :
    (appendNew child offspring).length = offspring.length + 1 := by
  simp [appendNew]

theorem orIter_unflagged (pop : List Indiv) {offspring : List Indiv} (d : OrDraw)
    (h : AllUnflagged offspring) : AllUnflagged (orIter crossover mutation pop offspring d) := by
  unfold orIter
  split
  · exact appendNew_unflagged h
  · exact appendNew_unflagged h
  · exact appendNew_unflagged h

theorem orIter_length (pop offspring : List Indiv) (d : OrDraw) :
    (orIter crossover mutation pop offspring d).length = offspring.length + 1 := by
  unfold orIter
  split
  · exact appendNew_length _ _
  · exact appendNew_length _ _
  · exact appendNew_length _ _

theorem orLoop_unflagged (pop : List Indiv) (k : Nat) (ds : List OrDraw) {offspring : List Indiv}
    (h : AllUnflagged offspring) : AllUnflagged (orLoop crossover mutation pop k ds offspring) := by
  induction k generalizing ds offspring with
  | zero => exact h
  | succ k ih => exact ih _ (orIter_unflagged pop _ h)

theorem orLoop_length (pop : List Indiv) (k : Nat) (ds : List OrDraw) (offspring : List Indiv) :
    (orLoop crossover mutation pop k ds offspring).length = offspring.length + k := by
  induction k generalizing ds offspring with
  | zero => rfl
  | succ k ih =>
    simp only [orLoop]
    rw [ih, orIter_length]
    omega

theorem allUnflagged_fresh (f : Nat → Key) {l : List Indiv} (h : AllUnflagged l) : AllFresh f l :=
  fun c hc => fresh_of_unflagged f (h c hc)

end VarOr

/-! ## `AddRandomIndividuals` -/

theorem generateNewPop_length (gen : Nat → Indiv) (k : Nat) (ds : List Nat) (pop : List Indiv) :
    (generateNewPop gen k ds pop).length = pop.length + k := by
  induction k generalizing ds pop with
  | zero => rfl
  | succ k ih =>
    simp only [generateNewPop]
    rw [ih, List.length_append, List.length_singleton]
    omega

theorem generateNewPop_fresh {f : Nat → Key} {gen : Nat → Indiv} (hg : GeneratorContract f gen)
    (k : Nat) (ds : List Nat) {pop : List Indiv} (hpop : AllFresh f pop) :
    AllFresh f (generateNewPop gen k ds pop) := by
  induction k generalizing ds pop with
  | zero => exact hpop
  | succ k ih =>
    exact ih _ (allFresh_append.mpr ⟨hpop, allFresh_cons.mpr ⟨hg _, allFresh_nil f⟩⟩)

theorem newChromosome_contract (f : Nat → Key) (genomeOf : Nat → Nat) :
    GeneratorContract f fun r => newChromosome (genomeOf r) :=
  fun _ => fresh_of_unflagged f rfl

/-! ## the multiple-value operators satisfy the contract -/

theorem svCrossover_unflagged (p1 p2 : MVChrom) (r : Nat) :
    (svCrossover p1 p2 r).1.flag = false ∧ (svCrossover p1 p2 r).2.flag = false := ⟨rfl, rfl⟩

theorem svMutation_unflagged (mf : Nat → Nat) (p : MVChrom) (r : Nat) :
    (svMutation mf p r).flag = false := rfl

end VarPhase
end Bingo
