import Model.StringsTok
/-!
# The tokenizer on the strings of the sympy printer (C16, core only)

Main result: `tokenize_sympyStr`: for a tree in the domain `printOK` whose constants satisfy the character
condition `constCharsOK` (true of Python's `repr` of a finite float), `Str.tokenize` maps the printed string
`sympyStr consts t` to the intended token list `sympyToks consts t`.

Route:
* `sympyStr_toList`: closed form `render ['*','*']` of the printer as a character list (through the generated
  templates and `pyFormat`); `render ['^']` is the string after the `**` to `^` replacement (`rp_render`).
* `adjOK_render`: a local invariant on adjacent characters (`pairOK`: no `)(`, `oo`, `na`; every `-` is followed
  by a space or a digit), proved in continuation style (`render t ++ k`).  It gives: no bad token, the `)(`
  replacement and the `-c` rewriting are the identity.
* `CK_render` / `negativeBaseSub_id`: every `^` of the string is immediately preceded by `)`, while a match of the
  `-N^` pass (`negative_base_pattern`) needs a digit, `.` or blank before the `^`: that pass is the identity too.
* `okChar_render`: the characters are ASCII and never `I`.
* `words_render`: splitting the spaced string on `" "` and dropping the empty pieces gives `toksC`;
  `toksC_lower`: lower-casing `toksC` gives `sympyToks` (`X_k` becomes `x_k`).

Everything except `constCharsOK` and `tokenize_sympyStr` lives in the namespace `Bingo.Str.Tkz`.
-/
namespace Bingo.Str
open Tables Gen.OpDefs
namespace Tkz

/-! ## characters -/

theorem isReDigit_iff' (c : Char) : isReDigit c = true ↔ 48 ≤ c.toNat ∧ c.toNat ≤ 57 := by
  simp only [isReDigit, Bool.and_eq_true, decide_eq_true_eq, Char.le_def, Char.toNat]
  constructor
  · intro h; have := h.1; have := h.2; simp [UInt32.le_iff_toNat_le] at *; omega
  · intro h; simp [UInt32.le_iff_toNat_le] at *; omega

theorem toLower_of_not_upper {c : Char} (h : c.toNat < 65 ∨ 90 < c.toNat) : c.toLower = c := by
  unfold Char.toLower
  rw [dif_neg]
  intro ⟨h1, h2⟩
  simp only [ge_iff_le, UInt32.le_iff_toNat_le] at h1 h2
  have e : c.toNat = c.val.toNat := rfl
  have e1 : 'A'.val.toNat = 65 := by decide
  have e2 : 'Z'.val.toNat = 90 := by decide
  omega

/-- pairs of adjacent characters that never occur in a printed string -/
def pairOK (c d : Char) : Bool :=
  (c != ')' || d != '(') && (c != 'o' || d != 'o') && (c != 'n' || d != 'a') &&
  (c != '-' || isReSpace d || isReDigit d)

def adjOK : List Char → Bool
  | [] => true
  | c :: r => (match r with | [] => true | d :: _ => pairOK c d) && adjOK r

@[simp] theorem adjOK_nil : adjOK [] = true := rfl
@[simp] theorem adjOK_single (c) : adjOK [c] = true := rfl
theorem adjOK_cons_cons (c d r) : adjOK (c :: d :: r) = (pairOK c d && adjOK (d :: r)) := rfl

theorem adjOK_append_right {a b : List Char} (h : adjOK (a ++ b) = true) : adjOK b = true := by
  induction a with
  | nil => exact h
  | cons c r ih =>
    simp only [List.cons_append, adjOK, Bool.and_eq_true] at h
    exact ih h.2

/-- a character that may be followed by anything -/
def neutral (c : Char) : Bool := c != ')' && c != 'o' && c != 'n' && c != '-'

theorem pairOK_of_neutral {c : Char} (h : neutral c = true) (d : Char) : pairOK c d = true := by
  simp only [neutral, Bool.and_eq_true, bne_iff_ne, ne_eq] at h
  simp [pairOK, h]

theorem adjOK_cons_neutral {c : Char} (h : neutral c = true) {r : List Char} (hr : adjOK r = true) :
    adjOK (c :: r) = true := by
  cases r with
  | nil => rfl
  | cons d r => rw [adjOK_cons_cons, pairOK_of_neutral h, hr]; rfl

/-- every `-` is followed by a digit -/
def negOK : List Char → Bool
  | [] => true
  | c :: r => (c != '-' || isReDigit (r.headD ' ')) && negOK r

/-- atoms: no `)`, `o`, `n`; every `-` followed by a digit -/
theorem adjOK_atom {a : List Char} (h1 : ∀ c ∈ a, c ≠ ')' ∧ c ≠ 'o' ∧ c ≠ 'n') (h2 : negOK a = true)
    {k : List Char} (hk : adjOK k = true) : adjOK (a ++ k) = true := by
  induction a with
  | nil => exact hk
  | cons c r ih =>
    simp only [negOK, Bool.and_eq_true, Bool.or_eq_true, bne_iff_ne, ne_eq] at h2
    have ihr := ih (fun d hd => h1 d (List.mem_cons_of_mem _ hd)) h2.2
    have hc := h1 c List.mem_cons_self
    by_cases hm : c = '-'
    · subst hm
      cases r with
      | nil => simp [isReDigit] at h2
      | cons d r =>
        simp only [List.headD_cons] at h2
        rw [List.cons_append, List.cons_append, adjOK_cons_cons]
        rw [List.cons_append] at ihr
        rw [ihr]
        have hd : isReDigit d = true := by simpa using h2.1
        simp [pairOK, hd]
    · exact adjOK_cons_neutral (by simp [neutral, hc, hm]) ihr

theorem negOK_of_no_minus {a : List Char} (h : ∀ c ∈ a, c ≠ '-') : negOK a = true := by
  induction a with
  | nil => rfl
  | cons c r ih =>
    simp only [negOK, Bool.and_eq_true, Bool.or_eq_true, bne_iff_ne, ne_eq]
    exact ⟨Or.inl (h c List.mem_cons_self), ih (fun d hd => h d (List.mem_cons_of_mem _ hd))⟩

/-! ## substring test -/

theorem containsSub_decomp {pat s : List Char} (h : containsSub pat s = true) :
    ∃ u v, s = u ++ (pat ++ v) := by
  induction s with
  | nil =>
    simp only [containsSub, List.isEmpty_iff] at h
    exact ⟨[], [], by simp [h]⟩
  | cons c r ih =>
    simp only [containsSub, Bool.or_eq_true] at h
    rcases h with h | h
    · rw [List.isPrefixOf_iff_prefix] at h
      obtain ⟨v, hv⟩ := h
      exact ⟨[], v, by simp [hv]⟩
    · obtain ⟨u, v, huv⟩ := ih h
      exact ⟨c :: u, v, by simp [huv]⟩

theorem not_containsSub_of_pair {x y : Char} (hxy : pairOK x y = false) (pre post : List Char)
    {s : List Char} (hs : adjOK s = true) : containsSub (pre ++ x :: y :: post) s = false := by
  cases hc : containsSub (pre ++ x :: y :: post) s with
  | false => rfl
  | true =>
    obtain ⟨u, v, huv⟩ := containsSub_decomp hc
    subst huv
    have h1 := adjOK_append_right hs
    rw [List.append_assoc] at h1
    have h2 := adjOK_append_right h1
    simp only [List.cons_append, adjOK_cons_cons, Bool.and_eq_true] at h2
    rw [hxy] at h2
    exact absurd h2.1 (by decide)

theorem not_containsSub_of_not_mem {x : Char} (pre post : List Char)
    {s : List Char} (hs : x ∉ s) : containsSub (pre ++ x :: post) s = false := by
  cases hc : containsSub (pre ++ x :: post) s with
  | false => rfl
  | true =>
    obtain ⟨u, v, huv⟩ := containsSub_decomp hc
    subst huv
    exact absurd (by simp) hs

/-! ## `str.replace` -/

theorem replaceGo_id {old new s : List Char} (h : containsSub old s = false) : replaceGo old new 0 s = s := by
  induction s with
  | nil => rfl
  | cons c r ih =>
    simp only [containsSub, Bool.or_eq_false_iff] at h
    rw [replaceGo, if_neg (by simp [h.1]), ih h.2]

theorem adjOK_tail {c : Char} {r : List Char} (h : adjOK (c :: r) = true) : adjOK r = true := by
  simp only [adjOK, Bool.and_eq_true] at h; exact h.2

/-! ## the `-c` rewriting -/

theorem negativeSub_id {s : List Char} (h : adjOK s = true) : negativeSub s = s := by
  induction s with
  | nil => rfl
  | cons c r ih =>
    have ihr := ih (adjOK_tail h)
    by_cases hm : c = '-'
    · subst hm
      cases r with
      | nil => rfl
      | cons d r =>
        rw [adjOK_cons_cons] at h
        simp only [pairOK, Bool.and_eq_true, Bool.or_eq_true] at h
        have hd : (!isReSpace d && !isReDigit d) = false := by
          rcases h.1.2 with h' | h'
          · rcases h' with h' | h'
            · simp at h'
            · simp [h']
          · simp [h']
        rw [negativeSub, if_neg (by simp [hd]), ihr]
    · rw [negativeSub, ihr]
      · intro h' _; exact hm h'
      · intro _ _ h' _; exact hm h'

/-! ## `**` to `^` -/
def rp (s : List Char) : List Char := replaceGo ['*', '*'] ['^'] 0 s

theorem rp_nil : rp [] = [] := rfl
theorem rp_cons_ne {c : Char} (h : c ≠ '*') (r : List Char) : rp (c :: r) = c :: rp r := by
  unfold rp
  rw [replaceGo, if_neg]
  simp [List.isPrefixOf, Ne.symm h]

theorem rp_atom {a : List Char} (h : ∀ c ∈ a, c ≠ '*') (k : List Char) : rp (a ++ k) = a ++ rp k := by
  induction a with
  | nil => rfl
  | cons c r ih =>
    rw [List.cons_append, rp_cons_ne (h c List.mem_cons_self),
      ih (fun d hd => h d (List.mem_cons_of_mem _ hd)), List.cons_append]

theorem rp_star_ne {d : Char} (h : d ≠ '*') (r : List Char) : rp ('*' :: d :: r) = '*' :: d :: rp r := by
  rw [← rp_cons_ne h]
  unfold rp
  rw [replaceGo, if_neg]
  simp [List.isPrefixOf, Ne.symm h]

theorem rp_star_star (r : List Char) : rp ('*' :: '*' :: r) = '^' :: rp r := by
  unfold rp
  rw [replaceGo, if_pos (by simp [List.isPrefixOf])]
  simp [replaceGo]

/-! ## spacing the operators -/

theorem nu_repl : non_unary_op_repl.toList = [' ', '\\', '1', ' '] := by decide

theorem nu_cons_op {c : Char} (h : isNonUnaryOp c = true) (r : List Char) :
    nonUnarySub (c :: r) = ' ' :: c :: ' ' :: nonUnarySub r := by
  rw [nonUnarySub, if_pos h, nu_repl]
  simp [expandRepl]

theorem nu_cons_plain {c : Char} (h : isNonUnaryOp c = false) (r : List Char) :
    nonUnarySub (c :: r) = c :: nonUnarySub r := by
  rw [nonUnarySub, if_neg (by simp [h])]

theorem nu_atom {a : List Char} (h : ∀ c ∈ a, isNonUnaryOp c = false) (k : List Char) :
    nonUnarySub (a ++ k) = a ++ nonUnarySub k := by
  induction a with
  | nil => rfl
  | cons c r ih =>
    rw [List.cons_append, nu_cons_plain (h c List.mem_cons_self),
      ih (fun d hd => h d (List.mem_cons_of_mem _ hd)), List.cons_append]

/-! ## splitting on spaces -/

/-- the non-empty pieces of `s.split(" ")` -/
def words (s : List Char) : List (List Char) := (splitGo [' '] 0 s []).filter (fun t => !t.isEmpty)

theorem splitGo_plain {a : List Char} (h : ∀ c ∈ a, c ≠ ' ') (k cur : List Char) :
    splitGo [' '] 0 (a ++ k) cur = splitGo [' '] 0 k (a.reverse ++ cur) := by
  induction a generalizing cur with
  | nil => rfl
  | cons c r ih =>
    rw [List.cons_append, splitGo, if_neg, ih (fun d hd => h d (List.mem_cons_of_mem _ hd))]
    · simp
    · simp [List.isPrefixOf, Ne.symm (h c List.mem_cons_self)]

theorem splitGo_space (r cur : List Char) :
    splitGo [' '] 0 (' ' :: r) cur = cur.reverse :: splitGo [' '] 0 r [] := by
  rw [splitGo, if_pos (by simp [List.isPrefixOf])]
  rfl

theorem words_nil : words [] = [] := rfl

theorem words_space (r : List Char) : words (' ' :: r) = words r := by
  unfold words
  rw [splitGo_space]
  rfl

/-- a non-empty piece without spaces, followed by a space or the end of the string, is a word -/
theorem words_atom {a : List Char} (h : ∀ c ∈ a, c ≠ ' ') (hne : a ≠ []) {k : List Char}
    (hk : k = [] ∨ k.head? = some ' ') : words (a ++ k) = a :: words k := by
  unfold words
  rw [splitGo_plain h]
  have hf : (!a.isEmpty) = true := by simp [hne]
  rcases hk with hk | hk
  · subst hk
    simp [splitGo, hf]
  · cases k with
    | nil => simp at hk
    | cons d r =>
      simp only [List.head?_cons, Option.some.injEq] at hk
      subst hk
      rw [splitGo_space, splitGo_space]
      simp [hf]

/-! ## character classes -/

theorem char_eq_of_toNat {c d : Char} (h : c.toNat = d.toNat) : c = d :=
  Char.ext (UInt32.toNat_inj.1 h)

/-- the characters of the atoms and function names of a printed string -/
def tokChar (c : Char) : Bool :=
  let n := c.toNat
  (48 ≤ n && n ≤ 57) || (97 ≤ n && n ≤ 122) || n == 46 || n == 43 || n == 45 || n == 95 || n == 88

theorem tokChar_iff (c : Char) : tokChar c = true ↔
    (48 ≤ c.toNat ∧ c.toNat ≤ 57) ∨ (97 ≤ c.toNat ∧ c.toNat ≤ 122) ∨ c.toNat = 46 ∨ c.toNat = 43 ∨
      c.toNat = 45 ∨ c.toNat = 95 ∨ c.toNat = 88 := by
  simp [tokChar, or_assoc]

theorem tokChar_ne {c : Char} (h : tokChar c = true) (d : Char) (hd : tokChar d = false := by decide) :
    c ≠ d := by
  rintro rfl; rw [h] at hd; cases hd

theorem tokChar_ascii {c : Char} (h : tokChar c = true) : c.toNat < 128 := by
  rw [tokChar_iff] at h; omega

theorem tokChar_noop {c : Char} (h : tokChar c = true) : isNonUnaryOp c = false := by
  simp [isNonUnaryOp, tokChar_ne h '*', tokChar_ne h '/', tokChar_ne h '^', tokChar_ne h '(', tokChar_ne h ')']

/-! ## closed form of the printer -/

/-- the printed string as a character list; `pw` is the spelling of the power operator
(`**` as printed, `^` after the tokenizer's `replace`) -/
def render (pw : List Char) (consts : List String) : ETree → List Char
  | .bad => ['?']
  | .leaf n p => (leafStr consts n p).toList
  | .un n a =>
    match unName n with
    | some f => f.toList ++ '(' :: (render pw consts a ++ [')'])
    | none => ['?']
  | .bin n a b =>
    if n = ADDITION then render pw consts a ++ ' ' :: '+' :: ' ' :: render pw consts b
    else if n = SUBTRACTION then render pw consts a ++ ' ' :: '-' :: ' ' :: '(' :: (render pw consts b ++ [')'])
    else if n = MULTIPLICATION then
      '(' :: (render pw consts a ++ ')' :: '*' :: '(' :: (render pw consts b ++ [')']))
    else if n = DIVISION then
      '(' :: (render pw consts a ++ ')' :: '/' :: '(' :: (render pw consts b ++ [')']))
    else if n = POWER then
      '(' :: (render pw consts a ++ ')' :: (pw ++ '(' :: (render pw consts b ++ [')'])))
    else if n = SAFE_POWER then
      'a' :: 'b' :: 's' :: '(' :: (render pw consts a ++ ')' :: (pw ++ '(' :: (render pw consts b ++ [')'])))
    else ['?']

/-- the tokens before lower-casing, as character lists -/
def toksC (consts : List String) : ETree → List (List Char)
  | .bad => [['?']]
  | .leaf n p => [(leafStr consts n p).toList]
  | .un n a =>
    match unName n with
    | some f => f.toList :: ['('] :: (toksC consts a ++ [[')']])
    | none => [['?']]
  | .bin n a b =>
    if n = ADDITION then toksC consts a ++ ['+'] :: toksC consts b
    else if n = SUBTRACTION then toksC consts a ++ ['-'] :: ['('] :: (toksC consts b ++ [[')']])
    else if n = MULTIPLICATION then
      ['('] :: (toksC consts a ++ [')'] :: ['*'] :: ['('] :: (toksC consts b ++ [[')']]))
    else if n = DIVISION then
      ['('] :: (toksC consts a ++ [')'] :: ['/'] :: ['('] :: (toksC consts b ++ [[')']]))
    else if n = POWER then
      ['('] :: (toksC consts a ++ [')'] :: ['^'] :: ['('] :: (toksC consts b ++ [[')']]))
    else if n = SAFE_POWER then
      ['a', 'b', 's'] :: ['('] :: (toksC consts a ++ [')'] :: ['^'] :: ['('] :: (toksC consts b ++ [[')']]))
    else [['?']]

section equations
variable (pw : List Char) (consts : List String) (a b : ETree)

theorem render_un {n : Int} {f : String} (h : unName n = some f) :
    render pw consts (.un n a) = f.toList ++ '(' :: (render pw consts a ++ [')']) := by
  rw [render, h]
theorem render_add : render pw consts (.bin ADDITION a b) =
    render pw consts a ++ ' ' :: '+' :: ' ' :: render pw consts b := rfl
theorem render_sub : render pw consts (.bin SUBTRACTION a b) =
    render pw consts a ++ ' ' :: '-' :: ' ' :: '(' :: (render pw consts b ++ [')']) := rfl
theorem render_mul : render pw consts (.bin MULTIPLICATION a b) =
    '(' :: (render pw consts a ++ ')' :: '*' :: '(' :: (render pw consts b ++ [')'])) := rfl
theorem render_div : render pw consts (.bin DIVISION a b) =
    '(' :: (render pw consts a ++ ')' :: '/' :: '(' :: (render pw consts b ++ [')'])) := rfl
theorem render_pow : render pw consts (.bin POWER a b) =
    '(' :: (render pw consts a ++ ')' :: (pw ++ '(' :: (render pw consts b ++ [')']))) := rfl
theorem render_spow : render pw consts (.bin SAFE_POWER a b) =
    'a' :: 'b' :: 's' :: '(' :: (render pw consts a ++ ')' :: (pw ++ '(' :: (render pw consts b ++ [')']))) := rfl

theorem toksC_un {n : Int} {f : String} (h : unName n = some f) :
    toksC consts (.un n a) = f.toList :: ['('] :: (toksC consts a ++ [[')']]) := by
  rw [toksC, h]
theorem toksC_add : toksC consts (.bin ADDITION a b) = toksC consts a ++ ['+'] :: toksC consts b := rfl
theorem toksC_sub : toksC consts (.bin SUBTRACTION a b) =
    toksC consts a ++ ['-'] :: ['('] :: (toksC consts b ++ [[')']]) := rfl
theorem toksC_mul : toksC consts (.bin MULTIPLICATION a b) =
    ['('] :: (toksC consts a ++ [')'] :: ['*'] :: ['('] :: (toksC consts b ++ [[')']])) := rfl
theorem toksC_div : toksC consts (.bin DIVISION a b) =
    ['('] :: (toksC consts a ++ [')'] :: ['/'] :: ['('] :: (toksC consts b ++ [[')']])) := rfl
theorem toksC_pow : toksC consts (.bin POWER a b) =
    ['('] :: (toksC consts a ++ [')'] :: ['^'] :: ['('] :: (toksC consts b ++ [[')']])) := rfl
theorem toksC_spow : toksC consts (.bin SAFE_POWER a b) =
    ['a', 'b', 's'] :: ['('] :: (toksC consts a ++ [')'] :: ['^'] :: ['('] :: (toksC consts b ++ [[')']])) := rfl

theorem sympyToks_un {n : Int} {f : String} (h : unName n = some f) :
    sympyToks consts (.un n a) = [f, "("] ++ sympyToks consts a ++ [")"] := by
  rw [sympyToks, h]
theorem sympyToks_add : sympyToks consts (.bin ADDITION a b) =
    sympyToks consts a ++ ["+"] ++ sympyToks consts b := rfl
theorem sympyToks_sub : sympyToks consts (.bin SUBTRACTION a b) =
    sympyToks consts a ++ ["-", "("] ++ sympyToks consts b ++ [")"] := rfl
theorem sympyToks_mul : sympyToks consts (.bin MULTIPLICATION a b) =
    ["("] ++ sympyToks consts a ++ [")", "*", "("] ++ sympyToks consts b ++ [")"] := rfl
theorem sympyToks_div : sympyToks consts (.bin DIVISION a b) =
    ["("] ++ sympyToks consts a ++ [")", "/", "("] ++ sympyToks consts b ++ [")"] := rfl
theorem sympyToks_pow : sympyToks consts (.bin POWER a b) =
    ["("] ++ sympyToks consts a ++ [")", "^", "("] ++ sympyToks consts b ++ [")"] := rfl
theorem sympyToks_spow : sympyToks consts (.bin SAFE_POWER a b) =
    ["abs", "("] ++ sympyToks consts a ++ [")", "^", "("] ++ sympyToks consts b ++ [")"] := rfl

end equations

theorem binName_cases {n : Int} (h : (binName n).isSome = true) :
    n = ADDITION ∨ n = SUBTRACTION ∨ n = MULTIPLICATION ∨ n = DIVISION ∨ n = POWER ∨ n = SAFE_POWER := by
  unfold binName at h
  repeat' split at h
  all_goals first | (simp at h; done) | simp [*]

/-- induction over the trees of `printOK` -/
theorem printOK_induction {consts : List String} {motive : ETree → Prop}
    (leaf : ∀ n p, printOK consts (.leaf n p) = true → motive (.leaf n p))
    (un : ∀ n f a, unName n = some f → motive a → motive (.un n a))
    (add : ∀ a b, motive a → motive b → motive (.bin ADDITION a b))
    (sub : ∀ a b, motive a → motive b → motive (.bin SUBTRACTION a b))
    (mul : ∀ a b, motive a → motive b → motive (.bin MULTIPLICATION a b))
    (div : ∀ a b, motive a → motive b → motive (.bin DIVISION a b))
    (pow : ∀ a b, motive a → motive b → motive (.bin POWER a b))
    (spow : ∀ a b, motive a → motive b → motive (.bin SAFE_POWER a b)) :
    ∀ t, printOK consts t = true → motive t := by
  intro t
  induction t with
  | bad => intro h; simp [printOK] at h
  | leaf n p => exact leaf n p
  | un n a ih =>
    intro h
    simp only [printOK, Bool.and_eq_true, Option.isSome_iff_exists] at h
    obtain ⟨⟨f, hf⟩, ha⟩ := h
    exact un n f a hf (ih ha)
  | bin n a b iha ihb =>
    intro h
    simp only [printOK, Bool.and_eq_true] at h
    obtain ⟨⟨hn, ha⟩, hb⟩ := h
    rcases binName_cases hn with rfl | rfl | rfl | rfl | rfl | rfl
    · exact add a b (iha ha) (ihb hb)
    · exact sub a b (iha ha) (ihb hb)
    · exact mul a b (iha ha) (ihb hb)
    · exact div a b (iha ha) (ihb hb)
    · exact pow a b (iha ha) (ihb hb)
    · exact spow a b (iha ha) (ihb hb)

theorem unName_cases {n : Int} {f : String} (h : unName n = some f) :
    (n = SIN ∧ f = "sin") ∨ (n = COS ∧ f = "cos") ∨ (n = SINH ∧ f = "sinh") ∨ (n = COSH ∧ f = "cosh") ∨
    (n = EXPONENTIAL ∧ f = "exp") ∨ (n = LOGARITHM ∧ f = "log") ∨ (n = ABS ∧ f = "abs") ∨
    (n = SQRT ∧ f = "sqrt") := by
  unfold unName at h
  repeat' split at h
  all_goals first | (simp at h; done) | (simp only [Option.some.injEq] at h; subst h; simp [*])

/-- the printer on a `printOK` tree, as a character list -/
theorem sympyStr_toList {consts : List String} (t : ETree) (h : printOK consts t = true) :
    (sympyStr consts t).toList = render ['*', '*'] consts t := by
  refine printOK_induction (consts := consts) (motive := fun t => (sympyStr consts t).toList = render ['*', '*'] consts t)
    ?_ ?_ ?_ ?_ ?_ ?_ ?_ ?_ t h
  · intro n p _; rfl
  · intro n f a hf ih
    rw [render_un _ _ _ hf, ← ih]
    rcases unName_cases hf with ⟨rfl, rfl⟩ | ⟨rfl, rfl⟩ | ⟨rfl, rfl⟩ | ⟨rfl, rfl⟩ | ⟨rfl, rfl⟩ | ⟨rfl, rfl⟩ |
      ⟨rfl, rfl⟩ | ⟨rfl, rfl⟩
    all_goals
      simp only [sympyStr]
      first
        | rw [show SYMPY_PRINT_MAP.lookup SIN = some "sin({})" from rfl]
        | rw [show SYMPY_PRINT_MAP.lookup COS = some "cos({})" from rfl]
        | rw [show SYMPY_PRINT_MAP.lookup SINH = some "sinh({})" from rfl]
        | rw [show SYMPY_PRINT_MAP.lookup COSH = some "cosh({})" from rfl]
        | rw [show SYMPY_PRINT_MAP.lookup EXPONENTIAL = some "exp({})" from rfl]
        | rw [show SYMPY_PRINT_MAP.lookup LOGARITHM = some "log({})" from rfl]
        | rw [show SYMPY_PRINT_MAP.lookup ABS = some "abs({})" from rfl]
        | rw [show SYMPY_PRINT_MAP.lookup SQRT = some "sqrt({})" from rfl]
      simp [pyFormat, pyFormatAux]
      simp [okOr, Except.map, pure, Except.pure]
  all_goals
    intro a b iha ihb
    first
      | rw [render_add] | rw [render_sub] | rw [render_mul] | rw [render_div] | rw [render_pow]
      | rw [render_spow]
    rw [← iha, ← ihb]
    simp only [sympyStr]
    first
      | rw [show SYMPY_PRINT_MAP.lookup ADDITION = some "{} + {}" from rfl]
      | rw [show SYMPY_PRINT_MAP.lookup SUBTRACTION = some "{} - ({})" from rfl]
      | rw [show SYMPY_PRINT_MAP.lookup MULTIPLICATION = some "({})*({})" from rfl]
      | rw [show SYMPY_PRINT_MAP.lookup DIVISION = some "({})/({})" from rfl]
      | rw [show SYMPY_PRINT_MAP.lookup POWER = some "({})**({})" from rfl]
      | rw [show SYMPY_PRINT_MAP.lookup SAFE_POWER = some "abs({})**({})" from rfl]
    simp [pyFormat, pyFormatAux]
    simp [okOr, Except.map, pure, Except.pure]

/-! ## atoms -/

/-- the characters of a printed terminal -/
def leafChar (c : Char) : Bool :=
  isReDigit c || c == '.' || c == 'e' || c == '+' || c == '-' || c == '_' || c == 'X'

theorem leafChar_cases {c : Char} (h : leafChar c = true) :
    isReDigit c = true ∨ c = '.' ∨ c = 'e' ∨ c = '+' ∨ c = '-' ∨ c = '_' ∨ c = 'X' := by
  simpa [leafChar, or_assoc] using h

theorem leafChar_tokChar {c : Char} (h : leafChar c = true) : tokChar c = true := by
  rcases leafChar_cases h with h | rfl | rfl | rfl | rfl | rfl | rfl
  · rw [tokChar_iff]; exact Or.inl ((isReDigit_iff' c).1 h)
  all_goals decide

theorem leafChar_ne {c : Char} (h : leafChar c = true) (d : Char) (hd : leafChar d = false := by decide) :
    c ≠ d := by
  rintro rfl; rw [h] at hd; cases hd

theorem leafChar_lower {c : Char} (h : leafChar c = true) (hX : c ≠ 'X') : c.toLower = c := by
  rcases leafChar_cases h with h | rfl | rfl | rfl | rfl | rfl | rfl
  · exact toLower_of_not_upper (Or.inl (by have := (isReDigit_iff' c).1 h; omega))
  all_goals first | rfl | exact absurd rfl hX

theorem lowerAscii_id {a : List Char} (h : ∀ c ∈ a, leafChar c = true ∧ c ≠ 'X') : lowerAscii a = a := by
  unfold lowerAscii
  induction a with
  | nil => rfl
  | cons c r ih =>
    rw [List.map_cons, ih (fun d hd => h d (List.mem_cons_of_mem _ hd)),
      leafChar_lower (h c List.mem_cons_self).1 (h c List.mem_cons_self).2]

theorem isReDigit_leafChar {c : Char} (h : isReDigit c = true) : leafChar c = true ∧ c ≠ 'X' ∧ c ≠ '-' := by
  refine ⟨by simp [leafChar, h], ?_, ?_⟩ <;> (rintro rfl; exact absurd h (by decide))

theorem toDigits_isReDigit (m : Nat) : ∀ c ∈ Nat.toDigits 10 m, isReDigit c = true := by
  intro c hc
  have h := Nat.isDigit_of_mem_toDigits (by decide) (by decide) hc
  rw [isReDigit_iff']
  simp only [Char.isDigit, Bool.and_eq_true, decide_eq_true_eq, UInt32.le_iff_toNat_le, ge_iff_le] at h
  exact h

theorem toString_nonneg_toList' {p : Int} (h0 : 0 ≤ p) : (toString p).toList = Nat.toDigits 10 p.toNat := by
  rw [Int.toString_eq_repr, Int.repr_eq_if, if_pos h0, Nat.toList_repr]

theorem toString_neg_toList' {p : Int} (h0 : p < 0) :
    (toString p).toList = '-' :: Nat.toDigits 10 (-p).toNat := by
  rw [Int.toString_eq_repr, Int.repr_eq_if, if_neg (by omega), String.toList_append, Nat.toList_repr]
  rfl

/-- the characters of Python's `repr` of a finite float -/
def constChar (c : Char) : Bool := isReDigit c || c == '.' || c == 'e' || c == '+' || c == '-'

end Tkz

/-- character-level condition on constant strings, true of Python's `repr` of a finite float
(`-2.5`, `1e-05`, `1e+20`, `0.1`): non-empty, every character in `0123456789.e+-`, every `-` is
followed by a digit -/
def constCharsOK (c : String) : Bool :=
  !c.toList.isEmpty && c.toList.all Tkz.constChar && Tkz.negOK c.toList

example : ["-2.5", "1e-05", "1e+20", "0.1"].all constCharsOK = true := by decide

namespace Tkz

theorem constChar_leafChar {c : Char} (h : constChar c = true) : leafChar c = true ∧ c ≠ 'X' := by
  have h' : isReDigit c = true ∨ c = '.' ∨ c = 'e' ∨ c = '+' ∨ c = '-' := by
    simpa [constChar, or_assoc] using h
  rcases h' with h' | rfl | rfl | rfl | rfl
  · exact ⟨(isReDigit_leafChar h').1, (isReDigit_leafChar h').2.1⟩
  all_goals decide

/-- what the tokenizer needs to know about a printed terminal -/
structure LeafSpec (a : List Char) (tok : String) : Prop where
  ne : a ≠ []
  chars : ∀ c ∈ a, leafChar c = true
  neg : negOK a = true
  lower : String.ofList (lowerAscii a) = tok

theorem leaf_spec {consts : List String} {n p : Int} (h : printOK consts (.leaf n p) = true)
    (hc : ∀ c ∈ consts, constCharsOK c = true) :
    LeafSpec (leafStr consts n p).toList (leafTok consts n p) := by
  unfold printOK at h
  by_cases hV : n = VARIABLE
  · subst hV
    simp only [if_true, Bool.and_eq_true, decide_eq_true_eq] at h
    have hs : (leafStr consts VARIABLE p).toList = 'X' :: '_' :: Nat.toDigits 10 p.toNat := by
      simp only [leafStr, if_true, ← toString_nonneg_toList' h.1]
      simp [pyFormat, pyFormatAux, VARIABLE_TEMPLATE]
      simp [okOr, Except.map, pure, Except.pure]
    have hd := toDigits_isReDigit p.toNat
    rw [hs]
    refine ⟨by simp, ?_, ?_, ?_⟩
    · intro c hc'
      simp only [List.mem_cons] at hc'
      rcases hc' with rfl | rfl | hc'
      · decide
      · decide
      · exact (isReDigit_leafChar (hd c hc')).1
    · apply negOK_of_no_minus
      intro c hc'
      simp only [List.mem_cons] at hc'
      rcases hc' with rfl | rfl | hc'
      · decide
      · decide
      · exact (isReDigit_leafChar (hd c hc')).2.2
    · have hl : lowerAscii ('X' :: '_' :: Nat.toDigits 10 p.toNat) = 'x' :: '_' :: Nat.toDigits 10 p.toNat := by
        show 'X'.toLower :: '_'.toLower :: lowerAscii (Nat.toDigits 10 p.toNat) = _
        rw [lowerAscii_id (fun c hc' => ⟨(isReDigit_leafChar (hd c hc')).1, (isReDigit_leafChar (hd c hc')).2.1⟩)]
        rfl
      rw [hl, ← String.toList_inj, String.toList_ofList]
      simp only [leafTok, if_true, String.toList_append, toString_nonneg_toList' h.1]
      rfl
  · rw [if_neg hV] at h
    by_cases hC : n = CONSTANT
    · subst hC
      simp only [if_true, Bool.and_eq_true, decide_eq_true_eq] at h
      obtain ⟨h0, h1⟩ := h
      cases hg : consts[p.toNat]? with
      | none => rw [hg] at h1; simp at h1
      | some c =>
        have hlt : p.toNat < consts.length := by
          rcases Nat.lt_or_ge p.toNat consts.length with h' | h'
          · exact h'
          · rw [List.getElem?_eq_none h'] at hg; cases hg
        have hmem : c ∈ consts := List.mem_of_getElem? hg
        have hget : pyGet consts p = .ok c := by
          simp only [pyGet, pyIdx_of_lt h0 hlt, hg]; rfl
        have hnv : constHasNoValue consts p = false := by
          simp only [constHasNoValue, Bool.or_eq_false_iff, beq_eq_false_iff_ne, ne_eq, decide_eq_false_iff_not]
          omega
        have hs : leafStr consts CONSTANT p = c := by
          simp only [leafStr, if_neg hV, if_true, hnv, hget, okOr]; simp
        have ht : leafTok consts CONSTANT p = c := by
          simp only [leafTok, if_neg hV, if_true, hnv, hget, okOr]; simp
        have hcc := hc c hmem
        simp only [constCharsOK, Bool.and_eq_true, List.all_eq_true, Bool.not_eq_true',
          List.isEmpty_eq_false_iff] at hcc
        rw [hs, ht]
        refine ⟨hcc.1.1, fun d hd => (constChar_leafChar (hcc.1.2 d hd)).1, hcc.2, ?_⟩
        rw [lowerAscii_id (fun d hd => constChar_leafChar (hcc.1.2 d hd)), String.ofList_toList]
    · rw [if_neg hC] at h
      by_cases hI : n = INTEGER
      · subst hI
        have ht : leafTok consts INTEGER p = toString p := by
          simp only [leafTok, if_neg hV, if_neg hC, if_true]
        have hs : leafStr consts INTEGER p = toString p := by
          simp only [leafStr, if_neg hV, if_neg hC, if_true]
        rw [hs, ht]
        have key : (∀ c ∈ (toString p).toList, leafChar c = true ∧ c ≠ 'X') ∧ negOK (toString p).toList = true ∧
            (toString p).toList ≠ [] := by
          rcases Int.lt_or_le p 0 with hp | hp
          · rw [toString_neg_toList' hp]
            have hd := toDigits_isReDigit (-p).toNat
            refine ⟨?_, ?_, by simp⟩
            · intro c hc'
              simp only [List.mem_cons] at hc'
              rcases hc' with rfl | hc'
              · decide
              · exact ⟨(isReDigit_leafChar (hd c hc')).1, (isReDigit_leafChar (hd c hc')).2.1⟩
            · cases hds : Nat.toDigits 10 (-p).toNat with
              | nil => exact absurd hds Nat.toDigits_ne_nil
              | cons d r =>
                rw [hds] at hd
                simp only [negOK, List.headD_cons, hd d List.mem_cons_self, Bool.or_true, Bool.true_and]
                have := negOK_of_no_minus (a := d :: r) (fun c hc' => (isReDigit_leafChar (hd c hc')).2.2)
                simpa [negOK] using this
          · rw [toString_nonneg_toList' hp]
            have hd := toDigits_isReDigit p.toNat
            exact ⟨fun c hc' => ⟨(isReDigit_leafChar (hd c hc')).1, (isReDigit_leafChar (hd c hc')).2.1⟩,
              negOK_of_no_minus (fun c hc' => (isReDigit_leafChar (hd c hc')).2.2), Nat.toDigits_ne_nil⟩
        refine ⟨key.2.2, fun c hc' => (key.1 c hc').1, key.2.1, ?_⟩
        rw [lowerAscii_id key.1, String.ofList_toList]
      · rw [if_neg hI] at h; cases h

/-- what the tokenizer needs to know about a function name -/
structure NameSpec (f : String) : Prop where
  ne : f.toList ≠ []
  chars : ∀ c ∈ f.toList, tokChar c = true
  adj : adjOK (f.toList ++ ['(']) = true
  lower : String.ofList (lowerAscii f.toList) = f

theorem name_spec {n : Int} {f : String} (h : unName n = some f) : NameSpec f := by
  rcases unName_cases h with ⟨_, rfl⟩ | ⟨_, rfl⟩ | ⟨_, rfl⟩ | ⟨_, rfl⟩ | ⟨_, rfl⟩ | ⟨_, rfl⟩ | ⟨_, rfl⟩ | ⟨_, rfl⟩
  all_goals exact ⟨by decide, by decide, by decide, by decide⟩

/-! ## adjacent pairs of the printed string -/

theorem adjN (c : Char) {r : List Char} (hr : adjOK r = true) (h : neutral c = true := by decide) :
    adjOK (c :: r) = true := adjOK_cons_neutral h hr

theorem adjOK_glue {a : List Char} {c : Char} {k : List Char} (h1 : adjOK (a ++ [c]) = true)
    (h2 : adjOK (c :: k) = true) : adjOK (a ++ c :: k) = true := by
  induction a with
  | nil => exact h2
  | cons x r ih =>
    have ihr := ih (adjOK_tail h1)
    cases r with
    | nil =>
      rw [List.cons_append, List.nil_append, adjOK_cons_cons] at h1 ⊢
      simp only [Bool.and_eq_true] at h1
      rw [h1.1, h2]; rfl
    | cons y r =>
      rw [List.cons_append, List.cons_append, adjOK_cons_cons] at h1 ⊢
      simp only [Bool.and_eq_true] at h1
      rw [h1.1]; exact ihr

theorem adjOK_rparen {k : List Char} (hk : adjOK k = true) (hk2 : k.head? ≠ some '(') :
    adjOK (')' :: k) = true := by
  cases k with
  | nil => rfl
  | cons d r =>
    rw [adjOK_cons_cons, hk]
    have : d ≠ '(' := by simpa using hk2
    simp [pairOK, this]

theorem adjOK_pw {pw : List Char} (hpw : pw = ['*', '*'] ∨ pw = ['^']) {r : List Char}
    (hr : adjOK r = true) : adjOK (')' :: (pw ++ '(' :: r)) = true := by
  rcases hpw with rfl | rfl
  · exact adjOK_rparen (adjN '*' (adjN '*' (adjN '(' hr))) (by simp)
  · exact adjOK_rparen (adjN '^' (adjN '(' hr)) (by simp)

theorem adjOK_render {pw : List Char} (hpw : pw = ['*', '*'] ∨ pw = ['^']) {consts : List String}
    (hc : ∀ c ∈ consts, constCharsOK c = true) (t : ETree) (h : printOK consts t = true) :
    ∀ k, adjOK k = true → k.head? ≠ some '(' → adjOK (render pw consts t ++ k) = true := by
  refine printOK_induction (consts := consts)
    (motive := fun t => ∀ k, adjOK k = true → k.head? ≠ some '(' → adjOK (render pw consts t ++ k) = true)
    ?_ ?_ ?_ ?_ ?_ ?_ ?_ ?_ t h
  · intro n p hp k hk _
    have sp := leaf_spec hp hc
    exact adjOK_atom (fun c hc' => ⟨leafChar_ne (sp.chars c hc') ')', leafChar_ne (sp.chars c hc') 'o',
      leafChar_ne (sp.chars c hc') 'n'⟩) sp.neg hk
  · intro n f a hf ih k hk hk2
    rw [render_un _ _ _ hf]
    simp only [List.append_assoc, List.cons_append, List.nil_append]
    exact adjOK_glue (name_spec hf).adj (adjN '(' (ih _ (adjOK_rparen hk hk2) (by simp)))
  · intro a b iha ihb k hk hk2
    rw [render_add]
    simp only [List.append_assoc, List.cons_append]
    exact iha _ (adjN ' ' (adjN '+' (adjN ' ' (ihb k hk hk2)))) (by simp)
  · intro a b iha ihb k hk hk2
    rw [render_sub]
    simp only [List.append_assoc, List.cons_append, List.nil_append]
    refine iha _ (adjN ' ' ?_) (by simp)
    rw [adjOK_cons_cons, adjN ' ' (adjN '(' (ihb _ (adjOK_rparen hk hk2) (by simp)))]
    decide
  · intro a b iha ihb k hk hk2
    rw [render_mul]
    simp only [List.append_assoc, List.cons_append, List.nil_append]
    exact adjN '(' (iha _ (adjOK_rparen (adjN '*' (adjN '(' (ihb _ (adjOK_rparen hk hk2) (by simp)))) (by simp))
      (by simp))
  · intro a b iha ihb k hk hk2
    rw [render_div]
    simp only [List.append_assoc, List.cons_append, List.nil_append]
    exact adjN '(' (iha _ (adjOK_rparen (adjN '/' (adjN '(' (ihb _ (adjOK_rparen hk hk2) (by simp)))) (by simp))
      (by simp))
  · intro a b iha ihb k hk hk2
    rw [render_pow]
    simp only [List.append_assoc, List.cons_append, List.nil_append]
    exact adjN '(' (iha _ (adjOK_pw hpw (ihb _ (adjOK_rparen hk hk2) (by simp))) (by simp))
  · intro a b iha ihb k hk hk2
    rw [render_spow]
    simp only [List.append_assoc, List.cons_append, List.nil_append]
    exact adjN 'a' (adjN 'b' (adjN 's' (adjN '('
      (iha _ (adjOK_pw hpw (ihb _ (adjOK_rparen hk hk2) (by simp))) (by simp)))))

/-! ## the `-N^` rewriting (`negative_base_pattern`) is the identity on printed strings

A match needs `-`, a number, optional blanks and then `^`, so the character before that `^` is a digit, `.` or
a blank; in a printed string every `^` is immediately preceded by `)`. -/

/-- every `^` (except possibly the first character) is immediately preceded by `)` -/
def caretOK : List Char → Bool
  | [] => true
  | [_] => true
  | c :: d :: r => (d != '^' || c == ')') && caretOK (d :: r)

theorem caretOK_cons_cons (c d : Char) (r : List Char) :
    caretOK (c :: d :: r) = ((d != '^' || c == ')') && caretOK (d :: r)) := rfl

theorem caretOK_tail {c : Char} {r : List Char} (h : caretOK (c :: r) = true) : caretOK r = true := by
  cases r with
  | nil => rfl
  | cons d r => rw [caretOK_cons_cons, Bool.and_eq_true] at h; exact h.2

/-- `caretOK`, and the string does not start with `^` -/
def CK (k : List Char) : Prop := caretOK k = true ∧ k.head? ≠ some '^'

theorem CK_nil : CK [] := ⟨rfl, by simp⟩

theorem CK_cons {c : Char} (hc : c ≠ '^' := by decide) {r : List Char} (h : CK r) : CK (c :: r) := by
  refine ⟨?_, by simpa using hc⟩
  cases r with
  | nil => rfl
  | cons d r =>
    have hd : d ≠ '^' := by simpa using h.2
    rw [caretOK_cons_cons, h.1]
    simp [hd]

theorem CK_append {a k : List Char} (ha : ∀ c ∈ a, c ≠ '^') (h : CK k) : CK (a ++ k) := by
  induction a with
  | nil => exact h
  | cons c r ih =>
    exact CK_cons (ha c List.mem_cons_self) (ih (fun d hd => ha d (List.mem_cons_of_mem _ hd)))

theorem CK_pow {r : List Char} (h : CK r) : CK (')' :: '^' :: '(' :: r) := by
  refine ⟨?_, by simp⟩
  rw [caretOK_cons_cons, caretOK_cons_cons, (CK_cons (c := '(') (by decide) h).1]
  decide

theorem CK_render {consts : List String} (hc : ∀ c ∈ consts, constCharsOK c = true) (t : ETree)
    (h : printOK consts t = true) : ∀ k, CK k → CK (render ['^'] consts t ++ k) := by
  refine printOK_induction (consts := consts)
    (motive := fun t => ∀ k, CK k → CK (render ['^'] consts t ++ k)) ?_ ?_ ?_ ?_ ?_ ?_ ?_ ?_ t h
  · intro n p hp k hk
    exact CK_append (fun c hc' => leafChar_ne ((leaf_spec hp hc).chars c hc') '^') hk
  · intro n f a hf ih k hk
    rw [render_un _ _ _ hf]
    simp only [List.append_assoc, List.cons_append, List.nil_append]
    exact CK_append (fun c hc' => tokChar_ne ((name_spec hf).chars c hc') '^')
      (CK_cons (by decide) (ih _ (CK_cons (by decide) hk)))
  · intro a b iha ihb k hk
    rw [render_add]
    simp only [List.append_assoc, List.cons_append]
    exact iha _ (CK_cons (by decide) (CK_cons (by decide) (CK_cons (by decide) (ihb k hk))))
  · intro a b iha ihb k hk
    rw [render_sub]
    simp only [List.append_assoc, List.cons_append, List.nil_append]
    exact iha _ (CK_cons (by decide) (CK_cons (by decide) (CK_cons (by decide) (CK_cons (by decide)
      (ihb _ (CK_cons (by decide) hk))))))
  · intro a b iha ihb k hk
    rw [render_mul]
    simp only [List.append_assoc, List.cons_append, List.nil_append]
    exact CK_cons (by decide) (iha _ (CK_cons (by decide) (CK_cons (by decide) (CK_cons (by decide)
      (ihb _ (CK_cons (by decide) hk))))))
  · intro a b iha ihb k hk
    rw [render_div]
    simp only [List.append_assoc, List.cons_append, List.nil_append]
    exact CK_cons (by decide) (iha _ (CK_cons (by decide) (CK_cons (by decide) (CK_cons (by decide)
      (ihb _ (CK_cons (by decide) hk))))))
  · intro a b iha ihb k hk
    rw [render_pow]
    simp only [List.append_assoc, List.cons_append, List.nil_append]
    exact CK_cons (by decide) (iha _ (CK_pow (ihb _ (CK_cons (by decide) hk))))
  · intro a b iha ihb k hk
    rw [render_spow]
    simp only [List.append_assoc, List.cons_append, List.nil_append]
    exact CK_cons (by decide) (CK_cons (by decide) (CK_cons (by decide) (CK_cons (by decide)
      (iha _ (CK_pow (ihb _ (CK_cons (by decide) hk)))))))

/-- no `)` among the characters -/
def NP (a : List Char) : Prop := ∀ c ∈ a, c ≠ ')'

theorem NP_nil : NP [] := by intro c hc; cases hc

theorem NP_cons {c : Char} {a : List Char} (hc : c ≠ ')') (ha : NP a) : NP (c :: a) := by
  intro d hd
  rcases List.mem_cons.mp hd with rfl | hd
  · exact hc
  · exact ha d hd

theorem NP_append {a b : List Char} (ha : NP a) (hb : NP b) : NP (a ++ b) := by
  intro d hd
  rcases List.mem_append.mp hd with hd | hd
  · exact ha d hd
  · exact hb d hd

/-- a `^` preceded by a non-empty run without `)` violates `caretOK` -/
theorem caretOK_contra {a : List Char} (hne : a ≠ []) (ha : NP a) (rest : List Char) :
    caretOK (a ++ '^' :: rest) = false := by
  induction a with
  | nil => exact absurd rfl hne
  | cons c r ih =>
    cases r with
    | nil =>
      have hc : c ≠ ')' := ha c List.mem_cons_self
      rw [List.cons_append, List.nil_append, caretOK_cons_cons]
      simp [hc]
    | cons d r =>
      have := ih (by simp) (fun x hx => ha x (List.mem_cons_of_mem _ hx))
      rw [List.cons_append] at this
      rw [List.cons_append, List.cons_append, caretOK_cons_cons, this, Bool.and_false]

theorem spanDigits'_spec (s : List Char) :
    ∃ a, s = a ++ (spanDigits' s).2 ∧ a.length = (spanDigits' s).1 ∧ NP a := by
  induction s with
  | nil => exact ⟨[], rfl, rfl, NP_nil⟩
  | cons c r ih =>
    obtain ⟨a, h1, h2, h3⟩ := ih
    by_cases hc : isReDigit c = true
    · have e : spanDigits' (c :: r) = ((spanDigits' r).1 + 1, (spanDigits' r).2) := by
        simp [spanDigits', hc]
      refine ⟨c :: a, ?_, ?_, NP_cons ?_ h3⟩
      · rw [e]; simp only [List.cons_append]; rw [← h1]
      · rw [e]; simp [h2]
      · rintro rfl; simp [isReDigit] at hc
    · have e : spanDigits' (c :: r) = (0, c :: r) := by simp [spanDigits', hc]
      exact ⟨[], by rw [e]; rfl, by rw [e]; rfl, NP_nil⟩

theorem skipExponent_spec (r : List Char) : ∃ a, r = a ++ skipExponent r ∧ NP a := by
  cases r with
  | nil => exact ⟨[], rfl, NP_nil⟩
  | cons c r0 =>
    by_cases hc : (c == 'e' || c == 'E') = true
    · have hcp : c ≠ ')' := by
        rintro rfl; simp at hc
      -- the optional sign
      obtain ⟨sg, r', hr0, hsg, hr'⟩ : ∃ sg r', r0 = sg ++ r' ∧ NP sg ∧
          skipExponent (c :: r0) = if (spanDigits' r').1 > 0 then (spanDigits' r').2 else c :: r0 := by
        cases r0 with
        | nil => exact ⟨[], [], rfl, NP_nil, by simp [skipExponent, hc]⟩
        | cons d t =>
          by_cases hp : d = '+'
          · subst hp
            exact ⟨['+'], t, rfl, NP_cons (by decide) NP_nil, by simp [skipExponent, hc]⟩
          · by_cases hm : d = '-'
            · subst hm
              exact ⟨['-'], t, rfl, NP_cons (by decide) NP_nil, by simp [skipExponent, hc]⟩
            · refine ⟨[], d :: t, rfl, NP_nil, ?_⟩
              simp only [skipExponent, hc, ↓reduceIte]
              split
              · next heq => simp only [List.cons.injEq] at heq; exact absurd heq.1 hp
              · next heq => simp only [List.cons.injEq] at heq; exact absurd heq.1 hm
              · rfl
      obtain ⟨a, h1, h2, h3⟩ := spanDigits'_spec r'
      rw [hr']
      split
      · exact ⟨c :: (sg ++ a), by rw [hr0, List.cons_append, List.append_assoc, ← h1],
          NP_cons hcp (NP_append hsg h3)⟩
      · exact ⟨[], rfl, NP_nil⟩
    · have e : skipExponent (c :: r0) = c :: r0 := by simp [skipExponent, hc]
      exact ⟨[], by rw [e]; rfl, NP_nil⟩

theorem tail_spec {r rest : List Char}
    (h : (skipExponent r).dropWhile isReSpace = '^' :: rest) : ∃ b, r = b ++ '^' :: rest ∧ NP b := by
  obtain ⟨a, h1, h2⟩ := skipExponent_spec r
  refine ⟨a ++ (skipExponent r).takeWhile isReSpace, ?_, NP_append h2 ?_⟩
  · rw [List.append_assoc, ← h, List.takeWhile_append_dropWhile]
    exact h1
  · intro c hc
    have := List.all_eq_true.mp (List.all_takeWhile (p := isReSpace) (l := skipExponent r)) c hc
    rintro rfl
    simp [isReSpace] at this

theorem matchNumberCaret_spec {s : List Char} {n : Nat} (h : matchNumberCaret s = some n) :
    ∃ a rest, s = a ++ '^' :: rest ∧ a ≠ [] ∧ NP a := by
  unfold matchNumberCaret at h
  obtain ⟨a1, h1, h2, h3⟩ := spanDigits'_spec s
  cases hsd : spanDigits' s with
  | mk n1 r1 =>
    rw [hsd] at h1 h2
    simp only [hsd] at h
    by_cases hn : n1 > 0
    · have ha1 : a1 ≠ [] := by
        intro e; rw [e] at h2; simp at h2; omega
      simp only [hn, ↓reduceIte] at h
      split at h
      · cases h
      · next r hr =>
        split at hr
        · next r2 =>
          simp only [Option.some.injEq] at hr
          obtain ⟨a2, g1, _, g3⟩ := spanDigits'_spec r2
          split at h
          · next rest hd =>
            rw [← hr] at hd
            obtain ⟨b, hb1, hb2⟩ := tail_spec hd
            refine ⟨a1 ++ '.' :: (a2 ++ b), rest, ?_, by simp [ha1],
              NP_append h3 (NP_cons (by decide) (NP_append g3 hb2))⟩
            simp only at h1
            rw [h1, g1, hb1]
            simp
          · cases h
        · simp only [Option.some.injEq] at hr
          split at h
          · next rest hd =>
            rw [← hr] at hd
            obtain ⟨b, hb1, hb2⟩ := tail_spec hd
            refine ⟨a1 ++ b, rest, ?_, by simp [ha1], NP_append h3 hb2⟩
            simp only at h1
            rw [h1, hb1]
            simp
          · cases h
    · simp only [hn, ↓reduceIte] at h
      split at h
      · cases h
      · next r hr =>
        split at hr
        · next r2 =>
          obtain ⟨a2, g1, _, g3⟩ := spanDigits'_spec r2
          cases hsd2 : spanDigits' r2 with
          | mk n2 r3 =>
            rw [hsd2] at g1
            simp only [hsd2] at hr
            split at hr
            · simp only [Option.some.injEq] at hr
              split at h
              · next rest hd =>
                rw [← hr] at hd
                obtain ⟨b, hb1, hb2⟩ := tail_spec hd
                refine ⟨'.' :: (a2 ++ b), rest, ?_, by simp,
                  NP_cons (by decide) (NP_append g3 hb2)⟩
                simp only at g1
                rw [g1, hb1]
                simp
              · cases h
            · cases hr
        · cases hr

theorem negativeBaseGo_id {s : List Char} (h : caretOK s = true) :
    ∀ p2 p1, negativeBaseGo 0 p2 p1 s = s := by
  induction s with
  | nil => intro p2 p1; rfl
  | cons c r ih =>
    intro p2 p1
    have hr := caretOK_tail h
    have hm : matchNumberCaret r = none := by
      cases hm : matchNumberCaret r with
      | none => rfl
      | some n =>
        obtain ⟨a, rest, e, hne, hnp⟩ := matchNumberCaret_spec hm
        rw [e, caretOK_contra hne hnp] at hr
        cases hr
    simp only [negativeBaseGo, hm]
    split <;> rw [ih hr]

theorem negativeBaseSub_id {s : List Char} (h : caretOK s = true) : negativeBaseSub s = s :=
  negativeBaseGo_id h none none

/-! ## the characters of the printed string -/

/-- the characters of a printed string -/
def okChar (c : Char) : Bool :=
  tokChar c || c == ' ' || c == '(' || c == ')' || c == '*' || c == '/' || c == '^'

theorem okChar_spec {c : Char} (h : okChar c = true) : c.toNat < 128 ∧ c ≠ 'I' := by
  have h' : tokChar c = true ∨ c = ' ' ∨ c = '(' ∨ c = ')' ∨ c = '*' ∨ c = '/' ∨ c = '^' := by
    simpa [okChar, or_assoc] using h
  rcases h' with h' | rfl | rfl | rfl | rfl | rfl | rfl
  · exact ⟨tokChar_ascii h', tokChar_ne h' 'I'⟩
  all_goals decide

theorem okChar_render {pw : List Char} (hpw : pw = ['*', '*'] ∨ pw = ['^']) {consts : List String}
    (hc : ∀ c ∈ consts, constCharsOK c = true) (t : ETree) (h : printOK consts t = true) :
    (render pw consts t).all okChar = true := by
  have hpw' : pw.all okChar = true := by rcases hpw with rfl | rfl <;> decide
  refine printOK_induction (consts := consts) (motive := fun t => (render pw consts t).all okChar = true)
    ?_ ?_ ?_ ?_ ?_ ?_ ?_ ?_ t h
  · intro n p hp
    have sp := leaf_spec hp hc
    rw [List.all_eq_true]
    intro c hc'
    simp [okChar, leafChar_tokChar (sp.chars c hc')]
  · intro n f a hf ih
    rw [render_un _ _ _ hf]
    have hf' : f.toList.all okChar = true := by
      rw [List.all_eq_true]
      intro c hc'
      simp [okChar, (name_spec hf).chars c hc']
    simp only [List.all_append, List.all_cons, List.all_nil, ih, hf', Bool.and_true, Bool.true_and]
    decide
  all_goals
    intro a b iha ihb
    first
      | rw [render_add] | rw [render_sub] | rw [render_mul] | rw [render_div] | rw [render_pow]
      | rw [render_spow]
    simp only [List.all_append, List.all_cons, List.all_nil, iha, ihb, hpw', Bool.and_true, Bool.true_and]
    decide

/-! ## `**` to `^` on the printed string -/

theorem rp_render {consts : List String} (hc : ∀ c ∈ consts, constCharsOK c = true) (t : ETree)
    (h : printOK consts t = true) :
    ∀ k, rp (render ['*', '*'] consts t ++ k) = render ['^'] consts t ++ rp k := by
  refine printOK_induction (consts := consts)
    (motive := fun t => ∀ k, rp (render ['*', '*'] consts t ++ k) = render ['^'] consts t ++ rp k)
    ?_ ?_ ?_ ?_ ?_ ?_ ?_ ?_ t h
  · intro n p hp k
    have sp := leaf_spec hp hc
    exact rp_atom (fun c hc' => leafChar_ne (sp.chars c hc') '*') k
  · intro n f a hf ih k
    rw [render_un _ _ _ hf, render_un _ _ _ hf]
    simp only [List.append_assoc, List.cons_append, List.nil_append]
    rw [rp_atom (fun c hc' => tokChar_ne ((name_spec hf).chars c hc') '*'), rp_cons_ne (by decide), ih,
      rp_cons_ne (by decide)]
  · intro a b iha ihb k
    rw [render_add, render_add]
    simp only [List.append_assoc, List.cons_append]
    rw [iha, rp_cons_ne (by decide), rp_cons_ne (by decide), rp_cons_ne (by decide), ihb]
  · intro a b iha ihb k
    rw [render_sub, render_sub]
    simp only [List.append_assoc, List.cons_append, List.nil_append]
    rw [iha, rp_cons_ne (by decide), rp_cons_ne (by decide), rp_cons_ne (by decide), rp_cons_ne (by decide),
      ihb, rp_cons_ne (by decide)]
  · intro a b iha ihb k
    rw [render_mul, render_mul]
    simp only [List.append_assoc, List.cons_append, List.nil_append]
    rw [rp_cons_ne (by decide), iha, rp_cons_ne (by decide), rp_star_ne (by decide), ihb,
      rp_cons_ne (by decide)]
  · intro a b iha ihb k
    rw [render_div, render_div]
    simp only [List.append_assoc, List.cons_append, List.nil_append]
    rw [rp_cons_ne (by decide), iha, rp_cons_ne (by decide), rp_cons_ne (by decide), rp_cons_ne (by decide), ihb,
      rp_cons_ne (by decide)]
  · intro a b iha ihb k
    rw [render_pow, render_pow]
    simp only [List.append_assoc, List.cons_append, List.nil_append]
    rw [rp_cons_ne (by decide), iha, rp_cons_ne (by decide), rp_star_star, rp_cons_ne (by decide), ihb,
      rp_cons_ne (by decide)]
  · intro a b iha ihb k
    rw [render_spow, render_spow]
    simp only [List.append_assoc, List.cons_append, List.nil_append]
    rw [rp_cons_ne (by decide), rp_cons_ne (by decide), rp_cons_ne (by decide), rp_cons_ne (by decide), iha,
      rp_cons_ne (by decide), rp_star_star, rp_cons_ne (by decide), ihb, rp_cons_ne (by decide)]

/-! ## spacing and splitting the printed string -/

theorem nu_append (a b : List Char) : nonUnarySub (a ++ b) = nonUnarySub a ++ nonUnarySub b := by
  induction a with
  | nil => rfl
  | cons c r ih =>
    rw [List.cons_append, nonUnarySub, nonUnarySub, ih]
    split <;> simp

theorem nu_nil : nonUnarySub [] = [] := rfl

theorem nu_atom' {a : List Char} (h : ∀ c ∈ a, isNonUnaryOp c = false) : nonUnarySub a = a := by
  have := nu_atom h []
  simpa [nu_nil] using this

theorem words_atom_sp {a : List Char} (h : ∀ c ∈ a, c ≠ ' ') (hne : a ≠ []) (r : List Char) :
    words (a ++ ' ' :: r) = a :: words r := by
  rw [words_atom h hne (Or.inr rfl), words_space]

theorem words_tok1 (c : Char) (h : c ≠ ' ') (r : List Char) :
    words (c :: ' ' :: r) = [c] :: words r :=
  words_atom_sp (a := [c]) (by simpa using h) (by simp) r

theorem words_lp (r : List Char) : words ('(' :: ' ' :: r) = ['('] :: words r := words_tok1 _ (by decide) r
theorem words_rp (r : List Char) : words (')' :: ' ' :: r) = [')'] :: words r := words_tok1 _ (by decide) r
theorem words_star (r : List Char) : words ('*' :: ' ' :: r) = ['*'] :: words r := words_tok1 _ (by decide) r
theorem words_slash (r : List Char) : words ('/' :: ' ' :: r) = ['/'] :: words r := words_tok1 _ (by decide) r
theorem words_hat (r : List Char) : words ('^' :: ' ' :: r) = ['^'] :: words r := words_tok1 _ (by decide) r
theorem words_plus (r : List Char) : words ('+' :: ' ' :: r) = ['+'] :: words r := words_tok1 _ (by decide) r
theorem words_minus (r : List Char) : words ('-' :: ' ' :: r) = ['-'] :: words r := words_tok1 _ (by decide) r
theorem words_abs (r : List Char) : words ('a' :: 'b' :: 's' :: ' ' :: r) = ['a', 'b', 's'] :: words r :=
  words_atom_sp (a := ['a', 'b', 's']) (by decide) (by simp) r

theorem splitGo_append_space (s cur : List Char) :
    splitGo [' '] 0 (s ++ [' ']) cur = splitGo [' '] 0 s cur ++ [[]] := by
  induction s generalizing cur with
  | nil => simp [splitGo, List.isPrefixOf]
  | cons c r ih =>
    by_cases hc : c = ' '
    · subst hc
      rw [List.cons_append, splitGo_space, splitGo_space, ih, List.cons_append]
    · rw [List.cons_append, splitGo, if_neg (by simp [List.isPrefixOf, Ne.symm hc]), ih, splitGo,
        if_neg (by simp [List.isPrefixOf, Ne.symm hc])]

theorem words_append_space (s : List Char) : words (s ++ [' ']) = words s := by
  unfold words
  rw [splitGo_append_space]
  simp

theorem words_render {consts : List String} (hc : ∀ c ∈ consts, constCharsOK c = true) (t : ETree)
    (h : printOK consts t = true) :
    ∀ r, words (nonUnarySub (render ['^'] consts t) ++ ' ' :: r) = toksC consts t ++ words r := by
  have e1 : isNonUnaryOp '(' = true := by decide
  have e2 : isNonUnaryOp ')' = true := by decide
  have e3 : isNonUnaryOp '*' = true := by decide
  have e4 : isNonUnaryOp '/' = true := by decide
  have e5 : isNonUnaryOp '^' = true := by decide
  have f1 : isNonUnaryOp ' ' = false := by decide
  have f2 : isNonUnaryOp '+' = false := by decide
  have f3 : isNonUnaryOp '-' = false := by decide
  have f4 : isNonUnaryOp 'a' = false := by decide
  have f5 : isNonUnaryOp 'b' = false := by decide
  have f6 : isNonUnaryOp 's' = false := by decide
  refine printOK_induction (consts := consts)
    (motive := fun t => ∀ r, words (nonUnarySub (render ['^'] consts t) ++ ' ' :: r) = toksC consts t ++ words r)
    ?_ ?_ ?_ ?_ ?_ ?_ ?_ ?_ t h
  · intro n p hp r
    have sp := leaf_spec hp hc
    rw [render, nu_atom' (fun c hc' => tokChar_noop (leafChar_tokChar (sp.chars c hc'))),
      words_atom_sp (fun c hc' => leafChar_ne (sp.chars c hc') ' ') sp.ne]
    rfl
  · intro n f a hf ih r
    have sp := name_spec hf
    rw [render_un _ _ _ hf, toksC_un _ _ hf, nu_atom (fun c hc' => tokChar_noop (sp.chars c hc'))]
    simp only [nu_append, nu_cons_op e1, nu_cons_op e2, nu_nil, List.append_assoc, List.cons_append,
      List.nil_append]
    rw [words_atom_sp (fun c hc' => tokChar_ne (sp.chars c hc') ' ') sp.ne]
    simp only [words_space, words_lp, words_rp, ih]
  all_goals
    intro a b iha ihb r
    first
      | rw [render_add, toksC_add] | rw [render_sub, toksC_sub] | rw [render_mul, toksC_mul]
      | rw [render_div, toksC_div] | rw [render_pow, toksC_pow] | rw [render_spow, toksC_spow]
    simp only [nu_append, nu_cons_op e1, nu_cons_op e2, nu_cons_op e3, nu_cons_op e4, nu_cons_op e5,
      nu_cons_plain f1, nu_cons_plain f2, nu_cons_plain f3, nu_cons_plain f4, nu_cons_plain f5,
      nu_cons_plain f6, nu_nil, List.append_assoc, List.cons_append, List.nil_append]
    simp only [words_space, words_lp, words_rp, words_star, words_slash, words_hat, words_plus, words_minus,
      words_abs, iha, ihb]

/-! ## lower-casing the tokens -/

/-- a token as the tokenizer returns it -/
def finTok (l : List Char) : String := String.ofList (lowerAscii l)

theorem toksC_lower {consts : List String} (hc : ∀ c ∈ consts, constCharsOK c = true) (t : ETree)
    (h : printOK consts t = true) : (toksC consts t).map finTok = sympyToks consts t := by
  refine printOK_induction (consts := consts)
    (motive := fun t => (toksC consts t).map finTok = sympyToks consts t) ?_ ?_ ?_ ?_ ?_ ?_ ?_ ?_ t h
  · intro n p hp
    have sp := leaf_spec hp hc
    simp only [toksC, sympyToks, List.map_cons, List.map_nil, finTok, sp.lower]
  · intro n f a hf ih
    rw [toksC_un _ _ hf, sympyToks_un _ _ hf]
    simp only [List.map_cons, List.map_append, List.map_nil, ih, List.cons_append, List.nil_append]
    rw [show finTok f.toList = f from (name_spec hf).lower]
    rfl
  all_goals
    intro a b iha ihb
    first
      | rw [toksC_add, sympyToks_add] | rw [toksC_sub, sympyToks_sub] | rw [toksC_mul, sympyToks_mul]
      | rw [toksC_div, sympyToks_div] | rw [toksC_pow, sympyToks_pow] | rw [toksC_spow, sympyToks_spow]
    simp only [List.map_cons, List.map_append, List.map_nil, iha, ihb, List.cons_append, List.nil_append,
      List.append_assoc]
    rfl

/-! ## the tokenizer on a printed string -/

theorem tokenizeChars_render {consts : List String} (hc : ∀ c ∈ consts, constCharsOK c = true) (t : ETree)
    (h : printOK consts t = true) :
    tokenizeChars (render ['*', '*'] consts t) = .ok ((toksC consts t).map lowerAscii) := by
  have hadj : adjOK (render ['*', '*'] consts t) = true := by
    have := adjOK_render (Or.inl rfl) hc t h [] rfl (by simp)
    simpa using this
  have hadj2 : adjOK (render ['^'] consts t) = true := by
    have := adjOK_render (Or.inr rfl) hc t h [] rfl (by simp)
    simpa using this
  have hI : 'I' ∉ render ['*', '*'] consts t := by
    intro hmem
    have := List.all_eq_true.1 (okChar_render (Or.inl rfl) hc t h) _ hmem
    exact (okChar_spec this).2 rfl
  have hbad : (bad_tokens.any (fun b => containsSub b.toList (render ['*', '*'] consts t))) = false := by
    rw [show bad_tokens = ["zoo", "I", "oo", "nan"] from rfl]
    simp only [List.any_cons, List.any_nil, Bool.or_false, Bool.or_eq_false_iff]
    refine ⟨?_, ?_, ?_, ?_⟩
    · exact not_containsSub_of_pair (x := 'o') (y := 'o') rfl ['z'] [] hadj
    · exact not_containsSub_of_not_mem (x := 'I') [] [] hI
    · exact not_containsSub_of_pair (x := 'o') (y := 'o') rfl [] [] hadj
    · exact not_containsSub_of_pair (x := 'n') (y := 'a') rfl [] ['n'] hadj
  have h1 : replacements.foldl (fun acc (p : String × String) => pyReplace p.1.toList p.2.toList acc)
      (render ['*', '*'] consts t) = render ['^'] consts t := by
    rw [show replacements = [(")(", ")*("), ("**", "^")] from rfl]
    simp only [List.foldl_cons, List.foldl_nil]
    rw [show pyReplace ")(".toList ")*(".toList (render ['*', '*'] consts t) = render ['*', '*'] consts t from
      replaceGo_id (not_containsSub_of_pair (x := ')') (y := '(') rfl [] [] hadj)]
    have := rp_render hc t h []
    rw [List.append_nil, rp_nil, List.append_nil] at this
    exact this
  have h2 : pySplit split_sep.toList (nonUnarySub (render ['^'] consts t)) =
      splitGo [' '] 0 (nonUnarySub (render ['^'] consts t)) [] := rfl
  have h3 : words (nonUnarySub (render ['^'] consts t)) = toksC consts t := by
    rw [← words_append_space, words_render hc t h, words_nil, List.append_nil]
  unfold tokenizeChars
  rw [hbad, h1]
  simp only [Bool.false_eq_true, if_false]
  rw [negativeSub_id hadj2, negativeBaseSub_id (by
    have := (CK_render hc t h [] CK_nil).1
    simpa using this), h2]
  rw [show (splitGo [' '] 0 (nonUnarySub (render ['^'] consts t)) []).filter (fun t => !t.isEmpty) =
    words (nonUnarySub (render ['^'] consts t)) from rfl, h3]
  rfl

end Tkz
open Tkz

/-- the tokenizer maps the sympy string of a `printOK` tree to the intended token list -/
theorem tokenize_sympyStr (consts : List String) (t : ETree) (h : printOK consts t = true)
    (hc : ∀ c ∈ consts, constCharsOK c = true) :
    tokenize (sympyStr consts t) = .ok (sympyToks consts t) := by
  unfold tokenize
  simp only [sympyStr_toList t h]
  have hascii : (render ['*', '*'] consts t).any (fun c => decide (c.toNat ≥ 128)) = false := by
    rw [List.any_eq_false]
    intro c hmem
    have := List.all_eq_true.1 (okChar_render (Or.inl rfl) hc t h) _ hmem
    have := (okChar_spec this).1
    simp only [decide_eq_true_eq]; omega
  rw [hascii, tokenizeChars_render hc t h]
  simp only [Bool.false_eq_true, if_false, Except.map, List.map_map]
  rw [← toksC_lower hc t h]
  rfl

/-! ## concrete checks (evaluated directly, independent of the theorem) -/

example : sympyStr ["-2.5"]
    (.bin 2 (.leaf 0 0) (.bin 3 (.leaf 1 0) (.bin 13 (.leaf (-1) (-3)) (.un 6 (.leaf 0 1))))) =
    "X_0 + -2.5 - (abs(-3)**(sin(X_1)))" := by decide

example : (tokenize (sympyStr ["-2.5"]
    (.bin 2 (.leaf 0 0) (.bin 3 (.leaf 1 0) (.bin 13 (.leaf (-1) (-3)) (.un 6 (.leaf 0 1))))))).toOption =
    some ["x_0", "+", "-2.5", "-", "(", "abs", "(", "-3", ")", "^", "(", "sin", "(", "x_1", ")", ")", ")"] := by
  decide

example : (tokenize (sympyStr ["1e-05", "1e+20"]
    (.bin 4 (.bin 5 (.leaf 1 0) (.leaf 0 12)) (.bin 10 (.un 15 (.leaf 1 1)) (.un 12 (.leaf (-1) 7)))))).toOption =
    some (sympyToks ["1e-05", "1e+20"]
      (.bin 4 (.bin 5 (.leaf 1 0) (.leaf 0 12)) (.bin 10 (.un 15 (.leaf 1 1)) (.un 12 (.leaf (-1) 7))))) := by
  decide

/-- the same through the theorem (the hypotheses are decidable) -/
example : tokenize (sympyStr ["1e-05", "1e+20"]
    (.bin 4 (.bin 5 (.leaf 1 0) (.leaf 0 12)) (.bin 10 (.un 15 (.leaf 1 1)) (.un 12 (.leaf (-1) 7))))) =
    .ok ["(", "(", "1e-05", ")", "/", "(", "x_12", ")", ")", "*", "(", "(", "cosh", "(", "1e+20", ")", ")", "^",
      "(", "sqrt", "(", "7", ")", ")", ")"] := by
  rw [tokenize_sympyStr _ _ (by decide) (by decide)]
  exact congrArg Except.ok (by decide)

/-- the condition on the constants cannot be dropped: a constant printed as `-x` is rewritten to `-1 * x` -/
example : (tokenize (sympyStr ["-inf"] (.leaf 1 0))).toOption = some ["-1", "*", "inf"] := by decide

end Bingo.Str
