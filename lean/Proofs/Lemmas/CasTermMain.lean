import Proofs.Lemmas.CasTermLocal
/-!
# Stage 2b: every call terminates

`TermAt T st n`: on arguments of level `≤ n` (and `NE`) each of the eight functions has a fuel with which it
does not run out of fuel.  Proved by strong induction on `n`; inside one level: first the power functions,
then (products) pairs of non-products, `mergeProducts` by the total size of the two lists,
`simplifyProductRec` by the length of the list; sums likewise.
-/
namespace Bingo
namespace Cas
namespace Term
open Gen.OpDefs Expr Auto

variable {T : Int → Bool}

structure TermAt (T : Int → Bool) (st : Bool) (n : Nat) : Prop where
  cpow : ∀ b e, NE T b = true → NE T e = true → 1 + sl e + cl b ≤ n →
    ∃ N, NFu (simplifyConstantPower st N b e)
  pow : ∀ b e, NE T b = true → NE T e = true → 1 + sl e + cl b ≤ n → ∃ N, NFu (simplifyPower st N b e)
  prodRec : ∀ l, (∀ a ∈ l, NEM T a) → 2 ≤ l.length → plL l ≤ n → ∃ N, NFu (simplifyProductRec st N l)
  prod : ∀ l, (∀ a ∈ l, NEM T a) → l ≠ [] → plL l ≤ n → ∃ N, NFu (simplifyProduct st N l)
  mergeP : ∀ l₁ l₂, NEL T l₁ = true → NEL T l₂ = true → plL l₁ ≤ n → plL l₂ ≤ n →
    ∃ N, NFu (mergeProducts st N l₁ l₂)
  sumRec : ∀ l, NEL T l = true → 2 ≤ l.length → slL l ≤ n → ∃ N, NFu (simplifySumRec st N l)
  sum : ∀ l, NEL T l = true → l ≠ [] → slL l ≤ n → ∃ N, NFu (simplifySum st N l)
  mergeS : ∀ l₁ l₂, NEL T l₁ = true → NEL T l₂ = true → slL l₁ ≤ n → slL l₂ ≤ n →
    ∃ N, NFu (mergeSums st N l₁ l₂)

/-- all lower levels terminate -/
def Lower (T : Int → Bool) (st : Bool) (n : Nat) : Prop := ∀ m, m < n → TermAt T st m

/-! ## helpers -/

theorem exists_uniform {α β : Type} {F : Nat → α → R β}
    (stable : ∀ p N f, N ≤ f → NFu (F N p) → F f p = F N p) :
    ∀ {l : List α}, (∀ p ∈ l, ∃ N, NFu (F N p)) → ∃ N, ∀ p ∈ l, NFu (F N p)
  | [], _ => ⟨0, fun p hp => by cases hp⟩
  | a :: l, h => by
    obtain ⟨N1, h1⟩ := h a List.mem_cons_self
    obtain ⟨N2, h2⟩ := exists_uniform stable (fun p hp => h p (List.mem_cons_of_mem _ hp))
    refine ⟨max N1 N2, fun p hp => ?_⟩
    rcases List.mem_cons.1 hp with rfl | hp
    · rw [stable _ N1 _ (Nat.le_max_left _ _) h1]; exact h1
    · rw [stable _ N2 _ (Nat.le_max_right _ _) (h2 p hp)]; exact h2 p hp

theorem mapM_congr_mem {α β : Type} {g g' : α → R β} :
    ∀ {l : List α}, (∀ p ∈ l, g p = g' p) → l.mapM g = l.mapM g'
  | [], _ => by rw [List.mapM_nil, List.mapM_nil]
  | a :: l, h => by
    rw [List.mapM_cons, List.mapM_cons, h a List.mem_cons_self,
      mapM_congr_mem (fun p hp => h p (List.mem_cons_of_mem _ hp))]

theorem args_of_mul_ne {b : Expr} (hb : NE T b = true) (hop : (b.op == MULTIPLICATION) = true) :
    b.args ≠ [] ∧ cl b = 1 + clL b.args := by
  cases b with
  | term o v n =>
    simp only [op, beq_iff_eq] at hop
    subst hop
    simp [NE] at hb
    exact absurd hb (by decide)
  | node o as =>
    have : o = MULTIPLICATION := by simpa [op] using hop
    subst this
    simp only [NE, Bool.and_eq_true] at hb
    refine ⟨?_, cl_mul as⟩
    intro h
    simp only [args] at h
    subst h
    simp at hb

/-! ## the power functions -/

section level
variable {st : Bool} {n : Nat}

theorem term_cpow_pow (ih : Lower T st n) (bb be e : Expr) (hb : NE T (node POWER [bb, be]) = true)
    (he : NE T e = true) (hop : (e.op == INTEGER) = true)
    (hl : 1 + sl e + cl (node POWER [bb, be]) ≤ n) :
    ∃ N, NFu (simplifyConstantPower st N (node POWER [bb, be]) e) := by
  have hargs := NE_args hb
  simp only [args, NEL, Bool.and_eq_true] at hargs
  have hei : e.isIntOrConst = true := by unfold isIntOrConst; rw [hop]; rfl
  have hple := (lv_isIntOrConst hei).2
  rw [cl_pow] at hl
  have hL1 : plL [be, e] < n := by simp only [plL_cons, plL_nil]; omega
  obtain ⟨N1, h1⟩ := (ih _ hL1).prod [be, e]
    (by intro x hx
        rcases List.mem_cons.1 hx with rfl | hx
        · exact NEM_of_NE hargs.2.1
        · rcases List.mem_cons.1 hx with rfl | hx
          · exact NEM_of_NE he
          · cases hx) (by simp) (Nat.le_refl _)
  cases hv : simplifyProduct st N1 [be, e] with
  | error s =>
    refine ⟨N1 + 1, loc_cpow ?_ ?_⟩
    · intro bb' be' hargs' _
      simp only [args, List.cons.injEq, and_true] at hargs'
      obtain ⟨rfl, rfl⟩ := hargs'
      exact ⟨h1, fun ne hne => by rw [hv] at hne; cases hne⟩
    · intro h; simp [op] at h; exact absurd h (by decide)
  | ok ne =>
    obtain ⟨hne1, hne2⟩ := (clAt (T := T) st N1).prod [be, e] ne (by simp [NEL, hargs.2.1, he]) hv
    simp only [plL_cons, plL_nil] at hne2
    by_cases hbe : be.isIntOrConst = true
    · have := (lv_isIntOrConst hbe).2
      have := sl_le_pl ne
      have hL2 : 1 + sl ne + cl bb < n := by omega
      obtain ⟨N2, h2⟩ := (ih _ hL2).cpow bb ne hargs.1 hne1 (Nat.le_refl _)
      refine ⟨max N1 N2 + 1, loc_cpow ?_ ?_⟩
      · intro bb' be' hargs' _
        simp only [args, List.cons.injEq, and_true] at hargs'
        obtain ⟨rfl, rfl⟩ := hargs'
        have hp := prod_le (Nat.le_max_left N1 N2) h1
        refine ⟨by rw [hp]; exact h1, fun ne' hne' _ => ?_⟩
        rw [hp, hv] at hne'
        cases hne'
        rw [cpow_le (Nat.le_max_right N1 N2) h2]; exact h2
      · intro h; simp [op] at h; exact absurd h (by decide)
    · refine ⟨N1 + 1, loc_cpow ?_ ?_⟩
      · intro bb' be' hargs' _
        simp only [args, List.cons.injEq, and_true] at hargs'
        obtain ⟨rfl, rfl⟩ := hargs'
        exact ⟨h1, fun ne _ hbe' => absurd hbe' hbe⟩
      · intro h; simp [op] at h; exact absurd h (by decide)

theorem term_cpow_mul (ih : Lower T st n) (b e : Expr) (hb : NE T b = true) (he : NE T e = true)
    (hop : (b.op == MULTIPLICATION) = true) (hl : 1 + sl e + cl b ≤ n) :
    ∃ N, NFu (simplifyConstantPower st N b e) := by
  obtain ⟨hne, hcl⟩ := args_of_mul_ne hb hop
  have hnotpow : ∀ bb be, b.args = [bb, be] → (b.op == POWER && e.op == INTEGER) = true → False := by
    intro bb be _ h
    rw [Bool.and_eq_true] at h
    have h1 := h.1
    rw [beq_iff_eq] at h1 hop
    rw [h1] at hop; exact absurd hop (by decide)
  have hall : ∀ p ∈ b.args, ∃ N, NFu (simplifyConstantPower st N p e) := by
    intro p hp
    have := cl_le_clL hp
    have hL : 1 + sl e + cl p < n := by omega
    exact (ih _ hL).cpow p e (NEL_iff.1 (NE_args hb) p hp) he (Nat.le_refl _)
  obtain ⟨N1, h1⟩ := exists_uniform (F := fun N p => simplifyConstantPower st N p e)
    (fun p N f hle h => cpow_le hle h) hall
  cases hv : b.args.mapM (fun bas => simplifyConstantPower st N1 bas e) with
  | error s =>
    refine ⟨N1 + 1, loc_cpow (fun bb be h1' h2' => (hnotpow bb be h1' h2').elim) ?_⟩
    intro _
    exact ⟨h1, fun parts hp => by rw [hv] at hp; cases hp⟩
  | ok parts =>
    have hf := mapM_ok hv
    have hallp : ∀ p ∈ parts, NE T p = true ∧ pl p ≤ 1 + sl e + clL b.args := by
      intro p hp
      obtain ⟨a, ha, hap⟩ := forall₂_right hf p hp
      obtain ⟨h1', h2'⟩ := (clAt (T := T) st N1).cpow a e p (NEL_iff.1 (NE_args hb) a ha) he hap
      have := cl_le_clL ha
      exact ⟨h1', by omega⟩
    have hpne : parts ≠ [] := by
      intro h
      have := hf.length_eq
      rw [h] at this
      exact hne (List.length_eq_zero_iff.1 this)
    have hpl : plL parts ≤ 1 + sl e + clL b.args := plL_le.2 (fun p hp => (hallp p hp).2)
    have hL2 : plL parts < n := by omega
    obtain ⟨N2, h2⟩ := (ih _ hL2).prod parts (fun p hp => NEM_of_NE (hallp p hp).1) hpne
      (Nat.le_refl _)
    refine ⟨max N1 N2 + 1, loc_cpow (fun bb be h1' h2' => (hnotpow bb be h1' h2').elim) ?_⟩
    intro _
    have hsame : ∀ p ∈ b.args, simplifyConstantPower st (max N1 N2) p e =
        simplifyConstantPower st N1 p e :=
      fun p hp => cpow_le (Nat.le_max_left N1 N2) (h1 p hp)
    refine ⟨fun p hp => by rw [hsame p hp]; exact h1 p hp, fun parts' hp' => ?_⟩
    rw [mapM_congr_mem hsame, hv] at hp'
    cases hp'
    rw [prod_le (Nat.le_max_right N1 N2) h2]; exact h2

theorem term_cpow (ih : Lower T st n) (b e : Expr) (hb : NE T b = true) (he : NE T e = true)
    (hl : 1 + sl e + cl b ≤ n) : ∃ N, NFu (simplifyConstantPower st N b e) := by
  by_cases hP : ∃ bb be, b.args = [bb, be] ∧ (b.op == POWER && e.op == INTEGER) = true
  · obtain ⟨bb, be, hargs, hop⟩ := hP
    rw [Bool.and_eq_true] at hop
    cases b with
    | term o v np => simp [args] at hargs
    | node o as =>
      simp only [args] at hargs
      have ho : o = POWER := by simpa [op] using hop.1
      subst ho; subst hargs
      exact term_cpow_pow ih bb be e hb he hop.2 hl
  · by_cases hM : (b.op == MULTIPLICATION) = true
    · exact term_cpow_mul ih b e hb he hM hl
    · exact ⟨1, loc_cpow (fun bb be h1 h2 => (hP ⟨bb, be, h1, h2⟩).elim) (fun h => (hM h).elim)⟩

theorem term_pow (ih : Lower T st n) (b e : Expr) (hb : NE T b = true) (he : NE T e = true)
    (hl : 1 + sl e + cl b ≤ n) : ∃ N, NFu (simplifyPower st N b e) := by
  obtain ⟨N, h⟩ := term_cpow ih b e hb he hl
  exact ⟨N + 1, loc_pow (fun _ => h)⟩

/-! ## products -/

theorem term_prodRec_pair_nm (ih : Lower T st n) (a b : Expr) (hna : NE T a = true) (hnb : NE T b = true)
    (hnm : (a.op != MULTIPLICATION && b.op != MULTIPLICATION) = true)
    (hla : pl a ≤ n) (hlb : pl b ≤ n) : ∃ N, NFu (simplifyProductRec st N [a, b]) := by
  have hlt : ∀ f, 3 * (size b + size a) ≤ f → NFu (ltF f b a) := fun f h => ltF_terminates b a h
  have hnm' := hnm
  rw [Bool.and_eq_true] at hnm'
  by_cases hB : ∃ β e1 e2, a.base = some β ∧ a.exponent = some e1 ∧ b.exponent = some e2 ∧
      optBeq a.base b.base = true
  · obtain ⟨β, e1, e2, hβ, he1, he2, hbase⟩ := hB
    have hbase' := hbase
    rw [hβ] at hbase'
    obtain ⟨β', hβ', hbeq⟩ := optBeq_some_left hbase'
    obtain ⟨hpa, hnea⟩ := base_exponent_lv (T := T) hnm'.1 hβ he1
    obtain ⟨hpb, hneb⟩ := base_exponent_lv (T := T) hnm'.2 hβ' he2
    have hcl := (beq_sameLv β β' hbeq).2.2
    have hL1 : slL [e1, e2] < n := by simp only [slL_cons, slL_nil]; omega
    obtain ⟨N1, h1⟩ := (ih _ hL1).sum [e1, e2] (by simp [NEL, (hnea hna).2, (hneb hnb).2])
      (by simp) (Nat.le_refl _)
    have key : ∀ N2, (∀ ne, simplifySum st N1 [e1, e2] = .ok ne → NFu (simplifyPower st N2 β ne)) →
        ∃ N, NFu (simplifyProductRec st N [a, b]) := by
      intro N2 h2
      refine ⟨max (max N1 N2) (3 * (size b + size a)) + 1, loc_prodRec_pair ?_
        (hlt _ (Nat.le_max_right _ _)) (fun h => (h hnm).elim)⟩
      intro _ β₂ e1₂ e2₂ hβ₂ he1₂ he2₂ _
      rw [hβ] at hβ₂; rw [he1] at he1₂; rw [he2] at he2₂
      cases hβ₂; cases he1₂; cases he2₂
      have hle1 : N1 ≤ max (max N1 N2) (3 * (size b + size a)) :=
        Nat.le_trans (Nat.le_max_left N1 N2) (Nat.le_max_left _ _)
      have hle2 : N2 ≤ max (max N1 N2) (3 * (size b + size a)) :=
        Nat.le_trans (Nat.le_max_right N1 N2) (Nat.le_max_left _ _)
      have hs := sum_le hle1 h1
      refine ⟨by rw [hs]; exact h1, fun ne hne => ?_⟩
      rw [hs] at hne
      have := h2 ne hne
      rw [pow_le hle2 this]; exact this
    cases hv : simplifySum st N1 [e1, e2] with
    | error s => exact key 0 (fun ne hne => by rw [hv] at hne; cases hne)
    | ok ne =>
      obtain ⟨hne1, hne2⟩ := (clAt (T := T) st N1).sum [e1, e2] ne
        (by simp [NEL, (hnea hna).2, (hneb hnb).2]) hv
      simp only [slL_cons, slL_nil] at hne2
      obtain ⟨N2, h2⟩ := term_pow ih β ne (hnea hna).1 hne1 (by omega)
      exact key N2 (fun ne' hne' => by rw [hv] at hne'; cases hne'; exact h2)
  · refine ⟨3 * (size b + size a) + 1, loc_prodRec_pair ?_ (hlt _ (Nat.le_refl _))
      (fun h => (h hnm).elim)⟩
    intro _ β e1 e2 hβ he1 he2 hbase
    exact (hB ⟨β, e1, e2, hβ, he1, he2, hbase⟩).elim

theorem term_mergeP_aux (ih : Lower T st n) : ∀ (k : Nat) (l₁ l₂ : List Expr),
    sizeL l₁ + sizeL l₂ ≤ k → NEL T l₁ = true → NEL T l₂ = true → plL l₁ ≤ n → plL l₂ ≤ n →
    ∃ N, NFu (mergeProducts st N l₁ l₂) := by
  intro k
  induction k with
  | zero =>
    intro l₁ l₂ hk _ _ _ _
    cases l₁ with
    | nil => exact ⟨1, loc_mergeP_nil_left⟩
    | cons a as => simp only [sizeL] at hk; have := size_pos a; omega
  | succ k ihk =>
    intro l₁ l₂ hk h1 h2 hp1 hp2
    cases l₁ with
    | nil => exact ⟨1, loc_mergeP_nil_left⟩
    | cons a as =>
      cases l₂ with
      | nil => exact ⟨1, loc_mergeP_nil_right⟩
      | cons b bs =>
        have h1' := h1
        have h2' := h2
        simp only [NEL, Bool.and_eq_true] at h1' h2'
        simp only [plL_cons] at hp1 hp2
        simp only [sizeL] at hk
        have hsa := size_args a
        have hsb := size_args b
        have hpa := size_pos a
        have hpb := size_pos b
        by_cases hA : (a.op == MULTIPLICATION) = true
        · have := plL_args_of_mul hA
          obtain ⟨N, hN⟩ := ihk (a.args ++ as) (b :: bs)
            (by rw [sizeL_append]; simp only [sizeL]; omega)
            (NEL_append (NE_args h1'.1) h1'.2) h2 (by rw [plL_append]; omega)
            (by simp only [plL_cons]; omega)
          exact ⟨N + 1, loc_mergeP (fun _ => hN) (fun h => (h hA).elim) (fun h => (h hA).elim)⟩
        · by_cases hB : (b.op == MULTIPLICATION) = true
          · have := plL_args_of_mul hB
            obtain ⟨N, hN⟩ := ihk (a :: as) (b.args ++ bs)
              (by rw [sizeL_append]; simp only [sizeL]; omega) h1
              (NEL_append (NE_args h2'.1) h2'.2) (by simp only [plL_cons]; omega)
              (by rw [plL_append]; omega)
            exact ⟨N + 1, loc_mergeP (fun h => (hA h).elim) (fun _ _ => hN) (fun _ h => (h hB).elim)⟩
          · obtain ⟨N0, h0⟩ := term_prodRec_pair_nm ih a b h1'.1 h2'.1
              (by simp only [Bool.and_eq_true, bne_iff_ne, ne_eq]
                  exact ⟨by simpa using hA, by simpa using hB⟩) (by omega) (by omega)
            obtain ⟨N1, m1⟩ := ihk as bs (by omega) h1'.2 h2'.2 (by omega) (by omega)
            obtain ⟨N2, m2⟩ := ihk as (b :: bs) (by simp only [sizeL]; omega) h1'.2 h2 (by omega)
              (by simp only [plL_cons]; omega)
            obtain ⟨N3, m3⟩ := ihk (a :: as) bs (by simp only [sizeL]; omega) h1 h2'.2
              (by simp only [plL_cons]; omega) (by omega)
            refine ⟨max (max N0 N1) (max N2 N3) + 1, loc_mergeP (fun h => (hA h).elim)
              (fun _ h => (hB h).elim) (fun _ _ => ?_)⟩
            have l0 : N0 ≤ max (max N0 N1) (max N2 N3) := by omega
            have l1 : N1 ≤ max (max N0 N1) (max N2 N3) := by omega
            have l2 : N2 ≤ max (max N0 N1) (max N2 N3) := by omega
            have l3 : N3 ≤ max (max N0 N1) (max N2 N3) := by omega
            refine ⟨by rw [prodRec_le l0 h0]; exact h0, fun _ _ => ⟨?_, ?_, ?_⟩⟩
            · rw [mergeP_le l1 m1]; exact m1
            · rw [mergeP_le l2 m2]; exact m2
            · rw [mergeP_le l3 m3]; exact m3

theorem term_mergeP (ih : Lower T st n) (l₁ l₂ : List Expr) (h1 : NEL T l₁ = true) (h2 : NEL T l₂ = true)
    (hp1 : plL l₁ ≤ n) (hp2 : plL l₂ ≤ n) : ∃ N, NFu (mergeProducts st N l₁ l₂) :=
  term_mergeP_aux ih _ l₁ l₂ (Nat.le_refl _) h1 h2 hp1 hp2

theorem term_prodRec_pair (ih : Lower T st n) (a b : Expr) (ha : NEM T a) (hb : NEM T b)
    (hla : pl a ≤ n) (hlb : pl b ≤ n) : ∃ N, NFu (simplifyProductRec st N [a, b]) := by
  by_cases hnm : (a.op != MULTIPLICATION && b.op != MULTIPLICATION) = true
  · have hnm' := hnm
    rw [Bool.and_eq_true] at hnm'
    exact term_prodRec_pair_nm ih a b (NE_of_NEM ha hnm'.1) (NE_of_NEM hb hnm'.2) hnm hla hlb
  · have := plL_mergeOperands a
    have := plL_mergeOperands b
    obtain ⟨N, hN⟩ := term_mergeP ih _ _ ha hb (by omega : plL (mergeOperands MULTIPLICATION a) ≤ n)
      (by omega : plL (mergeOperands MULTIPLICATION b) ≤ n)
    refine ⟨max N (3 * (size b + size a)) + 1, loc_prodRec_pair (fun h => (hnm h).elim)
      (ltF_terminates b a (Nat.le_max_right _ _)) (fun _ => ?_)⟩
    rw [mergeP_le (Nat.le_max_left _ _) hN]; exact hN

theorem term_prodRec (ih : Lower T st n) : ∀ (l : List Expr), (∀ a ∈ l, NEM T a) → 2 ≤ l.length →
    plL l ≤ n → ∃ N, NFu (simplifyProductRec st N l)
  | [], _, hlen, _ => by simp at hlen
  | [_], _, hlen, _ => by simp at hlen
  | [a, b], hl, _, hp => by
    simp only [plL_cons, plL_nil] at hp
    exact term_prodRec_pair ih a b (hl a (by simp)) (hl b (by simp)) (by omega) (by omega)
  | op :: a :: b :: tl, hl, _, hp => by
    simp only [plL_cons] at hp
    obtain ⟨N1, h1⟩ := term_prodRec ih (a :: b :: tl) (fun x hx => hl x (List.mem_cons_of_mem _ hx))
      (by simp) (by simp only [plL_cons]; omega)
    have hne : ∀ op2, a :: b :: tl ≠ [op2] := by intro op2 h; cases h
    have key : ∀ N2, (∀ rs, simplifyProductRec st N1 (a :: b :: tl) = .ok rs →
        NFu (mergeProducts st N2 (mergeOperands MULTIPLICATION op) rs)) →
        ∃ N, NFu (simplifyProductRec st N (op :: a :: b :: tl)) := by
      intro N2 h2
      have hs := prodRec_le (Nat.le_max_left N1 N2) h1
      refine ⟨max N1 N2 + 1, loc_prodRec_cons hne (by rw [hs]; exact h1) (fun rs hrs => ?_)⟩
      rw [hs] at hrs
      have := h2 rs hrs
      rw [mergeP_le (Nat.le_max_right N1 N2) this]; exact this
    cases hv : simplifyProductRec st N1 (a :: b :: tl) with
    | error s => exact key 0 (fun rs hrs => by rw [hv] at hrs; cases hrs)
    | ok rs =>
      obtain ⟨hr1, hr2⟩ := (clAt (T := T) st N1).prodRec _ rs
        (fun x hx => hl x (List.mem_cons_of_mem _ hx)) hv
      simp only [plL_cons] at hr2
      have := plL_mergeOperands op
      obtain ⟨N2, h2⟩ := term_mergeP ih (mergeOperands MULTIPLICATION op) rs
        (hl op List.mem_cons_self) hr1 (by omega) (by omega)
      exact key N2 (fun rs' hrs' => by rw [hv] at hrs'; cases hrs'; exact h2)

theorem term_prod (ih : Lower T st n) (l : List Expr) (hl : ∀ a ∈ l, NEM T a) (hne : l ≠ [])
    (hp : plL l ≤ n) : ∃ N, NFu (simplifyProduct st N l) := by
  match l, hl, hne, hp with
  | [], _, hne, _ => exact (hne rfl).elim
  | [a], _, _, _ => exact ⟨1, loc_prod (fun h => (h a rfl).elim)⟩
  | a :: b :: tl, hl, _, hp =>
    obtain ⟨N, hN⟩ := term_prodRec ih (a :: b :: tl) hl (by simp) hp
    exact ⟨N + 1, loc_prod (fun _ => hN)⟩

/-! ## sums -/

theorem term_sumRec_pair_A (ih : Lower T st n) (a b : Expr) (hna : NE T a = true) (hnb : NE T b = true)
    (hnm : (a.op != ADDITION && b.op != ADDITION) = true) (hla : sl a ≤ n) (hlb : sl b ≤ n)
    (Hc : ∀ t c1 c2, a.termOf = some t → a.coefficient = some c1 → b.coefficient = some c2 →
      optBeq a.termOf b.termOf = true → ∃ N, NFu (simplifySum st N [c1, c2])) :
    ∃ N, NFu (simplifySumRec st N [a, b]) := by
  have hlt : ∀ f, 3 * (size b + size a) ≤ f → NFu (ltF f b a) := fun f h => ltF_terminates b a h
  have hnm' := hnm
  rw [Bool.and_eq_true] at hnm'
  by_cases hB : ∃ t c1 c2, a.termOf = some t ∧ a.coefficient = some c1 ∧ b.coefficient = some c2 ∧
      optBeq a.termOf b.termOf = true
  · obtain ⟨t, c1, c2, ht, hc1, hc2, hterm⟩ := hB
    have hterm' := hterm
    rw [ht] at hterm'
    obtain ⟨t', ht', _⟩ := optBeq_some_left hterm'
    obtain ⟨rest, rfl, hsa, hc1l, hnea⟩ := termOf_coefficient_lv (T := T) hnm'.1 ht hc1
    obtain ⟨rest', _, _, hc2l, hneb⟩ := termOf_coefficient_lv (T := T) hnm'.2 ht' hc2
    obtain ⟨N1, h1⟩ := Hc _ c1 c2 ht hc1 hc2 hterm
    have key : ∀ N2, (∀ nc, simplifySum st N1 [c1, c2] = .ok nc →
        NFu (simplifyProduct st N2 [nc, node MULTIPLICATION rest])) →
        ∃ N, NFu (simplifySumRec st N [a, b]) := by
      intro N2 h2
      refine ⟨max (max N1 N2) (3 * (size b + size a)) + 1, loc_sumRec_pair ?_
        (hlt _ (Nat.le_max_right _ _)) (fun h => (h hnm).elim)⟩
      intro _ t₂ c1₂ c2₂ ht₂ hc1₂ hc2₂ _
      rw [ht] at ht₂; rw [hc1] at hc1₂; rw [hc2] at hc2₂
      cases ht₂; cases hc1₂; cases hc2₂
      have hle1 : N1 ≤ max (max N1 N2) (3 * (size b + size a)) :=
        Nat.le_trans (Nat.le_max_left N1 N2) (Nat.le_max_left _ _)
      have hle2 : N2 ≤ max (max N1 N2) (3 * (size b + size a)) :=
        Nat.le_trans (Nat.le_max_right N1 N2) (Nat.le_max_left _ _)
      have hs := sum_le hle1 h1
      refine ⟨by rw [hs]; exact h1, fun nc hnc => ?_⟩
      rw [hs] at hnc
      have := h2 nc hnc
      rw [prod_le hle2 this]; exact this
    cases hv : simplifySum st N1 [c1, c2] with
    | error s => exact key 0 (fun nc hnc => by rw [hv] at hnc; cases hnc)
    | ok nc =>
      obtain ⟨hnc1, hnc2⟩ := (clAt (T := T) st N1).sum [c1, c2] nc
        (by simp [NEL, (hnea hna).2, (hneb hnb).2]) hv
      simp only [slL_cons, slL_nil] at hnc2
      have hncp : pl nc ≤ 1 := pl_le_one_of_sl (by omega)
      have hL : plL [nc, node MULTIPLICATION rest] < n := by
        simp only [plL_cons, plL_nil, pl_mul]; omega
      obtain ⟨N2, h2⟩ := (ih _ hL).prod [nc, node MULTIPLICATION rest]
        (by intro x hx
            rcases List.mem_cons.1 hx with rfl | hx
            · exact NEM_of_NE hnc1
            · rcases List.mem_cons.1 hx with rfl | hx
              · exact NEM_mul_node (hnea hna).1
              · cases hx) (by simp) (Nat.le_refl _)
      exact key N2 (fun nc' hnc' => by rw [hv] at hnc'; cases hnc'; exact h2)
  · refine ⟨3 * (size b + size a) + 1, loc_sumRec_pair ?_ (hlt _ (Nat.le_refl _))
      (fun h => (h hnm).elim)⟩
    intro _ t c1 c2 ht hc1 hc2 hterm
    exact (hB ⟨t, c1, c2, ht, hc1, hc2, hterm⟩).elim

theorem coefficient_cases {a c : Expr} (h : a.coefficient = some c) :
    c = ONE ∨ c.isIntOrConst = true := by
  cases a with
  | term o v n =>
    simp only [coefficient] at h
    split at h
    · cases h
    · cases h; exact Or.inl rfl
  | node o as =>
    simp only [coefficient] at h
    split at h
    · match as, h with
      | k :: rest, h =>
        simp only at h
        split at h
        · rename_i hk; cases h; exact Or.inr hk
        · cases h; exact Or.inl rfl
    · cases h; exact Or.inl rfl

theorem coefficient_of_intconst {c k : Expr} (hc : c = ONE ∨ c.isIntOrConst = true)
    (hk : c.coefficient = some k) : k = ONE := by
  rcases hc with rfl | hc
  · simp [coefficient, ONE] at hk
  · cases c with
    | term o v n =>
      simp only [coefficient] at hk
      split at hk
      · cases hk
      · cases hk; rfl
    | node o as =>
      simp only [coefficient] at hk
      split at hk
      · rename_i ho
        subst ho
        simp [isIntOrConst, op] at hc
        rcases hc with hc | hc <;> exact absurd hc (by decide)
      · cases hk; rfl

theorem op_ne_add_of_intconst {c : Expr} (hc : c = ONE ∨ c.isIntOrConst = true) :
    (c.op != ADDITION) = true := by
  rcases hc with rfl | hc
  · decide
  · simp only [isIntOrConst, Bool.or_eq_true, beq_iff_eq] at hc
    simp only [bne_iff_ne, ne_eq]
    rcases hc with hc | hc <;> rw [hc] <;> decide

theorem term_sumRec_pair_nm (ih : Lower T st n) (a b : Expr) (hna : NE T a = true) (hnb : NE T b = true)
    (hnm : (a.op != ADDITION && b.op != ADDITION) = true) (hla : sl a ≤ n) (hlb : sl b ≤ n) :
    ∃ N, NFu (simplifySumRec st N [a, b]) := by
  have hnm' := hnm
  rw [Bool.and_eq_true] at hnm'
  refine term_sumRec_pair_A ih a b hna hnb hnm hla hlb ?_
  intro t c1 c2 ht hc1 hc2 hterm
  have hterm' := hterm
  rw [ht] at hterm'
  obtain ⟨t', ht', _⟩ := optBeq_some_left hterm'
  obtain ⟨rest, _, hsa, hc1l, hnea⟩ := termOf_coefficient_lv (T := T) hnm'.1 ht hc1
  obtain ⟨rest', _, _, hc2l, hneb⟩ := termOf_coefficient_lv (T := T) hnm'.2 ht' hc2
  have hnel : NEL T [c1, c2] = true := by simp [NEL, (hnea hna).2, (hneb hnb).2]
  by_cases hlow : slL [c1, c2] < n
  · exact (ih _ hlow).sum [c1, c2] hnel (by simp) (Nat.le_refl _)
  · have hn2 : 2 ≤ n := by omega
    have hcc1 := coefficient_cases hc1
    have hcc2 := coefficient_cases hc2
    obtain ⟨N, hN⟩ := term_sumRec_pair_A ih c1 c2 (hnea hna).2 (hneb hnb).2
      (by rw [Bool.and_eq_true]
          exact ⟨op_ne_add_of_intconst hcc1, op_ne_add_of_intconst hcc2⟩)
      (by omega) (by omega)
      (by intro _ k1 k2 _ hk1 hk2 _
          cases coefficient_of_intconst hcc1 hk1
          cases coefficient_of_intconst hcc2 hk2
          exact (ih 0 (by omega)).sum [ONE, ONE] rfl (by simp)
            (by simp [sl_ONE]))
    exact ⟨N + 1, loc_sum (fun _ => hN)⟩

theorem term_mergeS_aux (ih : Lower T st n) : ∀ (k : Nat) (l₁ l₂ : List Expr),
    sizeL l₁ + sizeL l₂ ≤ k → NEL T l₁ = true → NEL T l₂ = true → slL l₁ ≤ n → slL l₂ ≤ n →
    ∃ N, NFu (mergeSums st N l₁ l₂) := by
  intro k
  induction k with
  | zero =>
    intro l₁ l₂ hk _ _ _ _
    cases l₁ with
    | nil => exact ⟨1, loc_mergeS_nil_left⟩
    | cons a as => simp only [sizeL] at hk; have := size_pos a; omega
  | succ k ihk =>
    intro l₁ l₂ hk h1 h2 hp1 hp2
    cases l₁ with
    | nil => exact ⟨1, loc_mergeS_nil_left⟩
    | cons a as =>
      cases l₂ with
      | nil => exact ⟨1, loc_mergeS_nil_right⟩
      | cons b bs =>
        have h1' := h1
        have h2' := h2
        simp only [NEL, Bool.and_eq_true] at h1' h2'
        simp only [slL_cons] at hp1 hp2
        simp only [sizeL] at hk
        have hsa := size_args a
        have hsb := size_args b
        have hpa := size_pos a
        have hpb := size_pos b
        by_cases hA : (a.op == ADDITION) = true
        · have := slL_args_of_add hA
          obtain ⟨N, hN⟩ := ihk (a.args ++ as) (b :: bs)
            (by rw [sizeL_append]; simp only [sizeL]; omega)
            (NEL_append (NE_args h1'.1) h1'.2) h2 (by rw [slL_append]; omega)
            (by simp only [slL_cons]; omega)
          exact ⟨N + 1, loc_mergeS (fun _ => hN) (fun h => (h hA).elim) (fun h => (h hA).elim)⟩
        · by_cases hB : (b.op == ADDITION) = true
          · have := slL_args_of_add hB
            obtain ⟨N, hN⟩ := ihk (a :: as) (b.args ++ bs)
              (by rw [sizeL_append]; simp only [sizeL]; omega) h1
              (NEL_append (NE_args h2'.1) h2'.2) (by simp only [slL_cons]; omega)
              (by rw [slL_append]; omega)
            exact ⟨N + 1, loc_mergeS (fun h => (hA h).elim) (fun _ _ => hN) (fun _ h => (h hB).elim)⟩
          · obtain ⟨N0, h0⟩ := term_sumRec_pair_nm ih a b h1'.1 h2'.1
              (by simp only [Bool.and_eq_true, bne_iff_ne, ne_eq]
                  exact ⟨by simpa using hA, by simpa using hB⟩) (by omega) (by omega)
            obtain ⟨N1, m1⟩ := ihk as bs (by omega) h1'.2 h2'.2 (by omega) (by omega)
            obtain ⟨N2, m2⟩ := ihk as (b :: bs) (by simp only [sizeL]; omega) h1'.2 h2 (by omega)
              (by simp only [slL_cons]; omega)
            obtain ⟨N3, m3⟩ := ihk (a :: as) bs (by simp only [sizeL]; omega) h1 h2'.2
              (by simp only [slL_cons]; omega) (by omega)
            refine ⟨max (max N0 N1) (max N2 N3) + 1, loc_mergeS (fun h => (hA h).elim)
              (fun _ h => (hB h).elim) (fun _ _ => ?_)⟩
            have l0 : N0 ≤ max (max N0 N1) (max N2 N3) := by omega
            have l1 : N1 ≤ max (max N0 N1) (max N2 N3) := by omega
            have l2 : N2 ≤ max (max N0 N1) (max N2 N3) := by omega
            have l3 : N3 ≤ max (max N0 N1) (max N2 N3) := by omega
            refine ⟨by rw [sumRec_le l0 h0]; exact h0, fun _ _ => ⟨?_, ?_, ?_⟩⟩
            · rw [mergeS_le l1 m1]; exact m1
            · rw [mergeS_le l2 m2]; exact m2
            · rw [mergeS_le l3 m3]; exact m3

theorem term_mergeS (ih : Lower T st n) (l₁ l₂ : List Expr) (h1 : NEL T l₁ = true) (h2 : NEL T l₂ = true)
    (hp1 : slL l₁ ≤ n) (hp2 : slL l₂ ≤ n) : ∃ N, NFu (mergeSums st N l₁ l₂) :=
  term_mergeS_aux ih _ l₁ l₂ (Nat.le_refl _) h1 h2 hp1 hp2

theorem term_sumRec_pair (ih : Lower T st n) (a b : Expr) (ha : NE T a = true) (hb : NE T b = true)
    (hla : sl a ≤ n) (hlb : sl b ≤ n) : ∃ N, NFu (simplifySumRec st N [a, b]) := by
  by_cases hnm : (a.op != ADDITION && b.op != ADDITION) = true
  · exact term_sumRec_pair_nm ih a b ha hb hnm hla hlb
  · have := slL_mergeOperands a
    have := slL_mergeOperands b
    obtain ⟨N, hN⟩ := term_mergeS ih _ _ (NEL_mergeOperands ADDITION ha)
      (NEL_mergeOperands ADDITION hb) (by omega : slL (mergeOperands ADDITION a) ≤ n)
      (by omega : slL (mergeOperands ADDITION b) ≤ n)
    refine ⟨max N (3 * (size b + size a)) + 1, loc_sumRec_pair (fun h => (hnm h).elim)
      (ltF_terminates b a (Nat.le_max_right _ _)) (fun _ => ?_)⟩
    rw [mergeS_le (Nat.le_max_left _ _) hN]; exact hN

theorem term_sumRec (ih : Lower T st n) : ∀ (l : List Expr), NEL T l = true → 2 ≤ l.length →
    slL l ≤ n → ∃ N, NFu (simplifySumRec st N l)
  | [], _, hlen, _ => by simp at hlen
  | [_], _, hlen, _ => by simp at hlen
  | [a, b], hl, _, hp => by
    simp only [slL_cons, slL_nil] at hp
    simp only [NEL, Bool.and_eq_true] at hl
    exact term_sumRec_pair ih a b hl.1 hl.2.1 (by omega) (by omega)
  | op :: a :: b :: tl, hl, _, hp => by
    simp only [slL_cons] at hp
    have hl' := hl
    rw [NEL, Bool.and_eq_true] at hl'
    obtain ⟨N1, h1⟩ := term_sumRec ih (a :: b :: tl) hl'.2 (by simp) (by simp only [slL_cons]; omega)
    have hne : ∀ op2, a :: b :: tl ≠ [op2] := by intro op2 h; cases h
    have key : ∀ N2, (∀ rs, simplifySumRec st N1 (a :: b :: tl) = .ok rs →
        NFu (mergeSums st N2 (mergeOperands ADDITION op) rs)) →
        ∃ N, NFu (simplifySumRec st N (op :: a :: b :: tl)) := by
      intro N2 h2
      have hs := sumRec_le (Nat.le_max_left N1 N2) h1
      refine ⟨max N1 N2 + 1, loc_sumRec_cons hne (by rw [hs]; exact h1) (fun rs hrs => ?_)⟩
      rw [hs] at hrs
      have := h2 rs hrs
      rw [mergeS_le (Nat.le_max_right N1 N2) this]; exact this
    cases hv : simplifySumRec st N1 (a :: b :: tl) with
    | error s => exact key 0 (fun rs hrs => by rw [hv] at hrs; cases hrs)
    | ok rs =>
      obtain ⟨hr1, hr2⟩ := (clAt (T := T) st N1).sumRec _ rs hl'.2 hv
      simp only [slL_cons] at hr2
      have := slL_mergeOperands op
      obtain ⟨N2, h2⟩ := term_mergeS ih (mergeOperands ADDITION op) rs
        (NEL_mergeOperands ADDITION hl'.1) hr1 (by omega) (by omega)
      exact key N2 (fun rs' hrs' => by rw [hv] at hrs'; cases hrs'; exact h2)

theorem term_sum (ih : Lower T st n) (l : List Expr) (hl : NEL T l = true) (hne : l ≠ [])
    (hp : slL l ≤ n) : ∃ N, NFu (simplifySum st N l) := by
  match l, hl, hne, hp with
  | [], _, hne, _ => exact (hne rfl).elim
  | [a], _, _, _ => exact ⟨1, loc_sum (fun h => (h a rfl).elim)⟩
  | a :: b :: tl, hl, _, hp =>
    obtain ⟨N, hN⟩ := term_sumRec ih (a :: b :: tl) hl (by simp) hp
    exact ⟨N + 1, loc_sum (fun _ => hN)⟩

end level

/-- Stage 2: every level terminates -/
theorem termAt (st : Bool) (n : Nat) : TermAt T st n := by
  induction n using Nat.strong_induction_on with
  | _ n ih =>
    have ih' : Lower T st n := ih
    exact { cpow := term_cpow ih', pow := term_pow ih', prodRec := term_prodRec ih'
            prod := term_prod ih', mergeP := term_mergeP ih', sumRec := term_sumRec ih'
            sum := term_sum ih', mergeS := term_mergeS ih' }

end Term
end Cas
end Bingo
