import Proofs.Lemmas.CasAutoTop
import Proofs.Lemmas.CasFoldLoop
import Proofs.Lemmas.CasInterp
import Proofs.Lemmas.CasTerms
import Proofs.Lemmas.CasFuelMono
/-!
# The whole pipeline `simplifyWith true` on constant-free, power-free stacks

`buildCasExpression` → `automaticSimplify` → `foldConstants` → `optionalModifications` →
`buildAgraphStack`, composed from the per-pass lemmas.
-/
namespace Bingo
namespace Cas
open Gen.OpDefs Expr CasInterp

theorem fuelFor_pos (n : Nat) : ∃ m, fuelFor n = m + 1 := by
  refine ⟨fuelFor n - 1, ?_⟩
  have : 0 < fuelFor n := by
    unfold fuelFor
    exact Nat.mul_pos (Nat.mul_pos (by decide) (Nat.succ_pos _)) (Nat.succ_pos _)
  omega

/-- the three Expr-level passes on an expression without admissible `CONSTANT` terminal:
the result stays in the fragment and refines the input -/
theorem exprPipeline_noconst {k : Bool} {T : Int → Int → Bool} {f g : Nat} {e0 e1 e2 e3 : Expr}
    (hT : ∀ v, T CONSTANT v = false) (hok : Ok k T e0 = true)
    (h1 : automaticSimplify true f e0 = .ok e1) (h2 : foldConstants (g+1) e1 = .ok e2)
    (h3 : optionalModifications e2 = .ok e3) :
    Ok k T e3 = true ∧ e2 = groupConstants e1 ∧ ∀ x cv, e0.den x cv ⊑ e3.den x cv := by
  obtain ⟨hok1, hd1⟩ := Auto.automaticSimplify_sound hok h1
  have h2' := foldConstants_noconst g hok1 hT
  rw [h2'] at h2
  cases h2
  have hok2 : Ok k T (groupConstants e1) = true := groupConstants_ok hok1
  refine ⟨optionalModifications_ok hok2 h3, rfl, fun x cv => ?_⟩
  refine (hd1 x cv).trans ?_
  rw [← groupConstants_sound e1 x cv]
  exact optionalModifications_sound h3 x cv

/-- unfolding of `simplifyWith` into its five passes -/
theorem simplifyWith_ok {st : Bool} {s s' : Stack} (h : simplifyWith st s = .ok s') :
    ∃ e0 e1 e2 e3, buildCasExpression s = .ok e0 ∧
      automaticSimplify st (fuelFor s.length) e0 = .ok e1 ∧
      foldConstants (fuelFor s.length) e1 = .ok e2 ∧ optionalModifications e2 = .ok e3 ∧
      buildAgraphStack e3 = .ok s' := by
  unfold simplifyWith at h
  obtain ⟨e0, h0, h⟩ := Auto.bind_ok h
  obtain ⟨e1, h1, h⟩ := Auto.bind_ok h
  obtain ⟨e2, h2, h⟩ := Auto.bind_ok h
  obtain ⟨e3, h3, h⟩ := Auto.bind_ok h
  exact ⟨e0, e1, e2, e3, h0, h1, h2, h3, h⟩

/-- the three Expr-level passes keep the fragment, WITH constants: in particular (arbitrary `T`)
no pass invents a variable or a constant id -/
theorem exprPipeline_ok {k : Bool} {T : Int → Int → Bool} (hT : k = true → TermT T) {f g : Nat}
    {e0 e1 e2 e3 : Expr} (hok : Ok k T e0 = true)
    (h1 : automaticSimplify true f e0 = .ok e1) (h2 : foldConstants g e1 = .ok e2)
    (h3 : optionalModifications e2 = .ok e3) :
    Ok k T e1 = true ∧ Ok k T e2 = true ∧ Ok k T e3 = true := by
  have hok1 := (Auto.automaticSimplify_sound hok h1).1
  have hok2 := foldConstants_ok hT hok1 h2
  exact ⟨hok1, hok2, optionalModifications_ok hok2 h3⟩

/-- every variable / constant id of the simplified expression occurs in the original one -/
theorem exprPipeline_terms_subset {f g : Nat} {e0 e1 e2 e3 : Expr} (hok : IntPow e0)
    (h1 : automaticSimplify true f e0 = .ok e1) (h2 : foldConstants g e1 = .ok e2)
    (h3 : optionalModifications e2 = .ok e3) :
    ∀ o v, hasTerm o v e3 = true → o = INTEGER ∨ hasTerm o v e0 = true :=
  terms_subset_of_Ok (exprPipeline_ok (fun h => by cases h) (Ok_self hok) h1 h2 h3).2.2

/-- the Expr-level pipeline WITH constants refines up to a reparametrisation of the constants, provided
the constant-folding step of this run does (the one ingredient not proved here) -/
theorem exprPipeline_sound_of_fold {k : Bool} {T : Int → Int → Bool} {f g : Nat}
    {e0 e1 e2 e3 : Expr} (hok : Ok k T e0 = true)
    (h1 : automaticSimplify true f e0 = .ok e1) (_h2 : foldConstants g e1 = .ok e2)
    (h3 : optionalModifications e2 = .ok e3)
    (hfold : ∀ cv : Int → ℝ, ∃ cv' : Int → ℝ, ∀ x, e1.den x cv ⊑ e2.den x cv') :
    ∀ cv : Int → ℝ, ∃ cv' : Int → ℝ, ∀ x, e0.den x cv ⊑ e3.den x cv' := by
  intro cv
  obtain ⟨cv', hcv'⟩ := hfold cv
  refine ⟨cv', fun x => ?_⟩
  exact ((Auto.automaticSimplify_sound hok h1).2 x cv).trans
    ((hcv' x).trans (optionalModifications_sound h3 x cv'))

theorem termT_termsOf (D : Nat) (s : Stack) : TermT (termsOf D s) := by
  intro o v h
  simp only [termsOf, Bool.or_eq_true, Bool.and_eq_true, beq_iff_eq] at h
  rcases h with h | h
  · exact termT_varsBelow D o v h
  · exact Or.inr h.1

/-- `simp_wf`: on power-free stacks (constants allowed) the output of a successful strict run is a
well-formed stack: non-empty, every operator row references earlier rows only, every variable is one
of the `D` inputs -/
theorem simplify_stack_wf {D L : Nat} {s s' : Stack} (hwf : WF.WFEval D L s) (hnp : NoPowRows s)
    (h : simplifyWith true s = .ok s') : WF.wf D none none s' = true := by
  obtain ⟨e0, e1, e2, e3, h0, h1, h2, h3, h4⟩ := simplifyWith_ok h
  have hok0 := buildCas_ok_gen hwf hnp h0
  have hok3 := (exprPipeline_ok (fun _ => termT_termsOf D s) hok0 h1 h2 h3).2.2
  refine buildAgraphStack_wf_gen ?_ hok3 h4
  intro o v hT
  simp only [termsOf, Bool.or_eq_true, Bool.and_eq_true, beq_iff_eq] at hT
  rcases hT with hT | hT
  · exact Or.inl hT
  · exact Or.inr hT.1

/-- the partial (conventional) meaning of a source stack at the data row `x`: the meaning of the
expression `build_cas_expression` reads off it (`none`: undefined there, e.g. a division by zero).
For a constant-free stack `cv` is irrelevant. -/
noncomputable def stackDen (x : List ℝ) (cv : Int → ℝ) (s : Stack) : Option ℝ :=
  match buildCasExpression s with
  | .ok e => e.den x cv
  | .error _ => none

/-- end to end on stacks, constant-free and power-free, strict integer arithmetic -/
theorem simplify_stack_noconst {D : Nat} {s s' : Stack} (hwf : WF.WFEval D 0 s)
    (hnp : NoPowRows s) (h : simplifyWith true s = .ok s') :
    WF.wf D none none s' = true ∧
    ∀ (x : List ℝ) (cv : Int → ℝ) (v : ℝ), x.length = D → stackDen x cv s = some v →
      MathSem.den x [] (ETree.ofStack s) = some v ∧
      MathSem.den x [] (ETree.ofStack s') = some v := by
  obtain ⟨e0, e1, e2, e3, h0, h1, h2, h3, h4⟩ := simplifyWith_ok h
  obtain ⟨m, hm⟩ := fuelFor_pos s.length
  rw [hm] at h2
  have hok0 := buildCas_ok hwf hnp h0
  obtain ⟨hok3, _, hd⟩ := exprPipeline_noconst (noConstT_varsBelow D) hok0 h1 h2 h3
  refine ⟨buildAgraphStack_wf hok3 h4, fun x cv v hx hv => ?_⟩
  unfold stackDen at hv
  rw [h0] at hv
  exact ⟨buildCas_den_noconst hwf h0 hx hv,
    buildAgraphStack_den_noconst hok3 h4 hx (hd x cv v hv)⟩

end Cas
end Bingo
