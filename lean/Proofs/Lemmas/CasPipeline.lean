import Proofs.Lemmas.CasAutoTop
import Proofs.Lemmas.CasFoldSound
import Proofs.Lemmas.CasInterpC
import Proofs.Lemmas.CasInterpP
import Proofs.Lemmas.CasNoNp
import Proofs.Lemmas.CasTerms
import Proofs.Lemmas.CasFuelMono
/-!
# The whole pipeline `simplifyWith true` on constant-free, power-free stacks

`buildCasExpression` → `automaticSimplify` → `foldConstants` → `optionalModifications` →
`buildAgraphStack`, composed from the per-pass lemmas.
-/
namespace Bingo
namespace Cas
open Gen.OpDefs Expr CasInterp

theorem fuelFor_pos (n : Nat) : ∃ m, fuelFor n = m + 1 := by
  refine ⟨fuelFor n - 1, ?_⟩
  have : 0 < fuelFor n := by
    unfold fuelFor
    exact Nat.mul_pos (Nat.mul_pos (by decide) (Nat.succ_pos _)) (Nat.succ_pos _)
  omega

/-- the three Expr-level passes on an expression without admissible `CONSTANT` terminal:
the result stays in the fragment and refines the input -/
theorem exprPipeline_noconst {k : Bool} {T : Int → Int → Bool} {f g : Nat} {e0 e1 e2 e3 : Expr}
    (hT : ∀ v, T CONSTANT v = false) (hok : Ok k T e0 = true)
    (h1 : automaticSimplify true f e0 = .ok e1) (h2 : foldConstants (g+1) e1 = .ok e2)
    (h3 : optionalModifications e2 = .ok e3) :
    Ok k T e3 = true ∧ e2 = groupConstants e1 ∧ ∀ x cv, e0.den x cv ⊑ e3.den x cv := by
  obtain ⟨hok1, hd1⟩ := Auto.automaticSimplify_sound hok h1
  have h2' := foldConstants_noconst g hok1 hT
  rw [h2'] at h2
  cases h2
  have hok2 : Ok k T (groupConstants e1) = true := groupConstants_ok hok1
  refine ⟨optionalModifications_ok hok2 h3, rfl, fun x cv => ?_⟩
  refine (hd1 x cv).trans ?_
  rw [← groupConstants_sound e1 x cv]
  exact optionalModifications_sound h3 x cv

/-- unfolding of `simplifyWith` into its five passes -/
theorem simplifyWith_ok {st : Bool} {s s' : Stack} (h : simplifyWith st s = .ok s') :
    ∃ e0 e1 e2 e3, buildCasExpression s = .ok e0 ∧
      automaticSimplify st (fuelFor s.length) e0 = .ok e1 ∧
      foldConstants (fuelFor s.length) e1 = .ok e2 ∧ optionalModifications e2 = .ok e3 ∧
      buildAgraphStack e3 = .ok s' := by
  unfold simplifyWith at h
  obtain ⟨e0, h0, h⟩ := Auto.bind_ok h
  obtain ⟨e1, h1, h⟩ := Auto.bind_ok h
  obtain ⟨e2, h2, h⟩ := Auto.bind_ok h
  obtain ⟨e3, h3, h⟩ := Auto.bind_ok h
  exact ⟨e0, e1, e2, e3, h0, h1, h2, h3, h⟩

/-- the three Expr-level passes keep the fragment, WITH constants: in particular (arbitrary `T`)
no pass invents a variable or a constant id -/
theorem exprPipeline_ok {k : Bool} {T : Int → Int → Bool} (hT : k = true → TermT T) {f g : Nat}
    {e0 e1 e2 e3 : Expr} (hok : Ok k T e0 = true)
    (h1 : automaticSimplify true f e0 = .ok e1) (h2 : foldConstants g e1 = .ok e2)
    (h3 : optionalModifications e2 = .ok e3) :
    Ok k T e1 = true ∧ Ok k T e2 = true ∧ Ok k T e3 = true := by
  have hok1 := (Auto.automaticSimplify_sound hok h1).1
  have hok2 := foldConstants_ok hT hok1 h2
  exact ⟨hok1, hok2, optionalModifications_ok hok2 h3⟩

/-- every variable / constant id of the simplified expression occurs in the original one -/
theorem exprPipeline_terms_subset {f g : Nat} {e0 e1 e2 e3 : Expr} (hok : IntPow e0)
    (h1 : automaticSimplify true f e0 = .ok e1) (h2 : foldConstants g e1 = .ok e2)
    (h3 : optionalModifications e2 = .ok e3) :
    ∀ o v, hasTerm o v e3 = true → o = INTEGER ∨ hasTerm o v e0 = true :=
  terms_subset_of_Ok (exprPipeline_ok (fun h => by cases h) (Ok_self hok) h1 h2 h3).2.2

/-- the Expr-level pipeline WITH constants refines up to a reparametrisation of the constants, provided
the constant-folding step of this run does (the one ingredient not proved here) -/
theorem exprPipeline_sound_of_fold {k : Bool} {T : Int → Int → Bool} {f g : Nat}
    {e0 e1 e2 e3 : Expr} (hok : Ok k T e0 = true)
    (h1 : automaticSimplify true f e0 = .ok e1) (_h2 : foldConstants g e1 = .ok e2)
    (h3 : optionalModifications e2 = .ok e3)
    (hfold : ∀ cv : Int → ℝ, ∃ cv' : Int → ℝ, ∀ x, e1.den x cv ⊑ e2.den x cv') :
    ∀ cv : Int → ℝ, ∃ cv' : Int → ℝ, ∀ x, e0.den x cv ⊑ e3.den x cv' := by
  intro cv
  obtain ⟨cv', hcv'⟩ := hfold cv
  refine ⟨cv', fun x => ?_⟩
  exact ((Auto.automaticSimplify_sound hok h1).2 x cv).trans
    ((hcv' x).trans (optionalModifications_sound h3 x cv'))

theorem termT_termsOf (D : Nat) (s : Stack) : TermT (termsOf D s) := by
  intro o v h
  simp only [termsOf, Bool.or_eq_true, Bool.and_eq_true, beq_iff_eq] at h
  rcases h with h | h
  · exact termT_varsBelow D o v h
  · exact Or.inr h.1

/-- the Expr-level pipeline WITH constants refines up to a reparametrisation of the constants (which does
not depend on the data row) -/
theorem exprPipeline_sound {k : Bool} {T : Int → Int → Bool} (hT : TermT T) {f g : Nat}
    {e0 e1 e2 e3 : Expr} (hok : Ok k T e0 = true)
    (h1 : automaticSimplify true f e0 = .ok e1) (h2 : foldConstants g e1 = .ok e2)
    (h3 : optionalModifications e2 = .ok e3) :
    ∀ cv : Int → ℝ, ∃ cv' : Int → ℝ, ∀ x, e0.den x cv ⊑ e3.den x cv' :=
  exprPipeline_sound_of_fold hok h1 h2 h3
    (foldConstants_sound hT (Auto.automaticSimplify_sound hok h1).1 h2)

/-- **`simp_wf`**: on stacks whose `POWER` rows have INTEGER-literal exponents (constants allowed) the
output of a successful strict run is a well-formed stack, and after the constant renumbering of
`AGraph._update` it is an input of the evaluation backend with `numConsts s'` constants -/
theorem simplify_stack_wf {D L : Nat} {s s' : Stack} (hwf : WF.WFEval D L s) (hnp : PowLitRows s)
    (h : simplifyWith true s = .ok s') :
    WF.wf D none none s' = true ∧
      WF.WFEval D (Renumber.numConsts s') (Renumber.renumber s') := by
  obtain ⟨e0, e1, e2, e3, h0, h1, h2, h3, h4⟩ := simplifyWith_ok h
  have hok0 := buildCas_ok_pow_gen hwf hnp h0
  have hok3 := (exprPipeline_ok (fun _ => termT_termsOf D s) hok0 h1 h2 h3).2.2
  exact ⟨buildAgraphStack_wf_gen (termsOf_hTD D s) hok3 h4,
    buildAgraphStack_wfeval_consts (termsOf_hTD D s) hok3 h4⟩

/-- end to end on stacks WITH constants (strict run): no more constants than before, and for every value
of the original constants there are values of the new ones such that, at every data row where the source
stack is conventionally defined (`pden`), the simplified and renumbered stack has the same value -/
theorem simplify_stack_consts {D L : Nat} {s s' : Stack} (hwf : WF.WFEval D L s)
    (hnp : PowLitRows s) (h : simplifyWith true s = .ok s') :
    Renumber.numConsts s' ≤ Renumber.numConsts s ∧
    ∀ c : List ℝ, c.length = L → ∃ c' : List ℝ, c'.length = Renumber.numConsts s' ∧
      ∀ (x : List ℝ) (v : ℝ), x.length = D → pden x c (ETree.ofStack s) = some v →
        MathSem.den x c' (ETree.ofStack (Renumber.renumber s')) = some v := by
  obtain ⟨e0, e1, e2, e3, h0, h1, h2, h3, h4⟩ := simplifyWith_ok h
  have hok0 := buildCas_ok_pow_gen hwf hnp h0
  have hok3 := (exprPipeline_ok (fun _ => termT_termsOf D s) hok0 h1 h2 h3).2.2
  obtain ⟨ids, hlen, hnd, hmem, hden⟩ := buildAgraphStack_den_consts (termsOf_hTD D s) hok3 h4
  refine ⟨?_, fun c hc => ?_⟩
  · rw [← hlen]
    exact numConsts_simplified_le ids hnd (fun id hid => termsOf_const (hmem id hid).1)
  · obtain ⟨cv', hcv'⟩ := exprPipeline_sound (termT_termsOf D s) hok0 h1 h2 h3 (cvOf s c)
    refine ⟨ids.map cv', by rw [List.length_map, hlen], fun x v hx hv => ?_⟩
    rw [← buildCas_den_eq hwf h0 hx hc] at hv
    exact hden x cv' v (hcv' x v hv)

/-- end to end on constant-free stacks (strict run): the simplified stack is well formed and, at every
data row where the source stack is conventionally defined, has the same value (no renumbering needed) -/
theorem simplify_stack_noconst {D : Nat} {s s' : Stack} (hwf : WF.WFEval D 0 s)
    (hnp : PowLitRows s) (h : simplifyWith true s = .ok s') :
    WF.wf D none none s' = true ∧
    ∀ (x : List ℝ) (v : ℝ), x.length = D → pden x [] (ETree.ofStack s) = some v →
      MathSem.den x [] (ETree.ofStack s') = some v := by
  obtain ⟨e0, e1, e2, e3, h0, h1, h2, h3, h4⟩ := simplifyWith_ok h
  obtain ⟨m, hm⟩ := fuelFor_pos s.length
  rw [hm] at h2
  have hok0 := buildCas_ok_pow hwf hnp h0
  obtain ⟨hok3, _, hd⟩ := exprPipeline_noconst (noConstT_varsBelow D) hok0 h1 h2 h3
  refine ⟨buildAgraphStack_wf hok3 h4, fun x v hx hv => ?_⟩
  rw [← buildCas_den_eq_noconst (cv := fun _ => 0) hwf h0] at hv
  exact buildAgraphStack_den_noconst hok3 h4 hx (hd x _ v hv)

end Cas
end Bingo
