import Proofs.Lemmas.Partials
import Model.WF
/-!
# What `Eval.fwd` computes on a well-formed stack (over ℝ)

`fwd_spec`: on a `WFEval D L` stack with `D` data columns and `L` constants the forward sweep
never raises, and row `i` holds `rowVal` of its command: the loaded column / constant / integer
for terminals, `opFn node` of the two operand rows for operators.  Uses the *generated*
`Gen.OpRules.fwdRules`.
-/
namespace Bingo
namespace AD
open Gen.OpDefs

/-! ## reading `WFEval` row by row -/

lemma rowsOK_get {D : Nat} {L : Option Nat} {ops : Option (List Int)} :
    ∀ (l : List Cmd) (k : Nat), WF.rowsOK D L ops k l = true →
      ∀ i (hi : i < l.length), WF.rowOK D L ops (k + i) l[i] = true
  | [], _, _, i, hi => by simp at hi
  | cmd :: rest, k, h, i, hi => by
    simp only [WF.rowsOK, Bool.and_eq_true] at h
    cases i with
    | zero => simpa using h.1
    | succ i =>
      have := rowsOK_get rest (k+1) h.2 i (by simpa using hi)
      simpa [Nat.add_assoc, Nat.add_comm 1 i] using this

lemma rowOK_of_wf {D L : Nat} {s : Stack} (h : WF.WFEval D L s) (i : Nat) (hi : i < s.length) :
    WF.rowOK D (some L) none i s[i] = true := by
  unfold WF.WFEval WF.wf at h
  simp only [Bool.and_eq_true] at h
  simpa using rowsOK_get s 0 h.2 i hi

lemma length_pos_of_wf {D L : Nat} {s : Stack} (h : WF.WFEval D L s) : 0 < s.length := by
  unfold WF.WFEval WF.wf at h
  cases s with
  | nil => simp at h
  | cons => simp

/-- the four kinds of row a `WFEval` stack has -/
lemma rowOK_cases {D L i : Nat} {cmd : Cmd} (h : WF.rowOK D (some L) none i cmd = true) :
    (cmd.node = VARIABLE ∧ 0 ≤ cmd.p1 ∧ cmd.p1 < D) ∨
    (cmd.node = CONSTANT ∧ 0 ≤ cmd.p1 ∧ cmd.p1 < L) ∨
    cmd.node = INTEGER ∨
    (Ops.isTerminal cmd.node = some false ∧ 0 ≤ cmd.p1 ∧ cmd.p1 < i ∧ 0 ≤ cmd.p2 ∧ cmd.p2 < i) := by
  unfold WF.rowOK at h
  split at h
  · split_ifs at h with h1 h2
    · left; simp at h; exact ⟨h1, h.1, h.2⟩
    · right; left; simp at h; exact ⟨h2, h.1, h.2⟩
    · right; right; left; simpa using h
  · right; right; right
    rename_i hT _
    simp at h
    exact ⟨hT, h.1.1.1, h.1.1.2, h.1.2, h.2⟩
  · simp at h

lemma isTerminal_VARIABLE : Ops.isTerminal VARIABLE = some true := by decide
lemma isTerminal_CONSTANT : Ops.isTerminal CONSTANT = some true := by decide
lemma isTerminal_INTEGER : Ops.isTerminal INTEGER = some true := by decide

/-! ## row values -/

/-- value of a terminal row -/
def leafVal (x c : List ℝ) (cmd : Cmd) : ℝ :=
  if cmd.node = VARIABLE then x.getD cmd.p1.toNat 0
  else if cmd.node = CONSTANT then c.getD cmd.p1.toNat 0
  else (cmd.p1 : ℝ)

/-- value of a row, given the values `v` of the rows below it -/
noncomputable def rowVal (x c : List ℝ) (v : Nat → ℝ) (cmd : Cmd) : ℝ :=
  if Ops.isTerminal cmd.node = some false then
    opFn cmd.node (v cmd.p1.toNat) (v cmd.p2.toNat)
  else leafVal x c cmd

lemma rowVal_congr {x c : List ℝ} {v v' : Nat → ℝ} {cmd : Cmd}
    (h : Ops.isTerminal cmd.node = some false →
      v cmd.p1.toNat = v' cmd.p1.toNat ∧ v cmd.p2.toNat = v' cmd.p2.toNat) :
    rowVal x c v cmd = rowVal x c v' cmd := by
  unfold rowVal
  split_ifs with hop
  · rw [(h hop).1, (h hop).2]
  · rfl

/-- the generated forward rule of an operator node computes `opFn` -/
lemma fwdRule_op {n : Int} (hop : Ops.isTerminal n = some false) (cx : RuleCtx ℝ) {a b : ℝ}
    (h1 : cx.fwd .p1 = some a) (h2 : cx.fwd .p2 = some b) :
    ∃ rule, Eval.fwdRule n = some rule ∧ rule.interp cx = some (opFn n a b) := by
  rcases isOp_cases hop with rfl | rfl | rfl | rfl | rfl | rfl | rfl | rfl | rfl | rfl | rfl | rfl | rfl | rfl
  · exact ⟨_, rfl, by simp [RExpr.interp, h1, h2, opFn_add]⟩
  · exact ⟨_, rfl, by simp [RExpr.interp, h1, h2, opFn_sub]⟩
  · exact ⟨_, rfl, by simp [RExpr.interp, h1, h2, opFn_mul]⟩
  · exact ⟨_, rfl, by simp [RExpr.interp, h1, h2, opFn_div]⟩
  · exact ⟨_, rfl, by simp [RExpr.interp, h1, opFn_sin, UnFn.apply]⟩
  · exact ⟨_, rfl, by simp [RExpr.interp, h1, opFn_cos, UnFn.apply]⟩
  · exact ⟨_, rfl, by simp [RExpr.interp, h1, opFn_exp, UnFn.apply]⟩
  · exact ⟨_, rfl, by simp [RExpr.interp, h1, opFn_log, UnFn.apply]⟩
  · exact ⟨_, rfl, by simp [RExpr.interp, h1, h2, opFn_pow]⟩
  · exact ⟨_, rfl, by simp [RExpr.interp, h1, opFn_abs, UnFn.apply]⟩
  · exact ⟨_, rfl, by simp [RExpr.interp, h1, opFn_sqrt, UnFn.apply]⟩
  · exact ⟨_, rfl, by simp [RExpr.interp, h1, h2, opFn_safe_pow, UnFn.apply]⟩
  · exact ⟨_, rfl, by simp [RExpr.interp, h1, opFn_sinh, UnFn.apply]⟩
  · exact ⟨_, rfl, by simp [RExpr.interp, h1, opFn_cosh, UnFn.apply]⟩

lemma getElem?_toNat_of_bounds {l : List ℝ} {p : Int} (h0 : 0 ≤ p) (h1 : p < l.length) :
    (pyIdx l.length p).bind (l[·]?) = some (l.getD p.toNat 0) := by
  have hlt : p.toNat < l.length := by omega
  rw [pyIdx_of_lt h0 hlt]
  simp [List.getD_eq_getElem?_getD, hlt]

lemma fwdRow_spec {D L N : Nat} {x c acc : List ℝ} {cmd : Cmd} (hx : x.length = D)
    (hc : c.length = L) (hN : acc.length ≤ N)
    (h : WF.rowOK D (some L) none acc.length cmd = true) :
    Eval.fwdRow N x c acc cmd = some (rowVal x c (fun k => acc.getD k 0) cmd) := by
  rcases rowOK_cases h with ⟨hn, h0, h1⟩ | ⟨hn, h0, h1⟩ | hn | ⟨hop, h0, h1, h2, h3⟩
  · have : Eval.fwdRule cmd.node = some .loadX := by rw [hn]; rfl
    simp only [Eval.fwdRow, this, RExpr.interp, Eval.fwdCtx]
    rw [getElem?_toNat_of_bounds h0 (by omega)]
    simp [rowVal, leafVal, hn, isTerminal_VARIABLE]
  · have : Eval.fwdRule cmd.node = some .loadC := by rw [hn]; rfl
    have hne : ¬ (CONSTANT = VARIABLE) := by decide
    simp only [Eval.fwdRow, this, RExpr.interp, Eval.fwdCtx]
    rw [getElem?_toNat_of_bounds h0 (by omega)]
    simp [rowVal, leafVal, hn, isTerminal_CONSTANT, hne]
  · have : Eval.fwdRule cmd.node = some .intParam := by rw [hn]; rfl
    have hne : ¬ (INTEGER = VARIABLE) := by decide
    have hne' : ¬ (INTEGER = CONSTANT) := by decide
    simp only [Eval.fwdRow, this, RExpr.interp, Eval.fwdCtx]
    simp [rowVal, leafVal, hn, isTerminal_INTEGER, hne, hne']
  · have hp : (Eval.fwdCtx N x c acc cmd).fwd .p1 = some (acc.getD cmd.p1.toNat 0) := by
      have hlt : cmd.p1.toNat < acc.length := by omega
      simp only [Eval.fwdCtx, Eval.lookupFwd]
      rw [pyIdx_of_lt h0 (by omega)]
      simp [List.getD_eq_getElem?_getD, hlt]
    have hq : (Eval.fwdCtx N x c acc cmd).fwd .p2 = some (acc.getD cmd.p2.toNat 0) := by
      have hlt : cmd.p2.toNat < acc.length := by omega
      simp only [Eval.fwdCtx, Eval.lookupFwd]
      rw [pyIdx_of_lt h2 (by omega)]
      simp [List.getD_eq_getElem?_getD, hlt]
    obtain ⟨rule, hr, hi⟩ := fwdRule_op hop _ hp hq
    simp only [Eval.fwdRow, hr, hi, rowVal, hop, if_true]

lemma fwdAux_spec {D L N : Nat} {x c : List ℝ} (hx : x.length = D) (hc : c.length = L) :
    ∀ (rest : List Cmd) (acc : List ℝ), acc.length + rest.length ≤ N →
      (∀ k (hk : k < rest.length), WF.rowOK D (some L) none (acc.length + k) rest[k] = true) →
      ∃ fw, Eval.fwdAux N x c rest acc = some fw ∧ fw.length = acc.length + rest.length ∧
        (∀ k, k < acc.length → fw.getD k 0 = acc.getD k 0) ∧
        ∀ k (hk : k < rest.length),
          fw.getD (acc.length + k) 0 = rowVal x c (fun m => fw.getD m 0) rest[k]
  | [], acc, _, _ => ⟨acc, rfl, by simp, fun _ _ => rfl, fun k hk => by simp at hk⟩
  | cmd :: rest, acc, hN, hok => by
    have h0 := hok 0 (by simp)
    simp only [Nat.add_zero, List.getElem_cons_zero] at h0
    have hrow := fwdRow_spec (N := N) hx hc (by simp at hN; omega) h0
    set v := rowVal x c (fun k => acc.getD k 0) cmd with hv
    obtain ⟨fw, hfw, hlen, hpre, hrest⟩ := fwdAux_spec (N := N) hx hc rest (acc ++ [v])
      (by simp at hN ⊢; omega)
      (by
        intro k hk
        have := hok (k+1) (by simpa using hk)
        simpa [Nat.add_assoc, Nat.add_comm 1 k] using this)
    refine ⟨fw, by simp [Eval.fwdAux, hrow, hfw], by simp at hlen ⊢; omega, ?_, ?_⟩
    · intro k hk
      rw [hpre k (by simp; omega)]
      simp [List.getD_eq_getElem?_getD, List.getElem?_append_left hk]
    · intro k hk
      cases k with
      | zero =>
        simp only [Nat.add_zero, List.getElem_cons_zero]
        rw [hpre acc.length (by simp)]
        have : (acc ++ [v]).getD acc.length 0 = v := by simp [List.getD_eq_getElem?_getD]
        rw [this, hv]
        apply rowVal_congr
        intro hop
        rcases rowOK_cases h0 with ⟨hn, _⟩ | ⟨hn, _⟩ | hn | ⟨_, b0, b1, b2, b3⟩
        · rw [hn, isTerminal_VARIABLE] at hop; cases hop
        · rw [hn, isTerminal_CONSTANT] at hop; cases hop
        · rw [hn, isTerminal_INTEGER] at hop; cases hop
        · have e : ∀ m, m < acc.length → acc.getD m 0 = fw.getD m 0 := by
            intro m hm
            rw [hpre m (by simp; omega)]
            simp [List.getD_eq_getElem?_getD, List.getElem?_append_left hm]
          exact ⟨e _ (by omega), e _ (by omega)⟩
      | succ k =>
        have := hrest k (by simpa using hk)
        simpa [Nat.add_assoc, Nat.add_comm 1 k] using this

/-- **Forward sweep on a well-formed stack**: total, and every row holds its `rowVal`. -/
theorem fwd_spec {D L : Nat} {s : Stack} (hwf : WF.WFEval D L s) {x c : List ℝ}
    (hx : x.length = D) (hc : c.length = L) :
    ∃ fw, Eval.fwd s x c = some fw ∧ fw.length = s.length ∧
      ∀ i (hi : i < s.length), fw.getD i 0 = rowVal x c (fun m => fw.getD m 0) s[i] := by
  obtain ⟨fw, h1, h2, _, h4⟩ := fwdAux_spec (N := s.length) hx hc s [] (by simp)
    (by intro k hk; simpa using rowOK_of_wf hwf k hk)
  exact ⟨fw, h1, by simpa using h2, by intro i hi; simpa using h4 i hi⟩

end AD
end Bingo
