import Model.Cas.Simplify
import Proofs.Lemmas.MathSem
import Mathlib.Tactic.Ring
import Mathlib.Tactic.Linarith
/-!
# Partial real semantics of CAS expressions and the refinement order

`Expr.den x cv e : Option ℝ` is the *conventional* (partial) meaning of a CAS expression at the data
row `x`, with `cv id` the value of the constant `id`: division by zero, `log 0`, `0 ^ negative`, ...
are undefined (`none`), as is every ill-formed expression (wrong arity, unknown operator).

`a ⊑ b` ("`b` refines `a`"): wherever `a` is defined, `b` is defined and equal.
-/
namespace Bingo
namespace Cas
open Gen.OpDefs

/-! ## the refinement order on `Option ℝ` -/

/-- wherever the left side is defined the right side is defined and equal -/
def Refines (a b : Option ℝ) : Prop := ∀ v, a = some v → b = some v

@[inherit_doc] infix:50 " ⊑ " => Refines

theorem Refines.refl (a : Option ℝ) : a ⊑ a := fun _ h => h
theorem Refines.rfl' {a : Option ℝ} : a ⊑ a := fun _ h => h
theorem Refines.of_eq {a b : Option ℝ} (h : a = b) : a ⊑ b := fun _ h' => h ▸ h'
theorem Refines.trans {a b c : Option ℝ} (h1 : a ⊑ b) (h2 : b ⊑ c) : a ⊑ c :=
  fun v h => h2 v (h1 v h)
theorem Refines.none_left (b : Option ℝ) : none ⊑ b := fun _ h => by cases h
theorem Refines.some_left {v : ℝ} {b : Option ℝ} : some v ⊑ b ↔ b = some v :=
  ⟨fun h => h v rfl, fun h w hw => by cases hw; exact h⟩
theorem Refines.eq_of_some {a b : Option ℝ} {v : ℝ} (h : a ⊑ b) (ha : a = some v) : b = some v :=
  h v ha

instance : Trans Refines Refines Refines := ⟨Refines.trans⟩

/-! ## lifted arithmetic on `Option ℝ` -/

/-- `a + b`, defined iff both are -/
def oadd (a b : Option ℝ) : Option ℝ := a.bind fun x => b.map fun y => x + y
/-- `a * b`, defined iff both are -/
def omul (a b : Option ℝ) : Option ℝ := a.bind fun x => b.map fun y => x * y

/-- n-ary sum (empty sum `0`), defined iff every summand is -/
def osum (l : List (Option ℝ)) : Option ℝ := l.foldr oadd (some 0)
/-- n-ary product (empty product `1`), defined iff every factor is -/
def oprod (l : List (Option ℝ)) : Option ℝ := l.foldr omul (some 1)

@[simp] theorem oadd_some (a b : ℝ) : oadd (some a) (some b) = some (a + b) := rfl
@[simp] theorem omul_some (a b : ℝ) : omul (some a) (some b) = some (a * b) := rfl
@[simp] theorem oadd_none_left (b : Option ℝ) : oadd none b = none := rfl
@[simp] theorem omul_none_left (b : Option ℝ) : omul none b = none := rfl
@[simp] theorem oadd_none_right (a : Option ℝ) : oadd a none = none := by cases a <;> rfl
@[simp] theorem omul_none_right (a : Option ℝ) : omul a none = none := by cases a <;> rfl

theorem oadd_comm (a b : Option ℝ) : oadd a b = oadd b a := by
  cases a <;> cases b <;> simp [add_comm]
theorem omul_comm (a b : Option ℝ) : omul a b = omul b a := by
  cases a <;> cases b <;> simp [mul_comm]
theorem oadd_assoc (a b c : Option ℝ) : oadd (oadd a b) c = oadd a (oadd b c) := by
  cases a <;> cases b <;> cases c <;> simp [add_assoc]
theorem omul_assoc (a b c : Option ℝ) : omul (omul a b) c = omul a (omul b c) := by
  cases a <;> cases b <;> cases c <;> simp [mul_assoc]
@[simp] theorem oadd_zero (a : Option ℝ) : oadd a (some 0) = a := by cases a <;> simp
@[simp] theorem zero_oadd (a : Option ℝ) : oadd (some 0) a = a := by cases a <;> simp
@[simp] theorem omul_one (a : Option ℝ) : omul a (some 1) = a := by cases a <;> simp
@[simp] theorem one_omul (a : Option ℝ) : omul (some 1) a = a := by cases a <;> simp

instance : Std.Commutative oadd := ⟨oadd_comm⟩
instance : Std.Associative oadd := ⟨oadd_assoc⟩
instance : Std.Commutative omul := ⟨omul_comm⟩
instance : Std.Associative omul := ⟨omul_assoc⟩

theorem omul_oadd (a b c : Option ℝ) : omul a (oadd b c) = oadd (omul a b) (omul a c) := by
  cases a <;> cases b <;> cases c <;> simp [mul_add]
theorem oadd_omul (a b c : Option ℝ) : omul (oadd a b) c = oadd (omul a c) (omul b c) := by
  cases a <;> cases b <;> cases c <;> simp [add_mul]

theorem oadd_mono {a a' b b' : Option ℝ} (h1 : a ⊑ a') (h2 : b ⊑ b') : oadd a b ⊑ oadd a' b' := by
  intro v hv
  cases a with
  | none => simp at hv
  | some x =>
    cases b with
    | none => simp at hv
    | some y => rw [h1 x rfl, h2 y rfl]; exact hv
theorem omul_mono {a a' b b' : Option ℝ} (h1 : a ⊑ a') (h2 : b ⊑ b') : omul a b ⊑ omul a' b' := by
  intro v hv
  cases a with
  | none => simp at hv
  | some x =>
    cases b with
    | none => simp at hv
    | some y => rw [h1 x rfl, h2 y rfl]; exact hv

theorem bind_mono {a a' : Option ℝ} {f g : ℝ → Option ℝ} (h1 : a ⊑ a') (h2 : ∀ x, f x ⊑ g x) :
    a.bind f ⊑ a'.bind g := by
  intro v hv
  cases a with
  | none => simp at hv
  | some x => rw [h1 x rfl]; exact h2 x v hv

/-- `0 * u ⊑ 0` even where `u` is undefined -/
theorem zero_omul_refines (u : Option ℝ) : omul (some 0) u ⊑ some 0 := by
  cases u <;> simp [Refines]
theorem omul_zero_refines (u : Option ℝ) : omul u (some 0) ⊑ some 0 := by
  cases u <;> simp [Refines]

@[simp] theorem osum_nil : osum [] = some 0 := rfl
@[simp] theorem oprod_nil : oprod [] = some 1 := rfl
@[simp] theorem osum_cons (a : Option ℝ) (l) : osum (a :: l) = oadd a (osum l) := rfl
@[simp] theorem oprod_cons (a : Option ℝ) (l) : oprod (a :: l) = omul a (oprod l) := rfl
theorem osum_append (l₁ l₂ : List (Option ℝ)) : osum (l₁ ++ l₂) = oadd (osum l₁) (osum l₂) := by
  induction l₁ with
  | nil => simp
  | cons a l ih => simp [ih, oadd_assoc]
theorem oprod_append (l₁ l₂ : List (Option ℝ)) : oprod (l₁ ++ l₂) = omul (oprod l₁) (oprod l₂) := by
  induction l₁ with
  | nil => simp
  | cons a l ih => simp [ih, omul_assoc]

theorem osum_map_some (l : List ℝ) : osum (l.map some) = some l.sum := by
  induction l with
  | nil => rfl
  | cons a l ih => simp [ih]
theorem oprod_map_some (l : List ℝ) : oprod (l.map some) = some l.prod := by
  induction l with
  | nil => rfl
  | cons a l ih => simp [ih]

theorem oprod_replicate (n : Nat) (a : ℝ) : oprod (List.replicate n (some a)) = some (a ^ n) := by
  induction n with
  | zero => simp
  | succ n ih => simp [List.replicate_succ, ih, pow_succ, mul_comm]

/-! ## node meanings -/

open Classical in
/-- unary operators on their conventional domain -/
noncomputable def unDen (o : Int) (a : ℝ) : Option ℝ :=
  if MathSem.unDefined o a then MathSem.un o a else none

open Classical in
/-- the binary, non-associative operators on their conventional domain (`MathSem.binDefined`) -/
noncomputable def binDen (o : Int) (a b : ℝ) : Option ℝ :=
  if MathSem.binDefined o a b then MathSem.bin o a b else none

open Classical in
/-- `b ^ n` for an integer literal `n`: total for `n ≥ 0` (`0 ^ 0 = 1`), undefined at `b = 0` for `n < 0` -/
noncomputable def zpowDen (n : Int) (b : ℝ) : Option ℝ :=
  if n < 0 ∧ b = 0 then none else some (b ^ n)

/-- the integer literal in exponent position, if any (`np` is irrelevant) -/
def expLit (as : List Expr) : Option Int :=
  match as with
  | [_, e] => e.intVal?.map (·.val)
  | _ => none

/-- meaning of `node o as` given the literal exponent (if any) and the meanings of the operands -/
noncomputable def nodeDen (o : Int) (lit : Option Int) (vs : List (Option ℝ)) : Option ℝ :=
  if o = ADDITION then osum vs
  else if o = MULTIPLICATION then oprod vs
  else match vs with
    | [va] => va.bind (unDen o)
    | [va, vb] =>
      if o = POWER then
        match lit with
        | some n => va.bind (zpowDen n)
        | none => va.bind fun a => vb.bind fun b => binDen POWER a b
      else va.bind fun a => vb.bind fun b => binDen o a b
    | _ => none

/-- meaning of a terminal -/
def termDen (x : List ℝ) (cv : Int → ℝ) (o v : Int) : Option ℝ :=
  if o = INTEGER then some (v : ℝ)
  else if o = VARIABLE then (pyIdx x.length v).bind (x[·]?)
  else if o = CONSTANT then some (cv v)
  else none

namespace Expr

mutual
/-- the partial real semantics of a CAS expression -/
noncomputable def den (x : List ℝ) (cv : Int → ℝ) : Expr → Option ℝ
  | term o v _ => termDen x cv o v
  | node o as => nodeDen o (expLit as) (denList x cv as)
/-- the meanings of an operand list -/
noncomputable def denList (x : List ℝ) (cv : Int → ℝ) : List Expr → List (Option ℝ)
  | [] => []
  | a :: as => den x cv a :: denList x cv as
end

end Expr

open Expr

section den
variable (x : List ℝ) (cv : Int → ℝ)

theorem denList_eq_map (as : List Expr) : denList x cv as = as.map (den x cv) := by
  induction as with
  | nil => rfl
  | cons a as ih => simp [denList, ih]

theorem den_term (o v : Int) (np : Bool) : den x cv (term o v np) = termDen x cv o v := by
  simp [den]
theorem den_node (o : Int) (as : List Expr) :
    den x cv (node o as) = nodeDen o (expLit as) (as.map (den x cv)) := by
  simp [den, denList_eq_map]

/-- product of the meanings of a list of factors -/
noncomputable def P (l : List Expr) : Option ℝ := oprod (l.map (den x cv))
/-- sum of the meanings of a list of summands -/
noncomputable def S (l : List Expr) : Option ℝ := osum (l.map (den x cv))

@[simp] theorem P_nil : P x cv [] = some 1 := rfl
@[simp] theorem S_nil : S x cv [] = some 0 := rfl
@[simp] theorem P_cons (a : Expr) (l) : P x cv (a :: l) = omul (den x cv a) (P x cv l) := rfl
@[simp] theorem S_cons (a : Expr) (l) : S x cv (a :: l) = oadd (den x cv a) (S x cv l) := rfl
theorem P_append (l₁ l₂ : List Expr) : P x cv (l₁ ++ l₂) = omul (P x cv l₁) (P x cv l₂) := by
  simp [P, oprod_append]
theorem S_append (l₁ l₂ : List Expr) : S x cv (l₁ ++ l₂) = oadd (S x cv l₁) (S x cv l₂) := by
  simp [S, osum_append]

theorem den_add (as : List Expr) : den x cv (node ADDITION as) = S x cv as := by
  rw [den_node]; unfold nodeDen; rw [if_pos rfl]; rfl
theorem den_mul (as : List Expr) : den x cv (node MULTIPLICATION as) = P x cv as := by
  rw [den_node]; unfold nodeDen; rw [if_neg (by decide), if_pos rfl]; rfl

theorem den_int (v : Int) (np : Bool) : den x cv (term INTEGER v np) = some (v : ℝ) := by
  simp [den_term, termDen]
theorem den_var (v : Int) (np : Bool) :
    den x cv (term VARIABLE v np) = (pyIdx x.length v).bind (x[·]?) := by
  rw [den_term, termDen, if_neg (by decide), if_pos rfl]
theorem den_const (v : Int) (np : Bool) : den x cv (term CONSTANT v np) = some (cv v) := by
  rw [den_term, termDen, if_neg (by decide), if_neg (by decide), if_pos rfl]

theorem den_ZERO : den x cv ZERO = some 0 := by simp [ZERO, den_int]
theorem den_ONE : den x cv ONE = some 1 := by simp [ONE, den_int]
theorem den_NEGATIVE_ONE : den x cv NEGATIVE_ONE = some (-1) := by simp [NEGATIVE_ONE, den_int]

/-- `POWER` with an integer literal exponent -/
theorem den_pow_lit (b : Expr) (n : Int) (np : Bool) :
    den x cv (node POWER [b, term INTEGER n np]) = (den x cv b).bind (zpowDen n) := by
  rw [den_node]; unfold nodeDen; rw [if_neg (by decide), if_neg (by decide)]
  simp [expLit, intVal?]

/-- `POWER` with any other exponent: the real power on its conventional domain -/
theorem den_pow_gen (b e : Expr) (h : e.intVal? = none) :
    den x cv (node POWER [b, e]) =
      (den x cv b).bind fun a => (den x cv e).bind fun c => binDen POWER a c := by
  rw [den_node]; unfold nodeDen; rw [if_neg (by decide), if_neg (by decide)]
  simp [expLit, h]

theorem den_bin (o : Int) (a b : Expr) (h1 : o ≠ ADDITION) (h2 : o ≠ MULTIPLICATION)
    (h3 : o ≠ POWER) :
    den x cv (node o [a, b]) =
      (den x cv a).bind fun va => (den x cv b).bind fun vb => binDen o va vb := by
  rw [den_node]; unfold nodeDen; rw [if_neg h1, if_neg h2]
  simp [h3]

theorem den_un (o : Int) (a : Expr) (h1 : o ≠ ADDITION) (h2 : o ≠ MULTIPLICATION) :
    den x cv (node o [a]) = (den x cv a).bind (unDen o) := by
  rw [den_node]; unfold nodeDen; rw [if_neg h1, if_neg h2]
  simp

end den

/-! ## `zpowDen` facts -/

theorem zpowDen_nonneg {n : Int} (h : 0 ≤ n) (b : ℝ) : zpowDen n b = some (b ^ n.toNat) := by
  unfold zpowDen
  rw [if_neg (by omega)]
  congr 1
  conv_lhs => rw [← Int.toNat_of_nonneg h]
  exact zpow_natCast b n.toNat

theorem zpowDen_neg {n : Int} (h : n < 0) {b : ℝ} (hb : b ≠ 0) :
    zpowDen n b = some ((b ^ n.natAbs)⁻¹) := by
  unfold zpowDen
  rw [if_neg (by simp [hb])]
  congr 1
  have : n = -(n.natAbs : ℤ) := by omega
  conv_lhs => rw [this]
  rw [zpow_neg, zpow_natCast]

theorem zpowDen_neg_zero {n : Int} (h : n < 0) : zpowDen n 0 = none := by
  unfold zpowDen; rw [if_pos ⟨h, rfl⟩]

theorem zpowDen_one (b : ℝ) : zpowDen 1 b = some b := by
  unfold zpowDen; rw [if_neg (by omega)]; simp
theorem zpowDen_zero (b : ℝ) : zpowDen 0 b = some 1 := by
  unfold zpowDen; rw [if_neg (by omega)]; simp

/-- `b^m · b^n ⊑ b^(m+n)` -/
theorem zpowDen_add (m n : Int) (b : ℝ) :
    omul (zpowDen m b) (zpowDen n b) ⊑ zpowDen (m + n) b := by
  unfold zpowDen
  by_cases hb : b = 0
  · subst hb
    by_cases hm : m < 0
    · simp [hm, Refines]
    · by_cases hn : n < 0
      · simp [hn, Refines]
      · have : ¬ (m + n < 0) := by omega
        simp only [hm, hn, this, false_and, if_false, omul_some]
        apply Refines.of_eq
        congr 1
        have hm' : 0 ≤ m := by omega
        have hn' : 0 ≤ n := by omega
        obtain ⟨a, rfl⟩ := Int.eq_ofNat_of_zero_le hm'
        obtain ⟨c, rfl⟩ := Int.eq_ofNat_of_zero_le hn'
        rw [← Int.natCast_add, zpow_natCast, zpow_natCast, zpow_natCast, pow_add]
  · simp only [hb, and_false, if_false, omul_some]
    exact Refines.of_eq (by rw [zpow_add₀ hb])

/-- `(b^m)^n ⊑ b^(m·n)` -/
theorem zpowDen_mul (m n : Int) (b : ℝ) :
    (zpowDen m b).bind (zpowDen n) ⊑ zpowDen (m * n) b := by
  unfold zpowDen
  by_cases hb : b = 0
  · subst hb
    by_cases hm : m < 0
    · simp [hm, Refines]
    · simp only [hm, false_and, if_false, Option.bind_some]
      by_cases hn : n < 0
      · by_cases hm0 : m = 0
        · subst hm0; simp [Refines]
        · have : (0 : ℝ) ^ m = 0 := zero_zpow m hm0
          simp [hn, this, Refines]
      · have : ¬ (m * n < 0) := by
          have := Int.mul_nonneg (by omega : 0 ≤ m) (by omega : 0 ≤ n); omega
        simp only [hn, this, false_and, if_false]
        exact Refines.of_eq (by rw [zpow_mul])
  · have hbm : b ^ m ≠ 0 := zpow_ne_zero m hb
    simp only [hb, hbm, and_false, if_false, Option.bind_some]
    exact Refines.of_eq (by rw [zpow_mul])

/-- `(a·b)^n ⊑ a^n · b^n` -/
theorem zpowDen_mul_base (n : Int) (a b : ℝ) :
    zpowDen n (a * b) ⊑ omul (zpowDen n a) (zpowDen n b) := by
  unfold zpowDen
  by_cases hn : n < 0
  · by_cases ha : a = 0
    · simp [hn, ha, Refines]
    · by_cases hb : b = 0
      · simp [hn, hb, Refines]
      · simp only [hn, ha, hb, mul_eq_zero, or_self, and_false, if_false, omul_some]
        exact Refines.of_eq (by rw [mul_zpow])
  · simp only [hn, false_and, if_false, omul_some]
    exact Refines.of_eq (by rw [mul_zpow])

theorem zpowDen_one_base (n : Int) : zpowDen n 1 = some 1 := by
  unfold zpowDen; simp

/-! ## structural equality respects the semantics -/

theorem beq_intVal : ∀ {a b : Expr}, a.beq b = true →
    a.intVal?.map (·.val) = b.intVal?.map (·.val) := by
  intro a b h
  cases a with
  | term o v n =>
    cases b with
    | term o' v' n' =>
      simp only [beq, Bool.and_eq_true, beq_iff_eq] at h
      obtain ⟨rfl, rfl⟩ := h
      simp only [intVal?]; split <;> rfl
    | node o' bs => simp [beq] at h
  | node o as =>
    cases b with
    | term o' v' n' => simp [beq] at h
    | node o' bs => rfl

theorem beqList_expLit {as bs : List Expr} (h : beqList as bs = true) : expLit as = expLit bs := by
  match as, bs, h with
  | [], [], _ => rfl
  | [], _ :: _, h => simp [beqList] at h
  | _ :: _, [], h => simp [beqList] at h
  | [_], [_], _ => rfl
  | [_], _ :: _ :: _, h => simp [beqList] at h
  | _ :: _ :: _, [_], h => simp [beqList] at h
  | [_, a], [_, b], h =>
    simp only [beqList, Bool.and_eq_true] at h
    simp only [expLit]; exact beq_intVal h.2.1
  | [_, _], _ :: _ :: _ :: _, h => simp [beqList] at h
  | _ :: _ :: _ :: _, [_, _], h => simp [beqList] at h
  | _ :: _ :: _ :: _, _ :: _ :: _ :: _, _ => rfl

mutual
/-- `Expression.__eq__` (which ignores the `numpy`/Python-int kind) implies equal meaning -/
theorem beq_den (x : List ℝ) (cv : Int → ℝ) : ∀ (a b : Expr), a.beq b = true →
    den x cv a = den x cv b
  | term o v n, term o' v' n', h => by
    simp only [beq, Bool.and_eq_true, beq_iff_eq] at h
    obtain ⟨rfl, rfl⟩ := h
    simp [den]
  | term _ _ _, node _ _, h => by simp [beq] at h
  | node _ _, term _ _ _, h => by simp [beq] at h
  | node o as, node o' bs, h => by
    simp only [beq, Bool.and_eq_true, beq_iff_eq] at h
    obtain ⟨rfl, h2⟩ := h
    simp only [den]
    rw [beqList_expLit h2, beqList_den x cv as bs h2]
theorem beqList_den (x : List ℝ) (cv : Int → ℝ) : ∀ (as bs : List Expr), beqList as bs = true →
    denList x cv as = denList x cv bs
  | [], [], _ => rfl
  | [], _ :: _, h => by simp [beqList] at h
  | _ :: _, [], h => by simp [beqList] at h
  | a :: as, b :: bs, h => by
    simp only [beqList, Bool.and_eq_true] at h
    simp only [denList]
    rw [beq_den x cv a b h.1, beqList_den x cv as bs h.2]
end

mutual
theorem beq_refl : ∀ (a : Expr), a.beq a = true
  | term o v n => by simp [beq]
  | node o as => by simp [beq, beqList_refl as]
theorem beqList_refl : ∀ (as : List Expr), beqList as as = true
  | [] => rfl
  | a :: as => by simp [beqList, beq_refl a, beqList_refl as]
end

theorem optBeq_den (x : List ℝ) (cv : Int → ℝ) {a b : Expr}
    (h : optBeq (some a) (some b) = true) : den x cv a = den x cv b :=
  beq_den x cv a b h

/-! ## the fragment

`Ok k T e`: every `POWER` node of `e` has the shape `[b, INTEGER literal]`, there is no `SAFE_POWER`,
and every non-`INTEGER` terminal `term o v _` satisfies `T o v` (so `T` bounds the variables and the
constant ids that may occur).  `IntPow e` is `Ok false (fun _ _ => true) e`.
With `k = true` additionally: the exponent literal is not `1`, every `ADDITION`/`MULTIPLICATION` node
has at least two operands, every node operator is a legal operator number (what the stack builder
needs). -/

def shapeOK (k : Bool) (o : Int) (as : List Expr) : Bool :=
  (o != SAFE_POWER) &&
  (if o = POWER then
    match as with
    | [_, term o' v _] => o' == INTEGER && (!k || v != 1)
    | _ => false
   else true) &&
  (!k || ((Ops.isTerminal o == some false) &&
    (if o = ADDITION ∨ o = MULTIPLICATION then decide (2 ≤ as.length) else true)))

mutual
def Ok (k : Bool) (T : Int → Int → Bool) : Expr → Bool
  | term o v _ => o == INTEGER || T o v
  | node o as => shapeOK k o as && OkList k T as
def OkList (k : Bool) (T : Int → Int → Bool) : List Expr → Bool
  | [] => true
  | a :: as => Ok k T a && OkList k T as
end

/-- every `POWER` has an integer literal exponent; no `SAFE_POWER` -/
abbrev IntPow (e : Expr) : Prop := Ok false (fun _ _ => true) e = true

/-- terminals of a constant-free expression over `D` variables -/
def varsBelow (D : Nat) (o v : Int) : Bool := o == VARIABLE && decide (0 ≤ v) && decide (v < D)

section ok
variable {k : Bool} {T : Int → Int → Bool}

theorem OkList_iff {l : List Expr} : OkList k T l = true ↔ ∀ e ∈ l, Ok k T e = true := by
  induction l with
  | nil => simp [OkList]
  | cons a l ih => simp [OkList, ih]

theorem Ok_node {o : Int} {as : List Expr} :
    Ok k T (node o as) = true ↔ shapeOK k o as = true ∧ ∀ e ∈ as, Ok k T e = true := by
  simp [Ok, OkList_iff]

theorem Ok_term {o v : Int} {np : Bool} :
    Ok k T (term o v np) = true ↔ o = INTEGER ∨ T o v = true := by
  simp [Ok]

theorem Ok_int (v : Int) (np : Bool) : Ok k T (term INTEGER v np) = true := by
  simp [Ok]
theorem Ok_ofPInt (p : PInt) : Ok k T (ofPInt p) = true := Ok_int _ _
theorem Ok_ZERO : Ok k T ZERO = true := Ok_int _ _
theorem Ok_ONE : Ok k T ONE = true := Ok_int _ _
theorem Ok_NEGATIVE_ONE : Ok k T NEGATIVE_ONE = true := Ok_int _ _

theorem shapeOK_weaken {o : Int} {as : List Expr} (h : shapeOK k o as = true) :
    shapeOK false o as = true := by
  simp only [shapeOK, Bool.and_eq_true] at h ⊢
  refine ⟨⟨h.1.1, ?_⟩, by simp⟩
  have h2 := h.1.2
  split at h2
  · rename_i hp
    rw [if_pos hp]
    split at h2
    · simp only [Bool.and_eq_true] at h2; simp [h2.1]
    · cases h2
  · rename_i hp; rw [if_neg hp]

/-- weaken the shape flag and enlarge the set of admissible terminals -/
theorem Ok_mono {T' : Int → Int → Bool} (hT : ∀ o v, T o v = true → T' o v = true) :
    ∀ {e : Expr}, Ok k T e = true → Ok k T' e = true := by
  intro e
  induction e using Expr.rec (motive_2 := fun l => OkList k T l = true → OkList k T' l = true) with
  | term o v np =>
    intro h
    rw [Ok_term] at h ⊢
    exact h.imp id (hT o v)
  | node o as ih =>
    intro h
    simp only [Ok, Bool.and_eq_true] at h ⊢
    exact ⟨h.1, ih h.2⟩
  | nil => rfl
  | cons a as iha ihas =>
    rename_i h
    simp only [OkList, Bool.and_eq_true] at h ⊢
    exact ⟨iha h.1, ihas h.2⟩

theorem Ok_weaken : ∀ {e : Expr}, Ok k T e = true → Ok false T e = true := by
  intro e
  induction e using Expr.rec (motive_2 := fun l => OkList k T l = true → OkList false T l = true) with
  | term o v np => intro h; rw [Ok_term] at h ⊢; exact h
  | node o as ih =>
    intro h
    simp only [Ok, Bool.and_eq_true] at h ⊢
    exact ⟨shapeOK_weaken h.1, ih h.2⟩
  | nil => rfl
  | cons a as iha ihas =>
    rename_i h
    simp only [OkList, Bool.and_eq_true] at h ⊢
    exact ⟨iha h.1, ihas h.2⟩

theorem Ok_intPow {e : Expr} (h : Ok k T e = true) : IntPow e :=
  Ok_mono (fun _ _ _ => rfl) (Ok_weaken h)

end ok

end Cas
end Bingo
