import Model.Eval
import Model.Ops
/-!
# What the generated forward rules read

`Perm` says which fields of a `RuleCtx` an expression may read; `allowed pm e` checks it
syntactically; `interp_congr` says two contexts that agree on the permitted fields give the
same `interp`; `interp_isSome` says a supported expression whose permitted reads all succeed
evaluates.

The table side conditions (`fwdTableOK`, `fwdTableTotal`) are closed by `decide` on the
*generated* tables, so they are re-checked whenever the translator regenerates them.
-/
namespace Bingo
namespace RuleDeps

structure Perm where
  intParam : Bool := false
  loadX : Bool := false
  loadC : Bool := false
  p1 : Bool := false
  p2 : Bool := false
  self : Bool := false
  rev : Bool := false

/-- every leaf of `e` is permitted by `pm` (`lit` and `unsupported` read nothing) -/
def allowed (pm : Perm) : RExpr → Bool
  | .intParam => pm.intParam
  | .loadX => pm.loadX
  | .loadC => pm.loadC
  | .fwd .p1 => pm.p1
  | .fwd .p2 => pm.p2
  | .fwd .self => pm.self
  | .rev => pm.rev
  | .lit _ _ => true
  | .add a b | .sub a b | .mul a b | .div a b | .pow a b => allowed pm a && allowed pm b
  | .un _ a => allowed pm a
  | .unsupported _ => true

/-- the two contexts agree on every field `pm` permits -/
structure Agree {α : Type} (pm : Perm) (cx cx' : RuleCtx α) : Prop where
  intParam : pm.intParam = true → cx.intParam = cx'.intParam
  loadX : pm.loadX = true → cx.loadX = cx'.loadX
  loadC : pm.loadC = true → cx.loadC = cx'.loadC
  p1 : pm.p1 = true → cx.fwd .p1 = cx'.fwd .p1
  p2 : pm.p2 = true → cx.fwd .p2 = cx'.fwd .p2
  self : pm.self = true → cx.fwd .self = cx'.fwd .self
  rev : pm.rev = true → cx.rev = cx'.rev

/-- every field `pm` permits holds a value -/
structure Defined {α : Type} (pm : Perm) (cx : RuleCtx α) : Prop where
  loadX : pm.loadX = true → cx.loadX.isSome = true
  loadC : pm.loadC = true → cx.loadC.isSome = true
  p1 : pm.p1 = true → (cx.fwd .p1).isSome = true
  p2 : pm.p2 = true → (cx.fwd .p2).isSome = true
  self : pm.self = true → (cx.fwd .self).isSome = true
  rev : pm.rev = true → cx.rev.isSome = true

theorem interp_congr {α : Type} [Scalar α] {pm : Perm} {cx cx' : RuleCtx α}
    (hag : Agree pm cx cx') :
    ∀ e : RExpr, allowed pm e = true → e.interp cx = e.interp cx' := by
  intro e
  induction e with
  | intParam => intro h; simp [RExpr.interp, hag.intParam h]
  | loadX => intro h; simp [RExpr.interp, hag.loadX h]
  | loadC => intro h; simp [RExpr.interp, hag.loadC h]
  | fwd r =>
    intro h
    cases r with
    | p1 => simp [RExpr.interp, hag.p1 h]
    | p2 => simp [RExpr.interp, hag.p2 h]
    | self => simp [RExpr.interp, hag.self h]
  | rev => intro h; simp [RExpr.interp, hag.rev h]
  | lit n d => intro _; rfl
  | add a b iha ihb | sub a b iha ihb | mul a b iha ihb | div a b iha ihb | pow a b iha ihb =>
    intro h
    simp only [allowed, Bool.and_eq_true] at h
    simp only [RExpr.interp, iha h.1, ihb h.2]
  | un f a iha =>
    intro h
    simp only [allowed] at h
    simp only [RExpr.interp, iha h]
  | unsupported w => intro _; rfl

theorem interp_isSome {α : Type} [Scalar α] {pm : Perm} {cx : RuleCtx α}
    (hdef : Defined pm cx) :
    ∀ e : RExpr, allowed pm e = true → e.supported = true → (e.interp cx).isSome = true := by
  intro e
  induction e with
  | intParam => intro _ _; rfl
  | loadX => intro h _; exact hdef.loadX h
  | loadC => intro h _; exact hdef.loadC h
  | fwd r =>
    intro h _
    cases r with
    | p1 => exact hdef.p1 h
    | p2 => exact hdef.p2 h
    | self => exact hdef.self h
  | rev => intro h _; exact hdef.rev h
  | lit n d => intro _ _; rfl
  | add a b iha ihb | sub a b iha ihb | mul a b iha ihb | div a b iha ihb | pow a b iha ihb =>
    intro h hs
    simp only [allowed, Bool.and_eq_true] at h
    simp only [RExpr.supported, Bool.and_eq_true] at hs
    have ha := iha h.1 hs.1
    have hb := ihb h.2 hs.2
    obtain ⟨va, hva⟩ := Option.isSome_iff_exists.mp ha
    obtain ⟨vb, hvb⟩ := Option.isSome_iff_exists.mp hb
    simp [RExpr.interp, hva, hvb]
  | un f a iha =>
    intro h hs
    simp only [allowed] at h
    simp only [RExpr.supported] at hs
    obtain ⟨va, hva⟩ := Option.isSome_iff_exists.mp (iha h hs)
    simp [RExpr.interp, hva]
  | unsupported w => intro _ hs; simp [RExpr.supported] at hs

/-! ## the permissions of the three kinds of node -/

/-- a terminal may read `float(param1)`, `x[:, param1]`, `constants[param1]` and nothing else -/
def termPerm : Perm := { intParam := true, loadX := true, loadC := true }
/-- an arity-1 operator may read `forward_eval[param1]` and nothing else -/
def unPerm : Perm := { p1 := true }
/-- an arity-2 operator may read `forward_eval[param1]`, `forward_eval[param2]` and nothing else -/
def binPerm : Perm := { p1 := true, p2 := true }

/-- the permission of node `n` according to the generated arity / terminal tables -/
def nodePerm (n : Int) : Option Perm :=
  match Ops.isTerminal n, Ops.isArity2 n with
  | some true, _ => some termPerm
  | some false, some false => some unPerm
  | some false, some true => some binPerm
  | _, _ => none

/-- one entry of the forward table respects its node's permission; operator rules are moreover
`supported` (so they evaluate whenever their operands do) -/
def fwdEntryOK (ne : Int × RExpr) : Bool :=
  match Ops.isTerminal ne.1, Ops.isArity2 ne.1 with
  | some true, _ => allowed termPerm ne.2
  | some false, some false => allowed unPerm ne.2 && ne.2.supported
  | some false, some true => allowed binPerm ne.2 && ne.2.supported
  | _, _ => true

def fwdTableOK : Bool := Gen.OpRules.fwdRules.all fwdEntryOK

/-- every node the terminal table knows has a forward rule -/
def fwdTableTotal : Bool :=
  Gen.OpDefs.isTerminalTbl.all (fun nb => (Gen.OpRules.fwdRules.lookup nb.1).isSome)

theorem fwdTableOK_holds : fwdTableOK = true := by decide
theorem fwdTableTotal_holds : fwdTableTotal = true := by decide

theorem mem_of_lookup {β : Type} {k : Int} {v : β} :
    ∀ {l : List (Int × β)}, l.lookup k = some v → (k, v) ∈ l := by
  intro l
  induction l with
  | nil => intro h; simp [List.lookup] at h
  | cons hd tl ih =>
    intro h
    obtain ⟨k', v'⟩ := hd
    simp only [List.lookup] at h
    split at h
    · rename_i heq
      have : k = k' := by simpa using heq
      cases h; subst this; exact List.mem_cons_self
    · exact List.mem_cons_of_mem _ (ih h)

theorem lookup_isSome_of_mem {β : Type} {k : Int} {v : β} :
    ∀ {l : List (Int × β)}, (k, v) ∈ l → (l.lookup k).isSome = true := by
  intro l
  induction l with
  | nil => intro h; cases h
  | cons hd tl ih =>
    intro h
    obtain ⟨k', v'⟩ := hd
    simp only [List.lookup]
    split
    · rfl
    · rename_i hne
      rcases List.mem_cons.mp h with h | h
      · cases h; simp at hne
      · exact ih h

theorem fwdRule_entryOK {n : Int} {e : RExpr} (h : Eval.fwdRule n = some e) :
    fwdEntryOK (n, e) = true := by
  have hm := mem_of_lookup (l := Gen.OpRules.fwdRules) h
  have := fwdTableOK_holds
  unfold fwdTableOK at this
  exact List.all_eq_true.mp this _ hm

/-- a terminal's rule reads only `intParam / loadX / loadC` -/
theorem fwdRule_terminal {n : Int} {e : RExpr} (h : Eval.fwdRule n = some e)
    (ht : Ops.isTerminal n = some true) : allowed termPerm e = true := by
  have := fwdRule_entryOK h
  simpa [fwdEntryOK, ht] using this

/-- an arity-1 operator's rule reads only `fwd .p1` and is supported -/
theorem fwdRule_unary {n : Int} {e : RExpr} (h : Eval.fwdRule n = some e)
    (ht : Ops.isTerminal n = some false) (h2 : Ops.isArity2 n = some false) :
    allowed unPerm e = true ∧ e.supported = true := by
  have := fwdRule_entryOK h
  simpa [fwdEntryOK, ht, h2] using this

/-- an arity-2 operator's rule reads only `fwd .p1`, `fwd .p2` and is supported -/
theorem fwdRule_binary {n : Int} {e : RExpr} (h : Eval.fwdRule n = some e)
    (ht : Ops.isTerminal n = some false) (h2 : Ops.isArity2 n = some true) :
    allowed binPerm e = true ∧ e.supported = true := by
  have := fwdRule_entryOK h
  simpa [fwdEntryOK, ht, h2] using this

/-- a node the terminal table knows has a forward rule -/
theorem fwdRule_isSome {n : Int} {b : Bool} (h : Ops.isTerminal n = some b) :
    (Eval.fwdRule n).isSome = true := by
  have hm := mem_of_lookup (l := Gen.OpDefs.isTerminalTbl) h
  have := fwdTableTotal_holds
  unfold fwdTableTotal at this
  exact List.all_eq_true.mp this _ hm

/-- weakening: `unPerm ≤ binPerm` -/
theorem allowed_un_bin : ∀ e : RExpr, allowed unPerm e = true → allowed binPerm e = true := by
  intro e
  induction e with
  | fwd r => cases r <;> simp [allowed, unPerm, binPerm]
  | add a b iha ihb | sub a b iha ihb | mul a b iha ihb | div a b iha ihb | pow a b iha ihb =>
    intro h
    simp only [allowed, Bool.and_eq_true] at h ⊢
    exact ⟨iha h.1, ihb h.2⟩
  | un f a iha => intro h; simp only [allowed] at h ⊢; exact iha h
  | _ => simp [allowed, unPerm, binPerm]

/-! ## the three terminals: which load each one needs -/

/-- `VARIABLE` reads `x[:, param1]` only -/
def varPerm : Perm := { loadX := true }
/-- `CONSTANT` reads `constants[param1]` only -/
def constPerm : Perm := { loadC := true }
/-- `INTEGER` reads `float(param1)` only -/
def intPerm : Perm := { intParam := true }

/-- node `n` has a supported forward rule that reads only what `pm` permits -/
def leafOK (n : Int) (pm : Perm) : Bool :=
  match Eval.fwdRule n with
  | some e => allowed pm e && e.supported
  | none => false

theorem leafTable_holds :
    (leafOK Gen.OpDefs.VARIABLE varPerm && leafOK Gen.OpDefs.CONSTANT constPerm &&
      leafOK Gen.OpDefs.INTEGER intPerm) = true := by decide

theorem leafOK_interp {α : Type} [Scalar α] {n : Int} {pm : Perm} (h : leafOK n pm = true)
    {cx : RuleCtx α} (hdef : Defined pm cx) :
    ∃ e, Eval.fwdRule n = some e ∧ (e.interp cx).isSome = true := by
  unfold leafOK at h
  split at h
  · rename_i e he
    simp only [Bool.and_eq_true] at h
    exact ⟨e, he, interp_isSome hdef e h.1 h.2⟩
  · cases h

end RuleDeps
end Bingo
