import Proofs.Lemmas.CasOptMod
/-!
# Constant folding (`Model/Cas/ConstFold.lean`)

* `groupConstants` keeps the fragment `Ok k T` (both `k`) and preserves the meaning EXACTLY;
* an expression without `CONSTANT` terminals is left alone by the folding loop:
  `foldConstants (fuel+1) e = .ok (groupConstants e)`.
-/
namespace Bingo
namespace Cas
open Gen.OpDefs
open Expr

/-! ## splitting a sum / product along a predicate -/

theorem osum_filter_split {α : Type} (p : α → Bool) (f : α → Option ℝ) (l : List α) :
    osum (l.map f) =
      oadd (osum ((l.filter p).map f)) (osum ((l.filter fun a => !p a).map f)) := by
  induction l with
  | nil => simp
  | cons a l ih =>
    cases hp : p a
    · simp only [List.filter_cons, hp, List.map_cons, osum_cons, Bool.not_false, if_true,
        Bool.false_eq_true, if_false]
      rw [ih]; ac_rfl
    · simp only [List.filter_cons, hp, List.map_cons, osum_cons, Bool.not_true, if_true,
        Bool.false_eq_true, if_false]
      rw [ih]; ac_rfl

theorem oprod_filter_split {α : Type} (p : α → Bool) (f : α → Option ℝ) (l : List α) :
    oprod (l.map f) =
      omul (oprod ((l.filter p).map f)) (oprod ((l.filter fun a => !p a).map f)) := by
  induction l with
  | nil => simp
  | cons a l ih =>
    cases hp : p a
    · simp only [List.filter_cons, hp, List.map_cons, oprod_cons, Bool.not_false, if_true,
        Bool.false_eq_true, if_false]
      rw [ih]; ac_rfl
    · simp only [List.filter_cons, hp, List.map_cons, oprod_cons, Bool.not_true, if_true,
        Bool.false_eq_true, if_false]
      rw [ih]; ac_rfl

/-! ## `groupConstants` -/

theorem groupConstantsList_eq_map (as : List Expr) :
    groupConstantsList as = as.map groupConstants := by
  induction as with
  | nil => rfl
  | cons a as ih => simp [groupConstantsList, ih]

/-- what `_group_constants` does to a node whose operands have been processed -/
def groupStep (op : Int) (l : List Expr) : Expr :=
  if op == MULTIPLICATION || op == ADDITION then
    if decide ((l.filter isCV).length > 1) && decide ((l.filter fun o => !o.isCV).length > 0) then
      node op (node op (l.filter isCV) :: l.filter fun o => !o.isCV)
    else node op l
  else node op l

theorem groupConstants_node (op : Int) (args : List Expr) :
    groupConstants (node op args) = groupStep op (args.map groupConstants) := by
  rw [groupConstants, groupConstantsList_eq_map]
  rfl

section ok
variable {k : Bool} {T : Int → Int → Bool}

/-- nesting the `p`-operands of a sum or product -/
theorem nest_sim (op : Int) (hop : op = MULTIPLICATION ∨ op = ADDITION) (p : Expr → Bool)
    (l : List Expr) (h1 : (l.filter p).length > 1) (h2 : (l.filter fun o => !p o).length > 0) :
    Sim k T (node op l) (node op (node op (l.filter p) :: l.filter fun o => !p o)) := by
  refine ⟨fun x cv => ?_, SameKind.node_node _ _ _ _, fun hok => ?_⟩
  · rcases hop with rfl | rfl
    · rw [den_mul, den_mul, P_cons, den_mul]
      exact (oprod_filter_split p (den x cv) l).symm
    · rw [den_add, den_add, S_cons, den_add]
      exact (osum_filter_split p (den x cv) l).symm
  · obtain ⟨_, hm⟩ := Ok_node.1 hok
    have hin : ∀ a ∈ l.filter p, Ok k T a = true := fun a ha => hm a (List.mem_of_mem_filter ha)
    have hout : ∀ a ∈ l.filter (fun o => !p o), Ok k T a = true :=
      fun a ha => hm a (List.mem_of_mem_filter ha)
    rcases hop with rfl | rfl
    · refine Ok_mul (fun _ => by simp only [List.length_cons]; omega) (fun a ha => ?_)
      rcases List.mem_cons.1 ha with rfl | ha
      · exact Ok_mul (fun _ => h1) hin
      · exact hout a ha
    · refine Ok_add (fun _ => by simp only [List.length_cons]; omega) (fun a ha => ?_)
      rcases List.mem_cons.1 ha with rfl | ha
      · exact Ok_add (fun _ => h1) hin
      · exact hout a ha

theorem groupStep_sim (op : Int) (l : List Expr) : Sim k T (node op l) (groupStep op l) := by
  unfold groupStep
  split
  · rename_i hop
    split
    · rename_i hc
      simp only [Bool.and_eq_true, decide_eq_true_eq] at hc
      simp only [Bool.or_eq_true, beq_iff_eq] at hop
      exact nest_sim op hop isCV l hc.1 hc.2
    · exact Sim.refl _
  · exact Sim.refl _

/-- `groupConstants e` may replace `e` -/
theorem groupConstants_sim (k : Bool) (T : Int → Int → Bool) :
    ∀ e, Sim k T e (groupConstants e) := by
  intro e
  induction e using Expr.ind' with
  | ht o v n => rw [groupConstants]; exact Sim.refl _
  | hn o as ih =>
    rw [groupConstants_node]
    exact (Sim.node (Sim.forall₂_map ih) o).trans (groupStep_sim o _)

/-- 5a. `_group_constants` keeps the fragment (both `k`) -/
theorem groupConstants_ok {e : Expr} (h : Ok k T e = true) : Ok k T (groupConstants e) = true :=
  (groupConstants_sim k T e).ok h

end ok

/-- 5b. `_group_constants` preserves the meaning exactly -/
theorem groupConstants_sound (e : Expr) (x : List ℝ) (cv : Int → ℝ) :
    (groupConstants e).den x cv = e.den x cv :=
  (groupConstants_sim false (fun _ _ => true) e).den x cv

/-! ## expressions without constants -/

/-- the admissible terminals contain no `CONSTANT` (e.g. `T = varsBelow D`) -/
def NoConstT (T : Int → Int → Bool) : Prop := ∀ v, T CONSTANT v = false

theorem noConstT_varsBelow (D : Nat) : NoConstT (varsBelow D) := by
  intro v
  have : (CONSTANT == VARIABLE) = false := by decide
  simp [varsBelow, this]

section noconst
variable {k : Bool} {T : Int → Int → Bool}

theorem getConstantsList_id {as : List Expr}
    (h : ∀ a ∈ as, ∀ acc, getConstantsAcc a acc = acc) : ∀ acc, getConstantsList as acc = acc := by
  induction as with
  | nil => intro acc; rfl
  | cons a as ih =>
    intro acc
    rw [getConstantsList, h a List.mem_cons_self]
    exact ih (fun b hb => h b (List.mem_cons_of_mem _ hb)) acc

theorem getConstantsAcc_noconst (hT : NoConstT T) :
    ∀ e, Ok k T e = true → ∀ acc, getConstantsAcc e acc = acc := by
  intro e
  induction e using Expr.ind' with
  | ht o v n =>
    intro hok acc
    rw [getConstantsAcc]
    split
    · rename_i ho
      subst ho
      rcases Ok_term.1 hok with h | h
      · exact absurd h (by decide)
      · rw [hT v] at h; cases h
    · rfl
  | hn o as ih =>
    intro hok acc
    rw [getConstantsAcc]
    exact getConstantsList_id (fun a ha => ih a ha ((Ok_node.1 hok).2 a ha)) acc

/-- 6a. no `CONSTANT` terminal is admissible, so none is found -/
theorem getConstants_noconst {e : Expr} (h : Ok k T e = true) (hT : ∀ v, T CONSTANT v = false) :
    getConstants e = [] :=
  getConstantsAcc_noconst hT e h []

end noconst

/-- 6b. without constants there is no subset to try: the loop stops at once -/
theorem foldLoop_noconst (fuel : Nat) {e : Expr} (h : getConstants e = []) :
    foldLoop (fuel+1) e = .ok e := by
  rw [foldLoop]
  simp only [h, List.map_nil, List.length_nil, firstFold]
  rfl

/-- 6c. on a constant-free expression `fold_constants` is just `_group_constants` -/
theorem foldConstants_noconst {k : Bool} {T : Int → Int → Bool} (fuel : Nat) {e : Expr}
    (h : Ok k T e = true) (hT : ∀ v, T CONSTANT v = false) :
    foldConstants (fuel+1) e = .ok (groupConstants e) :=
  foldLoop_noconst fuel (getConstants_noconst (groupConstants_ok h) hT)

end Cas
end Bingo
