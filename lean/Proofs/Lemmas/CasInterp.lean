import Proofs.Lemmas.CasSem
import Proofs.Lemmas.CasInterpBase
import Proofs.Lemmas.CasInterpA
import Proofs.Lemmas.CasInterpB
import Mathlib.Tactic.NormNum
/-!
# The two interpreter passes of the simplifier (`simplification_backend/interpreter.py`)

* `CasInterpBase`: `RowDen` (row-level meaning that only looks backwards), soundness for `ETree.trees`.
* `CasInterpA`: `build_cas_expression` (`buildCas_some`, `buildCas_ok`, `buildCas_den`,
  `buildCas_den_noconst`).
* `CasInterpB`: `build_agraph_stack` (`buildStackRec_root_last`, `buildAgraphStack_wf`,
  `buildAgraphStack_den_noconst`).

This file: the round trip on the constant-free fragment and non-vacuity examples.
-/
namespace Bingo
namespace CasInterp
open Gen.OpDefs Cas Cas.Expr ETree

/-- stack → expression → stack on the constant-free fragment without `POWER` rows: the rebuilt array
is well-formed and refines the original one wherever the expression has a meaning -/
theorem roundtrip_noconst {D : Nat} {s s' : Stack} {e : Expr} {x : List ℝ} {cv : Int → ℝ} {v : ℝ}
    (hwf : WF.WFEval D 0 s) (hnp : NoPowRows s) (he : buildCasExpression s = .ok e)
    (hs' : buildAgraphStack e = .ok s') (hx : x.length = D) (hd : e.den x cv = some v) :
    WF.wf D none none s' = true ∧ MathSem.den x [] (ofStack s) = some v ∧
      MathSem.den x [] (ofStack s') = some v :=
  ⟨buildAgraphStack_wf (buildCas_ok hwf hnp he) hs', buildCas_den_noconst hwf he hx hd,
    buildAgraphStack_den_noconst (buildCas_ok hwf hnp he) hs' hx hd⟩

/-! ## non-vacuity -/

private def X (j : Int) : Expr := term VARIABLE j true
private def I (n : Int) : Expr := term INTEGER n true

/-- a three-operand sum becomes a balanced tree of 5 rows, the root is the last row -/
example : buildStackRec (node ADDITION [X 0, X 1, X 2]) [] =
    .ok ([⟨0, 0, 0⟩, ⟨0, 1, 1⟩, ⟨0, 2, 2⟩, ⟨2, 1, 2⟩, ⟨2, 0, 3⟩], 4) := by decide

example : buildAgraphStack (node ADDITION [X 0, X 1, X 2]) =
    .ok [⟨0, 0, 0⟩, ⟨0, 1, 1⟩, ⟨0, 2, 2⟩, ⟨2, 1, 2⟩, ⟨2, 0, 3⟩] := by decide

/-- the constant-valued first operand is kept apart -/
example : buildStackRec (node MULTIPLICATION [I 2, X 0, X 1, X 2]) [] =
    .ok ([⟨-1, 2, 2⟩, ⟨0, 0, 0⟩, ⟨0, 1, 1⟩, ⟨0, 2, 2⟩, ⟨4, 2, 3⟩, ⟨4, 1, 4⟩, ⟨4, 0, 5⟩], 6) := by
  decide

/-- sharing: `x0` and `sin x0` are stored once; the root found by the lookup is still the last row -/
example : buildStackRec (node ADDITION [node SIN [X 0], node SIN [X 0]]) [] =
    .ok ([⟨0, 0, 0⟩, ⟨6, 0, 0⟩, ⟨2, 1, 1⟩], 2) := by decide

example : Ok true (varsBelow 3) (node ADDITION [X 0, X 1, X 2]) = true := by decide

example : WF.wf 3 none none [⟨0, 0, 0⟩, ⟨0, 1, 1⟩, ⟨0, 2, 2⟩, ⟨2, 1, 2⟩, ⟨2, 0, 3⟩] = true := by
  decide

/-- the hypothesis `e.den x cv = some v` is satisfiable -/
example (cv : Int → ℝ) : (node ADDITION [X 0, X 1, X 2]).den [1, 2, 3] cv = some 6 := by
  rw [den_add]
  simp only [X, S_cons, S_nil, den_var]
  have h2 : Int.toNat 2 = 2 := rfl
  norm_num [pyIdx, h2]

/-- source side: `x0 + x1` -/
example : buildCasExpression [⟨0, 0, 0⟩, ⟨0, 1, 1⟩, ⟨2, 0, 1⟩] =
    .ok (node ADDITION [X 0, X 1]) := by rfl

example : WF.WFEval 2 0 [⟨0, 0, 0⟩, ⟨0, 1, 1⟩, ⟨2, 0, 1⟩] := by decide

/-- source side with a constant: the id of the `CONSTANT` terminal is the row location -/
example : buildCasExpression [⟨0, 0, 0⟩, ⟨1, 0, 0⟩, ⟨4, 0, 1⟩] =
    .ok (node MULTIPLICATION [X 0, term CONSTANT 1 true]) := by rfl

end CasInterp
end Bingo
