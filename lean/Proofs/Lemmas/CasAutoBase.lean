import Proofs.Lemmas.CasSem
import Proofs.Lemmas.CasArith
/-!
# Helper lemmas for the soundness proof of `automaticSimplify`

`Except` plumbing, the shapes recognised by `isZero` / `isOne` / `intVal?` / `base` / `exponent` /
`termOf` / `coefficient` / `mergeOperands`, and what each of them means in the partial semantics.
-/
namespace Bingo
namespace Cas
namespace Auto
open Gen.OpDefs Expr

/-! ## `Except` plumbing -/

theorem bind_ok {α β : Type} {f : R α} {g : α → R β} {r : β} (h : (f >>= g) = .ok r) :
    ∃ a, f = .ok a ∧ g a = .ok r := by
  cases f with
  | error e => cases h
  | ok a => exact ⟨a, rfl, h⟩

theorem pure_ok {α : Type} {a r : α} (h : (pure a : R α) = .ok r) : a = r := by
  cases h; rfl

theorem throw_ok {α : Type} {s : String} {r : α} (h : (throw s : R α) = .ok r) : False := by
  cases h

theorem mapM_ok {α β : Type} {f : α → R β} : ∀ {l : List α} {rs : List β},
    l.mapM f = .ok rs → List.Forall₂ (fun a r => f a = .ok r) l rs
  | [], rs, h => by
    rw [List.mapM_nil] at h; cases pure_ok h; exact List.Forall₂.nil
  | a :: l, rs, h => by
    rw [List.mapM_cons] at h
    obtain ⟨b, hb, h⟩ := bind_ok h
    obtain ⟨bs, hbs, h⟩ := bind_ok h
    cases pure_ok h
    exact List.Forall₂.cons hb (mapM_ok hbs)

/-! ## recognisers -/

theorem isZero_eq {e : Expr} (h : e.isZero = true) : ∃ np, e = term INTEGER 0 np := by
  cases e with
  | term o v np =>
    simp only [isZero, Bool.and_eq_true, beq_iff_eq] at h
    obtain ⟨rfl, rfl⟩ := h; exact ⟨np, rfl⟩
  | node o as => simp [isZero] at h

theorem isOne_eq {e : Expr} (h : e.isOne = true) : ∃ np, e = term INTEGER 1 np := by
  cases e with
  | term o v np =>
    simp only [isOne, Bool.and_eq_true, beq_iff_eq] at h
    obtain ⟨rfl, rfl⟩ := h; exact ⟨np, rfl⟩
  | node o as => simp [isOne] at h

theorem intVal?_eq {e : Expr} {p : PInt} (h : e.intVal? = some p) : e = term INTEGER p.val p.np := by
  cases e with
  | term o v np =>
    simp only [intVal?] at h
    split at h
    · rename_i ho; subst ho; cases h; rfl
    · cases h
  | node o as => simp [intVal?] at h

theorem intVal?_lit (n : Int) (np : Bool) : (term INTEGER n np).intVal? = some ⟨n, np⟩ := by
  simp [intVal?]

theorem intVal?_none_of_op {e : Expr} (h : e.op ≠ INTEGER) : e.intVal? = none := by
  cases e with
  | term o v np => simp only [op] at h; simp [intVal?, h]
  | node o as => rfl

theorem isZero_lit {n : Int} {np : Bool} : (term INTEGER n np).isZero = true ↔ n = 0 := by
  simp [isZero]
theorem isOne_lit {n : Int} {np : Bool} : (term INTEGER n np).isOne = true ↔ n = 1 := by
  simp [isOne]
theorem isPosInt_lit {n : Int} {np : Bool} : (term INTEGER n np).isPosInt = true ↔ 0 < n := by
  simp [isPosInt]
theorem isIntOrConst_lit (n : Int) (np : Bool) : (term INTEGER n np).isIntOrConst = true := by
  simp [isIntOrConst, op]

section den
variable (x : List ℝ) (cv : Int → ℝ)

theorem isZero_den {e : Expr} (h : e.isZero = true) : den x cv e = some 0 := by
  obtain ⟨np, rfl⟩ := isZero_eq h; simp [den_int]

theorem isOne_den {e : Expr} (h : e.isOne = true) : den x cv e = some 1 := by
  obtain ⟨np, rfl⟩ := isOne_eq h; simp [den_int]

/-- a product with a literal zero factor refines `0` (even where other factors are undefined) -/
theorem P_any_isZero : ∀ {l : List Expr}, l.any isZero = true → P x cv l ⊑ some 0
  | [], h => by simp at h
  | a :: l, h => by
    rw [List.any_cons, Bool.or_eq_true] at h
    rw [P_cons]
    rcases h with h | h
    · rw [isZero_den x cv h]; exact zero_omul_refines _
    · exact (omul_mono Refines.rfl' (P_any_isZero h)).trans (omul_zero_refines _)

/-- terminals with an operator number in operator position mean nothing -/
theorem den_term_of_op {o v : Int} {np : Bool} (h1 : o ≠ INTEGER) (h2 : o ≠ VARIABLE)
    (h3 : o ≠ CONSTANT) : den x cv (term o v np) = none := by
  simp [den_term, termDen, h1, h2, h3]

/-- `e ⊑ product of (its factors if it is a product, else itself)` -/
theorem den_mergeOperands_mul (e : Expr) : den x cv e ⊑ P x cv (mergeOperands MULTIPLICATION e) := by
  unfold mergeOperands
  split
  · rename_i h
    rw [beq_iff_eq] at h
    cases e with
    | term o v np =>
      simp only [op] at h; subst h
      rw [den_term_of_op x cv (by decide) (by decide) (by decide)]
      exact Refines.none_left _
    | node o as =>
      simp only [op] at h; subst h
      rw [den_mul]; exact Refines.rfl'
  · simp [P_cons]; exact Refines.rfl'

theorem den_mergeOperands_add (e : Expr) : den x cv e ⊑ S x cv (mergeOperands ADDITION e) := by
  unfold mergeOperands
  split
  · rename_i h
    rw [beq_iff_eq] at h
    cases e with
    | term o v np =>
      simp only [op] at h; subst h
      rw [den_term_of_op x cv (by decide) (by decide) (by decide)]
      exact Refines.none_left _
    | node o as =>
      simp only [op] at h; subst h
      rw [den_add]; exact Refines.rfl'
  · simp [S_cons]; exact Refines.rfl'

theorem den_args_mul {e : Expr} (h : (e.op == MULTIPLICATION) = true) :
    den x cv e ⊑ P x cv e.args := by
  have := den_mergeOperands_mul x cv e
  rwa [mergeOperands, if_pos h] at this

theorem den_args_add {e : Expr} (h : (e.op == ADDITION) = true) :
    den x cv e ⊑ S x cv e.args := by
  have := den_mergeOperands_add x cv e
  rwa [mergeOperands, if_pos h] at this

end den

/-! ## the invariant on operand lists -/

section ok
variable {k : Bool} {T : Int → Int → Bool}

theorem Ok_args {e : Expr} (h : Ok k T e = true) : ∀ c ∈ e.args, Ok k T c = true := by
  cases e with
  | term o v np => simp [args]
  | node o as => exact (Ok_node.mp h).2

/-- weak form of `Ok` for an operand of an `aop`-node about to be flattened: its flattened operands
are `Ok` (the `aop` node itself may have fewer than two operands) -/
def OkM (k : Bool) (T : Int → Int → Bool) (aop : Int) (e : Expr) : Prop :=
  ∀ c ∈ mergeOperands aop e, Ok k T c = true

theorem OkM_of_Ok {aop : Int} {e : Expr} (h : Ok k T e = true) : OkM k T aop e := by
  intro c hc
  unfold mergeOperands at hc
  split at hc
  · exact Ok_args h c hc
  · rw [List.mem_singleton] at hc; subst hc; exact h

theorem Ok_of_OkM {aop : Int} {e : Expr} (h : OkM k T aop e) (hop : (e.op != aop) = true) :
    Ok k T e = true := by
  apply h
  unfold mergeOperands
  rw [if_neg (by simpa using hop)]
  exact List.mem_singleton_self e

theorem isTerminal_cases :
    Ops.isTerminal MULTIPLICATION = some false ∧ Ops.isTerminal ADDITION = some false ∧
    Ops.isTerminal POWER = some false := by decide

theorem shapeOK_mul {rs : List Expr} (hl : 2 ≤ rs.length) : shapeOK k MULTIPLICATION rs = true := by
  have h1 : (MULTIPLICATION != SAFE_POWER) = true := by decide
  have h2 : ¬ (MULTIPLICATION = POWER) := by decide
  have h3 : (MULTIPLICATION = ADDITION ∨ MULTIPLICATION = MULTIPLICATION) := Or.inr rfl
  unfold shapeOK
  rw [h1, if_neg h2, if_pos h3, isTerminal_cases.1]
  simp [hl]

theorem shapeOK_add {rs : List Expr} (hl : 2 ≤ rs.length) : shapeOK k ADDITION rs = true := by
  have h1 : (ADDITION != SAFE_POWER) = true := by decide
  have h2 : ¬ (ADDITION = POWER) := by decide
  have h3 : (ADDITION = ADDITION ∨ ADDITION = MULTIPLICATION) := Or.inl rfl
  unfold shapeOK
  rw [h1, if_neg h2, if_pos h3, isTerminal_cases.2.1]
  simp [hl]

theorem shapeOK_pow {b : Expr} {n : Int} {np : Bool} (hn : n ≠ 1) :
    shapeOK k POWER [b, term INTEGER n np] = true := by
  have h1 : (POWER != SAFE_POWER) = true := by decide
  have h3 : ¬ (POWER = ADDITION ∨ POWER = MULTIPLICATION) := by decide
  unfold shapeOK
  rw [h1, if_pos rfl, if_neg h3, isTerminal_cases.2.2]
  simp [hn]

theorem shapeOK_pow_inv {as : List Expr} (h : shapeOK k POWER as = true) :
    ∃ b n np, as = [b, term INTEGER n np] := by
  unfold shapeOK at h
  rw [if_pos rfl] at h
  simp only [Bool.and_eq_true] at h
  have h2 := h.1.2
  split at h2
  · rename_i b o' v np
    simp only [Bool.and_eq_true, beq_iff_eq] at h2
    obtain ⟨rfl, _⟩ := h2
    exact ⟨b, v, np, rfl⟩
  · cases h2

theorem shapeOK_not_safe {o : Int} {as : List Expr} (h : shapeOK k o as = true) : o ≠ SAFE_POWER := by
  unfold shapeOK at h
  simp only [Bool.and_eq_true, bne_iff_ne, ne_eq] at h
  exact h.1.1

/-- for operators other than `POWER`, `ADDITION`, `MULTIPLICATION` the shape condition does not depend on the operands -/
theorem shapeOK_congr {o : Int} {as bs : List Expr} (h1 : o ≠ POWER) (h2 : o ≠ ADDITION)
    (h3 : o ≠ MULTIPLICATION) (h : shapeOK k o as = true) : shapeOK k o bs = true := by
  unfold shapeOK at h ⊢
  rw [if_neg h1, if_neg (by simp [h2, h3])] at h ⊢
  exact h

theorem Ok_mul_node {rs : List Expr} (h : ∀ r ∈ rs, Ok k T r = true) (hl : 2 ≤ rs.length) :
    Ok k T (node MULTIPLICATION rs) = true := Ok_node.mpr ⟨shapeOK_mul hl, h⟩

theorem Ok_add_node {rs : List Expr} (h : ∀ r ∈ rs, Ok k T r = true) (hl : 2 ≤ rs.length) :
    Ok k T (node ADDITION rs) = true := Ok_node.mpr ⟨shapeOK_add hl, h⟩

theorem Ok_pow_node {b : Expr} {n : Int} {np : Bool} (h : Ok k T b = true) (hn : n ≠ 1) :
    Ok k T (node POWER [b, term INTEGER n np]) = true := by
  refine Ok_node.mpr ⟨shapeOK_pow hn, ?_⟩
  intro e he
  simp only [List.mem_cons, List.not_mem_nil, or_false] at he
  rcases he with rfl | rfl
  · exact h
  · exact Ok_int _ _

/-- an `Ok` `POWER` node is `[b, INTEGER literal]` -/
theorem Ok_pow_inv {as : List Expr} (h : Ok k T (node POWER as) = true) :
    ∃ b n np, as = [b, term INTEGER n np] ∧ Ok k T b = true := by
  rw [Ok_node] at h
  obtain ⟨b, n, np, rfl⟩ := shapeOK_pow_inv h.1
  exact ⟨b, n, np, rfl, h.2 b (by simp)⟩

end ok

/-! ## `base` / `exponent`, `termOf` / `coefficient` -/

section views
variable {k : Bool} {T : Int → Int → Bool}

theorem bind_zpowDen_one (a : Option ℝ) : a.bind (zpowDen 1) = a := by
  cases a with
  | none => rfl
  | some v => simp [zpowDen_one]

/-- an `Ok` expression is `base ^ exponent` with a literal exponent -/
theorem base_exponent_den {e b ex : Expr} (hok : Ok k T e = true) (hb : e.base = some b)
    (hx : e.exponent = some ex) :
    ∃ n np, ex = term INTEGER n np ∧ Ok k T b = true ∧
      ∀ x cv, den x cv e = (den x cv b).bind (zpowDen n) := by
  cases e with
  | term o v np =>
    simp only [base, exponent] at hb hx
    split at hb
    · cases hb
    · cases hb
      rw [if_neg (by assumption)] at hx
      cases hx
      exact ⟨1, false, rfl, hok, fun x cv => (bind_zpowDen_one _).symm⟩
  | node o as =>
    simp only [base, exponent] at hb hx
    split at hb
    · rename_i ho
      subst ho
      rw [if_pos rfl] at hx
      obtain ⟨b0, n, np, rfl, hb0⟩ := Ok_pow_inv hok
      simp only [List.getElem?_cons_zero, List.getElem?_cons_succ] at hb hx
      cases hb; cases hx
      exact ⟨n, np, rfl, hb0, fun x cv => den_pow_lit x cv _ _ _⟩
    · rename_i ho
      rw [if_neg ho] at hx
      cases hb; cases hx
      exact ⟨1, false, rfl, hok, fun x cv => (bind_zpowDen_one _).symm⟩

/-- an `Ok` expression is `coefficient * term` -/
theorem coeff_term_den {e t c : Expr} (hok : Ok k T e = true) (ht : e.termOf = some t)
    (hc : e.coefficient = some c) :
    Ok k T c = true ∧ OkM k T MULTIPLICATION t ∧ (t.op == MULTIPLICATION) = true ∧
      ∀ x cv, den x cv e = omul (den x cv c) (den x cv t) := by
  have single : ∀ e' : Expr, Ok k T e' = true →
      Ok k T ONE = true ∧ OkM k T MULTIPLICATION (node MULTIPLICATION [e']) ∧
      ((node MULTIPLICATION [e']).op == MULTIPLICATION) = true ∧
      ∀ x cv, den x cv e' = omul (den x cv ONE) (den x cv (node MULTIPLICATION [e'])) := by
    intro e' he'
    refine ⟨Ok_ONE, ?_, rfl, ?_⟩
    · intro c hc
      simp only [mergeOperands, op, beq_self_eq_true, if_true, args, List.mem_singleton] at hc
      subst hc; exact he'
    · intro x cv
      rw [den_ONE, den_mul]; simp
  cases e with
  | term o v np =>
    simp only [termOf, coefficient] at ht hc
    split at ht
    · cases ht
    · rw [if_neg (by assumption)] at hc
      cases ht; cases hc
      exact single _ hok
  | node o as =>
    simp only [termOf, coefficient] at ht hc
    split at ht
    · rename_i ho
      subst ho
      rw [if_pos rfl] at hc
      cases as with
      | nil => cases ht
      | cons c0 rest =>
        dsimp only at ht hc
        split at ht
        · rename_i hic
          rw [if_pos hic] at hc
          cases ht; cases hc
          have hall := (Ok_node.mp hok).2
          refine ⟨hall _ (by simp), ?_, rfl, ?_⟩
          · intro c' hc'
            simp only [mergeOperands, op, beq_self_eq_true, if_true, args] at hc'
            exact hall _ (List.mem_cons_of_mem _ hc')
          · intro x cv
            rw [den_mul, den_mul, P_cons]
        · rename_i hic
          rw [if_neg hic] at hc
          cases ht; cases hc
          refine ⟨Ok_ONE, OkM_of_Ok hok, rfl, ?_⟩
          intro x cv
          rw [den_ONE]; simp
    · rename_i ho
      rw [if_neg ho] at hc
      cases ht; cases hc
      exact single _ hok

end views

/-! ## sums and products of two literals are literals -/

theorem simplifySum_lits {f : Nat} {a b : Int} {na nb : Bool} {r : Expr}
    (h : simplifySum true f [term INTEGER a na, term INTEGER b nb] = .ok r) :
    ∃ np, r = term INTEGER (a + b) np := by
  cases f with
  | zero => rw [simplifySum.eq_1] at h; exact (throw_ok h).elim
  | succ f =>
    rw [simplifySum.eq_3 _ _ _ (by intro a h; cases h)] at h
    obtain ⟨rs, h1, h2⟩ := bind_ok h
    cases f with
    | zero => rw [simplifySumRec.eq_1] at h1; exact (throw_ok h1).elim
    | succ f =>
      rw [simplifySumRec.eq_3] at h1
      simp only [intVal?_lit] at h1
      obtain ⟨p, hp, h1⟩ := bind_ok h1
      have hv := arith_strict hp
      dsimp only at hv
      have h1 := pure_ok h1
      subst h1
      split at h2
      · rename_i hz
        split at hz
        · rename_i hz'
          have := pure_ok h2
          subst this
          simp only [ofPInt, isZero_lit] at hz'
          exact ⟨false, by rw [← hv, hz']; rfl⟩
        · cases hz
      · rename_i a' hz
        split at hz
        · cases hz
        · cases hz
          have := pure_ok h2
          subst this
          exact ⟨p.np, by rw [← hv]; rfl⟩
      · rename_i hn1 hn2
        by_cases hc : (ofPInt p).isZero = true
        · exact (hn1 (if_pos hc)).elim
        · exact (hn2 _ (if_neg hc)).elim

theorem simplifyProduct_lits {f : Nat} {a b : Int} {na nb : Bool} {r : Expr}
    (h : simplifyProduct true f [term INTEGER a na, term INTEGER b nb] = .ok r) :
    ∃ np, r = term INTEGER (a * b) np := by
  cases f with
  | zero => rw [simplifyProduct.eq_1] at h; exact (throw_ok h).elim
  | succ f =>
    rw [simplifyProduct.eq_3 _ _ _ (by intro a h; cases h)] at h
    split at h
    · rename_i hz
      have := pure_ok h
      subst this
      simp only [List.any_cons, List.any_nil, Bool.or_false, Bool.or_eq_true, isZero_lit] at hz
      refine ⟨false, ?_⟩
      rcases hz with rfl | rfl <;> simp [ZERO]
    · obtain ⟨rs, h1, h2⟩ := bind_ok h
      cases f with
      | zero => rw [simplifyProductRec.eq_1] at h1; exact (throw_ok h1).elim
      | succ f =>
        rw [simplifyProductRec.eq_3] at h1
        simp only [intVal?_lit] at h1
        obtain ⟨p, hp, h1⟩ := bind_ok h1
        have hv := arith_strict hp
        dsimp only at hv
        have h1 := pure_ok h1
        subst h1
        split at h2
        · rename_i hz
          split at hz
          · rename_i hz'
            have := pure_ok h2
            subst this
            simp only [ofPInt, isOne_lit] at hz'
            exact ⟨false, by rw [← hv, hz']; rfl⟩
          · cases hz
        · rename_i a' hz
          split at hz
          · cases hz
          · cases hz
            have := pure_ok h2
            subst this
            exact ⟨p.np, by rw [← hv]; rfl⟩
        · rename_i hn1 hn2
          by_cases hc : (ofPInt p).isOne = true
          · exact (hn1 (if_pos hc)).elim
          · exact (hn2 _ (if_neg hc)).elim

end Auto
end Cas
end Bingo
