import Model.Selection
/-!
# `_find_inds_for_removal`: who is removed in one round and why (core only)

`verdict a b` isolates the four-way decision shared by `_streamlined_pair_removal` and
`_update_removal_set`.  `Dom y x` is "`y` is no older and no worse than `x`" (both keys non-NaN,
because `Key.le` is false on NaN).

Key observation for the `selSize > 2` loop: an index already in the removal set may still act as
`ind_a` and remove a later `ind_b`.  Whenever `x` is added because of `j`, either `j` strictly
dominates `x`, or they have equal age and key and `j` comes earlier in `inds`.  That relation
(`Prec`) is a strict partial order on a finite set, so every chain of justifications ends in an
index that is not in the removal set (`exists_unmarked_below`).
-/
namespace Bingo
namespace Sel

/-! ## `setAdd` -/

theorem mem_setAdd {s : List Nat} {i x : Nat} : x ∈ setAdd s i ↔ x ∈ s ∨ x = i := by
  unfold setAdd
  split
  · rename_i h
    have : i ∈ s := List.contains_iff_mem.1 h
    constructor
    · exact Or.inl
    · rintro (h | rfl) <;> assumption
  · simp

theorem setAdd_nodup {s : List Nat} {i : Nat} (h : s.Nodup) : (setAdd s i).Nodup := by
  unfold setAdd
  split
  · exact h
  · rename_i hc
    have hc' : i ∉ s := fun hm => hc (List.contains_iff_mem.2 hm)
    rw [List.nodup_append]
    refine ⟨h, by simp, ?_⟩
    intro a ha b hb
    simp at hb; subst hb
    intro e; subst e; exact hc' ha

theorem setAdd_length_le (s : List Nat) (i : Nat) : (setAdd s i).length ≤ s.length + 1 := by
  unfold setAdd; split <;> simp

theorem setAdd_length_ge (s : List Nat) (i : Nat) : s.length ≤ (setAdd s i).length := by
  unfold setAdd; split <;> simp

/-! ## the pair decision -/

/-- `some true`: the first one is removed; `some false`: the second; `none`: neither -/
def verdict (a b : Indv) : Option Bool :=
  if a.key.isNan then some true
  else if b.key.isNan then some false
  else if firstNotDominated a b then some false
  else if firstNotDominated b a then some true
  else none

theorem pairRemoval_eq (pop : List Indv) (i1 i2 : Nat) :
    pairRemoval pop i1 i2 =
      match pop[i1]?, pop[i2]? with
      | some a, some b =>
        some (match verdict a b with | some true => [i1] | some false => [i2] | none => [])
      | _, _ => none := by
  unfold pairRemoval verdict
  cases pop[i1]? <;> cases pop[i2]? <;> try rfl
  rename_i a b
  simp only
  split <;> try rfl
  split <;> try rfl
  split <;> try rfl
  split <;> rfl

theorem updateRemovalSet_eq (pop : List Indv) (i1 i2 : Nat) (rs : List Nat) :
    updateRemovalSet pop i1 i2 rs =
      match pop[i1]?, pop[i2]? with
      | some a, some b =>
        some (match verdict a b with
          | some true => setAdd rs i1 | some false => setAdd rs i2 | none => rs)
      | _, _ => none := by
  unfold updateRemovalSet verdict
  cases pop[i1]? <;> cases pop[i2]? <;> try rfl
  rename_i a b
  simp only
  split <;> try rfl
  split <;> try rfl
  split <;> try rfl
  split <;> rfl

/-- "`y` is no older and no worse than `x`" (forces both keys to be non-NaN) -/
def Dom (y x : Indv) : Prop := y.age ≤ x.age ∧ Key.le y.key x.key = true

instance (y x : Indv) : Decidable (Dom y x) := by unfold Dom; infer_instance

theorem Dom.not_nan_left {y x : Indv} (h : Dom y x) : y.key.isNan = false := by
  rcases hy : y.key with _ | v <;> simp_all [Dom, Key.le, Key.isNan]

theorem Dom.not_nan_right {y x : Indv} (h : Dom y x) : x.key.isNan = false := by
  rcases hy : y.key with _ | v <;> rcases hx : x.key with _ | u <;> simp_all [Dom, Key.le, Key.isNan]

theorem Dom.refl {x : Indv} (h : x.key.isNan = false) : Dom x x := by
  rcases hx : x.key with _ | u <;> simp_all [Dom, Key.le, Key.isNan]

theorem Dom.trans {z y x : Indv} (h1 : Dom z y) (h2 : Dom y x) : Dom z x := by
  rcases hz : z.key with _ | w <;> rcases hy : y.key with _ | v <;> rcases hx : x.key with _ | u <;>
    simp_all [Dom, Key.le]
  omega

/-- the first is removed: it is NaN, or the second strictly dominates it -/
theorem verdict_true {a b : Indv} (h : verdict a b = some true) :
    a.key.isNan = true ∨ (Dom b a ∧ ¬ Dom a b) := by
  unfold verdict at h
  by_cases ha : a.key.isNan = true
  · exact Or.inl ha
  · right
    rcases hka : a.key with _ | u
    · simp [Key.isNan, hka] at ha
    rcases hkb : b.key with _ | v
    · simp [Key.isNan, hka, hkb] at h
    simp only [Key.isNan, hka, hkb, firstNotDominated, Key.gt, Key.lt] at h
    simp only [Dom, hka, hkb, Key.le, decide_eq_true_eq]
    simp at h
    by_cases c1 : a.age ≤ b.age ∧ u ≤ v
    · simp [c1] at h
    · have c1' : ¬ (a.age ≤ b.age ∧ u ≤ v) := c1
      by_cases c2 : b.age ≤ a.age ∧ v ≤ u
      · exact ⟨c2, c1'⟩
      · simp [c1, c2] at h

/-- the second is removed: the first is non-NaN and the second is NaN or (weakly) dominated -/
theorem verdict_false {a b : Indv} (h : verdict a b = some false) :
    a.key.isNan = false ∧ (b.key.isNan = true ∨ Dom a b) := by
  unfold verdict at h
  rcases hka : a.key with _ | u
  · simp [Key.isNan, hka] at h
  refine ⟨by simp [Key.isNan], ?_⟩
  rcases hkb : b.key with _ | v
  · left; simp [Key.isNan]
  right
  simp only [Key.isNan, hka, hkb, firstNotDominated, Key.gt, Key.lt] at h
  simp only [Dom, hka, hkb, Key.le, decide_eq_true_eq]
  simp at h
  by_cases c1 : a.age ≤ b.age ∧ u ≤ v
  · exact c1
  · exfalso
    revert h
    simp
    intro h1
    omega

/-! ## the strict order that justifies removals -/

section order
variable (pop : List Indv) (pos : Nat → Nat)

/-- `j` justifies the removal of `x`: no older, no worse, and strictly so unless `j` comes
earlier (`pos j < pos x`) -/
def precB (j x : Nat) : Bool :=
  match pop[j]?, pop[x]? with
  | some pj, some px => decide (Dom pj px) && (!decide (Dom px pj) || decide (pos j < pos x))
  | _, _ => false

variable {pop pos}

theorem precB_iff {j x : Nat} : precB pop pos j x = true ↔
    ∃ pj px, pop[j]? = some pj ∧ pop[x]? = some px ∧ Dom pj px ∧ (¬ Dom px pj ∨ pos j < pos x) := by
  unfold precB
  cases pop[j]? <;> cases pop[x]? <;> simp

theorem precB_trans {i j x : Nat} (h1 : precB pop pos i j = true) (h2 : precB pop pos j x = true) :
    precB pop pos i x = true := by
  rw [precB_iff] at *
  obtain ⟨pi, pj, hi, hj, d1, s1⟩ := h1
  obtain ⟨pj', px, hj', hx, d2, s2⟩ := h2
  rw [hj] at hj'; cases hj'
  refine ⟨pi, px, hi, hx, d1.trans d2, ?_⟩
  by_cases hb : Dom px pi
  · right
    have a1 : Dom pj pi := d2.trans hb
    have a2 : Dom px pj := hb.trans d1
    rcases s1 with s1 | s1
    · exact absurd a1 s1
    rcases s2 with s2 | s2
    · exact absurd a2 s2
    omega
  · exact Or.inl hb

theorem precB_irrefl (x : Nat) : precB pop pos x x = false := by
  cases h : precB pop pos x x with
  | false => rfl
  | true =>
    rw [precB_iff] at h
    obtain ⟨pj, px, hj, hx, d, s⟩ := h
    rw [hj] at hx; cases hx
    rcases s with s | s
    · exact absurd d s
    · omega

theorem precB_dom {j x : Nat} (h : precB pop pos j x = true) :
    ∃ pj px, pop[j]? = some pj ∧ pop[x]? = some px ∧ Dom pj px := by
  rw [precB_iff] at h
  obtain ⟨pj, px, hj, hx, d, _⟩ := h
  exact ⟨pj, px, hj, hx, d⟩

end order

/-! ## a chain of justifications ends outside the marked set -/

theorem countP_lt_of_imp {α : Type} {p q : α → Bool} {l : List α}
    (himp : ∀ a ∈ l, p a = true → q a = true) {b : α} (hb : b ∈ l) (hqb : q b = true)
    (hpb : p b = false) : l.countP p < l.countP q := by
  induction l with
  | nil => cases hb
  | cons a l ih =>
    rw [List.countP_cons, List.countP_cons]
    rcases List.mem_cons.1 hb with rfl | hb'
    · have := List.countP_mono_left (l := l) (p := p) (q := q)
        (fun x hx => himp x (List.mem_cons_of_mem _ hx))
      simp [hqb, hpb]; omega
    · have := ih (fun x hx => himp x (List.mem_cons_of_mem _ hx)) hb'
      have h2 := himp a (by simp)
      by_cases hpa : p a = true
      · simp [hpa, h2 hpa]; omega
      · simp [hpa]; omega

theorem exists_unmarked_below {α : Type} (lt : α → α → Bool)
    (htrans : ∀ a b c, lt a b = true → lt b c = true → lt a c = true)
    (hirr : ∀ a, lt a a = false)
    (l : List α) (marked : α → Prop)
    (hstep : ∀ x ∈ l, marked x → ∃ j ∈ l, lt j x = true) :
    ∀ x ∈ l, marked x → ∃ j ∈ l, ¬ marked j ∧ lt j x = true := by
  have main : ∀ n, ∀ x ∈ l, l.countP (fun a => lt a x) ≤ n → marked x →
      ∃ j ∈ l, ¬ marked j ∧ lt j x = true := by
    intro n
    induction n with
    | zero =>
      intro x hx hc hm
      obtain ⟨j, hj, hjx⟩ := hstep x hx hm
      have : 0 < l.countP (fun a => lt a x) := List.countP_pos_iff.2 ⟨j, hj, hjx⟩
      omega
    | succ n ih =>
      intro x hx hc hm
      obtain ⟨j, hj, hjx⟩ := hstep x hx hm
      by_cases hmj : marked j
      · have hlt : l.countP (fun a => lt a j) < l.countP (fun a => lt a x) :=
          countP_lt_of_imp (fun a _ ha => htrans a j x ha hjx) hj hjx (hirr j)
        obtain ⟨j', hj', hnm, hlt'⟩ := ih j hj (by omega) hmj
        exact ⟨j', hj', hnm, htrans _ _ _ hlt' hjx⟩
      · exact ⟨j, hj, hmj, hjx⟩
  intro x hx hm
  exact main _ x hx (Nat.le_refl _) hm

/-! ## loop invariant -/

/-- every marked index is NaN or has a `precB`-justifier among `inds` -/
structure RsInv (pop : List Indv) (pos : Nat → Nat) (inds rs : List Nat) : Prop where
  nodup : rs.Nodup
  sub : ∀ x ∈ rs, x ∈ inds
  just : ∀ x ∈ rs, ∃ px, pop[x]? = some px ∧
    (px.key.isNan = true ∨ ∃ j ∈ inds, precB pop pos j x = true)

theorem RsInv.nil (pop : List Indv) (pos : Nat → Nat) (inds : List Nat) : RsInv pop pos inds [] :=
  ⟨List.nodup_nil, by simp, by simp⟩

theorem RsInv.setAdd {pop : List Indv} {pos : Nat → Nat} {inds rs : List Nat} {x : Nat}
    (h : RsInv pop pos inds rs) (hx : x ∈ inds)
    (hj : ∃ px, pop[x]? = some px ∧ (px.key.isNan = true ∨ ∃ j ∈ inds, precB pop pos j x = true)) :
    RsInv pop pos inds (setAdd rs x) := by
  refine ⟨setAdd_nodup h.nodup, ?_, ?_⟩
  · intro y hy
    rcases mem_setAdd.1 hy with hy | rfl
    · exact h.sub y hy
    · exact hx
  · intro y hy
    rcases mem_setAdd.1 hy with hy | rfl
    · exact h.just y hy
    · exact hj

/-- one `_update_removal_set` call with `a` earlier than `b` -/
theorem updateRemovalSet_inv {pop : List Indv} {pos : Nat → Nat} {inds rs rs' : List Nat} {a b : Nat}
    (h : RsInv pop pos inds rs) (ha : a ∈ inds) (hb : b ∈ inds) (hab : pos a < pos b)
    (hu : updateRemovalSet pop a b rs = some rs') :
    RsInv pop pos inds rs' ∧ rs.length ≤ rs'.length ∧ rs'.length ≤ rs.length + 1 := by
  rw [updateRemovalSet_eq] at hu
  cases hpa : pop[a]? with
  | none => simp [hpa] at hu
  | some pa =>
    cases hpb : pop[b]? with
    | none => simp [hpa, hpb] at hu
    | some pb =>
      simp only [hpa, hpb, Option.some.injEq] at hu
      cases hv : verdict pa pb with
      | none =>
        simp only [hv] at hu; subst hu
        exact ⟨h, Nat.le_refl _, Nat.le_succ _⟩
      | some t =>
        cases t with
        | true =>
          simp only [hv] at hu; subst hu
          refine ⟨h.setAdd ha ⟨pa, hpa, ?_⟩, setAdd_length_ge _ _, setAdd_length_le _ _⟩
          rcases verdict_true hv with hn | ⟨d, nd⟩
          · exact Or.inl hn
          · exact Or.inr ⟨b, hb, precB_iff.2 ⟨pb, pa, hpb, hpa, d, Or.inl nd⟩⟩
        | false =>
          simp only [hv] at hu; subst hu
          refine ⟨h.setAdd hb ⟨pb, hpb, ?_⟩, setAdd_length_ge _ _, setAdd_length_le _ _⟩
          rcases (verdict_false hv).2 with hn | d
          · exact Or.inl hn
          · exact Or.inr ⟨a, ha, precB_iff.2 ⟨pa, pb, hpa, hpb, d, Or.inr hab⟩⟩

theorem updateRemovalSet_length {pop : List Indv} {rs rs' : List Nat} {a b : Nat}
    (hu : updateRemovalSet pop a b rs = some rs') : rs'.length ≤ rs.length + 1 := by
  rw [updateRemovalSet_eq] at hu
  cases hpa : pop[a]? with
  | none => simp [hpa] at hu
  | some pa =>
    cases hpb : pop[b]? with
    | none => simp [hpa, hpb] at hu
    | some pb =>
      simp only [hpa, hpb, Option.some.injEq] at hu
      subst hu
      split
      · exact setAdd_length_le _ _
      · exact setAdd_length_le _ _
      · omega

def sumVal : Sum (List Nat) (List Nat) → List Nat
  | .inl l => l
  | .inr l => l

theorem innerLoop_inv {pop : List Indv} {pos : Nat → Nat} {inds : List Nat} {needed a : Nat}
    (ha : a ∈ inds) : ∀ (rest rs : List Nat) (res : Sum (List Nat) (List Nat)),
    RsInv pop pos inds rs → (∀ b ∈ rest, b ∈ inds ∧ pos a < pos b) →
    innerLoop pop needed a rest rs = some res → RsInv pop pos inds (sumVal res) := by
  intro rest
  induction rest with
  | nil =>
    intro rs res h _ hi
    simp only [innerLoop, Option.some.injEq] at hi
    subst hi; exact h
  | cons b rest ih =>
    intro rs res h hr hi
    rw [innerLoop] at hi
    have hr' : ∀ b ∈ rest, b ∈ inds ∧ pos a < pos b := fun c hc => hr c (List.mem_cons_of_mem _ hc)
    split at hi
    · exact ih rs res h hr' hi
    · cases hu : updateRemovalSet pop a b rs with
      | none => simp [hu] at hi
      | some rs' =>
        simp only [hu] at hi
        obtain ⟨hinv, _, _⟩ := updateRemovalSet_inv h ha (hr b (by simp)).1 (hr b (by simp)).2 hu
        split at hi
        · simp only [Option.some.injEq] at hi; subst hi
          exact hinv
        · exact ih rs' res hinv hr' hi

theorem innerLoop_length {pop : List Indv} {needed a : Nat} :
    ∀ (rest rs : List Nat) (res : Sum (List Nat) (List Nat)), rs.length < needed →
    innerLoop pop needed a rest rs = some res →
    match res with
    | .inl rs' => rs'.length ≤ needed
    | .inr rs' => rs'.length < needed := by
  intro rest
  induction rest with
  | nil =>
    intro rs res hl hi
    simp only [innerLoop, Option.some.injEq] at hi
    subst hi; exact hl
  | cons b rest ih =>
    intro rs res hl hi
    rw [innerLoop] at hi
    split at hi
    · exact ih rs res hl hi
    · cases hu : updateRemovalSet pop a b rs with
      | none => simp [hu] at hi
      | some rs' =>
        simp only [hu] at hi
        have hle := updateRemovalSet_length hu
        split at hi
        · simp only [Option.some.injEq] at hi; subst hi
          show rs'.length ≤ needed
          omega
        · exact ih rs' res (by omega) hi

theorem outerLoop_inv {pop : List Indv} {pos : Nat → Nat} {inds : List Nat} {needed : Nat} :
    ∀ (suffix rs rem : List Nat),
    RsInv pop pos inds rs → (∀ b ∈ suffix, b ∈ inds) → suffix.Pairwise (fun a b => pos a < pos b) →
    outerLoop pop needed suffix rs = some rem → RsInv pop pos inds rem := by
  intro suffix
  induction suffix with
  | nil =>
    intro rs rem h _ _ ho
    simp only [outerLoop, Option.some.injEq] at ho; subst ho
    exact h
  | cons a rest ih =>
    intro rs rem h hsub hpw ho
    cases rest with
    | nil =>
      simp only [outerLoop, Option.some.injEq] at ho; subst ho
      exact h
    | cons b rest' =>
      have e := outerLoop.eq_3 pop needed rs a (b :: rest') (by simp)
      rw [e] at ho
      rw [List.pairwise_cons] at hpw
      have hsub' : ∀ c ∈ b :: rest', c ∈ inds := fun c hc => hsub c (List.mem_cons_of_mem _ hc)
      split at ho
      · exact ih rs rem h hsub' hpw.2 ho
      · cases hi : innerLoop pop needed a (b :: rest') rs with
        | none => simp [hi] at ho
        | some res =>
          have := innerLoop_inv (pos := pos) (hsub a (by simp)) (b :: rest') rs res h
            (fun c hc => ⟨hsub' c hc, hpw.1 c hc⟩) hi
          cases res with
          | inl rs' =>
            simp only [hi, Option.some.injEq] at ho; subst ho
            exact this
          | inr rs' =>
            simp only [hi] at ho
            exact ih rs' rem this hsub' hpw.2 ho

theorem outerLoop_length {pop : List Indv} {needed : Nat} :
    ∀ (suffix rs rem : List Nat), rs.length < needed →
    outerLoop pop needed suffix rs = some rem → rem.length ≤ needed := by
  intro suffix
  induction suffix with
  | nil =>
    intro rs rem hl ho
    simp only [outerLoop, Option.some.injEq] at ho; subst ho
    omega
  | cons a rest ih =>
    intro rs rem hl ho
    cases rest with
    | nil =>
      simp only [outerLoop, Option.some.injEq] at ho; subst ho
      omega
    | cons b rest' =>
      have e := outerLoop.eq_3 pop needed rs a (b :: rest') (by simp)
      rw [e] at ho
      split at ho
      · exact ih rs rem hl ho
      · cases hi : innerLoop pop needed a (b :: rest') rs with
        | none => simp [hi] at ho
        | some res =>
          have := innerLoop_length (b :: rest') rs res hl hi
          cases res with
          | inl rs' =>
            simp only [hi, Option.some.injEq] at ho; subst ho
            exact this
          | inr rs' =>
            simp only [hi] at ho
            exact ih rs' rem this ho

/-! ## totality -/

theorem updateRemovalSet_isSome {pop : List Indv} {a b : Nat} (rs : List Nat)
    (ha : a < pop.length) (hb : b < pop.length) : ∃ rs', updateRemovalSet pop a b rs = some rs' := by
  rw [updateRemovalSet_eq, List.getElem?_eq_getElem ha, List.getElem?_eq_getElem hb]
  exact ⟨_, rfl⟩

theorem innerLoop_isSome {pop : List Indv} {needed a : Nat} (ha : a < pop.length) :
    ∀ (rest rs : List Nat), (∀ b ∈ rest, b < pop.length) →
    ∃ res, innerLoop pop needed a rest rs = some res := by
  intro rest
  induction rest with
  | nil => intro rs _; exact ⟨_, rfl⟩
  | cons b rest ih =>
    intro rs hr
    have hr' : ∀ c ∈ rest, c < pop.length := fun c hc => hr c (List.mem_cons_of_mem _ hc)
    rw [innerLoop]
    split
    · exact ih rs hr'
    · obtain ⟨rs', hu⟩ := updateRemovalSet_isSome rs ha (hr b (by simp))
      simp only [hu]
      split
      · exact ⟨_, rfl⟩
      · exact ih rs' hr'

theorem outerLoop_isSome {pop : List Indv} {needed : Nat} :
    ∀ (suffix rs : List Nat), (∀ b ∈ suffix, b < pop.length) →
    ∃ rem, outerLoop pop needed suffix rs = some rem := by
  intro suffix
  induction suffix with
  | nil => intro rs _; exact ⟨_, rfl⟩
  | cons a rest ih =>
    intro rs hr
    cases rest with
    | nil => exact ⟨_, rfl⟩
    | cons b rest' =>
      have hr' : ∀ c ∈ b :: rest', c < pop.length := fun c hc => hr c (List.mem_cons_of_mem _ hc)
      rw [outerLoop.eq_3 pop needed rs a (b :: rest') (by simp)]
      split
      · exact ih rs hr'
      · obtain ⟨res, hi⟩ := innerLoop_isSome (needed := needed) (hr a (by simp)) (b :: rest') rs hr'
        simp only [hi]
        cases res with
        | inl rs' => exact ⟨_, rfl⟩
        | inr rs' => exact ih rs' hr'

/-! ## positions in a duplicate-free list -/

theorem pairwise_idxOf_lt {l : List Nat} (h : l.Nodup) :
    l.Pairwise (fun a b => l.idxOf a < l.idxOf b) := by
  rw [List.pairwise_iff_getElem]
  intro i j hi hj hij
  rw [h.idxOf_getElem i hi, h.idxOf_getElem j hj]
  exact hij

end Sel
end Bingo
