import Model.ParArch
import Proofs.Lemmas.ParArch
import Proofs.Lemmas.ParArchLive
/-!
# C12 -- liveness accounting, part 2: `total_age` never loses ground

`Mono s`: no AGE_UPDATE message claims to come from rank 0; per source, the ages waiting in rank 0's
mailbox are non-decreasing in arrival order (a helper's age only grows and MPI delivery is
non-overtaking) and not below the `total_age` entry of their source.  Consequently every
`total_age.update(...)` of `_gather_updated_ages` replaces an entry by a value that is at least as
large, and `sum(total_age.values())` never decreases (`tableSum_step`); a completed slice of rank 0 that
adds `k` generations raises it by at least `k`.
-/
set_option linter.unusedSimpArgs false
set_option linter.unusedVariables false
namespace Bingo
namespace C12
open ParArch

/-- entry `r` of `total_age` (0 if absent) -/
def tab (s : State) (r : Nat) : Nat := (s.table.getD r none).getD 0

structure Mono (s : State) : Prop where
  /-- AGE_UPDATE messages come from helpers -/
  src : ∀ m, m ∈ s.mbox → 0 < m.1
  /-- a waiting age is at least what rank 0 already knows about its source -/
  ge : ∀ m, m ∈ s.mbox → tab s m.1 ≤ m.2
  /-- per source, waiting ages are non-decreasing in arrival order -/
  sorted : s.mbox.Pairwise (fun m m' => m.1 = m'.1 → m.2 ≤ m'.2)

theorem initial_mbox (R sync n : Nat) (ages : List Nat) : (initial R sync n ages).mbox = [] := by
  unfold initial; split <;> rfl

theorem mono_initial (R sync n : Nat) (ages : List Nat) : Mono (initial R sync n ages) :=
  { src := by intro m hm; simp [initial_mbox] at hm
    ge := by intro m hm; simp [initial_mbox] at hm
    sorted := by simp [initial_mbox] }

theorem takeFrom_sublist {src a : Nat} {l rest : List (Nat × Nat)} (h : takeFrom src l = some (a, rest)) :
    rest.Sublist l ∧ rest.length + 1 = l.length := by
  induction l generalizing a rest with
  | nil => simp [takeFrom] at h
  | cons m t ih =>
    obtain ⟨q, b⟩ := m
    simp only [takeFrom] at h
    by_cases hq : q = src
    · simp [hq] at h
      obtain ⟨h1, h2⟩ := h
      subst h2
      exact ⟨List.sublist_cons_self _ _, rfl⟩
    · simp only [hq, if_false] at h
      cases hr : takeFrom src t with
      | none => simp [hr] at h
      | some p =>
        obtain ⟨a', rest'⟩ := p
        simp [hr] at h
        obtain ⟨h1, h2⟩ := h
        subst h1 h2
        obtain ⟨i1, i2⟩ := ih hr
        exact ⟨i1.cons_cons _, by simp; omega⟩

/-- the message taken by `recv(source=src)` is the oldest of `src`, hence (per-source order) not above
any other waiting message of `src` -/
theorem takeFrom_least {src a : Nat} {l rest : List (Nat × Nat)}
    (hs : l.Pairwise (fun m m' => m.1 = m'.1 → m.2 ≤ m'.2)) (h : takeFrom src l = some (a, rest)) :
    ∀ m, m ∈ rest → m.1 = src → a ≤ m.2 := by
  induction l generalizing a rest with
  | nil => simp [takeFrom] at h
  | cons m t ih =>
    obtain ⟨q, b⟩ := m
    rw [List.pairwise_cons] at hs
    simp only [takeFrom] at h
    by_cases hq : q = src
    · simp [hq] at h
      obtain ⟨h1, h2⟩ := h
      subst h1 h2
      intro m hm hsrc
      exact hs.1 m hm (by simp [hq, hsrc])
    · simp only [hq, if_false] at h
      cases hr : takeFrom src t with
      | none => simp [hr] at h
      | some p =>
        obtain ⟨a', rest'⟩ := p
        simp [hr] at h
        obtain ⟨h1, h2⟩ := h
        subst h1 h2
        intro m hm hsrc
        simp only [List.mem_cons] at hm
        rcases hm with hm | hm
        · subst hm; exact absurd hsrc hq
        · exact ih hs.2 hr m hm hsrc

theorem tab_set (s : State) (i j v : Nat) :
    ((s.table.set i (some v)).getD j none).getD 0 = if i = j ∧ i < s.table.length then v else tab s j := by
  rw [getD_set]
  split <;> simp [tab]

theorem mono_step0 {s s' : State} {a : Action} (inv : Inv s) (mono : Mono s) (h : Step0 s a s') : Mono s' := by
  cases h with
  | tick r h => exact mono
  | evolve r k h =>
    refine ⟨mono.src, ?_, mono.sorted⟩
    intro m hm
    have h0 := mono.src m hm
    show ((s.table.set 0 (some (age s 0 + k))).getD m.1 none).getD 0 ≤ m.2
    rw [tab_set]
    have : ¬ (0 = m.1 ∧ 0 < s.table.length) := by omega
    simp only [this, if_false]
    exact mono.ge m hm
  | probeSome r q h hq => exact ⟨mono.src, mono.ge, mono.sorted⟩
  | probeLoop r h hq hb => exact ⟨mono.src, mono.ge, mono.sorted⟩
  | probeExit r h hq hb => exact ⟨mono.src, mono.ge, mono.sorted⟩
  | probeSomeF r q h hq => exact ⟨mono.src, mono.ge, mono.sorted⟩
  | probeDone r h hq => exact ⟨mono.src, mono.ge, mono.sorted⟩
  | collectNext r src a rest h ht hk =>
    obtain ⟨hsub, _⟩ := takeFrom_sublist ht
    refine ⟨fun m hm => mono.src m (hsub.subset hm), ?_, mono.sorted.sublist hsub⟩
    intro m hm
    show ((s.table.set src (some a)).getD m.1 none).getD 0 ≤ m.2
    rw [tab_set]
    split
    · rename_i e; exact takeFrom_least mono.sorted ht m hm e.1.symm
    · exact mono.ge m (hsub.subset hm)
  | collectLast r src a rest h ht hk =>
    obtain ⟨hsub, _⟩ := takeFrom_sublist ht
    refine ⟨fun m hm => mono.src m (hsub.subset hm), ?_, mono.sorted.sublist hsub⟩
    intro m hm
    show ((s.table.set src (some a)).getD m.1 none).getD 0 ≤ m.2
    rw [tab_set]
    split
    · rename_i e; exact takeFrom_least mono.sorted ht m hm e.1.symm
    · exact mono.ge m (hsub.subset hm)
  | recv r src a rest h ht =>
    obtain ⟨hsub, _⟩ := takeFrom_sublist ht
    refine ⟨fun m hm => mono.src m (hsub.subset hm), ?_, mono.sorted.sublist hsub⟩
    intro m hm
    show ((s.table.set src (some a)).getD m.1 none).getD 0 ≤ m.2
    rw [tab_set]
    split
    · rename_i e; exact takeFrom_least mono.sorted ht m hm e.1.symm
    · exact mono.ge m (hsub.subset hm)
  | recvF r src a rest h ht =>
    obtain ⟨hsub, _⟩ := takeFrom_sublist ht
    refine ⟨fun m hm => mono.src m (hsub.subset hm), ?_, mono.sorted.sublist hsub⟩
    intro m hm
    show ((s.table.set src (some a)).getD m.1 none).getD 0 ≤ m.2
    rw [tab_set]
    split
    · rename_i e; exact takeFrom_least mono.sorted ht m hm e.1.symm
    · exact mono.ge m (hsub.subset hm)
  | sendExit r k h hk => exact ⟨mono.src, mono.ge, mono.sorted⟩
  | enter r h => exact ⟨mono.src, mono.ge, mono.sorted⟩
  | leave r h ha =>
    refine ⟨mono.src, ?_, mono.sorted⟩
    intro m hm
    have h0 := mono.src m hm
    show ((s.table.set 0 (some (age s 0))).getD m.1 none).getD 0 ≤ m.2
    rw [tab_set]
    have : ¬ (0 = m.1 ∧ 0 < s.table.length) := by omega
    simp only [this, if_false]
    exact mono.ge m hm

theorem mono_stepH {s s' : State} {a : Action} {r : Nat} (inv : Inv s) (mono : Mono s) (h0 : 0 < r) (hR : r < s.R)
    (h : StepHC s r a s') : Mono s' := by
  cases h with
  | tick r' h => exact mono
  | evolve r' k h => exact ⟨mono.src, mono.ge, mono.sorted⟩
  | send r' h =>
    refine ⟨?_, ?_, ?_⟩
    · intro m hm
      have hm' : m ∈ s.mbox ++ [(r, age s r)] := hm
      rw [List.mem_append] at hm'
      rcases hm' with hm' | hm'
      · exact mono.src m hm'
      · simp at hm'; subst hm'; exact h0
    · intro m hm
      have hm' : m ∈ s.mbox ++ [(r, age s r)] := hm
      rw [List.mem_append] at hm'
      rcases hm' with hm' | hm'
      · exact mono.ge m hm'
      · simp at hm'; subst hm'; exact inv.tab r hR
    · show (s.mbox ++ [(r, age s r)]).Pairwise _
      rw [List.pairwise_append]
      refine ⟨mono.sorted, by simp, ?_⟩
      intro m hm m' hm' e
      simp at hm'; subst hm'
      have := inv.box m hm
      rw [e] at this; exact this
  | probeYes r' h hq => exact ⟨mono.src, mono.ge, mono.sorted⟩
  | probeNo r' h hq => exact ⟨mono.src, mono.ge, mono.sorted⟩
  | recv r' h hq => exact ⟨mono.src, mono.ge, mono.sorted⟩
  | enter r' h => exact ⟨mono.src, mono.ge, mono.sorted⟩
  | leave r' h ha => exact ⟨mono.src, mono.ge, mono.sorted⟩

/-- `Mono` is preserved by every transition -/
theorem mono_step {s s' : State} {a : Action} (inv : Inv s) (mono : Mono s) (h : step s a = some s') : Mono s' := by
  rcases step_cases h with ⟨_, h0⟩ | ⟨h0, hR, hH⟩
  · exact mono_step0 inv mono h0
  · exact mono_stepH inv mono h0 hR hH

theorem run_mono {s t : State} {as : List Action} (inv : Inv s) (mono : Mono s) (h : run s as = some t) :
    Mono t := by
  induction as generalizing s with
  | nil => simp [run] at h; subst h; exact mono
  | cons a as ih =>
    obtain ⟨s', hs, hrun⟩ := run_cons_inv h
    exact ih (inv_step inv hs) (mono_step inv mono hs) hrun

/-! ## `sum(total_age.values())` -/

theorem tableSum_set : ∀ (t : List (Option Nat)) (i v : Nat), i < t.length →
    tableSum (t.set i (some v)) + (t.getD i none).getD 0 = tableSum t + v
  | [], _, _, h => by simp at h
  | x :: t, 0, v, _ => by simp [tableSum]; omega
  | x :: t, i + 1, v, h => by
    have := tableSum_set t i v (by simpa using h)
    simp [tableSum] at this ⊢
    omega

/-- replacing an entry of `total_age` by a value that is at least as large does not lower the sum -/
theorem tableSum_set_ge (t : List (Option Nat)) (i v : Nat) (h : (t.getD i none).getD 0 ≤ v) :
    tableSum t ≤ tableSum (t.set i (some v)) := by
  by_cases hi : i < t.length
  · have := tableSum_set t i v hi; omega
  · rw [List.set_eq_of_length_le (by omega)]; exact Nat.le_refl _

/-- what the transitions do to `sum(total_age.values())`, rank 0's mailbox length and `R`, `numSteps` -/
theorem tableSum_step0 {s s' : State} {a : Action} (inv : Inv s) (mono : Mono s) (h : Step0 s a s') :
    tableSum s.table ≤ tableSum s'.table := by
  cases h with
  | tick r h => exact Nat.le_refl _
  | evolve r k h =>
    apply tableSum_set_ge
    have := inv.tab 0 inv.Rpos
    omega
  | probeSome r q h hq => exact Nat.le_refl _
  | probeLoop r h hq hb => exact Nat.le_refl _
  | probeExit r h hq hb => exact Nat.le_refl _
  | probeSomeF r q h hq => exact Nat.le_refl _
  | probeDone r h hq => exact Nat.le_refl _
  | collectNext r src a rest h ht hk =>
    apply tableSum_set_ge
    exact mono.ge (src, a) (takeFrom_spec ht).1
  | collectLast r src a rest h ht hk =>
    apply tableSum_set_ge
    exact mono.ge (src, a) (takeFrom_spec ht).1
  | recv r src a rest h ht =>
    apply tableSum_set_ge
    exact mono.ge (src, a) (takeFrom_spec ht).1
  | recvF r src a rest h ht =>
    apply tableSum_set_ge
    exact mono.ge (src, a) (takeFrom_spec ht).1
  | sendExit r k h hk => exact Nat.le_refl _
  | enter r h => exact Nat.le_refl _
  | leave r h ha =>
    apply tableSum_set_ge
    exact inv.tab 0 inv.Rpos

/-- a completed slice of rank 0 that added `k` generations raises `sum(total_age.values())` by at least `k` -/
theorem tableSum_evolve0 {s : State} (inv : Inv s) (k : Nat) :
    tableSum s.table + k ≤ tableSum (s.table.set 0 (some (age s 0 + k))) := by
  have h1 := tableSum_set s.table 0 (age s 0 + k) (by rw [inv.lenTable]; exact inv.Rpos)
  have h2 := inv.tab 0 inv.Rpos
  omega

theorem stepH_table {s s' : State} {a : Action} {r : Nat} (h : StepHC s r a s') :
    s'.table = s.table ∧ s'.pc0 = s.pc0 := by
  cases h <;> exact ⟨rfl, rfl⟩

/-- `sum(total_age.values())` never decreases -/
theorem tableSum_step {s s' : State} {a : Action} (inv : Inv s) (mono : Mono s) (h : step s a = some s') :
    tableSum s.table ≤ tableSum s'.table := by
  rcases step_cases h with ⟨_, h0⟩ | ⟨h0, hR, hH⟩
  · exact tableSum_step0 inv mono h0
  · rw [(stepH_table hH).1]; exact Nat.le_refl _

end C12
end Bingo
