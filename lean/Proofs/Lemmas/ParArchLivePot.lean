import Model.ParArch
import Proofs.Lemmas.ParArch
import Proofs.Lemmas.ParArchLive
import Proofs.Lemmas.ParArchLiveMono
/-!
# C12 -- liveness accounting, part 3: potential functions

* `budget s = target_total_age - sum(total_age.values())` (`R * numSteps` while rank 0 is still collecting,
  which is what it will be when `target_total_age` is assigned): what is missing for rank 0's loop
  condition to fail;
* `Psi`: bounds the number of loop iterations of rank 0 (`psi_step`);
* `Phi`: every protocol operation of rank 0 lowers it by at least 1, a helper's `_send_updated_age`
  raises it by exactly 2, nothing else changes it upwards (`phi_step`);
* `hPot`: once the EXIT_NOTIFICATION of helper `r` is sent, every protocol operation of `r` lowers it
  (`hpot_step`);
* `Glob = Phi + Σ hPsi`: every protocol operation of any rank lowers it by at least 1, except a helper's
  `_send_updated_age`, which raises it by at most 4 (`glob_step`).
-/
set_option linter.unusedSimpArgs false
set_option linter.unusedVariables false
namespace Bingo
namespace C12
open ParArch

/-- what is missing for `sum(total_age.values()) < target_total_age` to fail:
`target_total_age - sum(total_age.values())`; during the collecting loop, where `target_total_age` is
not yet assigned, the value it will have at the end of the loop, `R * numSteps` -/
def budget (s : State) : Nat :=
  if isCollecting s.pc0 then s.R * s.numSteps else s.goal - tableSum s.table

theorem budget_nc {s : State} (h : isCollecting s.pc0 = false) : budget s = s.goal - tableSum s.table := by
  unfold budget; rw [h]; rfl

theorem budget_c {s : State} (h : isCollecting s.pc0 = true) : budget s = s.R * s.numSteps := by
  unfold budget; rw [h]; rfl

theorem budget_congr {s s' : State} (h : isCollecting s.pc0 = false) (h' : isCollecting s'.pc0 = false)
    (eg : s'.goal = s.goal) (et : s'.table = s.table) : budget s' = budget s := by
  rw [budget_nc h, budget_nc h', eg, et]

theorem belowTarget_iff (s : State) (hnc : isCollecting s.pc0 = false) : belowTarget s = true ↔ 0 < budget s := by
  rw [budget_nc hnc]
  simp only [belowTarget, decide_eq_true_eq]; omega

theorem belowTarget_false_iff (s : State) (hnc : isCollecting s.pc0 = false) :
    belowTarget s = false ↔ budget s = 0 := by
  have := belowTarget_iff s hnc
  cases h : belowTarget s
  · simp only [h, Bool.false_eq_true, false_iff] at this; simp; omega
  · simp only [h, true_iff] at this; simp; omega

/-- position of rank 0 in `_non_blocking_execution_main`, counted in protocol operations still to come
if no further AGE_UPDATE message had to be received in a drain loop (`b` = the loop budget, only used to
tell the exceptional start "in the loop although the condition already fails" apart); before the
collecting receive from `k` there are `R - k` such receives to come -/
def ordPc (R b : Nat) : Pc0 → Nat
  | .collecting k => R + 5 + (R - k)
  | .evolving => if b = 0 then R + 6 else R + 4
  | .draining none => R + 5
  | .draining (some _) => R + 4
  | .sendingExit k => 4 + (R - k)
  | .atBarrier => 4
  | .inBarrier => 3
  | .finalDrain none => 2
  | .finalDrain (some _) => 1
  | .done => 0

/-- the potential of rank 0: two per missing generation (one `evolve` + one failing probe per loop
iteration), two per waiting AGE_UPDATE message (one probe + one recv), plus the position -/
def Phi (s : State) : Nat := 2 * budget s + 2 * s.mbox.length + ordPc s.R (budget s) s.pc0

theorem ordPc_afterExit_one (R b : Nat) (hR : 0 < R) : ordPc R b (afterExit R 1) ≤ R + 3 := by
  rcases afterExit_cases R 1 with ⟨h, e⟩ | ⟨h, e⟩ <;> rw [e] <;> simp only [ordPc] <;> omega

theorem ordPc_afterExit_succ (R b k : Nat) (hk : k < R) : ordPc R b (afterExit R (k + 1)) + 1 ≤ 4 + (R - k) := by
  rcases afterExit_cases R (k + 1) with ⟨h, e⟩ | ⟨h, e⟩ <;> rw [e] <;> simp only [ordPc] <;> omega

theorem ordPc_evolving_pos (R b : Nat) (hb : 0 < b) : ordPc R b .evolving = R + 4 := by
  have : b ≠ 0 := by omega
  simp only [ordPc, this, if_false]

theorem ordPc_evolving_zero (R : Nat) : ordPc R 0 .evolving = R + 6 := by
  simp only [ordPc, if_true]

/-- the end of the collecting loop, seen by the potentials -/
theorem finishCollect_facts (s : State) (hR : 0 < s.R) :
    budget (finishCollect s) = s.R * s.numSteps ∧
    ordPc s.R (s.R * s.numSteps) (finishCollect s).pc0 ≤ s.R + 4 ∧
    isCollecting (finishCollect s).pc0 = false ∧
    ((finishCollect s).pc0 = .evolving → 0 < s.R * s.numSteps) := by
  have hnc : isCollecting (finishCollect s).pc0 = false := by
    show isCollecting (if _ then Pc0.evolving else afterExit s.R 1) = false
    split
    · rfl
    · exact afterExit_not_collecting _ _
  refine ⟨?_, ?_, hnc, ?_⟩
  · rw [budget_nc hnc]
    show tableSum s.table + s.numSteps * s.R - tableSum s.table = s.R * s.numSteps
    rw [Nat.mul_comm]; omega
  · show ordPc s.R (s.R * s.numSteps) (if tableSum s.table < tableSum s.table + s.numSteps * s.R then Pc0.evolving
      else afterExit s.R 1) ≤ s.R + 4
    rw [Nat.mul_comm s.numSteps s.R]
    split
    · rename_i hlt
      have : s.R * s.numSteps ≠ 0 := by omega
      simp only [ordPc, this, if_false]; omega
    · have := ordPc_afterExit_one s.R (s.R * s.numSteps) hR; omega
  · show (if tableSum s.table < tableSum s.table + s.numSteps * s.R then Pc0.evolving else afterExit s.R 1) = .evolving → _
    rw [Nat.mul_comm s.numSteps s.R]
    split
    · intro _; omega
    · intro e
      rcases afterExit_cases s.R 1 with ⟨_, e'⟩ | ⟨_, e'⟩ <;> rw [e'] at e <;> cases e

/-- every protocol operation of rank 0 lowers `Phi` by at least 1 (a slice of rank 0 must add `k ≥ 1`
generations); a scheduling point leaves it unchanged -/
theorem phi_step0 {s s' : State} {a : Action} (inv : Inv s) (mono : Mono s) (hk : slicePos a = true)
    (hr : a.rank = 0) (h : Step0 s a s') : Phi s' + (if isTick a then 0 else 1) ≤ Phi s := by
  have hts := tableSum_step0 inv mono h
  cases h with
  | tick r h => simp [isTick]
  | evolve r k h =>
    have hr : r = 0 := hr
    subst hr
    have hk : 0 < k := by simpa [slicePos] using hk
    have h1 := tableSum_evolve0 inv k
    by_cases hb : budget s = 0
    · simp only [Phi, h, hb, ordPc_evolving_zero]
      simp only [budget, ordPc, isTick, Bool.false_eq_true, if_false, isCollecting, h] at hb ⊢
      omega
    · simp only [Phi, h, ordPc_evolving_pos _ _ (Nat.pos_of_ne_zero hb)]
      simp only [budget, ordPc, isTick, Bool.false_eq_true, if_false, isCollecting, h] at hb ⊢
      omega
  | probeSome r q h hq => simp only [Phi, budget, h, ordPc, isTick, Bool.false_eq_true, if_false, isCollecting]; omega
  | probeLoop r h hq hb =>
    rw [belowTarget_iff s (by rw [h]; rfl)] at hb
    have e : budget { s with pc0 := Pc0.evolving } = budget s := budget_congr (by rw [h]; rfl) rfl rfl rfl
    simp only [Phi, h, e, ordPc_evolving_pos _ _ hb]
    simp only [ordPc, isTick, Bool.false_eq_true, if_false]
    omega
  | probeExit r h hq hb =>
    rw [belowTarget_false_iff s (by rw [h]; rfl)] at hb
    have := ordPc_afterExit_one s.R 0 inv.Rpos
    have e : budget { s with pc0 := afterExit s.R 1 } = budget s :=
      budget_congr (by rw [h]; rfl) (afterExit_not_collecting _ _) rfl rfl
    have e2 : ordPc s.R 0 (Pc0.draining none) = s.R + 5 := rfl
    simp only [Phi, h, e, hb, e2, isTick, Bool.false_eq_true, if_false]
    omega
  | probeSomeF r q h hq => simp only [Phi, budget, h, ordPc, isTick, Bool.false_eq_true, if_false, isCollecting]; omega
  | probeDone r h hq => simp only [Phi, budget, h, ordPc, isTick, Bool.false_eq_true, if_false, isCollecting]; omega
  | collectNext r k a rest h ht hk' =>
    have hl := (takeFrom_sublist ht).2
    have hk0 := inv.collK k h
    simp only [Phi, budget, h, isCollecting, ordPc, isTick, Bool.false_eq_true, if_false, if_true]
    omega
  | collectLast r k a rest h ht hk' =>
    have hl := (takeFrom_sublist ht).2
    have hf := finishCollect_facts { s with mbox := rest, table := s.table.set k (some a) } inv.Rpos
    have hb : budget (finishCollect { s with mbox := rest, table := s.table.set k (some a) }) = s.R * s.numSteps := hf.1
    have ho : ordPc s.R (s.R * s.numSteps)
        (finishCollect { s with mbox := rest, table := s.table.set k (some a) }).pc0 ≤ s.R + 4 := hf.2.1
    have hB : budget s = s.R * s.numSteps := budget_c (by rw [h]; rfl)
    show 2 * budget (finishCollect _) + 2 * rest.length + ordPc s.R (budget (finishCollect _)) (finishCollect _).pc0 + 1
      ≤ 2 * budget s + 2 * s.mbox.length + ordPc s.R (budget s) s.pc0
    have hO : ordPc s.R (budget s) s.pc0 = s.R + 5 + (s.R - k) := by rw [h]; rfl
    have hk0 := inv.collK k h
    rw [hO, hb, hB]
    omega
  | recv r src a rest h ht =>
    have hl := (takeFrom_sublist ht).2
    simp only [Phi, budget, h, ordPc, isTick, Bool.false_eq_true, if_false, isCollecting] at hts ⊢
    omega
  | recvF r src a rest h ht =>
    have hl := (takeFrom_sublist ht).2
    simp only [Phi, budget, h, ordPc, isTick, Bool.false_eq_true, if_false, isCollecting] at hts ⊢
    omega
  | sendExit r k h hk' =>
    have e : budget { s with exitQ := s.exitQ.set k (s.exitQ.getD k 0 + 1), pc0 := afterExit s.R (k + 1) } = budget s :=
      budget_congr (by rw [h]; rfl) (afterExit_not_collecting _ _) rfl rfl
    have := ordPc_afterExit_succ s.R (budget s) k hk'
    have e2 : ordPc s.R (budget s) (Pc0.sendingExit k) = 4 + (s.R - k) := rfl
    simp only [Phi, h, e, e2, isTick, Bool.false_eq_true, if_false]
    omega
  | enter r h => simp only [Phi, budget, h, ordPc, isTick, Bool.false_eq_true, if_false, isCollecting]; omega
  | leave r h ha =>
    simp only [Phi, budget, h, ordPc, isTick, Bool.false_eq_true, if_false, isCollecting] at hts ⊢
    omega

/-- a helper changes `Phi` only by `_send_updated_age`: one more message to probe and receive -/
theorem phi_stepH {s s' : State} {a : Action} {r : Nat} (h0 : 0 < r) (hr : a.rank = r) (h : StepHC s r a s') :
    Phi s' = Phi s + (if helperSend a then 2 else 0) := by
  cases h with
  | tick r' h => rfl
  | evolve r' k h => rfl
  | send r' h =>
    have hr' : r' ≠ 0 := by have : r' = r := hr; omega
    simp only [Phi, budget, helperSend, List.length_append, List.length_singleton, bne_iff_ne, ne_eq, hr',
      not_false_eq_true, if_true]
    omega
  | probeYes r' h hq => rfl
  | probeNo r' h hq => rfl
  | recv r' h hq => rfl
  | enter r' h => rfl
  | leave r' h ha => rfl

theorem rank0_flags {a : Action} (hr : a.rank = 0) : r0Proto a = !isTick a ∧ helperSend a = false := by
  cases a <;> simp_all [r0Proto, helperSend, Action.rank, isTick]

theorem helper_flags {a : Action} (hr : 0 < a.rank) : r0Proto a = false ∧ isEvolve0 a = false := by
  cases a <;> simp_all [r0Proto, isEvolve0, Action.rank, isTick] <;> omega

/-- **the potential inequality**: one transition, any rank -/
theorem phi_step {s s' : State} {a : Action} (inv : Inv s) (mono : Mono s) (hk : slicePos a = true)
    (h : step s a = some s') :
    Phi s' + (if r0Proto a then 1 else 0) ≤ Phi s + (if helperSend a then 2 else 0) := by
  rcases step_cases h with ⟨hr, h0⟩ | ⟨h0, hR, hH⟩
  · have := phi_step0 inv mono hk hr h0
    obtain ⟨e1, e2⟩ := rank0_flags hr
    rw [e1, e2]
    cases ht : isTick a <;> simp [ht] at this ⊢ <;> omega
  · have := phi_stepH h0 rfl hH
    rw [(helper_flags h0).1, this]
    simp

/-! ## loop iterations of rank 0 -/

/-- the exceptional start: rank 0 is in its loop although the loop condition already fails -/
def loopExtra (b : Nat) : Pc0 → Nat
  | .evolving => if b = 0 then 1 else 0
  | _ => 0

/-- bound on the number of `island.evolve` slices rank 0 will still complete -/
def Psi (s : State) : Nat := budget s + loopExtra (budget s) s.pc0

theorem loopExtra_afterExit (R b k : Nat) : loopExtra b (afterExit R k) = 0 := by
  rcases afterExit_cases R k with ⟨_, e⟩ | ⟨_, e⟩ <;> rw [e] <;> rfl

theorem loopExtra_finish (s : State) (hR : 0 < s.R) :
    loopExtra (s.R * s.numSteps) (finishCollect s).pc0 = 0 := by
  have hf := (finishCollect_facts s hR).2.2.2
  cases hp : (finishCollect s).pc0 with
  | evolving =>
    have := hf hp
    have hne : s.R * s.numSteps ≠ 0 := by omega
    simp only [loopExtra, hne, if_false]
  | _ => rfl

theorem loopExtra_le (b : Nat) (p : Pc0) : loopExtra b p ≤ 1 := by
  cases p <;> simp only [loopExtra] <;> (try split) <;> omega

theorem stepH_frame0 {s s' : State} {a : Action} {r : Nat} (h : StepHC s r a s') :
    s'.table = s.table ∧ s'.pc0 = s.pc0 ∧ s'.R = s.R ∧ s'.numSteps = s.numSteps ∧ s'.goal = s.goal := by
  cases h <;> exact ⟨rfl, rfl, rfl, rfl, rfl⟩

theorem step0_frame0 {s s' : State} {a : Action} (h : Step0 s a s') :
    s'.pcH = s.pcH ∧ s'.R = s.R ∧ s'.numSteps = s.numSteps := by
  cases h <;> exact ⟨rfl, rfl, rfl⟩

theorem psi_step0 {s s' : State} {a : Action} (inv : Inv s) (mono : Mono s) (hk : slicePos a = true)
    (hr : a.rank = 0) (h : Step0 s a s') : Psi s' + (if isEvolve0 a then 1 else 0) ≤ Psi s := by
  have hts := tableSum_step0 inv mono h
  cases h with
  | tick r h => simp [isEvolve0]
  | evolve r k h =>
    have hr : r = 0 := hr
    subst hr
    have hk : 0 < k := by simpa [slicePos] using hk
    have h1 := tableSum_evolve0 inv k
    by_cases hb : budget s = 0
    · simp only [Psi, h, hb, loopExtra, isEvolve0, beq_self_eq_true, if_true]
      simp only [budget, isCollecting, h, Bool.false_eq_true, if_false] at hb ⊢
      omega
    · simp only [Psi, h, hb, loopExtra, isEvolve0, beq_self_eq_true, if_true, if_false]
      simp only [budget, isCollecting, h, Bool.false_eq_true, if_false] at hb ⊢
      omega
  | probeSome r q h hq => simp only [Psi, budget, h, loopExtra, isEvolve0, Bool.false_eq_true, if_false, isCollecting]; omega
  | probeLoop r h hq hb =>
    rw [belowTarget_iff s (by rw [h]; rfl)] at hb
    have e : budget { s with pc0 := Pc0.evolving } = budget s := budget_congr (by rw [h]; rfl) rfl rfl rfl
    have hb' : budget s ≠ 0 := by omega
    simp only [Psi, h, e, loopExtra, hb', isEvolve0, Bool.false_eq_true, if_false]
    omega
  | probeExit r h hq hb =>
    have e : budget { s with pc0 := afterExit s.R 1 } = budget s :=
      budget_congr (by rw [h]; rfl) (afterExit_not_collecting _ _) rfl rfl
    have e2 : loopExtra (budget s) (Pc0.draining none) = 0 := rfl
    simp only [Psi, h, e, e2, loopExtra_afterExit, isEvolve0, Bool.false_eq_true, if_false]
    omega
  | probeSomeF r q h hq => simp only [Psi, budget, h, loopExtra, isEvolve0, Bool.false_eq_true, if_false, isCollecting]; omega
  | probeDone r h hq => simp only [Psi, budget, h, loopExtra, isEvolve0, Bool.false_eq_true, if_false, isCollecting]; omega
  | collectNext r k a rest h ht hk' =>
    simp only [Psi, budget, h, isCollecting, loopExtra, isEvolve0, Bool.false_eq_true, if_false, if_true]
    omega
  | collectLast r k a rest h ht hk' =>
    have hf := finishCollect_facts { s with mbox := rest, table := s.table.set k (some a) } inv.Rpos
    have hb : budget (finishCollect { s with mbox := rest, table := s.table.set k (some a) }) = s.R * s.numSteps := hf.1
    have hB : budget s = s.R * s.numSteps := budget_c (by rw [h]; rfl)
    have hx := loopExtra_finish { s with mbox := rest, table := s.table.set k (some a) } inv.Rpos
    show budget (finishCollect _) + loopExtra (budget (finishCollect _)) (finishCollect _).pc0 + 0
      ≤ budget s + loopExtra (budget s) s.pc0
    have hx' : loopExtra (s.R * s.numSteps)
        (finishCollect { s with mbox := rest, table := s.table.set k (some a) }).pc0 = 0 := hx
    rw [hb, hB, hx']
    omega
  | recv r src a rest h ht =>
    simp only [Psi, budget, h, loopExtra, isEvolve0, Bool.false_eq_true, if_false, isCollecting] at hts ⊢
    omega
  | recvF r src a rest h ht =>
    simp only [Psi, budget, h, loopExtra, isEvolve0, Bool.false_eq_true, if_false, isCollecting] at hts ⊢
    omega
  | sendExit r k h hk' =>
    have e : budget { s with exitQ := s.exitQ.set k (s.exitQ.getD k 0 + 1), pc0 := afterExit s.R (k + 1) } = budget s :=
      budget_congr (by rw [h]; rfl) (afterExit_not_collecting _ _) rfl rfl
    have e2 : loopExtra (budget s) (Pc0.sendingExit k) = 0 := rfl
    simp only [Psi, h, e, e2, loopExtra_afterExit, isEvolve0, Bool.false_eq_true, if_false]
    omega
  | enter r h => simp only [Psi, budget, h, loopExtra, isEvolve0, Bool.false_eq_true, if_false, isCollecting]; omega
  | leave r h ha =>
    simp only [Psi, budget, h, loopExtra, isEvolve0, Bool.false_eq_true, if_false, isCollecting] at hts ⊢
    omega

/-- every completed slice of rank 0 lowers `Psi` by at least 1; nothing raises it -/
theorem psi_step {s s' : State} {a : Action} (inv : Inv s) (mono : Mono s) (hk : slicePos a = true)
    (h : step s a = some s') : Psi s' + (if isEvolve0 a then 1 else 0) ≤ Psi s := by
  rcases step_cases h with ⟨hr, h0⟩ | ⟨h0, hR, hH⟩
  · exact psi_step0 inv mono hk hr h0
  · obtain ⟨e1, e2, e3, e4, e5⟩ := stepH_frame0 hH
    rw [(helper_flags h0).2]
    simp only [Psi, budget, e1, e2, e3, e4, e5, Bool.false_eq_true, if_false]
    omega

/-! ## helpers after their exit notification -/

theorem exitSent_afterExit (R k r : Nat) (h : r < k) : exitSent (afterExit R k) r = true := by
  rcases afterExit_cases R k with ⟨_, e⟩ | ⟨_, e⟩ <;> rw [e] <;> simp [exitSent, h]

/-- an EXIT_NOTIFICATION that has been sent stays sent -/
theorem exitSent_step {s s' : State} {a : Action} {r : Nat} (h : step s a = some s')
    (hs : exitSent s.pc0 r = true) : exitSent s'.pc0 r = true := by
  rcases step_cases h with ⟨_, h0⟩ | ⟨_, _, hH⟩
  · cases h0 with
    | tick r' hp => exact hs
    | evolve r' k hp => rw [hp] at hs; simp [exitSent] at hs
    | probeSome r' q hp hq => rw [hp] at hs; simp [exitSent] at hs
    | probeLoop r' hp hq hb => rw [hp] at hs; simp [exitSent] at hs
    | probeExit r' hp hq hb => rw [hp] at hs; simp [exitSent] at hs
    | probeSomeF r' q hp hq => rfl
    | probeDone r' hp hq => rfl
    | collectNext r' k a rest hp ht hk => rw [hp] at hs; simp [exitSent] at hs
    | collectLast r' k a rest hp ht hk => rw [hp] at hs; simp [exitSent] at hs
    | recv r' src a rest hp ht => rw [hp] at hs; simp [exitSent] at hs
    | recvF r' src a rest hp ht => rfl
    | sendExit r' k hp hk =>
      rw [hp] at hs
      have : r < k := by simpa [exitSent] using hs
      exact exitSent_afterExit _ _ _ (by omega)
    | enter r' hp => rfl
    | leave r' hp ha => rfl
  · rw [(stepH_frame0 hH).2.1]; exact hs

/-- protocol operations a helper still performs once its EXIT_NOTIFICATION is on the way, counted up to
and including its return from `Barrier()` -/
def hPot : PcH → Nat
  | .evolving => 6
  | .sending => 5
  | .sendFirst => 5
  | .checking => 4
  | .recvExit => 3
  | .atBarrier => 2
  | .inBarrier => 1
  | .done => 0

theorem hPot_le (p : PcH) : hPot p ≤ 6 := by cases p <;> simp [hPot]

theorem hPot_le_one {p : PcH} (h : hPot p ≤ 1) : p = .inBarrier ∨ p = .done := by
  cases p <;> simp [hPot] at h ⊢

theorem rProto_of_ne {a : Action} {r : Nat} (h : a.rank ≠ r) : rProto r a = false := by
  simp [rProto, h]

/-- what a transition of helper `r'` does to the pc of helper `r` -/
theorem stepH_pcOf {s s' : State} {a : Action} {r' : Nat} (hlen : r' < s.pcH.length) (h : StepHC s r' a s')
    (r : Nat) (hne : r ≠ r') : pcOf s' r = pcOf s r := by
  have hne' : ¬ r' = r := fun e => hne e.symm
  cases h <;> first
    | rfl
    | (show (s.pcH.set r' _).getD r .done = pcOf s r
       rw [pcOf_set s r' r _ hlen]; simp only [hne', if_false])

/-- once `exitSent r`: every protocol operation of helper `r` lowers `hPot` by 1, nothing raises it -/
theorem hpot_step {s s' : State} {a : Action} {r : Nat} (inv : Inv s) (h0 : 0 < r) (hR : r < s.R)
    (hs : exitSent s.pc0 r = true) (h : step s a = some s') :
    hPot (pcOf s' r) + (if rProto r a then 1 else 0) ≤ hPot (pcOf s r) := by
  have hlen : r < s.pcH.length := by rw [inv.lenPc]; exact hR
  rcases step_cases h with ⟨hr, h0'⟩ | ⟨h0', hR', hH⟩
  · have e : pcOf s' r = pcOf s r := by unfold pcOf; rw [(step0_frame0 h0').1]
    rw [e, rProto_of_ne (by omega)]; simp
  · by_cases hne : a.rank = r
    · rw [hne] at hH
      have hset : ∀ p, (s.pcH.set r p).getD r .done = p := by
        intro p; rw [pcOf_set s r r p hlen]; simp
      cases hH with
      | tick r' hp => simp [rProto, isTick]
      | evolve r' k hp =>
        show hPot ((s.pcH.set r _).getD r .done) + _ ≤ _
        rw [hset, hp]; simp only [hPot]; split <;> omega
      | send r' hp =>
        show hPot ((s.pcH.set r _).getD r .done) + _ ≤ _
        rw [hset]
        rcases hp with hp | hp <;> rw [hp] <;> simp [hPot] <;> split <;> omega
      | probeYes r' hp hq =>
        show hPot ((s.pcH.set r _).getD r .done) + _ ≤ _
        rw [hset, hp]; simp only [hPot]; split <;> omega
      | probeNo r' hp hq =>
        exfalso
        have := inv.exitEq r h0 hR
        rw [hp, hs, hq] at this
        simp [postLoopH] at this
      | recv r' hp hq =>
        show hPot ((s.pcH.set r _).getD r .done) + _ ≤ _
        rw [hset, hp]; simp only [hPot]; split <;> omega
      | enter r' hp =>
        show hPot ((s.pcH.set r _).getD r .done) + _ ≤ _
        rw [hset, hp]; simp only [hPot]; split <;> omega
      | leave r' hp ha =>
        show hPot ((s.pcH.set r _).getD r .done) + _ ≤ _
        rw [hset, hp]; simp only [hPot]; split <;> omega
    · have hlen' : a.rank < s.pcH.length := by rw [inv.lenPc]; exact hR'
      rw [stepH_pcOf hlen' hH r (fun e => hne e.symm), rProto_of_ne hne]; simp

/-! ## all ranks together -/

/-- position of a helper in its loop, in protocol operations; `_send_updated_age` sets it back by 2 -/
def hPsi : PcH → Nat
  | .checking => 4
  | .recvExit => 3
  | .evolving => 3
  | .sending => 2
  | .sendFirst => 2
  | .atBarrier => 2
  | .inBarrier => 1
  | .done => 0

/-- sum of the helper positions -/
def hSum (s : State) : Nat := (s.pcH.map hPsi).sum

/-- potential of the whole call -/
def Glob (s : State) : Nat := Phi s + hSum s

theorem sum_map_set {α} (f : α → Nat) (d : α) : ∀ (l : List α) (i : Nat) (v : α), i < l.length →
    ((l.set i v).map f).sum + f (l.getD i d) = (l.map f).sum + f v
  | [], _, _, h => by simp at h
  | x :: t, 0, v, _ => by simp; omega
  | x :: t, i + 1, v, h => by
    have := sum_map_set f d t i v (by simpa using h)
    simp at this ⊢
    omega

theorem hsum_set (s : State) (r : Nat) (p : PcH) (hr : r < s.pcH.length) :
    ((s.pcH.set r p).map hPsi).sum + hPsi (pcOf s r) = hSum s + hPsi p :=
  sum_map_set hPsi .done s.pcH r p hr

theorem hsum_stepH {s s' : State} {a : Action} {r : Nat} (hlen : r < s.pcH.length) (h0 : 0 < r) (hr : a.rank = r)
    (h : StepHC s r a s') :
    hSum s' + (if nonTick a then 1 else 0) ≤ hSum s + (if helperSend a then 3 else 0) := by
  cases h with
  | tick r' h => simp [nonTick, isTick]
  | evolve r' k h =>
    have := hsum_set s r .sending hlen
    rw [h] at this
    simp only [hSum, hPsi, nonTick, isTick, helperSend, Bool.not_false, if_true, Bool.false_eq_true, if_false] at this ⊢
    omega
  | send r' h =>
    have hr' : r' ≠ 0 := by have : r' = r := hr; omega
    have := hsum_set s r .checking hlen
    have hp : hPsi (pcOf s r) = 2 := by rcases h with h | h <;> rw [h] <;> rfl
    rw [hp] at this
    simp only [hSum, hPsi, nonTick, isTick, helperSend, Bool.not_false, if_true, bne_iff_ne, ne_eq, hr',
      not_false_eq_true] at this ⊢
    omega
  | probeYes r' h hq =>
    have := hsum_set s r .recvExit hlen
    rw [h] at this
    simp only [hSum, hPsi, nonTick, isTick, helperSend, Bool.not_false, if_true, Bool.false_eq_true, if_false] at this ⊢
    omega
  | probeNo r' h hq =>
    have := hsum_set s r .evolving hlen
    rw [h] at this
    simp only [hSum, hPsi, nonTick, isTick, helperSend, Bool.not_false, if_true, Bool.false_eq_true, if_false] at this ⊢
    omega
  | recv r' h hq =>
    have := hsum_set s r .atBarrier hlen
    rw [h] at this
    simp only [hSum, hPsi, nonTick, isTick, helperSend, Bool.not_false, if_true, Bool.false_eq_true, if_false] at this ⊢
    omega
  | enter r' h =>
    have := hsum_set s r .inBarrier hlen
    rw [h] at this
    simp only [hSum, hPsi, nonTick, isTick, helperSend, Bool.not_false, if_true, Bool.false_eq_true, if_false] at this ⊢
    omega
  | leave r' h ha =>
    have := hsum_set s r .done hlen
    rw [h] at this
    simp only [hSum, hPsi, nonTick, isTick, helperSend, Bool.not_false, if_true, Bool.false_eq_true, if_false] at this ⊢
    omega

/-- every protocol operation of any rank lowers `Glob` by at least 1, except a helper's
`_send_updated_age`, which raises it by at most 4 -/
theorem glob_step {s s' : State} {a : Action} (inv : Inv s) (mono : Mono s) (hk : slicePos a = true)
    (h : step s a = some s') :
    Glob s' + (if nonTick a then 1 else 0) ≤ Glob s + (if helperSend a then 5 else 0) := by
  rcases step_cases h with ⟨hr, h0⟩ | ⟨h0, hR, hH⟩
  · have h1 := phi_step0 inv mono hk hr h0
    have e : hSum s' = hSum s := by unfold hSum; rw [(step0_frame0 h0).1]
    simp only [Glob, e, nonTick, (rank0_flags hr).2]
    by_cases ht : isTick a = true
    · simp only [ht, if_true, Bool.not_true, Bool.false_eq_true, if_false] at h1 ⊢; omega
    · have ht' : isTick a = false := by simpa using ht
      simp only [ht', Bool.false_eq_true, if_false, Bool.not_false, if_true] at h1 ⊢; omega
  · have h1 := phi_stepH h0 rfl hH
    have h2 := hsum_stepH (by rw [inv.lenPc]; exact hR) h0 rfl hH
    simp only [Glob, h1]
    cases hs : helperSend a <;> simp [hs] at h2 ⊢ <;> omega

/-! ## from one transition to runs -/

/-- a potential inequality that holds for every transition sums up along every run -/
theorem run_count_bound (P : State → Prop) (good : Action → Bool) (pot : State → Nat) (c g : Action → Bool) (w : Nat)
    (hP : ∀ {s a s'}, P s → step s a = some s' → P s')
    (hstep : ∀ {s a s'}, P s → good a = true → step s a = some s' →
      pot s' + (if c a then 1 else 0) ≤ pot s + (if g a then w else 0)) :
    ∀ (as : List Action) (s t : State), P s → (∀ a, a ∈ as → good a = true) → run s as = some t →
      pot t + as.countP c ≤ pot s + w * as.countP g := by
  intro as
  induction as with
  | nil => intro s t _ _ h; simp [run] at h; subst h; simp
  | cons a as ih =>
    intro s t hs hg h
    obtain ⟨s', hst, hrun⟩ := run_cons_inv h
    have h1 := hstep hs (hg a (by simp)) hst
    have h2 := ih s' t (hP hs hst) (fun b hb => hg b (by simp [hb])) hrun
    rw [List.countP_cons, List.countP_cons]
    cases hc : c a <;> cases hgg : g a <;> simp [hc, hgg] at h1 ⊢ <;> (try rw [Nat.mul_add]) <;> omega

end C12
end Bingo
