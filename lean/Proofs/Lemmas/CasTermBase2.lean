import Proofs.Lemmas.CasTermBase
/-!
# Levels of the pieces the simplifier takes apart: `mergeOperands`, `base`/`exponent`,
`termOf`/`coefficient`
-/
namespace Bingo
namespace Cas
namespace Term
open Gen.OpDefs Expr

variable {T : Int → Bool}

theorem plL_mergeOperands (a : Expr) : plL (mergeOperands MULTIPLICATION a) ≤ pl a := by
  unfold mergeOperands
  split
  · rename_i h
    cases a with
    | term o v n => simp [args]
    | node o as =>
      have : o = MULTIPLICATION := by simpa [op] using h
      subst this
      rw [pl_mul]; exact Nat.le_refl _
  · simp

theorem slL_mergeOperands (a : Expr) : slL (mergeOperands ADDITION a) ≤ sl a := by
  unfold mergeOperands
  split
  · rename_i h
    cases a with
    | term o v n => simp [args]
    | node o as =>
      have : o = ADDITION := by simpa [op] using h
      subst this
      rw [sl_add]; exact Nat.le_refl _
  · simp

theorem NEL_mergeOperands {a : Expr} (o : Int) (h : NE T a = true) : NEL T (mergeOperands o a) = true := by
  unfold mergeOperands
  split
  · exact NE_args h
  · simp [NEL, h]

theorem plL_args_of_mul {a : Expr} (h : (a.op == MULTIPLICATION) = true) : plL a.args ≤ pl a := by
  have := plL_mergeOperands a
  unfold mergeOperands at this
  rwa [if_pos h] at this

theorem slL_args_of_add {a : Expr} (h : (a.op == ADDITION) = true) : slL a.args ≤ sl a := by
  have := slL_mergeOperands a
  unfold mergeOperands at this
  rwa [if_pos h] at this

theorem lv_isIntOrConst {c : Expr} (h : c.isIntOrConst = true) : sl c ≤ 2 ∧ pl c ≤ 1 := by
  have hs : sl c ≤ 2 := by
    cases c with
    | term o v n => rw [sl_term]; split <;> omega
    | node o as =>
      simp only [isIntOrConst, op, Bool.or_eq_true, beq_iff_eq] at h
      rw [sl_other as] <;> rcases h with rfl | rfl <;> decide
  exact ⟨hs, pl_le_one_of_sl hs⟩

theorem NE_getElem? {as : List Expr} {i : Nat} {x : Expr} (h : NEL T as = true) (hx : as[i]? = some x) :
    NE T x = true := NEL_iff.1 h x (List.mem_of_getElem? hx)

/-- a factor `a` is treated as `base ^ exponent`; its product level covers both parts -/
theorem base_exponent_lv {a β e : Expr} (hm : (a.op != MULTIPLICATION) = true)
    (hb : a.base = some β) (he : a.exponent = some e) :
    1 + sl e + cl β ≤ pl a ∧ (NE T a = true → NE T β = true ∧ NE T e = true) := by
  cases a with
  | term o v n =>
    simp only [base, exponent] at hb he
    split at hb
    · cases hb
    · rename_i ho
      rw [if_neg ho] at he
      cases hb; cases he
      rw [pl_term, if_neg ho, sl_ONE, cl_term]
      exact ⟨by omega, fun h => ⟨h, rfl⟩⟩
  | node o as =>
    simp only [base, exponent] at hb he
    split at hb
    · rename_i ho
      rw [if_pos ho] at he
      subst ho
      match as, hb, he with
      | b :: x :: tl, hb, he =>
        simp at hb he
        subst hb; subst he
        rw [pl_pow2]
        refine ⟨Nat.le_refl _, fun h => ?_⟩
        have := NE_args h
        simp only [args, NEL, Bool.and_eq_true] at this
        exact ⟨this.1, this.2.1⟩
    · rename_i ho
      rw [if_neg ho] at he
      cases hb; cases he
      refine ⟨?_, fun h => ⟨h, rfl⟩⟩
      rw [sl_ONE]
      rcases node_cases o as with rfl | rfl | ⟨rfl, _⟩ | ⟨rfl, _⟩ | ⟨h1, h2, h3⟩
      · rw [pl_add, cl_add]
      · simp [op] at hm
      · exact absurd rfl ho
      · exact absurd rfl ho
      · rw [pl_other as h1 h2 h3, cl_other as h1 h2 h3]

/-- a summand `a` is treated as `coefficient * term`; its sum level is above the product level of the
factors of the term; the coefficient is an integer / constant -/
theorem termOf_coefficient_lv {a t c : Expr} (ha : (a.op != ADDITION) = true)
    (ht : a.termOf = some t) (hc : a.coefficient = some c) :
    ∃ rest, t = node MULTIPLICATION rest ∧ 1 + max 1 (plL rest) ≤ sl a ∧ sl c ≤ 2 ∧
      (NE T a = true → NEL T rest = true ∧ NE T c = true) := by
  cases a with
  | term o v n =>
    simp only [termOf, coefficient] at ht hc
    split at ht
    · cases ht
    · rename_i ho
      rw [if_neg ho] at hc
      cases ht; cases hc
      refine ⟨_, rfl, ?_, by rw [sl_ONE]; omega, fun h => ⟨by simp [NEL, h], rfl⟩⟩
      rw [sl_term, if_neg ho]
      simp [pl_term, ho]
  | node o as =>
    simp only [termOf, coefficient] at ht hc
    split at ht
    · rename_i ho
      rw [if_pos ho] at hc
      subst ho
      match as, ht, hc with
      | k :: rest, ht, hc =>
        simp only at ht hc
        split at ht
        · rename_i hk
          rw [if_pos hk] at hc
          cases ht; cases hc
          refine ⟨_, rfl, ?_, (lv_isIntOrConst hk).1, fun h => ?_⟩
          · rw [sl_mul]; simp only [plL_cons]; omega
          · have := NE_args h
            simp only [args, NEL, Bool.and_eq_true] at this
            exact ⟨this.2, this.1⟩
        · rename_i hk
          rw [if_neg hk] at hc
          cases ht; cases hc
          refine ⟨_, rfl, ?_, by rw [sl_ONE]; omega, fun h => ⟨NE_args h, rfl⟩⟩
          rw [sl_mul]
    · rename_i ho
      rw [if_neg ho] at hc
      cases ht; cases hc
      refine ⟨_, rfl, ?_, by rw [sl_ONE]; omega, fun h => ⟨by simp [NEL, h], rfl⟩⟩
      simp only [plL_cons, plL_nil]
      rcases node_cases o as with rfl | rfl | ⟨rfl, b, x, tl, rfl⟩ | ⟨rfl, h'⟩ | ⟨h1, h2, h3⟩
      · simp [op] at ha
      · exact absurd rfl ho
      · rw [sl_pow2, pl_pow2]; omega
      · rw [sl_pow_short h', pl_pow_short h']; omega
      · rw [sl_other as h1 h2 h3, pl_other as h1 h2 h3]; omega

end Term
end Cas
end Bingo
