import Proofs.Lemmas.CasTermFoldC
/-!
# The lists `constants_to_insert` / `expressions_to_replace` built by the zip loop
-/
namespace Bingo
namespace Cas
namespace Term
open Gen.OpDefs Expr Auto

theorem genChildren_lists (c : Expr) (parent : Option Expr) : ∀ (children : List Expr) (first : Bool)
    (s : GenState),
    (∀ i, i ∈ (genChildren c parent children first s).2.1 ↔
      i ∈ s.2.1 ∨ ∃ cv ∈ vals c first children, i = cv.2) ∧
    (∀ r, r ∈ (genChildren c parent children first s).2.2 ↔ r ∈ s.2.2 ∨ r ∈ children) := by
  intro children
  induction children with
  | nil =>
    intro first s
    rw [genChildren]
    exact ⟨fun i => by simp [vals], fun r => by simp⟩
  | cons ch rest ih =>
    intro first s
    obtain ⟨repl, ins, reps⟩ := s
    rw [genChildren]
    obtain ⟨h1, h2⟩ := ih false (setReplacement repl parent ch (if first then some c else none),
      (if first then some c else none) :: ins, ch :: reps)
    refine ⟨fun i => ?_, fun r => ?_⟩
    · rw [h1 i]
      simp only [List.mem_cons, vals]
      constructor
      · rintro ((h | h) | ⟨cv, hcv, h⟩)
        · exact Or.inr ⟨_, Or.inl rfl, h⟩
        · exact Or.inl h
        · exact Or.inr ⟨cv, Or.inr hcv, h⟩
      · rintro (h | ⟨cv, hcv | hcv, h⟩)
        · exact Or.inl (Or.inr h)
        · subst hcv; exact Or.inl (Or.inl h)
        · exact Or.inr ⟨cv, hcv, h⟩
    · rw [h2 r]
      simp only [List.mem_cons]
      constructor
      · rintro ((h | h) | h)
        · exact Or.inr (Or.inl h)
        · exact Or.inl h
        · exact Or.inr (Or.inr h)
      · rintro (h | h | h)
        · exact Or.inl (Or.inr h)
        · exact Or.inl (Or.inl h)
        · exact Or.inr h

theorem genInsertions_lists (c : Expr) : ∀ (insertions : List Insertion) (s : GenState),
    (∀ i, i ∈ (genInsertions c insertions s).2.1 ↔
      i ∈ s.2.1 ∨ ∃ ins ∈ insertions, ∃ cv ∈ vals c true ins.2, i = cv.2) ∧
    (∀ r, r ∈ (genInsertions c insertions s).2.2 ↔
      r ∈ s.2.2 ∨ ∃ ins ∈ insertions, r ∈ ins.2) := by
  intro insertions
  induction insertions with
  | nil =>
    intro s
    rw [genInsertions]
    exact ⟨fun i => by simp, fun r => by simp⟩
  | cons ins rest ih =>
    intro s
    obtain ⟨parent, children⟩ := ins
    rw [genInsertions]
    obtain ⟨h1, h2⟩ := ih (genChildren c parent children true s)
    obtain ⟨g1, g2⟩ := genChildren_lists c parent children true s
    refine ⟨fun i => ?_, fun r => ?_⟩
    · rw [h1 i, g1 i]
      simp only [List.mem_cons]
      constructor
      · rintro ((h | ⟨cv, hcv, h⟩) | ⟨ins, hins, cv, hcv, h⟩)
        · exact Or.inl h
        · exact Or.inr ⟨_, Or.inl rfl, cv, hcv, h⟩
        · exact Or.inr ⟨ins, Or.inr hins, cv, hcv, h⟩
      · rintro (h | ⟨ins, hins | hins, cv, hcv, h⟩)
        · exact Or.inl (Or.inl h)
        · subst hins; exact Or.inl (Or.inr ⟨cv, hcv, h⟩)
        · exact Or.inr ⟨ins, hins, cv, hcv, h⟩
    · rw [h2 r, g2 r]
      simp only [List.mem_cons]
      constructor
      · rintro ((h | h) | ⟨ins, hins, h⟩)
        · exact Or.inl h
        · exact Or.inr ⟨_, Or.inl rfl, h⟩
        · exact Or.inr ⟨ins, Or.inr hins, h⟩
      · rintro (h | ⟨ins, hins | hins, h⟩)
        · exact Or.inl (Or.inl h)
        · subst hins; exact Or.inl (Or.inr h)
        · exact Or.inr ⟨ins, hins, h⟩

theorem genZip_lists {constants : List (Int × Expr)} : ∀ (cs : List Int) (ips : InsertionPoints)
    (s res : GenState), genZip constants cs ips s = .ok res →
    (∀ jk ∈ cs.zip ips, ∃ c, constants.lookup jk.1 = some c) ∧
    (∀ i, i ∈ res.2.1 ↔ i ∈ s.2.1 ∨ ∃ jk ∈ cs.zip ips, ∃ c, constants.lookup jk.1 = some c ∧
      ∃ ins ∈ jk.2.2, ∃ cv ∈ vals c true ins.2, i = cv.2) ∧
    (∀ r, r ∈ res.2.2 ↔ r ∈ s.2.2 ∨ ∃ jk ∈ cs.zip ips, ∃ ins ∈ jk.2.2, r ∈ ins.2) := by
  intro cs
  induction cs with
  | nil =>
    intro ips s res h
    rw [genZip] at h
    · cases h
      exact ⟨fun jk h => by simp at h, fun i => by simp, fun r => by simp⟩
    · intro _ _ _ _ _ h1; cases h1
  | cons j cs ih =>
    intro ips s res h
    cases ips with
    | nil =>
      rw [genZip] at h
      · cases h
        exact ⟨fun jk h => by simp at h, fun i => by simp, fun r => by simp⟩
      · intro _ _ _ _ _ _ h2; cases h2
    | cons ks ips =>
      obtain ⟨key, insertions⟩ := ks
      rw [genZip] at h
      split at h
      · rename_i c hl
        obtain ⟨h0, h1, h2⟩ := ih ips _ res h
        obtain ⟨g1, g2⟩ := genInsertions_lists c insertions s
        refine ⟨fun jk hjk => ?_, fun i => ?_, fun r => ?_⟩
        · rw [List.zip_cons_cons] at hjk
          rcases List.mem_cons.1 hjk with rfl | hjk
          · exact ⟨c, hl⟩
          · exact h0 jk hjk
        · rw [h1 i, g1 i]
          simp only [List.zip_cons_cons, List.mem_cons]
          constructor
          · rintro ((h | ⟨ins, hins, cv, hcv, h⟩) | ⟨jk, hjk, c', hc', ins, hins, cv, hcv, h⟩)
            · exact Or.inl h
            · exact Or.inr ⟨(j, key, insertions), Or.inl rfl, c, hl, ins, hins, cv, hcv, h⟩
            · exact Or.inr ⟨jk, Or.inr hjk, c', hc', ins, hins, cv, hcv, h⟩
          · rintro (h | ⟨jk, hjk | hjk, c', hc', ins, hins, cv, hcv, h⟩)
            · exact Or.inl (Or.inl h)
            · subst hjk
              dsimp only at hc' hins
              rw [hl] at hc'; cases hc'
              exact Or.inl (Or.inr ⟨ins, hins, cv, hcv, h⟩)
            · exact Or.inr ⟨jk, hjk, c', hc', ins, hins, cv, hcv, h⟩
        · rw [h2 r, g2 r]
          simp only [List.zip_cons_cons, List.mem_cons]
          constructor
          · rintro ((h | ⟨ins, hins, h⟩) | ⟨jk, hjk, ins, hins, h⟩)
            · exact Or.inl h
            · exact Or.inr ⟨(j, key, insertions), Or.inl rfl, ins, hins, h⟩
            · exact Or.inr ⟨jk, Or.inr hjk, ins, hins, h⟩
          · rintro (h | ⟨jk, hjk | hjk, ins, hins, h⟩)
            · exact Or.inl (Or.inl h)
            · subst hjk; exact Or.inl (Or.inr ⟨ins, hins, h⟩)
            · exact Or.inr ⟨jk, hjk, ins, hins, h⟩
      · cases h

/-- a non-empty result of `_generate_replacement_instructions`: at most as many insertion points as
ids, the zip loop ran, and the two sets differ -/
theorem generateReplacements_nonempty' {S : List Int} {constants : List (Int × Expr)}
    {ips : InsertionPoints} {repl : Replacements}
    (h : generateReplacements S constants ips = .ok repl) (hne : repl.isEmpty = false) :
    ips.length ≤ S.length ∧ ∃ ins reps, genZip constants S ips ([], [], []) = .ok (repl, ins, reps) ∧
      sameSets ins reps = false := by
  unfold generateReplacements at h
  split at h
  · cases h; cases hne
  · rename_i hlen
    cases hz : genZip constants S ips ([], [], []) with
    | error s => rw [hz] at h; cases h
    | ok r =>
      rw [hz] at h
      obtain ⟨repl', ins, reps⟩ := r
      change (if sameSets ins reps = true then pure [] else pure repl') = Except.ok repl at h
      split at h
      · cases h; cases hne
      · rename_i hs
        cases h
        exact ⟨by omega, ins, reps, rfl, by simpa using hs⟩

end Term
end Cas
end Bingo
