import Model.ParArch
/-!
# C12 -- the transitions of the ParallelArchipelago message protocol, one constructor per transition

An inversion of `ParArch.step` (`Model/ParArch.lean`): `Step0 s a s'` lists the transitions of rank 0
(`_non_blocking_execution_main`: the collecting loop, the main loop with `_gather_updated_ages`,
`_send_exit_notifications`, the barrier, the final `_gather_updated_ages`), `StepHC s r a s'` those of
helper `r` (`_non_blocking_execution_helper`); `step_cases` says that every model transition is one of
them.  The invariant proofs go by cases on these relations.
-/
set_option linter.unusedSimpArgs false
set_option linter.unusedVariables false
namespace Bingo
namespace C12
open ParArch

/-! ## inversion of `step0` / `stepH`: one constructor per protocol transition -/

/-- the transitions of rank 0 -/
inductive Step0 (s : State) : Action → State → Prop
  | tick (r : Nat) (h : s.pc0 = .evolving) : Step0 s (.tick r) s
  | evolve (r k : Nat) (h : s.pc0 = .evolving) :
      Step0 s (.evolve r k)
        { s with ages := s.ages.set 0 (age s 0 + k), table := s.table.set 0 (some (age s 0 + k)), pc0 := .draining none }
  | probeSome (r q : Nat) (h : s.pc0 = .draining none) (hq : headSource s = some q) :
      Step0 s (.iprobe r none tagAge (some q)) { s with pc0 := .draining (some q) }
  | probeLoop (r : Nat) (h : s.pc0 = .draining none) (hq : headSource s = none) (hb : belowTarget s = true) :
      Step0 s (.iprobe r none tagAge none) { s with pc0 := .evolving }
  | probeExit (r : Nat) (h : s.pc0 = .draining none) (hq : headSource s = none) (hb : belowTarget s = false) :
      Step0 s (.iprobe r none tagAge none) { s with pc0 := afterExit s.R 1 }
  | probeSomeF (r q : Nat) (h : s.pc0 = .finalDrain none) (hq : headSource s = some q) :
      Step0 s (.iprobe r none tagAge (some q)) { s with pc0 := .finalDrain (some q) }
  | probeDone (r : Nat) (h : s.pc0 = .finalDrain none) (hq : headSource s = none) :
      Step0 s (.iprobe r none tagAge none) { s with pc0 := .done }
  | collectNext (r k a : Nat) (rest : List (Nat × Nat)) (h : s.pc0 = .collecting k)
      (ht : takeFrom k s.mbox = some (a, rest)) (hk : k + 1 < s.R) :
      Step0 s (.recv r k tagAge) { s with mbox := rest, table := s.table.set k (some a), pc0 := .collecting (k + 1) }
  | collectLast (r k a : Nat) (rest : List (Nat × Nat)) (h : s.pc0 = .collecting k)
      (ht : takeFrom k s.mbox = some (a, rest)) (hk : ¬ k + 1 < s.R) :
      Step0 s (.recv r k tagAge) (finishCollect { s with mbox := rest, table := s.table.set k (some a) })
  | recv (r src a : Nat) (rest : List (Nat × Nat)) (h : s.pc0 = .draining (some src))
      (ht : takeFrom src s.mbox = some (a, rest)) :
      Step0 s (.recv r src tagAge) { s with mbox := rest, table := s.table.set src (some a), pc0 := .draining none }
  | recvF (r src a : Nat) (rest : List (Nat × Nat)) (h : s.pc0 = .finalDrain (some src))
      (ht : takeFrom src s.mbox = some (a, rest)) :
      Step0 s (.recv r src tagAge) { s with mbox := rest, table := s.table.set src (some a), pc0 := .finalDrain none }
  | sendExit (r k : Nat) (h : s.pc0 = .sendingExit k) (hk : k < s.R) :
      Step0 s (.isend r k tagExit)
        { s with exitQ := s.exitQ.set k (s.exitQ.getD k 0 + 1), pc0 := afterExit s.R (k + 1) }
  | enter (r : Nat) (h : s.pc0 = .atBarrier) :
      Step0 s (.barrierEnter r) { s with arrived := s.arrived.set 0 true, pc0 := .inBarrier }
  | leave (r : Nat) (h : s.pc0 = .inBarrier) (ha : allArrived s = true) :
      Step0 s (.barrierLeave r) { s with table := s.table.set 0 (some (age s 0)), pc0 := .finalDrain none }

theorem step0_cases {s s' : State} {a : Action} (h : step0 s a = some s') : Step0 s a s' := by
  cases a with
  | tick r =>
    simp only [step0] at h
    split at h
    · rename_i hpc; injection h with h; subst h; exact .tick r (by simpa using hpc)
    · cases h
  | evolve r k =>
    simp only [step0] at h
    split at h
    · rename_i hpc; injection h with h; subst h; exact .evolve r k (by simpa using hpc)
    · cases h
  | iprobe r src tag found =>
    simp only [step0] at h
    split at h
    · cases h
    · rename_i hc
      simp only [bne_iff_ne, ne_eq, Bool.or_eq_true, decide_eq_true_eq, not_or, Decidable.not_not] at hc
      obtain ⟨⟨hsrc, htag⟩, hfound⟩ := hc
      subst hsrc htag
      split at h
      · rename_i q hpc; injection h with h; subst h; exact .probeSome r q hpc hfound.symm
      · rename_i hpc
        injection h with h; subst h
        by_cases hb : belowTarget s = true
        · simp only [hb, if_true]; exact .probeLoop r hpc hfound.symm hb
        · have hb' : belowTarget s = false := by simpa using hb
          simp only [hb', Bool.false_eq_true, if_false]; exact .probeExit r hpc hfound.symm hb'
      · rename_i q hpc; injection h with h; subst h; exact .probeSomeF r q hpc hfound.symm
      · rename_i hpc; injection h with h; subst h; exact .probeDone r hpc hfound.symm
      · cases h
  | recv r src tag =>
    simp only [step0] at h
    split at h
    · cases h
    · rename_i htag
      have htag : tag = tagAge := by simpa using htag
      subst htag
      split at h
      · rename_i q hpc
        split at h
        · cases h
        · rename_i hq
          have hq : q = src := by simpa using hq
          subst hq
          split at h
          · cases h
          · rename_i a rest htake
            injection h with h; subst h
            by_cases hk : q + 1 < s.R
            · simp only [hk, if_true]; exact .collectNext r q a rest hpc htake hk
            · simp only [hk, if_false]; exact .collectLast r q a rest hpc htake hk
      · rename_i q hpc
        split at h
        · cases h
        · rename_i hq
          have hq : q = src := by simpa using hq
          subst hq
          split at h
          · cases h
          · rename_i a rest htake
            injection h with h; subst h
            exact .recv r q a rest hpc htake
      · rename_i q hpc
        split at h
        · cases h
        · rename_i hq
          have hq : q = src := by simpa using hq
          subst hq
          split at h
          · cases h
          · rename_i a rest htake
            injection h with h; subst h
            exact .recvF r q a rest hpc htake
      · cases h
  | isend r dest tag =>
    simp only [step0] at h
    split at h
    · rename_i k hpc
      split at h
      · cases h
      · rename_i hc
        simp only [bne_iff_ne, ne_eq, Bool.or_eq_true, decide_eq_true_eq, not_or, Decidable.not_not,
          Bool.not_eq_true', decide_eq_false_iff_not] at hc
        obtain ⟨⟨hd, ht⟩, hk⟩ := hc
        subst hd ht
        injection h with h; subst h
        exact .sendExit r dest hpc hk
    · cases h
  | barrierEnter r =>
    simp only [step0] at h
    split at h
    · rename_i hpc; injection h with h; subst h; exact .enter r (by simpa using hpc)
    · cases h
  | barrierLeave r =>
    simp only [step0] at h
    split at h
    · rename_i hpc
      injection h with h; subst h
      simp at hpc
      exact .leave r hpc.1 hpc.2
    · cases h

/-- the transitions of helper `r` -/
inductive StepHC (s : State) (r : Nat) : Action → State → Prop
  | tick (r' : Nat) (h : pcOf s r = .evolving) : StepHC s r (.tick r') s
  | evolve (r' k : Nat) (h : pcOf s r = .evolving) :
      StepHC s r (.evolve r' k) { s with ages := s.ages.set r (age s r + k), pcH := s.pcH.set r .sending }
  | send (r' : Nat) (h : pcOf s r = .sendFirst ∨ pcOf s r = .sending) :
      StepHC s r (.isend r' 0 tagAge) { s with mbox := s.mbox ++ [(r, age s r)], pcH := s.pcH.set r .checking }
  | probeYes (r' : Nat) (h : pcOf s r = .checking) (hq : 0 < s.exitQ.getD r 0) :
      StepHC s r (.iprobe r' (some 0) tagExit (some 0)) { s with pcH := s.pcH.set r .recvExit }
  | probeNo (r' : Nat) (h : pcOf s r = .checking) (hq : s.exitQ.getD r 0 = 0) :
      StepHC s r (.iprobe r' (some 0) tagExit none) { s with pcH := s.pcH.set r .evolving }
  | recv (r' : Nat) (h : pcOf s r = .recvExit) (hq : s.exitQ.getD r 0 ≠ 0) :
      StepHC s r (.recv r' 0 tagExit)
        { s with exitQ := s.exitQ.set r (s.exitQ.getD r 0 - 1), pcH := s.pcH.set r .atBarrier }
  | enter (r' : Nat) (h : pcOf s r = .atBarrier) :
      StepHC s r (.barrierEnter r') { s with arrived := s.arrived.set r true, pcH := s.pcH.set r .inBarrier }
  | leave (r' : Nat) (h : pcOf s r = .inBarrier) (ha : allArrived s = true) :
      StepHC s r (.barrierLeave r') { s with pcH := s.pcH.set r .done }

theorem stepH_cases {s s' : State} {a : Action} {r : Nat} (h : stepH s r a = some s') : StepHC s r a s' := by
  cases a with
  | tick r' =>
    simp only [stepH] at h
    split at h
    · rename_i hpc; injection h with h; subst h; exact .tick r' (by simpa using hpc)
    · cases h
  | evolve r' k =>
    simp only [stepH] at h
    split at h
    · rename_i hpc; injection h with h; subst h; exact .evolve r' k (by simpa using hpc)
    · cases h
  | isend r' dest tag =>
    simp only [stepH] at h
    split at h
    · cases h
    · rename_i hc
      simp only [bne_iff_ne, ne_eq, Bool.or_eq_true, decide_eq_true_eq, not_or, Decidable.not_not] at hc
      obtain ⟨hd, ht⟩ := hc
      subst hd ht
      split at h
      · rename_i hpc
        injection h with h; subst h
        exact .send r' (by simpa using hpc)
      · cases h
  | iprobe r' src tag found =>
    simp only [stepH] at h
    split at h
    · cases h
    · rename_i hc
      simp only [bne_iff_ne, ne_eq, Bool.or_eq_true, decide_eq_true_eq, not_or, Decidable.not_not] at hc
      obtain ⟨⟨hsrc, htag⟩, hpc⟩ := hc
      subst hsrc htag
      by_cases hq : s.exitQ.getD r 0 > 0
      · simp only [hq, decide_true, if_true] at h
        split at h
        · cases h
        · rename_i hf
          have hf : found = some 0 := by simpa using hf
          subst hf
          injection h with h; subst h
          exact .probeYes r' hpc hq
      · simp only [hq, decide_false, Bool.false_eq_true, if_false] at h
        split at h
        · cases h
        · rename_i hf
          have hf : found = none := by simpa using hf
          subst hf
          injection h with h; subst h
          exact .probeNo r' hpc (by omega)
  | recv r' src tag =>
    simp only [stepH] at h
    split at h
    · cases h
    · rename_i hc
      simp only [bne_iff_ne, ne_eq, Bool.or_eq_true, decide_eq_true_eq, not_or, Decidable.not_not] at hc
      obtain ⟨⟨hsrc, htag⟩, hpc⟩ := hc
      subst hsrc htag
      split at h
      · cases h
      · rename_i hq
        injection h with h; subst h
        exact .recv r' hpc hq
  | barrierEnter r' =>
    simp only [stepH] at h
    split at h
    · rename_i hpc; injection h with h; subst h; exact .enter r' (by simpa using hpc)
    · cases h
  | barrierLeave r' =>
    simp only [stepH] at h
    split at h
    · rename_i hpc
      injection h with h; subst h
      simp at hpc
      exact .leave r' hpc.1 hpc.2
    · cases h

/-- every transition of the model is a transition of rank 0 or of a helper `0 < r < R` -/
theorem step_cases {s s' : State} {a : Action} (h : step s a = some s') :
    (a.rank = 0 ∧ Step0 s a s') ∨ (0 < a.rank ∧ a.rank < s.R ∧ StepHC s a.rank a s') := by
  unfold step at h
  simp only at h
  split at h
  · rename_i h0; exact Or.inl ⟨h0, step0_cases h⟩
  · split at h
    · rename_i h0 hR
      exact Or.inr ⟨by omega, hR, stepH_cases h⟩
    · cases h

end C12
end Bingo
