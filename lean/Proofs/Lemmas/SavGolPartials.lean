import Proofs.Lemmas.SavGol
/-!
# `_calculate_partials`: segmentation at NaN rows, retained rows, independence of segments
-/
namespace Bingo
namespace SavGol

/-- what `_calculate_partials` returns: `(inds_all, x_all, time_deriv_all)` -/
abbrev Out := List Nat × List (List Rat) × List (List Rat)

/-- the consecutive `[start, stop)` pairs visited by the loop `for end in break_points` -/
def bounds : Nat → List Nat → List (Nat × Nat)
  | _, [] => []
  | start, stop :: rest => (start, stop) :: bounds (stop + 1) rest

/-- the trajectories of `x`: the `[start, stop)` ranges between NaN rows -/
def segBounds (x : List (Option (List Rat))) : List (Nat × Nat) := bounds 0 (breakPoints x)

/-- number of columns (`x.shape[1]`) -/
def width (x : List (Option (List Rat))) : Nat := ((x.filterMap id).head?.map (·.length)).getD 0

/-- row `k` of `x` (`[]` for a NaN row / out of range) -/
def rowAt (x : List (Option (List Rat))) (k : Nat) : List Rat := (x[k]?).join.getD []

/-- row `i` contains a NaN -/
def isNaNRow (x : List (Option (List Rat))) (i : Nat) : Bool := (x[i]?).join.isNone

/-- `vstack` / `hstack` of the per-segment results onto an accumulator -/
def concat3 (acc : Out) (l : List Out) : Out :=
  (acc.1 ++ l.flatMap (·.1), acc.2.1 ++ l.flatMap (·.2.1), acc.2.2 ++ l.flatMap (·.2.2))

theorem go_eq (m n : Nat) (s : Int) (dh dt : Nat) (x : List (Option (List Rat))) :
    ∀ (bps : List Nat) (start : Nat) (acc : Out),
      calculatePartials.go m n s dh dt x start bps acc
        = ((bounds start bps).mapM fun p => segment m n s dh dt x p.1 p.2).map (concat3 acc)
  | [], start, acc => by simp [calculatePartials.go, bounds, concat3]
  | stop :: rest, start, acc => by
    rw [calculatePartials.go]
    simp only [bounds, List.mapM_cons]
    cases hseg : segment m n s dh dt x start stop with
    | none => simp
    | some r =>
      obtain ⟨inds, xs, ds⟩ := r
      simp only [Option.bind_eq_bind, Option.bind_some]
      rw [go_eq m n s dh dt x rest (stop + 1)]
      cases (bounds (stop + 1) rest).mapM fun p => segment m n s dh dt x p.1 p.2 with
      | none => simp
      | some l => simp [concat3, List.append_assoc]

/-- `_calculate_partials` is the concatenation of the per-trajectory results -/
theorem calculatePartials_eq_segments (m n : Nat) (s : Int) (dh dt : Nat)
    (x : List (Option (List Rat))) :
    calculatePartials m n s dh dt x
      = ((segBounds x).mapM fun p => segment m n s dh dt x p.1 p.2).map (concat3 ([], [], [])) := by
  unfold calculatePartials segBounds
  exact go_eq m n s dh dt x _ 0 _

/-! ## the break points delimit exactly the maximal NaN-free runs -/

theorem bounds_filter (P : Nat → Bool) (n : Nat) :
    ∀ d a, a + d = n → ∀ p ∈ bounds a ((List.range' a d).filter P ++ [n]),
      p.1 ≤ p.2 ∧ p.2 ≤ n ∧ (∀ i, p.1 ≤ i → i < p.2 → P i = false) ∧ (p.2 < n → P p.2 = true)
  | 0, a, h => by
    intro p hp
    simp [bounds] at hp
    subst hp
    have h' : a = n := by omega
    subst h'
    refine ⟨le_refl _, le_refl _, ?_, ?_⟩
    · intro i h1 h2; simp at h1 h2; omega
    · intro h1; simp at h1
  | d + 1, a, h => by
    intro p hp
    rw [List.range'_succ] at hp
    have ih := bounds_filter P n d (a + 1) (by omega)
    by_cases hP : P a = true
    · rw [List.filter_cons_of_pos hP] at hp
      simp only [List.cons_append, bounds, List.mem_cons] at hp
      rcases hp with rfl | hp
      · refine ⟨le_refl _, by omega, ?_, fun _ => hP⟩
        intro i h1 h2; simp at h1 h2; omega
      · exact ih p hp
    · rw [List.filter_cons_of_neg hP] at hp
      cases hl : (List.range' (a + 1) d).filter P ++ [n] with
      | nil => simp at hl
      | cons e r =>
        rw [hl] at hp ih
        simp only [bounds, List.mem_cons] at hp ih
        rcases hp with rfl | hp
        · obtain ⟨h1, h2, h3, h4⟩ := ih (a + 1, e) (Or.inl rfl)
          refine ⟨by simp at h1 ⊢; omega, h2, ?_, h4⟩
          intro i hi1 hi2
          by_cases hia : i = a
          · subst hia; simpa using hP
          · exact h3 i (by simp at hi1 ⊢; omega) hi2
        · exact ih p (Or.inr hp)

theorem bounds_fst : ∀ (l : List Nat) (start : Nat), ∀ p ∈ bounds start l,
    p.1 = start ∨ (0 < p.1 ∧ p.1 - 1 ∈ l)
  | [], _, p, hp => by simp [bounds] at hp
  | e :: r, start, p, hp => by
    simp only [bounds, List.mem_cons] at hp
    rcases hp with rfl | hp
    · exact Or.inl rfl
    · right
      rcases bounds_fst r (e + 1) p hp with h | ⟨h1, h2⟩
      · rw [h]; simp
      · exact ⟨h1, List.mem_cons_of_mem _ h2⟩

theorem breakPoints_eq (x : List (Option (List Rat))) :
    breakPoints x = (List.range' 0 x.length).filter (isNaNRow x) ++ [x.length] := by
  unfold breakPoints isNaNRow
  rw [List.range_eq_range']

theorem isNaNRow_false {x : List (Option (List Rat))} {i : Nat} :
    isNaNRow x i = false ↔ ∃ r, x[i]? = some (some r) := by
  unfold isNaNRow
  cases h : x[i]? with
  | none => simp
  | some o => cases o <;> simp

theorem isNaNRow_true {x : List (Option (List Rat))} {i : Nat} (hi : i < x.length) :
    isNaNRow x i = true ↔ x[i]? = some none := by
  unfold isNaNRow
  rw [List.getElem?_eq_getElem hi]
  cases x[i] <;> simp

/-- every pair in `segBounds x` is a maximal NaN-free run of rows -/
theorem segBounds_spec (x : List (Option (List Rat))) (p : Nat × Nat) (hp : p ∈ segBounds x) :
    p.1 ≤ p.2 ∧ p.2 ≤ x.length ∧ (∀ i, p.1 ≤ i → i < p.2 → ∃ r, x[i]? = some (some r)) ∧
      (p.2 < x.length → x[p.2]? = some none) ∧ (p.1 = 0 ∨ x[p.1 - 1]? = some none) := by
  unfold segBounds at hp
  rw [breakPoints_eq] at hp
  obtain ⟨h1, h2, h3, h4⟩ := bounds_filter (isNaNRow x) x.length x.length 0 (by omega) p hp
  refine ⟨h1, h2, fun i hi1 hi2 => isNaNRow_false.mp (h3 i hi1 hi2),
    fun h => (isNaNRow_true h).mp (h4 h), ?_⟩
  rcases bounds_fst _ 0 p hp with h | ⟨h5, h6⟩
  · exact Or.inl h
  · right
    rcases List.mem_append.mp h6 with h | h
    · have hm := List.mem_filter.mp h
      have hlt : p.1 - 1 < x.length := by
        have := List.mem_range'_1.mp hm.1; omega
      exact (isNaNRow_true hlt).mp hm.2
    · simp at h; omega

/-! ## one segment -/

theorem filter_range_interval (lo hi : Nat) : ∀ N : Nat,
    (List.range N).filter (fun i => decide (lo ≤ i ∧ i < hi)) = List.range' lo (min hi N - lo)
  | 0 => by simp
  | N + 1 => by
    rw [List.range_succ, List.filter_append, filter_range_interval lo hi N]
    by_cases h : lo ≤ N ∧ N < hi
    · rw [List.filter_cons_of_pos (by simpa using h)]
      have e1 : min hi (N + 1) - lo = (min hi N - lo) + 1 := by omega
      have e2 : lo + 1 * (min hi N - lo) = N := by omega
      rw [e1, List.range'_concat, e2]
      simp
    · rw [List.filter_cons_of_neg (by simpa using h)]
      have e1 : min hi (N + 1) - lo = min hi N - lo := by omega
      rw [e1]; simp

theorem keep_eq (dh dt L : Nat) :
    (List.range L).filter (fun i => decide (dh ≤ i ∧ i + dt < L)) = List.range' dh (L - dh - dt) := by
  have : (fun i => decide (dh ≤ i ∧ i + dt < L)) = (fun i => decide (dh ≤ i ∧ i < L - dt)) := by
    funext i; congr 1; apply propext; omega
  rw [this, filter_range_interval]
  congr 1; omega

theorem filterMap_id_eq {α : Type} : ∀ (l : List (Option α)),
    (l.filterMap id).length = l.length → l = (l.filterMap id).map some
  | [], _ => rfl
  | none :: l, h => by
    have := List.length_filterMap_le id l
    simp at h; omega
  | some a :: l, h => by
    have e : (some a :: l).filterMap id = a :: l.filterMap id := rfl
    rw [e] at h ⊢
    simp only [List.length_cons, Nat.add_right_cancel_iff] at h
    rw [List.map_cons, ← filterMap_id_eq l h]

theorem filterMap_id_map_some {α : Type} (l : List α) : (l.map some).filterMap id = l := by
  induction l with
  | nil => rfl
  | cons a l ih => simp

theorem savgol_eq_some' (m n : Nat) (s : Int) (y : List Rat)
    (h : y.length = 0 ∨ 2 * m + 1 ≤ y.length) :
    savgol m n s y
      = some ((List.range y.length).map fun i =>
          conv m n s y (centre m y.length i) (wIdx m y.length i)) := by
  rcases h with h | h
  · have : y = [] := List.length_eq_zero_iff.mp h
    subst this; simp [savgol_nil]
  · exact savgol_eq_some m n s y h

theorem column_length (rows : List (List Rat)) (j : Nat) : (column rows j).length = rows.length := by
  simp [column]

theorem column_getD (rows : List (List Rat)) (j i : Nat) :
    (column rows j).getD i 0 = (rows.getD i []).getD j 0 := by
  unfold column
  simp only [List.getD_eq_getElem?_getD, List.getElem?_map]
  cases rows[i]? <;> simp

/-- closed form of one segment whose rows are all NaN-free and which is empty or at least as long
as the window -/
theorem segment_eq (m n : Nat) (s : Int) (dh dt : Nat) (x : List (Option (List Rat))) (a b : Nat)
    (rows : List (List Rat)) (hrows : (x.drop a).take (b - a) = rows.map some)
    (hlen : rows.length = b - a) (hL : rows.length = 0 ∨ 2 * m + 1 ≤ rows.length) :
    segment m n s dh dt x a b
      = some ((List.range' dh (rows.length - dh - dt)).map (· + a),
          (List.range' dh (rows.length - dh - dt)).map (fun i => rows.getD i []),
          (List.range' dh (rows.length - dh - dt)).map fun i =>
            (List.range (width x)).map fun j =>
              conv m n s (column rows j) (centre m rows.length i) (wIdx m rows.length i)) := by
  have hcols : ((List.range (width x)).mapM fun j => savgol m n s (column rows j))
      = some ((List.range (width x)).map fun j => (List.range rows.length).map fun i =>
          conv m n s (column rows j) (centre m rows.length i) (wIdx m rows.length i)) := by
    rw [ListAux.mapM_eq_some_iff, List.map_map]
    apply List.map_congr_left
    intro j _
    rw [savgol_eq_some' m n s (column rows j) (by rw [column_length]; exact hL), column_length]
    rfl
  unfold segment
  simp only [hrows, filterMap_id_map_some, hlen, ne_eq, not_true_eq_false, if_false]
  rw [show ((x.filterMap id).head?.map (·.length)).getD 0 = width x from rfl]
  rw [← hlen, hcols]
  simp only [keep_eq, Option.some.injEq, Prod.mk.injEq, true_and]
  apply List.map_congr_left
  intro i hi
  have hi' : i < rows.length := by
    have := List.mem_range'_1.mp hi; omega
  rw [List.map_map]
  apply List.map_congr_left
  intro j _
  simp [List.getD_eq_getElem?_getD, hi']

/-! ## `window = 7, order = 3, deriv = 1`, trim 3 / 4: everything read directly off `x` -/

/-- the centred 7-point derivative estimate of column `j` at (absolute) row `k`; it reads rows
`k-3 … k+3` of `x` and nothing else -/
def sgDeriv (x : List (Option (List Rat))) (k j : Nat) : Rat :=
  ((List.range 7).map fun a => (rowAt x (k + a - 3)).getD j 0 * weight 3 3 1 a 3).sum

/-- `np.arange(start + 3, end - 4)` -/
def retainedOf (p : Nat × Nat) : List Nat := List.range' (p.1 + 3) (p.2 - p.1 - 7)

/-- all retained row indices, trajectory by trajectory -/
def retained (x : List (Option (List Rat))) : List Nat := (segBounds x).flatMap retainedOf

theorem seg_rows (x : List (Option (List Rat))) (a b : Nat)
    (hsome : ∀ i, a ≤ i → i < b → ∃ r, x[i]? = some (some r)) :
    (x.drop a).take (b - a) = ((List.range (b - a)).map fun i => rowAt x (a + i)).map some := by
  apply List.ext_getElem?
  intro i
  rw [List.getElem?_take, List.getElem?_drop, List.map_map, List.getElem?_map]
  by_cases hi : i < b - a
  · rw [if_pos hi, List.getElem?_range hi]
    obtain ⟨r, hr⟩ := hsome (a + i) (by omega) (by omega)
    simp [rowAt, hr]
  · rw [if_neg hi, List.getElem?_eq_none (by simpa using hi)]; rfl

theorem rows_getD (x : List (Option (List Rat))) (a L i : Nat) (hi : i < L) :
    ((List.range L).map fun i => rowAt x (a + i)).getD i [] = rowAt x (a + i) := by
  simp [List.getD_eq_getElem?_getD, hi]

theorem retainedOf_eq_map (a b : Nat) :
    retainedOf (a, b) = (List.range' 3 (b - a - 3 - 4)).map (· + a) := by
  unfold retainedOf
  have : (fun i => i + a) = (fun i => a + i) := by funext i; omega
  rw [this, List.map_add_range']
  congr 1

/-- one trajectory, in closed form -/
theorem segment_eq_x (x : List (Option (List Rat))) (a b : Nat)
    (hsome : ∀ i, a ≤ i → i < b → ∃ r, x[i]? = some (some r))
    (hL : b - a = 0 ∨ 7 ≤ b - a) :
    segment 3 3 1 3 4 x a b
      = some (retainedOf (a, b), (retainedOf (a, b)).map (rowAt x),
          (retainedOf (a, b)).map fun k => (List.range (width x)).map fun j => sgDeriv x k j) := by
  rw [segment_eq 3 3 1 3 4 x a b _ (seg_rows x a b hsome) (by simp) (by simpa using hL)]
  simp only [List.length_map, List.length_range, retainedOf_eq_map, List.map_map,
    Option.some.injEq, Prod.mk.injEq, true_and]
  constructor
  · apply List.map_congr_left
    intro i hi
    have hi' := List.mem_range'_1.mp hi
    rw [rows_getD x a (b - a) i (by omega)]
    simp [Nat.add_comm]
  · apply List.map_congr_left
    intro i hi
    have hi' := List.mem_range'_1.mp hi
    apply List.map_congr_left
    intro j _
    rw [centre_interior (by omega) (by omega), wIdx_interior (by omega) (by omega)]
    unfold conv sgDeriv
    congr 1
    apply List.map_congr_left
    intro a' ha'
    have ha'' : a' < 7 := List.mem_range.mp ha'
    rw [column_getD, rows_getD x a (b - a) _ (by omega)]
    have : a + (i + a' - 3) = i + a + a' - 3 := by omega
    rw [this]

/-- the whole of `_calculate_partials`, in closed form: it succeeds whenever every trajectory is
empty or has at least 7 rows -/
theorem calculatePartials_eq (x : List (Option (List Rat)))
    (h : ∀ p ∈ segBounds x, p.2 - p.1 = 0 ∨ 7 ≤ p.2 - p.1) :
    calculatePartials 3 3 1 3 4 x
      = some (retained x, (retained x).map (rowAt x),
          (retained x).map fun k => (List.range (width x)).map fun j => sgDeriv x k j) := by
  rw [calculatePartials_eq_segments]
  have hm : ((segBounds x).mapM fun p => segment 3 3 1 3 4 x p.1 p.2)
      = some ((segBounds x).map fun p => (retainedOf p, (retainedOf p).map (rowAt x),
          (retainedOf p).map fun k => (List.range (width x)).map fun j => sgDeriv x k j)) := by
    rw [ListAux.mapM_eq_some_iff, List.map_map]
    apply List.map_congr_left
    intro p hp
    exact segment_eq_x x p.1 p.2 (segBounds_spec x p hp).2.2.1 (h p hp)
  rw [hm]
  simp only [Option.map_some, concat3, List.nil_append, retained, List.map_flatMap,
    List.flatMap_map]

theorem mem_retainedOf {a b k : Nat} : k ∈ retainedOf (a, b) ↔ a + 3 ≤ k ∧ k + 4 < b := by
  unfold retainedOf
  rw [List.mem_range'_1]
  simp only
  omega

theorem mem_retained {x : List (Option (List Rat))} {k : Nat} :
    k ∈ retained x ↔ ∃ p ∈ segBounds x, p.1 + 3 ≤ k ∧ k + 4 < p.2 := by
  unfold retained
  rw [List.mem_flatMap]
  constructor
  · rintro ⟨p, hp, hk⟩; exact ⟨p, hp, mem_retainedOf.mp hk⟩
  · rintro ⟨p, hp, hk⟩; exact ⟨p, hp, mem_retainedOf.mpr hk⟩

/-- a segment's result depends only on the rows of that segment (and the column count) -/
theorem segment_congr (m n : Nat) (s : Int) (dh dt : Nat) (x x' : List (Option (List Rat)))
    (a b : Nat) (hw : width x = width x') (h : ∀ i, a ≤ i → i < b → x[i]? = x'[i]?) :
    segment m n s dh dt x a b = segment m n s dh dt x' a b := by
  have h1 : (x.drop a).take (b - a) = (x'.drop a).take (b - a) := by
    apply List.ext_getElem?
    intro i
    rw [List.getElem?_take, List.getElem?_take, List.getElem?_drop, List.getElem?_drop]
    by_cases hi : i < b - a
    · rw [if_pos hi, if_pos hi, h (a + i) (by omega) (by omega)]
    · rw [if_neg hi, if_neg hi]
  have hw' : ((x.filterMap id).head?.map (·.length)).getD 0
      = ((x'.filterMap id).head?.map (·.length)).getD 0 := hw
  unfold segment
  simp only [h1, hw']

theorem rowAt_congr {x x' : List (Option (List Rat))} {k : Nat} (h : x[k]? = x'[k]?) :
    rowAt x k = rowAt x' k := by
  unfold rowAt; rw [h]

/-- a retained derivative row depends only on rows `k-3 … k+3` -/
theorem sgDeriv_congr {x x' : List (Option (List Rat))} {k : Nat} (hk : 3 ≤ k)
    (h : ∀ i, k - 3 ≤ i → i ≤ k + 3 → x[i]? = x'[i]?) (j : Nat) :
    sgDeriv x k j = sgDeriv x' k j := by
  unfold sgDeriv
  congr 1
  apply List.map_congr_left
  intro a ha
  have ha' : a < 7 := List.mem_range.mp ha
  rw [rowAt_congr (h (k + a - 3) (by omega) (by omega))]

/-- exactness on cubics: if column `j` is a cubic in the row index on rows `k-3 … k+3`, the
derivative estimate at row `k` is the exact derivative -/
theorem sgDeriv_cubic (x : List (Option (List Rat))) (k j : Nat) (hk : 3 ≤ k)
    (c0 c1 c2 c3 : Rat)
    (hx : ∀ t, k - 3 ≤ t → t ≤ k + 3 →
      (rowAt x t).getD j 0 = c0 + c1 * t + c2 * (t : Rat) ^ 2 + c3 * (t : Rat) ^ 3) :
    sgDeriv x k j = c1 + 2 * c2 * k + 3 * c3 * (k : Rat) ^ 2 := by
  have := window_cubic (fun t => (rowAt x t).getD j 0) c0 c1 c2 c3 0 k hk
    (by intro t h1 h2; simp only [zero_add]; exact hx t h1 h2)
  simp only [zero_add] at this
  exact this

theorem flatMap_congr' {α β : Type} {f g : α → List β} : ∀ {l : List α},
    (∀ a ∈ l, f a = g a) → l.flatMap f = l.flatMap g
  | [], _ => rfl
  | a :: l, h => by
    rw [List.flatMap_cons, List.flatMap_cons, h a (by simp),
      flatMap_congr' (fun b hb => h b (by simp [hb]))]

/-- the retained rows' windows stay inside their trajectory -/
theorem window_in_segment {x : List (Option (List Rat))} {p : Nat × Nat} (hp : p ∈ segBounds x)
    {k : Nat} (hk : k ∈ retainedOf p) :
    p.1 + 3 ≤ k ∧ k + 4 < p.2 ∧ ∀ i, k - 3 ≤ i → i ≤ k + 3 → ∃ r, x[i]? = some (some r) := by
  have hk' := (mem_retainedOf (a := p.1) (b := p.2)).mp hk
  refine ⟨hk'.1, hk'.2, fun i h1 h2 => (segBounds_spec x p hp).2.2.1 i (by omega) (by omega)⟩

/-- trajectories that are cubic in the row index (coefficients may differ per trajectory `p` and
column `j`) yield exactly the derivative at every retained row -/
theorem calculatePartials_cubic (x : List (Option (List Rat)))
    (h : ∀ p ∈ segBounds x, p.2 - p.1 = 0 ∨ 7 ≤ p.2 - p.1)
    (c0 c1 c2 c3 : Nat × Nat → Nat → Rat)
    (hx : ∀ p ∈ segBounds x, ∀ k, p.1 ≤ k → k < p.2 → ∀ j, j < width x →
      (rowAt x k).getD j 0
        = c0 p j + c1 p j * k + c2 p j * (k : Rat) ^ 2 + c3 p j * (k : Rat) ^ 3) :
    calculatePartials 3 3 1 3 4 x
      = some (retained x, (retained x).map (rowAt x),
          (segBounds x).flatMap fun p => (retainedOf p).map fun (k : Nat) =>
            (List.range (width x)).map fun j =>
              c1 p j + 2 * c2 p j * k + 3 * c3 p j * (k : Rat) ^ 2) := by
  rw [calculatePartials_eq x h]
  simp only [Option.some.injEq, Prod.mk.injEq, true_and]
  unfold retained
  rw [List.map_flatMap]
  apply flatMap_congr'
  intro p hp
  apply List.map_congr_left
  intro k hk
  have hk' := (mem_retainedOf (a := p.1) (b := p.2)).mp hk
  apply List.map_congr_left
  intro j hj
  have hj' : j < width x := List.mem_range.mp hj
  exact sgDeriv_cubic x k j (by omega) _ _ _ _
    (fun t h1 h2 => hx p hp t (by omega) (by omega) j hj')

/-- every non-NaN row lies in one of the trajectories -/
theorem bounds_cover (P : Nat → Bool) (n : Nat) :
    ∀ d a, a + d = n → ∀ i, a ≤ i → i < n → P i = false →
      ∃ p ∈ bounds a ((List.range' a d).filter P ++ [n]), p.1 ≤ i ∧ i < p.2
  | 0, a, h => by intro i h1 h2; omega
  | d + 1, a, h => by
    intro i h1 h2 hPi
    rw [List.range'_succ]
    have ih := bounds_cover P n d (a + 1) (by omega)
    by_cases hP : P a = true
    · rw [List.filter_cons_of_pos hP]
      simp only [List.cons_append, bounds, List.mem_cons]
      have hia : i ≠ a := by rintro rfl; rw [hP] at hPi; cases hPi
      obtain ⟨p, hp, hp'⟩ := ih i (by omega) h2 hPi
      exact ⟨p, Or.inr hp, hp'⟩
    · rw [List.filter_cons_of_neg hP]
      have hb := bounds_filter P n d (a + 1) (by omega)
      cases hl : (List.range' (a + 1) d).filter P ++ [n] with
      | nil => simp at hl
      | cons e r =>
        rw [hl] at ih hb
        simp only [bounds, List.mem_cons] at ih hb ⊢
        have he := (hb (a + 1, e) (Or.inl rfl)).1
        simp only at he
        by_cases hia : i = a
        · exact ⟨(a, e), Or.inl rfl, by simp; omega, by simp; omega⟩
        · obtain ⟨p, hp, hp1, hp2⟩ := ih i (by omega) h2 hPi
          rcases hp with rfl | hp
          · exact ⟨(a, e), Or.inl rfl, by simp; omega, hp2⟩
          · exact ⟨p, Or.inr hp, hp1, hp2⟩

theorem segBounds_cover (x : List (Option (List Rat))) (i : Nat) (r : List Rat)
    (h : x[i]? = some (some r)) : ∃ p ∈ segBounds x, p.1 ≤ i ∧ i < p.2 := by
  unfold segBounds
  rw [breakPoints_eq]
  have hi : i < x.length := by
    by_contra hc
    rw [List.getElem?_eq_none (by omega)] at h; cases h
  exact bounds_cover (isNaNRow x) x.length x.length 0 (by omega) i (by omega) hi
    (isNaNRow_false.mpr ⟨r, h⟩)

end SavGol
end Bingo
