import Proofs.Lemmas.CasAutoBase
/-!
# The strictness switch is irrelevant for expressions read off a stack

`NoNp e`: every `INTEGER` terminal of `e` is an exact Python int (`np = false`).  `buildCasExpression`
only produces such expressions, every simplifier function preserves the property, and on such operands
`arith` / `intPow` never take the `numpy` branch, the only place where `strict` is looked at.  Hence
`automaticSimplify st f e = automaticSimplify true f e` and `simplifyWith false s = simplifyWith true s`.
-/
namespace Bingo
namespace Cas
namespace NoNpM
open Gen.OpDefs Expr Auto

mutual
/-- every `INTEGER` terminal is an exact Python int -/
def NoNp : Expr → Bool
  | term o _ np => !(o == INTEGER && np)
  | node _ as => NoNpL as
def NoNpL : List Expr → Bool
  | [] => true
  | a :: as => NoNp a && NoNpL as
end

@[simp] theorem NoNpL_nil : NoNpL [] = true := rfl
@[simp] theorem NoNpL_cons (a : Expr) (l : List Expr) : NoNpL (a :: l) = (NoNp a && NoNpL l) := by
  simp [NoNpL]
@[simp] theorem NoNp_node (o : Int) (as : List Expr) : NoNp (node o as) = NoNpL as := by simp [NoNp]
@[simp] theorem NoNp_ZERO : NoNp ZERO = true := by simp [ZERO, NoNp]
@[simp] theorem NoNp_ONE : NoNp ONE = true := by simp [ONE, NoNp]
@[simp] theorem NoNp_NEGATIVE_ONE : NoNp NEGATIVE_ONE = true := by simp [NEGATIVE_ONE, NoNp]
@[simp] theorem NoNp_ofPInt (v : Int) : NoNp (ofPInt ⟨v, false⟩) = true := by simp [ofPInt, NoNp]

theorem NoNpL_iff {l : List Expr} : NoNpL l = true ↔ ∀ e ∈ l, NoNp e = true := by
  induction l with
  | nil => simp
  | cons a l ih => simp [ih]

@[simp] theorem NoNpL_append (l₁ l₂ : List Expr) : NoNpL (l₁ ++ l₂) = (NoNpL l₁ && NoNpL l₂) := by
  induction l₁ with
  | nil => simp
  | cons a l ih => simp [ih, Bool.and_assoc]

theorem NoNpL_args {e : Expr} (h : NoNp e = true) : NoNpL e.args = true := by
  cases e with
  | term o v np => rfl
  | node o as => simpa [Expr.args] using h

theorem NoNpL_mergeOperands {e : Expr} (h : NoNp e = true) (o : Int) :
    NoNpL (mergeOperands o e) = true := by
  unfold mergeOperands
  split
  · exact NoNpL_args h
  · simp [h]

theorem np_of_intVal? {e : Expr} {p : PInt} (h : NoNp e = true) (hp : e.intVal? = some p) :
    p.np = false := by
  rw [intVal?_eq hp] at h
  simpa [NoNp] using h

theorem NoNp_base {e b : Expr} (h : NoNp e = true) (hb : e.base = some b) : NoNp b = true := by
  cases e with
  | term o v np =>
    simp only [base] at hb
    split at hb
    · cases hb
    · cases hb; exact h
  | node o as =>
    simp only [base] at hb
    split at hb
    · have := NoNpL_iff.mp (by simpa using h) b (List.mem_of_getElem? hb)
      exact this
    · cases hb; exact h

theorem NoNp_exponent {e b : Expr} (h : NoNp e = true) (hb : e.exponent = some b) :
    NoNp b = true := by
  cases e with
  | term o v np =>
    simp only [exponent] at hb
    split at hb
    · cases hb
    · cases hb; simp
  | node o as =>
    simp only [exponent] at hb
    split at hb
    · exact NoNpL_iff.mp (by simpa using h) b (List.mem_of_getElem? hb)
    · cases hb; simp

theorem NoNp_termOf {e t : Expr} (h : NoNp e = true) (ht : e.termOf = some t) : NoNp t = true := by
  cases e with
  | term o v np =>
    simp only [termOf] at ht
    split at ht
    · cases ht
    · cases ht; simpa using h
  | node o as =>
    simp only [termOf] at ht
    split at ht
    · cases as with
      | nil => cases ht
      | cons c rest =>
        dsimp only at ht
        have has : NoNp c = true ∧ NoNpL rest = true := by simpa using h
        split at ht
        · cases ht; simpa using has.2
        · cases ht; exact h
    · cases ht; simpa using h

theorem NoNp_coefficient {e c : Expr} (h : NoNp e = true) (hc : e.coefficient = some c) :
    NoNp c = true := by
  cases e with
  | term o v np =>
    simp only [coefficient] at hc
    split at hc
    · cases hc
    · cases hc; simp
  | node o as =>
    simp only [coefficient] at hc
    split at hc
    · cases as with
      | nil => cases hc
      | cons c0 rest =>
        dsimp only at hc
        have has : NoNp c0 = true ∧ NoNpL rest = true := by simpa using h
        split at hc
        · cases hc; exact has.1
        · cases hc; simp
    · cases hc; simp

/-! ## the two integer primitives -/

theorem arith_nonp (st : Bool) (f : Int → Int → Int) {a b : PInt} (ha : a.np = false)
    (hb : b.np = false) :
    arith st f a b = arith true f a b ∧ ∀ r, arith true f a b = .ok r → r.np = false := by
  unfold arith
  simp only [ha, hb, Bool.not_false, Bool.and_self, if_true]
  refine ⟨trivial, fun r hr => ?_⟩
  split at hr
  · cases pure_ok hr; rfl
  · exact (throw_ok hr).elim

theorem intPow_nonp (st : Bool) {a b : PInt} (ha : a.np = false) (hb : b.np = false) :
    intPow st a b = intPow true a b ∧ ∀ r, intPow true a b = .ok r → r.np = false := by
  unfold intPow
  simp only [ha, hb, Bool.not_false, Bool.and_self, if_true]
  refine ⟨trivial, fun r hr => ?_⟩
  split at hr
  · exact (throw_ok hr).elim
  · split at hr
    · cases pure_ok hr; rfl
    · exact (throw_ok hr).elim

/-! ## a relation between two runs: equal, and every result satisfies `Q` -/

def Rel {α : Type} (Q : α → Prop) (a b : R α) : Prop := a = b ∧ ∀ r, b = .ok r → Q r

theorem Rel.pure {α : Type} {Q : α → Prop} {x : α} (h : Q x) : Rel Q (pure x) (pure x) :=
  ⟨rfl, fun r hr => by cases pure_ok hr; exact h⟩
theorem Rel.throw {α : Type} {Q : α → Prop} {s : String} : Rel Q (throw s : R α) (throw s) :=
  ⟨rfl, fun _ hr => (throw_ok hr).elim⟩
theorem Rel.same {α : Type} {a : R α} : Rel (fun _ => True) a a := ⟨rfl, fun _ _ => trivial⟩
theorem Rel.bind {α β : Type} {Q : α → Prop} {Q' : β → Prop} {a a' : R α} {k k' : α → R β}
    (h1 : Rel Q a a') (h2 : ∀ x, Q x → Rel Q' (k x) (k' x)) : Rel Q' (a >>= k) (a' >>= k') := by
  obtain ⟨rfl, hq⟩ := h1
  cases a with
  | error e => exact ⟨rfl, fun _ hr => by cases hr⟩
  | ok x => exact h2 x (hq x rfl)
theorem Rel.mapM {Q : Expr → Prop} {g g' : Expr → R Expr} : ∀ (l : List Expr),
    (∀ x ∈ l, Rel Q (g x) (g' x)) → Rel (fun rs => ∀ r ∈ rs, Q r) (l.mapM g) (l.mapM g')
  | [], _ => by rw [List.mapM_nil, List.mapM_nil]; exact Rel.pure (fun _ h => by cases h)
  | a :: l, h => by
    rw [List.mapM_cons, List.mapM_cons]
    refine Rel.bind (h a List.mem_cons_self) (fun x hx => ?_)
    refine Rel.bind (Rel.mapM l (fun y hy => h y (List.mem_cons_of_mem _ hy))) (fun xs hxs => ?_)
    refine Rel.pure (fun r hr => ?_)
    rcases List.mem_cons.mp hr with rfl | hr
    · exact hx
    · exact hxs r hr

abbrev QE (e : Expr) : Prop := NoNp e = true
abbrev QL (l : List Expr) : Prop := NoNpL l = true

structure NpAt (st : Bool) (f : Nat) : Prop where
  pow : ∀ b e, NoNp b = true → NoNp e = true →
    Rel QE (simplifyPower st f b e) (simplifyPower true f b e)
  cpow : ∀ b e, NoNp b = true → NoNp e = true →
    Rel QE (simplifyConstantPower st f b e) (simplifyConstantPower true f b e)
  prod : ∀ l, NoNpL l = true → Rel QE (simplifyProduct st f l) (simplifyProduct true f l)
  prodRec : ∀ l, NoNpL l = true → Rel QL (simplifyProductRec st f l) (simplifyProductRec true f l)
  mergeP : ∀ l₁ l₂, NoNpL l₁ = true → NoNpL l₂ = true →
    Rel QL (mergeProducts st f l₁ l₂) (mergeProducts true f l₁ l₂)
  sum : ∀ l, NoNpL l = true → Rel QE (simplifySum st f l) (simplifySum true f l)
  sumRec : ∀ l, NoNpL l = true → Rel QL (simplifySumRec st f l) (simplifySumRec true f l)
  mergeS : ∀ l₁ l₂, NoNpL l₁ = true → NoNpL l₂ = true →
    Rel QL (mergeSums st f l₁ l₂) (mergeSums true f l₁ l₂)

theorem npAt_zero (st : Bool) : NpAt st 0 where
  pow := by intro b e _ _; rw [simplifyPower.eq_1, simplifyPower.eq_1]; exact Rel.throw
  cpow := by
    intro b e _ _; rw [simplifyConstantPower.eq_1, simplifyConstantPower.eq_1]; exact Rel.throw
  prod := by intro l _; rw [simplifyProduct.eq_1, simplifyProduct.eq_1]; exact Rel.throw
  prodRec := by intro l _; rw [simplifyProductRec.eq_1, simplifyProductRec.eq_1]; exact Rel.throw
  mergeP := by intro a b _ _; rw [mergeProducts.eq_1, mergeProducts.eq_1]; exact Rel.throw
  sum := by intro l _; rw [simplifySum.eq_1, simplifySum.eq_1]; exact Rel.throw
  sumRec := by intro l _; rw [simplifySumRec.eq_1, simplifySumRec.eq_1]; exact Rel.throw
  mergeS := by intro a b _ _; rw [mergeSums.eq_1, mergeSums.eq_1]; exact Rel.throw

section step
variable {st : Bool} {f : Nat}

theorem Rel.ltF {a b : Expr} {f : Nat} : Rel (fun _ : Bool => True) (ltF f a b) (ltF f a b) :=
  Rel.same

theorem pow_step (ih : NpAt st f) (b e : Expr) (hb : NoNp b = true) (he : NoNp e = true) :
    Rel QE (simplifyPower st (f+1) b e) (simplifyPower true (f+1) b e) := by
  rw [simplifyPower.eq_2, simplifyPower.eq_2]
  split
  · exact Rel.pure NoNp_ONE
  · split
    · exact Rel.pure NoNp_ZERO
    · split
      · exact ih.cpow b e hb he
      · exact Rel.pure (by simp [QE, hb, he])

theorem cpow_step (ih : NpAt st f) (b e : Expr) (hb : NoNp b = true) (he : NoNp e = true) :
    Rel QE (simplifyConstantPower st (f+1) b e) (simplifyConstantPower true (f+1) b e) := by
  rw [simplifyConstantPower.eq_2, simplifyConstantPower.eq_2]
  have keep : Rel QE (pure (node POWER [b, e]) : R Expr) (pure (node POWER [b, e])) :=
    Rel.pure (by simp [QE, hb, he])
  split
  · exact Rel.pure hb
  · split
    · exact Rel.pure NoNp_ONE
    · split
      · rename_i bv ev hbv hev
        split
        · obtain ⟨h1, h2⟩ := intPow_nonp st (np_of_intVal? hb hbv) (np_of_intVal? he hev)
          refine Rel.bind ⟨h1, h2⟩ (fun p hp => ?_)
          refine Rel.pure ?_
          have : p = ⟨p.val, false⟩ := by cases p; simp at hp; simp [hp]
          rw [this]; exact NoNp_ofPInt _
        · exact keep
      · split
        · split
          · rename_i bb be hargs
            have hbb : NoNp bb = true ∧ NoNp be = true := by
              have := NoNpL_args hb
              rw [hargs] at this
              simpa using this
            refine Rel.bind (ih.prod [be, e] (by simp [hbb.2, he])) (fun ne hne => ?_)
            split
            · exact ih.cpow bb ne hbb.1 hne
            · exact Rel.pure (by simp [QE, hbb.1, hne])
          · exact Rel.throw
        · split
          · have hargs := NoNpL_iff.mp (NoNpL_args hb)
            refine Rel.bind (Rel.mapM b.args (fun a ha => ih.cpow a e (hargs a ha) he))
              (fun parts hparts => ?_)
            exact ih.prod parts (NoNpL_iff.mpr hparts)
          · exact keep

theorem prod_step (ih : NpAt st f) (l : List Expr) (hl : NoNpL l = true) :
    Rel QE (simplifyProduct st (f+1) l) (simplifyProduct true (f+1) l) := by
  by_cases hs : ∃ a, l = [a]
  · obtain ⟨a, rfl⟩ := hs
    rw [simplifyProduct.eq_2, simplifyProduct.eq_2]
    split
    · exact Rel.pure NoNp_ZERO
    · exact Rel.pure (by simpa using hl)
  · rw [simplifyProduct.eq_3 _ _ _ (fun a ha => hs ⟨a, ha⟩),
      simplifyProduct.eq_3 _ _ _ (fun a ha => hs ⟨a, ha⟩)]
    split
    · exact Rel.pure NoNp_ZERO
    · refine Rel.bind (ih.prodRec l hl) (fun rs hrs => ?_)
      split
      · exact Rel.pure NoNp_ONE
      · exact Rel.pure (by simpa [QL] using hrs)
      · exact Rel.pure (by simpa [QE] using hrs)

theorem sum_step (ih : NpAt st f) (l : List Expr) (hl : NoNpL l = true) :
    Rel QE (simplifySum st (f+1) l) (simplifySum true (f+1) l) := by
  by_cases hs : ∃ a, l = [a]
  · obtain ⟨a, rfl⟩ := hs
    rw [simplifySum.eq_2, simplifySum.eq_2]
    exact Rel.pure (by simpa using hl)
  · rw [simplifySum.eq_3 _ _ _ (fun a ha => hs ⟨a, ha⟩),
      simplifySum.eq_3 _ _ _ (fun a ha => hs ⟨a, ha⟩)]
    refine Rel.bind (ih.sumRec l hl) (fun rs hrs => ?_)
    split
    · exact Rel.pure NoNp_ZERO
    · exact Rel.pure (by simpa [QL] using hrs)
    · exact Rel.pure (by simpa [QE] using hrs)

theorem ite_nil_singleton_np {c : Prop} [Decidable c] {a : Expr} (h : NoNp a = true) :
    NoNpL (if c then [] else [a]) = true := by
  split <;> simp [h]

theorem ord_np {a b : Expr} (ha : NoNp a = true) (hb : NoNp b = true) (f : Nat) :
    Rel QL (do if ← ltF f b a then pure [b, a] else pure [a, b])
      (do if ← ltF f b a then pure [b, a] else pure [a, b]) := by
  refine Rel.bind Rel.ltF (fun lt _ => ?_)
  split
  · exact Rel.pure (by simp [QL, ha, hb])
  · exact Rel.pure (by simp [QL, ha, hb])

theorem prodRec_step (ih : NpAt st f) (l : List Expr) (hl : NoNpL l = true) :
    Rel QL (simplifyProductRec st (f+1) l) (simplifyProductRec true (f+1) l) := by
  by_cases hp : ∃ a b, l = [a, b]
  · obtain ⟨a, b, rfl⟩ := hp
    have hab : NoNp a = true ∧ NoNp b = true := by simpa using hl
    rw [simplifyProductRec.eq_3, simplifyProductRec.eq_3]
    split
    · rename_i pa pb hpa hpb
      obtain ⟨h1, h2⟩ := arith_nonp st (· * ·) (np_of_intVal? hab.1 hpa) (np_of_intVal? hab.2 hpb)
      refine Rel.bind ⟨h1, h2⟩ (fun p hp => ?_)
      refine Rel.pure ?_
      have : p = ⟨p.val, false⟩ := by cases p; simp at hp; simp [hp]
      rw [this]; exact ite_nil_singleton_np (NoNp_ofPInt _)
    · split
      · split
        · exact Rel.pure (by simp [QL, hab.2])
        · split
          · exact Rel.pure (by simp [QL, hab.1])
          · split
            · split
              · rename_i bb e1 e2 hbb he1 he2
                refine Rel.bind (ih.sum [e1, e2]
                  (by simp [NoNp_exponent hab.1 he1, NoNp_exponent hab.2 he2])) (fun ne hne => ?_)
                refine Rel.bind (ih.pow bb ne (NoNp_base hab.1 hbb) hne) (fun comb hcomb => ?_)
                exact Rel.pure (ite_nil_singleton_np hcomb)
              · exact Rel.throw
            · exact ord_np hab.1 hab.2 f
      · exact ih.mergeP _ _ (NoNpL_mergeOperands hab.1 _) (NoNpL_mergeOperands hab.2 _)
  · cases l with
    | nil => rw [simplifyProductRec.eq_2, simplifyProductRec.eq_2]; exact Rel.throw
    | cons op rest =>
      have hne : ∀ op2, rest = [op2] → False := fun op2 h => hp ⟨op, op2, by rw [h]⟩
      have hor : NoNp op = true ∧ NoNpL rest = true := by simpa using hl
      rw [simplifyProductRec.eq_4 _ _ _ _ hne, simplifyProductRec.eq_4 _ _ _ _ hne]
      refine Rel.bind (ih.prodRec rest hor.2) (fun rs hrs => ?_)
      exact ih.mergeP _ _ (NoNpL_mergeOperands hor.1 _) hrs

theorem sumRec_step (ih : NpAt st f) (l : List Expr) (hl : NoNpL l = true) :
    Rel QL (simplifySumRec st (f+1) l) (simplifySumRec true (f+1) l) := by
  by_cases hp : ∃ a b, l = [a, b]
  · obtain ⟨a, b, rfl⟩ := hp
    have hab : NoNp a = true ∧ NoNp b = true := by simpa using hl
    rw [simplifySumRec.eq_3, simplifySumRec.eq_3]
    split
    · rename_i pa pb hpa hpb
      obtain ⟨h1, h2⟩ := arith_nonp st (· + ·) (np_of_intVal? hab.1 hpa) (np_of_intVal? hab.2 hpb)
      refine Rel.bind ⟨h1, h2⟩ (fun p hp => ?_)
      refine Rel.pure ?_
      have : p = ⟨p.val, false⟩ := by cases p; simp at hp; simp [hp]
      rw [this]; exact ite_nil_singleton_np (NoNp_ofPInt _)
    · split
      · split
        · exact Rel.pure (by simp [QL, hab.2])
        · split
          · exact Rel.pure (by simp [QL, hab.1])
          · split
            · split
              · rename_i t c1 c2 ht hc1 hc2
                refine Rel.bind (ih.sum [c1, c2]
                  (by simp [NoNp_coefficient hab.1 hc1, NoNp_coefficient hab.2 hc2]))
                  (fun nc hnc => ?_)
                refine Rel.bind (ih.prod [nc, t] (by simp [hnc, NoNp_termOf hab.1 ht]))
                  (fun comb hcomb => ?_)
                exact Rel.pure (ite_nil_singleton_np hcomb)
              · exact Rel.throw
            · exact ord_np hab.1 hab.2 f
      · exact ih.mergeS _ _ (NoNpL_mergeOperands hab.1 _) (NoNpL_mergeOperands hab.2 _)
  · cases l with
    | nil => rw [simplifySumRec.eq_2, simplifySumRec.eq_2]; exact Rel.throw
    | cons op rest =>
      have hne : ∀ op2, rest = [op2] → False := fun op2 h => hp ⟨op, op2, by rw [h]⟩
      have hor : NoNp op = true ∧ NoNpL rest = true := by simpa using hl
      rw [simplifySumRec.eq_4 _ _ _ _ hne, simplifySumRec.eq_4 _ _ _ _ hne]
      refine Rel.bind (ih.sumRec rest hor.2) (fun rs hrs => ?_)
      exact ih.mergeS _ _ (NoNpL_mergeOperands hor.1 _) hrs

theorem cons_np {s : Expr} {f g : R (List Expr)} (hs : NoNp s = true) (h : Rel QL f g) :
    Rel QL (do pure (s :: (← f))) (do pure (s :: (← g))) :=
  Rel.bind h (fun rest hrest => Rel.pure (by simp [QL, hs, hrest]))

theorem mergeP_step (ih : NpAt st f) (l₁ l₂ : List Expr) (h1 : NoNpL l₁ = true)
    (h2 : NoNpL l₂ = true) :
    Rel QL (mergeProducts st (f+1) l₁ l₂) (mergeProducts true (f+1) l₁ l₂) := by
  cases l₁ with
  | nil => rw [mergeProducts.eq_2, mergeProducts.eq_2]; exact Rel.pure h2
  | cons a as =>
    cases l₂ with
    | nil =>
      rw [mergeProducts.eq_3 _ _ _ (by intro h; cases h),
        mergeProducts.eq_3 _ _ _ (by intro h; cases h)]
      exact Rel.pure h1
    | cons b bs =>
      have ha : NoNp a = true ∧ NoNpL as = true := by simpa using h1
      have hb : NoNp b = true ∧ NoNpL bs = true := by simpa using h2
      rw [mergeProducts.eq_4, mergeProducts.eq_4]
      split
      · exact ih.mergeP _ _ (by simp [NoNpL_args ha.1, ha.2]) h2
      · split
        · exact ih.mergeP _ _ h1 (by simp [NoNpL_args hb.1, hb.2])
        · refine Rel.bind (ih.prodRec [a, b] (by simp [ha.1, hb.1])) (fun firsts hfirsts => ?_)
          split
          · exact ih.mergeP _ _ ha.2 hb.2
          · rename_i s
            exact cons_np (by simpa [QL] using hfirsts) (ih.mergeP _ _ ha.2 hb.2)
          · rename_i s tail _
            have hs : NoNp s = true := by
              have : NoNp s = true ∧ NoNpL tail = true := by simpa [QL] using hfirsts
              exact this.1
            split
            · exact cons_np hs (ih.mergeP _ _ ha.2 h2)
            · exact cons_np hs (ih.mergeP _ _ h1 hb.2)

theorem mergeS_step (ih : NpAt st f) (l₁ l₂ : List Expr) (h1 : NoNpL l₁ = true)
    (h2 : NoNpL l₂ = true) :
    Rel QL (mergeSums st (f+1) l₁ l₂) (mergeSums true (f+1) l₁ l₂) := by
  cases l₁ with
  | nil => rw [mergeSums.eq_2, mergeSums.eq_2]; exact Rel.pure h2
  | cons a as =>
    cases l₂ with
    | nil =>
      rw [mergeSums.eq_3 _ _ _ (by intro h; cases h), mergeSums.eq_3 _ _ _ (by intro h; cases h)]
      exact Rel.pure h1
    | cons b bs =>
      have ha : NoNp a = true ∧ NoNpL as = true := by simpa using h1
      have hb : NoNp b = true ∧ NoNpL bs = true := by simpa using h2
      rw [mergeSums.eq_4, mergeSums.eq_4]
      split
      · exact ih.mergeS _ _ (by simp [NoNpL_args ha.1, ha.2]) h2
      · split
        · exact ih.mergeS _ _ h1 (by simp [NoNpL_args hb.1, hb.2])
        · refine Rel.bind (ih.sumRec [a, b] (by simp [ha.1, hb.1])) (fun firsts hfirsts => ?_)
          split
          · exact ih.mergeS _ _ ha.2 hb.2
          · rename_i s
            exact cons_np (by simpa [QL] using hfirsts) (ih.mergeS _ _ ha.2 hb.2)
          · rename_i s tail _
            have hs : NoNp s = true := by
              have : NoNp s = true ∧ NoNpL tail = true := by simpa [QL] using hfirsts
              exact this.1
            split
            · exact cons_np hs (ih.mergeS _ _ ha.2 h2)
            · exact cons_np hs (ih.mergeS _ _ h1 hb.2)

end step

theorem npAt (st : Bool) : ∀ f, NpAt st f
  | 0 => npAt_zero st
  | f+1 =>
    have ih := npAt st f
    { pow := pow_step ih, cpow := cpow_step ih, prod := prod_step ih, prodRec := prodRec_step ih
      mergeP := mergeP_step ih, sum := sum_step ih, sumRec := sumRec_step ih
      mergeS := mergeS_step ih }

/-! ## the non-recursive wrappers, the dispatch, `automaticSimplify` -/

theorem quotient_np (st : Bool) (f : Nat) (a b : Expr) (ha : NoNp a = true) (hb : NoNp b = true) :
    Rel QE (simplifyQuotient st f a b) (simplifyQuotient true f a b) := by
  unfold simplifyQuotient
  refine Rel.bind ((npAt st f).pow b NEGATIVE_ONE hb NoNp_NEGATIVE_ONE) (fun d hd => ?_)
  exact (npAt st f).prod [a, d] (by simp [ha, hd])

theorem difference_np (st : Bool) (f : Nat) (a b : Expr) (ha : NoNp a = true) (hb : NoNp b = true) :
    Rel QE (simplifyDifference st f a b) (simplifyDifference true f a b) := by
  have one : ∀ o, NoNp o = true →
      Rel QE (simplifyProduct st f [NEGATIVE_ONE, o]) (simplifyProduct true f [NEGATIVE_ONE, o]) :=
    fun o ho => (npAt st f).prod _ (by simp [ho])
  unfold simplifyDifference
  dsimp only
  split
  · have hargs := NoNpL_iff.mp (NoNpL_args hb)
    refine Rel.bind (Rel.mapM b.args (fun o ho => one o (hargs o ho))) (fun negs hnegs => ?_)
    exact (npAt st f).sum _ (by simp [ha, NoNpL_iff.mpr hnegs])
  · refine Rel.bind (one b hb) (fun n hn => ?_)
    refine Rel.bind (Rel.pure (Q := QL) (x := [n]) (by simp [QL, hn])) (fun negs hnegs => ?_)
    exact (npAt st f).sum _ (by simp [ha, hnegs])

theorem logarithm_np (a : Expr) (ha : NoNp a = true) :
    Rel QE (simplifyLogarithm a) (simplifyLogarithm a) := by
  refine ⟨rfl, fun r hr => ?_⟩
  unfold simplifyLogarithm at hr
  split at hr
  · cases pure_ok hr; exact NoNp_ZERO
  · split at hr
    · split at hr
      · rename_i u rest hargs
        cases pure_ok hr
        have := NoNpL_args ha
        rw [hargs] at this
        exact (by simpa using this : NoNp r = true ∧ _).1
      · exact (throw_ok hr).elim
    · cases pure_ok hr; simpa [QE] using ha

theorem atZero_np {z : Expr} (hz : NoNp z = true) (o : Int) (a : Expr) (ha : NoNp a = true) :
    NoNp (simplifyAtZero z o a) = true := by
  unfold simplifyAtZero
  split
  · exact hz
  · simpa using ha

theorem dispatch_np (st : Bool) (f : Nat) (o : Int) (args : List Expr) (hargs : NoNpL args = true) :
    Rel QE (dispatch st f o args) (dispatch true f o args) := by
  match args, hargs with
  | [a, b], hargs =>
    have hab : NoNp a = true ∧ NoNp b = true := by simpa using hargs
    rw [dispatch.eq_1, dispatch.eq_1]
    split
    · exact (npAt st f).pow a b hab.1 hab.2
    · split
      · exact (npAt st f).prod _ hargs
      · split
        · exact (npAt st f).sum _ hargs
        · split
          · exact quotient_np st f a b hab.1 hab.2
          · split
            · exact difference_np st f a b hab.1 hab.2
            · split
              · unfold simplifySafePower
                exact (npAt st f).pow _ b (by simpa using hab.1) hab.2
              · exact Rel.throw
  | [a], hargs =>
    have ha : NoNp a = true := by simpa using hargs
    rw [dispatch.eq_2, dispatch.eq_2]
    split
    · exact Rel.pure (atZero_np NoNp_ZERO _ a ha)
    · split
      · exact Rel.pure (atZero_np NoNp_ONE _ a ha)
      · split
        · exact logarithm_np a ha
        · split
          · exact Rel.pure (atZero_np NoNp_ONE _ a ha)
          · split
            · exact Rel.pure (by simpa [QE] using ha)
            · split
              · exact Rel.pure (by simpa [QE] using ha)
              · split
                · exact Rel.pure (atZero_np NoNp_ZERO _ a ha)
                · split
                  · exact Rel.pure (atZero_np NoNp_ONE _ a ha)
                  · exact Rel.throw
  | [], _ =>
    rw [dispatch.eq_3 _ _ _ _ (by intro a b h; cases h) (by intro a h; cases h),
      dispatch.eq_3 _ _ _ _ (by intro a b h; cases h) (by intro a h; cases h)]
    exact Rel.throw
  | _ :: _ :: _ :: _, _ =>
    rw [dispatch.eq_3 _ _ _ _ (by intro a b h; cases h) (by intro a h; cases h),
      dispatch.eq_3 _ _ _ _ (by intro a b h; cases h) (by intro a h; cases h)]
    exact Rel.throw

theorem automaticSimplify_np_aux (st : Bool) (f : Nat) (e : Expr) :
    NoNp e = true → Rel QE (automaticSimplify st f e) (automaticSimplify true f e) := by
  induction e using Expr.rec (motive_2 := fun l => NoNpL l = true →
      Rel QL (automaticSimplifyList st f l) (automaticSimplifyList true f l)) with
  | term o v np =>
    intro h
    rw [automaticSimplify.eq_1, automaticSimplify.eq_1]; exact Rel.pure h
  | node o args ih =>
    intro h
    rw [automaticSimplify.eq_2, automaticSimplify.eq_2]
    exact Rel.bind (ih (by simpa using h)) (fun args' hargs' => dispatch_np st f o args' hargs')
  | nil => exact Rel.pure rfl
  | cons a as iha ihas =>
    rename_i h
    have hh : NoNp a = true ∧ NoNpL as = true := by simpa using h
    rw [automaticSimplifyList.eq_2, automaticSimplifyList.eq_2]
    refine Rel.bind (iha hh.1) (fun a' ha' => ?_)
    refine Rel.bind (ihas hh.2) (fun as' has' => ?_)
    exact Rel.pure (by simp [QL, ha', has'])

/-- on expressions all of whose integers are exact Python ints the strictness switch is irrelevant -/
theorem automaticSimplify_strict_irrelevant {st : Bool} {f : Nat} {e : Expr} (h : NoNp e = true) :
    automaticSimplify st f e = automaticSimplify true f e :=
  (automaticSimplify_np_aux st f e h).1

theorem automaticSimplify_noNp {f : Nat} {e e' : Expr} (h : NoNp e = true)
    (hr : automaticSimplify true f e = .ok e') : NoNp e' = true :=
  (automaticSimplify_np_aux true f e h).2 e' hr

/-! ## `buildCasExpression` produces exact integers only -/

theorem buildExpressionRec_noNp (s : Stack) : ∀ (fuel : Nat) (loc : Int) (np : Bool) (e : Expr),
    buildExpressionRec s fuel loc np = .ok e → NoNp e = true
  | 0, _, _, _, h => by rw [buildExpressionRec] at h; exact (throw_ok h).elim
  | fuel+1, loc, np, e, h => by
    rw [buildExpressionRec] at h
    split at h
    · exact (throw_ok h).elim
    · rename_i cmd _
      split at h
      · split at h
        · cases pure_ok h
          rename_i hc
          simp [NoNp, hc, CONSTANT, INTEGER]
        · split at h
          · cases pure_ok h; simp [NoNp]
          · rename_i hi
            cases pure_ok h
            simp [NoNp, hi]
      · obtain ⟨a, ha, h⟩ := bind_ok h
        have hna := buildExpressionRec_noNp s fuel _ _ a ha
        split at h
        · obtain ⟨b, hb, h⟩ := bind_ok h
          have hnb := buildExpressionRec_noNp s fuel _ _ b hb
          cases pure_ok h
          simp [hna, hnb]
        · cases pure_ok h
          simp [hna]
      · exact (throw_ok h).elim

theorem buildCasExpression_noNp {s : Stack} {e : Expr} (h : buildCasExpression s = .ok e) :
    NoNp e = true :=
  buildExpressionRec_noNp s _ _ _ e h

/-- for every stack the wrapping run and the strict run are the same computation -/
theorem simplifyWith_strict_irrelevant (s : Stack) : simplifyWith false s = simplifyWith true s := by
  unfold simplifyWith
  cases h : buildCasExpression s with
  | error e => rfl
  | ok e =>
    show (automaticSimplify false _ e >>= _) = (automaticSimplify true _ e >>= _)
    rw [automaticSimplify_strict_irrelevant (buildCasExpression_noNp h)]

end NoNpM
end Cas
end Bingo
