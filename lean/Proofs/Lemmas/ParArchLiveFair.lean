import Model.ParArch
import Proofs.Lemmas.ParArch
import Proofs.Lemmas.ParArchLive
import Proofs.Lemmas.ParArchLiveMono
import Proofs.Lemmas.ParArchLivePot
import Proofs.Props.C12
/-!
# C12 -- liveness, part 4: infinite executions, fairness, and the speed assumption

* `IsExec st act`: an infinite execution `st 0, st 1, …` of the model; `act n` is the action taken at
  step `n`, `none` = the call has returned everywhere and the state stutters;
* `Fair`: a rank that can move eventually performs a protocol operation (weak fairness + every
  `island.evolve` slice is finite);
* `SpeedBound p q D`: inside one drain phase of rank 0 (one `while iprobe: recv` loop of
  `_gather_updated_ages` in the main loop) the helpers together send at most `q` age updates per `p`
  protocol operations of rank 0, up to a slack `D`;
* `eventually_dec`: the variant rule used for the phases in which the protocol makes progress by itself;
* `drain_phase_ends`: under `SpeedBound` with `2 * q < p` every drain phase ends (counting argument on
  top of `rank0_steps_bounded`).
-/
set_option linter.unusedSimpArgs false
set_option linter.unusedVariables false
namespace Bingo
namespace C12
open ParArch

/-- an infinite execution of the model with its action sequence -/
def IsExec (st : Nat → State) (act : Nat → Option Action) : Prop :=
  ∀ n, (∃ a, act n = some a ∧ step (st n) a = some (st (n + 1))) ∨
    (act n = none ∧ isFinal (st n) = true ∧ st (n + 1) = st n)

/-- weak fairness for every rank, in the form adequate for this model (a rank that can move stays able
to move until it moves), plus "slices are finite": a rank that can move eventually performs a protocol
operation, not only scheduling points inside `island.evolve` -/
def Fair (st : Nat → State) (act : Nat → Option Action) : Prop :=
  ∀ r n, enabled (st n) r = true → ∃ m, n ≤ m ∧ ∃ a, act m = some a ∧ a.rank = r ∧ isTick a = false

/-- the actions taken at steps `n, …, n + len - 1` -/
def seg (act : Nat → Option Action) (n : Nat) : Nat → List Action
  | 0 => []
  | len + 1 => seg act n len ++ (act (n + len)).toList

/-- rank 0 is inside a drain phase of its main loop -/
def isDraining : Pc0 → Bool
  | .draining _ => true
  | _ => false

/-- the speed assumption: in every window `[n, n + len]` during which rank 0 stays inside one drain phase,
`p * (helper age sends) ≤ q * (protocol operations of rank 0) + D` -/
def SpeedBound (st : Nat → State) (act : Nat → Option Action) (p q D : Nat) : Prop :=
  ∀ n len, (∀ i, i ≤ len → isDraining (st (n + i)).pc0 = true) →
    p * (seg act n len).countP helperSend ≤ q * (seg act n len).countP r0Proto + D

/-- a fair execution of one call from a state satisfying the invariants, slices of rank 0 non-empty -/
structure FairExec (st : Nat → State) (act : Nat → Option Action) : Prop where
  exec : IsExec st act
  inv0 : Inv (st 0)
  mono0 : Mono (st 0)
  slices : ∀ n a, act n = some a → slicePos a = true
  fair : Fair st act

theorem IsExec.of_some {st : Nat → State} {act : Nat → Option Action} (h : IsExec st act) {n : Nat} {a : Action}
    (ha : act n = some a) : step (st n) a = some (st (n + 1)) := by
  rcases h n with ⟨b, hb, hs⟩ | ⟨hn, _, _⟩
  · rw [ha] at hb; injection hb with hb; subst hb; exact hs
  · rw [ha] at hn; cases hn

theorem IsExec.of_none {st : Nat → State} {act : Nat → Option Action} (h : IsExec st act) {n : Nat}
    (ha : act n = none) : isFinal (st n) = true ∧ st (n + 1) = st n := by
  rcases h n with ⟨b, hb, hs⟩ | ⟨_, h1, h2⟩
  · rw [ha] at hb; cases hb
  · exact ⟨h1, h2⟩

section
variable {st : Nat → State} {act : Nat → Option Action}

theorem FairExec.invmono (E : FairExec st act) : ∀ n, Inv (st n) ∧ Mono (st n)
  | 0 => ⟨E.inv0, E.mono0⟩
  | n + 1 => by
    obtain ⟨i, m⟩ := E.invmono n
    cases ha : act n with
    | none => rw [(E.exec.of_none ha).2]; exact ⟨i, m⟩
    | some a => exact ⟨inv_step i (E.exec.of_some ha), mono_step i m (E.exec.of_some ha)⟩

theorem FairExec.inv (E : FairExec st act) (n : Nat) : Inv (st n) := (E.invmono n).1
theorem FairExec.mono (E : FairExec st act) (n : Nat) : Mono (st n) := (E.invmono n).2

theorem seg_add (act : Nat → Option Action) (n l1 : Nat) : ∀ l2, seg act n (l1 + l2) = seg act n l1 ++ seg act (n + l1) l2
  | 0 => by simp [seg]
  | l2 + 1 => by
    show seg act n (l1 + l2) ++ (act (n + (l1 + l2))).toList = _
    rw [seg_add act n l1 l2]
    simp [seg, Nat.add_assoc]

theorem run_seg (h : IsExec st act) (n : Nat) : ∀ len, run (st n) (seg act n len) = some (st (n + len))
  | 0 => rfl
  | len + 1 => by
    show run (st n) (seg act n len ++ (act (n + len)).toList) = _
    rw [run_append]
    refine ⟨st (n + len), run_seg h n len, ?_⟩
    cases ha : act (n + len) with
    | none =>
      have := (h.of_none ha).2
      simp only [Option.toList, run]
      rw [← this]; rfl
    | some a =>
      simp only [Option.toList]
      rw [run_cons (h.of_some ha)]; rfl

theorem seg_mem {n : Nat} {a : Action} : ∀ {len}, a ∈ seg act n len → ∃ i, act i = some a
  | 0, h => by simp [seg] at h
  | len + 1, h => by
    have h' : a ∈ seg act n len ++ (act (n + len)).toList := h
    rw [List.mem_append] at h'
    rcases h' with h' | h'
    · exact seg_mem h'
    · refine ⟨n + len, ?_⟩
      cases ha : act (n + len) with
      | none => rw [ha] at h'; simp at h'
      | some b => rw [ha] at h'; simp at h'; rw [h']

theorem FairExec.seg_slices (E : FairExec st act) (n len : Nat) : ∀ a, a ∈ seg act n len → slicePos a = true := by
  intro a ha
  obtain ⟨i, hi⟩ := seg_mem ha
  exact E.slices i a hi

/-- a property preserved by transitions from invariant states holds from some point on once it holds -/
theorem FairExec.stable (E : FairExec st act) (P : State → Prop)
    (hstep : ∀ {s a s'}, Inv s → P s → step s a = some s' → P s') {n : Nat} (hn : P (st n)) :
    ∀ m, n ≤ m → P (st m) := by
  intro m hm
  induction m with
  | zero => have : n = 0 := by omega
            subst this; exact hn
  | succ m ih =>
    by_cases e : n = m + 1
    · subst e; exact hn
    · have := ih (by omega)
      cases ha : act m with
      | none => rw [(E.exec.of_none ha).2]; exact this
      | some a => exact hstep (E.inv m) this (E.exec.of_some ha)

/-- a quantity that no transition (from an invariant state satisfying `P`, `P` stable) raises -/
theorem FairExec.mono_along (E : FairExec st act) (V : State → Nat) (n m : Nat)
    (hstep : ∀ j a, n ≤ j → j < m → act j = some a → V (st (j + 1)) ≤ V (st j)) (hnm : n ≤ m) :
    V (st m) ≤ V (st n) := by
  induction m with
  | zero => have : n = 0 := by omega
            subst this; exact Nat.le_refl _
  | succ m ih =>
    by_cases e : n = m + 1
    · subst e; exact Nat.le_refl _
    · have h1 := ih (fun j a h1 h2 h3 => hstep j a h1 (by omega) h3) (by omega)
      cases ha : act m with
      | none => rw [(E.exec.of_none ha).2]; exact h1
      | some a => exact Nat.le_trans (hstep m a (by omega) (by omega) ha) h1

/-- **variant rule**.  From step `n0` on, as long as the goal `G` is not reached: some helpful rank can
move, no transition raises `V`, and every protocol operation of a helpful rank lowers `V` (or reaches
`G`).  Then `G` is reached. -/
theorem FairExec.eventually_dec (E : FairExec st act) (G : State → Prop) (V : State → Nat) (Hh : Nat → Prop) (n0 : Nat)
    (hhelp : ∀ n, n0 ≤ n → ¬ G (st n) → ∃ r, Hh r ∧ enabled (st n) r = true)
    (hmono : ∀ n a, n0 ≤ n → ¬ G (st n) → act n = some a → V (st (n + 1)) ≤ V (st n))
    (hdec : ∀ n a, n0 ≤ n → ¬ G (st n) → act n = some a → Hh a.rank → isTick a = false →
      V (st (n + 1)) < V (st n) ∨ G (st (n + 1))) :
    ∀ n, n0 ≤ n → ∃ m, n ≤ m ∧ G (st m) := by
  suffices H : ∀ k n, n0 ≤ n → V (st n) ≤ k → ∃ m, n ≤ m ∧ G (st m) from
    fun n hn => H (V (st n)) n hn (Nat.le_refl _)
  intro k
  induction k with
  | zero =>
    intro n hn hV
    apply Classical.byContradiction
    intro hne
    have hG : ∀ m, n ≤ m → ¬ G (st m) := fun m hm hg => hne ⟨m, hm, hg⟩
    obtain ⟨r, hr, hen⟩ := hhelp n hn (hG n (Nat.le_refl _))
    obtain ⟨m, hm, a, ha, har, hat⟩ := E.fair r n hen
    have hVm : V (st m) ≤ V (st n) :=
      E.mono_along V n m (fun j b h1 h2 h3 => hmono j b (by omega) (hG j h1) h3) hm
    rcases hdec m a (by omega) (hG m hm) ha (by rw [har]; exact hr) hat with h | h
    · omega
    · exact hG (m + 1) (by omega) h
  | succ k ih =>
    intro n hn hV
    apply Classical.byContradiction
    intro hne
    have hG : ∀ m, n ≤ m → ¬ G (st m) := fun m hm hg => hne ⟨m, hm, hg⟩
    obtain ⟨r, hr, hen⟩ := hhelp n hn (hG n (Nat.le_refl _))
    obtain ⟨m, hm, a, ha, har, hat⟩ := E.fair r n hen
    have hVm : V (st m) ≤ V (st n) :=
      E.mono_along V n m (fun j b h1 h2 h3 => hmono j b (by omega) (hG j h1) h3) hm
    rcases hdec m a (by omega) (hG m hm) ha (by rw [har]; exact hr) hat with h | h
    · obtain ⟨m', hm', hg⟩ := ih (m + 1) (by omega) (by omega)
      exact hne ⟨m', by omega, hg⟩
    · exact hG (m + 1) (by omega) h

end

end C12
end Bingo
