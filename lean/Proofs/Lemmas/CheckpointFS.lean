import Model.Checkpoint
/-!
# C13 helper lemmas, part 1: the file-system step model

The disk is only observed through `completeCkpts` (ages of complete, loadable checkpoints) and
`ckptFiles` (ages of all checkpoint files); the lemmas here say what each step does to them.
-/
namespace Bingo
namespace Checkpoint

theorem completeCkpts_filter_temp (fs : FS) (a : Nat) :
    completeCkpts (fs.filter (·.1 ≠ .temp a)) = completeCkpts fs := by
  induction fs with
  | nil => rfl
  | cons x xs ih =>
    obtain ⟨f, c⟩ := x
    unfold completeCkpts at ih ⊢
    cases f <;> cases c <;> simp [List.filter_cons] at ih ⊢ <;> (try split) <;> simp_all

theorem ckptFiles_filter_temp (fs : FS) (a : Nat) :
    ckptFiles (fs.filter (·.1 ≠ .temp a)) = ckptFiles fs := by
  induction fs with
  | nil => rfl
  | cons x xs ih =>
    obtain ⟨f, c⟩ := x
    unfold ckptFiles at ih ⊢
    cases f <;> simp [List.filter_cons] at ih ⊢ <;> (try split) <;> simp_all

theorem completeCkpts_filter_ckpt (fs : FS) (a : Nat) :
    completeCkpts (fs.filter (·.1 ≠ .ckpt a)) = (completeCkpts fs).filter (· ≠ a) := by
  induction fs with
  | nil => rfl
  | cons x xs ih =>
    obtain ⟨f, c⟩ := x
    unfold completeCkpts at ih ⊢
    cases f <;> cases c <;> simp [List.filter_cons] at ih ⊢ <;> (try split) <;> simp_all

theorem ckptFiles_filter_ckpt (fs : FS) (a : Nat) :
    ckptFiles (fs.filter (·.1 ≠ .ckpt a)) = (ckptFiles fs).filter (· ≠ a) := by
  induction fs with
  | nil => rfl
  | cons x xs ih =>
    obtain ⟨f, c⟩ := x
    unfold ckptFiles at ih ⊢
    cases f <;> simp [List.filter_cons] at ih ⊢ <;> (try split) <;> simp_all

/-! ### what one step does to the observed lists -/

theorem completeCkpts_fsSet_temp (fs : FS) (a : Nat) (c : Bool) :
    completeCkpts (fsSet fs (.temp a) c) = completeCkpts fs := by
  unfold fsSet; rw [← completeCkpts_filter_temp fs a]; rfl

theorem ckptFiles_fsSet_temp (fs : FS) (a : Nat) (c : Bool) :
    ckptFiles (fsSet fs (.temp a) c) = ckptFiles fs := by
  unfold fsSet; rw [← ckptFiles_filter_temp fs a]; rfl

theorem completeCkpts_fsDel_temp (fs : FS) (a : Nat) :
    completeCkpts (fsDel fs (.temp a)) = completeCkpts fs := completeCkpts_filter_temp fs a

theorem ckptFiles_fsDel_temp (fs : FS) (a : Nat) :
    ckptFiles (fsDel fs (.temp a)) = ckptFiles fs := ckptFiles_filter_temp fs a

theorem completeCkpts_fsSet_ckpt_true (fs : FS) (a : Nat) :
    completeCkpts (fsSet fs (.ckpt a) true) = a :: (completeCkpts fs).filter (· ≠ a) := by
  unfold fsSet; rw [← completeCkpts_filter_ckpt fs a]; rfl

theorem completeCkpts_fsSet_ckpt_false (fs : FS) (a : Nat) :
    completeCkpts (fsSet fs (.ckpt a) false) = (completeCkpts fs).filter (· ≠ a) := by
  unfold fsSet; rw [← completeCkpts_filter_ckpt fs a]; rfl

theorem ckptFiles_fsSet_ckpt (fs : FS) (a : Nat) (c : Bool) :
    ckptFiles (fsSet fs (.ckpt a) c) = a :: (ckptFiles fs).filter (· ≠ a) := by
  unfold fsSet; rw [← ckptFiles_filter_ckpt fs a]; rfl

theorem completeCkpts_fsDel_ckpt (fs : FS) (a : Nat) :
    completeCkpts (fsDel fs (.ckpt a)) = (completeCkpts fs).filter (· ≠ a) :=
  completeCkpts_filter_ckpt fs a

theorem ckptFiles_fsDel_ckpt (fs : FS) (a : Nat) :
    ckptFiles (fsDel fs (.ckpt a)) = (ckptFiles fs).filter (· ≠ a) := ckptFiles_filter_ckpt fs a

theorem fsGet_fsSet_self (fs : FS) (f : FName) (c : Bool) : fsGet (fsSet fs f c) f = some c := by
  simp [fsGet, fsSet]

theorem mem_ckptFiles_iff (fs : FS) (a : Nat) : a ∈ ckptFiles fs ↔ ∃ c, (FName.ckpt a, c) ∈ fs := by
  unfold ckptFiles
  simp only [List.mem_filterMap]
  constructor
  · rintro ⟨⟨f, c⟩, hmem, h⟩
    cases f <;> simp at h
    subst h; exact ⟨c, hmem⟩
  · rintro ⟨c, hmem⟩; exact ⟨_, hmem, rfl⟩

theorem mem_completeCkpts_iff (fs : FS) (a : Nat) :
    a ∈ completeCkpts fs ↔ (FName.ckpt a, true) ∈ fs := by
  unfold completeCkpts
  simp only [List.mem_filterMap]
  constructor
  · rintro ⟨⟨f, c⟩, hmem, h⟩
    cases f <;> cases c <;> simp at h
    subst h; exact hmem
  · intro hmem; exact ⟨_, hmem, rfl⟩

theorem completeCkpts_subset_ckptFiles {fs : FS} {a : Nat} (h : a ∈ completeCkpts fs) :
    a ∈ ckptFiles fs :=
  (mem_ckptFiles_iff fs a).2 ⟨true, (mem_completeCkpts_iff fs a).1 h⟩

theorem fsGet_isSome_of_mem {fs : FS} {f : FName} {c : Bool} (h : (f, c) ∈ fs) :
    ∃ c', fsGet fs f = some c' := by
  unfold fsGet
  cases hfind : fs.find? (·.1 = f) with
  | some x => exact ⟨x.2, rfl⟩
  | none =>
    rw [List.find?_eq_none] at hfind
    have := hfind _ h
    simp at this

theorem fsGet_isSome_of_mem_ckptFiles {fs : FS} {a : Nat} (h : a ∈ ckptFiles fs) :
    ∃ c, fsGet fs (.ckpt a) = some c := by
  obtain ⟨c, hc⟩ := (mem_ckptFiles_iff fs a).1 h
  exact fsGet_isSome_of_mem hc

theorem fsRun_append (fs : FS) (p q : List FOp) :
    fsRun fs (p ++ q) = (fsRun fs p).bind (fun fs' => fsRun fs' q) := by
  induction p generalizing fs with
  | nil => rfl
  | cons op rest ih =>
    simp only [List.cons_append, fsRun]
    cases fsStep fs op with
    | none => rfl
    | some fs' => exact ih fs'

/-! ### the states inside one `dump_to_file` (temp file, then atomic rename) -/

theorem dumpOps_eq (a : Nat) :
    dumpOps a = [.openW (.temp a), .finish (.temp a), .rename (.temp a) (.ckpt a)] := rfl

/-- the three states of a dump, seen through `completeCkpts` / `ckptFiles` -/
theorem dump_states (fs : FS) (a : Nat) :
    ∃ fs1 fs2 fs3,
      fsRun fs [.openW (.temp a)] = some fs1 ∧
      fsRun fs [.openW (.temp a), .finish (.temp a)] = some fs2 ∧
      fsRun fs (dumpOps a) = some fs3 ∧
      completeCkpts fs1 = completeCkpts fs ∧ ckptFiles fs1 = ckptFiles fs ∧
      completeCkpts fs2 = completeCkpts fs ∧ ckptFiles fs2 = ckptFiles fs ∧
      completeCkpts fs3 = a :: (completeCkpts fs).filter (· ≠ a) ∧
      ckptFiles fs3 = a :: (ckptFiles fs).filter (· ≠ a) := by
  refine ⟨fsSet fs (.temp a) false, fsSet (fsSet fs (.temp a) false) (.temp a) true,
    fsSet (fsDel (fsSet (fsSet fs (.temp a) false) (.temp a) true) (.temp a)) (.ckpt a) true,
    rfl, rfl, ?_, ?_, ?_, ?_, ?_, ?_, ?_⟩
  · simp [dumpOps_eq, fsRun, fsStep, fsGet_fsSet_self]
  · rw [completeCkpts_fsSet_temp]
  · rw [ckptFiles_fsSet_temp]
  · rw [completeCkpts_fsSet_temp, completeCkpts_fsSet_temp]
  · rw [ckptFiles_fsSet_temp, ckptFiles_fsSet_temp]
  · rw [completeCkpts_fsSet_ckpt_true, completeCkpts_fsDel_temp, completeCkpts_fsSet_temp,
      completeCkpts_fsSet_temp]
  · rw [ckptFiles_fsSet_ckpt, ckptFiles_fsDel_temp, ckptFiles_fsSet_temp, ckptFiles_fsSet_temp]

theorem remove_state {fs : FS} {a : Nat} (h : a ∈ ckptFiles fs) :
    ∃ fs', fsRun fs [.remove (.ckpt a)] = some fs' ∧
      completeCkpts fs' = (completeCkpts fs).filter (· ≠ a) ∧
      ckptFiles fs' = (ckptFiles fs).filter (· ≠ a) := by
  obtain ⟨c, hc⟩ := fsGet_isSome_of_mem_ckptFiles h
  refine ⟨fsDel fs (.ckpt a), ?_, completeCkpts_fsDel_ckpt fs a, ckptFiles_fsDel_ckpt fs a⟩
  simp [fsRun, fsStep, hc]

end Checkpoint
end Bingo
