import Model.StringsTok
import Proofs.Lemmas.StrTrees
/-!
# The row-by-row sympy printer prints the tree of the last row (C16, core only, no Mathlib)

`Str.format .sympy` sweeps the command array and interpolates the strings of earlier ROWS (a DAG);
`Str.sympyStr` prints the unfolded TREE through the same templates.  On `WFEval` stacks they agree
(`format_eq_tree`).  Loop invariant (`formattedLoop_eq`): `strList` is the list of the `sympyStr` of the
trees of the rows processed so far.  Helper lemmas live in `Bingo.Str.StrFormat`.
-/
namespace Bingo.Str
open Bingo.Str.Tables Gen.OpDefs ETree

namespace StrFormat

theorem ok_okOr {e : Except String String} (h : ∃ x, e = .ok x) : e = .ok (okOr e) := by
  obtain ⟨x, rfl⟩ := h; rfl

theorem pyGet_map {α β : Type} (f : α → β) (xs : List α) (d : α) (p : Int) (h0 : 0 ≤ p)
    (h1 : p.toNat < xs.length) : pyGet (xs.map f) p = .ok (f (xs[p.toNat]?.getD d)) := by
  unfold pyGet
  rw [List.length_map, pyIdx_of_lt h0 h1]
  simp [h1]
  rfl

theorem pyGet_ok {α : Type} (xs : List α) (p : Int) (h0 : 0 ≤ p)
    (h1 : p.toNat < xs.length) : ∃ x, pyGet xs p = .ok x := by
  unfold pyGet
  rw [pyIdx_of_lt h0 h1]
  simp [h1]
  exact ⟨_, rfl⟩

theorem pyGet_last {α β : Type} (f : α → β) (xs : List α) (d : α) (h : xs ≠ []) :
    pyGet (xs.map f) (-1) = .ok (f (xs[xs.length - 1]?.getD d)) := by
  have hl : 0 < xs.length := List.length_pos_iff.mpr h
  have : pyIdx (xs.map f).length (-1) = some (xs.length - 1) := by
    simp [pyIdx]; omega
  unfold pyGet
  rw [this]
  have h2 : xs.length - 1 < xs.length := by omega
  simp [h2]
  rfl

theorem term_false (n : Int) (h : Ops.isTerminal n = some false) :
    n = 2 ∨ n = 3 ∨ n = 4 ∨ n = 5 ∨ n = 6 ∨ n = 7 ∨ n = 14 ∨ n = 15 ∨ n = 8 ∨ n = 9 ∨ n = 10 ∨
      n = 11 ∨ n = 12 ∨ n = 13 := by
  unfold Ops.isTerminal isTerminalTbl at h
  simp only [List.lookup] at h
  repeat (split at h; · first | (cases h; done) | (simp_all; done))
  cases h

theorem var_ok (a : String) : ∃ x, pyFormat VARIABLE_TEMPLATE [a] = .ok x := by
  have : VARIABLE_TEMPLATE.toList = ['X','_','{','}'] := by decide
  simp only [pyFormat, this]
  exact ⟨_, rfl⟩

/-- what an operator row needs from the tables -/
def OpSpec (n : Int) (a b : String) : Prop :=
  ∃ tmpl, SYMPY_PRINT_MAP.lookup n = some tmpl ∧
    ((Ops.isArity2 n = some false ∧ pyFormat tmpl [a, b] = .ok (okOr (pyFormat tmpl [a]))) ∨
     (Ops.isArity2 n = some true ∧ pyFormat tmpl [a, b] = .ok (okOr (pyFormat tmpl [a, b]))))

theorem opSpec_ADDITION (a b : String) : OpSpec 2 a b := by
  have ht : "{} + {}".toList = ['{','}',' ','+',' ','{','}'] := by decide
  refine ⟨"{} + {}", by decide, Or.inr ⟨by decide, ?_⟩⟩
  simp only [pyFormat, ht]
  rfl

theorem opSpec_SUBTRACTION (a b : String) : OpSpec 3 a b := by
  have ht : "{} - ({})".toList = ['{','}',' ','-',' ','(','{','}',')'] := by decide
  refine ⟨"{} - ({})", by decide, Or.inr ⟨by decide, ?_⟩⟩
  simp only [pyFormat, ht]
  rfl

theorem opSpec_MULTIPLICATION (a b : String) : OpSpec 4 a b := by
  have ht : "({})*({})".toList = ['(','{','}',')','*','(','{','}',')'] := by decide
  refine ⟨"({})*({})", by decide, Or.inr ⟨by decide, ?_⟩⟩
  simp only [pyFormat, ht]
  rfl

theorem opSpec_DIVISION (a b : String) : OpSpec 5 a b := by
  have ht : "({})/({})".toList = ['(','{','}',')','/','(','{','}',')'] := by decide
  refine ⟨"({})/({})", by decide, Or.inr ⟨by decide, ?_⟩⟩
  simp only [pyFormat, ht]
  rfl

theorem opSpec_SIN (a b : String) : OpSpec 6 a b := by
  have ht : "sin({})".toList = ['s','i','n','(','{','}',')'] := by decide
  refine ⟨"sin({})", by decide, Or.inl ⟨by decide, ?_⟩⟩
  simp only [pyFormat, ht]
  rfl

theorem opSpec_COS (a b : String) : OpSpec 7 a b := by
  have ht : "cos({})".toList = ['c','o','s','(','{','}',')'] := by decide
  refine ⟨"cos({})", by decide, Or.inl ⟨by decide, ?_⟩⟩
  simp only [pyFormat, ht]
  rfl

theorem opSpec_SINH (a b : String) : OpSpec 14 a b := by
  have ht : "sinh({})".toList = ['s','i','n','h','(','{','}',')'] := by decide
  refine ⟨"sinh({})", by decide, Or.inl ⟨by decide, ?_⟩⟩
  simp only [pyFormat, ht]
  rfl

theorem opSpec_COSH (a b : String) : OpSpec 15 a b := by
  have ht : "cosh({})".toList = ['c','o','s','h','(','{','}',')'] := by decide
  refine ⟨"cosh({})", by decide, Or.inl ⟨by decide, ?_⟩⟩
  simp only [pyFormat, ht]
  rfl

theorem opSpec_EXPONENTIAL (a b : String) : OpSpec 8 a b := by
  have ht : "exp({})".toList = ['e','x','p','(','{','}',')'] := by decide
  refine ⟨"exp({})", by decide, Or.inl ⟨by decide, ?_⟩⟩
  simp only [pyFormat, ht]
  rfl

theorem opSpec_LOGARITHM (a b : String) : OpSpec 9 a b := by
  have ht : "log({})".toList = ['l','o','g','(','{','}',')'] := by decide
  refine ⟨"log({})", by decide, Or.inl ⟨by decide, ?_⟩⟩
  simp only [pyFormat, ht]
  rfl

theorem opSpec_POWER (a b : String) : OpSpec 10 a b := by
  have ht : "({})**({})".toList = ['(','{','}',')','*','*','(','{','}',')'] := by decide
  refine ⟨"({})**({})", by decide, Or.inr ⟨by decide, ?_⟩⟩
  simp only [pyFormat, ht]
  rfl

theorem opSpec_ABS (a b : String) : OpSpec 11 a b := by
  have ht : "abs({})".toList = ['a','b','s','(','{','}',')'] := by decide
  refine ⟨"abs({})", by decide, Or.inl ⟨by decide, ?_⟩⟩
  simp only [pyFormat, ht]
  rfl

theorem opSpec_SQRT (a b : String) : OpSpec 12 a b := by
  have ht : "sqrt({})".toList = ['s','q','r','t','(','{','}',')'] := by decide
  refine ⟨"sqrt({})", by decide, Or.inl ⟨by decide, ?_⟩⟩
  simp only [pyFormat, ht]
  rfl

theorem opSpec_SAFE_POWER (a b : String) : OpSpec 13 a b := by
  have ht : "abs({})**({})".toList = ['a','b','s','(','{','}',')','*','*','(','{','}',')'] := by decide
  refine ⟨"abs({})**({})", by decide, Or.inr ⟨by decide, ?_⟩⟩
  simp only [pyFormat, ht]
  rfl

theorem opSpec_of_terminal_false (n : Int) (h : Ops.isTerminal n = some false) (a b : String) :
    OpSpec n a b := by
  rcases term_false n h with rfl | rfl | rfl | rfl | rfl | rfl | rfl | rfl | rfl | rfl | rfl | rfl | rfl | rfl
  · exact opSpec_ADDITION a b
  · exact opSpec_SUBTRACTION a b
  · exact opSpec_MULTIPLICATION a b
  · exact opSpec_DIVISION a b
  · exact opSpec_SIN a b
  · exact opSpec_COS a b
  · exact opSpec_SINH a b
  · exact opSpec_COSH a b
  · exact opSpec_EXPONENTIAL a b
  · exact opSpec_LOGARITHM a b
  · exact opSpec_POWER a b
  · exact opSpec_ABS a b
  · exact opSpec_SQRT a b
  · exact opSpec_SAFE_POWER a b

theorem not_leaf_of_terminal_false (n : Int) (h : Ops.isTerminal n = some false) :
    (n == VARIABLE) = false ∧ (n == CONSTANT) = false ∧ (n == INTEGER) = false := by
  rcases term_false n h with rfl | rfl | rfl | rfl | rfl | rfl | rfl | rfl | rfl | rfl | rfl | rfl | rfl | rfl <;> decide

theorem bind_ok {α β : Type} (x : α) (f : α → Except String β) : (Except.ok x >>= f) = f x := rfl

/-- one row: the element printer prints the tree of the row -/
theorem formattedElement_row (consts : List String) (D L N : Nat) (acc : List ETree) (cmd : Cmd)
    (hc : consts.length = L) (hrow : WF.rowOK D (some L) none acc.length cmd = true)
    (hN : acc.length ≤ N) :
    formattedElement SYMPY_PRINT_MAP consts (acc.map (sympyStr consts)) cmd =
      .ok (sympyStr consts (rowTree N acc cmd)) := by
  unfold WF.rowOK at hrow
  split at hrow
  · next ht ha =>
    simp only [rowTree, ht, ha, sympyStr, leafStr, formattedElement]
    by_cases hv : cmd.node = VARIABLE
    · simp only [hv, beq_self_eq_true, if_true]
      exact ok_okOr (var_ok _)
    · have hv' : (cmd.node == VARIABLE) = false := by simpa using hv
      simp only [hv, hv', if_false] at hrow ⊢
      by_cases hk : cmd.node = CONSTANT
      · simp only [hk, if_true, Bool.and_eq_true, decide_eq_true_eq] at hrow
        have hno : constHasNoValue consts cmd.p1 = false := by
          simp [constHasNoValue]; omega
        simp only [hk, beq_self_eq_true, if_true, hno]
        exact ok_okOr (pyGet_ok _ _ hrow.1 (by omega))
      · have hk' : (cmd.node == CONSTANT) = false := by simpa using hk
        simp only [hk, hk', if_false, decide_eq_true_eq] at hrow ⊢
        simp only [hrow, beq_self_eq_true, if_true]
        rfl
  · next b ht ha =>
    simp only [Bool.and_eq_true, decide_eq_true_eq, and_true] at hrow
    obtain ⟨⟨⟨h1, h2⟩, h3⟩, h4⟩ := hrow
    obtain ⟨hv, hk, hi⟩ := not_leaf_of_terminal_false _ ht
    obtain ⟨tmpl, hl, hs⟩ := opSpec_of_terminal_false _ ht
      (sympyStr consts (getT N acc cmd.p1)) (sympyStr consts (getT N acc cmd.p2))
    have g1 := StrTrees.getT_eq (N := N) (acc := acc) h1 (by omega) hN
    have g2 := StrTrees.getT_eq (N := N) (acc := acc) h3 (by omega) hN
    have e1 := pyGet_map (sympyStr consts) acc bad cmd.p1 h1 (by omega)
    have e2 := pyGet_map (sympyStr consts) acc bad cmd.p2 h3 (by omega)
    rw [← g1] at e1
    rw [← g2] at e2
    simp only [formattedElement, hv, hk, hi, pyLookup, hl, e1, e2]
    rcases hs with ⟨ha', hf⟩ | ⟨ha', hf⟩
    · simp only [rowTree, ht, ha', sympyStr, hl]
      exact hf
    · simp only [rowTree, ht, ha', sympyStr, hl]
      exact hf
  · cases hrow

/-- the loop invariant: `strList` is the list of the strings of the trees of the rows processed so far -/
theorem formattedLoop_eq (consts : List String) (D L N : Nat) (hc : consts.length = L)
    (rest : List Cmd) (acc : List ETree)
    (h : WF.rowsOK D (some L) none acc.length rest = true) (hN : acc.length + rest.length ≤ N) :
    formattedLoop SYMPY_PRINT_MAP consts rest (acc.map (sympyStr consts)) =
      .ok ((treesAux N rest acc).map (sympyStr consts)) := by
  induction rest generalizing acc with
  | nil => rfl
  | cons cmd rest ih =>
    simp only [WF.rowsOK, Bool.and_eq_true] at h
    simp only [List.length_cons] at hN
    simp only [formattedLoop, treesAux]
    rw [formattedElement_row consts D L N acc cmd hc h.1 (by omega), bind_ok]
    have e : List.map (sympyStr consts) acc ++ [sympyStr consts (rowTree N acc cmd)] =
        List.map (sympyStr consts) (acc ++ [rowTree N acc cmd]) := by simp
    rw [e]
    apply ih
    · simpa using h.2
    · simp; omega

end StrFormat

open StrFormat in
/-- the row-by-row sympy printer prints the tree of the last row (DAG versus tree) -/
theorem format_eq_tree (D L : Nat) (s : Stack) (consts : List String) (h : WF.WFEval D L s)
    (hc : consts.length = L) :
    Str.format .sympy s consts = .ok (sympyStr consts (ETree.ofStack s)) := by
  unfold WF.WFEval WF.wf at h
  simp only [Bool.and_eq_true, Bool.not_eq_true', List.isEmpty_eq_false_iff] at h
  obtain ⟨hne, hrows⟩ := h
  have hloop := formattedLoop_eq consts D L s.length hc s [] (by simpa using hrows) (by simp)
  simp only [List.map_nil] at hloop
  have hne' : trees s ≠ [] := by
    intro e
    have := StrTrees.trees_length s
    rw [e] at this
    exact hne (List.length_eq_zero_iff.mp this.symm)
  simp only [format, Fmt.dict]
  rw [hloop, bind_ok]
  have := pyGet_last (sympyStr consts) (trees s) bad hne'
  rw [StrTrees.trees_length] at this
  rw [StrTrees.ofStack_eq_last]
  exact this

/-! ## non-vacuity: row 2 is shared by both parameters of row 3 -/

private def s0 : Stack := [⟨0, 0, 0⟩, ⟨1, 0, 0⟩, ⟨2, 0, 1⟩, ⟨4, 2, 2⟩, ⟨6, 3, 3⟩]
example : WF.WFEval 1 1 s0 := by decide
example : format .sympy s0 ["2.5"] = .ok "sin((X_0 + 2.5)*(X_0 + 2.5))" := by rfl
example : sympyStr ["2.5"] (ETree.ofStack s0) = "sin((X_0 + 2.5)*(X_0 + 2.5))" := by decide

end Bingo.Str
