import Model.Tree
import Proofs.Lemmas.Tables
/-!
# The DAG sweep equals tree evaluation (core only, no Mathlib)
-/
namespace Bingo
namespace FwdDen
open ETree
variable {α : Type} [Scalar α]

theorem lookupFwd_eq_den (N : Nat) (x c acc : List α) (accT : List ETree) (p : Int)
    (h : accT.map (den x c) = acc.map some) :
    Eval.lookupFwd N acc p = den x c (getT N accT p) := by
  unfold Eval.lookupFwd getT
  cases pyIdx N p with
  | none => simp [den]
  | some j =>
    have hj : (accT.map (den x c))[j]? = (acc.map some)[j]? := by rw [h]
    simp only [List.getElem?_map] at hj
    simp only [Option.bind_some]
    cases hT : accT[j]? with
    | none =>
      cases hA : acc[j]? with
      | none => simp [den]
      | some v => simp [hT, hA] at hj
    | some t =>
      cases hA : acc[j]? with
      | none => simp [hT, hA] at hj
      | some v => simpa [hT, hA] using hj.symm

/-- one row: interpreting the rule in the sweep's context = evaluating the row's tree -/
theorem fwdRow_eq_den (N : Nat) (x c acc : List α) (accT : List ETree) (cmd : Cmd)
    (h : accT.map (den x c) = acc.map some) :
    Eval.fwdRow N x c acc cmd = den x c (rowTree N accT cmd) := by
  unfold Eval.fwdRow
  cases hr : Eval.fwdRule cmd.node with
  | none =>
    show none = _
    unfold rowTree
    split <;> simp [den, hr]
  | some rule =>
    obtain ⟨_, sh⟩ := Tables.shape_of_fwdRule hr
    cases sh with
    | term ht ha hreads =>
      simp only [rowTree, ht, ha, den, hr]
      apply RExpr.interp_congr
      intro d hd
      have := hreads d hd
      cases d <;> first | rfl | simp [Dep.term] at this
    | ar1 ht ha hreads =>
      simp only [rowTree, ht, ha, den, hr]
      apply RExpr.interp_congr
      intro d hd
      have := hreads d hd
      cases d with
      | fwd r =>
        cases r with
        | p1 => exact lookupFwd_eq_den N x c acc accT cmd.p1 h
        | _ => simp [Dep.ar1] at this
      | _ => simp [Dep.ar1] at this
    | ar2 ht ha hreads =>
      simp only [rowTree, ht, ha, den, hr]
      apply RExpr.interp_congr
      intro d hd
      have := hreads d hd
      cases d with
      | fwd r =>
        cases r with
        | p1 => exact lookupFwd_eq_den N x c acc accT cmd.p1 h
        | p2 => exact lookupFwd_eq_den N x c acc accT cmd.p2 h
        | self => simp [Dep.ar2] at this
      | _ => simp [Dep.ar2] at this

theorem treesAux_prefix (N : Nat) (rest : List Cmd) (accT : List ETree) :
    ∃ ext, treesAux N rest accT = accT ++ ext := by
  induction rest generalizing accT with
  | nil => exact ⟨[], by simp [treesAux]⟩
  | cons cmd rest ih =>
    obtain ⟨ext, he⟩ := ih (accT ++ [rowTree N accT cmd])
    exact ⟨rowTree N accT cmd :: ext, by simp [treesAux, he]⟩

theorem fwdAux_eq_den (N : Nat) (x c : List α) (rest : List Cmd) (acc : List α)
    (accT : List ETree) (h : accT.map (den x c) = acc.map some) :
    Eval.fwdAux N x c rest acc = (treesAux N rest accT).mapM (den x c) := by
  induction rest generalizing acc accT with
  | nil =>
    simp only [Eval.fwdAux, treesAux]
    exact (ListAux.mapM_eq_some_iff.mpr h).symm
  | cons cmd rest ih =>
    simp only [Eval.fwdAux, treesAux]
    have hrow := fwdRow_eq_den N x c acc accT cmd h
    cases hv : Eval.fwdRow N x c acc cmd with
    | none =>
      obtain ⟨ext, he⟩ := treesAux_prefix N rest (accT ++ [rowTree N accT cmd])
      rw [he]
      exact (ListAux.mapM_append_none_left (ListAux.mapM_concat_none (hrow ▸ hv))).symm
    | some v =>
      apply ih
      rw [hv] at hrow
      simp [h, ← hrow]

theorem fwd_eq_den (s : Stack) (x c : List α) :
    Eval.fwd s x c = (trees s).mapM (den x c) :=
  fwdAux_eq_den s.length x c s [] [] rfl

theorem evalLast_eq_den (s : Stack) (x c : List α) (vs : List α)
    (h : Eval.fwd s x c = some vs) :
    Eval.evalLast s x c = den x c (ofStack s) := by
  have h1 : (trees s).map (den x c) = vs.map some :=
    ListAux.mapM_eq_some_iff.mp ((fwd_eq_den s x c).symm.trans h)
  have h2 : ((trees s).map (den x c)).getLast? = (vs.map some).getLast? := by rw [h1]
  simp only [List.getLast?_map] at h2
  simp only [Eval.evalLast, h, Option.bind_some, ofStack]
  cases hT : (trees s).getLast? with
  | none =>
    cases hV : vs.getLast? with
    | none => simp [den]
    | some v => simp [hT, hV] at h2
  | some t =>
    cases hV : vs.getLast? with
    | none => simp [hT, hV] at h2
    | some v => simpa [hT, hV] using h2.symm

end FwdDen
end Bingo
