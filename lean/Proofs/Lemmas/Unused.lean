import Model.Eval
import Model.WF
import Mathlib.Tactic.Common
/-!
# Structural facts about `Eval.rev` that hold for every `Scalar` instance

* the derivative list keeps its length;
* an entry no `wrt` row points at stays what it was (so it is the initial `Eval.zero`).
-/
namespace Bingo
namespace AD
variable {α : Type} [Scalar α]

lemma revStep_keeps {s : Stack} {wrt : Int} {fw : List α} {i : Nat} {st st' : List α × List α}
    {j : Nat} {z : α}
    (hno : ∀ cmd, s[i]? = some cmd → cmd.node = wrt → pyIdx st.2.length cmd.p1 ≠ some j)
    (h : Eval.revStep s wrt fw i st = some st') (hz : st.2[j]? = some z) :
    st'.2[j]? = some z ∧ st'.2.length = st.2.length := by
  unfold Eval.revStep at h
  split at h
  · cases h
  · rename_i cmd hcmd
    split_ifs at h with hw
    · have hne := hno cmd hcmd hw
      cases hp : pyIdx st.2.length cmd.p1 with
      | none => simp [hp] at h
      | some j' =>
        cases ho : st.2[j']? with
        | none => simp [hp, ho] at h
        | some old =>
          cases hr : st.1[i]? with
          | none => simp [hp, hr] at h
          | some r =>
            simp [hp, ho, hr] at h
            subst h
            have : j' ≠ j := by intro e; apply hne; rw [hp, e]
            simp [List.getElem?_set_ne this, hz]
    · split at h
      · cases h
      · simp only [Option.map_eq_some_iff] at h
        obtain ⟨r, _, rfl⟩ := h
        exact ⟨hz, rfl⟩

lemma revSweep_keeps {s : Stack} {wrt : Int} {fw : List α} {ncols j : Nat} {z : α}
    (hno : ∀ cmd ∈ s, cmd.node = wrt → pyIdx ncols cmd.p1 ≠ some j) :
    ∀ (k : Nat) (st st' : List α × List α), st.2.length = ncols → st.2[j]? = some z →
      Eval.revSweep s wrt fw k st = some st' → st'.2[j]? = some z ∧ st'.2.length = ncols
  | 0, st, st', hl, hz, h => by
    simp only [Eval.revSweep] at h; cases h; exact ⟨hz, hl⟩
  | k+1, st, st', hl, hz, h => by
    simp only [Eval.revSweep] at h
    split at h
    · cases h
    · rename_i st1 hst1
      have := revStep_keeps (j := j) (z := z)
        (by
          intro cmd hc hw
          rw [hl]
          exact hno cmd (List.mem_of_getElem? hc) hw) hst1 hz
      exact revSweep_keeps hno k st1 st' (by rw [this.2, hl]) this.1 h

/-- an output column no `wrt` row loads is `Eval.zero`; the output has `ncols` entries -/
theorem rev_unused {s : Stack} {wrt : Int} {fw d : List α} {ncols j : Nat} (hj : j < ncols)
    (hno : ∀ cmd ∈ s, cmd.node = wrt → pyIdx ncols cmd.p1 ≠ some j)
    (h : Eval.rev s wrt ncols fw = some d) : d[j]? = some Eval.zero ∧ d.length = ncols := by
  unfold Eval.rev at h
  split at h
  · cases h
  · rename_i n hn
    simp only [Option.map_eq_some_iff] at h
    obtain ⟨st', hs, rfl⟩ := h
    exact revSweep_keeps hno _ _ st' (by simp) (by simp [hj]) hs

/-- the first component of `evaluate_with_derivative` is `evaluate` -/
theorem evalWithDeriv_value {s : Stack} {x c : List α} {w : Bool} {v : α} {d : List α}
    (h : Eval.evalWithDeriv s x c w = some (v, d)) : Eval.evalLast s x c = some v := by
  unfold Eval.evalWithDeriv at h
  unfold Eval.evalLast
  cases hf : Eval.fwd s x c with
  | none => simp [hf] at h
  | some fw =>
    cases hl : fw.getLast? with
    | none => simp [hf, hl] at h
    | some last =>
      cases w
      · cases hd : Eval.rev s Gen.OpDefs.CONSTANT c.length fw with
        | none => simp [hf, hl, hd] at h
        | some d' => simp [hf, hl, hd] at h; simp [hl, h.1]
      · cases hd : Eval.rev s Gen.OpDefs.VARIABLE x.length fw with
        | none => simp [hf, hl, hd] at h
        | some d' => simp [hf, hl, hd] at h; simp [hl, h.1]

/-- the derivative part of `evaluate_with_derivative` is `Eval.rev` on the forward values -/
theorem evalWithDeriv_deriv {s : Stack} {x c : List α} {w : Bool} {v : α} {d : List α}
    (h : Eval.evalWithDeriv s x c w = some (v, d)) :
    ∃ fw, Eval.fwd s x c = some fw ∧
      (if w = true then Eval.rev s Gen.OpDefs.VARIABLE x.length fw
        else Eval.rev s Gen.OpDefs.CONSTANT c.length fw) = some d := by
  unfold Eval.evalWithDeriv at h
  cases hf : Eval.fwd s x c with
  | none => simp [hf] at h
  | some fw =>
    cases hl : fw.getLast? with
    | none => simp [hf, hl] at h
    | some last =>
      cases w
      · cases hd : Eval.rev s Gen.OpDefs.CONSTANT c.length fw with
        | none => simp [hf, hl, hd] at h
        | some d' => simp [hf, hl, hd] at h; exact ⟨fw, rfl, by simp [hd, h.2]⟩
      · cases hd : Eval.rev s Gen.OpDefs.VARIABLE x.length fw with
        | none => simp [hf, hl, hd] at h
        | some d' => simp [hf, hl, hd] at h; exact ⟨fw, rfl, by simp [hd, h.2]⟩

/-- conversely: forward values + a successful reverse sweep give `evaluate_with_derivative` -/
theorem evalWithDeriv_of {s : Stack} {x c : List α} {w : Bool} {fw d : List α} {last : α}
    (hf : Eval.fwd s x c = some fw) (hl : fw.getLast? = some last)
    (hd : (if w = true then Eval.rev s Gen.OpDefs.VARIABLE x.length fw
        else Eval.rev s Gen.OpDefs.CONSTANT c.length fw) = some d) :
    Eval.evalWithDeriv s x c w = some (last, d) := by
  unfold Eval.evalWithDeriv
  cases w
  · simp only [Bool.false_eq_true, if_false] at hd; simp [hf, hl, hd]
  · simp only [if_true] at hd; simp [hf, hl, hd]

end AD
end Bingo
