import Proofs.Lemmas.ParXchgBase
/-!
# C11 (parallel clause) -- inductive invariant of the `sendrecv` population exchange

`XInv P pops0 R s`: what is true in every state reachable from `xinitial order pops0`, for an abstract
partner function `P` that is a symmetric irreflexive matching on the ranks below `R` (`Matching`).
-/
namespace Bingo
namespace ParXchg
open ParArch

/-- program counter of rank `r` (`done` outside the rank range, as `xstep` reads it) -/
def pcOf (s : XState) (r : Nat) : XPc := s.pcs.getD r .done

/-- what rank `r` keeps after `dump_fraction_of_population(0.5)` (everything when it has no partner) -/
def keep (P : Nat → Option Nat) (pops0 : List (List Nat)) (r : Nat) : List Nat :=
  let pop := pops0.getD r []
  if (P r).isSome then pop.drop (halfRound pop.length) else pop

/-- what rank `r` dumps and sends to its partner (nothing when it has no partner) -/
def dump (P : Nat → Option Nat) (pops0 : List (List Nat)) (r : Nat) : List Nat :=
  let pop := pops0.getD r []
  if (P r).isSome then pop.take (halfRound pop.length) else []

/-- the population of rank `r` after the exchange -/
def result (P : Nat → Option Nat) (pops0 : List (List Nat)) (r : Nat) : List Nat :=
  match P r with
  | some p => keep P pops0 r ++ dump P pops0 p
  | none => keep P pops0 r

/-- the partner relation is a symmetric irreflexive matching on the ranks `< R` -/
structure Matching (P : Nat → Option Nat) (R : Nat) : Prop where
  sym : ∀ a b, P a = some b → P b = some a
  irrefl : ∀ a b, P a = some b → a ≠ b
  lt : ∀ a b, P a = some b → a < R

structure XInv (P : Nat → Option Nat) (pops0 : List (List Nat)) (R : Nat) (s : XState) : Prop where
  partners : ∀ r, s.partners.getD r none = P r
  outgoing : ∀ r, s.outgoing.getD r [] = dump P pops0 r
  lenPcs : s.pcs.length = R
  lenPops : s.pops.length = R
  /-- a rank without partner does not take part -/
  single : ∀ r, P r = none → pcOf s r = .done
  /-- the partner of a rank that has not sent yet cannot have received -/
  order : ∀ r p, P r = some p → pcOf s r = .toSend → pcOf s p ≠ .done
  /-- what each island holds -/
  pops : ∀ r, s.pops.getD r [] = if pcOf s r = .done then result P pops0 r else keep P pops0 r
  /-- in flight is exactly: one message `(a, b, dump a)` for every rank `a` that has sent and whose partner
  `b` has not received yet -/
  msgs : ∀ a b m, s.inflight.count (a, b, m) =
    if P a = some b ∧ m = dump P pops0 a ∧ pcOf s a ≠ .toSend ∧ pcOf s b ≠ .done then 1 else 0

/-- the state after the send half of rank `r` -/
def afterSend (s : XState) (r p : Nat) : XState :=
  { s with inflight := s.inflight ++ [(r, p, s.outgoing.getD r [])], pcs := s.pcs.set r .toRecv }

/-- the state after the receive half of rank `r` -/
def afterRecv (s : XState) (r : Nat) (m : List Nat) (rest : List (Nat × Nat × List Nat)) : XState :=
  { s with inflight := rest, pops := s.pops.set r (s.pops.getD r [] ++ m), pcs := s.pcs.set r .done }

/-- the two ways a rank can move -/
theorem xstep_cases {s s' : XState} {r : Nat} (h : xstep s r = some s') :
    (∃ p, s.partners.getD r none = some p ∧ pcOf s r = .toSend ∧ s' = afterSend s r p) ∨
    (∃ p m rest, s.partners.getD r none = some p ∧ pcOf s r = .toRecv ∧
      xtake p r s.inflight = some (m, rest) ∧ s' = afterRecv s r m rest) := by
  unfold xstep at h
  split at h
  · rename_i p hp hpc
    left; exact ⟨p, hp, hpc, by cases h; rfl⟩
  · rename_i p hp hpc
    right
    split at h
    · cases h
    · rename_i m rest ht
      exact ⟨p, m, rest, hp, hpc, ht, by cases h; rfl⟩
  · cases h

theorem xstep_send {s : XState} {r p : Nat} (hp : s.partners.getD r none = some p) (hpc : pcOf s r = .toSend) :
    xstep s r = some (afterSend s r p) := by
  unfold pcOf at hpc
  unfold xstep; rw [hp, hpc]; rfl

theorem xstep_recv {s : XState} {r p : Nat} {m : List Nat} {rest : List (Nat × Nat × List Nat)}
    (hp : s.partners.getD r none = some p) (hpc : pcOf s r = .toRecv)
    (ht : xtake p r s.inflight = some (m, rest)) : xstep s r = some (afterRecv s r m rest) := by
  unfold pcOf at hpc
  unfold xstep; rw [hp, hpc]; simp only [ht]; rfl

end ParXchg
end Bingo
