import Proofs.Lemmas.ParXchgStep
/-!
# C11 (parallel clause) -- reachability, absence of deadlock, what a final state looks like
-/
namespace Bingo
namespace ParXchg
open ParArch

variable {P : Nat → Option Nat} {pops0 : List (List Nat)} {R : Nat}

/-- `s` can be reached from `s0` by letting ranks move in any order -/
inductive XReachable (s0 : XState) : XState → Prop
  | refl : XReachable s0 s0
  | step {s s' : XState} (r : Nat) : XReachable s0 s → xstep s r = some s' → XReachable s0 s'

/-- `s` is reached from `s0` by a run of exactly `n` steps -/
inductive XRun (s0 : XState) : Nat → XState → Prop
  | refl : XRun s0 0 s0
  | step {n : Nat} {s s' : XState} (r : Nat) : XRun s0 n s → xstep s r = some s' → XRun s0 (n + 1) s'

theorem XRun.reachable {s0 s : XState} {n : Nat} (h : XRun s0 n s) : XReachable s0 s := by
  induction h with
  | refl => exact .refl
  | step r _ hs ih => exact .step r ih hs

theorem XReachable.run {s0 s : XState} (h : XReachable s0 s) : ∃ n, XRun s0 n s := by
  induction h with
  | refl => exact ⟨0, .refl⟩
  | step r _ hs ih => obtain ⟨n, hn⟩ := ih; exact ⟨n + 1, .step r hn hs⟩

/-- let the ranks `rs` move one after the other (`none` if one of them cannot) -/
def runRanks (s : XState) : List Nat → Option XState
  | [] => some s
  | r :: rs => (xstep s r).bind (runRanks · rs)

theorem reachable_of_run {s0 s s' : XState} {rs : List Nat} (h : XReachable s0 s)
    (hr : runRanks s rs = some s') : XReachable s0 s' := by
  induction rs generalizing s with
  | nil => simp only [runRanks, Option.some.injEq] at hr; exact hr ▸ h
  | cons r rs ih =>
    simp only [runRanks] at hr
    cases hx : xstep s r with
    | none => simp [hx] at hr
    | some s1 => rw [hx] at hr; exact ih (.step r h hx) hr

theorem inv_reachable {s0 s : XState} (hm : Matching P R) (inv : XInv P pops0 R s0)
    (h : XReachable s0 s) : XInv P pops0 R s := by
  induction h with
  | refl => exact inv
  | step r _ hs ih => exact inv_step hm ih hs

theorem xFinal_iff {s : XState} : xFinal s = true ↔ ∀ r, pcOf s r = .done := by
  simp only [xFinal, List.all_eq_true, beq_iff_eq, pcOf]
  constructor
  · intro h r
    simp only [List.getD]
    cases hr : s.pcs[r]? with
    | none => rfl
    | some x => exact h x (List.mem_of_getElem? hr)
  · intro h x hx
    obtain ⟨i, hi, rfl⟩ := List.getElem_of_mem hx
    have := h i
    simpa [List.getD, List.getElem?_eq_getElem hi] using this

/-- a rank whose partner has sent can take the message -/
theorem can_recv {s : XState} (inv : XInv P pops0 R s) {r p : Nat}
    (hpr : P p = some r) (hpc : pcOf s r ≠ .done) (hps : pcOf s p ≠ .toSend) :
    ∃ rest, xtake p r s.inflight = some (dump P pops0 p, rest) := by
  have hc := inv.msgs p r (dump P pops0 p)
  rw [if_pos ⟨hpr, rfl, hps, hpc⟩] at hc
  have hmem : (p, r, dump P pops0 p) ∈ s.inflight := List.count_pos_iff.mp (by omega)
  cases ht : xtake p r s.inflight with
  | none => exact absurd hmem (xtake_none_iff.mp ht _)
  | some pr =>
    obtain ⟨m, rest⟩ := pr
    obtain ⟨_, hmd, _, _⟩ := taken_spec inv ht
    exact ⟨rest, by rw [hmd]⟩

/-- some rank can move unless all are through -/
theorem inv_progress {s : XState} (hm : Matching P R) (inv : XInv P pops0 R s) (hf : xFinal s = false) :
    ∃ r, r < R ∧ (xstep s r).isSome = true := by
  have : ¬ ∀ r, pcOf s r = .done := by rw [← xFinal_iff, hf]; simp
  obtain ⟨r, hr⟩ := Classical.not_forall.mp this
  cases hp : P r with
  | none => exact absurd (inv.single r hp) hr
  | some p =>
    have hpr := hm.sym r p hp
    have hsend : ∀ a b, P a = some b → pcOf s a = .toSend → ∃ q, q < R ∧ (xstep s q).isSome = true := by
      intro a b hab ha
      refine ⟨a, hm.lt a b hab, ?_⟩
      rw [xstep_send (by rw [inv.partners]; exact hab) ha]; rfl
    cases hpc : pcOf s r with
    | done => exact absurd hpc hr
    | toSend => exact hsend r p hp hpc
    | toRecv =>
      cases hpp : pcOf s p with
      | toSend => exact hsend p r hpr hpp
      | toRecv =>
        obtain ⟨rest, ht⟩ := can_recv inv hpr hr (by rw [hpp]; simp)
        refine ⟨r, hm.lt r p hp, ?_⟩
        rw [xstep_recv (by rw [inv.partners]; exact hp) hpc ht]; rfl
      | done =>
        obtain ⟨rest, ht⟩ := can_recv inv hpr hr (by rw [hpp]; simp)
        refine ⟨r, hm.lt r p hp, ?_⟩
        rw [xstep_recv (by rw [inv.partners]; exact hp) hpc ht]; rfl

theorem inv_noDeadlock {s : XState} (hm : Matching P R) (inv : XInv P pops0 R s) : xNoDeadlock s = true := by
  unfold xNoDeadlock
  cases hf : xFinal s with
  | true => rfl
  | false =>
    obtain ⟨r, hr, hs⟩ := inv_progress hm inv hf
    simp only [Bool.false_or, List.any_eq_true, List.mem_range]
    exact ⟨r, by rw [inv.lenPcs]; exact hr, hs⟩

/-! ## final states -/

theorem inv_final_inflight {s : XState} (inv : XInv P pops0 R s) (hf : xFinal s = true) : s.inflight = [] := by
  rw [xFinal_iff] at hf
  apply List.eq_nil_iff_forall_not_mem.mpr
  intro x hx
  obtain ⟨a, b, m⟩ := x
  have hc := inv.msgs a b m
  have hpos : 0 < s.inflight.count (a, b, m) := List.count_pos_iff.mpr hx
  rw [if_neg (by intro h; exact h.2.2.2 (hf b))] at hc
  omega

theorem inv_final_pop {s : XState} (inv : XInv P pops0 R s) (hf : xFinal s = true) (r : Nat) :
    s.pops.getD r [] = result P pops0 r := by
  rw [xFinal_iff] at hf
  rw [inv.pops r, if_pos (hf r)]

theorem inv_final_pops {s : XState} (inv : XInv P pops0 R s) (hf : xFinal s = true) :
    s.pops = (List.range R).map (result P pops0) := by
  apply List.ext_getElem
  · simp [inv.lenPops]
  · intro i h1 h2
    have := inv_final_pop inv hf i
    simp only [List.getD, List.getElem?_eq_getElem h1, Option.getD_some] at this
    simp [this]

end ParXchg
end Bingo
