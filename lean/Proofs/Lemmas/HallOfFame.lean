import Model.HallOfFame
import Proofs.Lemmas.Bisect
/-!
# Invariants of `HallOfFame.update`
-/
namespace Bingo
namespace HOF

/-! ## `oins` -/
section oins
variable {α : Type} (k : α → Int)

theorem mem_oins {x y : α} {l : List α} : y ∈ oins k x l ↔ y = x ∨ y ∈ l := by
  induction l with
  | nil => simp [oins]
  | cons a l ih =>
    unfold oins; split
    · simp
    · simp only [List.mem_cons, ih]
      constructor
      · rintro (h | h | h) <;> simp [h]
      · rintro (h | h | h) <;> simp [h]

theorem length_oins (x : α) (l : List α) : (oins k x l).length = l.length + 1 := by
  induction l with
  | nil => simp [oins]
  | cons a l ih => unfold oins; split <;> simp [ih]

theorem oins_perm (x : α) (l : List α) : (oins k x l).Perm (x :: l) := by
  induction l with
  | nil => simp [oins]
  | cons a l ih =>
    unfold oins; split
    · exact List.Perm.refl _
    · exact ((List.Perm.cons a ih).trans (List.Perm.swap x a l))

theorem map_oins (x : α) (l : List α) : (oins k x l).map k = oins id (k x) (l.map k) := by
  induction l with
  | nil => simp [oins]
  | cons a l ih =>
    simp only [oins, List.map_cons, id]
    split <;> simp [ih]

theorem take_oins (x : α) (l : List α) (m : Nat) :
    (oins k x l).take m = (oins k x (l.take m)).take m := by
  induction l generalizing m with
  | nil => simp
  | cons a l ih =>
    cases m with
    | zero => simp
    | succ m =>
      simp only [List.take_succ_cons, oins]
      split
      · simp only [List.take_succ_cons]
        congr 1
        cases m with
        | zero => simp
        | succ m => simp [List.take_take]
      · simp only [List.take_succ_cons]
        congr 1
        exact ih m

theorem oins_of_all_le (x : α) (l : List α) (h : ∀ a ∈ l, k a ≤ k x) : oins k x l = l ++ [x] := by
  induction l with
  | nil => simp [oins]
  | cons a l ih =>
    have : ¬ k x < k a := by have := h a (List.mem_cons_self); omega
    simp [oins, this, ih (fun b hb => h b (List.mem_cons_of_mem _ hb))]

/-- relation-preservation: `oins` keeps a list pairwise-`R` as soon as `R` fits the key order -/
theorem pairwise_oins {R : α → α → Prop} (x : α) (l : List α) (hl : l.Pairwise R)
    (hlt : ∀ a ∈ l, k x < k a → R x a) (hge : ∀ a ∈ l, ¬ k x < k a → R a x)
    (htr : ∀ a ∈ l, ∀ b ∈ l, k x < k a → R a b → k x < k b) :
    (oins k x l).Pairwise R := by
  induction l with
  | nil => simp [oins]
  | cons a l ih =>
    have hla := List.pairwise_cons.1 hl
    unfold oins; split
    · rename_i hxa
      refine List.pairwise_cons.2 ⟨?_, hl⟩
      intro b hb
      rcases List.mem_cons.1 hb with h | h
      · subst h; exact hlt _ (List.mem_cons_self) hxa
      · exact hlt b hb (htr a (List.mem_cons_self) b hb hxa (hla.1 b h))
    · rename_i hxa
      refine List.pairwise_cons.2 ⟨?_, ?_⟩
      · intro b hb
        rcases (mem_oins k).1 hb with h | h
        · subst h; exact hge _ (List.mem_cons_self) hxa
        · exact hla.1 b h
      · exact ih hla.2 (fun b hb => hlt b (List.mem_cons_of_mem _ hb))
          (fun b hb => hge b (List.mem_cons_of_mem _ hb))
          (fun b hb c hc => htr b (List.mem_cons_of_mem _ hb) c (List.mem_cons_of_mem _ hc))

end oins

/-! ### integer lists -/

theorem sorted_oins (v : Int) (S : List Int) (hS : S.Pairwise (· ≤ ·)) :
    (oins id v S).Pairwise (· ≤ ·) := by
  apply pairwise_oins id v S hS
  · intro a _ h; simp only [id] at h; omega
  · intro a _ h; simp only [id] at h; omega
  · intro a _ b _ h1 h2; simp only [id] at *; omega

theorem oins_concat_take (v b : Int) (hvb : v ≤ b) (A : List Int) :
    (oins id v (A ++ [b])).take (A.length + 1) = oins id v A := by
  induction A with
  | nil =>
    by_cases h : v < b
    · simp [oins, h]
    · have : v = b := by omega
      simp [oins, this]
  | cons a A ih =>
    simp only [List.cons_append, oins, id]
    split
    · simp
    · simp only [List.length_cons, List.take_succ_cons]
      congr 1

/-- The key-level step: inserting into the `m`-prefix (after possibly dropping its last element)
is the `m`-prefix of inserting into the whole sorted history. -/
theorem kstep_small (m : Nat) (S : List Int) (v : Int) (h : (S.take m).length < m) :
    oins id v (S.take m) = (oins id v S).take m := by
  rw [take_oins id v S m]
  exact (List.take_of_length_le (by rw [length_oins]; omega)).symm

theorem kstep_replace (m : Nat) (S A : List Int) (v b : Int) (hK : S.take m = A ++ [b])
    (hm : m ≤ (S.take m).length) (hvb : v ≤ b) :
    oins id v A = (oins id v S).take m := by
  have hlen : A.length + 1 = m := by
    have h1 : (S.take m).length ≤ m := by simp [List.length_take]; omega
    have h2 : (S.take m).length = A.length + 1 := by rw [hK]; simp
    omega
  rw [take_oins id v S m, hK, ← hlen, oins_concat_take v b hvb]

theorem kstep_reject (m : Nat) (S A : List Int) (v b : Int) (hS : S.Pairwise (· ≤ ·))
    (hK : S.take m = A ++ [b]) (hm : m ≤ (S.take m).length) (hvb : b < v) :
    S.take m = (oins id v S).take m := by
  have hlen : (S.take m).length = m := by
    have h1 : (S.take m).length ≤ m := by simp [List.length_take]; omega
    omega
  have hKs : (A ++ [b]).Pairwise (· ≤ ·) := by
    rw [← hK]; exact hS.sublist (List.take_sublist _ _)
  have hall : ∀ a ∈ S.take m, id a ≤ id v := by
    intro a ha
    rw [hK] at ha
    rcases List.mem_append.1 ha with h | h
    · have := (List.pairwise_append.1 hKs).2.2 a h b (by simp); simp only [id]; omega
    · simp at h; subst h; simp only [id]; omega
  rw [take_oins id v S m, oins_of_all_le id v _ hall, List.take_left' hlen]

/-! ## `remove(-1)`, membership -/

theorem remove_neg_one {h : List Item} (hne : h ≠ []) : remove h (-1) = some h.dropLast := by
  have hl : 0 < h.length := List.length_pos_iff.2 hne
  unfold remove
  have h1 : ¬ (0 : Int) ≤ -1 := by omega
  have h2 : (-1 : Int) + (h.length : Int) ≥ 0 := by omega
  have h3 : ((-1 : Int) + (h.length : Int)).toNat = h.length - 1 := by omega
  simp only [h1, if_false, h2, if_true, h3, List.eraseIdx_length_sub_one]

theorem remove_sublist {h h' : List Item} {idx : Int} (hr : remove h idx = some h') :
    h'.Sublist h := by
  unfold remove at hr
  simp only at hr
  split at hr
  · split at hr
    · cases hr; exact List.eraseIdx_sublist _ _
    · cases hr
  · split at hr
    · cases hr; exact List.eraseIdx_sublist _ _
    · cases hr

theorem mem_insertAt {β : Type} {l : List β} {i : Nat} {b x : β} :
    x ∈ insertAt l i b ↔ x = b ∨ x ∈ l := by
  unfold insertAt
  rw [List.mem_append, List.mem_cons]
  conv => rhs; rw [← List.take_append_drop i l, List.mem_append]
  constructor
  · rintro (h | h | h) <;> simp [h]
  · rintro (h | h | h) <;> simp [h]

theorem mem_insert {h : List Item} {it x : Item} : x ∈ insert h it ↔ x = it ∨ x ∈ h := mem_insertAt

theorem shouldAdd_not_nan {m sim h it} (hs : shouldAdd m sim h it = true) : it.key.isNan = false := by
  unfold shouldAdd at hs
  cases hn : it.key.isNan with
  | false => rfl
  | true => simp [hn] at hs

theorem offer_mem {m sim h it h'} (ho : offer m sim h it = some h') :
    ∀ x ∈ h', x ∈ h ∨ (x = it ∧ it.key.isNan = false) := by
  unfold offer at ho
  split at ho
  · rename_i hs
    have hnn := shouldAdd_not_nan hs
    split at ho
    · cases hr : remove h (-1) with
      | none => simp [hr] at ho
      | some h1 =>
        simp only [hr, Option.map_some, Option.some.injEq] at ho
        subst ho
        intro x hx
        rcases mem_insert.1 hx with hx | hx
        · exact Or.inr ⟨hx, hnn⟩
        · exact Or.inl ((remove_sublist hr).subset hx)
    · cases ho
      intro x hx
      rcases mem_insert.1 hx with hx | hx
      · exact Or.inr ⟨hx, hnn⟩
      · exact Or.inl hx
  · cases ho; intro x hx; exact Or.inl hx

theorem update_mem {m sim} : ∀ {pop h h'}, update m sim h pop = some h' →
    ∀ x ∈ h', x ∈ h ∨ (x ∈ pop ∧ x.key.isNan = false) := by
  intro pop
  induction pop with
  | nil => intro h h' hu x hx; simp only [update, Option.some.injEq] at hu; subst hu; exact Or.inl hx
  | cons it rest ih =>
    intro h h' hu x hx
    unfold update at hu
    cases ho : offer m sim h it with
    | none => simp [ho] at hu
    | some h1 =>
      simp only [ho] at hu
      rcases ih hu x hx with h2 | h2
      · rcases offer_mem ho x h2 with h3 | h3
        · exact Or.inl h3
        · exact Or.inr ⟨by simp [h3.1], by rw [h3.1]; exact h3.2⟩
      · exact Or.inr ⟨List.mem_cons_of_mem _ h2.1, h2.2⟩

theorem update_noNan {m sim pop h h'} (hu : update m sim h pop = some h') (hnn : NoNan h) :
    NoNan h' := by
  intro x hx
  rcases update_mem hu x hx with h1 | h1
  · exact hnn x h1
  · exact h1.2

theorem offer_isSome {m sim h it} (hm : 1 ≤ m) : ∃ h', offer m sim h it = some h' := by
  unfold offer
  split
  · split
    · rename_i hlen
      have hne : h ≠ [] := by intro h0; subst h0; simp at hlen; omega
      exact ⟨_, by rw [remove_neg_one hne]; rfl⟩
    · exact ⟨_, rfl⟩
  · exact ⟨_, rfl⟩

theorem update_isSome {m sim} (hm : 1 ≤ m) : ∀ pop h, ∃ h', update m sim h pop = some h' := by
  intro pop
  induction pop with
  | nil => intro h; exact ⟨h, rfl⟩
  | cons it rest ih =>
    intro h
    obtain ⟨h1, ho⟩ := offer_isSome (sim := sim) (h := h) (it := it) hm
    obtain ⟨h2, hu⟩ := ih h1
    exact ⟨h2, by simp [update, ho, hu]⟩

theorem update_append {m sim} : ∀ (p1 p2 h : List Item),
    update m sim h (p1 ++ p2) = (update m sim h p1).bind (fun h' => update m sim h' p2) := by
  intro p1
  induction p1 with
  | nil => intro p2 h; simp [update]
  | cons it rest ih =>
    intro p2 h
    simp only [List.cons_append, update]
    cases offer m sim h it with
    | none => simp
    | some h1 => simp [ih]

end HOF
end Bingo
