import Model.ParArch
import Proofs.Lemmas.ParArchSteps
import Proofs.Lemmas.ParArchCore
import Proofs.Lemmas.ParArchCollect
/-!
# C12 -- inductive invariant of the ParallelArchipelago message protocol (`Model/ParArch.lean`)

`Inv s` collects what is true in every reachable state of one `_non_blocking_execution` call, for an
arbitrary number of ranks `R ≥ 1`, arbitrary `sync`, `numSteps`, slice lengths and interleavings.  It has
two parts:

* `InvCore` (`Proofs/Lemmas/ParArchCore.lean`): shape of the state vectors, barrier bookkeeping, exit
  notifications, pending receives, `total_age` entries and in-flight ages are lower bounds of the true
  island ages, and once rank 0 has left its loop `target_total_age ≤ Σ ages`;
* `CInv` (`Proofs/Lemmas/ParArchCollect.lean`): the collecting loop at the start of
  `_non_blocking_execution_main` (every blocking receive is eventually served; `total_age` has exactly
  the keys collected so far), every age known anywhere is at least the age of that island at the start of
  the call, and after the collecting loop `Σ ages0 + R * numSteps ≤ target_total_age`.

`inv_initial` (no precondition besides `0 < R`), `inv_step` and `inv_reachable` establish it.
-/
set_option linter.unusedSimpArgs false
set_option linter.unusedVariables false
namespace Bingo
namespace C12
open ParArch

/-- the inductive invariant of one call -/
structure Inv (s : State) : Prop extends InvCore s, CInv s

theorem cinv_single (sync n : Nat) (ages : List Nat) : CInv (finishCollect (collectStart 1 sync n ages)) := by
  refine cinv_mk_nc ?_ rfl (fun _ => Nat.le_refl _) (by intro m hm; cases hm) ?_ ?_
  · show isCollecting (if _ then Pc0.evolving else afterExit 1 1) = false
    split
    · rfl
    · exact afterExit_not_collecting _ _
  · intro r a h
    have h' : ([some (ages.getD 0 0)] : List (Option Nat)).getD r none = some a := h
    show ([ages.getD 0 0] : List Nat).getD r 0 ≤ a
    cases r with
    | zero => simp at h' ⊢; omega
    | succ r => simp at h'
  · show ([ages.getD 0 0] : List Nat).sum + 1 * n ≤ tableSum [some (ages.getD 0 0)] + n * 1
    simp [tableSum]

/-- the start of a call satisfies the invariant, whatever the ages and the requested number of generations -/
theorem inv_initial (R sync n : Nat) (ages : List Nat) (hR : 0 < R) : Inv (initial R sync n ages) := by
  have core := core_collectStart R sync n ages hR
  unfold initial
  by_cases h1 : 1 < R
  · simp only [h1, if_true]
    exact { toInvCore := core, toCInv := cinv_collectStart R sync n ages h1 }
  · simp only [h1, if_false]
    have hR1 : R = 1 := by omega
    subst hR1
    exact { toInvCore := core_finishCollect core ⟨1, rfl⟩, toCInv := cinv_single sync n ages }

/-- the invariant is preserved by every transition of the model (any rank, any observed slice length) -/
theorem inv_step {s s' : State} {a : Action} (inv : Inv s) (h : step s a = some s') : Inv s' :=
  { toInvCore := core_step inv.toInvCore h, toCInv := cinv_step inv.toInvCore inv.toCInv h }

/-- states reachable from `s0` by model transitions -/
inductive Reachable (s0 : State) : State → Prop
  | init : Reachable s0 s0
  | step {s s' : State} {a : Action} : Reachable s0 s → ParArch.step s a = some s' → Reachable s0 s'

theorem inv_reachable {s0 s : State} (h0 : Inv s0) (h : Reachable s0 s) : Inv s := by
  induction h with
  | init => exact h0
  | step _ hs ih => exact inv_step ih hs

theorem step0_frame {s s' : State} {a : Action} (h : Step0 s a s') :
    s'.R = s.R ∧ s'.sync = s.sync ∧ s'.numSteps = s.numSteps ∧ s'.ages0 = s.ages0 := by
  cases h <;> exact ⟨rfl, rfl, rfl, rfl⟩

theorem stepH_frame {s s' : State} {a : Action} {r : Nat} (h : StepHC s r a s') :
    s'.R = s.R ∧ s'.sync = s.sync ∧ s'.numSteps = s.numSteps ∧ s'.ages0 = s.ages0 := by
  cases h <;> exact ⟨rfl, rfl, rfl, rfl⟩

/-- `R`, `sync`, `numSteps` and the start ages are constants of a call -/
theorem step_frame {s s' : State} {a : Action} (h : step s a = some s') :
    s'.R = s.R ∧ s'.sync = s.sync ∧ s'.numSteps = s.numSteps ∧ s'.ages0 = s.ages0 := by
  rcases step_cases h with ⟨_, h0⟩ | ⟨_, _, hH⟩
  · exact step0_frame h0
  · exact stepH_frame hH

theorem reachable_frame {s0 s : State} (h : Reachable s0 s) :
    s.R = s0.R ∧ s.sync = s0.sync ∧ s.numSteps = s0.numSteps ∧ s.ages0 = s0.ages0 := by
  induction h with
  | init => exact ⟨rfl, rfl, rfl, rfl⟩
  | step _ hs ih =>
    obtain ⟨a, b, c, d⟩ := step_frame hs
    exact ⟨a.trans ih.1, b.trans ih.2.1, c.trans ih.2.2.1, d.trans ih.2.2.2⟩

/-! ## `_get_migration_partner` -/

theorem nodup_getElem_ne {l : List Nat} (hnd : l.Nodup) {i j : Nat} (hi : i < l.length) (hj : j < l.length)
    (hne : i ≠ j) : l[i] ≠ l[j] := by
  rw [List.nodup_iff_pairwise_ne, List.pairwise_iff_getElem] at hnd
  rcases Nat.lt_or_gt_of_ne hne with h | h
  · exact hnd i j hi hj h
  · exact fun e => hnd j i hj hi h e.symm

theorem findIdx_nodup {l : List Nat} (hnd : l.Nodup) {j : Nat} (hj : j < l.length) :
    l.findIdx? (· == l[j]) = some j := by
  rw [List.findIdx?_eq_some_iff_getElem]
  refine ⟨hj, by simp, fun i hij => ?_⟩
  have := nodup_getElem_ne hnd (by omega : i < l.length) hj (by omega)
  simpa using this

theorem findIdx_spec {l : List Nat} {x i : Nat} (h : l.findIdx? (· == x) = some i) :
    ∃ hi : i < l.length, l[i] = x := by
  rw [List.findIdx?_eq_some_iff_getElem] at h
  obtain ⟨hi, hp, _⟩ := h
  exact ⟨hi, by simpa using hp⟩

/-- C11, parallel clause: `_get_migration_partner` computed on rank `a` yields `b` iff computed on `b` it
yields `a` (for any duplicate-free broadcast order), and nobody is its own partner -/
theorem partner_symmetric {order : List Nat} (hnd : order.Nodup) {a b : Nat} (h : partner order a = some b) :
    partner order b = some a ∧ a ≠ b := by
  unfold partner at h
  cases hf : order.findIdx? (· == a) with
  | none => simp [hf] at h
  | some i =>
    obtain ⟨hi, hia⟩ := findIdx_spec hf
    simp only [hf] at h
    by_cases hev : i % 2 = 0
    · simp only [hev, if_true] at h
      by_cases hlt : i + 1 < order.length
      · simp only [hlt, if_true] at h
        have hb : order[i + 1] = b := by
          rw [List.getElem?_eq_getElem hlt] at h; exact Option.some.inj h
        have hfb : order.findIdx? (· == b) = some (i + 1) := by rw [← hb]; exact findIdx_nodup hnd hlt
        refine ⟨?_, ?_⟩
        · unfold partner
          have hodd : ¬ (i + 1) % 2 = 0 := by omega
          simp only [hfb, hodd, if_false, Nat.add_sub_cancel]
          rw [List.getElem?_eq_getElem hi, hia]
        · rw [← hia, ← hb]; exact nodup_getElem_ne hnd hi hlt (by omega)
      · simp [hlt] at h
    · simp only [hev, if_false] at h
      have hi1 : i - 1 < order.length := by omega
      have hb : order[i - 1] = b := by
        rw [List.getElem?_eq_getElem hi1] at h; exact Option.some.inj h
      have hfb : order.findIdx? (· == b) = some (i - 1) := by rw [← hb]; exact findIdx_nodup hnd hi1
      refine ⟨?_, ?_⟩
      · unfold partner
        have hev' : (i - 1) % 2 = 0 := by omega
        have hlt : i - 1 + 1 < order.length := by omega
        have hii : i - 1 + 1 = i := by omega
        simp only [hfb, hev', if_true, hlt]
        simp only [hii]
        rw [List.getElem?_eq_getElem hi, hia]
      · rw [← hia, ← hb]; exact nodup_getElem_ne hnd hi hi1 (by omega)

/-- at most the last rank of an odd-length order is left without partner -/
theorem partner_none {order : List Nat} {a i : Nat} (hf : order.findIdx? (· == a) = some i)
    (h : partner order a = none) : i + 1 = order.length ∧ order.length % 2 = 1 := by
  obtain ⟨hi, _⟩ := findIdx_spec hf
  unfold partner at h
  simp only [hf] at h
  by_cases hev : i % 2 = 0
  · simp only [hev, if_true] at h
    by_cases hlt : i + 1 < order.length
    · simp [hlt] at h
    · omega
  · simp only [hev, if_false] at h
    have hi1 : i - 1 < order.length := by omega
    simp [List.getElem?_eq_getElem hi1] at h

end C12
end Bingo
