import Proofs.Lemmas.PipelineSem
/-!
# Generational steps end to end, and histories of an island

A history is a sequence of generational steps (each with an accepted phase list), migrations
(`reset_fitness`, optionally after an arbitrary exchange of individuals) and fitness reads of the
population (hall-of-fame update, best-individual query); reads are only in the language after a
step.  Core Lean only.
-/
namespace Bingo
namespace PipelineSem
open Pipeline EvalPhase

theorem AbsVal.some_fresh {f : Nat → Key} {a : AVal} {l : List Indiv} (h : AbsVal f a (some l)) :
    AllFresh f l := by
  cases a with
  | ev => exact AllEv.fresh h
  | fr => exact h
  | none => exact h.elim

/-- the entry state of a generational step: only the population exists -/
def entryState (pop : List Indiv) : CState := ⟨pop, none, none⟩

/-- a step accepted from entry value `entry`, started on a population described by `entry`: every
read is safe, and the step returns (`next`) a list of evaluated individuals -/
theorem step_sound {f : Nat → Key} {entry : AVal} {ps : List Phase} {pop : List Indiv}
    (hacc : accepts entry ps = true) (hpop : AbsVal f entry (some pop)) :
    SafeFrom f ps (entryState pop) ∧
    ∀ s', CRun f ps (entryState pop) s' → ∃ n, s'.next = some n ∧ AllEv f n := by
  unfold accepts at hacc
  split at hacc
  · rename_i a hrun
    have habs : Abs f { pop := entry, off := .none, next := .none } (entryState pop) :=
      ⟨hpop, trivial, trivial⟩
    obtain ⟨hsafe, hfin⟩ := abstract_sound_run habs hrun
    refine ⟨hsafe, ?_⟩
    intro s' hs'
    have h := (hfin s' hs').2.2
    have ha : a.next = .ev := by simpa using hacc
    rw [ha] at h
    exact AbsVal.ev_iff.mp h
  · cases hacc

/-- `for indv in self.population: indv.genetic_age += 1` -/
def bumpAge (l : List Indiv) : List Indiv := l.map fun i => { i with age := i.age + 1 }

theorem allEv_bumpAge {f : Nat → Key} {l : List Indiv} (h : AllEv f l) : AllEv f (bumpAge l) := by
  intro i hi
  simp only [bumpAge, List.mem_map] at hi
  obtain ⟨j, hj, rfl⟩ := hi
  exact h j hj

/-- `Island._execute_generational_step`: `self.population = self._ea.generational_step(self.population)`
(offspring and the selected list are locals of the step; the returned list becomes the
population), then every member ages -/
def GenStep (f : Nat → Key) (ps : List Phase) (pop pop' : List Indiv) : Prop :=
  ∃ s' n, CRun f ps (entryState pop) s' ∧ s'.next = some n ∧ pop' = bumpAge n

/-- the language of island histories, indexed by what is known of the population at the boundary
after the last event (`.fr`: fresh, `.ev`: evaluated) -/
inductive History : AVal → Type
  | start : History .fr
  /-- a generational step of an algorithm whose phase list is accepted from a fresh population -/
  | step {a : AVal} (h : History a) (ps : List Phase) (acc : accepts .fr ps = true) : History .ev
  /-- a generational step of an algorithm that needs an evaluated entry population, right after
  a step -/
  | stepEv (h : History .ev) (ps : List Phase) (acc : accepts .ev ps = true) : History .ev
  /-- `reset_fitness()` -/
  | reset {a : AVal} (h : History a) : History .fr
  /-- migration: the population is replaced by ANY list of individuals, then `reset_fitness()` -/
  | migrate {a : AVal} (h : History a) : History .fr
  /-- a fitness read of the population; only after a step -/
  | read (h : History .ev) : History .ev
  /-- a hall-of-fame update (`Island._get_potential_hof_members`): the population is evaluated first unless every
  member is already marked evaluated, then its fitness values are read; allowed anywhere in a history -/
  | hofUpdate {a : AVal} (h : History a) : History .ev

/-- `Island._evaluate_population_if_needed`: `if not all(indv.fit_set …): self.evaluate_population()` -/
def evalIfNeeded (f : Nat → Key) (cost : Nat → Nat) (redundant : Bool) (q : List Indiv) : List Indiv :=
  if q.all (·.flag) then q else (serialEval f cost redundant q).1

theorem allEv_evalIfNeeded {f : Nat → Key} (cost : Nat → Nat) (redundant : Bool) {q : List Indiv}
    (h : AllFresh f q) : AllEv f (evalIfNeeded f cost redundant q) := by
  unfold evalIfNeeded
  split
  · rename_i hall
    intro i hi
    have hflag : i.flag = true := by
      have := List.all_eq_true.mp hall i hi
      simpa using this
    exact ⟨hflag, h i hi hflag⟩
  · exact serialEval_all_evaluated cost redundant h

/-- `Reach f h p0 p`: some concrete execution of history `h` from population `p0` ends in `p` -/
def Reach (f : Nat → Key) : {a : AVal} → History a → List Indiv → List Indiv → Prop
  | _, .start, p0, p => p = p0
  | _, .step h ps _, p0, p => ∃ q, Reach f h p0 q ∧ GenStep f ps q p
  | _, .stepEv h ps _, p0, p => ∃ q, Reach f h p0 q ∧ GenStep f ps q p
  | _, .reset h, p0, p => ∃ q, Reach f h p0 q ∧ p = clearFlags q
  | _, .migrate h, p0, p => ∃ q l, Reach f h p0 q ∧ p = clearFlags l
  | _, .read h, p0, p => Reach f h p0 p
  | _, .hofUpdate h, p0, p => ∃ q cost redundant, Reach f h p0 q ∧ p = evalIfNeeded f cost redundant q

/-- every fitness read along every concrete execution of the history is safe -/
def HSafe (f : Nat → Key) : {a : AVal} → History a → List Indiv → Prop
  | _, .start, _ => True
  | _, .step h ps _, p0 => HSafe f h p0 ∧ ∀ q, Reach f h p0 q → SafeFrom f ps (entryState q)
  | _, .stepEv h ps _, p0 => HSafe f h p0 ∧ ∀ q, Reach f h p0 q → SafeFrom f ps (entryState q)
  | _, .reset h, p0 => HSafe f h p0
  | _, .migrate h, p0 => HSafe f h p0
  | _, .read h, p0 => HSafe f h p0 ∧ ∀ q, Reach f h p0 q → AllEv f q
  | _, .hofUpdate h, p0 => HSafe f h p0 ∧ ∀ p, Reach f (.hofUpdate h) p0 p → AllEv f p

theorem history_sound {f : Nat → Key} {a : AVal} (h : History a) {p0 : List Indiv}
    (h0 : AllFresh f p0) :
    HSafe f h p0 ∧ ∀ p, Reach f h p0 p → AbsVal f a (some p) := by
  induction h with
  | start =>
    refine ⟨trivial, ?_⟩
    intro p hp; cases hp; exact h0
  | step h ps acc ih =>
    obtain ⟨hs, hr⟩ := ih
    refine ⟨⟨hs, fun q hq => (step_sound (entry := .fr) acc (hr q hq).some_fresh).1⟩, ?_⟩
    rintro p ⟨q, hq, s', n, hrun, hn, rfl⟩
    obtain ⟨n', hn', hev⟩ := (step_sound (entry := .fr) acc (hr q hq).some_fresh).2 s' hrun
    rw [hn] at hn'; cases hn'
    exact allEv_bumpAge hev
  | stepEv h ps acc ih =>
    obtain ⟨hs, hr⟩ := ih
    refine ⟨⟨hs, fun q hq => (step_sound acc (hr q hq)).1⟩, ?_⟩
    rintro p ⟨q, hq, s', n, hrun, hn, rfl⟩
    obtain ⟨n', hn', hev⟩ := (step_sound acc (hr q hq)).2 s' hrun
    rw [hn] at hn'; cases hn'
    exact allEv_bumpAge hev
  | reset h ih =>
    refine ⟨ih.1, ?_⟩
    rintro p ⟨q, _, rfl⟩
    exact allFresh_clearFlags f q
  | migrate h ih =>
    refine ⟨ih.1, ?_⟩
    rintro p ⟨q, l, _, rfl⟩
    exact allFresh_clearFlags f l
  | read h ih =>
    exact ⟨⟨ih.1, ih.2⟩, ih.2⟩
  | hofUpdate h ih =>
    have key : ∀ p, Reach f (.hofUpdate h) p0 p → AllEv f p := by
      rintro p ⟨q, cost, red, hq, rfl⟩
      exact allEv_evalIfNeeded cost red (ih.2 q hq).some_fresh
    exact ⟨⟨ih.1, key⟩, key⟩

end PipelineSem
end Bingo
