import Model.Tree
import Proofs.Lemmas.FwdDen
import Model.WF
/-!
# Row-wise description of `ETree.trees` (core only, no Mathlib)

`trees s` is computed by a left-to-right sweep whose references are resolved with Python indexing relative
to the TOTAL length.  For stacks whose operator rows reference earlier rows only (`RefsOK`) the result does
not depend on that length, row `i` is `rowTree` of row `i` over the trees of the rows before it, and
appending a row appends a tree.  Used by C16 (parser output is built by appending rows; the printer sweeps
rows).
-/
namespace Bingo
namespace StrTrees
open ETree

/-- a terminal row, or a row both of whose parameters point to earlier rows -/
def RowRef (i : Nat) (cmd : Cmd) : Prop :=
  Ops.isTerminal cmd.node = some true ∨ (0 ≤ cmd.p1 ∧ cmd.p1 < i ∧ 0 ≤ cmd.p2 ∧ cmd.p2 < i)

/-- every operator row references earlier rows only -/
def RefsOK (s : Stack) : Prop := ∀ i (h : i < s.length), RowRef i s[i]

theorem getT_eq {N : Nat} {acc : List ETree} {p : Int} (h0 : 0 ≤ p) (h1 : p.toNat < acc.length)
    (hN : acc.length ≤ N) : getT N acc p = acc[p.toNat]?.getD bad := by
  unfold getT
  rw [pyIdx_of_lt h0 (by omega)]
  rfl

theorem rowTree_congr {i N N' : Nat} {acc acc' : List ETree} {cmd : Cmd} (h : RowRef i cmd)
    (hi : i ≤ acc.length) (hi' : i ≤ acc'.length) (hN : acc.length ≤ N) (hN' : acc'.length ≤ N')
    (hacc : ∀ j, j < i → acc[j]? = acc'[j]?) : rowTree N acc cmd = rowTree N' acc' cmd := by
  unfold rowTree
  split
  · rfl
  · next ht _ =>
    rcases h with h | ⟨h1, h2, _, _⟩
    · rw [ht] at h; cases h
    · rw [getT_eq h1 (by omega) hN, getT_eq h1 (by omega) hN', hacc _ (by omega)]
  · next ht _ =>
    rcases h with h | ⟨h1, h2, h3, h4⟩
    · rw [ht] at h; cases h
    · rw [getT_eq h1 (by omega) hN, getT_eq h1 (by omega) hN', hacc _ (by omega),
        getT_eq h3 (by omega) hN, getT_eq h3 (by omega) hN', hacc _ (by omega)]
  · rfl

theorem treesAux_length (N : Nat) (rest : List Cmd) (acc : List ETree) :
    (treesAux N rest acc).length = acc.length + rest.length := by
  induction rest generalizing acc with
  | nil => simp [treesAux]
  | cons cmd rest ih => simp [treesAux, ih]; omega

theorem trees_length (s : Stack) : (trees s).length = s.length := by
  simp [trees, treesAux_length]

theorem treesAux_append (N : Nat) (a b : List Cmd) (acc : List ETree) :
    treesAux N (a ++ b) acc = treesAux N b (treesAux N a acc) := by
  induction a generalizing acc with
  | nil => rfl
  | cons cmd a ih => simp [treesAux, ih]

/-- the sweep does not depend on the length used for index wrapping when references are in range -/
theorem treesAux_indep (N N' : Nat) (rest : List Cmd) (acc : List ETree)
    (h : ∀ k (hk : k < rest.length), RowRef (acc.length + k) rest[k])
    (hN : acc.length + rest.length ≤ N) (hN' : acc.length + rest.length ≤ N') :
    treesAux N rest acc = treesAux N' rest acc := by
  induction rest generalizing acc with
  | nil => rfl
  | cons cmd rest ih =>
    simp only [treesAux]
    simp only [List.length_cons] at hN hN'
    have h0 : RowRef acc.length cmd := h 0 (by simp)
    rw [rowTree_congr (N := N) (N' := N') (acc := acc) (acc' := acc) h0 (Nat.le_refl _)
      (Nat.le_refl _) (by omega) (by omega) (fun _ _ => rfl)]
    apply ih
    · intro k hk
      have := h (k + 1) (by simp; omega)
      simpa [Nat.add_assoc, Nat.add_comm 1 k] using this
    · simp; omega
    · simp; omega

/-- appending a row to a stack with in-range references appends its tree -/
theorem trees_snoc (s : Stack) (c : Cmd) (h : RefsOK s) :
    trees (s ++ [c]) = trees s ++ [rowTree (s.length + 1) (trees s) c] := by
  unfold trees
  rw [List.length_append, List.length_singleton, treesAux_append]
  rw [treesAux_indep (s.length + 1) s.length s [] (by simpa [RefsOK] using h) (by simp) (by simp)]
  rfl

/-- row `i` of the sweep is `rowTree` of command `i` over the trees before it -/
theorem treesAux_getElem (N : Nat) (rest : List Cmd) (acc : List ETree) (k : Nat)
    (hk : k < rest.length) :
    (treesAux N rest acc)[acc.length + k]? =
      some (rowTree N ((treesAux N rest acc).take (acc.length + k)) rest[k]) := by
  induction rest generalizing acc k with
  | nil => simp at hk
  | cons cmd rest ih =>
    simp only [treesAux]
    obtain ⟨ext, he⟩ := FwdDen.treesAux_prefix N rest (acc ++ [rowTree N acc cmd])
    cases k with
    | zero =>
      rw [he]
      simp
    | succ k =>
      have := ih (acc ++ [rowTree N acc cmd]) k (by simpa using hk)
      simp only [List.length_append, List.length_singleton] at this
      have e : acc.length + (k + 1) = acc.length + 1 + k := by omega
      rw [e]
      simpa using this

theorem trees_getElem (s : Stack) (i : Nat) (hi : i < s.length) :
    (trees s)[i]? = some (rowTree s.length ((trees s).take i) s[i]) := by
  have := treesAux_getElem s.length s [] i hi
  simpa [trees] using this

/-- row `i` over the full list of trees (references below `i`) -/
theorem trees_getElem_full (s : Stack) (h : RefsOK s) (i : Nat) (hi : i < s.length) :
    (trees s)[i]? = some (rowTree s.length (trees s) s[i]) := by
  rw [trees_getElem s i hi]
  congr 1
  have hl := trees_length s
  apply rowTree_congr (h i hi)
  · simp [hl]; omega
  · omega
  · simp [hl]; omega
  · omega
  · intro j hj
    simp [hj]

theorem ofStack_eq_last (s : Stack) :
    ofStack s = (trees s)[s.length - 1]?.getD bad := by
  unfold ofStack
  rw [List.getLast?_eq_getElem?, trees_length]

/-- `WFEval` stacks have in-range references -/
theorem refsOK_of_rowsOK {D : Nat} {L : Option Nat} {ops : Option (List Int)} (s : List Cmd) (i0 : Nat)
    (h : WF.rowsOK D L ops i0 s = true) :
    ∀ k (hk : k < s.length), WF.rowOK D L ops (i0 + k) s[k] = true := by
  induction s generalizing i0 with
  | nil => intro k hk; simp at hk
  | cons c s ih =>
    simp only [WF.rowsOK, Bool.and_eq_true] at h
    intro k hk
    cases k with
    | zero => simpa using h.1
    | succ k =>
      have := ih (i0 + 1) h.2 k (by simpa using hk)
      simpa [Nat.add_assoc, Nat.add_comm 1 k] using this

theorem rowRef_of_rowOK {D : Nat} {L : Option Nat} {ops : Option (List Int)} {i : Nat} {cmd : Cmd}
    (h : WF.rowOK D L ops i cmd = true) : RowRef i cmd := by
  unfold WF.rowOK at h
  split at h
  · next ht _ => exact Or.inl ht
  · simp only [Bool.and_eq_true, decide_eq_true_eq] at h
    exact Or.inr ⟨h.1.1.1.1, h.1.1.1.2, h.1.1.2, h.1.2⟩
  · cases h

theorem refsOK_of_wf {D : Nat} {L : Option Nat} {ops : Option (List Int)} {s : Stack}
    (h : WF.wf D L ops s = true) : RefsOK s := by
  simp only [WF.wf, Bool.and_eq_true] at h
  intro i hi
  have := refsOK_of_rowsOK s 0 h.2 i hi
  exact rowRef_of_rowOK (by simpa using this)

end StrTrees
end Bingo
