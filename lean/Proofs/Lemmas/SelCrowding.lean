import Model.Selection
/-!
# Lemmas about `Sel.crowding` / `Sel.detCrowding` (core Lean only)
-/
namespace Bingo
namespace Sel

/-- the child that the distance rule pairs with parent slot `2k` (`first = true`) or `2k+1` -/
def pairedChild (closer : Nat → Bool) (off : List Indv) (k : Nat) (first : Bool) : Option Indv :=
  if closer k = first then off[2*k]? else off[2*k+1]?

theorem getElem?_set_set_ne {β : Type} (l : List β) (x y j : Nat) (a b : β) (h1 : x ≠ j) (h2 : y ≠ j) :
    ((l.set x a).set y b)[j]? = l[j]? := by
  rw [List.getElem?_set_ne h2, List.getElem?_set_ne h1]

theorem crowding_go_spec (pick : Indv → Indv → Nat → Indv) (closer : Nat → Bool) (off : List Indv) :
    ∀ (fuel i : Nat) (cur : List Indv),
      2 * (i + fuel) ≤ cur.length → 2 * (i + fuel) ≤ off.length →
      ∃ out, crowding.go pick closer off i fuel cur = some out ∧ out.length = cur.length ∧
        (∀ j, (j < 2 * i ∨ 2 * (i + fuel) ≤ j) → out[j]? = cur[j]?) ∧
        (∀ k, i ≤ k → k < i + fuel → ∀ p1 p2 c1 c2,
          cur[2*k]? = some p1 → cur[2*k+1]? = some p2 →
          off[2*k]? = some c1 → off[2*k+1]? = some c2 →
          out[2*k]? = some (pick (if closer k then c1 else c2) p1 (2*k)) ∧
          out[2*k+1]? = some (pick (if closer k then c2 else c1) p2 (2*k+1))) := by
  intro fuel
  induction fuel with
  | zero =>
    intro i cur _ _
    exact ⟨cur, by simp [crowding.go], rfl, fun _ _ => rfl, fun k h1 h2 => by omega⟩
  | succ fuel ih =>
    intro i cur hc ho
    have h1 : 2 * i < cur.length := by omega
    have h2 : 2 * i + 1 < cur.length := by omega
    have h3 : 2 * i < off.length := by omega
    have h4 : 2 * i + 1 < off.length := by omega
    rw [crowding.go]
    simp only [List.getElem?_eq_getElem h1, List.getElem?_eq_getElem h2,
      List.getElem?_eq_getElem h3, List.getElem?_eq_getElem h4]
    generalize hab : (if closer i = true then
        (pick off[2*i] cur[2*i] (2*i), pick off[2*i+1] cur[2*i+1] (2*i+1))
      else (pick off[2*i+1] cur[2*i] (2*i), pick off[2*i] cur[2*i+1] (2*i+1))) = ab
    obtain ⟨a, b⟩ := ab
    simp only
    obtain ⟨out, hgo, hlen, hout, hin⟩ :=
      ih (i + 1) ((cur.set (2*i) a).set (2*i+1) b) (by simp; omega) (by omega)
    refine ⟨out, hgo, by simpa using hlen, ?_, ?_⟩
    · intro j hj
      rw [hout j (by omega)]
      exact getElem?_set_set_ne _ _ _ _ _ _ (by omega) (by omega)
    · intro k hk1 hk2 p1 p2 c1 c2 hp1 hp2 hc1 hc2
      by_cases hki : k = i
      · subst hki
        rw [List.getElem?_eq_getElem h1] at hp1
        rw [List.getElem?_eq_getElem h2] at hp2
        rw [List.getElem?_eq_getElem h3] at hc1
        rw [List.getElem?_eq_getElem h4] at hc2
        cases hp1; cases hp2; cases hc1; cases hc2
        rw [hout (2*k) (by omega), hout (2*k+1) (by omega)]
        have ha : a = pick (if closer k then off[2*k] else off[2*k+1]) cur[2*k] (2*k) := by
          cases hck : closer k <;> simp [hck] at hab ⊢ <;> exact hab.1.symm
        have hb : b = pick (if closer k then off[2*k+1] else off[2*k]) cur[2*k+1] (2*k+1) := by
          cases hck : closer k <;> simp [hck] at hab ⊢ <;> exact hab.2.symm
        simp only [List.getElem?_set, List.length_set]
        simp [h1, h2, ← ha, ← hb]
      · apply hin k (by omega) (by omega) p1 p2 c1 c2 _ _ hc1 hc2
        · rw [← hp1]; exact getElem?_set_set_ne _ _ _ _ _ _ (by omega) (by omega)
        · rw [← hp2]; exact getElem?_set_set_ne _ _ _ _ _ _ (by omega) (by omega)

/-- `crowding` succeeds exactly when both sizes are even and `target ≤ len/2` -/
theorem crowding_isSome_iff (pick : Indv → Indv → Nat → Indv) (closer : Nat → Bool)
    (population : List Indv) (target : Nat) :
    (crowding pick closer population target).isSome ↔
      population.length % 2 = 0 ∧ target % 2 = 0 ∧ target ≤ population.length / 2 := by
  unfold crowding
  by_cases h1 : population.length % 2 > 0 ∨ target % 2 > 0
  · simp only [h1, if_true]; simp; omega
  · simp only [h1, if_false]
    by_cases h2 : target > population.length / 2
    · simp only [h2, if_true]; simp; omega
    · simp only [h2, if_false]
      obtain ⟨out, hgo, -⟩ := crowding_go_spec pick closer (population.drop (population.length / 2))
        (target / 2) 0 (population.take (population.length / 2))
        (by simp; omega) (by simp; omega)
      rw [hgo]; simp; omega

/-- full description of what `crowding` returns -/
theorem crowding_spec {pick : Indv → Indv → Nat → Indv} {closer : Nat → Bool}
    {population : List Indv} {target : Nat} {out : List Indv}
    (h : crowding pick closer population target = some out) :
    let half := population.length / 2
    population.length % 2 = 0 ∧ target % 2 = 0 ∧ target ≤ half ∧
    out.length = half ∧
    (∀ j, target ≤ j → out[j]? = (population.take half)[j]?) ∧
    (∀ k, k < target / 2 → ∃ p1 p2 c1 c2,
      population[2*k]? = some p1 ∧ population[2*k+1]? = some p2 ∧
      population[half + 2*k]? = some c1 ∧ population[half + 2*k+1]? = some c2 ∧
      out[2*k]? = some (pick (if closer k then c1 else c2) p1 (2*k)) ∧
      out[2*k+1]? = some (pick (if closer k then c2 else c1) p2 (2*k+1))) := by
  intro half
  have hsome := (crowding_isSome_iff pick closer population target).mp (by rw [h]; rfl)
  obtain ⟨he1, he2, hle⟩ := hsome
  refine ⟨he1, he2, hle, ?_⟩
  unfold crowding at h
  have n1 : ¬ (population.length % 2 > 0 ∨ target % 2 > 0) := by omega
  have n2 : ¬ (target > population.length / 2) := by omega
  simp only [n1, n2, if_false] at h
  obtain ⟨out', hgo, hlen, hout, hin⟩ :=
    crowding_go_spec pick closer (population.drop half) (target / 2) 0 (population.take half)
      (by simp; omega) (by simp; omega)
  rw [hgo] at h; cases h
  refine ⟨by simp [hlen]; omega, ?_, ?_⟩
  · intro j hj; exact hout j (Or.inr (by omega))
  · intro k hk
    have a1 : 2 * k + 1 < half := by omega
    have a2 : half + 2 * k + 1 < population.length := by omega
    refine ⟨population[2*k], population[2*k+1], population[half + 2*k], population[half + 2*k+1],
      by simp, by simp, by simp, by simp, ?_⟩
    apply hin k (by omega) (by omega)
    · rw [List.getElem?_take]; simp; omega
    · rw [List.getElem?_take]; simp; omega
    · rw [List.getElem?_drop]; simp
    · rw [List.getElem?_drop]; simp [Nat.add_assoc]

/-! ## the deterministic rule -/

/-- "the child replaces the parent" -/
def childWins (c p : Indv) : Bool :=
  !c.key.isNan && (p.key.isNan || Key.lt c.key p.key)

theorem detMostFit_eq (c p : Indv) : detMostFit c p = if childWins c p then c else p := by
  unfold detMostFit childWins
  cases hc : c.key.isNan <;> cases hp : p.key.isNan <;> simp

theorem detMostFit_cases (c p : Indv) : detMostFit c p = c ∨ detMostFit c p = p := by
  rw [detMostFit_eq]; split <;> simp

/-- the result is never worse than the parent, and is NaN only if the parent is NaN and the child
is NaN too -/
theorem detMostFit_key (c p : Indv) :
    ((detMostFit c p).key.isNan = true ↔ c.key.isNan = true ∧ p.key.isNan = true) ∧
    (p.key.isNan = false → Key.le (detMostFit c p).key p.key = true) := by
  rw [detMostFit_eq]; unfold childWins
  rcases hc : c.key with _ | x <;> rcases hp : p.key with _ | y <;>
    simp [Key.isNan, Key.lt, Key.le, hc, hp]
  by_cases hxy : x < y <;> simp [hxy, hc, hp] <;> omega

end Sel
end Bingo
