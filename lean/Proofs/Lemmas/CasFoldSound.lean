import Proofs.Lemmas.CasFoldSoundB
/-!
# Soundness of constant folding (`fold_constants`)

`foldConstants_sound`: for an expression of the fragment `Ok k T` over variables and constants
(`TermT T`), the result of `fold_constants` refines the input up to a reparametrisation `cv'` of the
constants which depends on the old constant values only (not on the data row).

One pass (`performConstantFolding_sound`): for the subset `S` and the insertion points
`ips = findInsertionPoints e S`, the new value of the id zipped with the insertion point `K` is the old
value of `repOf S K` (`K` itself if `K` is constant-valued, else its first operand that depends on
nothing but `S`); all other ids keep their value.  The proof has three parts:
* shape (`ReplOK`, `LenOK`): nothing is deleted below a sum / product, a literal exponent stays, a
  deleted operand only occurs below an ill-formed node (meaning `none`);
* meaning of the inserted constants (`SemOK`);
* coverage: every operand that depends on nothing but `S`, and every constant-valued insertion point,
  is a key of the dictionary of its parent (`genZip_complete`, `search_complete`), so the recursion
  never reaches a terminal `CONSTANT j` with `j ∈ S`.
-/
namespace Bingo
namespace Cas
open Gen.OpDefs
open Expr

/-! ## small facts about meanings -/

theorem refines_getD (a : Option ℝ) : a ⊑ some (a.getD 0) := by
  cases a with
  | none => exact Refines.none_left _
  | some v => exact Refines.rfl'

theorem termDen_congr {x : List ℝ} {cv cv' : Int → ℝ} {o v : Int}
    (h : o = CONSTANT → cv' v = cv v) : termDen x cv o v = termDen x cv' o v := by
  unfold termDen
  by_cases h1 : o = INTEGER
  · rw [if_pos h1, if_pos h1]
  rw [if_neg h1, if_neg h1]
  by_cases h2 : o = VARIABLE
  · rw [if_pos h2, if_pos h2]
  rw [if_neg h2, if_neg h2]
  by_cases h3 : o = CONSTANT
  · rw [if_pos h3, if_pos h3, h h3]
  · rw [if_neg h3, if_neg h3]

theorem nodeDen_lit_irrel {o : Int} (h : o ≠ POWER) (lit lit' : Option Int)
    (vs : List (Option ℝ)) : nodeDen o lit vs = nodeDen o lit' vs := by
  unfold nodeDen
  by_cases h1 : o = ADDITION
  · rw [if_pos h1, if_pos h1]
  rw [if_neg h1, if_neg h1]
  by_cases h2 : o = MULTIPLICATION
  · rw [if_pos h2, if_pos h2]
  rw [if_neg h2, if_neg h2]
  rcases vs with _ | ⟨a, _ | ⟨b, _ | ⟨c, r⟩⟩⟩ <;> simp [h]

theorem nodeDen_none_of_len {o : Int} (h1 : o ≠ ADDITION) (h2 : o ≠ MULTIPLICATION)
    (lit : Option Int) {vs : List (Option ℝ)} (hl : 3 ≤ vs.length) : nodeDen o lit vs = none := by
  unfold nodeDen
  rw [if_neg h1, if_neg h2]
  rcases vs with _ | ⟨a, _ | ⟨b, _ | ⟨c, r⟩⟩⟩
  · simp at hl
  · simp at hl
  · simp at hl
  · rfl

theorem forall₂_imp_mem {R Q : Expr → Expr → Prop} {as bs : List Expr}
    (h : List.Forall₂ R as bs) (hi : ∀ a ∈ as, ∀ b, R a b → Q a b) : List.Forall₂ Q as bs := by
  induction h with
  | nil => exact .nil
  | cons h1 _ ih =>
    exact .cons (hi _ List.mem_cons_self _ h1) (ih fun a ha => hi a (List.mem_cons_of_mem _ ha))

theorem forall₂_map_den {x : List ℝ} {cv cv' : Int → ℝ} {as bs : List Expr}
    (h : List.Forall₂ (fun a b => den x cv a ⊑ den x cv' b) as bs) :
    List.Forall₂ (· ⊑ ·) (as.map (den x cv)) (bs.map (den x cv')) := by
  induction h with
  | nil => exact .nil
  | cons h1 _ ih => exact .cons h1 ih

/-- a node is monotone in its operands, also across two constant valuations -/
theorem den_node_mono {x : List ℝ} {cv cv' : Int → ℝ} {o : Int} {as bs : List Expr}
    (hlit : o = POWER → expLit as = expLit bs)
    (h : List.Forall₂ (fun a b => den x cv a ⊑ den x cv' b) as bs) :
    den x cv (node o as) ⊑ den x cv' (node o bs) := by
  rw [den_node, den_node]
  by_cases hp : o = POWER
  · rw [hlit hp]
    exact nodeDen_mono (forall₂_map_den h)
  · rw [nodeDen_lit_irrel hp (expLit as) (expLit bs)]
    exact nodeDen_mono (forall₂_map_den h)

theorem hasConstsList_of_mem {S : List Int} {l : List Expr} {a : Expr} (ha : a ∈ l)
    (h : hasConsts S a = true) : hasConstsList S l = true := by
  induction l with
  | nil => cases ha
  | cons b l ih =>
    simp only [hasConstsList, Bool.or_eq_true]
    rcases List.mem_cons.1 ha with rfl | ha
    · exact Or.inl h
    · exact Or.inr (ih ha)

theorem exists_hasOthers {S : List Int} {l : List Expr} (h : hasOthersList S l = true) :
    ∃ b ∈ l, hasOthers S b = true := by
  induction l with
  | nil => simp [hasOthersList] at h
  | cons a l ih =>
    simp only [hasOthersList, Bool.or_eq_true] at h
    rcases h with h | h
    · exact ⟨a, List.mem_cons_self, h⟩
    · obtain ⟨b, hb, hob⟩ := ih h
      exact ⟨b, List.mem_cons_of_mem _ hb, hob⟩

theorem isInsertionPoint_of {S : List Int} {l : List Expr} {a b : Expr} (ha : a ∈ l)
    (hca : hasConsts S a = true) (hoa : hasOthers S a = false) (hb : b ∈ l)
    (hob : hasOthers S b = true) : isInsertionPoint S l = true := by
  simp only [isInsertionPoint, Bool.and_eq_true, List.any_eq_true]
  exact ⟨⟨a, ha, by simp [hca, hoa]⟩, ⟨b, hb, hob⟩⟩

/-- the branch `None in replacements` returns a value stored under a key equal to the expression -/
theorem pCF_whole' {repl : Replacements} (hn : ¬ NoNoneKey repl) {e e' : Expr}
    (h : performConstantFolding repl e = .ok e') :
    ∃ pd ∈ repl, ∃ kv ∈ pd.2, kv.1.beq e = true ∧ kv.2 = some e' := by
  unfold NoNoneKey at hn
  cases hf : repl.find? (·.1.isNone) with
  | none => exact absurd hf hn
  | some pd =>
    obtain ⟨p, d⟩ := pd
    have hw : wholeReplacement? repl e =
        some (match d.find? (·.1.beq e) with
          | some (_, some c) => pure c
          | some (_, none) => throw "AttributeError"
          | none => throw "KeyError") := by
      unfold wholeReplacement?
      rw [hf]
      dsimp only
      split <;> (rename_i heq; rw [heq])
    have h' : (match d.find? (·.1.beq e) with
          | some (_, some c) => (pure c : R Expr)
          | some (_, none) => throw "AttributeError"
          | none => throw "KeyError") = .ok e' := by
      cases e <;> (rw [performConstantFolding, hw] at h; exact h)
    split at h'
    · rename_i k c hd
      cases h'
      have hb := List.find?_some hd
      exact ⟨(p, d), List.mem_of_find?_eq_some hf, (k, some e'), List.mem_of_find?_eq_some hd,
        hb, rfl⟩
    · cases h'
    · cases h'

/-! ## the new constant values -/

/-- the meaning of an inserted constant -/
def SemOK (cv cv' : Int → ℝ) (_p : Option Expr) (ch : Expr) (v : Option Expr) : Prop :=
  ∀ c, v = some c → ∃ j np, c = term CONSTANT j np ∧ ∀ x, den x cv ch ⊑ some (cv' j)

/-- the reparametrisation of one pass: the id zipped with the insertion point `K` takes the old value
of `repOf S K` (`0` if that is undefined), every other id keeps its value -/
noncomputable def newCv (S : List Int) (ips : InsertionPoints) (cv : Int → ℝ) : Int → ℝ :=
  fun j => match (S.zip ips).find? (fun p => p.1 == j) with
    | some (_, ks) => ((repOf S ks.1).den [] cv).getD 0
    | none => cv j

/-- a recorded insertion whose child equals `a` makes `a` a key of the dictionary of the parent -/
theorem matched_of_rec {repl : Replacements} {ips : InsertionPoints}
    (hcov : ∀ ks ∈ ips, ∀ ins ∈ ks.2, ∀ ch ∈ ins.2, HasKey repl ins.1 ch)
    {π : Option Expr} {chs : List Expr} (hrec : Rec ips (π, chs)) {c a : Expr} (hc : c ∈ chs)
    (hca : c.beq a = true) : ∃ kv ∈ dictFor repl π, kv.1.beq a = true := by
  obtain ⟨ks, hks, ins, hins, hpar, hsub⟩ := hrec
  obtain ⟨y, hy, hcy⟩ := hsub c hc
  obtain ⟨kv, hkv, hb⟩ := hcov ks hks ins hins y hy
  have hd : dictFor repl π = dictFor repl ins.1 := dictFor_congr repl (optBeq_congr_right hpar)
  rw [← hd] at hkv
  exact ⟨kv, hkv, beq_trans _ _ _ (beq_trans _ _ _ hb (beq_symm _ _ hcy)) hca⟩

/-! ## one pass, below the root -/

section rec
variable {k : Bool} {T : Int → Int → Bool} {S : List Int} {ips : InsertionPoints}
  {repl : Replacements} {cv cv' : Int → ℝ}

theorem pCF_sound_rec (hn : NoNoneKey repl) (hshape : RInv (ReplOK T True) repl)
    (hsem : RInv (SemOK cv cv') repl) (hlen : RInv LenOK repl)
    (hout : ∀ j, S.contains j = false → cv' j = cv j)
    (hcov : ∀ ks ∈ ips, ∀ ins ∈ ks.2, ∀ ch ∈ ins.2, HasKey repl ins.1 ch) :
    ∀ u π u1,
      (∀ π' o as, Occ u π π' (node o as) → isInsertionPoint S as = true →
        Rec ips (canonIns S π' (node o as))) →
      Ok k T u = true →
      (hasConsts S u = true → hasOthers S u = true) →
      (∀ o as, u = node o as → isInsertionPoint S as = true → isCV u = false) →
      performConstantFolding repl u = .ok u1 → ∀ x, den x cv u ⊑ den x cv' u1 := by
  intro u
  induction u using Expr.ind' with
  | ht o v n =>
    intro π u1 _ _ hI _ h x
    rw [pCF_term hn] at h
    cases h
    rw [den_term, den_term]
    refine Refines.of_eq (termDen_congr fun ho => hout v ?_)
    subst ho
    cases hc : S.contains v with
    | false => rfl
    | true =>
      have hmem : v ∈ S := List.contains_iff_mem.1 hc
      have h1 := hI (by simp [hasConsts, hmem])
      have e1 : (CONSTANT == VARIABLE) = false := by decide
      simp [hasOthers, hmem, e1] at h1
  | hn o as ih =>
    intro π u1 hrec hok hI hJ h x
    obtain ⟨bs, hf, rfl⟩ := pCF_node hn h
    obtain ⟨hs, hm⟩ := Ok_node.1 hok
    have hrel := foldOperands_rel repl _ as bs hf
    have hd1 := replacementsFor_inv hshape (node o as)
    have hd2 := replacementsFor_inv hsem (node o as)
    have hd3 := replacementsFor_inv hlen (node o as)
    have hstep : ∀ a ∈ as, ∀ b,
        ((∃ kv ∈ replacementsFor repl (node o as), kv.1.beq a = true ∧ kv.2 = some b) ∨
          ((∀ kv ∈ replacementsFor repl (node o as), kv.1.beq a = false) ∧
            performConstantFolding repl a = .ok b)) → den x cv a ⊑ den x cv' b := by
      intro a ha b hR
      rcases hR with ⟨kv, hkv, hbeq, hv⟩ | ⟨hnot, hp⟩
      · obtain ⟨p, _, hΦ⟩ := hd2 kv hkv
        obtain ⟨j, np, rfl, hden⟩ := hΦ b hv
        rw [den_const, ← beq_den x cv kv.1 a hbeq]
        exact hden x
      · refine ih a ha (some (node o as)) b
          (fun π' o' as' hocc hip => hrec π' o' as' (Occ.under ha hocc) hip) (hm a ha) ?_ ?_ hp x
        · intro hca
          by_contra hoa
          have hoa' : hasOthers S a = false := by simpa using hoa
          have hcu : hasConsts S (node o as) = true := by
            simp only [hasConsts]; exact hasConstsList_of_mem ha hca
          have hou := hI hcu
          simp only [hasOthers] at hou
          obtain ⟨b', hb', hob'⟩ := exists_hasOthers hou
          have hip := isInsertionPoint_of ha hca hoa' hb' hob'
          have hncv := hJ o as rfl hip
          have hrec' := hrec π o as (Occ.here _ _) hip
          unfold canonIns at hrec'
          rw [if_neg (by simp [hncv])] at hrec'
          have hmem : a ∈ (node o as).args.filter fun o => !hasOthers S o :=
            List.mem_filter.2 ⟨ha, by simp [hoa']⟩
          obtain ⟨y0, hy0, hy0a⟩ := exists_dedup_beq hmem
          obtain ⟨kv, hkv, hb⟩ := matched_of_rec hcov hrec' hy0 hy0a
          have := hnot kv hkv
          rw [hb] at this
          cases this
        · intro o' as' hau hip'
          by_contra hcv
          have hcv' : isCV a = true := by simpa using hcv
          subst hau
          have hrec' := hrec (some (node o as)) o' as' (Occ.under ha (Occ.here _ _)) hip'
          unfold canonIns at hrec'
          rw [if_pos hcv'] at hrec'
          obtain ⟨kv, hkv, hb⟩ := matched_of_rec hcov hrec' List.mem_cons_self (beq_refl _)
          have := hnot kv hkv
          rw [hb] at this
          cases this
    by_cases hp : o = POWER
    · subst hp
      obtain ⟨b0, n, np, rfl⟩ := shapeOK_pow_args hs
      have hpow : ∀ kv ∈ replacementsFor repl (node POWER [b0, term INTEGER n np]),
          (∃ o as, kv.1 = node o as) ∧ kv.2.isSome = true := by
        intro kv hkv
        obtain ⟨p, hpb, hΦ⟩ := hd1 kv hkv
        obtain ⟨q, rfl, hq⟩ := optBeq_some_right hpb
        obtain ⟨b', np', rfl⟩ := beq_powLit_right hq
        exact hΦ.2.1 b' n np' rfl
      have h2 := hrel.forall₂ (by
        rintro a _ ⟨kv, hkv, _, hv⟩
        have := (hpow kv hkv).2
        rw [hv] at this
        cases this)
      match bs, h2 with
      | [b', l'], .cons hb (.cons hl .nil) =>
        have hl' : l' = term INTEGER n np := by
          rcases hl with ⟨kv, hkv, hbeq, _⟩ | ⟨_, hp⟩
          · obtain ⟨⟨o', as', hnode⟩, _⟩ := hpow kv hkv
            rw [hnode] at hbeq
            simp [beq] at hbeq
          · rw [pCF_term hn] at hp
            cases hp
            rfl
        subst hl'
        rw [den_pow_lit, den_pow_lit]
        exact bind_mono (hstep b0 List.mem_cons_self b' hb) fun _ => Refines.rfl'
    · by_cases hop : o = ADDITION ∨ o = MULTIPLICATION
      · have h2 := hrel.forall₂ (by
          rintro a _ ⟨kv, hkv, _, hv⟩
          obtain ⟨p, hpb, hΦ⟩ := hd1 kv hkv
          obtain ⟨q, rfl, hq⟩ := optBeq_some_right hpb
          have := (hΦ.2.2 trivial).2 q rfl (by rw [beq_op hq]; exact hop)
          rw [hv] at this
          cases this)
        exact den_node_mono (fun h => absurd h hp) (forall₂_imp_mem h2 hstep)
      · by_cases hdel : ∃ a ∈ as, ∃ kv ∈ replacementsFor repl (node o as),
            kv.1.beq a = true ∧ kv.2 = none
        · obtain ⟨a, ha, kv, hkv, hbeq, hv⟩ := hdel
          obtain ⟨p, hpb, hΦ⟩ := hd3 kv hkv
          obtain ⟨q, rfl, hq⟩ := optBeq_some_right hpb
          have h3 := hΦ hv q rfl
          obtain ⟨as', rfl, has'⟩ := beq_node_right hq
          simp only [Expr.args] at h3
          rw [beqList_length has'] at h3
          rw [den_node, nodeDen_none_of_len (fun h => hop (Or.inl h)) (fun h => hop (Or.inr h)) _
            (by simpa using h3)]
          exact Refines.none_left _
        · have h2 := hrel.forall₂ (fun a ha hD => hdel ⟨a, ha, hD⟩)
          exact den_node_mono (fun h => absurd h hp) (forall₂_imp_mem h2 hstep)

end rec

/-! ## one pass -/

/-- the entries created for the pair `(j, ks)` of the zip carry the meaning `newCv` gives to `j` -/
theorem insCond_sem {e : Expr} (hg : Grp e = true)
    {S : List Int} (hS : S.Nodup) (cv : Int → ℝ) {j : Int} {ks : Expr × List Insertion}
    (hjk : (j, ks) ∈ S.zip (findInsertionPoints e S)) {c : Expr}
    (hl : (getConstants e).lookup j = some c) {ins : Insertion} (hins : ins ∈ ks.2) :
    InsCond (SemOK cv (newCv S (findInsertionPoints e S) cv)) c ins := by
  intro cv0 hcv0 p ch' _ hch c' hv
  obtain ⟨ch, v⟩ := cv0
  dsimp only at hv hch
  subst hv
  obtain ⟨hhead, rfl⟩ := vals_some hcv0
  obtain ⟨np, rfl⟩ := getConstants_lookup_shape hl
  refine ⟨j, np, rfl, fun x => ?_⟩
  have hks : ks ∈ findInsertionPoints e S := (List.of_mem_zip hjk).2
  have hmem : ch ∈ ins.2 := List.mem_of_head? hhead
  have hcvch : isCV ch = true := by
    rcases findInsertionPoints_inv (S := S) (strong := True) (fun _ => hg) ks hks ins hins with
      ⟨o, as, h2, hcvn⟩ | ⟨o, args, _, _, h3⟩ | ⟨_, h3⟩
    · rw [h2, List.mem_singleton] at hmem
      rw [hmem]; exact hcvn
    · exact (h3 trivial).1 ch hmem
    · exact h3 trivial ch hmem
  have hnew : newCv S (findInsertionPoints e S) cv j = ((repOf S ks.1).den [] cv).getD 0 := by
    unfold newCv
    rw [zip_find_of_nodup S _ hS j ks hjk]
  rw [hnew, beq_den x cv ch' ch hch, den_indep_of_isCV hcvch x [] cv,
    findInsertionPoints_headOK hg ks hks ins hins ch hhead [] cv]
  exact refines_getD _

/-- ONE PASS.  For the replacement instructions `_generate_replacement_instructions` returns for a
duplicate-free subset `S` of constant ids (non-empty instructions: the only ones `fold_constants` acts
on), the folded expression refines the input after the reparametrisation `newCv`. -/
theorem performConstantFolding_sound {k : Bool} {T : Int → Int → Bool} {e e1 : Expr}
    {S : List Int} {repl : Replacements} (hok : Ok k T e = true) (hg : Grp e = true)
    (hS : S.Nodup)
    (hgen : generateReplacements S (getConstants e) (findInsertionPoints e S) = .ok repl)
    (hne : repl.isEmpty = false) (hp : performConstantFolding repl e = .ok e1) (cv : Int → ℝ) :
    ∀ x, den x cv e ⊑ den x (newCv S (findInsertionPoints e S) cv) e1 := by
  obtain ⟨hlen, insL, reps, hz⟩ := generateReplacements_nonempty hgen hne
  have hshape : RInv (ReplOK T True) repl :=
    generateReplacements_good (strong := True) hok (fun _ => hg) hgen
  have hsem : RInv (SemOK cv (newCv S (findInsertionPoints e S) cv)) repl :=
    genZip_inv_zip S _ _ _ (RInv_nil _)
      (fun j ks hjk c hl ins hins => insCond_sem hg hS cv hjk hl hins) hz
  have hlenOK : RInv LenOK repl :=
    genZip_inv S _ _ _ (RInv_nil _)
      (fun _ _ _ ks hks ins hins => insCond_lenOK (findInsertionPoints_lenIns S e ks hks ins hins)) hz
  have hcov := (genZip_complete S _ _ _ hlen hz).2
  have hout : ∀ j, S.contains j = false → newCv S (findInsertionPoints e S) cv j = cv j := by
    intro j hj
    unfold newCv
    rw [zip_find_none _ hj]
  by_cases hn : NoNoneKey repl
  · by_cases hcond : (hasConsts S e && !hasOthers S e) = true
    · exfalso
      have hips : findInsertionPoints e S = [(e, [(none, [e])])] := by
        unfold findInsertionPoints
        rw [if_pos hcond]
      rw [hips] at hcov
      exact not_noNoneKey_of_hasKey
        (hcov (e, [(none, [e])]) List.mem_cons_self (none, [e]) List.mem_cons_self e
          List.mem_cons_self) hn
    · have hips : findInsertionPoints e S = searchInsertionPoints S e none [] := by
        unfold findInsertionPoints
        rw [if_neg hcond]
      have hrec : ∀ π' o as, Occ e none π' (node o as) → isInsertionPoint S as = true →
          Rec (findInsertionPoints e S) (canonIns S π' (node o as)) := by
        intro π' o as hocc hip
        rw [hips]
        exact (search_complete S e none []).2 π' o as hocc hip
      refine pCF_sound_rec hn hshape hsem hlenOK hout hcov e none e1 hrec hok ?_ ?_ hp
      · intro hc
        by_contra ho
        exact hcond (by simp [hc, ho])
      · intro o as he hip
        by_contra hcv
        have hcv' : isCV e = true := by simpa using hcv
        subst he
        have hrec' := hrec none o as (Occ.here _ _) hip
        unfold canonIns at hrec'
        rw [if_pos hcv'] at hrec'
        obtain ⟨kv, hkv, hb⟩ := matched_of_rec hcov hrec' List.mem_cons_self (beq_refl _)
        exact not_noNoneKey_of_hasKey ⟨kv, hkv, hb⟩ hn
  · obtain ⟨pd, hpd, kv, hkv, hbeq, hv⟩ := pCF_whole' hn hp
    obtain ⟨j, np, rfl, hden⟩ := hsem pd hpd kv hkv e1 hv
    intro x
    rw [den_const, ← beq_den x cv kv.1 e hbeq]
    exact hden x

/-! ## the loop and `fold_constants` -/

/-- the `while check_for_folding` loop: compose the reparametrisations pass by pass -/
theorem foldLoop_sound {k : Bool} {T : Int → Int → Bool} : ∀ (fuel : Nat) (e e' : Expr),
    Ok k T e = true → Grp e = true → foldLoop fuel e = .ok e' →
    ∀ cv : Int → ℝ, ∃ cv' : Int → ℝ, ∀ x : List ℝ, e.den x cv ⊑ e'.den x cv' := by
  intro fuel
  induction fuel with
  | zero => intro e e' _ _ h; rw [foldLoop] at h; cases h
  | succ fuel ih =>
    intro e e' hok hg h cv
    rw [foldLoop] at h
    cases hff : firstFold e (getConstants e) ((getConstants e).map (·.1))
        ((getConstants e).map (·.1)).length 1 with
    | error s => simp only [hff] at h; cases h
    | ok o =>
      simp only [hff] at h
      cases o with
      | none =>
        change Except.ok e = Except.ok e' at h
        cases h
        exact ⟨cv, fun x => Refines.rfl'⟩
      | some repl =>
        obtain ⟨S, hS, hne, hgen⟩ := firstFold_some' (getConstants_ok e).1 _ _ _ hff
        have hr : RInv (ReplOK T True) repl :=
          generateReplacements_good (strong := True) hok (fun _ => hg) hgen
        change (performConstantFolding repl e >>= fun x => foldLoop fuel x) = Except.ok e' at h
        cases hp : performConstantFolding repl e with
        | error s => rw [hp] at h; cases h
        | ok e1 =>
          rw [hp] at h
          change foldLoop fuel e1 = Except.ok e' at h
          have h1 := performConstantFolding_sound hok hg hS hgen hne hp cv
          obtain ⟨cv', h2⟩ := ih e1 e' (pCF_top_ok (fun _ => trivial) hr hok hp)
            (pCF_top_grp hr hg hp) h (newCv S (findInsertionPoints e S) cv)
          exact ⟨cv', fun x => (h1 x).trans (h2 x)⟩

/-- SOUNDNESS OF `fold_constants`.  Over variables and constants (`TermT T`), for an expression of
the fragment `Ok k T` (either `k`): whatever values `cv` the constants have, there are new values `cv'`
(independent of the data row `x`) under which the folded expression is defined and equal wherever the
input is defined. -/
theorem foldConstants_sound {k : Bool} {T : Int → Int → Bool} (hT : TermT T) {fuel : Nat}
    {e e' : Expr} (hok : Ok k T e = true) (h : foldConstants fuel e = .ok e') :
    ∀ cv : Int → ℝ, ∃ cv' : Int → ℝ, ∀ x : List ℝ, e.den x cv ⊑ e'.den x cv' := by
  intro cv
  obtain ⟨cv', h2⟩ := foldLoop_sound fuel (groupConstants e) e' (groupConstants_ok hok)
    (groupConstants_grp hT e hok).1 h cv
  exact ⟨cv', fun x => by rw [← groupConstants_sound e x cv]; exact h2 x⟩

/-- the statement of `foldConstants_sound_Full` restricted to the fragment -/
theorem foldConstants_sound_varsBelow {k : Bool} {D : Nat} {fuel : Nat} {e e' : Expr}
    (hok : Ok k (varsBelow D) e = true) (h : foldConstants fuel e = .ok e') :
    ∀ cv : Int → ℝ, ∃ cv' : Int → ℝ, ∀ x : List ℝ, e.den x cv ⊑ e'.den x cv' :=
  foldConstants_sound (termT_varsBelow D) hok h

/-- the most permissive admissible-terminal predicate with `TermT`: any variable, any constant -/
def anyVC : Int → Int → Bool := fun o _ => o == VARIABLE || o == CONSTANT

theorem termT_anyVC : TermT anyVC := by
  intro o v h
  simpa [anyVC] using h

/-- the weakest form in this framework: every `POWER` has an integer literal exponent, there is no
`SAFE_POWER`, and every terminal is an `INTEGER`, a `VARIABLE` or a `CONSTANT` -/
theorem foldConstants_sound_weak {fuel : Nat} {e e' : Expr}
    (hok : Ok false anyVC e = true) (h : foldConstants fuel e = .ok e') :
    ∀ cv : Int → ℝ, ∃ cv' : Int → ℝ, ∀ x : List ℝ, e.den x cv ⊑ e'.den x cv' :=
  foldConstants_sound termT_anyVC hok h

/-- `Ok k T` with `TermT T` implies the weak hypothesis -/
theorem Ok_anyVC {k : Bool} {T : Int → Int → Bool} (hT : TermT T) {e : Expr}
    (hok : Ok k T e = true) : Ok false anyVC e = true :=
  Ok_mono (fun o v h => by
    rcases hT o v h with rfl | rfl <;> simp [anyVC]) (Ok_weaken hok)

end Cas
end Bingo
