import Model.ParArch
import Proofs.Lemmas.ParArch
/-!
# C12 -- liveness accounting for the ParallelArchipelago message protocol, part 1

Runs of `Model/ParArch.lean` as action lists and the classification of actions.  (The inversion of `step`
into one constructor per protocol transition, `Step0` / `StepHC`, is in `Proofs/Lemmas/ParArchSteps.lean`;
the extra invariant `Mono` is in `ParArchLiveMono.lean`; the budget
`target_total_age - sum(total_age.values())` of rank 0's loop, which never grows, in `ParArchLivePot.lean`.)
-/
set_option linter.unusedSimpArgs false
set_option linter.unusedVariables false
namespace Bingo
namespace C12
open ParArch

/-! ## runs -/

/-- replay a list of actions through `step`; `none` as soon as one action is not enabled -/
def run (s : State) : List Action → Option State
  | [] => some s
  | a :: as =>
    match step s a with
    | none => none
    | some s' => run s' as

theorem run_nil (s : State) : run s [] = some s := rfl

theorem run_cons {s : State} {a : Action} {as : List Action} {s' : State} (h : step s a = some s') :
    run s (a :: as) = run s' as := by
  simp only [run, h]

theorem run_cons_inv {s t : State} {a : Action} {as : List Action} (h : run s (a :: as) = some t) :
    ∃ s', step s a = some s' ∧ run s' as = some t := by
  simp only [run] at h
  cases hs : step s a with
  | none => simp [hs] at h
  | some s' => rw [hs] at h; exact ⟨s', rfl, h⟩

theorem run_append {s : State} {as bs : List Action} {t : State} :
    run s (as ++ bs) = some t ↔ ∃ m, run s as = some m ∧ run m bs = some t := by
  induction as generalizing s with
  | nil => simp [run]
  | cons a as ih =>
    simp only [List.cons_append, run]
    cases hs : step s a with
    | none => simp
    | some s' => simp only []; exact ih

theorem run_reachable {s t : State} {as : List Action} (h : run s as = some t) : Reachable s t := by
  suffices H : ∀ (s0 : State), Reachable s0 s → Reachable s0 t from H s .init
  induction as generalizing s with
  | nil => intro s0 hr; simp [run] at h; subst h; exact hr
  | cons a as ih =>
    intro s0 hr
    obtain ⟨s', hs, hrun⟩ := run_cons_inv h
    exact ih hrun s0 (.step hr hs)

theorem run_inv {s t : State} {as : List Action} (inv : Inv s) (h : run s as = some t) : Inv t :=
  inv_reachable inv (run_reachable h)

/-! ## classification of actions -/

/-- a scheduling point inside `island.evolve` -/
def isTick : Action → Bool
  | .tick _ => true
  | _ => false

/-- a protocol operation (anything but a scheduling point inside a slice) -/
def nonTick (a : Action) : Bool := !isTick a

/-- a protocol operation of rank 0 -/
def r0Proto (a : Action) : Bool := a.rank == 0 && !isTick a

/-- a protocol operation of rank `r` -/
def rProto (r : Nat) (a : Action) : Bool := a.rank == r && !isTick a

/-- completion of one `island.evolve` slice of rank 0 = one iteration of
`while sum(total_age.values()) < target_total_age` -/
def isEvolve0 : Action → Bool
  | .evolve r _ => r == 0
  | _ => false

/-- an `isend` of a helper; the only enabled one is `_send_updated_age` (AGE_UPDATE to rank 0) -/
def helperSend : Action → Bool
  | .isend r _ _ => r != 0
  | _ => false

/-- hypothesis on observed slice lengths: every slice of rank 0 adds at least one generation
(`sync_frequency ≥ 1`) -/
def slicePos : Action → Bool
  | .evolve r k => r != 0 || decide (0 < k)
  | _ => true

end C12
end Bingo
