import Model.ParArch
import Proofs.Lemmas.ParArch
/-!
# C12 -- liveness accounting for the ParallelArchipelago message protocol, part 1

Runs of `Model/ParArch.lean` as action lists, an inversion of `step` into one constructor per protocol
transition (`Step0`, `StepHC`), the extra invariant `Mono` (per source, the ages waiting in rank 0's
mailbox are non-decreasing and not below the `total_age` entry of that source), and the budget
`R * target - sum(total_age.values())` of rank 0's loop, which never grows.
-/
set_option linter.unusedSimpArgs false
set_option linter.unusedVariables false
namespace Bingo
namespace C12
open ParArch

/-! ## runs -/

/-- replay a list of actions through `step`; `none` as soon as one action is not enabled -/
def run (s : State) : List Action → Option State
  | [] => some s
  | a :: as =>
    match step s a with
    | none => none
    | some s' => run s' as

theorem run_nil (s : State) : run s [] = some s := rfl

theorem run_cons {s : State} {a : Action} {as : List Action} {s' : State} (h : step s a = some s') :
    run s (a :: as) = run s' as := by
  simp only [run, h]

theorem run_cons_inv {s t : State} {a : Action} {as : List Action} (h : run s (a :: as) = some t) :
    ∃ s', step s a = some s' ∧ run s' as = some t := by
  simp only [run] at h
  cases hs : step s a with
  | none => simp [hs] at h
  | some s' => rw [hs] at h; exact ⟨s', rfl, h⟩

theorem run_append {s : State} {as bs : List Action} {t : State} :
    run s (as ++ bs) = some t ↔ ∃ m, run s as = some m ∧ run m bs = some t := by
  induction as generalizing s with
  | nil => simp [run]
  | cons a as ih =>
    simp only [List.cons_append, run]
    cases hs : step s a with
    | none => simp
    | some s' => simp only []; exact ih

theorem run_reachable {s t : State} {as : List Action} (h : run s as = some t) : Reachable s t := by
  suffices H : ∀ (s0 : State), Reachable s0 s → Reachable s0 t from H s .init
  induction as generalizing s with
  | nil => intro s0 hr; simp [run] at h; subst h; exact hr
  | cons a as ih =>
    intro s0 hr
    obtain ⟨s', hs, hrun⟩ := run_cons_inv h
    exact ih hrun s0 (.step hr hs)

theorem run_inv {s t : State} {as : List Action} (inv : Inv s) (h : run s as = some t) : Inv t :=
  inv_reachable inv (run_reachable h)

/-! ## classification of actions -/

/-- a scheduling point inside `island.evolve` -/
def isTick : Action → Bool
  | .tick _ => true
  | _ => false

/-- a protocol operation (anything but a scheduling point inside a slice) -/
def nonTick (a : Action) : Bool := !isTick a

/-- a protocol operation of rank 0 -/
def r0Proto (a : Action) : Bool := a.rank == 0 && !isTick a

/-- a protocol operation of rank `r` -/
def rProto (r : Nat) (a : Action) : Bool := a.rank == r && !isTick a

/-- completion of one `island.evolve` slice of rank 0 = one iteration of `while average_age < target_age` -/
def isEvolve0 : Action → Bool
  | .evolve r _ => r == 0
  | _ => false

/-- an `isend` of a helper; the only enabled one is `_send_updated_age` (AGE_UPDATE to rank 0) -/
def helperSend : Action → Bool
  | .isend r _ _ => r != 0
  | _ => false

/-- hypothesis on observed slice lengths: every slice of rank 0 adds at least one generation
(`sync_frequency ≥ 1`) -/
def slicePos : Action → Bool
  | .evolve r k => r != 0 || decide (0 < k)
  | _ => true

/-! ## inversion of `step0` / `stepH`: one constructor per protocol transition -/

/-- the transitions of rank 0 -/
inductive Step0 (s : State) : Action → State → Prop
  | tick (r : Nat) (h : s.pc0 = .evolving) : Step0 s (.tick r) s
  | evolve (r k : Nat) (h : s.pc0 = .evolving) :
      Step0 s (.evolve r k)
        { s with ages := s.ages.set 0 (age s 0 + k), table := s.table.set 0 (some (age s 0 + k)), pc0 := .draining none }
  | probeSome (r q : Nat) (h : s.pc0 = .draining none) (hq : headSource s = some q) :
      Step0 s (.iprobe r none tagAge (some q)) { s with pc0 := .draining (some q) }
  | probeLoop (r : Nat) (h : s.pc0 = .draining none) (hq : headSource s = none) (hb : belowTarget s = true) :
      Step0 s (.iprobe r none tagAge none) { s with pc0 := .evolving }
  | probeExit (r : Nat) (h : s.pc0 = .draining none) (hq : headSource s = none) (hb : belowTarget s = false) :
      Step0 s (.iprobe r none tagAge none) { s with pc0 := afterExit s.R 1 }
  | probeSomeF (r q : Nat) (h : s.pc0 = .finalDrain none) (hq : headSource s = some q) :
      Step0 s (.iprobe r none tagAge (some q)) { s with pc0 := .finalDrain (some q) }
  | probeDone (r : Nat) (h : s.pc0 = .finalDrain none) (hq : headSource s = none) :
      Step0 s (.iprobe r none tagAge none) { s with pc0 := .done }
  | recv (r src a : Nat) (rest : List (Nat × Nat)) (h : s.pc0 = .draining (some src))
      (ht : takeFrom src s.mbox = some (a, rest)) :
      Step0 s (.recv r src tagAge) { s with mbox := rest, table := s.table.set src (some a), pc0 := .draining none }
  | recvF (r src a : Nat) (rest : List (Nat × Nat)) (h : s.pc0 = .finalDrain (some src))
      (ht : takeFrom src s.mbox = some (a, rest)) :
      Step0 s (.recv r src tagAge) { s with mbox := rest, table := s.table.set src (some a), pc0 := .finalDrain none }
  | sendExit (r k : Nat) (h : s.pc0 = .sendingExit k) (hk : k < s.R) :
      Step0 s (.isend r k tagExit)
        { s with exitQ := s.exitQ.set k (s.exitQ.getD k 0 + 1), pc0 := afterExit s.R (k + 1) }
  | enter (r : Nat) (h : s.pc0 = .atBarrier) :
      Step0 s (.barrierEnter r) { s with arrived := s.arrived.set 0 true, pc0 := .inBarrier }
  | leave (r : Nat) (h : s.pc0 = .inBarrier) (ha : allArrived s = true) :
      Step0 s (.barrierLeave r) { s with table := s.table.set 0 (some (age s 0)), pc0 := .finalDrain none }

theorem step0_cases {s s' : State} {a : Action} (h : step0 s a = some s') : Step0 s a s' := by
  cases a with
  | tick r =>
    simp only [step0] at h
    split at h
    · rename_i hpc; injection h with h; subst h; exact .tick r (by simpa using hpc)
    · cases h
  | evolve r k =>
    simp only [step0] at h
    split at h
    · rename_i hpc; injection h with h; subst h; exact .evolve r k (by simpa using hpc)
    · cases h
  | iprobe r src tag found =>
    simp only [step0] at h
    split at h
    · cases h
    · rename_i hc
      simp only [bne_iff_ne, ne_eq, Bool.or_eq_true, decide_eq_true_eq, not_or, Decidable.not_not] at hc
      obtain ⟨⟨hsrc, htag⟩, hfound⟩ := hc
      subst hsrc htag
      split at h
      · rename_i q hpc; injection h with h; subst h; exact .probeSome r q hpc hfound.symm
      · rename_i hpc
        injection h with h; subst h
        by_cases hb : belowTarget s = true
        · simp only [hb, if_true]; exact .probeLoop r hpc hfound.symm hb
        · have hb' : belowTarget s = false := by simpa using hb
          simp only [hb', Bool.false_eq_true, if_false]; exact .probeExit r hpc hfound.symm hb'
      · rename_i q hpc; injection h with h; subst h; exact .probeSomeF r q hpc hfound.symm
      · rename_i hpc; injection h with h; subst h; exact .probeDone r hpc hfound.symm
      · cases h
  | recv r src tag =>
    simp only [step0] at h
    split at h
    · cases h
    · rename_i htag
      have htag : tag = tagAge := by simpa using htag
      subst htag
      split at h
      · rename_i q hpc
        split at h
        · cases h
        · rename_i hq
          have hq : q = src := by simpa using hq
          subst hq
          split at h
          · cases h
          · rename_i a rest htake
            injection h with h; subst h
            exact .recv r q a rest hpc htake
      · rename_i q hpc
        split at h
        · cases h
        · rename_i hq
          have hq : q = src := by simpa using hq
          subst hq
          split at h
          · cases h
          · rename_i a rest htake
            injection h with h; subst h
            exact .recvF r q a rest hpc htake
      · cases h
  | isend r dest tag =>
    simp only [step0] at h
    split at h
    · rename_i k hpc
      split at h
      · cases h
      · rename_i hc
        simp only [bne_iff_ne, ne_eq, Bool.or_eq_true, decide_eq_true_eq, not_or, Decidable.not_not,
          Bool.not_eq_true', decide_eq_false_iff_not] at hc
        obtain ⟨⟨hd, ht⟩, hk⟩ := hc
        subst hd ht
        injection h with h; subst h
        exact .sendExit r dest hpc hk
    · cases h
  | barrierEnter r =>
    simp only [step0] at h
    split at h
    · rename_i hpc; injection h with h; subst h; exact .enter r (by simpa using hpc)
    · cases h
  | barrierLeave r =>
    simp only [step0] at h
    split at h
    · rename_i hpc
      injection h with h; subst h
      simp at hpc
      exact .leave r hpc.1 hpc.2
    · cases h

/-- the transitions of helper `r` -/
inductive StepHC (s : State) (r : Nat) : Action → State → Prop
  | tick (r' : Nat) (h : pcOf s r = .evolving) : StepHC s r (.tick r') s
  | evolve (r' k : Nat) (h : pcOf s r = .evolving) :
      StepHC s r (.evolve r' k) { s with ages := s.ages.set r (age s r + k), pcH := s.pcH.set r .sending }
  | send (r' : Nat) (h : pcOf s r = .sendFirst ∨ pcOf s r = .sending) :
      StepHC s r (.isend r' 0 tagAge) { s with mbox := s.mbox ++ [(r, age s r)], pcH := s.pcH.set r .checking }
  | probeYes (r' : Nat) (h : pcOf s r = .checking) (hq : 0 < s.exitQ.getD r 0) :
      StepHC s r (.iprobe r' (some 0) tagExit (some 0)) { s with pcH := s.pcH.set r .recvExit }
  | probeNo (r' : Nat) (h : pcOf s r = .checking) (hq : s.exitQ.getD r 0 = 0) :
      StepHC s r (.iprobe r' (some 0) tagExit none) { s with pcH := s.pcH.set r .evolving }
  | recv (r' : Nat) (h : pcOf s r = .recvExit) (hq : s.exitQ.getD r 0 ≠ 0) :
      StepHC s r (.recv r' 0 tagExit)
        { s with exitQ := s.exitQ.set r (s.exitQ.getD r 0 - 1), pcH := s.pcH.set r .atBarrier }
  | enter (r' : Nat) (h : pcOf s r = .atBarrier) :
      StepHC s r (.barrierEnter r') { s with arrived := s.arrived.set r true, pcH := s.pcH.set r .inBarrier }
  | leave (r' : Nat) (h : pcOf s r = .inBarrier) (ha : allArrived s = true) :
      StepHC s r (.barrierLeave r') { s with pcH := s.pcH.set r .done }

theorem stepH_cases {s s' : State} {a : Action} {r : Nat} (h : stepH s r a = some s') : StepHC s r a s' := by
  cases a with
  | tick r' =>
    simp only [stepH] at h
    split at h
    · rename_i hpc; injection h with h; subst h; exact .tick r' (by simpa using hpc)
    · cases h
  | evolve r' k =>
    simp only [stepH] at h
    split at h
    · rename_i hpc; injection h with h; subst h; exact .evolve r' k (by simpa using hpc)
    · cases h
  | isend r' dest tag =>
    simp only [stepH] at h
    split at h
    · cases h
    · rename_i hc
      simp only [bne_iff_ne, ne_eq, Bool.or_eq_true, decide_eq_true_eq, not_or, Decidable.not_not] at hc
      obtain ⟨hd, ht⟩ := hc
      subst hd ht
      split at h
      · rename_i hpc
        injection h with h; subst h
        exact .send r' (by simpa using hpc)
      · cases h
  | iprobe r' src tag found =>
    simp only [stepH] at h
    split at h
    · cases h
    · rename_i hc
      simp only [bne_iff_ne, ne_eq, Bool.or_eq_true, decide_eq_true_eq, not_or, Decidable.not_not] at hc
      obtain ⟨⟨hsrc, htag⟩, hpc⟩ := hc
      subst hsrc htag
      by_cases hq : s.exitQ.getD r 0 > 0
      · simp only [hq, decide_true, if_true] at h
        split at h
        · cases h
        · rename_i hf
          have hf : found = some 0 := by simpa using hf
          subst hf
          injection h with h; subst h
          exact .probeYes r' hpc hq
      · simp only [hq, decide_false, Bool.false_eq_true, if_false] at h
        split at h
        · cases h
        · rename_i hf
          have hf : found = none := by simpa using hf
          subst hf
          injection h with h; subst h
          exact .probeNo r' hpc (by omega)
  | recv r' src tag =>
    simp only [stepH] at h
    split at h
    · cases h
    · rename_i hc
      simp only [bne_iff_ne, ne_eq, Bool.or_eq_true, decide_eq_true_eq, not_or, Decidable.not_not] at hc
      obtain ⟨⟨hsrc, htag⟩, hpc⟩ := hc
      subst hsrc htag
      split at h
      · cases h
      · rename_i hq
        injection h with h; subst h
        exact .recv r' hpc hq
  | barrierEnter r' =>
    simp only [stepH] at h
    split at h
    · rename_i hpc; injection h with h; subst h; exact .enter r' (by simpa using hpc)
    · cases h
  | barrierLeave r' =>
    simp only [stepH] at h
    split at h
    · rename_i hpc
      injection h with h; subst h
      simp at hpc
      exact .leave r' hpc.1 hpc.2
    · cases h

/-- every transition of the model is a transition of rank 0 or of a helper `0 < r < R` -/
theorem step_cases {s s' : State} {a : Action} (h : step s a = some s') :
    (a.rank = 0 ∧ Step0 s a s') ∨ (0 < a.rank ∧ a.rank < s.R ∧ StepHC s a.rank a s') := by
  unfold step at h
  simp only at h
  split at h
  · rename_i h0; exact Or.inl ⟨h0, step0_cases h⟩
  · split at h
    · rename_i h0 hR
      exact Or.inr ⟨by omega, hR, stepH_cases h⟩
    · cases h

end C12
end Bingo
