import Model.ParArch
import Proofs.Lemmas.ParArchSteps
/-!
# C12 -- inductive invariant of the ParallelArchipelago message protocol (`Model/ParArch.lean`), core part

`InvCore s` collects what is true in every reachable state of one `_non_blocking_execution` call, for an
arbitrary number of ranks `R ≥ 1`, arbitrary `sync`, `numSteps`, slice lengths and interleavings:

* shape of the state vectors;
* barrier bookkeeping: `arrived r` iff rank `r`'s pc is inside/after the barrier; a rank that is past
  the barrier implies that everybody has arrived;
* exit notifications: for every helper `(messages waiting) + (1 if it has consumed one) = (1 if rank 0 has
  sent it)`; a helper about to `recv` the notification has exactly one waiting;
* rank 0 is about to `recv` from `q` (in a drain loop) only if a message of `q` is waiting; when rank 0
  has returned its mailbox is empty (nobody can send any more);
* `total_age` entries and in-flight ages are lower bounds of the true island ages, and once rank 0 has
  left its loop `target_total_age ≤ Σ ages`.

The clauses about the collecting loop at the start of `_non_blocking_execution_main` and about the
ages at the start of the call are in `Proofs/Lemmas/ParArchCollect.lean` (`CInv`); `Inv` (both together),
`inv_initial`, `inv_step`, `inv_reachable` are in `Proofs/Lemmas/ParArch.lean`.
-/
set_option linter.unusedSimpArgs false
set_option linter.unusedVariables false
namespace Bingo
namespace C12
open ParArch

theorem getD_set {α} (l : List α) (i j : Nat) (v d : α) :
    (l.set i v).getD j d = if i = j ∧ i < l.length then v else l.getD j d := by
  simp only [List.getD_eq_getElem?_getD, List.getElem?_set]
  by_cases h : i = j
  · subst h
    by_cases h2 : i < l.length
    · simp [h2]
    · simp [h2]
  · simp [h]

theorem all_id_iff (l : List Bool) : l.all id = true ↔ ∀ i, i < l.length → l.getD i false = true := by
  induction l with
  | nil => simp
  | cons b t ih =>
    simp only [List.all_cons, Bool.and_eq_true, id, ih, List.length_cons]
    constructor
    · rintro ⟨hb, ht⟩ i hi
      cases i with
      | zero => simpa using hb
      | succ j => simpa using ht j (by omega)
    · intro h
      refine ⟨by simpa using h 0 (by omega), fun i hi => ?_⟩
      simpa using h (i + 1) (by omega)

def arrivedH : PcH → Bool
  | .inBarrier | .done => true
  | _ => false

def postLoopH : PcH → Bool
  | .atBarrier | .inBarrier | .done => true
  | _ => false

def arrived0 : Pc0 → Bool
  | .inBarrier | .finalDrain _ | .done => true
  | _ => false

def exitSent : Pc0 → Nat → Bool
  | .sendingExit k, r => decide (r < k)
  | .atBarrier, _ | .inBarrier, _ | .finalDrain _, _ | .done, _ => true
  | _, _ => false

def afterBarrier0 : Pc0 → Bool
  | .finalDrain _ | .done => true
  | _ => false

structure InvCore (s : State) : Prop where
  Rpos : 0 < s.R
  lenPc : s.pcH.length = s.R
  lenExit : s.exitQ.length = s.R
  lenArr : s.arrived.length = s.R
  lenAges : s.ages.length = s.R
  lenTable : s.table.length = s.R
  exit0 : s.exitQ.getD 0 0 = 0
  arr0 : s.arrived.getD 0 false = arrived0 s.pc0
  arrH : ∀ r, 0 < r → r < s.R → s.arrived.getD r false = arrivedH (pcOf s r)
  doneAll0 : afterBarrier0 s.pc0 = true → allArrived s = true
  doneAllH : ∀ r, 0 < r → r < s.R → pcOf s r = .done → allArrived s = true
  exitEq : ∀ r, 0 < r → r < s.R →
    s.exitQ.getD r 0 + (if postLoopH (pcOf s r) then 1 else 0) = (if exitSent s.pc0 r then 1 else 0)
  recvExit : ∀ r, 0 < r → r < s.R → pcOf s r = .recvExit → s.exitQ.getD r 0 = 1
  sendK : ∀ k, s.pc0 = .sendingExit k → 0 < k ∧ k < s.R
  pending : ∀ q, (s.pc0 = .draining (some q) ∨ s.pc0 = .finalDrain (some q)) → (takeFrom q s.mbox).isSome = true
  doneEmpty : s.pc0 = .done → s.mbox = []
  tab : ∀ r, r < s.R → (s.table.getD r none).getD 0 ≤ age s r
  box : ∀ m, m ∈ s.mbox → m.2 ≤ age s m.1
  loop : pastLoop s = true → s.goal ≤ s.ages.sum

theorem afterExit_cases (R k : Nat) : (k < R ∧ afterExit R k = .sendingExit k) ∨ (¬ k < R ∧ afterExit R k = .atBarrier) := by
  unfold afterExit; by_cases h : k < R <;> simp [h]

theorem getD_replicate {α} (n i : Nat) (v d : α) : (List.replicate n v).getD i d = if i < n then v else d := by
  simp [List.getD_eq_getElem?_getD, List.getElem?_replicate]
  by_cases h : i < n <;> simp [h]

theorem getD_map_range {α} (n i : Nat) (f : Nat → α) (d : α) :
    ((List.range n).map f).getD i d = if i < n then f i else d := by
  simp [List.getD_eq_getElem?_getD]
  by_cases h : i < n <;> simp [h]

theorem core_collectStart (R sync n : Nat) (ages : List Nat) (hR : 0 < R) :
    InvCore (collectStart R sync n ages) := by
  have hall : ∀ i, (List.replicate R false).getD i false = false := by
    intro i; rw [getD_replicate]; split <;> rfl
  have hpc : ∀ r, 0 < r → r < R → pcOf (collectStart R sync n ages) r = .sendFirst := by
    intro r h0 h1
    have : r ≠ 0 := by omega
    simp [collectStart, pcOf, getD_map_range, h1, this]
  have hpc0 : (collectStart R sync n ages).pc0 = .collecting 1 := rfl
  exact {
    Rpos := hR
    lenPc := by simp [collectStart]
    lenExit := by simp [collectStart]
    lenArr := by simp [collectStart]
    lenAges := by simp [collectStart]
    lenTable := by simp [collectStart]
    exit0 := by
      show (List.replicate R 0).getD 0 0 = 0
      rw [getD_replicate]; split <;> rfl
    arr0 := by
      have : (collectStart R sync n ages).arrived = List.replicate R false := rfl
      rw [this, hall, hpc0]; rfl
    arrH := by
      intro r h0 h1
      have : (collectStart R sync n ages).arrived = List.replicate R false := rfl
      rw [this, hall, hpc r h0 h1]; rfl
    doneAll0 := by intro h; rw [hpc0] at h; cases h
    doneAllH := by
      intro r h0 h1 h
      rw [hpc r h0 h1] at h; cases h
    exitEq := by
      intro r h0 h1
      have : (collectStart R sync n ages).exitQ = List.replicate R 0 := rfl
      rw [hpc r h0 h1, this, getD_replicate, hpc0]
      have h1' : r < R := h1
      simp [postLoopH, exitSent, h1']
    recvExit := by
      intro r h0 h1 h
      rw [hpc r h0 h1] at h; cases h
    sendK := by intro k h; rw [hpc0] at h; cases h
    pending := by intro q h; rw [hpc0] at h; rcases h with h | h <;> cases h
    doneEmpty := by intro _; rfl
    tab := by
      intro r hr
      have hr : r < R := hr
      show (((List.replicate R none).set 0 (some (ages.getD 0 0))).getD r none).getD 0 ≤
        ((List.range R).map fun r => ages.getD r 0).getD r 0
      rw [getD_set, getD_map_range, getD_replicate]
      by_cases h0 : 0 = r
      · subst h0; simp [hR]
      · simp [h0, hr]
    box := by
      intro m hm
      simp [collectStart] at hm
    loop := by intro h; simp [pastLoop, hpc0] at h }

theorem allArrived_iff (s : State) : allArrived s = true ↔ ∀ i, i < s.arrived.length → s.arrived.getD i false = true := by
  unfold allArrived; exact all_id_iff _

/-- rank 0: `island.evolve` slice done -/
theorem inv_evolve0 {s : State} (inv : InvCore s) (hpc : s.pc0 = .evolving) (k : Nat) :
    InvCore { s with ages := s.ages.set 0 (age s 0 + k), table := s.table.set 0 (some (age s 0 + k)), pc0 := .draining none } := by
  have hR := inv.Rpos
  exact {
    Rpos := inv.Rpos
    lenPc := inv.lenPc
    lenExit := inv.lenExit
    lenArr := inv.lenArr
    lenAges := by simpa using inv.lenAges
    lenTable := by simpa using inv.lenTable
    exit0 := inv.exit0
    arr0 := by have := inv.arr0; simp_all [arrived0]
    arrH := by simpa [pcOf] using inv.arrH
    doneAll0 := by simp [afterBarrier0]
    doneAllH := by simpa [pcOf, allArrived] using inv.doneAllH
    exitEq := by have := inv.exitEq; simp_all [pcOf, exitSent]
    recvExit := by simpa [pcOf] using inv.recvExit
    sendK := by simp
    pending := by simp
    doneEmpty := by simp
    tab := by
      intro r hr
      have := inv.tab r hr
      simp only [age, getD_set, inv.lenAges, inv.lenTable] at this ⊢
      by_cases h0 : 0 = r
      · subst h0; simp [hR]
      · simpa [h0] using this
    box := by
      intro m hm
      have := inv.box m hm
      simp only [age, getD_set, inv.lenAges] at this ⊢
      by_cases h0 : 0 = m.1
      · simp [← h0, hR] at this ⊢; omega
      · simpa [h0] using this
    loop := by simp [pastLoop] }


theorem takeFrom_head {q : Nat} {l : List (Nat × Nat)} (h : l.head?.map (·.1) = some q) :
    (takeFrom q l).isSome = true := by
  cases l with
  | nil => simp at h
  | cons m t =>
    obtain ⟨a, b⟩ := m
    simp at h
    subst h
    simp [takeFrom]

theorem takeFrom_spec {src a : Nat} {l rest : List (Nat × Nat)} (h : takeFrom src l = some (a, rest)) :
    (src, a) ∈ l ∧ ∀ m, m ∈ rest → m ∈ l := by
  induction l generalizing a rest with
  | nil => simp [takeFrom] at h
  | cons m t ih =>
    obtain ⟨q, b⟩ := m
    simp only [takeFrom] at h
    by_cases hq : q = src
    · simp [hq] at h
      obtain ⟨h1, h2⟩ := h
      subst h1 h2 hq
      exact ⟨by simp, fun m hm => by simp [hm]⟩
    · simp only [hq, if_false] at h
      cases hr : takeFrom src t with
      | none => simp [hr] at h
      | some p =>
        obtain ⟨a', rest'⟩ := p
        simp [hr] at h
        obtain ⟨h1, h2⟩ := h
        subst h1 h2
        obtain ⟨i1, i2⟩ := ih hr
        refine ⟨by simp [i1], fun m hm => ?_⟩
        simp at hm
        rcases hm with hm | hm
        · simp [hm]
        · simp [i2 m hm]

/-- a transition of rank 0 that only moves its pc between two "collecting or in the loop, barrier not
reached" states -/
theorem inv_pc0_loop {s : State} (inv : InvCore s) (p : Pc0)
    (hold : s.pc0 = .evolving ∨ (∃ o, s.pc0 = .draining o) ∨ ∃ k, s.pc0 = .collecting k)
    (hnew : p = .evolving ∨ p = .draining none ∨
      (∃ q, p = .draining (some q) ∧ (takeFrom q s.mbox).isSome = true) ∨ ∃ k, p = .collecting k) :
    InvCore { s with pc0 := p } := by
  have ha : arrived0 s.pc0 = false := by rcases hold with h | ⟨o, h⟩ | ⟨k, h⟩ <;> simp [h, arrived0]
  have ha' : arrived0 p = false := by rcases hnew with h | h | ⟨q, h, _⟩ | ⟨k, h⟩ <;> simp [h, arrived0]
  have hs : ∀ r, exitSent s.pc0 r = false := by
    intro r; rcases hold with h | ⟨o, h⟩ | ⟨k, h⟩ <;> simp [h, exitSent]
  have hs' : ∀ r, exitSent p r = false := by
    intro r; rcases hnew with h | h | ⟨q, h, _⟩ | ⟨k, h⟩ <;> simp [h, exitSent]
  exact {
    Rpos := inv.Rpos
    lenPc := inv.lenPc
    lenExit := inv.lenExit
    lenArr := inv.lenArr
    lenAges := inv.lenAges
    lenTable := inv.lenTable
    exit0 := inv.exit0
    arr0 := by have := inv.arr0; simp_all
    arrH := by simpa [pcOf] using inv.arrH
    doneAll0 := by rcases hnew with h | h | ⟨q, h, _⟩ | ⟨k, h⟩ <;> simp [h, afterBarrier0]
    doneAllH := by simpa [pcOf, allArrived] using inv.doneAllH
    exitEq := by
      intro r h0 h1
      have := inv.exitEq r h0 h1
      simp only [hs, hs', pcOf] at this ⊢
      exact this
    recvExit := by simpa [pcOf] using inv.recvExit
    sendK := by intro k h; rcases hnew with h' | h' | ⟨q, h', _⟩ | ⟨k', h'⟩ <;> simp [h'] at h
    pending := by
      intro q h
      rcases hnew with h' | h' | ⟨q', h', hq⟩ | ⟨k', h'⟩ <;> simp [h'] at h
      subst h; exact hq
    doneEmpty := by intro h; rcases hnew with h' | h' | ⟨q, h', _⟩ | ⟨k', h'⟩ <;> simp [h'] at h
    tab := by simpa [age] using inv.tab
    box := by simpa [age] using inv.box
    loop := by intro h; rcases hnew with h' | h' | ⟨q, h', _⟩ | ⟨k', h'⟩ <;> simp [h', pastLoop] at h }

/-- `target_total_age` is assigned while rank 0 has not left its loop -/
theorem core_goal {s : State} (inv : InvCore s) (hp : pastLoop s = false) (g : Nat) :
    InvCore { s with goal := g } :=
  { Rpos := inv.Rpos, lenPc := inv.lenPc, lenExit := inv.lenExit, lenArr := inv.lenArr, lenAges := inv.lenAges
    lenTable := inv.lenTable, exit0 := inv.exit0, arr0 := inv.arr0, arrH := inv.arrH, doneAll0 := inv.doneAll0
    doneAllH := inv.doneAllH, exitEq := inv.exitEq, recvExit := inv.recvExit, sendK := inv.sendK
    pending := inv.pending, doneEmpty := inv.doneEmpty, tab := inv.tab, box := inv.box
    loop := by intro h; rw [show pastLoop { s with goal := g } = pastLoop s from rfl, hp] at h; cases h }


theorem sum_le_sum_of_getD : ∀ (t : List (Option Nat)) (a : List Nat), t.length = a.length →
    (∀ r, r < a.length → (t.getD r none).getD 0 ≤ a.getD r 0) → tableSum t ≤ a.sum
  | [], [], _, _ => by simp [tableSum]
  | [], _ :: _, h, _ => by simp at h
  | _ :: _, [], h, _ => by simp at h
  | x :: t, y :: a, h, hp => by
    have ih := sum_le_sum_of_getD t a (by simpa using h) (fun r hr => by simpa using hp (r + 1) (by simp; omega))
    have h0 := hp 0 (by simp)
    simp [tableSum] at ih h0 ⊢
    omega

/-- rank 0 leaves its loop (or does not enter it): `sum(total_age.values()) >= target_total_age` -/
theorem inv_exit_loop {s : State} (inv : InvCore s) (hold : s.pc0 = .draining none ∨ ∃ k, s.pc0 = .collecting k)
    (hb : belowTarget s = false) :
    InvCore { s with pc0 := afterExit s.R 1 } := by
  have hsum : s.goal ≤ s.ages.sum := by
    have h1 : tableSum s.table ≤ s.ages.sum :=
      sum_le_sum_of_getD s.table s.ages (by rw [inv.lenTable, inv.lenAges])
        (fun r hr => by simpa [age] using inv.tab r (by rw [← inv.lenAges]; exact hr))
    have h2 : ¬ tableSum s.table < s.goal := by simpa [belowTarget] using hb
    omega
  have hs : ∀ r, exitSent s.pc0 r = false := by intro r; rcases hold with h | ⟨k, h⟩ <;> simp [h, exitSent]
  have ha : s.arrived.getD 0 false = false := by
    have := inv.arr0; rcases hold with h | ⟨k, h⟩ <;> simp_all [arrived0]
  rcases afterExit_cases s.R 1 with ⟨hlt, e⟩ | ⟨hlt, e⟩
  · rw [e]
    exact {
      Rpos := inv.Rpos
      lenPc := inv.lenPc
      lenExit := inv.lenExit
      lenArr := inv.lenArr
      lenAges := inv.lenAges
      lenTable := inv.lenTable
      exit0 := inv.exit0
      arr0 := by simpa [arrived0] using ha
      arrH := by simpa [pcOf] using inv.arrH
      doneAll0 := by simp [afterBarrier0]
      doneAllH := by simpa [pcOf, allArrived] using inv.doneAllH
      exitEq := by
        intro r h0 h1
        have := inv.exitEq r h0 h1
        have hr : ¬ r < 1 := by omega
        rw [hs r] at this
        simpa [pcOf, exitSent, hr] using this
      recvExit := by simpa [pcOf] using inv.recvExit
      sendK := by intro k h; simp at h; subst h; exact ⟨by omega, hlt⟩
      pending := by simp
      doneEmpty := by simp
      tab := by simpa [age] using inv.tab
      box := by simpa [age] using inv.box
      loop := by intro _; exact hsum }
  · rw [e]
    have hR1 : s.R = 1 := by have := inv.Rpos; omega
    exact {
      Rpos := inv.Rpos
      lenPc := inv.lenPc
      lenExit := inv.lenExit
      lenArr := inv.lenArr
      lenAges := inv.lenAges
      lenTable := inv.lenTable
      exit0 := inv.exit0
      arr0 := by simpa [arrived0] using ha
      arrH := by simpa [pcOf] using inv.arrH
      doneAll0 := by simp [afterBarrier0]
      doneAllH := by simpa [pcOf, allArrived] using inv.doneAllH
      exitEq := by intro r h0 h1; have h1 : r < s.R := h1; omega
      recvExit := by simpa [pcOf] using inv.recvExit
      sendK := by simp
      pending := by simp
      doneEmpty := by simp
      tab := by simpa [age] using inv.tab
      box := by simpa [age] using inv.box
      loop := by intro _; exact hsum }


/-- rank 0: the data part of `data = comm.recv(...)`; `total_age.update(data)` -/
theorem inv_recv_data {s : State} (inv : InvCore s)
    (hp : s.pc0 = .draining none ∨ s.pc0 = .finalDrain none ∨ ∃ k, s.pc0 = .collecting k)
    {src a : Nat} {rest : List (Nat × Nat)} (h : takeFrom src s.mbox = some (a, rest)) :
    InvCore { s with mbox := rest, table := s.table.set src (some a) } := by
  obtain ⟨hmem, hsub⟩ := takeFrom_spec h
  exact {
    Rpos := inv.Rpos
    lenPc := inv.lenPc
    lenExit := inv.lenExit
    lenArr := inv.lenArr
    lenAges := inv.lenAges
    lenTable := by simpa using inv.lenTable
    exit0 := inv.exit0
    arr0 := inv.arr0
    arrH := by simpa [pcOf] using inv.arrH
    doneAll0 := by simpa [allArrived] using inv.doneAll0
    doneAllH := by simpa [pcOf, allArrived] using inv.doneAllH
    exitEq := by simpa [pcOf] using inv.exitEq
    recvExit := by simpa [pcOf] using inv.recvExit
    sendK := inv.sendK
    pending := by intro q hq; rcases hp with hp | hp | ⟨k, hp⟩ <;> simp [hp] at hq
    doneEmpty := by intro hd; rcases hp with hp | hp | ⟨k, hp⟩ <;> simp [hp] at hd
    tab := by
      intro r hr
      have := inv.tab r hr
      show ((s.table.set src (some a)).getD r none).getD 0 ≤ age s r
      rw [getD_set]
      split
      · rename_i h0
        have hb := inv.box _ hmem
        rw [← h0.1]; simpa using hb
      · exact this
    box := by
      intro m hm
      exact inv.box m (hsub m hm)
    loop := inv.loop }

/-- rank 0: `req = comm.isend(True, dest=k, tag=EXIT_NOTIFICATION)` -/
theorem inv_send_exit {s : State} (inv : InvCore s) {k : Nat} (hpc : s.pc0 = .sendingExit k) :
    InvCore { s with exitQ := s.exitQ.set k (s.exitQ.getD k 0 + 1), pc0 := afterExit s.R (k + 1) } := by
  obtain ⟨hk0, hkR⟩ := inv.sendK k hpc
  have ha : s.arrived.getD 0 false = false := by have := inv.arr0; simp_all [arrived0]
  have hnew : afterExit s.R (k + 1) = .sendingExit (k + 1) ∧ k + 1 < s.R ∨ afterExit s.R (k + 1) = .atBarrier ∧ ¬ k + 1 < s.R := by
    rcases afterExit_cases s.R (k + 1) with ⟨h1, e⟩ | ⟨h1, e⟩ <;> simp [e, h1]
  have hsent : ∀ r, r < s.R → exitSent (afterExit s.R (k + 1)) r = decide (r < k + 1) := by
    intro r hr
    rcases hnew with ⟨e, h1⟩ | ⟨e, h1⟩
    · simp [e, exitSent]
    · simp [e, exitSent]; omega
  have hloop : s.goal ≤ s.ages.sum := inv.loop (by simp [pastLoop, hpc])
  exact {
    Rpos := inv.Rpos
    lenPc := inv.lenPc
    lenExit := by simpa using inv.lenExit
    lenArr := inv.lenArr
    lenAges := inv.lenAges
    lenTable := inv.lenTable
    exit0 := by
      show (s.exitQ.set k (s.exitQ.getD k 0 + 1)).getD 0 0 = 0
      rw [getD_set]
      have : ¬ (k = 0 ∧ k < s.exitQ.length) := by omega
      simp only [this, if_false]; exact inv.exit0
    arr0 := by
      show s.arrived.getD 0 false = arrived0 (afterExit s.R (k + 1))
      rcases hnew with ⟨e, _⟩ | ⟨e, _⟩ <;> simp [e, arrived0] <;> simpa using ha
    arrH := by simpa [pcOf] using inv.arrH
    doneAll0 := by
      show afterBarrier0 (afterExit s.R (k + 1)) = true → _
      rcases hnew with ⟨e, _⟩ | ⟨e, _⟩ <;> simp [e, afterBarrier0]
    doneAllH := by simpa [pcOf, allArrived] using inv.doneAllH
    exitEq := by
      intro r h0 h1
      have h1 : r < s.R := h1
      have old := inv.exitEq r h0 h1
      show (s.exitQ.set k (s.exitQ.getD k 0 + 1)).getD r 0 + (if postLoopH (pcOf s r) then 1 else 0)
        = if exitSent (afterExit s.R (k + 1)) r then 1 else 0
      rw [hsent r h1, getD_set, inv.lenExit]
      simp only [hpc, exitSent] at old
      by_cases hrk : k = r
      · subst hrk
        cases hp : postLoopH (pcOf s k) <;> simp [hp, hkR] at old ⊢
        exact old
      · have h3 : (r < k + 1) = (r < k) := by simp; omega
        simp only [hrk, false_and, if_false, h3]
        exact old
    recvExit := by
      intro r h0 h1 hr
      have h1 : r < s.R := h1
      have old := inv.exitEq r h0 h1
      have one := inv.recvExit r h0 h1 hr
      show (s.exitQ.set k (s.exitQ.getD k 0 + 1)).getD r 0 = 1
      rw [getD_set, inv.lenExit]
      by_cases hrk : k = r
      · subst hrk
        have hr' : pcOf s k = .recvExit := hr
        simp only [hpc, exitSent, hr', postLoopH] at old
        simp at old
        (simp only [List.getD_eq_getElem?_getD] at one; omega)
      · simp only [hrk, false_and, if_false]; exact one
    sendK := by
      intro j hj
      rcases hnew with ⟨e, h1⟩ | ⟨e, h1⟩
      · have : Pc0.sendingExit (k + 1) = .sendingExit j := by rw [← e]; exact hj
        injection this with this; subst this; exact ⟨by omega, h1⟩
      · have : Pc0.atBarrier = .sendingExit j := by rw [← e]; exact hj
        cases this
    pending := by
      intro q hq
      rcases hnew with ⟨e, _⟩ | ⟨e, _⟩ <;> (have hq' := hq; simp only [e] at hq'; simp at hq')
    doneEmpty := by
      intro hd
      rcases hnew with ⟨e, _⟩ | ⟨e, _⟩ <;> (have hd' := hd; simp only [e] at hd'; simp at hd')
    tab := by simpa [age] using inv.tab
    box := by simpa [age] using inv.box
    loop := by intro _; exact hloop }

theorem allArrived_set {s : State} (i : Nat) (h : allArrived s = true) :
    (s.arrived.set i true).all id = true := by
  rw [all_id_iff]
  rw [allArrived_iff] at h
  intro j hj
  rw [getD_set]
  split
  · rfl
  · exact h j (by simpa using hj)

/-- rank 0: arrival at `comm.Barrier()` -/
theorem inv_barrier_enter0 {s : State} (inv : InvCore s) (hpc : s.pc0 = .atBarrier) :
    InvCore { s with arrived := s.arrived.set 0 true, pc0 := .inBarrier } := by
  have hloop : s.goal ≤ s.ages.sum := inv.loop (by simp [pastLoop, hpc])
  exact {
    Rpos := inv.Rpos
    lenPc := inv.lenPc
    lenExit := inv.lenExit
    lenArr := by simpa using inv.lenArr
    lenAges := inv.lenAges
    lenTable := inv.lenTable
    exit0 := inv.exit0
    arr0 := by
      show (s.arrived.set 0 true).getD 0 false = arrived0 .inBarrier
      rw [getD_set, inv.lenArr]; simp [inv.Rpos, arrived0]
    arrH := by
      intro r h0 h1
      show (s.arrived.set 0 true).getD r false = arrivedH (pcOf s r)
      rw [getD_set]
      have : ¬ (0 = r ∧ 0 < s.arrived.length) := by omega
      simp only [this, if_false]
      exact inv.arrH r h0 h1
    doneAll0 := by simp [afterBarrier0]
    doneAllH := by
      intro r h0 h1 hd
      exact allArrived_set 0 (inv.doneAllH r h0 h1 hd)
    exitEq := by
      intro r h0 h1
      have := inv.exitEq r h0 h1
      simpa [hpc, exitSent, pcOf] using this
    recvExit := by simpa [pcOf] using inv.recvExit
    sendK := by simp
    pending := by simp
    doneEmpty := by simp
    tab := by simpa [age] using inv.tab
    box := by simpa [age] using inv.box
    loop := by intro _; exact hloop }

/-- rank 0: return from `comm.Barrier()` and the first line of the final `_gather_updated_ages` -/
theorem inv_barrier_leave0 {s : State} (inv : InvCore s) (hpc : s.pc0 = .inBarrier) (hall : allArrived s = true) :
    InvCore { s with table := s.table.set 0 (some (age s 0)), pc0 := .finalDrain none } := by
  have hloop : s.goal ≤ s.ages.sum := inv.loop (by simp [pastLoop, hpc])
  exact {
    Rpos := inv.Rpos
    lenPc := inv.lenPc
    lenExit := inv.lenExit
    lenArr := inv.lenArr
    lenAges := inv.lenAges
    lenTable := by simpa using inv.lenTable
    exit0 := inv.exit0
    arr0 := by have := inv.arr0; simp_all [arrived0]
    arrH := by simpa [pcOf] using inv.arrH
    doneAll0 := by intro _; exact hall
    doneAllH := by simpa [pcOf, allArrived] using inv.doneAllH
    exitEq := by
      intro r h0 h1
      have := inv.exitEq r h0 h1
      simpa [hpc, exitSent, pcOf] using this
    recvExit := by simpa [pcOf] using inv.recvExit
    sendK := by simp
    pending := by simp
    doneEmpty := by simp
    tab := by
      intro r hr
      have := inv.tab r hr
      show ((s.table.set 0 (some (age s 0))).getD r none).getD 0 ≤ age s r
      rw [getD_set]
      split
      · rename_i h0
        rw [← h0.1]; simp
      · exact this
    box := by simpa [age] using inv.box
    loop := by intro _; exact hloop }

/-- rank 0: pc moves inside the final drain -/
theorem inv_pc0_final {s : State} (inv : InvCore s) (p : Pc0) (hold : ∃ o, s.pc0 = .finalDrain o)
    (hnew : p = .finalDrain none ∨ (∃ q, p = .finalDrain (some q) ∧ (takeFrom q s.mbox).isSome = true) ∨
      (p = .done ∧ s.mbox = [])) :
    InvCore { s with pc0 := p } := by
  obtain ⟨o, hold⟩ := hold
  have hloop : s.goal ≤ s.ages.sum := inv.loop (by simp [pastLoop, hold])
  have hall : allArrived s = true := inv.doneAll0 (by simp [hold, afterBarrier0])
  have ha' : arrived0 p = true := by rcases hnew with h | ⟨q, h, _⟩ | ⟨h, _⟩ <;> simp [h, arrived0]
  have hs' : ∀ r, exitSent p r = true := by intro r; rcases hnew with h | ⟨q, h, _⟩ | ⟨h, _⟩ <;> simp [h, exitSent]
  exact {
    Rpos := inv.Rpos
    lenPc := inv.lenPc
    lenExit := inv.lenExit
    lenArr := inv.lenArr
    lenAges := inv.lenAges
    lenTable := inv.lenTable
    exit0 := inv.exit0
    arr0 := by have := inv.arr0; simp_all [arrived0]
    arrH := by simpa [pcOf] using inv.arrH
    doneAll0 := by intro _; exact hall
    doneAllH := by simpa [pcOf, allArrived] using inv.doneAllH
    exitEq := by
      intro r h0 h1
      have := inv.exitEq r h0 h1
      simp only [hold, exitSent] at this
      show _ = if exitSent p r then 1 else 0
      rw [hs' r]; exact this
    recvExit := by simpa [pcOf] using inv.recvExit
    sendK := by intro k h; rcases hnew with h' | ⟨q, h', _⟩ | ⟨h', _⟩ <;> simp [h'] at h
    pending := by
      intro q h
      rcases hnew with h' | ⟨q', h', hq⟩ | ⟨h', _⟩ <;> simp [h'] at h
      subst h; exact hq
    doneEmpty := by
      intro h
      rcases hnew with h' | ⟨q, h', _⟩ | ⟨h', he⟩ <;> simp [h'] at h
      exact he
    tab := by simpa [age] using inv.tab
    box := by simpa [age] using inv.box
    loop := by intro _; exact hloop }


theorem pcOf_set (s : State) (r r' : Nat) (p : PcH) (hr : r < s.pcH.length) :
    (s.pcH.set r p).getD r' .done = if r = r' then p else pcOf s r' := by
  rw [getD_set]; simp [hr, pcOf]

/-- helper `r`: pc change that keeps the helper in the same phase -/
theorem inv_pcH {s : State} (inv : InvCore s) {r : Nat} (h0 : 0 < r) (hR : r < s.R) (p' : PcH)
    (harr : arrivedH p' = arrivedH (pcOf s r)) (hpost : postLoopH p' = postLoopH (pcOf s r))
    (hdone : p' ≠ .done) (hrecv : p' = .recvExit → s.exitQ.getD r 0 = 1) :
    InvCore { s with pcH := s.pcH.set r p' } := by
  have hlen : r < s.pcH.length := by rw [inv.lenPc]; exact hR
  have hpc : ∀ r', pcOf { s with pcH := s.pcH.set r p' } r' = if r = r' then p' else pcOf s r' := by
    intro r'; exact pcOf_set s r r' p' hlen
  exact {
    Rpos := inv.Rpos
    lenPc := by simpa using inv.lenPc
    lenExit := inv.lenExit
    lenArr := inv.lenArr
    lenAges := inv.lenAges
    lenTable := inv.lenTable
    exit0 := inv.exit0
    arr0 := inv.arr0
    arrH := by
      intro r' h0' h1'
      rw [hpc]
      have := inv.arrH r' h0' h1'
      split
      · rename_i e; subst e; rw [harr]; exact this
      · exact this
    doneAll0 := inv.doneAll0
    doneAllH := by
      intro r' h0' h1' hd
      rw [hpc] at hd
      split at hd
      · exact absurd hd hdone
      · exact inv.doneAllH r' h0' h1' hd
    exitEq := by
      intro r' h0' h1'
      rw [hpc]
      have := inv.exitEq r' h0' h1'
      split
      · rename_i e; subst e; rw [hpost]; exact this
      · exact this
    recvExit := by
      intro r' h0' h1' hd
      rw [hpc] at hd
      split at hd
      · rename_i e; subst e; exact hrecv hd
      · exact inv.recvExit r' h0' h1' hd
    sendK := inv.sendK
    pending := inv.pending
    doneEmpty := inv.doneEmpty
    tab := inv.tab
    box := inv.box
    loop := inv.loop }

theorem sum_set_ge : ∀ (l : List Nat) (i v : Nat), l.getD i 0 ≤ v → l.sum ≤ (l.set i v).sum
  | [], _, _, _ => by simp
  | x :: t, 0, v, h => by simp at h; simp; omega
  | x :: t, i + 1, v, h => by
    have := sum_set_ge t i v (by simpa using h)
    simp; omega

/-- ages only grow: an `island.evolve` slice on any rank -/
theorem inv_age_inc {s : State} (inv : InvCore s) (r k : Nat) :
    InvCore { s with ages := s.ages.set r (age s r + k) } := by
  have hage : ∀ r', age s r' ≤ age { s with ages := s.ages.set r (age s r + k) } r' := by
    intro r'
    show s.ages.getD r' 0 ≤ (s.ages.set r (s.ages.getD r 0 + k)).getD r' 0
    rw [getD_set]
    split
    · rename_i e; rw [← e.1]; omega
    · exact Nat.le_refl _
  exact {
    Rpos := inv.Rpos
    lenPc := inv.lenPc
    lenExit := inv.lenExit
    lenArr := inv.lenArr
    lenAges := by simpa using inv.lenAges
    lenTable := inv.lenTable
    exit0 := inv.exit0
    arr0 := inv.arr0
    arrH := inv.arrH
    doneAll0 := inv.doneAll0
    doneAllH := inv.doneAllH
    exitEq := inv.exitEq
    recvExit := inv.recvExit
    sendK := inv.sendK
    pending := inv.pending
    doneEmpty := inv.doneEmpty
    tab := by intro r' hr'; exact Nat.le_trans (inv.tab r' hr') (hage r')
    box := by intro m hm; exact Nat.le_trans (inv.box m hm) (hage m.1)
    loop := by
      intro hp
      have h1 := inv.loop hp
      have h2 := sum_set_ge s.ages r (age s r + k) (by simp [age])
      exact Nat.le_trans h1 h2 }

theorem takeFrom_append {q : Nat} {l : List (Nat × Nat)} (x : Nat × Nat) (h : (takeFrom q l).isSome = true) :
    (takeFrom q (l ++ [x])).isSome = true := by
  induction l with
  | nil => simp [takeFrom] at h
  | cons m t ih =>
    obtain ⟨a, b⟩ := m
    simp only [List.cons_append, takeFrom] at h ⊢
    by_cases hq : a = q
    · simp [hq]
    · simp only [hq, if_false] at h ⊢
      cases ht : takeFrom q t with
      | none => simp [ht] at h
      | some p =>
        have := ih (by simp [ht])
        cases ht' : takeFrom q (t ++ [x]) with
        | none => simp [ht'] at this
        | some p' => simp

/-- helper: the data part of `_send_updated_age` -/
theorem inv_push {s : State} (inv : InvCore s) (r : Nat) (hnd : s.pc0 ≠ .done) :
    InvCore { s with mbox := s.mbox ++ [(r, age s r)] } := by
  exact {
    Rpos := inv.Rpos
    lenPc := inv.lenPc
    lenExit := inv.lenExit
    lenArr := inv.lenArr
    lenAges := inv.lenAges
    lenTable := inv.lenTable
    exit0 := inv.exit0
    arr0 := inv.arr0
    arrH := inv.arrH
    doneAll0 := inv.doneAll0
    doneAllH := inv.doneAllH
    exitEq := inv.exitEq
    recvExit := inv.recvExit
    sendK := inv.sendK
    pending := by intro q hq; exact takeFrom_append _ (inv.pending q hq)
    doneEmpty := by intro hd; exact absurd hd hnd
    tab := inv.tab
    box := by
      intro m hm
      have hm' : m ∈ s.mbox ++ [(r, age s r)] := hm
      rw [List.mem_append] at hm'
      rcases hm' with hm' | hm'
      · exact inv.box m hm'
      · simp at hm'; subst hm'; exact Nat.le_refl _
    loop := inv.loop }

/-- helper: `_ = comm.recv(source=0, tag=EXIT_NOTIFICATION)` -/
theorem inv_recv_exit {s : State} (inv : InvCore s) {r : Nat} (h0 : 0 < r) (hR : r < s.R) (hpc : pcOf s r = .recvExit) :
    InvCore { s with exitQ := s.exitQ.set r (s.exitQ.getD r 0 - 1), pcH := s.pcH.set r .atBarrier } := by
  have hlen : r < s.pcH.length := by rw [inv.lenPc]; exact hR
  have hone := inv.recvExit r h0 hR hpc
  have hpc' : ∀ r', pcOf { s with exitQ := s.exitQ.set r (s.exitQ.getD r 0 - 1), pcH := s.pcH.set r .atBarrier } r'
      = if r = r' then .atBarrier else pcOf s r' := by
    intro r'; exact pcOf_set s r r' .atBarrier hlen
  exact {
    Rpos := inv.Rpos
    lenPc := by simpa using inv.lenPc
    lenExit := by simpa using inv.lenExit
    lenArr := inv.lenArr
    lenAges := inv.lenAges
    lenTable := inv.lenTable
    exit0 := by
      show (s.exitQ.set r (s.exitQ.getD r 0 - 1)).getD 0 0 = 0
      rw [getD_set]
      have : ¬ (r = 0 ∧ r < s.exitQ.length) := by omega
      simp only [this, if_false]; exact inv.exit0
    arr0 := inv.arr0
    arrH := by
      intro r' h0' h1'
      rw [hpc']
      have := inv.arrH r' h0' h1'
      split
      · rename_i e; subst e; rw [hpc] at this; simpa [arrivedH] using this
      · exact this
    doneAll0 := inv.doneAll0
    doneAllH := by
      intro r' h0' h1' hd
      rw [hpc'] at hd
      split at hd
      · cases hd
      · exact inv.doneAllH r' h0' h1' hd
    exitEq := by
      intro r' h0' h1'
      rw [hpc']
      have := inv.exitEq r' h0' h1'
      show (s.exitQ.set r (s.exitQ.getD r 0 - 1)).getD r' 0 + _ = _
      rw [getD_set, inv.lenExit]
      by_cases e : r = r'
      · subst e
        rw [hpc, hone] at this
        simp only [hR, and_self, if_true, postLoopH] at this ⊢
        rw [hone]; simpa using this
      · simp only [e, false_and, if_false]; exact this
    recvExit := by
      intro r' h0' h1' hd
      rw [hpc'] at hd
      show (s.exitQ.set r (s.exitQ.getD r 0 - 1)).getD r' 0 = 1
      rw [getD_set]
      by_cases e : r = r'
      · simp [e] at hd
      · simp only [e, false_and, if_false] at hd ⊢
        exact inv.recvExit r' h0' h1' hd
    sendK := inv.sendK
    pending := inv.pending
    doneEmpty := inv.doneEmpty
    tab := inv.tab
    box := inv.box
    loop := inv.loop }

/-- helper: arrival at `comm.Barrier()` -/
theorem inv_barrier_enterH {s : State} (inv : InvCore s) {r : Nat} (h0 : 0 < r) (hR : r < s.R) (hpc : pcOf s r = .atBarrier) :
    InvCore { s with arrived := s.arrived.set r true, pcH := s.pcH.set r .inBarrier } := by
  have hlen : r < s.pcH.length := by rw [inv.lenPc]; exact hR
  have hpc' : ∀ r', pcOf { s with arrived := s.arrived.set r true, pcH := s.pcH.set r .inBarrier } r'
      = if r = r' then .inBarrier else pcOf s r' := by
    intro r'; exact pcOf_set s r r' .inBarrier hlen
  exact {
    Rpos := inv.Rpos
    lenPc := by simpa using inv.lenPc
    lenExit := inv.lenExit
    lenArr := by simpa using inv.lenArr
    lenAges := inv.lenAges
    lenTable := inv.lenTable
    exit0 := inv.exit0
    arr0 := by
      show (s.arrived.set r true).getD 0 false = _
      rw [getD_set]
      have : ¬ (r = 0 ∧ r < s.arrived.length) := by omega
      simp only [this, if_false]; exact inv.arr0
    arrH := by
      intro r' h0' h1'
      rw [hpc']
      show (s.arrived.set r true).getD r' false = _
      rw [getD_set, inv.lenArr]
      by_cases e : r = r'
      · simp [e, h1', arrivedH]
      · simp only [e, false_and, if_false]; exact inv.arrH r' h0' h1'
    doneAll0 := by intro h; exact allArrived_set r (inv.doneAll0 h)
    doneAllH := by
      intro r' h0' h1' hd
      rw [hpc'] at hd
      split at hd
      · cases hd
      · exact allArrived_set r (inv.doneAllH r' h0' h1' hd)
    exitEq := by
      intro r' h0' h1'
      rw [hpc']
      have := inv.exitEq r' h0' h1'
      split
      · rename_i e; subst e; rw [hpc] at this; simpa [postLoopH] using this
      · exact this
    recvExit := by
      intro r' h0' h1' hd
      rw [hpc'] at hd
      split at hd
      · cases hd
      · exact inv.recvExit r' h0' h1' hd
    sendK := inv.sendK
    pending := inv.pending
    doneEmpty := inv.doneEmpty
    tab := inv.tab
    box := inv.box
    loop := inv.loop }

/-- helper: return from `comm.Barrier()` -/
theorem inv_barrier_leaveH {s : State} (inv : InvCore s) {r : Nat} (h0 : 0 < r) (hR : r < s.R) (hpc : pcOf s r = .inBarrier)
    (hall : allArrived s = true) :
    InvCore { s with pcH := s.pcH.set r .done } := by
  have hlen : r < s.pcH.length := by rw [inv.lenPc]; exact hR
  have hpc' : ∀ r', pcOf { s with pcH := s.pcH.set r .done } r' = if r = r' then .done else pcOf s r' := by
    intro r'; exact pcOf_set s r r' .done hlen
  exact {
    Rpos := inv.Rpos
    lenPc := by simpa using inv.lenPc
    lenExit := inv.lenExit
    lenArr := inv.lenArr
    lenAges := inv.lenAges
    lenTable := inv.lenTable
    exit0 := inv.exit0
    arr0 := inv.arr0
    arrH := by
      intro r' h0' h1'
      rw [hpc']
      have := inv.arrH r' h0' h1'
      split
      · rename_i e; subst e; rw [hpc] at this; simpa [arrivedH] using this
      · exact this
    doneAll0 := inv.doneAll0
    doneAllH := by intro _ _ _ _; exact hall
    exitEq := by
      intro r' h0' h1'
      rw [hpc']
      have := inv.exitEq r' h0' h1'
      split
      · rename_i e; subst e; rw [hpc] at this; simpa [postLoopH] using this
      · exact this
    recvExit := by
      intro r' h0' h1' hd
      rw [hpc'] at hd
      split at hd
      · cases hd
      · exact inv.recvExit r' h0' h1' hd
    sendK := inv.sendK
    pending := inv.pending
    doneEmpty := inv.doneEmpty
    tab := inv.tab
    box := inv.box
    loop := inv.loop }


/-- the end of the collecting loop: `target_total_age` is computed and the loop condition evaluated -/
theorem core_finishCollect {s : State} (inv : InvCore s) (hpc : ∃ k, s.pc0 = .collecting k) :
    InvCore (finishCollect s) := by
  obtain ⟨k, hk⟩ := hpc
  have hp : pastLoop s = false := by simp [pastLoop, hk]
  have i1 := core_goal inv hp (tableSum s.table + s.numSteps * s.R)
  by_cases hb : tableSum s.table < tableSum s.table + s.numSteps * s.R
  · have e : finishCollect s = { s with goal := tableSum s.table + s.numSteps * s.R, pc0 := .evolving } := by
      simp only [finishCollect, hb, if_true]
    rw [e]
    exact inv_pc0_loop i1 _ (Or.inr (Or.inr ⟨k, hk⟩)) (Or.inl rfl)
  · have e : finishCollect s = { s with goal := tableSum s.table + s.numSteps * s.R, pc0 := afterExit s.R 1 } := by
      simp only [finishCollect, hb, if_false]
    rw [e]
    exact inv_exit_loop i1 (Or.inr ⟨k, hk⟩) (by simpa [belowTarget] using hb)

theorem core_step0 {s s' : State} {a : Action} (inv : InvCore s) (h : Step0 s a s') : InvCore s' := by
  cases h with
  | tick r hpc => exact inv
  | evolve r k hpc => exact inv_evolve0 inv hpc k
  | probeSome r q hpc hq =>
    exact inv_pc0_loop inv _ (Or.inr (Or.inl ⟨_, hpc⟩)) (Or.inr (Or.inr (Or.inl ⟨q, rfl, takeFrom_head hq⟩)))
  | probeLoop r hpc hq hb => exact inv_pc0_loop inv _ (Or.inr (Or.inl ⟨_, hpc⟩)) (Or.inl rfl)
  | probeExit r hpc hq hb => exact inv_exit_loop inv (Or.inl hpc) hb
  | probeSomeF r q hpc hq =>
    exact inv_pc0_final inv _ ⟨_, hpc⟩ (Or.inr (Or.inl ⟨q, rfl, takeFrom_head hq⟩))
  | probeDone r hpc hq =>
    refine inv_pc0_final inv _ ⟨_, hpc⟩ (Or.inr (Or.inr ⟨rfl, ?_⟩))
    unfold headSource at hq
    cases hm : s.mbox with
    | nil => rfl
    | cons m t => simp [hm] at hq
  | collectNext r k a rest hpc ht hk =>
    have i1 : InvCore { s with pc0 := .collecting (k + 1) } :=
      inv_pc0_loop inv _ (Or.inr (Or.inr ⟨_, hpc⟩)) (Or.inr (Or.inr (Or.inr ⟨_, rfl⟩)))
    exact inv_recv_data i1 (Or.inr (Or.inr ⟨_, rfl⟩)) ht
  | collectLast r k a rest hpc ht hk =>
    have i1 : InvCore { s with mbox := rest, table := s.table.set k (some a) } :=
      inv_recv_data inv (Or.inr (Or.inr ⟨_, hpc⟩)) ht
    exact core_finishCollect i1 ⟨k, hpc⟩
  | recv r src a rest hpc ht =>
    have i1 : InvCore { s with pc0 := .draining none } :=
      inv_pc0_loop inv _ (Or.inr (Or.inl ⟨_, hpc⟩)) (Or.inr (Or.inl rfl))
    exact inv_recv_data i1 (Or.inl rfl) ht
  | recvF r src a rest hpc ht =>
    have i1 : InvCore { s with pc0 := .finalDrain none } := inv_pc0_final inv _ ⟨_, hpc⟩ (Or.inl rfl)
    exact inv_recv_data i1 (Or.inr (Or.inl rfl)) ht
  | sendExit r k hpc hk => exact inv_send_exit inv hpc
  | enter r hpc => exact inv_barrier_enter0 inv hpc
  | leave r hpc ha => exact inv_barrier_leave0 inv hpc ha


/-- a helper that is still in its loop has not arrived, hence rank 0 is not done -/
theorem pc0_not_done_of_loopH {s : State} (inv : InvCore s) {r : Nat} (h0 : 0 < r) (hR : r < s.R)
    (hna : arrivedH (pcOf s r) = false) : s.pc0 ≠ .done := by
  intro hd
  have hall := inv.doneAll0 (by simp [hd, afterBarrier0])
  rw [allArrived_iff] at hall
  have := hall r (by rw [inv.lenArr]; exact hR)
  rw [inv.arrH r h0 hR, hna] at this
  cases this

theorem core_stepH {s s' : State} {a : Action} {r : Nat} (inv : InvCore s) (h0 : 0 < r) (hR : r < s.R)
    (h : StepHC s r a s') : InvCore s' := by
  cases h with
  | tick r' hpc => exact inv
  | evolve r' k hpc =>
    have i1 : InvCore { s with pcH := s.pcH.set r .sending } :=
      inv_pcH inv h0 hR .sending (by rw [hpc]; rfl) (by rw [hpc]; rfl) (by simp) (by simp)
    exact inv_age_inc i1 r k
  | send r' hpc =>
    have hna : arrivedH (pcOf s r) = false := by rcases hpc with e | e <;> rw [e] <;> rfl
    have hpl : postLoopH (pcOf s r) = false := by rcases hpc with e | e <;> rw [e] <;> rfl
    have hnd := pc0_not_done_of_loopH inv h0 hR hna
    have i1 : InvCore { s with pcH := s.pcH.set r .checking } :=
      inv_pcH inv h0 hR .checking (by rw [hna]; rfl) (by rw [hpl]; rfl) (by simp) (by simp)
    exact inv_push i1 r hnd
  | probeYes r' hpc hq =>
    refine inv_pcH inv h0 hR .recvExit (by rw [hpc]; rfl) (by rw [hpc]; rfl) (by simp) (fun _ => ?_)
    have := inv.exitEq r h0 hR
    rw [hpc] at this
    simp only [postLoopH] at this
    cases hs : exitSent s.pc0 r <;> rw [hs] at this <;>
      simp only [Bool.false_eq_true, if_false, if_true] at this <;> omega
  | probeNo r' hpc hq =>
    exact inv_pcH inv h0 hR .evolving (by rw [hpc]; rfl) (by rw [hpc]; rfl) (by simp) (by simp)
  | recv r' hpc hq => exact inv_recv_exit inv h0 hR hpc
  | enter r' hpc => exact inv_barrier_enterH inv h0 hR hpc
  | leave r' hpc ha => exact inv_barrier_leaveH inv h0 hR hpc ha

/-- the core invariant is preserved by every transition of the model (any rank, any observed slice length) -/
theorem core_step {s s' : State} {a : Action} (inv : InvCore s) (h : step s a = some s') : InvCore s' := by
  rcases step_cases h with ⟨_, h0⟩ | ⟨h0, hR, hH⟩
  · exact core_step0 inv h0
  · exact core_stepH inv h0 hR hH

end C12
end Bingo
