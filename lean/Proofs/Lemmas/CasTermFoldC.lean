import Proofs.Lemmas.CasTermFoldB
/-!
# What the search for insertion points records (for the termination of the folding loop)

For a grouped, well-formed expression every recorded insertion `(parent, children)`
* has exactly one child, which depends on the chosen constants and on nothing else unless it is a node;
* sits at a definite place of the expression (`Sub`);
* has a child determined (up to `==`) by the key under which it is recorded.
-/
namespace Bingo
namespace Cas
namespace Term
open Gen.OpDefs Expr Auto

variable {T : Int → Bool}

/-- `P` is a sub-expression of `X` -/
inductive Sub (P : Expr) : Expr → Prop
  | refl : Sub P P
  | under {o : Int} {as : List Expr} {a : Expr} : a ∈ as → Sub P a → Sub P (node o as)

theorem reach_of_sub {repl : Replacements} {P X : Expr} (h : Sub P X) (hm : Marked repl P) :
    Reach repl X := by
  induction h with
  | refl => exact .here hm
  | under ha _ ih => exact .under ha ih

theorem Sub.trans_arg {o : Int} {as : List Expr} {a root : Expr}
    (h : Sub (node o as) root) (ha : a ∈ as) : Sub a root := by
  induction h with
  | refl => exact .under ha .refl
  | under hb _ ih => exact .under hb ih

/-! ## `hasConsts` respects equality -/

theorem hasConstsList_congr_of {S : List Int} {as : List Expr}
    (h : ∀ a ∈ as, ∀ b, a.beq b = true → hasConsts S a = hasConsts S b) :
    ∀ bs, beqList as bs = true → hasConstsList S as = hasConstsList S bs := by
  induction as with
  | nil => intro bs hb; cases bs with
    | nil => rfl
    | cons b bs => simp [beqList] at hb
  | cons a as ih =>
    intro bs hb
    cases bs with
    | nil => simp [beqList] at hb
    | cons b bs =>
      simp only [beqList, Bool.and_eq_true] at hb
      simp only [hasConstsList]
      rw [h a List.mem_cons_self b hb.1, ih (fun c hc => h c (List.mem_cons_of_mem _ hc)) bs hb.2]

theorem beq_hasConsts (S : List Int) : ∀ (a b : Expr), a.beq b = true →
    hasConsts S a = hasConsts S b := by
  intro a
  induction a using Expr.ind' with
  | ht o v n =>
    intro b h
    obtain ⟨n', rfl⟩ := beq_term_left h
    rfl
  | hn o as ih =>
    intro b h
    obtain ⟨bs, rfl, hb⟩ := beq_node_left h
    simp only [hasConsts]
    exact hasConstsList_congr_of ih bs hb

theorem size_beq : ∀ (a b : Expr), a.beq b = true → size a = size b := by
  intro a
  induction a using Expr.ind' with
  | ht o v n =>
    intro b h
    obtain ⟨n', rfl⟩ := beq_term_left h
    rfl
  | hn o as ih =>
    intro b h
    obtain ⟨bs, rfl, hb⟩ := beq_node_left h
    simp only [size]
    congr 1
    clear h
    induction as generalizing bs with
    | nil => cases bs with
      | nil => rfl
      | cons b bs => simp [beqList] at hb
    | cons a as ih2 =>
      cases bs with
      | nil => simp [beqList] at hb
      | cons b bs =>
        simp only [beqList, Bool.and_eq_true] at hb
        simp only [sizeL]
        rw [ih a List.mem_cons_self b hb.1,
          ih2 (fun c hc => ih c (List.mem_cons_of_mem _ hc)) bs hb.2]

theorem hasConstsList_mem {S : List Int} {l : List Expr} {a : Expr} (ha : a ∈ l)
    (h : hasConsts S a = true) : hasConstsList S l = true := by
  induction l with
  | nil => cases ha
  | cons b l ih =>
    simp only [hasConstsList, Bool.or_eq_true]
    rcases List.mem_cons.1 ha with rfl | ha
    · exact Or.inl h
    · exact Or.inr (ih ha)

theorem eq_singleton_of {α : Type} {D : List α} {y : α} (hy : y ∈ D) (hle : D.length ≤ 1) : D = [y] := by
  match D, hy, hle with
  | [z], hy, _ => simp only [List.mem_singleton] at hy; rw [hy]
  | _ :: _ :: _, _, hle => simp only [List.length_cons] at hle; omega

/-! ## the invariant of the search -/

/-- where the child `ch` of an insertion with parent `π` sits in `root` -/
def Placed (root : Expr) (π : Option Expr) (ch : Expr) : Prop :=
  (π = none ∧ ch = root) ∨ ∃ P, π = some P ∧ ch ∈ P.args ∧ Sub P root

/-- what is known about an insertion recorded under the key `K` -/
def GG (S : List Int) (root : Expr) (K : Expr) (ins : Insertion) : Prop :=
  ∃ ch, ins.2 = [ch] ∧ hasConsts S ch = true ∧ (hasOthers S ch = false ∨ 2 ≤ size ch) ∧
    Placed root ins.1 ch ∧ ch.beq (repOf S K) = true

theorem filter_le_one (S : List Int) {o : Int} {args : List Expr} (hne : NE T (node o args) = true)
    (hg : Grp (node o args) = true) (hcv : ¬ isCV (node o args) = true)
    (hoth : ∃ b ∈ args, hasOthers S b = true) :
    (args.filter fun a => !hasOthers S a).length ≤ 1 := by
  obtain ⟨_, _, h2', _⟩ := NE_node_inv hne
  obtain ⟨hc, hm⟩ := Grp_node.1 hg
  by_cases hop : o = MULTIPLICATION ∨ o = ADDITION
  · have himp : ∀ a ∈ args, (!hasOthers S a) = true → isCV a = true := fun a ha h =>
      isCV_of_not_hasOthers S a (hm a ha) (by simpa using h)
    have l2 := filter_length_le_of_imp args himp
    have hpos : (args.filter fun a => !a.isCV).length > 0 := by
      have : ¬ (∀ a ∈ args, isCV a = true) := fun h => hcv (by
        simp only [isCV]; exact isCVList_iff.2 h)
      simp only [not_forall] at this
      obtain ⟨a, ha, hna⟩ := this
      exact List.length_pos_of_mem (List.mem_filter.2 ⟨ha, by simpa using hna⟩)
    have := hc hop
    omega
  · have hlen := h2' (fun h => hop h.symm)
    obtain ⟨b, hb, hob⟩ := hoth
    have := filter_length_succ_le (p := fun a => !hasOthers S a) ⟨b, hb, by simp [hob]⟩
    omega

theorem search_GG (S : List Int) (root : Expr) : ∀ X, NE T X = true → Grp X = true → Sub X root →
    ∀ parent, Placed root parent X → ∀ acc, IPInvK (GG S root) acc →
      IPInvK (GG S root) (searchInsertionPoints S X parent acc) := by
  intro X
  induction X using Expr.ind' with
  | ht o v n => intro _ _ _ parent _ acc h; rw [searchInsertionPoints]; exact h
  | hn o args ih =>
    intro hne hg hsub parent hpl acc hacc
    rw [searchInsertionPoints]
    have hnel := NEL_iff.1 (NE_node_inv hne).2.2.2
    have hgl := (Grp_node.1 hg).2
    have h1 : IPInvK (GG S root) (searchInsertionPointsList S args (some (node o args)) acc) :=
      searchListK_inv args acc (fun a ha acc' h =>
        ih a ha (hnel a ha) (hgl a ha) (hsub.trans_arg ha) _ (Or.inr ⟨node o args, rfl, ha, hsub⟩) acc' h) hacc
    split
    · exact h1
    · rename_i hip
      have hip' : isInsertionPoint S args = true := by simpa using hip
      simp only [isInsertionPoint, Bool.and_eq_true, List.any_eq_true] at hip'
      obtain ⟨⟨t, ht, htc⟩, ⟨b, hb, hob⟩⟩ := hip'
      simp only [Bool.not_eq_true'] at htc
      split
      · rename_i hcv
        refine addInsertion_invK h1 fun k hk => ⟨node o args, rfl, ?_, Or.inr ?_, hpl, ?_⟩
        · simp only [hasConsts]; exact hasConstsList_mem ht htc.1
        · have := size_mem ht
          have := size_pos t
          simp only [size]; omega
        · have hkcv : isCV k = true := by rw [beq_isCV k _ hk]; exact hcv
          unfold repOf
          rw [if_pos hkcv]
          exact beq_symm _ _ hk
      · rename_i hcv
        have hL : t ∈ args.filter fun a => !hasOthers S a :=
          List.mem_filter.2 ⟨ht, by simp [htc.2]⟩
        obtain ⟨y, hy, hyt⟩ := exists_dedup_beq hL
        have hle := filter_le_one (T := T) S hne hg hcv ⟨b, hb, hob⟩
        have hle2 := length_dedupExprs_le (args.filter fun a => !hasOthers S a)
        have hone : dedupExprs (args.filter fun a => !hasOthers S a) = [y] :=
          eq_singleton_of hy (by omega)
        have hymem := List.mem_filter.1 (mem_dedupExprs hy)
        refine addInsertion_invK h1 fun k hk => ⟨y, hone, ?_, Or.inl ?_, Or.inr ⟨node o args, rfl, hymem.1, hsub⟩, ?_⟩
        · rw [beq_hasConsts S y t hyt]; exact htc.1
        · simpa using hymem.2
        · obtain ⟨args', rfl, hargs⟩ := beq_node_right hk
          have hkcv : ¬ isCV (node o args') = true := by rw [beq_isCV _ _ hk]; exact hcv
          unfold repOf
          rw [if_neg hkcv, head?_dedupExprs]
          have hhead : (args.filter fun a => !hasOthers S a).head? = some y := by
            rw [← head?_dedupExprs, hone]; rfl
          simp only [Expr.args]
          rcases beqList_filter_head (p := fun o => !hasOthers S o)
              (fun a b hab => by simp only [beq_hasOthers S a b hab]) args' args hargs with
            ⟨_, h2⟩ | ⟨a, b', h1', h2, hab⟩
          · rw [h2] at hhead; cases hhead
          · rw [h2] at hhead
            cases hhead
            rw [h1']
            exact beq_symm _ _ hab

theorem findInsertionPoints_GG (S : List Int) {e : Expr} (hne : NE T e = true) (hg : Grp e = true) :
    IPInvK (GG S e) (findInsertionPoints e S) := by
  unfold findInsertionPoints
  split
  · rename_i h
    simp only [Bool.and_eq_true, Bool.not_eq_true'] at h
    intro ks hks ins hins
    simp only [List.mem_singleton] at hks
    subst hks
    simp only [List.mem_singleton] at hins
    subst hins
    refine ⟨e, rfl, h.1, Or.inl h.2, Or.inl ⟨rfl, rfl⟩, ?_⟩
    unfold repOf
    rw [if_pos (isCV_of_not_hasOthers S _ hg h.2)]
    exact beq_refl e
  · exact search_GG S e e hne hg .refl none (Or.inl ⟨rfl, rfl⟩) [] (IPInvK_nil _)

/-! ## coverage: every chosen constant lies below a recorded child -/

theorem hasConsts_mono {S : List Int} {j : Int} (hj : S.contains j = true) :
    ∀ e, hasConsts [j] e = true → hasConsts S e = true := by
  intro e
  induction e using Expr.ind' with
  | ht o v n =>
    intro h
    simp only [hasConsts, Bool.and_eq_true, beq_iff_eq, List.contains_cons, List.contains_nil,
      Bool.or_false] at h ⊢
    obtain ⟨h1, h2⟩ := h
    subst h2
    exact ⟨h1, hj⟩
  | hn o as ih =>
    intro h
    simp only [hasConsts] at h ⊢
    induction as with
    | nil => simp [hasConstsList] at h
    | cons a as ih2 =>
      simp only [hasConstsList, Bool.or_eq_true] at h ⊢
      rcases h with h | h
      · exact Or.inl (ih a List.mem_cons_self h)
      · exact Or.inr (ih2 (fun b hb => ih b (List.mem_cons_of_mem _ hb)) h)

theorem exists_hasConsts {S : List Int} {l : List Expr} (h : hasConstsList S l = true) :
    ∃ b ∈ l, hasConsts S b = true := by
  induction l with
  | nil => simp [hasConstsList] at h
  | cons a l ih =>
    simp only [hasConstsList, Bool.or_eq_true] at h
    rcases h with h | h
    · exact ⟨a, List.mem_cons_self, h⟩
    · obtain ⟨b, hb, hob⟩ := ih h
      exact ⟨b, List.mem_cons_of_mem _ hb, hob⟩

theorem exists_hasOthers' {S : List Int} {l : List Expr} (h : hasOthersList S l = true) :
    ∃ b ∈ l, hasOthers S b = true := by
  induction l with
  | nil => simp [hasOthersList] at h
  | cons a l ih =>
    simp only [hasOthersList, Bool.or_eq_true] at h
    rcases h with h | h
    · exact ⟨a, List.mem_cons_self, h⟩
    · obtain ⟨b, hb, hob⟩ := ih h
      exact ⟨b, List.mem_cons_of_mem _ hb, hob⟩

/-- an occurrence of the chosen constant `j` in an expression that also depends on something else lies
below a child of the canonical insertion of some insertion point -/
theorem occ_cover {S : List Int} {j : Int} (hj : S.contains j = true) : ∀ X,
    hasConsts [j] X = true → hasOthers S X = true → ∀ π0, ∃ π o as, Occ X π0 π (node o as) ∧
      isInsertionPoint S as = true ∧ ∃ c ∈ (canonIns S π (node o as)).2, hasConsts [j] c = true := by
  intro X
  induction X using Expr.ind' with
  | ht o v n =>
    intro hc ho π0
    exfalso
    simp only [hasConsts, Bool.and_eq_true, beq_iff_eq, List.contains_cons, List.contains_nil,
      Bool.or_false] at hc
    obtain ⟨h1, h2⟩ := hc
    subst h1; subst h2
    simp only [hasOthers, Bool.or_eq_true, beq_iff_eq, Bool.and_eq_true, Bool.not_eq_true'] at ho
    rcases ho with ho | ⟨_, ho⟩
    · exact absurd ho (by decide)
    · rw [hj] at ho; cases ho
  | hn o args ih =>
    intro hc ho π0
    simp only [hasConsts] at hc
    simp only [hasOthers] at ho
    obtain ⟨a, ha, hca⟩ := exists_hasConsts hc
    by_cases hoa : hasOthers S a = true
    · obtain ⟨π, o', as', hocc, hip, hcov⟩ := ih a ha hca hoa (some (node o args))
      exact ⟨π, o', as', .under ha hocc, hip, hcov⟩
    · have hoa' : hasOthers S a = false := by simpa using hoa
      obtain ⟨b, hb, hob⟩ := exists_hasOthers' ho
      have hip : isInsertionPoint S args = true := by
        simp only [isInsertionPoint, Bool.and_eq_true, List.any_eq_true]
        exact ⟨⟨a, ha, by simp [hasConsts_mono hj a hca, hoa']⟩, ⟨b, hb, hob⟩⟩
      refine ⟨π0, o, args, .here _ _, hip, ?_⟩
      unfold canonIns
      split
      · refine ⟨node o args, List.mem_singleton_self _, ?_⟩
        simp only [hasConsts]; exact hasConstsList_mem ha hca
      · have hL : a ∈ args.filter fun x => !hasOthers S x :=
          List.mem_filter.2 ⟨ha, by simp [hoa']⟩
        obtain ⟨y, hy, hya⟩ := exists_dedup_beq hL
        exact ⟨y, hy, by rw [beq_hasConsts [j] y a hya]; exact hca⟩

/-- coverage for the insertion points actually computed -/
theorem cover {S : List Int} {j : Int} (hj : S.contains j = true) {e : Expr}
    (hc : hasConsts [j] e = true) :
    ∃ ks ∈ findInsertionPoints e S, ∃ ins ∈ ks.2, ∃ y ∈ ins.2, hasConsts [j] y = true := by
  unfold findInsertionPoints
  split
  · exact ⟨_, List.mem_singleton_self _, _, List.mem_singleton_self _, e, List.mem_singleton_self _, hc⟩
  · rename_i h
    have ho : hasOthers S e = true := by
      simp only [Bool.and_eq_true, Bool.not_eq_true', not_and, Bool.not_eq_false] at h
      exact h (hasConsts_mono hj e hc)
    obtain ⟨π, o, as, hocc, hip, c, hcm, hcc⟩ := occ_cover hj e hc ho none
    obtain ⟨ks, hks, ins, hins, _, hch⟩ := ((search_complete S e) none []).2 π o as hocc hip
    obtain ⟨y, hy, hcy⟩ := hch c hcm
    exact ⟨ks, hks, ins, hins, y, hy, by rw [← beq_hasConsts [j] c y hcy]; exact hcc⟩

end Term
end Cas
end Bingo
