import Proofs.Lemmas.Bridge
/-!
# The forward-mode tangent of a stack is the derivative of the evaluated function

`fwd_family_hasDerivAt`: move the inputs / constants along curves `xs θ`, `cs θ`; if every
terminal row's value is differentiable in `θ` with derivative `seed row`, and every operator row
is at a point where its function is differentiable, then `θ ↦ evaluate(stack, xs θ, cs θ)` has
derivative = forward tangent of the last row of the linearised stack.  (Chain rule, by
induction along the stack; `opFn_hasDerivAt` is the induction step.)
-/
namespace Bingo
namespace AD
open Gen.OpDefs

/-- at every row the differentiability condition of that row's node holds for the operand
values in `Eval.fwd s x c` -/
def RowsDifferentiable (s : Stack) (x c : List ℝ) : Prop :=
  ∀ fw, Eval.fwd s x c = some fw → ∀ i (hi : i < s.length),
    NodeDiff s[i].node (fw.getD s[i].p1.toNat 0) (fw.getD s[i].p2.toNat 0)

/-- nodes whose function is differentiable everywhere -/
def smoothNode (n : Int) : Bool :=
  n != DIVISION && n != LOGARITHM && n != ABS && n != SQRT && n != POWER && n != SAFE_POWER

lemma rowsDifferentiable_of_smooth {s : Stack} {x c : List ℝ}
    (h : s.all (fun cmd => smoothNode cmd.node) = true) : RowsDifferentiable s x c := by
  intro fw _ i hi
  have := List.all_eq_true.mp h s[i] (List.getElem_mem hi)
  simp only [smoothNode, Bool.and_eq_true, bne_iff_ne] at this
  obtain ⟨⟨⟨⟨⟨h1, h2⟩, h3⟩, h4⟩, h5⟩, h6⟩ := this
  exact ⟨fun e => absurd e h1, fun e => absurd e h2, fun e => absurd e h3, fun e => absurd e h4,
    fun e => absurd e h5, fun e => absurd e h6⟩

/-- chain rule along a stack, for an abstract family of row values -/
theorem tangent_hasDerivAt {D L : Nat} {s : Stack} (hwf : WF.WFEval D L s) (V : ℝ → Nat → ℝ)
    (θ0 : ℝ) (seed : Cmd → ℝ)
    (hopv : ∀ θ i (hi : i < s.length), Ops.isTerminal s[i].node = some false →
      V θ i = opFn s[i].node (V θ s[i].p1.toNat) (V θ s[i].p2.toNat))
    (hleaf : ∀ i (hi : i < s.length), ¬ Ops.isTerminal s[i].node = some false →
      HasDerivAt (fun θ => V θ i) (seed s[i]) θ0)
    (hdiff : ∀ i (hi : i < s.length), Ops.isTerminal s[i].node = some false →
      NodeDiff s[i].node (V θ0 s[i].p1.toNat) (V θ0 s[i].p2.toNat))
    (T : Nat → ℝ) (hT : ReverseMode.TangentSpec (absRows seed (V θ0) s) T) :
    ∀ i, i < s.length → HasDerivAt (fun θ => V θ i) (T i) θ0 := by
  intro i
  induction i using Nat.strong_induction_on with
  | _ i ih =>
    intro hi
    have hTi := hT i (by simpa using hi)
    have hrow : (absRows seed (V θ0) s)[i]'(by simpa using hi) = absRow seed (V θ0) s[i] := by
      simp [absRows]
    rw [hrow] at hTi
    by_cases hop : Ops.isTerminal s[i].node = some false
    · rcases rowOK_cases (rowOK_of_wf hwf i hi) with ⟨hn, _⟩ | ⟨hn, _⟩ | hn | ⟨_, b0, b1, b2, b3⟩
      · rw [hn, isTerminal_VARIABLE] at hop; cases hop
      · rw [hn, isTerminal_CONSTANT] at hop; cases hop
      · rw [hn, isTerminal_INTEGER] at hop; cases hop
      have hp : s[i].p1.toNat < i := by omega
      have hq : s[i].p2.toNat < i := by omega
      simp only [absRow, hop, if_true, ReverseMode.rowTangent] at hTi
      have hf := ih _ hp (by omega)
      have hg := ih _ hq (by omega)
      have := opFn_hasDerivAt hop hf hg (hdiff i hi hop)
      rw [hTi]
      have hfun : (fun θ => V θ i) =
          fun t => opFn s[i].node (V t s[i].p1.toNat) (V t s[i].p2.toNat) := by
        funext θ; exact hopv θ i hi hop
      rw [hfun]
      exact this
    · simp only [absRow, hop, if_false, ReverseMode.rowTangent] at hTi
      rw [hTi]
      exact hleaf i hi hop

lemma evalLast_eq {s : Stack} {x c fw : List ℝ} (h : Eval.fwd s x c = some fw)
    (hlen : fw.length = s.length) (hpos : 0 < s.length) :
    Eval.evalLast s x c = some (fw.getD (s.length - 1) 0) := by
  have : s.length - 1 < fw.length := by omega
  simp only [Eval.evalLast, h, Option.bind_some, List.getLast?_eq_getElem?, hlen,
    List.getD_eq_getElem?_getD]
  rw [List.getElem?_eq_getElem this]
  rfl

/-- **Derivative of `evaluate` along a curve of inputs and constants.** -/
theorem fwd_family_hasDerivAt {D L : Nat} {s : Stack} (hwf : WF.WFEval D L s)
    (xs cs : ℝ → List ℝ) (hxs : ∀ θ, (xs θ).length = D) (hcs : ∀ θ, (cs θ).length = L)
    (θ0 : ℝ) (seed : Cmd → ℝ)
    (hleaf : ∀ i (hi : i < s.length), ¬ Ops.isTerminal s[i].node = some false →
      HasDerivAt (fun θ => leafVal (xs θ) (cs θ) s[i]) (seed s[i]) θ0)
    (hdiff : RowsDifferentiable s (xs θ0) (cs θ0)) :
    ∃ fw, Eval.fwd s (xs θ0) (cs θ0) = some fw ∧
      HasDerivAt (fun θ => (Eval.evalLast s (xs θ) (cs θ)).getD 0)
        ((ReverseMode.tangents (absRows seed (fun m => fw.getD m 0) s)).getD (s.length - 1) 0)
        θ0 := by
  have hpos := length_pos_of_wf hwf
  -- the forward values for every θ
  have hall : ∀ θ, ∃ fw, Eval.fwd s (xs θ) (cs θ) = some fw ∧ fw.length = s.length ∧
      ∀ i (hi : i < s.length),
        fw.getD i 0 = rowVal (xs θ) (cs θ) (fun m => fw.getD m 0) s[i] :=
    fun θ => fwd_spec hwf (hxs θ) (hcs θ)
  choose F hF hFlen hFval using hall
  let V : ℝ → Nat → ℝ := fun θ m => (F θ).getD m 0
  refine ⟨F θ0, hF θ0, ?_⟩
  have hfun : (fun θ => (Eval.evalLast s (xs θ) (cs θ)).getD 0) = fun θ => V θ (s.length - 1) := by
    funext θ
    rw [evalLast_eq (hF θ) (hFlen θ) hpos]
    rfl
  rw [hfun]
  have hwfR := wf_absRows hwf seed (V θ0)
  refine tangent_hasDerivAt hwf V θ0 seed ?_ ?_ ?_ _
    (ReverseMode.tangentSpec_tangents _ hwfR) (s.length - 1) (by omega)
  · intro θ i hi hop
    have := hFval θ i hi
    simp only [rowVal, hop, if_true] at this
    exact this
  · intro i hi hop
    have hfun' : (fun θ => V θ i) = fun θ => leafVal (xs θ) (cs θ) s[i] := by
      funext θ
      have := hFval θ i hi
      simp only [rowVal, hop, if_false] at this
      exact this
    rw [hfun']
    exact hleaf i hi hop
  · intro i hi _
    exact hdiff (F θ0) (hF θ0) i hi

/-! ## the two curves of C02: one input column / one constant moves -/

lemma leaf_hasDerivAt_x {D L : Nat} {s : Stack} (hwf : WF.WFEval D L s) (x c : List ℝ)
    (hx : x.length = D) (j : Nat) (hj : j < D) (i : Nat) (hi : i < s.length)
    (hop : ¬ Ops.isTerminal s[i].node = some false) :
    HasDerivAt (fun θ => leafVal (x.set j θ) c s[i]) (colSeed VARIABLE j s[i])
      (x[j]'(hx ▸ hj)) := by
  have hjx : j < x.length := hx ▸ hj
  rcases rowOK_cases (rowOK_of_wf hwf i hi) with ⟨hn, b0, b1⟩ | ⟨hn, _⟩ | hn | ⟨h, _⟩
  · by_cases hp : s[i].p1 = (j : Int)
    · have hpn : s[i].p1.toNat = j := by omega
      have hfun : (fun θ => leafVal (x.set j θ) c s[i]) = fun θ => θ := by
        funext θ
        simp [leafVal, hn, hpn, List.getD_eq_getElem?_getD, hjx]
      rw [hfun]
      simp only [colSeed, hn, hp, and_self, if_true]
      exact hasDerivAt_id _
    · have hpn : j ≠ s[i].p1.toNat := by omega
      have hfun : (fun θ => leafVal (x.set j θ) c s[i]) = fun _ => x.getD s[i].p1.toNat 0 := by
        funext θ
        simp [leafVal, hn, List.getD_eq_getElem?_getD, List.getElem?_set_ne hpn]
      rw [hfun]
      simp only [colSeed, hp, and_false, if_false]
      exact hasDerivAt_const _ _
  · have hne : ¬ (CONSTANT = VARIABLE) := by decide
    have hfun : (fun θ => leafVal (x.set j θ) c s[i]) = fun _ => c.getD s[i].p1.toNat 0 := by
      funext θ
      simp [leafVal, hn, hne]
    rw [hfun]
    simp only [colSeed, hn, hne, false_and, if_false]
    exact hasDerivAt_const _ _
  · have hne : ¬ (INTEGER = VARIABLE) := by decide
    have hne' : ¬ (INTEGER = CONSTANT) := by decide
    have hfun : (fun θ => leafVal (x.set j θ) c s[i]) = fun _ => (s[i].p1 : ℝ) := by
      funext θ
      simp [leafVal, hn, hne, hne']
    rw [hfun]
    simp only [colSeed, hn, hne, false_and, if_false]
    exact hasDerivAt_const _ _
  · exact absurd h hop

lemma leaf_hasDerivAt_c {D L : Nat} {s : Stack} (hwf : WF.WFEval D L s) (x c : List ℝ)
    (hc : c.length = L) (j : Nat) (hj : j < L) (i : Nat) (hi : i < s.length)
    (hop : ¬ Ops.isTerminal s[i].node = some false) :
    HasDerivAt (fun θ => leafVal x (c.set j θ) s[i]) (colSeed CONSTANT j s[i])
      (c[j]'(hc ▸ hj)) := by
  have hjc : j < c.length := hc ▸ hj
  have hne : ¬ (CONSTANT = VARIABLE) := by decide
  rcases rowOK_cases (rowOK_of_wf hwf i hi) with ⟨hn, _⟩ | ⟨hn, b0, b1⟩ | hn | ⟨h, _⟩
  · have hne2 : ¬ (VARIABLE = CONSTANT) := by decide
    have hfun : (fun θ => leafVal x (c.set j θ) s[i]) = fun _ => x.getD s[i].p1.toNat 0 := by
      funext θ
      simp [leafVal, hn]
    rw [hfun]
    simp only [colSeed, hn, hne2, false_and, if_false]
    exact hasDerivAt_const _ _
  · by_cases hp : s[i].p1 = (j : Int)
    · have hpn : s[i].p1.toNat = j := by omega
      have hfun : (fun θ => leafVal x (c.set j θ) s[i]) = fun θ => θ := by
        funext θ
        simp [leafVal, hn, hne, hpn, List.getD_eq_getElem?_getD, hjc]
      rw [hfun]
      simp only [colSeed, hn, hp, and_self, if_true]
      exact hasDerivAt_id _
    · have hpn : j ≠ s[i].p1.toNat := by omega
      have hfun : (fun θ => leafVal x (c.set j θ) s[i]) = fun _ => c.getD s[i].p1.toNat 0 := by
        funext θ
        simp [leafVal, hn, hne, List.getD_eq_getElem?_getD, List.getElem?_set_ne hpn]
      rw [hfun]
      simp only [colSeed, hp, and_false, if_false]
      exact hasDerivAt_const _ _
  · have hne1 : ¬ (INTEGER = VARIABLE) := by decide
    have hne' : ¬ (INTEGER = CONSTANT) := by decide
    have hfun : (fun θ => leafVal x (c.set j θ) s[i]) = fun _ => (s[i].p1 : ℝ) := by
      funext θ
      simp [leafVal, hn, hne1, hne']
    rw [hfun]
    simp only [colSeed, hn, hne', false_and, if_false]
    exact hasDerivAt_const _ _
  · exact absurd h hop

/-- the hypotheses of the simulation, from `WFEval`, `fwd_spec` and `RowsDifferentiable` -/
lemma simHyp_x {D L : Nat} {s : Stack} (hwf : WF.WFEval D L s) {x c fw : List ℝ}
    (hx : x.length = D) (hc : c.length = L) (hfw : Eval.fwd s x c = some fw)
    (hdiff : RowsDifferentiable s x c) : SimHyp D L s fw VARIABLE D := by
  obtain ⟨fw', h1, h2, h3⟩ := fwd_spec hwf hx hc
  rw [hfw] at h1
  cases h1
  refine ⟨hwf, h2, ?_, fun i hi _ => hdiff fw hfw i hi, isTerminal_VARIABLE, ?_⟩
  · intro i hi hop
    have := h3 i hi
    simp only [rowVal, hop, if_true] at this
    exact this
  · intro i hi hn
    rcases rowOK_cases (rowOK_of_wf hwf i hi) with ⟨_, b0, b1⟩ | ⟨h, _⟩ | h | ⟨h, _⟩
    · exact ⟨b0, b1⟩
    · rw [hn] at h; exact absurd h (by decide)
    · rw [hn] at h; exact absurd h (by decide)
    · rw [hn, isTerminal_VARIABLE] at h; cases h

lemma simHyp_c {D L : Nat} {s : Stack} (hwf : WF.WFEval D L s) {x c fw : List ℝ}
    (hx : x.length = D) (hc : c.length = L) (hfw : Eval.fwd s x c = some fw)
    (hdiff : RowsDifferentiable s x c) : SimHyp D L s fw CONSTANT L := by
  obtain ⟨fw', h1, h2, h3⟩ := fwd_spec hwf hx hc
  rw [hfw] at h1
  cases h1
  refine ⟨hwf, h2, ?_, fun i hi _ => hdiff fw hfw i hi, isTerminal_CONSTANT, ?_⟩
  · intro i hi hop
    have := h3 i hi
    simp only [rowVal, hop, if_true] at this
    exact this
  · intro i hi hn
    rcases rowOK_cases (rowOK_of_wf hwf i hi) with ⟨h, _⟩ | ⟨_, b0, b1⟩ | h | ⟨h, _⟩
    · rw [hn] at h; exact absurd h (by decide)
    · exact ⟨b0, b1⟩
    · rw [hn] at h; exact absurd h (by decide)
    · rw [hn, isTerminal_CONSTANT] at h; cases h

end AD
end Bingo
