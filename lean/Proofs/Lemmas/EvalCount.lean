import Proofs.Lemmas.EvalMultiprocess
/-!
# Evaluation counts over sequences of evaluation calls and over islands (core Lean only)
-/
namespace Bingo
namespace EvalPhase
open Pipeline

/-- the number of base fitness-function invocations one call of the evaluation phase makes on
`pop`: `cost` of every individual the call evaluates -/
def delta (cost : Nat → Nat) (redundant : Bool) (pop : List Indiv) : Nat :=
  ((pop.filter fun i => redundant || !i.flag).map (fun i => cost i.genome)).sum

theorem serialEval_snd_eq_delta (f : Nat → Key) (cost : Nat → Nat) (red : Bool) (pop : List Indiv) :
    (serialEval f cost red pop).2 = delta cost red pop := serialEval_snd f cost red pop

/-- one call of `Evaluation.__call__`: the population it is handed (whatever variation and
selection made of it since the last call), the redundancy setting, and for a multiprocess call the
order in which the pool hands the results back (`none` = serial) -/
structure Call where
  redundant : Bool
  pop : List Indiv
  order : Option (List Job → List Job)

def Call.run (f : Nat → Key) (cost : Nat → Nat) (c : Call) : List Indiv × Nat :=
  match c.order with
  | none => serialEval f cost c.redundant c.pop
  | some o => multiprocessEval f cost c.redundant c.pop o

/-- the pool hands back every submitted job exactly once -/
def Call.OrderOK (f : Nat → Key) (cost : Nat → Nat) (c : Call) : Prop :=
  ∀ o, c.order = some o →
    (o (jobs f cost c.redundant c.pop)).Perm (jobs f cost c.redundant c.pop)

theorem Call.run_eq (f : Nat → Key) (cost : Nat → Nat) (c : Call) (h : c.OrderOK f cost) :
    c.run f cost = serialEval f cost c.redundant c.pop := by
  unfold Call.run
  cases ho : c.order with
  | none => rfl
  | some o => exact multiprocessEval_eq_serialEval f cost c.redundant c.pop o (h o ho)

/-- `eval_count` of an island's fitness function after a sequence of evaluation calls -/
def islandCount (f : Nat → Key) (cost : Nat → Nat) (c0 : Nat) (calls : List Call) : Nat :=
  calls.foldl (fun c call => c + (call.run f cost).2) c0

theorem islandCount_eq (f : Nat → Key) (cost : Nat → Nat) (c0 : Nat) (calls : List Call)
    (h : ∀ c ∈ calls, c.OrderOK f cost) :
    islandCount f cost c0 calls = c0 + (calls.map fun c => delta cost c.redundant c.pop).sum := by
  unfold islandCount
  induction calls generalizing c0 with
  | nil => simp
  | cons c cs ih =>
    rw [List.foldl_cons, ih _ (fun c' hc' => h c' (List.mem_cons_of_mem _ hc')),
      Call.run_eq f cost c (h c List.mem_cons_self), serialEval_snd_eq_delta]
    simp only [List.map_cons, List.sum_cons]
    omega

/-- `get_fitness_evaluation_count` of an archipelago: the sum over its islands (each island:
starting count and the calls made on it) -/
def archipelagoCount (f : Nat → Key) (cost : Nat → Nat) (islands : List (Nat × List Call)) : Nat :=
  (islands.map fun isl => islandCount f cost isl.1 isl.2).sum

theorem archipelagoCount_eq (f : Nat → Key) (cost : Nat → Nat) (islands : List (Nat × List Call))
    (h : ∀ isl ∈ islands, ∀ c ∈ isl.2, c.OrderOK f cost) :
    archipelagoCount f cost islands =
      (islands.map (·.1)).sum +
        (islands.map fun isl => (isl.2.map fun c => delta cost c.redundant c.pop).sum).sum := by
  unfold archipelagoCount
  induction islands with
  | nil => rfl
  | cons isl rest ih =>
    simp only [List.map_cons, List.sum_cons]
    rw [ih (fun i hi => h i (List.mem_cons_of_mem _ hi)),
      islandCount_eq f cost isl.1 isl.2 (h isl List.mem_cons_self)]
    omega

end EvalPhase
end Bingo
