import Proofs.Lemmas.CasSem
/-!
# Which terminals occur in an expression

`hasTerm o v e`: the terminal `(o, v)` (e.g. `(CONSTANT, id)` or `(VARIABLE, j)`) occurs in `e`.
`Ok k T e` with `T := fun o v => hasTerm o v e₀` says "every non-`INTEGER` terminal of `e` occurs in
`e₀`"; since every pass preserves `Ok k T` for arbitrary `T`, no pass invents a constant id or a variable.
-/
namespace Bingo
namespace Cas
open Gen.OpDefs Expr

mutual
def hasTerm (o v : Int) : Expr → Bool
  | term o' v' _ => o' == o && v' == v
  | node _ as => hasTermList o v as
def hasTermList (o v : Int) : List Expr → Bool
  | [] => false
  | a :: as => hasTerm o v a || hasTermList o v as
end

theorem hasTermList_iff {o v : Int} {l : List Expr} :
    hasTermList o v l = true ↔ ∃ a ∈ l, hasTerm o v a = true := by
  induction l with
  | nil => simp [hasTermList]
  | cons a l ih => simp [hasTermList, ih]

/-- `Ok k T` = the shape part + "every non-`INTEGER` terminal satisfies `T`" -/
theorem Ok_iff_terms {k : Bool} {T : Int → Int → Bool} : ∀ {e : Expr},
    Ok k T e = true ↔ Ok k (fun _ _ => true) e = true ∧
      ∀ o v, hasTerm o v e = true → o = INTEGER ∨ T o v = true := by
  intro e
  induction e using Expr.rec (motive_2 := fun l => OkList k T l = true ↔
      OkList k (fun _ _ => true) l = true ∧
        ∀ o v, hasTermList o v l = true → o = INTEGER ∨ T o v = true) with
  | term o v np =>
    rw [Ok_term, Ok_term]
    constructor
    · intro h
      refine ⟨Or.inr rfl, fun o' v' h' => ?_⟩
      simp only [hasTerm, Bool.and_eq_true, beq_iff_eq] at h'
      obtain ⟨rfl, rfl⟩ := h'
      exact h
    · intro h
      exact h.2 o v (by simp [hasTerm])
  | node o as ih =>
    simp only [Ok, Bool.and_eq_true, hasTerm]
    rw [ih]
    constructor
    · rintro ⟨h1, h2, h3⟩; exact ⟨⟨h1, h2⟩, h3⟩
    · rintro ⟨⟨h1, h2⟩, h3⟩; exact ⟨h1, h2, h3⟩
  | nil => simp [OkList, hasTermList]
  | cons a as iha ihas =>
    simp only [OkList, Bool.and_eq_true, hasTermList, Bool.or_eq_true]
    rw [iha, ihas]
    constructor
    · rintro ⟨⟨h1, h2⟩, h3, h4⟩
      exact ⟨⟨h1, h3⟩, fun o v h => h.elim (h2 o v) (h4 o v)⟩
    · rintro ⟨⟨h1, h3⟩, h⟩
      exact ⟨⟨h1, fun o v h' => h o v (Or.inl h')⟩, h3, fun o v h' => h o v (Or.inr h')⟩

/-- an expression is `Ok` for the set of its own terminals -/
theorem Ok_self {k : Bool} {e : Expr} (h : Ok k (fun _ _ => true) e = true) :
    Ok k (fun o v => hasTerm o v e) e = true :=
  Ok_iff_terms.mpr ⟨h, fun _ _ h' => Or.inr h'⟩

/-- a pass that preserves `Ok k T` for every `T` does not invent terminals -/
theorem terms_subset_of_Ok {k : Bool} {e e' : Expr}
    (h : Ok k (fun o v => hasTerm o v e) e' = true) :
    ∀ o v, hasTerm o v e' = true → o = INTEGER ∨ hasTerm o v e = true :=
  (Ok_iff_terms.mp h).2

end Cas
end Bingo
