import Model.Pipeline
import Model.Migration
import Proofs.Lemmas.EvalPhase
/-!
# Concrete nondeterministic semantics of the phases, and soundness of the abstract interpreter

`CStep f p s s'` is the concrete (oracle-driven) semantics of one phase for an arbitrary
deterministic fitness function `f`; `ReadsOK f p s` says that the containers phase `p` reads exist
and contain only evaluated individuals.  `Abs f a s` relates an abstract state to the concrete
states it describes.  Core Lean only.

A concrete state has the population, the offspring (absent until variation ran) and `next`, the
list returned by the selection (a fresh local of `generational_step`; absent until selection ran).
Containers hold values: the semantics does not model that the members of `next` are the same
objects as members of `pop`/`off`; the only phase whose effect on such an alias could matter,
`resetPop`, never occurs inside a generational step (it is an event of `History`).
-/
namespace Bingo
namespace PipelineSem
open Pipeline EvalPhase

structure CState where
  pop : List Indiv
  off : Option (List Indiv)
  /-- the list returned by the selection (a fresh local of `generational_step`) -/
  next : Option (List Indiv)

def AllEv (f : Nat → Key) (l : List Indiv) : Prop := ∀ i ∈ l, Evaluated f i
def AllFresh (f : Nat → Key) (l : List Indiv) : Prop := ∀ i ∈ l, Fresh f i

/-- the offspring container exists and holds only evaluated individuals -/
def OffEv (f : Nat → Key) (s : CState) : Prop := ∃ o, s.off = some o ∧ AllEv f o

/-- `reset_fitness`: every flag cleared (the model's `Migration.resetFitness`) -/
abbrev clearFlags (l : List Indiv) : List Indiv := Migration.resetFitness l

/-- `i` is a member of the container(s) `src` denotes -/
def SrcMem (s : CState) : Src → Indiv → Prop
  | .pop, i => i ∈ s.pop
  | .off, i => ∃ o, s.off = some o ∧ i ∈ o
  | .popPlusOff, i => i ∈ s.pop ∨ ∃ o, s.off = some o ∧ i ∈ o

/-- concrete semantics of one phase; every oracle choice (children, shuffles, selected members,
evaluation cost and redundancy) is universally quantified -/
inductive CStep (f : Nat → Key) : Phase → CState → CState → Prop
  /-- children are fresh: an unchanged copy keeps flag and value, a changed child is unflagged -/
  | variation (s : CState) (cs : List Indiv) (h : AllFresh f cs) :
      CStep f .variation s { s with off := some cs }
  | evalPop (s : CState) (cost : Nat → Nat) (redundant : Bool) :
      CStep f .evalPop s { s with pop := (serialEval f cost redundant s.pop).1 }
  | evalOff (s : CState) (cost : Nat → Nat) (redundant : Bool) :
      CStep f .evalOff s { s with off := s.off.map fun o => (serialEval f cost redundant o).1 }
  | diagnostics (s : CState) : CStep f .diagnostics s s
  | shuffle (s : CState) (n l : List Indiv) (hn : s.next = some n) (h : l.Perm n) :
      CStep f .shuffle s { s with next := some l }
  | readPop (s : CState) : CStep f .readPop s s
  /-- selection returns members (or value copies of members) of its source, as a new list -/
  | select (s : CState) (src : Src) (l : List Indiv) (h : ∀ i ∈ l, SrcMem s src i) :
      CStep f (.select src) s { s with next := some l }
  | resetPop (s : CState) : CStep f .resetPop s { s with pop := clearFlags s.pop }

/-- the containers the phase reads fitness values from exist and are evaluated -/
def ReadsOK (f : Nat → Key) : Phase → CState → Prop
  | .diagnostics, s => AllEv f s.pop ∧ OffEv f s
  | .select .pop, s => AllEv f s.pop
  | .select .off, s => OffEv f s
  | .select .popPlusOff, s => AllEv f s.pop ∧ OffEv f s
  | .readPop, s => AllEv f s.pop
  | _, _ => True

def AbsVal (f : Nat → Key) : AVal → Option (List Indiv) → Prop
  | .ev, some l => AllEv f l
  | .fr, some l => AllFresh f l
  | .none, none => True
  | _, _ => False

/-- abstraction relation -/
def Abs (f : Nat → Key) (a : AState) (s : CState) : Prop :=
  AbsVal f a.pop (some s.pop) ∧ AbsVal f a.off s.off ∧ AbsVal f a.next s.next

/-- concrete execution of a phase list -/
inductive CRun (f : Nat → Key) : List Phase → CState → CState → Prop
  | nil (s : CState) : CRun f [] s s
  | cons {p : Phase} {ps : List Phase} {s s1 s2 : CState} :
      CStep f p s s1 → CRun f ps s1 s2 → CRun f (p :: ps) s s2

/-- every read along every concrete execution of `ps` from `s` is safe -/
def SafeFrom (f : Nat → Key) : List Phase → CState → Prop
  | [], _ => True
  | p :: ps, s => ReadsOK f p s ∧ ∀ s', CStep f p s s' → SafeFrom f ps s'

/-! ## basic facts -/

instance (f : Nat → Key) (i : Indiv) : Decidable (Evaluated f i) := by
  unfold Evaluated; infer_instance
instance (f : Nat → Key) (i : Indiv) : Decidable (Fresh f i) := by
  unfold Fresh; infer_instance
instance (f : Nat → Key) (l : List Indiv) : Decidable (AllEv f l) := by
  unfold AllEv; infer_instance
instance (f : Nat → Key) (l : List Indiv) : Decidable (AllFresh f l) := by
  unfold AllFresh; infer_instance

theorem AllEv.fresh {f : Nat → Key} {l : List Indiv} (h : AllEv f l) : AllFresh f l :=
  fun i hi => evaluated_fresh (h i hi)

theorem allFresh_clearFlags (f : Nat → Key) (l : List Indiv) : AllFresh f (clearFlags l) := by
  intro i hi
  simp only [clearFlags, Migration.resetFitness, List.mem_map] at hi
  obtain ⟨j, _, rfl⟩ := hi
  intro h; cases h

theorem AbsVal.ev_iff {f : Nat → Key} {o : Option (List Indiv)} :
    AbsVal f .ev o ↔ ∃ l, o = some l ∧ AllEv f l := by
  cases o <;> simp [AbsVal]

theorem AbsVal.fresh_of_ne_none {f : Nat → Key} {a : AVal} {o : Option (List Indiv)}
    (h : AbsVal f a o) (ha : a ≠ .none) : ∃ l, o = some l ∧ AllFresh f l := by
  cases a <;> cases o <;> simp_all [AbsVal]
  exact h.fresh

theorem join_eq_ev {a b : AVal} (h : a.join b = .ev) : a = .ev ∧ b = .ev := by
  cases a <;> cases b <;> simp_all [AVal.join]

/-- `SafeFrom` says exactly: whatever prefix has been executed, the next phase's reads are safe -/
theorem safeFrom_iff (f : Nat → Key) (ps : List Phase) (s : CState) :
    SafeFrom f ps s ↔
      ∀ pre p post s1, ps = pre ++ p :: post → CRun f pre s s1 → ReadsOK f p s1 := by
  induction ps generalizing s with
  | nil =>
    simp only [SafeFrom, true_iff]
    intro pre p post s1 h
    cases pre <;> simp at h
  | cons q qs ih =>
    simp only [SafeFrom]
    constructor
    · rintro ⟨h0, hrest⟩ pre p post s1 hsplit hrun
      cases hrun with
      | nil =>
        simp only [List.nil_append, List.cons.injEq] at hsplit
        rw [← hsplit.1]; exact h0
      | cons hstep hrun' =>
        simp only [List.cons_append, List.cons.injEq] at hsplit
        obtain ⟨rfl, rfl⟩ := hsplit
        exact (ih _).mp (hrest _ hstep) _ p post s1 rfl hrun'
    · intro h
      refine ⟨h [] q qs s rfl (CRun.nil s), ?_⟩
      intro s' hstep
      refine (ih s').mpr ?_
      intro pre p post s1 hsplit hrun
      exact h (q :: pre) p post s1 (by rw [hsplit]; rfl) (CRun.cons hstep hrun)

/-! ## soundness of the abstract interpreter -/

theorem abstract_sound {f : Nat → Key} {a a' : AState} {p : Phase} {s : CState}
    (habs : Abs f a s) (hstep : absStep a p = some a') :
    ReadsOK f p s ∧ ∀ s', CStep f p s s' → Abs f a' s' := by
  obtain ⟨hp, ho, hn⟩ := habs
  cases p with
  | variation =>
    simp only [absStep] at hstep
    split at hstep
    · cases hstep
    · cases hstep
      refine ⟨trivial, ?_⟩
      intro s' h; cases h with
      | variation _ cs hcs => exact ⟨hp, hcs, hn⟩
  | evalPop =>
    simp only [absStep] at hstep
    split at hstep
    · cases hstep
    · rename_i hne
      cases hstep
      refine ⟨trivial, ?_⟩
      intro s' h; cases h with
      | evalPop _ cost red =>
        obtain ⟨l, hl, hfr⟩ := hp.fresh_of_ne_none hne
        cases hl
        exact ⟨serialEval_all_evaluated cost red hfr, ho, hn⟩
  | evalOff =>
    simp only [absStep] at hstep
    split at hstep
    · cases hstep
    · rename_i hne
      cases hstep
      refine ⟨trivial, ?_⟩
      intro s' h; cases h with
      | evalOff _ cost red =>
        obtain ⟨l, hl, hfr⟩ := ho.fresh_of_ne_none hne
        refine ⟨hp, ?_, hn⟩
        show AbsVal f .ev (s.off.map _)
        rw [hl]
        exact serialEval_all_evaluated cost red hfr
  | diagnostics =>
    simp only [absStep] at hstep
    split at hstep
    · rename_i hev
      cases hstep
      rw [hev.1] at hp; rw [hev.2] at ho
      refine ⟨⟨hp, AbsVal.ev_iff.mp ho⟩, ?_⟩
      intro s' h; cases h
      exact ⟨by rw [hev.1]; exact hp, by rw [hev.2]; exact ho, hn⟩
    · cases hstep
  | select src =>
    simp only [absStep] at hstep
    split at hstep
    · rename_i hev
      cases hstep
      have key : ReadsOK f (.select src) s ∧ ∀ i, SrcMem s src i → Evaluated f i := by
        cases src with
        | pop =>
          simp only [srcVal] at hev; rw [hev] at hp
          exact ⟨hp, fun i hi => hp i hi⟩
        | off =>
          simp only [srcVal] at hev; rw [hev] at ho
          obtain ⟨o, hso, hoev⟩ := AbsVal.ev_iff.mp ho
          refine ⟨⟨o, hso, hoev⟩, ?_⟩
          rintro i ⟨o', ho', hi⟩
          rw [hso] at ho'; cases ho'
          exact hoev i hi
        | popPlusOff =>
          simp only [srcVal] at hev
          obtain ⟨h1, h2⟩ := join_eq_ev hev
          rw [h1] at hp; rw [h2] at ho
          obtain ⟨o, hso, hoev⟩ := AbsVal.ev_iff.mp ho
          refine ⟨⟨hp, o, hso, hoev⟩, ?_⟩
          rintro i (hi | ⟨o', ho', hi⟩)
          · exact hp i hi
          · rw [hso] at ho'; cases ho'
            exact hoev i hi
      refine ⟨key.1, ?_⟩
      intro s' h; cases h with
      | select _ _ l hl => exact ⟨hp, ho, fun i hi => key.2 i (hl i hi)⟩
    · cases hstep
  | shuffle =>
    simp only [absStep] at hstep
    split at hstep
    · cases hstep
    · cases hstep
      refine ⟨trivial, ?_⟩
      intro s' h; cases h with
      | shuffle _ n l hsn hperm =>
        refine ⟨hp, ho, ?_⟩
        rw [hsn] at hn
        revert hn
        cases a.next <;> simp only [AbsVal, AllEv, AllFresh, imp_self]
        · intro hn i hi; exact hn i (hperm.mem_iff.mp hi)
        · intro hn i hi; exact hn i (hperm.mem_iff.mp hi)
  | resetPop =>
    simp only [absStep] at hstep
    split at hstep
    · cases hstep
    · cases hstep
      refine ⟨trivial, ?_⟩
      intro s' h; cases h
      exact ⟨allFresh_clearFlags f s.pop, ho, hn⟩
  | readPop =>
    simp only [absStep] at hstep
    split at hstep
    · rename_i hev
      cases hstep
      rw [hev] at hp
      refine ⟨hp, ?_⟩
      intro s' h; cases h
      exact ⟨by rw [hev]; exact hp, ho, hn⟩
    · cases hstep
  | unsupported why =>
    simp [absStep] at hstep

/-- lifted to phase lists: every read along every concrete execution is safe, and every final
state satisfies the final abstract state -/
theorem abstract_sound_run {f : Nat → Key} {ps : List Phase} {a a' : AState} {s : CState}
    (habs : Abs f a s) (hrun : absRun ps a = some a') :
    SafeFrom f ps s ∧ ∀ s', CRun f ps s s' → Abs f a' s' := by
  induction ps generalizing a s with
  | nil =>
    simp only [absRun, Option.some.injEq] at hrun
    subst hrun
    refine ⟨trivial, ?_⟩
    intro s' h; cases h; exact habs
  | cons p ps ih =>
    simp only [absRun] at hrun
    split at hrun
    · cases hrun
    · rename_i a1 hstep
      obtain ⟨hread, hnext⟩ := abstract_sound habs hstep
      refine ⟨⟨hread, fun s1 h1 => (ih (hnext s1 h1) hrun).1⟩, ?_⟩
      intro s' h
      cases h with
      | cons h1 hrest => exact (ih (hnext _ h1) hrun).2 s' hrest

end PipelineSem
end Bingo
