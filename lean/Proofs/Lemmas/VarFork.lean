import Proofs.Lemmas.VarGen
/-!
# Fork mutation: post-conditions of `moveUtilizedCommands`, `fixIndices`, `insertFork`

The well-formedness of the child needs much less than the index map of `_move_utilized_commands`:
* `moveUtilizedCommands` returns a rearrangement of the parent's rows (same length, every row is a row
  of the parent), `mutatedCommandLocation < startI` and `endI = startI + #unutilized − 1`;
* `fixIndices` keeps every node, keeps terminal rows, makes the parameters of utilized operators
  natural numbers (`remapRows`) and then re-draws *every* operator parameter that is not below its own
  row (`fixColumn`), so afterwards every row is fine at its position;
* `insertFork` only writes rows that are fine at the position they are written to.
-/
namespace Bingo
namespace VarLemmas
open Var Gen.OpDefs ReduceLemmas

theorem ofNat_lt_cast {a b : Nat} (h : a < b) : Int.ofNat a < (b : Int) := Int.ofNat_lt.mpr h

/-! ## `_move_utilized_commands` -/

def mvTuples (s : Stack) (util : List Bool) : List ((Cmd × Bool) × Nat) :=
  (s.zip util).zip (List.range s.length)

def mvBefore (s : Stack) (util : List Bool) (loc : Nat) : List ((Cmd × Bool) × Nat) :=
  (mvTuples s util).filter (fun t => t.1.2 && decide (t.2 ≤ loc))
def mvUnutilized (s : Stack) (util : List Bool) : List ((Cmd × Bool) × Nat) :=
  (mvTuples s util).filter (fun t => !t.1.2)
def mvAfter (s : Stack) (util : List Bool) (loc : Nat) : List ((Cmd × Bool) × Nat) :=
  (mvTuples s util).filter (fun t => t.1.2 && !decide (t.2 ≤ loc))
/-- the new order: utilized rows up to `loc`, unutilized rows, utilized rows after `loc` -/
def mvFinal (s : Stack) (util : List Bool) (loc : Nat) : List ((Cmd × Bool) × Nat) :=
  mvBefore s util loc ++ mvUnutilized s util ++ mvAfter s util loc

theorem moveUtilizedCommands_eq (s : Stack) (util : List Bool) (loc : Nat) :
    moveUtilizedCommands s util loc =
      (if (mvFinal s util loc).isEmpty then M.raise .valueError
       else do
        let mcl ← M.ofOption .keyError (findPos loc ((mvFinal s util loc).map (·.2)))
        pure { stack := (mvFinal s util loc).map (·.1.1), util := (mvFinal s util loc).map (·.1.2),
               indexValues := (List.range s.length).map fun old =>
                 if old = loc then (mvBefore s util loc).length + (mvUnutilized s util).length - 1
                 else (findPos old ((mvFinal s util loc).map (·.2))).getD 0,
               mutatedCommandLocation := mcl, startI := (mvBefore s util loc).length,
               endI := (mvBefore s util loc).length + (mvUnutilized s util).length - 1 }) := rfl

theorem filter3_length {α : Type} (p q : α → Bool) (l : List α) :
    (l.filter (fun t => p t && q t)).length + (l.filter (fun t => !p t)).length +
      (l.filter (fun t => p t && !q t)).length = l.length := by
  induction l with
  | nil => rfl
  | cons hd tl ih =>
    simp only [List.filter_cons]
    cases p hd <;> cases q hd <;> simp <;> omega

theorem mvTuples_length {s : Stack} {util : List Bool} (h : util.length = s.length) :
    (mvTuples s util).length = s.length := by
  simp [mvTuples, h]

theorem mvFinal_length {s : Stack} {util : List Bool} (h : util.length = s.length) (loc : Nat) :
    (mvFinal s util loc).length = s.length := by
  have := filter3_length (fun t : (Cmd × Bool) × Nat => t.1.2) (fun t => decide (t.2 ≤ loc))
    (mvTuples s util)
  rw [mvTuples_length h] at this
  unfold mvFinal mvBefore mvUnutilized mvAfter
  rw [List.length_append, List.length_append]
  exact this

theorem mvTuples_mem_fst {s : Stack} {util : List Bool} {t : (Cmd × Bool) × Nat}
    (h : t ∈ mvTuples s util) : t.1.1 ∈ s := by
  obtain ⟨⟨c, b⟩, k⟩ := t
  exact (List.of_mem_zip (List.of_mem_zip h).1).1

theorem mvFinal_mem {s : Stack} {util : List Bool} {loc : Nat} {t : (Cmd × Bool) × Nat}
    (h : t ∈ mvFinal s util loc) : t ∈ mvTuples s util := by
  simp only [mvFinal, mvBefore, mvUnutilized, mvAfter, List.mem_append, List.mem_filter] at h
  rcases h with (h | h) | h <;> exact h.1

theorem mvTuples_get {s : Stack} {util : List Bool} {loc : Nat} {c : Cmd} {b : Bool}
    (hc : s[loc]? = some c) (hb : util[loc]? = some b) : ((c, b), loc) ∈ mvTuples s util := by
  apply List.mem_of_getElem? (i := loc)
  rw [mvTuples, List.getElem?_zip_eq_some, List.getElem?_zip_eq_some]
  exact ⟨⟨hc, hb⟩, List.getElem?_range (List.getElem?_eq_some_iff.mp hc).1⟩

theorem mvUnutilized_length {s : Stack} {util : List Bool} (h : util.length = s.length) :
    (mvUnutilized s util).length = util.count false := by
  have hmap : (mvTuples s util).map (fun t => t.1.2) = util := by
    have e : (fun t : (Cmd × Bool) × Nat => t.1.2) = Prod.snd ∘ Prod.fst := rfl
    rw [e, ← List.map_map, mvTuples, List.map_fst_zip (by simp [h]), List.map_snd_zip (by omega)]
  unfold mvUnutilized
  rw [← List.countP_eq_length_filter, List.count_eq_countP]
  conv => rhs; rw [← hmap, List.countP_map]
  congr 1
  funext t
  obtain ⟨⟨c, b⟩, k⟩ := t
  cases b <;> rfl

/-- the new order is a permutation of the old one -/
theorem filter3_perm {α : Type} (p q : α → Bool) (l : List α) :
    (l.filter (fun t => p t && q t) ++ l.filter (fun t => !p t) ++
      l.filter (fun t => p t && !q t)).Perm l := by
  induction l with
  | nil => simp
  | cons hd tl ih =>
    simp only [List.filter_cons]
    cases hp : p hd <;> cases hq : q hd <;> simp only [Bool.and_true, Bool.and_false, Bool.not_true,
      Bool.not_false, if_true, Bool.false_eq_true, if_false]
    · rw [List.append_assoc, List.cons_append]
      exact List.perm_middle.trans (List.Perm.cons _ (by rw [← List.append_assoc]; exact ih))
    · rw [List.append_assoc, List.cons_append]
      exact List.perm_middle.trans (List.Perm.cons _ (by rw [← List.append_assoc]; exact ih))
    · exact List.perm_middle.trans (List.Perm.cons _ ih)
    · exact List.Perm.cons _ ih

theorem mvFinal_perm (s : Stack) (util : List Bool) (loc : Nat) :
    (mvFinal s util loc).Perm (mvTuples s util) :=
  filter3_perm (fun t : (Cmd × Bool) × Nat => t.1.2) (fun t => decide (t.2 ≤ loc)) (mvTuples s util)

theorem mvTuples_map_row {s : Stack} {util : List Bool} (h : util.length = s.length) :
    (mvTuples s util).map (fun t => t.1.1) = s := by
  have e : (fun t : (Cmd × Bool) × Nat => t.1.1) = Prod.fst ∘ Prod.fst := rfl
  rw [e, ← List.map_map, mvTuples, List.map_fst_zip (by simp [h]), List.map_fst_zip (by omega)]

/-- `_move_utilized_commands` consumes no draw and returns a permutation of the parent's rows -/
theorem moveUtilizedCommands_perm {s : Stack} {util : List Bool} {loc : Nat} {ds rest : List Nat}
    {mv : Moved} (hlen : util.length = s.length)
    (h : moveUtilizedCommands s util loc ds = .ok (mv, rest)) : mv.stack.Perm s ∧ rest = ds := by
  rw [moveUtilizedCommands_eq] at h
  split at h
  · exact absurd h (raise_not_ok _ _ _)
  · obtain ⟨mcl, ds', h1, h2⟩ := (bind_ok_iff _ _ _ _ _).mp h
    obtain ⟨_, rfl⟩ := (ofOption_ok_iff _ _ _ _ _).mp h1
    obtain ⟨rfl, rfl⟩ := (pure_ok_iff _ _ _ _).mp h2
    refine ⟨?_, rfl⟩
    have := (mvFinal_perm s util loc).map (fun t => t.1.1)
    rw [mvTuples_map_row hlen] at this
    exact this

/-- post-condition of `_move_utilized_commands` (as far as well-formedness of the child needs it) -/
theorem post_moveUtilizedCommands (s : Stack) (util : List Bool) (loc : Nat)
    (hlen : util.length = s.length) (hloc : util[loc]? = some true) :
    Post (moveUtilizedCommands s util loc) (fun mv =>
      mv.stack.length = s.length ∧ (∀ c ∈ mv.stack, c ∈ s) ∧
      mv.mutatedCommandLocation < mv.startI ∧ mv.endI = mv.startI + util.count false - 1) := by
  rw [moveUtilizedCommands_eq]
  apply post_ite
  · intro _; exact post_raise
  · intro _
    apply Post.bind (post_ofOption (P := fun mcl => mcl < (mvBefore s util loc).length) ?_)
    · intro mcl hmcl
      apply post_pure
      refine ⟨by simp [mvFinal_length hlen], ?_, hmcl, by simp [mvUnutilized_length hlen]⟩
      intro c hc
      obtain ⟨t, ht, rfl⟩ := List.mem_map.mp hc
      exact mvTuples_mem_fst (mvFinal_mem ht)
    · intro mcl hmcl
      have hl : loc < s.length := by
        have := (List.getElem?_eq_some_iff.mp hloc).1; omega
      have hmem : loc ∈ (mvBefore s util loc).map (·.2) := by
        apply List.mem_map.mpr
        refine ⟨((s[loc], true), loc), ?_, rfl⟩
        simp only [mvBefore, List.mem_filter]
        exact ⟨mvTuples_get (by simp [hl]) hloc, by simp⟩
      obtain ⟨k, hk, hlt⟩ := findPos_append_of_mem loc _
        ((mvUnutilized s util ++ mvAfter s util loc).map (·.2)) hmem
      have e : (mvFinal s util loc).map (·.2) = (mvBefore s util loc).map (·.2) ++
          (mvUnutilized s util ++ mvAfter s util loc).map (·.2) := by
        simp [mvFinal, List.append_assoc]
      rw [e, hk] at hmcl
      cases hmcl
      simpa using hlt

/-! ## `_fix_indices` -/

/-- the row is fine at some position: a good terminal, or an enabled operator with parameters `≥ 0` -/
def PreOK (cfg : Config) (c : Cmd) : Prop := ∃ j, RowSpec cfg j c

theorem post_remapParam (iv : List Nat) (p : Int) :
    Post (remapParam iv p) (fun q => ∃ v : Nat, q = Int.ofNat v) := by
  unfold remapParam
  apply Post.bind (post_ofOption (P := fun _ => True) fun _ _ => trivial)
  intro j _
  apply Post.bind (post_ofOption (P := fun _ => True) fun _ _ => trivial)
  intro v _
  exact post_pure ⟨v, rfl⟩

theorem post_remapRows (cfg : Config) (iv : List Nat) : ∀ (cs : List Cmd) (us : List Bool),
    (∀ c ∈ cs, PreOK cfg c) →
    Post (remapRows iv cs us) (fun cs' => cs'.length = cs.length ∧ ∀ c ∈ cs', PreOK cfg c) := by
  intro cs
  induction cs with
  | nil =>
    intro us _
    cases us <;> (unfold remapRows; exact post_pure ⟨rfl, by simp⟩)
  | cons c cs ih =>
    intro us h
    cases us with
    | nil => unfold remapRows; exact post_pure ⟨rfl, h⟩
    | cons u us =>
      unfold remapRows
      apply Post.bind (post_ofOption (P := fun t => Ops.isTerminal c.node = some t) fun _ e => e)
      intro t ht
      apply Post.bind (P := PreOK cfg)
      · apply post_ite
        · intro hcond
          have htf : t = false := by cases t <;> simp_all
          subst htf
          apply Post.bind (post_remapParam iv c.p1)
          rintro p1 ⟨v1, rfl⟩
          apply Post.bind (post_remapParam iv c.p2)
          rintro p2 ⟨v2, rfl⟩
          apply post_pure
          obtain ⟨j, hj⟩ := h c (by simp)
          refine ⟨max v1 v2 + 1, ?_⟩
          cases hj with
          | var hv _ _ => rw [hv, variable_facts.1] at ht; cases ht
          | const hv => rw [hv, constant_facts.1] at ht; cases ht
          | int hv => rw [hv, integer_facts.1] at ht; cases ht
          | op _ hm _ _ _ _ =>
            refine .op ht hm (by simp) ?_ (by simp) ?_
            · exact ofNat_lt_cast (by omega)
            · exact ofNat_lt_cast (by omega)
        · intro _; exact post_pure (h c (by simp))
      intro c' hc'
      apply Post.bind (ih us fun x hx => h x (by simp [hx]))
      rintro rest ⟨hl, hr⟩
      apply post_pure
      refine ⟨by simp [hl], ?_⟩
      intro x hx
      rcases List.mem_cons.mp hx with rfl | hx
      · exact hc'
      · exact hr x hx

/-- the column `_fix_indices` is working on / the other one -/
def col (first : Bool) (c : Cmd) : Int := if first then c.p1 else c.p2
def other (first : Bool) (c : Cmd) : Int := if first then c.p2 else c.p1
def setCol (first : Bool) (c : Cmd) (v : Int) : Cmd :=
  if first then ⟨c.node, v, c.p2⟩ else ⟨c.node, c.p1, v⟩

@[simp] theorem col_setCol (first : Bool) (c : Cmd) (v : Int) : col first (setCol first c v) = v := by
  cases first <;> rfl
@[simp] theorem other_setCol (first : Bool) (c : Cmd) (v : Int) :
    other first (setCol first c v) = other first c := by
  cases first <;> rfl
@[simp] theorem node_setCol (first : Bool) (c : Cmd) (v : Int) : (setCol first c v).node = c.node := by
  cases first <;> rfl

def Fixed (first : Bool) (i : Nat) (c : Cmd) : Prop := 0 ≤ col first c ∧ col first c < i

/-- how `fixColumn` may change row `i` -/
def RowRel (first : Bool) (i : Nat) (c c' : Cmd) : Prop :=
  c'.node = c.node ∧ other first c' = other first c ∧
    (col first c' = col first c ∨ (Ops.isTerminal c.node = some false ∧ Fixed first i c'))

theorem RowRel.refl (first : Bool) (i : Nat) (c : Cmd) : RowRel first i c c := ⟨rfl, rfl, Or.inl rfl⟩

theorem RowRel.trans {first : Bool} {i : Nat} {a b c : Cmd} (h1 : RowRel first i a b)
    (h2 : RowRel first i b c) : RowRel first i a c := by
  refine ⟨h2.1.trans h1.1, h2.2.1.trans h1.2.1, ?_⟩
  rcases h2.2.2 with e | ⟨ht, hf⟩
  · rcases h1.2.2 with e' | ⟨ht', hf'⟩
    · exact Or.inl (e.trans e')
    · exact Or.inr ⟨ht', by unfold Fixed at *; rw [e]; exact hf'⟩
  · exact Or.inr ⟨by rw [← h1.1]; exact ht, hf⟩

theorem RowRel.fixed {first : Bool} {i : Nat} {a b : Cmd} (h : RowRel first i a b)
    (hf : Fixed first i a) : Fixed first i b := by
  rcases h.2.2 with e | ⟨_, hf'⟩
  · unfold Fixed at *; rw [e]; exact hf
  · exact hf'

def StackRel (first : Bool) (s s' : Stack) : Prop :=
  s'.length = s.length ∧ ∀ i c, s[i]? = some c → ∃ c', s'[i]? = some c' ∧ RowRel first i c c'

theorem StackRel.refl (first : Bool) (s : Stack) : StackRel first s s :=
  ⟨rfl, fun i c h => ⟨c, h, RowRel.refl first i c⟩⟩

theorem StackRel.trans {first : Bool} {a b c : Stack} (h1 : StackRel first a b)
    (h2 : StackRel first b c) : StackRel first a c := by
  refine ⟨h2.1.trans h1.1, fun i x hx => ?_⟩
  obtain ⟨y, hy, r1⟩ := h1.2 i x hx
  obtain ⟨z, hz, r2⟩ := h2.2 i y hy
  exact ⟨z, hz, r1.trans r2⟩

/-- the loop body of `fixColumn` -/
def fixStep (first : Bool) (st : Stack) (i : Nat) : M Stack := do
  let v ← randomOperatorParameter i
  let c ← getRow st i
  setRow st i (if first then ⟨c.node, v, c.p2⟩ else ⟨c.node, c.p1, v⟩)

theorem post_fixStep (first : Bool) (st : Stack) (i : Nat)
    (hop : ∀ c, st[i]? = some c → Ops.isTerminal c.node = some false) :
    Post (fixStep first st i) (fun st' => StackRel first st st' ∧
      ∃ c', st'[i]? = some c' ∧ Fixed first i c') := by
  unfold fixStep
  apply Post.bind (post_randomOperatorParameter' i)
  intro v hv
  apply Post.bind (post_getRow st i)
  intro c hc
  apply (post_setRow st i _).mono
  rintro st' ⟨hlt, rfl⟩
  have e : (if first then (⟨c.node, v, c.p2⟩ : Cmd) else ⟨c.node, c.p1, v⟩) = setCol first c v := rfl
  rw [e]
  refine ⟨⟨by simp, fun j x hx => ?_⟩, setCol first c v, by simp [hlt], by simpa [Fixed] using hv⟩
  by_cases e : i = j
  · subst e
    have : x = c := by rw [hc] at hx; exact (Option.some.inj hx).symm
    subst this
    refine ⟨setCol first x v, by simp [hlt], by simp, by simp, Or.inr ⟨hop x hc, by simpa [Fixed] using hv⟩⟩
  · exact ⟨x, by rw [List.getElem?_set_ne e]; exact hx, RowRel.refl first j x⟩

theorem post_fixFold (first : Bool) : ∀ (l : List Nat) (st : Stack),
    (∀ i ∈ l, ∀ c, st[i]? = some c → Ops.isTerminal c.node = some false) →
    Post (l.foldlM (fixStep first) st) (fun s' => StackRel first st s' ∧
      ∀ i ∈ l, ∃ c', s'[i]? = some c' ∧ Fixed first i c') := by
  intro l
  induction l with
  | nil =>
    intro st _
    exact post_pure ⟨StackRel.refl first st, by simp⟩
  | cons i l ih =>
    intro st hop
    rw [List.foldlM_cons]
    apply Post.bind (post_fixStep first st i (hop i (by simp)))
    rintro st1 ⟨hrel, c1, hc1, hf1⟩
    have hop1 : ∀ j ∈ l, ∀ c, st1[j]? = some c → Ops.isTerminal c.node = some false := by
      intro j hj c hc
      have hjl : j < st.length := by
        have := (List.getElem?_eq_some_iff.mp hc).1; rw [hrel.1] at this; exact this
      obtain ⟨c', hc', r⟩ := hrel.2 j st[j] (by simp [hjl])
      rw [hc] at hc'; cases hc'
      rw [r.1]; exact hop j (by simp [hj]) _ (by simp [hjl])
    apply (ih st1 hop1).mono
    rintro s' ⟨hrel', hall⟩
    refine ⟨hrel.trans hrel', fun j hj => ?_⟩
    rcases List.mem_cons.mp hj with rfl | hj
    · obtain ⟨c', hc', r⟩ := hrel'.2 j c1 hc1
      exact ⟨c', hc', r.fixed hf1⟩
    · exact hall j hj

/-- the rows `fixColumn` re-draws -/
def toFixOf (first : Bool) (s : Stack) : List Nat :=
  indicesWhere (fun i (c : Cmd) => Ops.isTerminal c.node == some false &&
    decide ((if first then c.p1 else c.p2) ≥ Int.ofNat i)) 0 s

theorem fixColumn_eq (first : Bool) (s : Stack) :
    fixColumn first s = (match toFixOf first s with
      | [] => pure s
      | i0 :: _ => do
        let _ ← randomOperatorParameter i0
        (toFixOf first s).foldlM (fixStep first) s) := rfl

/-- post-condition of one pass of `fixColumn`: nodes and the other column are kept, rows that are not
operators are kept, and every operator row whose parameter was `≥ 0` has it in `[0, i)` afterwards -/
theorem post_fixColumn (first : Bool) (s : Stack) :
    Post (fixColumn first s) (fun s' => s'.length = s.length ∧
      ∀ i c, s[i]? = some c → ∃ c', s'[i]? = some c' ∧ RowRel first i c c' ∧
        (Ops.isTerminal c.node = some false → 0 ≤ col first c → Fixed first i c')) := by
  have hmem : ∀ i, i ∈ toFixOf first s ↔
      ∃ c, s[i]? = some c ∧ Ops.isTerminal c.node = some false ∧ col first c ≥ Int.ofNat i := by
    intro i
    rw [toFixOf, mem_indicesWhere_zero]
    simp [col]
  have hfinal : ∀ s', (StackRel first s s' ∧
      ∀ i ∈ toFixOf first s, ∃ c', s'[i]? = some c' ∧ Fixed first i c') →
      s'.length = s.length ∧
      ∀ i c, s[i]? = some c → ∃ c', s'[i]? = some c' ∧ RowRel first i c c' ∧
        (Ops.isTerminal c.node = some false → 0 ≤ col first c → Fixed first i c') := by
    rintro s' ⟨hrel, hall⟩
    refine ⟨hrel.1, fun i c hc => ?_⟩
    obtain ⟨c', hc', r⟩ := hrel.2 i c hc
    refine ⟨c', hc', r, fun ht h0 => ?_⟩
    by_cases hi : col first c ≥ Int.ofNat i
    · obtain ⟨c'', hc'', hf⟩ := hall i ((hmem i).mpr ⟨c, hc, ht, hi⟩)
      rw [hc'] at hc''; cases hc''; exact hf
    · rcases r.2.2 with e | ⟨_, hf⟩
      · unfold Fixed; rw [e]; exact ⟨h0, by simpa using hi⟩
      · exact hf
  rw [fixColumn_eq]
  generalize hl : toFixOf first s = l
  cases l with
  | nil =>
    apply post_pure
    apply hfinal
    refine ⟨StackRel.refl first s, ?_⟩
    intro i hi
    rw [hl] at hi; simp at hi
  | cons i0 tl =>
    apply Post.bind (post_randomOperatorParameter' i0)
    intro _ _
    have := post_fixFold first (i0 :: tl) s (by
      intro i hi c hc
      rw [← hl] at hi
      obtain ⟨c', hc', ht, _⟩ := (hmem i).mp hi
      rw [hc] at hc'; cases hc'; exact ht)
    exact this.mono fun s' h => hfinal s' ⟨h.1, fun i hi => h.2 i (hl ▸ hi)⟩

/-- every row is fine at its own position -/
def AllRows (cfg : Config) (s : Stack) : Prop := ∀ i c, s[i]? = some c → RowSpec cfg i c

theorem AllRows.set {cfg : Config} {s : Stack} {i : Nat} {c : Cmd} (h : AllRows cfg s)
    (hc : RowSpec cfg i c) : AllRows cfg (s.set i c) := by
  intro j c' hj
  rw [List.getElem?_set] at hj
  split at hj
  · next e =>
    subst e
    split at hj
    · cases hj; exact hc
    · cases hj
  · exact h j c' hj

theorem AllRows.wf {cfg : Config} {s : Stack} (h : AllRows cfg s) (hlen : 0 < s.length) :
    WF.WFGenome cfg.D cfg.ops s := by
  rw [wfGenome_iff]
  exact ⟨by intro e; subst e; simp at hlen, fun i c hi => rowOK_iff_spec.mpr (h i c hi)⟩

theorem AllRows.of_wf {cfg : Config} {s : Stack} (h : WF.WFGenome cfg.D cfg.ops s) : AllRows cfg s :=
  fun _ _ hi => rowOK_iff_spec.mp (wf_rowOK h hi)

/-- post-condition of `_fix_indices`: whatever the index map, every row ends up fine at its position -/
theorem post_fixIndices (cfg : Config) (s : Stack) (util : List Bool) (iv : List Nat)
    (hpre : ∀ c ∈ s, PreOK cfg c) :
    Post (fixIndices s util iv) (fun s' => s'.length = s.length ∧ AllRows cfg s') := by
  unfold fixIndices
  apply Post.bind (post_remapRows cfg iv s util hpre)
  rintro s1 ⟨hl1, hp1⟩
  apply Post.bind (post_fixColumn true s1)
  rintro s2 ⟨hl2, hr2⟩
  apply (post_fixColumn false s2).mono
  rintro s3 ⟨hl3, hr3⟩
  refine ⟨by omega, fun i c3 hc3 => ?_⟩
  have hi : i < s1.length := by
    have := (List.getElem?_eq_some_iff.mp hc3).1; omega
  obtain ⟨c2, hc2, r12, hf2⟩ := hr2 i s1[i] (by simp [hi])
  obtain ⟨c3', hc3', r23, hf3⟩ := hr3 i c2 hc2
  rw [hc3] at hc3'; cases hc3'
  obtain ⟨j, hj⟩ := hp1 s1[i] (by simp)
  generalize s1[i] = c1 at *
  obtain ⟨hn12, ho12, hc12⟩ := r12
  obtain ⟨hn23, ho23, hc23⟩ := r23
  simp only [col, other, if_true, Bool.false_eq_true, if_false] at ho12 hc12 ho23 hc23 hf2 hf3
  have term : Ops.isTerminal c1.node = some true → c3.node = c1.node ∧ c3.p1 = c1.p1 := by
    intro ht
    refine ⟨hn23.trans hn12, ?_⟩
    rcases hc12 with e | ⟨hf, _⟩
    · rw [ho23, e]
    · rw [ht] at hf; cases hf
  cases hj with
  | var hv h0 h1 =>
    obtain ⟨e1, e2⟩ := term (by rw [hv]; exact variable_facts.1)
    exact .var (e1.trans hv) (by rw [e2]; exact h0) (by rw [e2]; exact h1)
  | const hv =>
    obtain ⟨e1, _⟩ := term (by rw [hv]; exact constant_facts.1)
    exact .const (e1.trans hv)
  | int hv =>
    obtain ⟨e1, _⟩ := term (by rw [hv]; exact integer_facts.1)
    exact .int (e1.trans hv)
  | op ht hm h10 _ h20 _ =>
    have f2 := hf2 ht h10
    have f3 := hf3 (by rw [hn12]; exact ht) (by rw [ho12]; exact h20)
    simp only [Fixed, col, if_true, Bool.false_eq_true, if_false] at f2 f3
    refine .op (by rw [hn23, hn12]; exact ht) (by rw [hn23, hn12]; exact hm) ?_ ?_ f3.1 f3.2
    · rw [ho23]; exact f2.1
    · rw [ho23]; exact f2.2

/-! ## `_insert_fork` -/

theorem post_getArityOperatorLoop (cfg : Config) (b : Bool) : ∀ n,
    Post (getArityOperatorLoop cfg b n) (fun o => ∀ op, o = some op → op ∈ cfg.ops) := by
  intro n
  induction n with
  | zero => exact post_pure (by simp)
  | succ n ih =>
    unfold getArityOperatorLoop
    apply Post.bind (post_randomOperator cfg)
    intro op hop
    apply Post.bind (post_isArity2M op)
    intro b' _
    apply post_ite
    · intro _; apply post_pure; intro op' e; cases e; exact hop
    · intro _; exact ih

theorem post_setRow_allRows (cfg : Config) (s : Stack) (i : Nat) (c : Cmd) (h : AllRows cfg s)
    (hc : RowSpec cfg i c) :
    Post (setRow s i c) (fun s' => s'.length = s.length ∧ AllRows cfg s') :=
  (post_setRow s i c).mono fun s' ⟨_, e⟩ => by subst e; exact ⟨by simp, h.set hc⟩

theorem post_insertForkNormal (cfg : Config) (hcfg : CfgOK cfg) (op2 : Int) (hop2 : op2 ∈ cfg.ops)
    (forkSize mcl startI endI nT : Nat) (hmcl : mcl < startI) (hend : startI + forkSize - 1 ≤ endI) :
    ∀ (k i : Nat) (s : Stack), startI ≤ i → AllRows cfg s →
      Post (insertForkNormal cfg op2 forkSize mcl startI endI nT k i s)
        (fun s' => s'.length = s.length ∧ AllRows cfg s') := by
  intro k
  induction k with
  | zero => intro i s _ h; exact post_pure ⟨rfl, h⟩
  | succ k ih =>
    intro i s hi h
    unfold insertForkNormal
    have hjp : ∀ s' : Stack, s'.length = s.length ∧ AllRows cfg s' →
        Post (insertForkNormal cfg op2 forkSize mcl startI endI nT k (i+1) s')
          (fun s'' => s''.length = s.length ∧ AllRows cfg s'') := by
      rintro s' ⟨hl, h'⟩
      apply (ih (i+1) s' (by omega) h').mono
      rintro s'' ⟨hl', h''⟩
      exact ⟨by omega, h''⟩
    dsimp only
    apply post_ite
    · intro _
      apply Post.bind (post_randomTerminalCommand cfg)
      intro c hc
      exact Post.bind (post_setRow_allRows cfg s i c h (hc.spec i)) hjp
    · intro _
      apply post_ite
      · intro hlast
        apply Post.bind (post_drawRange startI i)
        intro r hr
        refine Post.bind (post_setRow_allRows cfg s endI _ h ?_) hjp
        refine .op (hcfg.1 op2 hop2) hop2 (by simp) ?_ (by simp) ?_
        · exact ofNat_lt_cast (by omega)
        · exact ofNat_lt_cast (by omega)
      · intro _
        apply Post.bind (post_randomOperator cfg)
        intro op hop
        apply Post.bind (post_drawRange startI i)
        intro r1 hr1
        apply Post.bind (post_drawRange startI i)
        intro r2 hr2
        refine Post.bind (post_setRow_allRows cfg s i _ h ?_) hjp
        refine .op (hcfg.1 op hop) hop (by simp) ?_ (by simp) ?_
        · exact ofNat_lt_cast (by omega)
        · exact ofNat_lt_cast (by omega)

theorem post_insertForkArity1 (cfg : Config) (hcfg : CfgOK cfg)
    (forkSize mcl startI endI : Nat) (hmcl : mcl < startI) (hend : startI + forkSize - 1 ≤ endI) :
    ∀ (k i : Nat) (s : Stack), startI ≤ i → AllRows cfg s →
      Post (insertForkArity1 cfg forkSize mcl startI endI k i s)
        (fun s' => s'.length = s.length ∧ AllRows cfg s') := by
  intro k
  induction k with
  | zero => intro i s _ h; exact post_pure ⟨rfl, h⟩
  | succ k ih =>
    intro i s hi h
    unfold insertForkArity1
    apply Post.bind (post_randomOperator cfg)
    intro op hop
    have hjp : ∀ s' : Stack, s'.length = s.length ∧ AllRows cfg s' →
        Post (insertForkArity1 cfg forkSize mcl startI endI k (i+1) s')
          (fun s'' => s''.length = s.length ∧ AllRows cfg s'') := by
      rintro s' ⟨hl, h'⟩
      apply (ih (i+1) s' (by omega) h').mono
      rintro s'' ⟨hl', h''⟩
      exact ⟨by omega, h''⟩
    dsimp only
    apply post_ite
    · intro e
      refine Post.bind (post_setRow_allRows cfg s i _ h ?_) hjp
      refine .op (hcfg.1 op hop) hop (by simp) ?_ (by simp) ?_ <;>
      · exact ofNat_lt_cast (by omega)
    · intro hne
      apply post_ite
      · intro hlast
        refine Post.bind (post_setRow_allRows cfg s endI _ h ?_) hjp
        refine .op (hcfg.1 op hop) hop ?_ ?_ ?_ ?_ <;>
        · simp only [Int.ofNat_eq_natCast]; omega
      · intro _
        refine Post.bind (post_setRow_allRows cfg s i _ h ?_) hjp
        refine .op (hcfg.1 op hop) hop ?_ ?_ ?_ ?_ <;>
        · simp only [Int.ofNat_eq_natCast]; omega

theorem post_insertFork (cfg : Config) (hcfg : CfgOK cfg) (s : Stack) (forkSize mcl startI endI : Nat)
    (hmcl : mcl < startI) (hend : startI + forkSize - 1 ≤ endI) (h : AllRows cfg s) :
    Post (insertFork cfg s forkSize mcl startI endI)
      (fun s' => s'.length = s.length ∧ AllRows cfg s') := by
  unfold insertFork
  apply Post.bind (post_getArityOperatorLoop cfg true 100)
  intro o ho
  cases o with
  | some op2 =>
    simp only []
    apply Post.bind (post_drawRange _ _)
    intro nT _
    exact post_insertForkNormal cfg hcfg op2 (ho op2 rfl) forkSize mcl startI endI nT hmcl hend
      forkSize startI s (Nat.le_refl _) h
  | none =>
    simp only []
    exact post_insertForkArity1 cfg hcfg forkSize mcl startI endI hmcl hend forkSize startI s
      (Nat.le_refl _) h

/-! ## `_fork_mutation` -/

theorem post_forkMutation (cfg : Config) (hcfg : CfgOK cfg) (s : Stack)
    (hwf : WF.WFGenome cfg.D cfg.ops s) :
    Post (forkMutation cfg s) (fun s' => WF.WFGenome cfg.D cfg.ops s' ∧ s'.length = s.length) := by
  have hpos : 0 < s.length := List.length_pos_iff.mpr (wf_ne hwf)
  unfold forkMutation
  apply Post.bind (post_utilizedM s)
  intro u hu
  obtain ⟨u0, hu0, hinv⟩ := utilized_inv (wf_rows hwf)
  rw [hu] at hu0; cases hu0
  have hulen : u.length = s.length := hinv.len
  extract_lets nUn maxFork inds
  apply post_ite
  · intro _; exact post_pure ⟨hwf, rfl⟩
  · intro hn
    apply Post.bind (post_drawRange _ _)
    intro forkSize hfs
    apply Post.bind (post_drawRange _ _)
    intro pos _
    apply Post.bind (post_ofOption (P := fun loc => u[loc]? = some true) ?_)
    · intro loc hloc
      apply Post.bind (post_moveUtilizedCommands s u loc hulen hloc)
      rintro mv ⟨hml, hmm, hmcl, hmend⟩
      apply Post.bind (post_fixIndices cfg mv.stack mv.util mv.indexValues ?_)
      · rintro fixed ⟨hfl, hfr⟩
        apply (post_insertFork cfg hcfg fixed forkSize mv.mutatedCommandLocation mv.startI mv.endI
          hmcl ?_ hfr).mono
        · rintro s' ⟨hl, hr⟩
          exact ⟨hr.wf (by omega), by omega⟩
        · have : forkSize ≤ nUn := by
            have : maxFork ≤ nUn := Nat.min_le_left _ _
            omega
          have : nUn = u.count false := rfl
          omega
      · intro c hc
        obtain ⟨i, hi⟩ := List.mem_iff_getElem?.mp (hmm c hc)
        exact ⟨i, AllRows.of_wf hwf i c hi⟩
    · intro loc hloc
      have hm := List.mem_of_getElem? hloc
      have : loc ∈ indicesWhere (fun _ x => x) 0 u := hm
      rw [mem_indicesWhere_zero] at this
      obtain ⟨x, hx, hp⟩ := this
      have hp : x = true := hp
      subst hp; exact hx

end VarLemmas
end Bingo
