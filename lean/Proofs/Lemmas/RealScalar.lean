import Model.Scalar
import Mathlib.Analysis.SpecialFunctions.Pow.Real
import Mathlib.Analysis.SpecialFunctions.Sqrt
import Mathlib.Analysis.SpecialFunctions.Trigonometric.DerivHyp
import Mathlib.Data.Real.Sign
/-!
# The real-number instance of `Scalar`

"The mathematical function" of each numpy primitive, in Mathlib's terms.  Mathlib's functions
are total (`x / 0 = 0`, `Real.log 0 = 0`, `Real.sqrt` of a negative is `0`, `Real.rpow` of a
negative base is `exp (y log x) cos (π y)`); statements that depend on the conventional
domain carry the domain condition as a hypothesis.
-/
namespace Bingo

noncomputable instance : Scalar ℝ where
  ofInt := fun n => (n : ℝ)
  add := (· + ·)
  sub := (· - ·)
  mul := (· * ·)
  div := (· / ·)
  pow := fun a b => a ^ b
  sin := Real.sin
  cos := Real.cos
  sinh := Real.sinh
  cosh := Real.cosh
  exp := Real.exp
  log := Real.log
  abs := fun a => |a|
  sqrt := Real.sqrt
  sign := Real.sign

end Bingo
