import Model.Pipeline
/-!
# The evaluation phase: `serialEval` as a map, its count as a filtered sum (core Lean only)
-/
namespace Bingo
namespace EvalPhase
open Pipeline

/-- the evaluated copy of an individual (what `indv.fitness = f(indv)` leaves behind) -/
def evalOne (f : Nat → Key) (i : Indiv) : Indiv := { i with fit := some (f i.genome), flag := true }

/-- is the individual evaluated by a call of the evaluation phase? -/
def touched (redundant : Bool) (i : Indiv) : Bool := redundant || !i.flag

theorem serialEval_cons (f : Nat → Key) (cost : Nat → Nat) (red : Bool) (i : Indiv) (l : List Indiv) :
    serialEval f cost red (i :: l) =
      if touched red i then (evalOne f i :: (serialEval f cost red l).1, (serialEval f cost red l).2 + cost i.genome)
      else (i :: (serialEval f cost red l).1, (serialEval f cost red l).2) := by
  rfl

theorem serialEval_fst (f : Nat → Key) (cost : Nat → Nat) (red : Bool) (l : List Indiv) :
    (serialEval f cost red l).1 = l.map fun i => if touched red i then evalOne f i else i := by
  induction l with
  | nil => rfl
  | cons i l ih =>
    rw [serialEval_cons]
    by_cases h : touched red i = true <;> simp [h, ih]

theorem serialEval_snd (f : Nat → Key) (cost : Nat → Nat) (red : Bool) (l : List Indiv) :
    (serialEval f cost red l).2 = ((l.filter fun i => touched red i).map (fun i => cost i.genome)).sum := by
  induction l with
  | nil => rfl
  | cons i l ih =>
    rw [serialEval_cons]
    by_cases h : touched red i = true <;> simp [h, ih]
    omega

theorem serialEval_length (f : Nat → Key) (cost : Nat → Nat) (red : Bool) (l : List Indiv) :
    (serialEval f cost red l).1.length = l.length := by
  simp [serialEval_fst]

theorem serialEval_getElem? (f : Nat → Key) (cost : Nat → Nat) (red : Bool) (l : List Indiv) (k : Nat) :
    (serialEval f cost red l).1[k]? = l[k]?.map fun i => if touched red i then evalOne f i else i := by
  simp [serialEval_fst]

theorem serialEval_getElem (f : Nat → Key) (cost : Nat → Nat) (red : Bool) (l : List Indiv) (k : Nat)
    (h : k < l.length) :
    ((serialEval f cost red l).1[k]'(by rw [serialEval_length]; exact h)) =
      if touched red l[k] then evalOne f l[k] else l[k] := by
  simp [serialEval_fst]

theorem evalOne_evaluated (f : Nat → Key) (i : Indiv) : Evaluated f (evalOne f i) := ⟨rfl, rfl⟩

theorem evaluated_fresh {f : Nat → Key} {i : Indiv} (h : Evaluated f i) : Fresh f i := fun _ => h.2

theorem fresh_flag_evaluated {f : Nat → Key} {i : Indiv} (h : Fresh f i) (hf : i.flag = true) :
    Evaluated f i := ⟨hf, h hf⟩

/-- a member of the output is the image of a member of the input -/
theorem mem_serialEval {f : Nat → Key} {cost : Nat → Nat} {red : Bool} {l : List Indiv} {o : Indiv}
    (h : o ∈ (serialEval f cost red l).1) :
    ∃ i ∈ l, o = if touched red i then evalOne f i else i := by
  rw [serialEval_fst] at h
  obtain ⟨i, hi, rfl⟩ := List.mem_map.mp h
  exact ⟨i, hi, rfl⟩

/-- evaluation of a population of fresh individuals leaves only evaluated individuals -/
theorem serialEval_all_evaluated {f : Nat → Key} (cost : Nat → Nat) (red : Bool) {l : List Indiv}
    (hl : ∀ i ∈ l, Fresh f i) : ∀ o ∈ (serialEval f cost red l).1, Evaluated f o := by
  intro o ho
  obtain ⟨i, hi, rfl⟩ := mem_serialEval ho
  by_cases h : touched red i = true
  · simp only [h, if_true]; exact evalOne_evaluated f i
  · simp only [h]
    have hf : i.flag = true := by
      cases hfl : i.flag with
      | true => rfl
      | false => simp [touched, hfl] at h
    exact fresh_flag_evaluated (hl i hi) hf

/-- redundant evaluation leaves only evaluated individuals, whatever the input -/
theorem serialEval_redundant_evaluated (f : Nat → Key) (cost : Nat → Nat) (l : List Indiv) :
    ∀ o ∈ (serialEval f cost true l).1, Evaluated f o := by
  intro o ho
  obtain ⟨i, _, rfl⟩ := mem_serialEval ho
  simp only [touched, Bool.true_or, if_true]
  exact evalOne_evaluated f i

end EvalPhase
end Bingo
