import Proofs.Lemmas.ConvergeCriteria
/-!
# C14 helper lemmas, part 2: the two loops of `evolve_until_convergence`

`stateAfter obs age improv best rounds` is the optimizer state after the entry update and the
rounds in `rounds` (a plain left fold of `_update_best_fitness` over the observations), so every
statement about the returned state reduces to a statement about a fold.  `MainGood` is the
trace predicate of the main loop: at every check that was followed by another round no
criterion held and fewer than `maxGen` generations had been evolved.
-/
namespace Bingo
namespace Converge

theorem snoc_induction {α : Type} {P : List α → Prop} (nil : P [])
    (snoc : ∀ l a, P l → P (l ++ [a])) (l : List α) : P l := by
  have h : ∀ r : List α, P r.reverse := by
    intro r
    induction r with
    | nil => simpa using nil
    | cons x xs ih => simpa using snoc _ x ih
  simpa using h l.reverse

/-! ### the state as a fold -/

/-- `evolve(g)` followed by `_update_best_fitness()`, the latter reading observation `k` -/
def step (obs : Nat → Obs) (st : St) (k g : Nat) : St :=
  updateBest { st with age := st.age + g } (obs k).best

def evolveFrom (obs : Nat → Obs) : St → Nat → List Nat → St
  | st, _, [] => st
  | st, k, g :: gs => evolveFrom obs (step obs st k g) (k + 1) gs

/-- the state after the entry update (`_starting_age = generational_age`,
`_update_best_fitness()`) and the rounds `rounds` -/
def stateAfter (obs : Nat → Obs) (age improv : Nat) (best : Option Key) (rounds : List Nat) : St :=
  evolveFrom obs (updateBest ⟨age, age, improv, best⟩ (obs 0).best) 1 rounds

/-- what the main loop passes to `evolve` in the round with (0-based) index `j` -/
def gensFor (cfg : Cfg) (obs : Nat → Obs) (j : Nat) : Nat :=
  if cfg.maxTime.isNone then cfg.freq else (obs j).gens

/-- number of rounds of the `while ... < min_generations` loop -/
def minRounds (cfg : Cfg) : Nat := (cfg.minGen + cfg.freq - 1) / cfg.freq

theorem minRounds_le_iff {cfg : Cfg} (hf : 0 < cfg.freq) (m : Nat) :
    minRounds cfg ≤ m ↔ cfg.minGen ≤ m * cfg.freq := by
  unfold minRounds
  rw [← Nat.lt_succ_iff, Nat.div_lt_iff_lt_mul hf, Nat.succ_mul]
  omega

theorem updateBest_start (st : St) (b : Key) : (updateBest st b).start = st.start := by
  unfold updateBest; split
  · rfl
  · split <;> rfl
theorem updateBest_age (st : St) (b : Key) : (updateBest st b).age = st.age := by
  unfold updateBest; split
  · rfl
  · split <;> rfl
theorem updateBest_best (st : St) (b : Key) : (updateBest st b).best = some b := by
  unfold updateBest; split
  · rfl
  · split <;> rfl

theorem evolveFrom_snoc (obs : Nat → Obs) (gs : List Nat) (g : Nat) :
    ∀ (st : St) (k : Nat),
      evolveFrom obs st k (gs ++ [g]) = step obs (evolveFrom obs st k gs) (k + gs.length) g := by
  induction gs with
  | nil => intro st k; simp [evolveFrom]
  | cons x xs ih =>
    intro st k
    simp only [List.cons_append, evolveFrom, ih, List.length_cons]
    congr 1; omega

variable {obs : Nat → Obs} {age improv : Nat} {best : Option Key}

theorem stateAfter_nil :
    stateAfter obs age improv best [] = updateBest ⟨age, age, improv, best⟩ (obs 0).best := rfl

theorem stateAfter_snoc (R : List Nat) (g : Nat) :
    stateAfter obs age improv best (R ++ [g]) =
      updateBest { stateAfter obs age improv best R with
        age := (stateAfter obs age improv best R).age + g } (obs (R.length + 1)).best := by
  unfold stateAfter; rw [evolveFrom_snoc, Nat.add_comm 1]; rfl

theorem stateAfter_start (R : List Nat) : (stateAfter obs age improv best R).start = age := by
  induction R using snoc_induction with
  | nil => rw [stateAfter_nil, updateBest_start]
  | snoc l a ih => rw [stateAfter_snoc, updateBest_start]; exact ih

theorem stateAfter_age (R : List Nat) : (stateAfter obs age improv best R).age = age + R.sum := by
  induction R using snoc_induction with
  | nil => rw [stateAfter_nil, updateBest_age]; rfl
  | snoc l a ih =>
    rw [stateAfter_snoc, updateBest_age, List.sum_append_nat]; simp only [ih]; simp; omega

theorem stateAfter_best (R : List Nat) :
    (stateAfter obs age improv best R).best = some (obs R.length).best := by
  induction R using snoc_induction with
  | nil => rw [stateAfter_nil, updateBest_best]; rfl
  | snoc l a ih => rw [stateAfter_snoc, updateBest_best]; simp

theorem stateAfter_evolved (R : List Nat) :
    (stateAfter obs age improv best R).age - (stateAfter obs age improv best R).start = R.sum := by
  rw [stateAfter_age, stateAfter_start]; omega

/-! ### `_fitness_improvement_age` -/

/-- the value `_update_best_fitness` finds in `_best_fitness` at check `j` (`none` = Python
`None`, only possible at entry) -/
def prevBest (obs : Nat → Obs) (best : Option Key) : Nat → Option Key
  | 0 => best
  | j + 1 => some (obs j).best

/-- check `j` records an improvement: `last_best_fitness is None or best < last_best_fitness` -/
def improvedAt (obs : Nat → Obs) (best : Option Key) (j : Nat) : Bool :=
  match prevBest obs best j with
  | none => true
  | some last => Key.lt (obs j).best last

theorem stateAfter_nil_improv :
    (stateAfter obs age improv best []).improv = if improvedAt obs best 0 then age else improv := by
  rw [stateAfter_nil]; unfold updateBest improvedAt prevBest
  cases best with
  | none => rfl
  | some b => simp only []; split <;> simp_all

theorem stateAfter_snoc_improv (R : List Nat) (g : Nat) :
    (stateAfter obs age improv best (R ++ [g])).improv =
      if improvedAt obs best (R.length + 1) then age + (R ++ [g]).sum
      else (stateAfter obs age improv best R).improv := by
  rw [stateAfter_snoc]; unfold updateBest improvedAt prevBest
  simp only [stateAfter_best, stateAfter_age, List.sum_append_nat]
  split <;> simp_all <;> omega

theorem stateAfter_improv (R : List Nat) :
    (∀ j, j ≤ R.length → improvedAt obs best j = true →
      (∀ i, j < i → i ≤ R.length → improvedAt obs best i = false) →
      (stateAfter obs age improv best R).improv = age + (R.take j).sum) ∧
    ((∀ j, j ≤ R.length → improvedAt obs best j = false) →
      (stateAfter obs age improv best R).improv = improv) := by
  induction R using snoc_induction with
  | nil =>
    refine ⟨fun j hj hi _ => ?_, fun h => ?_⟩
    · have : j = 0 := by simpa using hj
      subst this; rw [stateAfter_nil_improv, hi]; simp
    · rw [stateAfter_nil_improv, h 0 (Nat.le_refl _)]; simp
  | snoc l a ih =>
    refine ⟨fun j hj hi hlast => ?_, fun h => ?_⟩
    · rw [stateAfter_snoc_improv]
      simp only [List.length_append, List.length_singleton] at hj hlast
      by_cases hjl : j = l.length + 1
      · subst hjl
        rw [hi, if_pos rfl, List.take_of_length_le (by simp)]
      · have hj' : j ≤ l.length := by omega
        rw [hlast (l.length + 1) (by omega) (Nat.le_refl _)]
        rw [List.take_append_of_le_length hj']
        simpa using ih.1 j hj' hi (fun i h1 h2 => hlast i h1 (by omega))
    · rw [stateAfter_snoc_improv]
      simp only [List.length_append, List.length_singleton] at h
      rw [h (l.length + 1) (Nat.le_refl _)]
      simpa using ih.2 (fun j hj => h j (by omega))

end Converge
end Bingo
