import Proofs.Lemmas.CheckpointRotation
/-!
# C13 helper lemmas, part 3: a whole call (`callOps (some n) [] ages` from the disk `fs0`)
-/
namespace Bingo
namespace Checkpoint

theorem Inv_init (n : Nat) (fs0 : FS) (ages : List Nat) (S : Nat → Bool) (c : Nat)
    (hs : ages.Pairwise (· < ·)) (hS : ∀ a ∈ ages, S a = true) :
    Inv n fs0 ages S c [] ages fs0 [] where
  complete := by intro b hb; simp at hb
  renamed := by intro b hb; simp at hb
  sorted := by simpa using hs
  len := Nat.zero_le _
  fresh := fun _ => ⟨rfl, rfl, rfl⟩
  wr := by intro g _ b hb; simp at hb
  own := by intro b hb; simp at hb
  future := hS
  cnt := by intro h; exact absurd rfl h

/-- every crash state of the call is described by `Q` -/
theorem call_reachable {n : Nat} (hn : 1 ≤ n) (fs0 : FS) {ages : List Nat}
    (hs : ages.Pairwise (· < ·)) (S : Nat → Bool) (c : Nat) (hS : ∀ a ∈ ages, S a = true)
    (hc : ∀ a rest, ages = a :: rest → (((ckptFiles fs0).filter (· ≠ a)).filter S).length ≤ c)
    {p : List FOp} (hp : p <+: callOps (some n) [] ages) :
    ∃ fs, fsRun fs0 p = some fs ∧ Q n fs0 S c p fs := by
  have := master hn hc ages [] fs0 [] (Inv_init n fs0 ages S c hs hS) p hp
  simpa using this

/-! ### the shape of the step sequence -/

theorem roundOps_cases (n : Nat) (P : List Nat) (a : Nat) :
    roundOps (some n) P a = (dumpOps a, P ++ [a]) ∨
    ∃ old t, P ++ [a] = old :: t ∧
      roundOps (some n) P a = (dumpOps a ++ [.remove (.ckpt old)], t) := by
  unfold roundOps
  simp only []
  split
  · cases h : P ++ [a] with
    | nil => simp at h
    | cons old t => exact Or.inr ⟨old, t, rfl, rfl⟩
  · exact Or.inl rfl

theorem mem_callOps (n : Nat) : ∀ (ages P : List Nat) (op : FOp),
    op ∈ callOps (some n) P ages →
    (∃ a ∈ ages, op ∈ dumpOps a) ∨ ∃ old, op = .remove (.ckpt old) ∧ old ∈ P ++ ages := by
  intro ages
  induction ages with
  | nil => intro P op h; simp [callOps] at h
  | cons a rest ih =>
    intro P op h
    rw [callOps] at h
    rcases List.mem_append.1 h with h | h
    · rcases roundOps_cases n P a with hr | ⟨old, t, hP, hr⟩
      · rw [hr] at h; exact Or.inl ⟨a, List.mem_cons_self .., h⟩
      · rw [hr] at h
        rcases List.mem_append.1 h with h | h
        · exact Or.inl ⟨a, List.mem_cons_self .., h⟩
        · refine Or.inr ⟨old, by simpa using h, ?_⟩
          have : old ∈ P ++ [a] := by rw [hP]; exact List.mem_cons_self ..
          rcases List.mem_append.1 this with h1 | h1
          · exact List.mem_append_left _ h1
          · exact List.mem_append_right _ (List.mem_cons.2 (Or.inl (by simpa using h1)))
    · rcases ih _ op h with ⟨b, hb, hop⟩ | ⟨old, hop, hold⟩
      · exact Or.inl ⟨b, List.mem_cons_of_mem _ hb, hop⟩
      · refine Or.inr ⟨old, hop, ?_⟩
        have hsub : ∀ x, x ∈ (roundOps (some n) P a).2 → x ∈ P ++ [a] := by
          rcases roundOps_cases n P a with hr | ⟨o, t, hP, hr⟩
          · rw [hr]; exact fun x hx => hx
          · rw [hr, hP]; exact fun x hx => List.mem_cons_of_mem _ hx
        rcases List.mem_append.1 hold with h1 | h1
        · rcases List.mem_append.1 (hsub _ h1) with h2 | h2
          · exact List.mem_append_left _ h2
          · exact List.mem_append_right _ (List.mem_cons.2 (Or.inl (by simpa using h2)))
        · exact List.mem_append_right _ (List.mem_cons_of_mem _ h1)

/-- the age being written at a crash point is one of the call's checkpoint ages -/
theorem writing_mem {n : Nat} {ages : List Nat} {p : List FOp}
    (hp : p <+: callOps (some n) [] ages) {g : Nat} (hg : writing p = some g) : g ∈ ages := by
  unfold writing at hg
  have hmem : g ∈ p.filterMap opensAge := List.mem_of_getLast? hg
  obtain ⟨op, hop, hage⟩ := List.mem_filterMap.1 hmem
  rcases mem_callOps n ages [] op (hp.subset hop) with ⟨a, ha, hd⟩ | ⟨old, rfl, _⟩
  · rw [dumpOps_eq] at hd
    simp only [List.mem_cons, List.not_mem_nil, or_false] at hd
    rcases hd with rfl | rfl | rfl <;> simp [opensAge] at hage
    subst hage; exact ha
  · simp [opensAge] at hage

/-- every removal targets a checkpoint that is in `_previous_checkpoints` or was renamed into
place earlier in the same sequence -/
theorem own_gen (n : Nat) : ∀ (ages P : List Nat) (pre post : List FOp) (f : FName),
    callOps (some n) P ages = pre ++ .remove f :: post →
    ∃ a, f = .ckpt a ∧ (a ∈ P ∨ (a ∈ ages ∧ FOp.rename (.temp a) (.ckpt a) ∈ pre)) := by
  intro ages
  induction ages with
  | nil => intro P pre post f h; simp [callOps] at h
  | cons a rest ih =>
    intro P pre post f h
    rw [callOps] at h
    have hnot : FOp.remove f ∉ dumpOps a := by simp [dumpOps_eq]
    have hren : FOp.rename (.temp a) (.ckpt a) ∈ dumpOps a := rename_mem_dumpOps a
    rcases roundOps_cases n P a with hr | ⟨old, t, hP, hr⟩
    · rw [hr] at h
      simp only [] at h
      -- the removal lies in the later rounds
      have hlater : ∀ as, pre = dumpOps a ++ as →
          callOps (some n) (P ++ [a]) rest = as ++ .remove f :: post →
          ∃ b, f = .ckpt b ∧ (b ∈ P ∨ (b ∈ a :: rest ∧ FOp.rename (.temp b) (.ckpt b) ∈ pre)) := by
        intro as hpre hY
        obtain ⟨b, hf, hb⟩ := ih _ _ _ _ hY
        refine ⟨b, hf, ?_⟩
        rcases hb with hb | ⟨hb, hb'⟩
        · rcases List.mem_append.1 hb with hb | hb
          · exact Or.inl hb
          · have : b = a := by simpa using hb
            subst this
            exact Or.inr ⟨List.mem_cons_self .., hpre ▸ List.mem_append_left _ hren⟩
        · exact Or.inr ⟨List.mem_cons_of_mem _ hb, hpre ▸ List.mem_append_right _ hb'⟩
      rcases List.append_eq_append_iff.1 h with ⟨as, hpre, hY⟩ | ⟨bs, hX, hY⟩
      · exact hlater as hpre hY
      · cases bs with
        | nil =>
          simp only [List.append_nil] at hX
          exact hlater [] (by simp [hX]) (by simpa using hY.symm)
        | cons x bs' =>
          simp only [List.cons_append, List.cons.injEq] at hY
          obtain ⟨rfl, _⟩ := hY
          exact absurd (hX ▸ List.mem_append_right _ (List.mem_cons_self ..)) hnot
    · rw [hr] at h
      simp only [] at h
      have hold : old ∈ P ∨ old = a := by
        have : old ∈ P ++ [a] := by rw [hP]; exact List.mem_cons_self ..
        rcases List.mem_append.1 this with h1 | h1
        · exact Or.inl h1
        · exact Or.inr (by simpa using h1)
      have hlater : ∀ as, pre = (dumpOps a ++ [.remove (.ckpt old)]) ++ as →
          callOps (some n) t rest = as ++ .remove f :: post →
          ∃ b, f = .ckpt b ∧ (b ∈ P ∨ (b ∈ a :: rest ∧ FOp.rename (.temp b) (.ckpt b) ∈ pre)) := by
        intro as hpre hY
        obtain ⟨b, hf, hb⟩ := ih _ _ _ _ hY
        refine ⟨b, hf, ?_⟩
        rcases hb with hb | ⟨hb, hb'⟩
        · have : b ∈ P ++ [a] := by rw [hP]; exact List.mem_cons_of_mem _ hb
          rcases List.mem_append.1 this with hb | hb
          · exact Or.inl hb
          · have : b = a := by simpa using hb
            subst this
            exact Or.inr ⟨List.mem_cons_self ..,
              hpre ▸ List.mem_append_left _ (List.mem_append_left _ hren)⟩
        · exact Or.inr ⟨List.mem_cons_of_mem _ hb, hpre ▸ List.mem_append_right _ hb'⟩
      rcases List.append_eq_append_iff.1 h with ⟨as, hpre, hY⟩ | ⟨bs, hX, hY⟩
      · exact hlater as hpre hY
      · cases bs with
        | nil =>
          simp only [List.append_nil] at hX
          exact hlater [] (by simp [hX]) (by simpa using hY.symm)
        | cons x bs' =>
          simp only [List.cons_append, List.cons.injEq] at hY
          obtain ⟨rfl, _⟩ := hY
          -- the removal is the one of this round
          rcases List.append_eq_append_iff.1 hX with ⟨as, hpre, hrm⟩ | ⟨cs, hd, hrm⟩
          · cases as with
            | nil =>
              simp only [List.nil_append, List.cons.injEq] at hrm
              obtain ⟨hrm, _⟩ := hrm
              injection hrm with hrm
              refine ⟨old, hrm.symm, ?_⟩
              rcases hold with h1 | h1
              · exact Or.inl h1
              · subst h1
                exact Or.inr ⟨List.mem_cons_self .., by simpa [hpre] using hren⟩
            | cons y as' =>
              have := congrArg List.length hrm
              simp at this
          · cases cs with
            | nil =>
              simp only [List.nil_append, List.cons.injEq] at hrm
              obtain ⟨hrm, _⟩ := hrm
              injection hrm with hrm
              refine ⟨old, hrm, ?_⟩
              rcases hold with h1 | h1
              · exact Or.inl h1
              · subst h1
                exact Or.inr ⟨List.mem_cons_self .., by simpa [hd] using hren⟩
            | cons y cs' =>
              simp only [List.cons_append, List.cons.injEq] at hrm
              obtain ⟨rfl, _⟩ := hrm
              exact absurd (hd ▸ List.mem_append_right _ (List.mem_cons_self ..)) hnot

theorem length_le_one_of_nodup_of_forall_eq {l : List Nat} {v : Nat} (hn : l.Nodup)
    (h : ∀ x ∈ l, x = v) : l.length ≤ 1 := by
  match l, hn, h with
  | [], _, _ => simp
  | [_], _, _ => simp
  | x :: y :: t, hn, h =>
    have hx := h x (by simp)
    have hy := h y (by simp)
    have := (List.nodup_cons.1 hn).1
    simp [hx, hy] at this

end Checkpoint
end Bingo
