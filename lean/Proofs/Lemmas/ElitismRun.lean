import Proofs.Lemmas.ElitismSel
import Proofs.Lemmas.Migration
import Proofs.Props.C11
/-!
# Generational steps, runs, and a serial archipelago at key level (core Lean only)

`AFStep` / `CrowdStep` are one `generational_step` of `AgeFitnessEA` / `GeneralizedCrowdingEA`
as far as the keys are concerned:

* `evald` is the population after `self.evaluation(population)`; the only thing assumed about it
  is `evald.map key = pop.map key` -- a deterministic fitness function reproduces the stored key
  of an individual that is re-evaluated (after a migration all fitnesses are recomputed);
* `off` is *any* list (variation, plus the random individual `AgeFitnessEA` appends);
* the selection runs on `evald ++ off` (`Gen.Phases`: `.select .popPlusOff`);
* `next` is the survivor list up to a permutation and up to everything but the keys (the
  `np.random.shuffle` of crowding; `genetic_age += 1` of `Island`).
-/
namespace Bingo
namespace Sel

inductive AFStep (selSize factor : Nat) : List Indv → List Indv → Prop
  | mk {pop evald off next : List Indv} {target : Nat} {draws : List (List Nat)} {r : AFResult}
      (hdet : evald.map (·.key) = pop.map (·.key))
      (hsel : ageFitness selSize factor (evald ++ off) target draws = some r)
      (hok : RunDrawsOK selSize (evald ++ off).length ((evald ++ off).length - target) factor
        (evald ++ off) 0 0 draws)
      (hnext : (next.map (·.key)).Perm ((r.pop.take r.kept).map (·.key))) :
      AFStep selSize factor pop next

inductive CrowdStep : List Indv → List Indv → Prop
  | mk {pop evald off out next : List Indv} {closer : Nat → Bool} {target : Nat}
      (hdet : evald.map (·.key) = pop.map (·.key))
      (hlen : off.length = evald.length)
      (hsel : detCrowding closer (evald ++ off) target = some out)
      (hnext : (next.map (·.key)).Perm (out.map (·.key))) :
      CrowdStep pop next

/-- selection on `pop ++ off`, judged against `pop` alone -/
theorem ageFitness_union_keeps_best {selSize factor : Nat} {pop off : List Indv} {target : Nat}
    {draws : List (List Nat)} {r : AFResult}
    (h : ageFitness selSize factor (pop ++ off) target draws = some r)
    (hok : RunDrawsOK selSize (pop ++ off).length ((pop ++ off).length - target) factor
      (pop ++ off) 0 0 draws) :
    NoWorse ((r.pop.take r.kept).map (·.key)) (pop.map (·.key)) :=
  (ageFitness_keeps_best h hok).mono (fun _ hk => hk) (fun k hk => by
    rw [List.map_append]; exact List.mem_append_left _ hk)

theorem AFStep.noWorse {selSize factor : Nat} {pop next : List Indv}
    (h : AFStep selSize factor pop next) : NoWorse (next.map (·.key)) (pop.map (·.key)) := by
  obtain ⟨hdet, hsel, hok, hnext⟩ := h
  rw [← hdet]
  exact (ageFitness_union_keeps_best hsel hok).perm_left hnext

theorem CrowdStep.noWorse {pop next : List Indv} (h : CrowdStep pop next) :
    NoWorse (next.map (·.key)) (pop.map (·.key)) := by
  obtain ⟨hdet, hlen, hsel, hnext⟩ := h
  rw [← hdet]
  exact (crowding_keeps_best_union hlen hsel).perm_left hnext

end Sel

/-! ## any number of steps -/

/-- `n`-fold iteration of a step relation -/
inductive Iter {α : Type} (R : α → α → Prop) : Nat → α → α → Prop
  | zero (a : α) : Iter R 0 a a
  | succ {n : Nat} {a b c : α} : Iter R n a b → R b c → Iter R (n + 1) a c

theorem Iter.noWorse {α : Type} {R : α → α → Prop} {keys : α → List Key}
    (hR : ∀ a b, R a b → NoWorse (keys b) (keys a)) {n : Nat} {a b : α} (h : Iter R n a b) :
    NoWorse (keys b) (keys a) := by
  induction h with
  | zero a => exact NoWorse.refl _
  | succ _ hstep ih => exact (hR _ _ hstep).trans ih

/-! ## serial archipelago -/
namespace Arch
open Pipeline Migration

/-- keys of a population of `Pipeline.Indiv`s under the deterministic fitness `f` -/
def keysOf (f : Nat → Key) (pop : List Indiv) : List Key := pop.map fun i => f i.genome

/-- all keys of the archipelago -/
def allKeys (f : Nat → Key) (islands : List (List Indiv)) : List Key := keysOf f islands.flatten

theorem allKeys_cons (f : Nat → Key) (p : List Indiv) (ps : List (List Indiv)) :
    allKeys f (p :: ps) = keysOf f p ++ allKeys f ps := by
  simp [allKeys, keysOf]

/-- anything that is a function of `core` (genome, stored fitness, age) is conserved by a
migration, as a multiset over the whole archipelago -/
theorem migrate_map_perm {β : Type} (g : Nat × Option Key × Nat → β) {order : List Nat}
    {shuffles : List (List Nat)} {islands islands' : List (List Indiv)}
    (h : migrate order shuffles islands = some islands') :
    (islands'.flatten.map fun i => g (core i)).Perm (islands.flatten.map fun i => g (core i)) := by
  have := ((C11.serial_migration h).2.1).map g
  simpa [List.map_map, Function.comp_def] using this

theorem migrate_keys_perm (f : Nat → Key) {order : List Nat} {shuffles : List (List Nat)}
    {islands islands' : List (List Indiv)} (h : migrate order shuffles islands = some islands') :
    (allKeys f islands').Perm (allKeys f islands) :=
  migrate_map_perm (fun c => f c.1) h

/-- replacing one island by a population that is no worse -/
theorem allKeys_set_noWorse (f : Nat → Key) {pop pop' : List Indiv}
    (hw : NoWorse (keysOf f pop') (keysOf f pop)) :
    ∀ (islands : List (List Indiv)) (j : Nat), islands[j]? = some pop →
      NoWorse (allKeys f (islands.set j pop')) (allKeys f islands) := by
  intro islands
  induction islands with
  | nil => intro j hj; simp at hj
  | cons p ps ih =>
    intro j hj
    cases j with
    | zero =>
      simp only [List.getElem?_cons_zero, Option.some.injEq] at hj
      subst hj
      rw [List.set_cons_zero, allKeys_cons, allKeys_cons]
      exact NoWorse.append hw (NoWorse.refl _)
    | succ j =>
      simp only [List.getElem?_cons_succ] at hj
      rw [List.set_cons_succ, allKeys_cons, allKeys_cons]
      exact NoWorse.append (NoWorse.refl _) (ih j hj)

/-- one generational step of one island, seen through the keys `f genome`: some key-level
`AFStep` or `CrowdStep` relates the key lists -/
def IslandStep (f : Nat → Key) (selSize factor : Nat) (pop pop' : List Indiv) : Prop :=
  ∃ spop snext : List Sel.Indv,
    spop.map (·.key) = keysOf f pop ∧ snext.map (·.key) = keysOf f pop' ∧
    (Sel.AFStep selSize factor spop snext ∨ Sel.CrowdStep spop snext)

theorem IslandStep.noWorse {f : Nat → Key} {selSize factor : Nat} {pop pop' : List Indiv}
    (h : IslandStep f selSize factor pop pop') : NoWorse (keysOf f pop') (keysOf f pop) := by
  obtain ⟨spop, snext, h1, h2, hs⟩ := h
  rw [← h1, ← h2]
  rcases hs with hs | hs
  · exact hs.noWorse
  · exact hs.noWorse

/-- a transition of the archipelago: a migration phase, or a generational step of island `j` -/
inductive Step (f : Nat → Key) (selSize factor : Nat) :
    List (List Indiv) → List (List Indiv) → Prop
  | migration {order : List Nat} {shuffles : List (List Nat)} {islands islands' : List (List Indiv)}
      (h : migrate order shuffles islands = some islands') : Step f selSize factor islands islands'
  | island {islands : List (List Indiv)} {j : Nat} {pop pop' : List Indiv}
      (hj : islands[j]? = some pop) (hs : IslandStep f selSize factor pop pop') :
      Step f selSize factor islands (islands.set j pop')

theorem Step.noWorse {f : Nat → Key} {selSize factor : Nat} {a b : List (List Indiv)}
    (h : Step f selSize factor a b) : NoWorse (allKeys f b) (allKeys f a) := by
  cases h with
  | migration h => exact NoWorse.of_perm (migrate_keys_perm f h)
  | island hj hs => exact allKeys_set_noWorse f hs.noWorse _ _ hj

end Arch
end Bingo
