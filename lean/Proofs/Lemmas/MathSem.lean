import Model.Tree
import Proofs.Lemmas.RealScalar
/-!
# Hand-written mathematical semantics of the 17 node types (the *specification* side of C01)

This file does not look at `Gen.OpRules` at all: it says what each node number is supposed to
mean, with Mathlib's real functions.  `C01.den_eq_math` proves that the rules regenerated from
`operator_eval.py` denote exactly these functions.
-/
namespace Bingo
namespace MathSem
open Gen.OpDefs

noncomputable def bin (n : Int) (a b : ℝ) : Option ℝ :=
  if n = ADDITION then some (a + b)
  else if n = SUBTRACTION then some (a - b)
  else if n = MULTIPLICATION then some (a * b)
  else if n = DIVISION then some (a / b)
  else if n = POWER then some (a ^ b)
  else if n = SAFE_POWER then some (|a| ^ b)
  else none

noncomputable def un (n : Int) (a : ℝ) : Option ℝ :=
  if n = SIN then some (Real.sin a)
  else if n = COS then some (Real.cos a)
  else if n = EXPONENTIAL then some (Real.exp a)
  else if n = LOGARITHM then some (Real.log |a|)
  else if n = ABS then some |a|
  else if n = SQRT then some (Real.sqrt |a|)
  else if n = SINH then some (Real.sinh a)
  else if n = COSH then some (Real.cosh a)
  else none

def leaf (x c : List ℝ) (n p1 : Int) : Option ℝ :=
  if n = INTEGER then some (p1 : ℝ)
  else if n = VARIABLE then (pyIdx x.length p1).bind (x[·]?)
  else if n = CONSTANT then (pyIdx c.length p1).bind (c[·]?)
  else none

/-- the real number a tree denotes at data row `x` with constants `c`
(`none`: the tree refers to a row / column / constant that does not exist) -/
noncomputable def den (x c : List ℝ) : ETree → Option ℝ
  | .bad => none
  | .leaf n p1 => leaf x c n p1
  | .un n a => (den x c a).bind (un n)
  | .bin n a b => (den x c a).bind fun va => (den x c b).bind fun vb => bin n va vb

/-- the conventional domain of each node: where Mathlib's total function *is* the textbook one -/
def binDefined (n : Int) (a b : ℝ) : Prop :=
  (n = DIVISION → b ≠ 0) ∧
  (n = POWER → (0 < a ∨ (a = 0 ∧ 0 ≤ b) ∨ (a < 0 ∧ ∃ k : ℤ, b = k))) ∧
  (n = SAFE_POWER → (a ≠ 0 ∨ 0 ≤ b))

def unDefined (n : Int) (a : ℝ) : Prop :=
  (n = LOGARITHM → a ≠ 0)

end MathSem

end Bingo
