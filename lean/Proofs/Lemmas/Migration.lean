import Model.Migration
import Proofs.Lemmas.ListAux
/-!
# Lemmas about the serial archipelago migration model (core Lean only, no Mathlib)
-/
namespace Bingo
namespace Migration
open Pipeline

/-- an individual up to the evaluated flag (migration only clears flags) -/
def core (i : Indiv) : Nat × Option Key × Nat := (i.genome, i.fit, i.age)

/-- the number of individuals an island of size `n` sends away -/
abbrev k (n : Nat) : Nat := pyRoundFrac 1 2 n

/-! ## rounding -/

theorem pyRoundFrac_half_even (m : Nat) : pyRoundFrac 1 2 (2 * m) = m := by
  have h1 : 2 * m / 2 = m := by omega
  have h2 : 2 * m % 2 = 0 := by omega
  simp [pyRoundFrac, h1, h2]

theorem pyRoundFrac_half_odd (m : Nat) :
    pyRoundFrac 1 2 (2 * m + 1) = if m % 2 = 0 then m else m + 1 := by
  have h1 : (2 * m + 1) / 2 = m := by omega
  have h2 : (2 * m + 1) % 2 = 1 := by omega
  simp [pyRoundFrac, h1, h2]

theorem pyRoundFrac_half_le (n : Nat) : pyRoundFrac 1 2 n ≤ n := by
  obtain ⟨m, rfl | rfl⟩ : ∃ m, n = 2 * m ∨ n = 2 * m + 1 := ⟨n / 2, by omega⟩
  · rw [pyRoundFrac_half_even]; omega
  · rw [pyRoundFrac_half_odd]; split <;> omega

/-! ## permutations given as index lists -/

theorem perm_of_nodup_subset_length {α : Type} [DecidableEq α] :
    ∀ {l₁ l₂ : List α}, l₁.Nodup → l₁ ⊆ l₂ → l₂.length ≤ l₁.length → l₁.Perm l₂
  | [], l₂, _, _, hl => by
    have : l₂ = [] := List.eq_nil_of_length_eq_zero (by simpa using hl)
    subst this; exact .nil
  | a :: t, l₂, hn, hs, hl => by
    have ha : a ∈ l₂ := hs (List.mem_cons_self)
    have hnt := List.nodup_cons.mp hn
    have hsub : t ⊆ l₂.erase a := fun x hx =>
      (List.mem_erase_of_ne (by rintro rfl; exact hnt.1 hx)).mpr (hs (List.mem_cons_of_mem _ hx))
    have hlen : (l₂.erase a).length ≤ t.length := by
      rw [List.length_erase_of_mem ha]; simp at hl; omega
    exact ((perm_of_nodup_subset_length hnt.2 hsub hlen).cons a).trans (List.perm_cons_erase ha).symm

theorem isPerm_iff {p : List Nat} {n : Nat} : isPerm p n = true ↔ p.Perm (List.range n) := by
  constructor
  · intro h
    simp only [isPerm, Bool.and_eq_true, decide_eq_true_eq, List.all_eq_true, List.mem_range,
      List.contains_iff_mem] at h
    refine (perm_of_nodup_subset_length List.nodup_range ?_ (by simp [h.1])).symm
    intro x hx; exact h.2 x (List.mem_range.mp hx)
  · intro h
    simp only [isPerm, Bool.and_eq_true, decide_eq_true_eq, List.all_eq_true, List.mem_range,
      List.contains_iff_mem]
    exact ⟨by simpa using h.length_eq, fun x hx => h.mem_iff.mpr (List.mem_range.mpr hx)⟩

theorem range_map_getElem? {β : Type} (l : List β) :
    (List.range l.length).map (l[·]?) = l.map some := by
  apply List.ext_getElem <;> simp

theorem applyPerm_eq_some {β : Type} {p : List Nat} {l l' : List β} (h : applyPerm p l = some l') :
    p.Perm (List.range l.length) ∧ p.map (l[·]?) = l'.map some := by
  unfold applyPerm at h
  split at h
  · next hp => exact ⟨isPerm_iff.mp hp, ListAux.mapM_eq_some_iff.mp h⟩
  · cases h

theorem applyPerm_perm {β : Type} {p : List Nat} {l l' : List β} (h : applyPerm p l = some l') :
    l'.Perm l := by
  obtain ⟨hp, hm⟩ := applyPerm_eq_some h
  have h1 : (l'.map some).Perm (l.map some) := by
    rw [← hm, ← range_map_getElem?]; exact hp.map _
  have h2 := h1.filterMap id
  simpa [List.filterMap_map] using h2

theorem applyPerm_length {β : Type} {p : List Nat} {l l' : List β} (h : applyPerm p l = some l') :
    l'.length = l.length := (applyPerm_perm h).length_eq

theorem applyPerm_isSome {β : Type} {p : List Nat} {l : List β} (hp : isPerm p l.length = true) :
    ∃ l', applyPerm p l = some l' := by
  have hperm := isPerm_iff.mp hp
  have hlt : ∀ i ∈ p, i < l.length := fun i hi => List.mem_range.mp (hperm.mem_iff.mp hi)
  refine ⟨p.attach.map fun i => l[i.1]'(hlt i.1 i.2), ?_⟩
  unfold applyPerm
  rw [if_pos hp, ListAux.mapM_eq_some_iff]
  apply List.ext_getElem
  · simp
  · intro i h1 h2
    simp [List.getElem?_eq_getElem (hlt _ (List.getElem_mem _))]

/-! ## `dump_fraction_of_population` and the exchange of one pair -/

theorem frac_zero : frac 0 = (1, 2) := rfl
theorem frac_one : frac 1 = (1, 2) := rfl

theorem dumpFraction_eq_some {num den : Nat} {sh : List Nat} {pop d r : List Indiv}
    (h : dumpFraction num den sh pop = some (d, r)) :
    (d ++ r).Perm pop ∧
      d.length = min (pyRoundFrac num den pop.length) pop.length ∧
      r.length = pop.length - pyRoundFrac num den pop.length := by
  unfold dumpFraction at h
  split at h
  · cases h
  · next l' hs =>
    have hl := applyPerm_length hs
    simp only [Option.some.injEq, Prod.mk.injEq] at h
    obtain ⟨rfl, rfl⟩ := h
    refine ⟨?_, ?_, ?_⟩
    · rw [List.take_append_drop]; exact applyPerm_perm hs
    · simp [hl]
    · simp [hl]

theorem dumpFraction_isSome {num den : Nat} {sh : List Nat} {pop : List Indiv}
    (h : isPerm sh pop.length = true) : ∃ d r, dumpFraction num den sh pop = some (d, r) := by
  obtain ⟨l', hl'⟩ := applyPerm_isSome (l := pop) h
  simp only [dumpFraction, hl']
  exact ⟨_, _, rfl⟩

theorem exchange_eq_some {s1 s2 : List Nat} {p1 p2 q1 q2 : List Indiv}
    (h : exchange s1 s2 p1 p2 = some (q1, q2)) :
    ∃ to2 rest1 to1 rest2, dumpFraction 1 2 s1 p1 = some (to2, rest1) ∧
      dumpFraction 1 2 s2 p2 = some (to1, rest2) ∧
      q1 = resetFitness (rest1 ++ to1) ∧ q2 = resetFitness (rest2 ++ to2) := by
  unfold exchange at h
  simp only [frac_zero, frac_one] at h
  split at h
  · next to2 rest1 to1 rest2 h1 h2 =>
    simp only [Option.some.injEq, Prod.mk.injEq] at h
    exact ⟨to2, rest1, to1, rest2, h1, h2, h.1.symm, h.2.symm⟩
  · cases h

theorem exchange_isSome {s1 s2 : List Nat} {p1 p2 : List Indiv}
    (h1 : isPerm s1 p1.length = true) (h2 : isPerm s2 p2.length = true) :
    ∃ q1 q2, exchange s1 s2 p1 p2 = some (q1, q2) := by
  obtain ⟨d1, r1, e1⟩ := dumpFraction_isSome (num := 1) (den := 2) h1
  obtain ⟨d2, r2, e2⟩ := dumpFraction_isSome (num := 1) (den := 2) h2
  simp only [exchange, frac_zero, frac_one, e1, e2]
  exact ⟨_, _, rfl⟩

theorem map_core_resetFitness (l : List Indiv) : (resetFitness l).map core = l.map core := by
  simp [resetFitness, core, Function.comp_def]

theorem length_resetFitness (l : List Indiv) : (resetFitness l).length = l.length := by
  simp [resetFitness]

theorem flag_of_mem_resetFitness {l : List Indiv} {i : Indiv} (h : i ∈ resetFitness l) :
    i.flag = false := by
  simp only [resetFitness, List.mem_map] at h
  obtain ⟨j, _, rfl⟩ := h
  rfl

theorem exchange_multiset {s1 s2 : List Nat} {p1 p2 q1 q2 : List Indiv}
    (h : exchange s1 s2 p1 p2 = some (q1, q2)) :
    ((q1 ++ q2).map core).Perm ((p1 ++ p2).map core) := by
  obtain ⟨to2, rest1, to1, rest2, h1, h2, rfl, rfl⟩ := exchange_eq_some h
  have e1 := (dumpFraction_eq_some h1).1
  have e2 := (dumpFraction_eq_some h2).1
  rw [List.map_append, map_core_resetFitness, map_core_resetFitness, ← List.map_append]
  apply List.Perm.map
  have : (rest1 ++ to1 ++ (rest2 ++ to2)).Perm ((to2 ++ rest1) ++ (to1 ++ rest2)) := by
    simp only [List.perm_iff_count, List.count_append]; intro a; omega
  exact this.trans (e1.append e2)

theorem exchange_sizes {s1 s2 : List Nat} {p1 p2 q1 q2 : List Indiv}
    (h : exchange s1 s2 p1 p2 = some (q1, q2)) :
    q1.length = p1.length - k p1.length + k p2.length ∧
      q2.length = p2.length - k p2.length + k p1.length := by
  obtain ⟨to2, rest1, to1, rest2, h1, h2, rfl, rfl⟩ := exchange_eq_some h
  obtain ⟨-, a1, b1⟩ := dumpFraction_eq_some h1
  obtain ⟨-, a2, b2⟩ := dumpFraction_eq_some h2
  have := pyRoundFrac_half_le p1.length
  have := pyRoundFrac_half_le p2.length
  simp only [length_resetFitness, List.length_append, k]
  omega

theorem exchange_sizes_eq {s1 s2 : List Nat} {p1 p2 q1 q2 : List Indiv}
    (h : exchange s1 s2 p1 p2 = some (q1, q2)) (he : p1.length = p2.length) :
    q1.length = p1.length ∧ q2.length = p2.length := by
  obtain ⟨a, b⟩ := exchange_sizes h
  have := pyRoundFrac_half_le p1.length
  have := pyRoundFrac_half_le p2.length
  simp only [k] at a b
  rw [← he] at *
  omega

theorem exchange_flags {s1 s2 : List Nat} {p1 p2 q1 q2 : List Indiv}
    (h : exchange s1 s2 p1 p2 = some (q1, q2)) :
    (∀ i ∈ q1, i.flag = false) ∧ (∀ i ∈ q2, i.flag = false) := by
  obtain ⟨to2, rest1, to1, rest2, -, -, rfl, rfl⟩ := exchange_eq_some h
  exact ⟨fun _ => flag_of_mem_resetFitness, fun _ => flag_of_mem_resetFitness⟩

/-! ## the loop over the pairs -/

theorem getElem?_inj_of_nodup {order : List Nat} (hnd : order.Nodup) {i j x : Nat}
    (hi : order[i]? = some x) (hj : order[j]? = some x) : i = j := by
  have hlt : i < order.length := (List.getElem?_eq_some_iff.mp hi).1
  exact (List.getElem?_inj hlt hnd).mp (hi.trans hj.symm)

theorem count_flatten_set {α : Type} [BEq α] (c : α) :
    ∀ (L : List (List α)) (a : Nat) (x : List α) (h : a < L.length),
      List.count c (L.set a x).flatten + List.count c L[a] = List.count c L.flatten + List.count c x
  | [], _, _, h => by simp at h
  | hd :: tl, 0, x, _ => by simp [List.count_append]; omega
  | hd :: tl, a + 1, x, h => by
    have := count_flatten_set c tl a x (by simpa using h)
    simp [List.count_append] at this ⊢; omega

theorem count_core_set (c : Nat × Option Key × Nat) (L : List (List Indiv)) (a : Nat)
    (x : List Indiv) (h : a < L.length) :
    List.count c ((L.set a x).flatten.map core) + List.count c (L[a].map core) =
      List.count c (L.flatten.map core) + List.count c (x.map core) := by
  have := count_flatten_set c (L.map (List.map core)) a (x.map core) (by simpa using h)
  simpa [List.map_flatten, List.map_set] using this

theorem go_succ_eq_some {order : List Nat} {shuffles : List (List Nat)} {j fuel : Nat}
    {isl out : List (List Indiv)} (h : migrate.go order shuffles j (fuel + 1) isl = some out) :
    ∃ a b s1 s2 pa pb pa' pb', order[2 * j]? = some a ∧ order[2 * j + 1]? = some b ∧
      shuffles[2 * j]? = some s1 ∧ shuffles[2 * j + 1]? = some s2 ∧
      isl[a]? = some pa ∧ isl[b]? = some pb ∧ exchange s1 s2 pa pb = some (pa', pb') ∧
      migrate.go order shuffles (j + 1) fuel ((isl.set a pa').set b pb') = some out := by
  simp only [migrate.go] at h
  split at h
  · next a b s1 s2 ha hb hs1 hs2 =>
    split at h
    · next pa pb hpa hpb =>
      split at h
      · cases h
      · next pa' pb' hex =>
        exact ⟨a, b, s1, s2, pa, pb, pa', pb', ha, hb, hs1, hs2, hpa, hpb, hex, h⟩
    · cases h
  · cases h

theorem go_spec {order : List Nat} {shuffles : List (List Nat)} (hnd : order.Nodup) :
    ∀ (fuel j : Nat) (isl out : List (List Indiv)),
      migrate.go order shuffles j fuel isl = some out →
      out.length = isl.length ∧
      (∀ c, List.count c (out.flatten.map core) = List.count c (isl.flatten.map core)) ∧
      (∀ x, (∀ pos, 2 * j ≤ pos → pos < 2 * (j + fuel) → order[pos]? ≠ some x) →
        out[x]? = isl[x]?) ∧
      (∀ pos x, 2 * j ≤ pos → pos < 2 * (j + fuel) → order[pos]? = some x →
        ∀ pop, out[x]? = some pop → ∀ i ∈ pop, i.flag = false) ∧
      (∀ s, (∀ p ∈ isl, p.length = s) → ∀ p ∈ out, p.length = s)
  | 0, j, isl, out, h => by
    simp only [migrate.go, Option.some.injEq] at h
    subst h
    refine ⟨rfl, fun _ => rfl, fun _ _ => rfl, ?_, fun _ hs => hs⟩
    intro pos x h1 h2; omega
  | fuel + 1, j, isl, out, h => by
    obtain ⟨a, b, s1, s2, pa, pb, pa', pb', ha, hb, -, -, hpa, hpb, hex, hgo⟩ := go_succ_eq_some h
    obtain ⟨ihlen, ihcnt, ihsame, ihflag, ihsz⟩ := go_spec hnd fuel (j + 1) _ out hgo
    have hab : a ≠ b := by
      rintro rfl
      have := getElem?_inj_of_nodup hnd ha hb; omega
    have halt : a < isl.length := (List.getElem?_eq_some_iff.mp hpa).1
    have hblt : b < isl.length := (List.getElem?_eq_some_iff.mp hpb).1
    have hpa_eq : isl[a] = pa := (List.getElem?_eq_some_iff.mp hpa).2
    have hpb_eq : isl[b] = pb := (List.getElem?_eq_some_iff.mp hpb).2
    -- later positions never mention `a` or `b`
    have hlater : ∀ pos, 2 * (j + 1) ≤ pos → order[pos]? ≠ some a ∧ order[pos]? ≠ some b := by
      intro pos hp
      refine ⟨fun hc => ?_, fun hc => ?_⟩
      · have := getElem?_inj_of_nodup hnd ha hc; omega
      · have := getElem?_inj_of_nodup hnd hb hc; omega
    have hseta : ((isl.set a pa').set b pb')[a]? = some pa' := by
      rw [List.getElem?_set_ne (Ne.symm hab), List.getElem?_set_self halt]
    have hsetb : ((isl.set a pa').set b pb')[b]? = some pb' := by
      rw [List.getElem?_set_self (by simpa using hblt)]
    have hflags := exchange_flags hex
    refine ⟨by simpa using ihlen, ?_, ?_, ?_, ?_⟩
    · intro c
      rw [ihcnt c]
      have e1 := count_core_set c isl a pa' halt
      have e2 := count_core_set c (isl.set a pa') b pb' (by simpa using hblt)
      have e3 : (isl.set a pa')[b]'(by simpa using hblt) = pb := by
        rw [List.getElem_set_ne hab]; exact hpb_eq
      have e4 := List.perm_iff_count.mp (exchange_multiset hex) c
      rw [e3] at e2; rw [hpa_eq] at e1
      simp only [List.map_append, List.count_append] at e4
      omega
    · intro x hx
      have hxa : x ≠ a := by rintro rfl; exact hx (2 * j) (by omega) (by omega) ha
      have hxb : x ≠ b := by rintro rfl; exact hx (2 * j + 1) (by omega) (by omega) hb
      rw [ihsame x (fun pos h1 h2 => hx pos (by omega) (by omega)),
        List.getElem?_set_ne (Ne.symm hxb), List.getElem?_set_ne (Ne.symm hxa)]
    · intro pos x h1 h2 hx pop hpop i hi
      by_cases hp0 : pos = 2 * j
      · subst hp0
        obtain rfl : a = x := Option.some.inj (ha.symm.trans hx)
        rw [ihsame a (fun pos h1 _ => (hlater pos h1).1), hseta] at hpop
        cases hpop; exact hflags.1 i hi
      · by_cases hp1 : pos = 2 * j + 1
        · subst hp1
          obtain rfl : b = x := Option.some.inj (hb.symm.trans hx)
          rw [ihsame b (fun pos h1 _ => (hlater pos h1).2), hsetb] at hpop
          cases hpop; exact hflags.2 i hi
        · exact ihflag pos x (by omega) (by omega) hx pop hpop i hi
    · intro s hs
      apply ihsz s
      have hpas : pa.length = s := hs pa (hpa_eq ▸ List.getElem_mem _)
      have hpbs : pb.length = s := hs pb (hpb_eq ▸ List.getElem_mem _)
      obtain ⟨z1, z2⟩ := exchange_sizes_eq hex (hpas.trans hpbs.symm)
      intro p hp
      rcases List.mem_or_eq_of_mem_set hp with hp | rfl
      · rcases List.mem_or_eq_of_mem_set hp with hp | rfl
        · exact hs p hp
        · omega
      · omega

theorem go_isSome {order : List Nat} {shuffles : List (List Nat)} (hnd : order.Nodup) :
    ∀ (fuel j : Nat) (isl : List (List Indiv)),
      (∀ pos, 2 * j ≤ pos → pos < 2 * (j + fuel) → ∃ x s pop, order[pos]? = some x ∧
        shuffles[pos]? = some s ∧ isl[x]? = some pop ∧ isPerm s pop.length = true) →
      ∃ out, migrate.go order shuffles j fuel isl = some out
  | 0, j, isl, _ => ⟨isl, by simp only [migrate.go]⟩
  | fuel + 1, j, isl, hyp => by
    obtain ⟨a, s1, pa, ha, hs1, hpa, hp1⟩ := hyp (2 * j) (by omega) (by omega)
    obtain ⟨b, s2, pb, hb, hs2, hpb, hp2⟩ := hyp (2 * j + 1) (by omega) (by omega)
    obtain ⟨pa', pb', hex⟩ := exchange_isSome hp1 hp2
    have ih := go_isSome hnd fuel (j + 1) ((isl.set a pa').set b pb') (by
      intro pos h1 h2
      obtain ⟨x, s, pop, hx, hs, hpop, hp⟩ := hyp pos (by omega) (by omega)
      refine ⟨x, s, pop, hx, hs, ?_, hp⟩
      have hxa : a ≠ x := by
        rintro rfl; have := getElem?_inj_of_nodup hnd ha hx; omega
      have hxb : b ≠ x := by
        rintro rfl; have := getElem?_inj_of_nodup hnd hb hx; omega
      rw [List.getElem?_set_ne hxb, List.getElem?_set_ne hxa]; exact hpop)
    obtain ⟨out, hout⟩ := ih
    exact ⟨out, by simp only [migrate.go, ha, hb, hs1, hs2, hpa, hpb, hex, hout]⟩

/-! ## the whole migration phase -/

theorem migrate_eq_some {order : List Nat} {shuffles : List (List Nat)}
    {islands out : List (List Indiv)} (h : migrate order shuffles islands = some out) :
    isPerm order islands.length = true ∧
      migrate.go order shuffles 0 (islands.length / 2) islands = some out := by
  unfold migrate at h
  split at h
  · cases h
  · next hp => exact ⟨by simpa using hp, h⟩

theorem nodup_of_isPerm {order : List Nat} {n : Nat} (h : isPerm order n = true) : order.Nodup :=
  (isPerm_iff.mp h).nodup_iff.mpr List.nodup_range

/-! ## pairing -/

/-- the pairs `(order[2j], order[2j+1])`, `j < n / 2`, formed by
`_shuffle_island_and_swap_pairs` -/
def pairsOf (order : List Nat) (n : Nat) : List (Nat × Nat) :=
  (List.range (n / 2)).map fun j => (order.getD (2 * j) 0, order.getD (2 * j + 1) 0)

/-- all members of all pairs, in order -/
def pairMembers (order : List Nat) (n : Nat) : List Nat :=
  (pairsOf order n).flatMap fun p => [p.1, p.2]

theorem flatMap_pairs_eq_take (order : List Nat) :
    ∀ m, 2 * m ≤ order.length →
      (List.range m).flatMap (fun j => [order.getD (2 * j) 0, order.getD (2 * j + 1) 0]) =
        order.take (2 * m)
  | 0, _ => by simp
  | m + 1, h => by
    have ih := flatMap_pairs_eq_take order m (by omega)
    have h0 : 2 * m < order.length := by omega
    have h1 : 2 * m + 1 < order.length := by omega
    rw [List.range_succ, List.flatMap_append, ih, show 2 * (m + 1) = 2 * m + 1 + 1 by omega,
      List.take_succ_eq_append_getElem h1, List.take_succ_eq_append_getElem h0]
    simp only [List.flatMap_cons, List.flatMap_nil, List.append_nil, List.append_assoc,
      List.cons_append, List.nil_append, List.getD_eq_getElem?_getD, List.getElem?_eq_getElem h0,
      List.getElem?_eq_getElem h1, Option.getD_some]

theorem pairMembers_eq_take {order : List Nat} {n : Nat} (h : 2 * (n / 2) ≤ order.length) :
    pairMembers order n = order.take (2 * (n / 2)) := by
  rw [← flatMap_pairs_eq_take order (n / 2) h]
  simp [pairMembers, pairsOf, List.flatMap_def, List.map_map, Function.comp_def]

/-! ## concrete islands for the non-vacuity examples -/

/-- an evaluated island of `size` individuals with genomes `base, base+1, …` -/
def demoIsland (base size : Nat) : List Indiv :=
  (List.range size).map fun j => ⟨base + j, some (some (Int.ofNat (base + j))), true, j⟩

end Migration
end Bingo
