import Model.Converge
/-!
# C14 helper lemmas, part 1: the exit criteria and the exit chain

Everything here is discharged against the generated tables in `Gen.Converge`
(`predicates`, `exitChain`, `successStatuses`, `finalStatus`): an edit of the Python source that
changes the comparison operator, the guard, the order or the status of a criterion changes
those tables and makes the `rfl`/`decide` proofs below fail.
-/
namespace Bingo
namespace Converge

/-- `_convergence(threshold)`: `self._best_fitness <= threshold` -/
def critConv (cfg : Cfg) (st : St) : Bool := Key.le (st.best.getD none) cfg.thr
/-- `_stagnation(threshold)` -/
def critStag (cfg : Cfg) (st : St) : Bool :=
  match cfg.stag with
  | none => false
  | some t => decide ((st.age : Int) - st.improv ≥ t)
/-- `_hit_max_evals(threshold)` -/
def critEvals (cfg : Cfg) (o : Obs) : Bool :=
  match cfg.maxEvals with
  | none => false
  | some t => decide ((o.evals : Int) ≥ t)
/-- `_hit_time_limit(threshold, start_time)` -/
def critTime (cfg : Cfg) (o : Obs) : Bool :=
  match cfg.maxTime with
  | none => false
  | some t => decide (o.elapsed ≥ t)
/-- `_not_enough_time_for_another_checkpoint(estimate)` -/
def critEst (o : Obs) : Bool :=
  match o.est with
  | none => false
  | some e => decide (e < 2500)

theorem holds_convergence (cfg : Cfg) (st : St) (o : Obs) :
    holds cfg st o "_convergence" = some (critConv cfg st) := rfl

theorem holds_stagnation (cfg : Cfg) (st : St) (o : Obs) :
    holds cfg st o "_stagnation" = some (critStag cfg st) := by
  unfold critStag; cases h : cfg.stag <;> simp [holds, Gen.Converge.predicates, List.lookup, cmpInt, h]

theorem holds_hit_max_evals (cfg : Cfg) (st : St) (o : Obs) :
    holds cfg st o "_hit_max_evals" = some (critEvals cfg o) := by
  unfold critEvals; cases h : cfg.maxEvals <;> simp [holds, Gen.Converge.predicates, List.lookup, cmpInt, h]

theorem holds_hit_time_limit (cfg : Cfg) (st : St) (o : Obs) :
    holds cfg st o "_hit_time_limit" = some (critTime cfg o) := by
  unfold critTime; cases h : cfg.maxTime <;> simp [holds, Gen.Converge.predicates, List.lookup, cmpInt, h]

theorem holds_not_enough_time (cfg : Cfg) (st : St) (o : Obs) :
    holds cfg st o "_not_enough_time_for_another_checkpoint" = some (critEst o) := by
  unfold critEst; cases h : o.est <;> simp [holds, Gen.Converge.predicates, List.lookup, cmpInt, h]

/-- the exit chain as a closed first-match expression -/
def exitSpec (cfg : Cfg) (st : St) (o : Obs) : Option Nat :=
  if critConv cfg st then some 0
  else if critStag cfg st then some 1
  else if critEvals cfg o then some 3
  else if critTime cfg o then some 4
  else if critEst o then some 5
  else none

theorem checkExit_eq (cfg : Cfg) (st : St) (o : Obs) :
    checkExit cfg st o Gen.Converge.exitChain = some (exitSpec cfg st o) := by
  simp only [Gen.Converge.exitChain, checkExit, holds_convergence, holds_stagnation,
    holds_hit_max_evals, holds_hit_time_limit, holds_not_enough_time, exitSpec]
  cases critConv cfg st <;> cases critStag cfg st <;> cases critEvals cfg o <;>
    cases critTime cfg o <;> cases critEst o <;> rfl

/-- `_check_exit_criteria` never meets a criterion the model does not know -/
theorem checkExit_ne_none (cfg : Cfg) (st : St) (o : Obs) :
    checkExit cfg st o Gen.Converge.exitChain ≠ none := by
  rw [checkExit_eq]; exact Option.some_ne_none _

/-- no criterion of the chain holds ↔ the check lets evolution continue -/
theorem checkExit_continue_iff (cfg : Cfg) (st : St) (o : Obs) :
    checkExit cfg st o Gen.Converge.exitChain = some none ↔
      critConv cfg st = false ∧ critStag cfg st = false ∧ critEvals cfg o = false ∧
        critTime cfg o = false ∧ critEst o = false := by
  rw [checkExit_eq]; unfold exitSpec
  cases critConv cfg st <;> cases critStag cfg st <;> cases critEvals cfg o <;>
    cases critTime cfg o <;> cases critEst o <;> simp

/-- the same in terms of `holds` on every criterion of the generated chain -/
theorem checkExit_continue_iff_holds (cfg : Cfg) (st : St) (o : Obs) :
    checkExit cfg st o Gen.Converge.exitChain = some none ↔
      ∀ p ∈ Gen.Converge.exitChain, holds cfg st o p.1 = some false := by
  rw [checkExit_continue_iff]
  simp [Gen.Converge.exitChain, holds_convergence, holds_stagnation,
    holds_hit_max_evals, holds_hit_time_limit, holds_not_enough_time]

/-- the status returned by a check names a criterion that holds at that check, and the
convergence criterion has priority -/
theorem checkExit_status {cfg : Cfg} {st : St} {o : Obs} {s : Nat}
    (h : checkExit cfg st o Gen.Converge.exitChain = some (some s)) :
    (s = 0 ∨ s = 1 ∨ s = 3 ∨ s = 4 ∨ s = 5) ∧
    (s = 0 ↔ critConv cfg st = true) ∧
    (s = 1 → critStag cfg st = true) ∧
    (s = 3 → critEvals cfg o = true) ∧
    (s = 4 → critTime cfg o = true) ∧
    (s = 5 → critEst o = true) := by
  rw [checkExit_eq] at h; unfold exitSpec at h
  cases h1 : critConv cfg st <;> cases h2 : critStag cfg st <;> cases h3 : critEvals cfg o <;>
    cases h4 : critTime cfg o <;> cases h5 : critEst o <;> simp [h1, h2, h3, h4, h5] at h <;>
    subst h <;> simp

theorem critStag_true {cfg : Cfg} {st : St} (h : critStag cfg st = true) :
    ∃ t, cfg.stag = some t ∧ (st.age : Int) - st.improv ≥ t := by
  unfold critStag at h; cases hs : cfg.stag <;> simp [hs] at h
  exact ⟨_, rfl, by simpa using h⟩

theorem critEvals_true {cfg : Cfg} {o : Obs} (h : critEvals cfg o = true) :
    ∃ t, cfg.maxEvals = some t ∧ (o.evals : Int) ≥ t := by
  unfold critEvals at h; cases hs : cfg.maxEvals <;> simp [hs] at h
  exact ⟨_, rfl, by simpa using h⟩

theorem critTime_true {cfg : Cfg} {o : Obs} (h : critTime cfg o = true) :
    ∃ t, cfg.maxTime = some t ∧ o.elapsed ≥ t := by
  unfold critTime at h; cases hs : cfg.maxTime <;> simp [hs] at h
  exact ⟨_, rfl, by simpa using h⟩

theorem critEst_true {o : Obs} (h : critEst o = true) :
    ∃ e, o.est = some e ∧ e < 2500 := by
  unfold critEst at h; cases hs : o.est <;> simp [hs] at h
  exact ⟨_, rfl, by simpa using h⟩

theorem success_eq (status : Nat) :
    Gen.Converge.successStatuses.contains (status : Int) = decide (status = 0) := by
  cases status <;> simp [Gen.Converge.successStatuses]
  omega

end Converge
end Bingo
