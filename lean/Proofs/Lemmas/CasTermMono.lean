import Proofs.Lemmas.CasFuelMono
/-!
# More fuel never changes a result that is not the fuel error

`NF a b`: if `a` is not `error "fuel"` then `b = a`.  Stronger than `FuelMono.Le` (which only speaks about
successful runs): a run that raises any other exception raises the same exception with more fuel.
-/
namespace Bingo
namespace Cas
namespace Term
open Gen.OpDefs Expr Auto

/-- `b` is the same result as `a` unless `a` ran out of fuel -/
def NF {α : Type} (a b : R α) : Prop := a ≠ .error "fuel" → b = a

theorem NF.rfl {α : Type} {a : R α} : NF a a := fun _ => Eq.refl a
theorem NF.throw {α : Type} {b : R α} : NF (throw "fuel") b := fun h => (h (Eq.refl _)).elim
theorem NF.bind {α β : Type} {a a' : R α} {k k' : α → R β} (h1 : NF a a')
    (h2 : ∀ x, NF (k x) (k' x)) : NF (a >>= k) (a' >>= k') := by
  intro h
  cases a with
  | error s =>
    have hs : (Except.error s : R α) ≠ .error "fuel" := fun hc => h (by rw [hc]; rfl)
    rw [h1 hs]; rfl
  | ok x =>
    rw [h1 (by intro hc; cases hc)]
    exact h2 x h
theorem NF.mapM {α β : Type} {g g' : α → R β} (h : ∀ x, NF (g x) (g' x)) :
    ∀ (l : List α), NF (l.mapM g) (l.mapM g')
  | [] => by rw [List.mapM_nil, List.mapM_nil]; exact NF.rfl
  | a :: l => by
    rw [List.mapM_cons, List.mapM_cons]
    exact NF.bind (h a) (fun x => NF.bind (NF.mapM h l) (fun _ => NF.rfl))

theorem NF.apply {α : Type} {a b : R α} (h : NF a b) (ha : a ≠ .error "fuel") : b ≠ .error "fuel" := by
  rw [h ha]; exact ha

theorem NF.eq {α : Type} {a b : R α} (h : NF a b) (ha : a ≠ .error "fuel") : b = a := h ha

attribute [irreducible] NF

/-- a family indexed by the fuel that is stable from one fuel to the next is stable for all larger fuels -/
theorem nf_le {α : Type} (F : Nat → R α) (h : ∀ f, NF (F f) (F (f+1))) {f f' : Nat} (hle : f ≤ f')
    (hf : F f ≠ .error "fuel") : F f' = F f := by
  induction hle with
  | refl => rfl
  | step _ ih => rw [← ih]; exact (h _).eq (by rw [ih]; exact hf)

structure SMonoAt (st : Bool) (f : Nat) : Prop where
  lt : ∀ a b, NF (ltF f a b) (ltF (f+1) a b)
  glt : ∀ a b, NF (generalLtF f a b) (generalLtF (f+1) a b)
  alt : ∀ o a b, NF (assocLtF f o a b) (assocLtF (f+1) o a b)
  olt : ∀ l₁ l₂, NF (operandsLtF f l₁ l₂) (operandsLtF (f+1) l₁ l₂)
  pow : ∀ b e, NF (simplifyPower st f b e) (simplifyPower st (f+1) b e)
  cpow : ∀ b e, NF (simplifyConstantPower st f b e) (simplifyConstantPower st (f+1) b e)
  prod : ∀ l, NF (simplifyProduct st f l) (simplifyProduct st (f+1) l)
  prodRec : ∀ l, NF (simplifyProductRec st f l) (simplifyProductRec st (f+1) l)
  mergeP : ∀ l₁ l₂, NF (mergeProducts st f l₁ l₂) (mergeProducts st (f+1) l₁ l₂)
  sum : ∀ l, NF (simplifySum st f l) (simplifySum st (f+1) l)
  sumRec : ∀ l, NF (simplifySumRec st f l) (simplifySumRec st (f+1) l)
  mergeS : ∀ l₁ l₂, NF (mergeSums st f l₁ l₂) (mergeSums st (f+1) l₁ l₂)

/-- decompose a goal `Le body body'` whose two sides differ only in the fuel of the recursive calls -/
macro "smono_tac " ih:ident : tactic => `(tactic|
  repeat' (first
    | exact NF.rfl
    | exact NF.throw
    | exact ($ih).lt _ _
    | exact ($ih).glt _ _
    | exact ($ih).alt _ _ _
    | exact ($ih).olt _ _
    | exact ($ih).pow _ _
    | exact ($ih).cpow _ _
    | exact ($ih).prod _
    | exact ($ih).prodRec _
    | exact ($ih).mergeP _ _
    | exact ($ih).sum _
    | exact ($ih).sumRec _
    | exact ($ih).mergeS _ _
    | apply NF.bind
    | apply NF.mapM
    | split
    | intro _))

theorem smonoAt_zero (st : Bool) : SMonoAt st 0 where
  lt := by intro a b; rw [ltF.eq_1]; exact NF.throw
  glt := by intro a b; rw [generalLtF.eq_1]; exact NF.throw
  alt := by intro o a b; rw [assocLtF.eq_1]; exact NF.throw
  olt := by intro a b; rw [operandsLtF.eq_1]; exact NF.throw
  pow := by intro a b; rw [simplifyPower.eq_1]; exact NF.throw
  cpow := by intro a b; rw [simplifyConstantPower.eq_1]; exact NF.throw
  prod := by intro l; rw [simplifyProduct.eq_1]; exact NF.throw
  prodRec := by intro l; rw [simplifyProductRec.eq_1]; exact NF.throw
  mergeP := by intro a b; rw [mergeProducts.eq_1]; exact NF.throw
  sum := by intro l; rw [simplifySum.eq_1]; exact NF.throw
  sumRec := by intro l; rw [simplifySumRec.eq_1]; exact NF.throw
  mergeS := by intro a b; rw [mergeSums.eq_1]; exact NF.throw

section step
variable {st : Bool} {f : Nat}

theorem lt_step (ih : SMonoAt st f) (a b : Expr) : NF (ltF (f+1) a b) (ltF (f+2) a b) := by
  rw [ltF.eq_2, ltF.eq_2]
  dsimp only
  smono_tac ih

theorem glt_step (ih : SMonoAt st f) (a b : Expr) :
    NF (generalLtF (f+1) a b) (generalLtF (f+2) a b) := by
  cases a <;> cases b <;> simp only [generalLtF] <;> smono_tac ih

theorem alt_step (ih : SMonoAt st f) (o : Int) (a b : Expr) :
    NF (assocLtF (f+1) o a b) (assocLtF (f+2) o a b) := by
  rw [assocLtF.eq_2, assocLtF.eq_2]
  smono_tac ih

theorem olt_step (ih : SMonoAt st f) (l₁ l₂ : List Expr) :
    NF (operandsLtF (f+1) l₁ l₂) (operandsLtF (f+2) l₁ l₂) := by
  cases l₂ with
  | nil => rw [operandsLtF.eq_4, operandsLtF.eq_4]; exact NF.rfl
  | cons b bs =>
    cases l₁ with
    | nil => rw [operandsLtF.eq_3, operandsLtF.eq_3]; exact NF.rfl
    | cons a as => rw [operandsLtF.eq_2, operandsLtF.eq_2]; smono_tac ih

theorem pow_step (ih : SMonoAt st f) (b e : Expr) :
    NF (simplifyPower st (f+1) b e) (simplifyPower st (f+2) b e) := by
  rw [simplifyPower.eq_2, simplifyPower.eq_2]
  smono_tac ih

theorem cpow_step (ih : SMonoAt st f) (b e : Expr) :
    NF (simplifyConstantPower st (f+1) b e) (simplifyConstantPower st (f+2) b e) := by
  rw [simplifyConstantPower.eq_2, simplifyConstantPower.eq_2]
  smono_tac ih

theorem prod_step (ih : SMonoAt st f) (l : List Expr) :
    NF (simplifyProduct st (f+1) l) (simplifyProduct st (f+2) l) := by
  by_cases hs : ∃ a, l = [a]
  · obtain ⟨a, rfl⟩ := hs
    rw [simplifyProduct.eq_2, simplifyProduct.eq_2]; exact NF.rfl
  · rw [simplifyProduct.eq_3 _ _ _ (fun a ha => hs ⟨a, ha⟩),
      simplifyProduct.eq_3 _ _ _ (fun a ha => hs ⟨a, ha⟩)]
    smono_tac ih

theorem sum_step (ih : SMonoAt st f) (l : List Expr) :
    NF (simplifySum st (f+1) l) (simplifySum st (f+2) l) := by
  by_cases hs : ∃ a, l = [a]
  · obtain ⟨a, rfl⟩ := hs
    rw [simplifySum.eq_2, simplifySum.eq_2]; exact NF.rfl
  · rw [simplifySum.eq_3 _ _ _ (fun a ha => hs ⟨a, ha⟩),
      simplifySum.eq_3 _ _ _ (fun a ha => hs ⟨a, ha⟩)]
    smono_tac ih

theorem prodRec_step (ih : SMonoAt st f) (l : List Expr) :
    NF (simplifyProductRec st (f+1) l) (simplifyProductRec st (f+2) l) := by
  by_cases hp : ∃ a b, l = [a, b]
  · obtain ⟨a, b, rfl⟩ := hp
    rw [simplifyProductRec.eq_3, simplifyProductRec.eq_3]
    smono_tac ih
  · cases l with
    | nil => rw [simplifyProductRec.eq_2]; exact NF.throw
    | cons op rest =>
      have hne : ∀ op2, rest = [op2] → False := fun op2 h => hp ⟨op, op2, by rw [h]⟩
      rw [simplifyProductRec.eq_4 _ _ _ _ hne, simplifyProductRec.eq_4 _ _ _ _ hne]
      smono_tac ih

theorem sumRec_step (ih : SMonoAt st f) (l : List Expr) :
    NF (simplifySumRec st (f+1) l) (simplifySumRec st (f+2) l) := by
  by_cases hp : ∃ a b, l = [a, b]
  · obtain ⟨a, b, rfl⟩ := hp
    rw [simplifySumRec.eq_3, simplifySumRec.eq_3]
    smono_tac ih
  · cases l with
    | nil => rw [simplifySumRec.eq_2]; exact NF.throw
    | cons op rest =>
      have hne : ∀ op2, rest = [op2] → False := fun op2 h => hp ⟨op, op2, by rw [h]⟩
      rw [simplifySumRec.eq_4 _ _ _ _ hne, simplifySumRec.eq_4 _ _ _ _ hne]
      smono_tac ih

theorem mergeP_step (ih : SMonoAt st f) (l₁ l₂ : List Expr) :
    NF (mergeProducts st (f+1) l₁ l₂) (mergeProducts st (f+2) l₁ l₂) := by
  cases l₁ with
  | nil => rw [mergeProducts.eq_2, mergeProducts.eq_2]; exact NF.rfl
  | cons a as =>
    cases l₂ with
    | nil =>
      rw [mergeProducts.eq_3 _ _ _ (by intro h; cases h),
        mergeProducts.eq_3 _ _ _ (by intro h; cases h)]
      exact NF.rfl
    | cons b bs =>
      rw [mergeProducts.eq_4, mergeProducts.eq_4]
      smono_tac ih

theorem mergeS_step (ih : SMonoAt st f) (l₁ l₂ : List Expr) :
    NF (mergeSums st (f+1) l₁ l₂) (mergeSums st (f+2) l₁ l₂) := by
  cases l₁ with
  | nil => rw [mergeSums.eq_2, mergeSums.eq_2]; exact NF.rfl
  | cons a as =>
    cases l₂ with
    | nil =>
      rw [mergeSums.eq_3 _ _ _ (by intro h; cases h),
        mergeSums.eq_3 _ _ _ (by intro h; cases h)]
      exact NF.rfl
    | cons b bs =>
      rw [mergeSums.eq_4, mergeSums.eq_4]
      smono_tac ih

end step

theorem smonoAt (st : Bool) : ∀ f, SMonoAt st f
  | 0 => smonoAt_zero st
  | f+1 =>
    have ih := smonoAt st f
    { lt := lt_step ih, glt := glt_step ih, alt := alt_step ih, olt := olt_step ih
      pow := pow_step ih, cpow := cpow_step ih, prod := prod_step ih, prodRec := prodRec_step ih
      mergeP := mergeP_step ih, sum := sum_step ih, sumRec := sumRec_step ih
      mergeS := mergeS_step ih }

/-! ## the non-recursive wrappers and `automaticSimplify` -/

theorem dispatch_smono (st : Bool) (f : Nat) (o : Int) (args : List Expr) :
    NF (dispatch st f o args) (dispatch st (f+1) o args) := by
  have ih := smonoAt st f
  unfold dispatch simplifyQuotient simplifyDifference simplifySafePower
  dsimp only
  smono_tac ih

theorem automaticSimplify_smono_aux (st : Bool) (f : Nat) (e : Expr) :
    NF (automaticSimplify st f e) (automaticSimplify st (f+1) e) := by
  induction e using Expr.rec (motive_2 := fun l =>
      NF (automaticSimplifyList st f l) (automaticSimplifyList st (f+1) l)) with
  | term o v np => rw [automaticSimplify.eq_1, automaticSimplify.eq_1]; exact NF.rfl
  | node o args ih =>
    rw [automaticSimplify.eq_2, automaticSimplify.eq_2]
    exact NF.bind ih (fun _ => dispatch_smono st f o _)
  | nil => exact NF.rfl
  | cons a as iha ihas =>
    rw [automaticSimplifyList.eq_2, automaticSimplifyList.eq_2]
    exact NF.bind iha (fun _ => NF.bind ihas (fun _ => NF.rfl))

/-- the results of the eight functions and of the ordering do not depend on the fuel once it suffices -/
theorem pow_le {st : Bool} {f f' : Nat} (hle : f ≤ f') {b e : Expr}
    (h : simplifyPower st f b e ≠ .error "fuel") : simplifyPower st f' b e = simplifyPower st f b e :=
  nf_le (fun f => simplifyPower st f b e) (fun f => (smonoAt st f).pow b e) hle h
theorem cpow_le {st : Bool} {f f' : Nat} (hle : f ≤ f') {b e : Expr}
    (h : simplifyConstantPower st f b e ≠ .error "fuel") :
    simplifyConstantPower st f' b e = simplifyConstantPower st f b e :=
  nf_le (fun f => simplifyConstantPower st f b e) (fun f => (smonoAt st f).cpow b e) hle h
theorem prod_le {st : Bool} {f f' : Nat} (hle : f ≤ f') {l : List Expr}
    (h : simplifyProduct st f l ≠ .error "fuel") : simplifyProduct st f' l = simplifyProduct st f l :=
  nf_le (fun f => simplifyProduct st f l) (fun f => (smonoAt st f).prod l) hle h
theorem prodRec_le {st : Bool} {f f' : Nat} (hle : f ≤ f') {l : List Expr}
    (h : simplifyProductRec st f l ≠ .error "fuel") :
    simplifyProductRec st f' l = simplifyProductRec st f l :=
  nf_le (fun f => simplifyProductRec st f l) (fun f => (smonoAt st f).prodRec l) hle h
theorem mergeP_le {st : Bool} {f f' : Nat} (hle : f ≤ f') {l₁ l₂ : List Expr}
    (h : mergeProducts st f l₁ l₂ ≠ .error "fuel") :
    mergeProducts st f' l₁ l₂ = mergeProducts st f l₁ l₂ :=
  nf_le (fun f => mergeProducts st f l₁ l₂) (fun f => (smonoAt st f).mergeP l₁ l₂) hle h
theorem sum_le {st : Bool} {f f' : Nat} (hle : f ≤ f') {l : List Expr}
    (h : simplifySum st f l ≠ .error "fuel") : simplifySum st f' l = simplifySum st f l :=
  nf_le (fun f => simplifySum st f l) (fun f => (smonoAt st f).sum l) hle h
theorem sumRec_le {st : Bool} {f f' : Nat} (hle : f ≤ f') {l : List Expr}
    (h : simplifySumRec st f l ≠ .error "fuel") : simplifySumRec st f' l = simplifySumRec st f l :=
  nf_le (fun f => simplifySumRec st f l) (fun f => (smonoAt st f).sumRec l) hle h
theorem mergeS_le {st : Bool} {f f' : Nat} (hle : f ≤ f') {l₁ l₂ : List Expr}
    (h : mergeSums st f l₁ l₂ ≠ .error "fuel") : mergeSums st f' l₁ l₂ = mergeSums st f l₁ l₂ :=
  nf_le (fun f => mergeSums st f l₁ l₂) (fun f => (smonoAt st f).mergeS l₁ l₂) hle h
theorem lt_le {f f' : Nat} (hle : f ≤ f') {a b : Expr}
    (h : ltF f a b ≠ .error "fuel") : ltF f' a b = ltF f a b :=
  nf_le (fun f => ltF f a b) (fun f => (smonoAt true f).lt a b) hle h
theorem dispatch_le {st : Bool} {f f' : Nat} (hle : f ≤ f') {o : Int} {args : List Expr}
    (h : dispatch st f o args ≠ .error "fuel") : dispatch st f' o args = dispatch st f o args :=
  nf_le (fun f => dispatch st f o args) (fun f => dispatch_smono st f o args) hle h
theorem automaticSimplify_le {st : Bool} {f f' : Nat} (hle : f ≤ f') {e : Expr}
    (h : automaticSimplify st f e ≠ .error "fuel") :
    automaticSimplify st f' e = automaticSimplify st f e :=
  nf_le (fun f => automaticSimplify st f e) (fun f => automaticSimplify_smono_aux st f e) hle h

theorem automaticSimplify_nf_succ {st : Bool} {f : Nat} {e : Expr}
    (h : automaticSimplify st f e ≠ .error "fuel") : automaticSimplify st (f+1) e ≠ .error "fuel" :=
  (automaticSimplify_smono_aux st f e).apply h

theorem automaticSimplify_nf_mono {st : Bool} {f f' : Nat} {e : Expr} (hle : f ≤ f')
    (h : automaticSimplify st f e ≠ .error "fuel") : automaticSimplify st f' e ≠ .error "fuel" := by
  induction hle with
  | refl => exact h
  | step _ ih => exact automaticSimplify_nf_succ ih

end Term
end Cas
end Bingo
