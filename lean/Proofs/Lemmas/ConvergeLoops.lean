import Proofs.Lemmas.ConvergeRun
/-!
# C14 helper lemmas, part 3: `minLoop`, `mainLoop`, `run`
-/
namespace Bingo
namespace Converge

variable {cfg : Cfg} {obs : Nat → Obs} {age improv : Nat} {best : Option Key}

/-- trace predicate of the main loop: every round with index `j ≥ m` was started after a check
(the one reading observation `j`) at which no criterion of the exit chain held and fewer than
`maxGen` generations had been evolved, and it evolved what `get_gens_to_evolve()` said -/
def MainGood (cfg : Cfg) (obs : Nat → Obs) (age improv : Nat) (best : Option Key) (m : Nat)
    (R : List Nat) : Prop :=
  ∀ j, m ≤ j → j < R.length →
    checkExit cfg (stateAfter obs age improv best (R.take j)) (obs j) Gen.Converge.exitChain
      = some none ∧
    (R.take j).sum < cfg.maxGen ∧ R[j]? = some (gensFor cfg obs j)

theorem MainGood_snoc {m : Nat} {R : List Nat} (h : MainGood cfg obs age improv best m R)
    (hc : checkExit cfg (stateAfter obs age improv best R) (obs R.length) Gen.Converge.exitChain
      = some none)
    (hlt : R.sum < cfg.maxGen) :
    MainGood cfg obs age improv best m (R ++ [gensFor cfg obs R.length]) := by
  intro j hm hj
  simp only [List.length_append, List.length_singleton] at hj
  by_cases hjl : j = R.length
  · subst hjl
    rw [List.take_left' rfl, List.getElem?_concat_length]
    exact ⟨hc, hlt, rfl⟩
  · have hj' : j < R.length := by omega
    rw [List.take_append_of_le_length (Nat.le_of_lt hj'), List.getElem?_append_left hj']
    exact h j hm hj'

theorem gensFor_pos (hf : 0 < cfg.freq) (hobs : ∀ k, 1 ≤ (obs k).gens) (j : Nat) :
    1 ≤ gensFor cfg obs j := by
  unfold gensFor; split
  · exact hf
  · exact hobs j

/-- what a finished call looks like: the rounds `R`, the state is the fold over `R`, and the
status either comes from the last check or is the final status after a last check that let
evolution continue -/
def Final (cfg : Cfg) (obs : Nat → Obs) (age improv : Nat) (best : Option Key)
    (status : Nat) (R : List Nat) : Prop :=
  (status = Gen.Converge.finalStatus ∧
    checkExit cfg (stateAfter obs age improv best R) (obs R.length) Gen.Converge.exitChain
      = some none ∧ cfg.maxGen ≤ R.sum) ∨
  checkExit cfg (stateAfter obs age improv best R) (obs R.length) Gen.Converge.exitChain
    = some (some status)

theorem mainLoop_spec (hf : 0 < cfg.freq) (hobs : ∀ k, 1 ≤ (obs k).gens) (m : Nat) :
    ∀ (fuel : Nat) (R : List Nat), cfg.maxGen + 1 ≤ fuel + R.sum → 1 ≤ fuel →
      MainGood cfg obs age improv best m R →
      checkExit cfg (stateAfter obs age improv best R) (obs R.length) Gen.Converge.exitChain
        = some none →
      ∃ status R',
        mainLoop cfg obs fuel (stateAfter obs age improv best R) (R.length + 1) R
          = mkResult (stateAfter obs age improv best R') status R' ∧
        R <+: R' ∧ MainGood cfg obs age improv best m R' ∧
        Final cfg obs age improv best status R' := by
  intro fuel
  induction fuel with
  | zero => intro R _ h; omega
  | succ fuel ih =>
    intro R hfuel _ hgood hc
    rw [mainLoop]
    simp only [stateAfter_evolved, Nat.add_sub_cancel]
    by_cases hlt : R.sum < cfg.maxGen
    · rw [if_pos hlt]
      have hg : (if cfg.maxTime.isNone = true then cfg.freq else (obs R.length).gens)
          = gensFor cfg obs R.length := rfl
      rw [hg, ← stateAfter_snoc]
      have hpos := gensFor_pos hf hobs (cfg := cfg) R.length
      have hc' := checkExit_eq cfg (stateAfter obs age improv best (R ++ [gensFor cfg obs R.length]))
        (obs (R.length + 1))
      have hgood' := MainGood_snoc hgood hc hlt
      cases hx : exitSpec cfg (stateAfter obs age improv best (R ++ [gensFor cfg obs R.length]))
        (obs (R.length + 1)) with
      | some s =>
        rw [hx] at hc'; rw [hc']
        refine ⟨s, _, rfl, List.prefix_append _ _, hgood', Or.inr ?_⟩
        simpa using hc'
      | none =>
        rw [hx] at hc'; rw [hc']
        have := ih (R ++ [gensFor cfg obs R.length])
          (by rw [List.sum_append_nat]; simp; omega) (by omega) hgood' (by simpa using hc')
        obtain ⟨status, R', h1, h2, h3, h4⟩ := this
        refine ⟨status, R', ?_, (List.prefix_append _ _).trans h2, h3, h4⟩
        simpa using h1
    · rw [if_neg hlt]
      exact ⟨_, R, rfl, List.prefix_refl _, hgood, Or.inl ⟨rfl, hc, by omega⟩⟩

theorem minLoop_spec (hf : 0 < cfg.freq) :
    ∀ (fuel n : Nat), cfg.minGen + 1 ≤ fuel + n * cfg.freq → 1 ≤ fuel →
      (∀ j, j < n → j * cfg.freq < cfg.minGen) →
      ∃ m, minLoop cfg obs fuel (stateAfter obs age improv best (List.replicate n cfg.freq))
          (n + 1) (List.replicate n cfg.freq)
          = some (stateAfter obs age improv best (List.replicate m cfg.freq), m + 1,
              List.replicate m cfg.freq) ∧
        (∀ j, j < m → j * cfg.freq < cfg.minGen) ∧ cfg.minGen ≤ m * cfg.freq := by
  intro fuel
  induction fuel with
  | zero => intro n _ h; omega
  | succ fuel ih =>
    intro n hfuel _ hlow
    rw [minLoop]
    simp only [stateAfter_evolved, List.sum_replicate_nat]
    by_cases hlt : n * cfg.freq < cfg.minGen
    · rw [if_pos hlt]
      have hsn := stateAfter_snoc (obs := obs) (age := age) (improv := improv) (best := best)
        (List.replicate n cfg.freq) cfg.freq
      rw [List.length_replicate, ← List.replicate_succ'] at hsn
      rw [← hsn, ← List.replicate_succ']
      refine ih (n + 1) (by rw [Nat.succ_mul]; omega) (by omega) ?_
      intro j hj
      by_cases hjn : j = n
      · subst hjn; exact hlt
      · exact hlow j (by omega)
    · rw [if_neg hlt]
      exact ⟨n, rfl, hlow, by omega⟩

/-- the count of min-loop rounds found by `minLoop_spec` is `minRounds cfg` -/
theorem eq_minRounds (hf : 0 < cfg.freq) {m : Nat}
    (hlow : ∀ j, j < m → j * cfg.freq < cfg.minGen) (hhigh : cfg.minGen ≤ m * cfg.freq) :
    m = minRounds cfg := by
  apply Nat.le_antisymm
  · cases m with
    | zero => exact Nat.zero_le _
    | succ k =>
      have h1 := hlow k (Nat.lt_succ_self k)
      have h2 := minRounds_le_iff hf k
      omega
  · exact (minRounds_le_iff hf m).2 hhigh

/-- complete description of a call of `evolve_until_convergence` -/
theorem run_spec (hf : 0 < cfg.freq) (hobs : ∀ k, 1 ≤ (obs k).gens) :
    ∃ status R,
      run cfg obs age improv best = mkResult (stateAfter obs age improv best R) status R ∧
      List.replicate (minRounds cfg) cfg.freq <+: R ∧
      MainGood cfg obs age improv best (minRounds cfg) R ∧
      Final cfg obs age improv best status R := by
  obtain ⟨m, hmin, hlow, hhigh⟩ := minLoop_spec (obs := obs) (age := age) (improv := improv)
    (best := best) hf (cfg.minGen + 1) 0 (by omega) (by omega) (fun j hj => by omega)
  have hm := eq_minRounds hf hlow hhigh
  subst hm
  unfold run
  simp only [List.replicate_zero, Nat.zero_add] at hmin
  have h0 : updateBest { age := age, start := age, improv := improv, best := best } (obs 0).best
      = stateAfter obs age improv best [] := rfl
  simp only [h0, hmin, Nat.add_sub_cancel]
  have hlen : (List.replicate (minRounds cfg) cfg.freq).length = minRounds cfg :=
    List.length_replicate
  have hc := checkExit_eq cfg
    (stateAfter obs age improv best (List.replicate (minRounds cfg) cfg.freq))
    (obs (minRounds cfg))
  have hvac : MainGood cfg obs age improv best (minRounds cfg)
      (List.replicate (minRounds cfg) cfg.freq) := by
    intro j h1 h2; rw [hlen] at h2; omega
  cases hx : exitSpec cfg
    (stateAfter obs age improv best (List.replicate (minRounds cfg) cfg.freq))
    (obs (minRounds cfg)) with
  | some s =>
    rw [hx] at hc; rw [hc]
    refine ⟨s, _, rfl, List.prefix_refl _, hvac, Or.inr ?_⟩
    rw [hlen]; exact hc
  | none =>
    rw [hx] at hc; rw [hc]
    have := mainLoop_spec (obs := obs) (age := age) (improv := improv) (best := best) hf hobs
      (minRounds cfg) (cfg.maxGen + 1) (List.replicate (minRounds cfg) cfg.freq)
      (by omega) (by omega) hvac (by rw [hlen]; exact hc)
    rw [hlen] at this
    exact this

/-- `run_spec` read off a returned result -/
theorem run_result (hf : 0 < cfg.freq) (hobs : ∀ k, 1 ≤ (obs k).gens)
    {status ngen : Nat} {fitness : Key} {success : Bool} {rounds : List Nat} {st' : St}
    (h : run cfg obs age improv best = .result status ngen fitness success rounds st') :
    st' = stateAfter obs age improv best rounds ∧ ngen = rounds.sum ∧
    fitness = (obs rounds.length).best ∧ success = decide (status = 0) ∧
    List.replicate (minRounds cfg) cfg.freq <+: rounds ∧
    MainGood cfg obs age improv best (minRounds cfg) rounds ∧
    Final cfg obs age improv best status rounds := by
  obtain ⟨s, R, hrun, hpre, hgood, hfin⟩ := run_spec (obs := obs) (age := age) (improv := improv)
    (best := best) hf hobs
  rw [hrun] at h
  unfold mkResult at h
  injection h with h1 h2 h3 h4 h5 h6
  subst h1 h5 h6
  refine ⟨rfl, ?_, ?_, ?_, hpre, hgood, hfin⟩
  · rw [← h2, stateAfter_evolved]
  · rw [← h3, stateAfter_best]; rfl
  · rw [← h4, success_eq]

theorem sum_take_le (R : List Nat) (j : Nat) : (R.take j).sum ≤ R.sum := by
  have := congrArg List.sum (List.take_append_drop j R)
  rw [List.sum_append_nat] at this; omega

/-- every round evolves at least one generation -/
theorem rounds_pos (hf : 0 < cfg.freq) (hobs : ∀ k, 1 ≤ (obs k).gens)
    {status ngen : Nat} {fitness : Key} {success : Bool} {rounds : List Nat} {st' : St}
    (h : run cfg obs age improv best = .result status ngen fitness success rounds st') :
    ∀ g ∈ rounds, 1 ≤ g := by
  obtain ⟨_, _, _, _, hpre, hgood, _⟩ := run_result hf hobs h
  intro g hg
  obtain ⟨j, hj⟩ := List.mem_iff_getElem?.1 hg
  have hlen : j < rounds.length := (List.getElem?_eq_some_iff.1 hj).1
  by_cases hm : j < minRounds cfg
  · obtain ⟨t, rfl⟩ := hpre
    rw [List.getElem?_append_left (by simpa using hm), List.getElem?_replicate, if_pos hm] at hj
    injection hj with hj; omega
  · have := (hgood j (by omega) hlen).2.2
    rw [hj] at this; injection this with this
    rw [this]; exact gensFor_pos hf hobs j

/-- the generational ages at which `_update_checkpoints` runs during a call that starts at `age`
and evolves `rounds`: at entry and after every round -/
def checkAges (age : Nat) : List Nat → List Nat
  | [] => [age]
  | g :: gs => age :: checkAges (age + g) gs

theorem le_of_mem_checkAges : ∀ (rounds : List Nat) (age x : Nat),
    x ∈ checkAges age rounds → age ≤ x := by
  intro rounds
  induction rounds with
  | nil => intro age x hx; simp [checkAges] at hx; omega
  | cons g gs ih =>
    intro age x hx
    simp only [checkAges, List.mem_cons] at hx
    rcases hx with rfl | hx
    · exact Nat.le_refl _
    · have := ih _ _ hx; omega

theorem checkAges_pairwise : ∀ (rounds : List Nat) (age : Nat), (∀ g ∈ rounds, 1 ≤ g) →
    (checkAges age rounds).Pairwise (· < ·) := by
  intro rounds
  induction rounds with
  | nil => intro age _; simp [checkAges]
  | cons g gs ih =>
    intro age hpos
    simp only [checkAges, List.pairwise_cons]
    refine ⟨fun x hx => ?_, ih _ (fun g' hg' => hpos g' (List.mem_cons_of_mem _ hg'))⟩
    have := le_of_mem_checkAges _ _ _ hx
    have := hpos g (List.mem_cons_self ..)
    omega

theorem checkAges_eq : ∀ (rounds : List Nat) (age : Nat),
    checkAges age rounds =
      (List.range (rounds.length + 1)).map (fun j => age + (rounds.take j).sum) := by
  intro rounds
  induction rounds with
  | nil => intro age; simp [checkAges]
  | cons g gs ih =>
    intro age
    rw [checkAges, ih]
    conv => rhs; rw [List.length_cons, List.range_succ_eq_map]
    simp [List.map_map, Function.comp_def, Nat.add_assoc]

end Converge
end Bingo
