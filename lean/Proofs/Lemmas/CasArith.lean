import Model.Cas.Expr
import Mathlib.Data.Int.ModEq
import Mathlib.Data.Nat.ModEq
import Mathlib.Tactic.Ring
import Mathlib.Tactic.Linarith
/-!
# Integer arithmetic of the CAS in strict mode is exact

`arith true f a b = .ok r → r.val = f a.val b.val` and `intPow true a b = .ok r → r.val = a.val ^ b.val.toNat`:
under `strict = true` every `int64` wrap that would change the value is the error `"ovf"`.
-/
namespace Bingo
namespace Cas

theorem pure_ok_inj {α : Type} {a r : α} (h : (pure a : R α) = .ok r) : a = r := by
  cases h; rfl
theorem throw_ne_ok {α : Type} {s : String} {r : α} (h : (throw s : R α) = .ok r) : False := by
  cases h

theorem inInt64_iff {z : Int} : inInt64 z = true ↔ -9223372036854775808 ≤ z ∧ z < 9223372036854775808 := by
  simp only [inInt64, Bool.and_eq_true, two63]
  constructor
  · exact fun h => ⟨of_decide_eq_true h.1, of_decide_eq_true h.2⟩
  · exact fun h => ⟨decide_eq_true h.1, decide_eq_true h.2⟩

theorem wrap64_of_inInt64 {z : Int} (h : inInt64 z = true) : wrap64 z = z := by
  rw [inInt64_iff] at h
  unfold wrap64 two63 two64
  omega

theorem arith_strict {f : Int → Int → Int} {a b r : PInt} (h : arith true f a b = .ok r) :
    r.val = f a.val b.val := by
  unfold arith at h
  split at h
  · dsimp only at h
    split at h
    · cases h; rfl
    · cases h
  · split at h
    · cases h
    · dsimp only at h
      split at h
      · cases h
      · rename_i hw
        cases h
        simp only [Bool.true_and, bne_iff_ne, ne_eq, Decidable.not_not] at hw
        exact hw

/-! ## square and multiply -/

theorem powMod64_modEq : ∀ (fuel b e acc : Nat), e < 2 ^ fuel →
    powMod64 fuel b e acc ≡ acc * b ^ e [MOD 18446744073709551616]
  | 0, b, e, acc, h => by
    have : e = 0 := by simpa using h
    subst this
    simp [powMod64, Nat.ModEq]
  | fuel+1, b, e, acc, h => by
    unfold powMod64
    split
    · rename_i he; subst he; simp [Nat.ModEq]
    · have h2 : e / 2 < 2 ^ fuel := by
        rw [Nat.div_lt_iff_lt_mul (by decide)]; rw [pow_succ] at h; exact h
      refine (powMod64_modEq fuel _ _ _ h2).trans ?_
      have hb : (b * b % 18446744073709551616) ^ (e / 2) ≡ b ^ (2 * (e / 2))
          [MOD 18446744073709551616] := by
        rw [pow_mul, pow_two]
        exact (Nat.mod_modEq _ _).pow _
      split
      · rename_i hodd
        have he : e = 2 * (e / 2) + 1 := by omega
        calc acc * b % 18446744073709551616 * (b * b % 18446744073709551616) ^ (e / 2)
            ≡ acc * b * b ^ (2 * (e / 2)) [MOD 18446744073709551616] :=
              (Nat.mod_modEq _ _).mul hb
          _ = acc * b ^ e := by conv_rhs => rw [he, pow_succ, ← mul_assoc, mul_right_comm]
      · rename_i hodd
        have he : e = 2 * (e / 2) := by omega
        calc acc * (b * b % 18446744073709551616) ^ (e / 2)
            ≡ acc * b ^ (2 * (e / 2)) [MOD 18446744073709551616] := (Nat.ModEq.refl _).mul hb
          _ = acc * b ^ e := by rw [← he]

theorem wrap64_congr {y z : Int} (h : y ≡ z [ZMOD two64]) : wrap64 y = wrap64 z := by
  unfold wrap64
  have : (y + two63) % two64 = (z + two63) % two64 := h.add_right two63
  rw [this]

theorem wrap64_powMod64 (a : Int) (e : Nat) (he : e < 2 ^ 64) :
    wrap64 (Int.ofNat (powMod64 64 (a % two64).toNat e 1)) = wrap64 (a ^ e) := by
  apply wrap64_congr
  have h1 := powMod64_modEq 64 (a % two64).toNat e 1 he
  have h2 : (Int.ofNat (powMod64 64 (a % two64).toNat e 1)) ≡
      ((1 * (a % two64).toNat ^ e : Nat) : Int) [ZMOD two64] := by
    have := (Int.natCast_modEq_iff).mpr h1
    simpa [two64] using this
  refine h2.trans ?_
  have h3 : (((a % two64).toNat : Nat) : Int) = a % two64 :=
    Int.toNat_of_nonneg (Int.emod_nonneg _ (by decide))
  push_cast
  rw [one_mul, h3]
  exact (Int.mod_modEq a two64).pow e

theorem pow_small {a : Int} (h : a.natAbs ≤ 1) (e : Nat) : inInt64 (a ^ e) = true := by
  have : (a ^ e).natAbs ≤ 1 := by
    rw [Int.natAbs_pow]; exact pow_le_one' h e
  rw [inInt64_iff]
  omega

theorem intPow_strict {a b r : PInt} (h : intPow true a b = .ok r) :
    r.val = a.val ^ b.val.toNat := by
  unfold intPow at h
  dsimp only at h
  generalize hw : wrap64 (Int.ofNat (powMod64 64 (a.val % two64).toNat b.val.toNat 1)) = w at h
  by_cases h1 : (!a.np && !b.np) = true
  · rw [if_pos h1] at h
    split at h
    · exact (throw_ne_ok h).elim
    · split at h
      · have h := pure_ok_inj h; rw [← h]
      · exact (throw_ne_ok h).elim
  · rw [if_neg h1] at h
    by_cases h2 : (!(inInt64 a.val && inInt64 b.val)) = true
    · rw [if_pos h2] at h
      exact (throw_ne_ok h).elim
    · rw [if_neg h2] at h
      simp only [Bool.not_eq_true, Bool.not_eq_false', Bool.and_eq_true] at h2
      have hb : b.val.toNat < 2 ^ 64 := by
        have := inInt64_iff.mp h2.2
        omega
      by_cases h3 : a.val.natAbs ≤ 1
      · rw [if_pos h3] at h
        simp only [Bool.and_false, Bool.false_eq_true, if_false] at h
        have h := pure_ok_inj h
        rw [← h, ← hw]
        dsimp only
        rw [wrap64_powMod64 a.val _ hb]
        exact wrap64_of_inInt64 (pow_small h3 _)
      · rw [if_neg h3] at h
        by_cases h4 : b.val.toNat ≥ 64
        · rw [if_pos h4] at h
          exact (throw_ne_ok h).elim
        · rw [if_neg h4] at h
          by_cases h5 : (a.val ^ b.val.toNat != w) = true
          · rw [h5] at h
            exact (throw_ne_ok h).elim
          · simp only [Bool.not_eq_true] at h5
            rw [h5] at h
            simp only [Bool.and_false, Bool.false_eq_true, if_false] at h
            have h := pure_ok_inj h
            rw [← h]
            simp only [bne_eq_false_iff_eq] at h5
            exact h5.symm

end Cas
end Bingo
