import Proofs.Lemmas.ParXchgInv
/-!
# C11 (parallel clause) -- the invariant is inductive

`XInv` holds initially (`inv_initial`) and is preserved by the send half (`inv_send`) and the receive
half (`inv_recv`) of every rank, hence by every `xstep` (`inv_step`).
-/
namespace Bingo
namespace ParXchg
open ParArch

variable {P : Nat → Option Nat} {pops0 : List (List Nat)} {R : Nat}

theorem pcOf_afterSend {s : XState} {r p : Nat} (hr : r < s.pcs.length) (a : Nat) :
    pcOf (afterSend s r p) a = if a = r then .toRecv else pcOf s a := by
  simp only [pcOf, afterSend]; exact getD_set _ _ _ _ _ hr

theorem pcOf_afterRecv {s : XState} {r : Nat} {m : List Nat} {rest : List (Nat × Nat × List Nat)}
    (hr : r < s.pcs.length) (a : Nat) :
    pcOf (afterRecv s r m rest) a = if a = r then .done else pcOf s a := by
  simp only [pcOf, afterRecv]; exact getD_set _ _ _ _ _ hr

theorem inv_send {s : XState} (hm : Matching P R) (inv : XInv P pops0 R s) {r p : Nat}
    (hp : P r = some p) (hpc : pcOf s r = .toSend) : XInv P pops0 R (afterSend s r p) := by
  have hr : r < s.pcs.length := by rw [inv.lenPcs]; exact hm.lt r p hp
  have hpc' := pcOf_afterSend (s := s) (p := p) hr
  have hpr := hm.sym r p hp
  have hne := hm.irrefl r p hp
  refine ⟨inv.partners, inv.outgoing, ?_, inv.lenPops, ?_, ?_, ?_, ?_⟩
  · simp only [afterSend, List.length_set]; exact inv.lenPcs
  · intro a ha
    rw [hpc']
    have := inv.single a ha
    grind
  · intro a b hab ha
    rw [hpc'] at ha ⊢
    have := inv.order a b hab
    grind
  · intro a
    rw [hpc']
    have := inv.pops a
    show s.pops.getD a [] = _
    grind
  · intro a b m
    rw [hpc', hpc']
    have h1 := inv.msgs a b m
    have h2 := inv.order r p hp hpc
    show (s.inflight ++ [(r, p, s.outgoing.getD r [])]).count (a, b, m) = _
    rw [List.count_append, h1, inv.outgoing r]
    simp only [List.count_cons, List.count_nil, Nat.zero_add, beq_iff_eq, Prod.mk.injEq]
    grind

/-- a message that can be taken is the partner's dump, and the partner has sent -/
theorem taken_spec {s : XState} (inv : XInv P pops0 R s) {r p : Nat} {m : List Nat}
    {rest : List (Nat × Nat × List Nat)} (ht : xtake p r s.inflight = some (m, rest)) :
    P p = some r ∧ m = dump P pops0 p ∧ pcOf s p ≠ .toSend ∧ pcOf s r ≠ .done := by
  have hperm := xtake_perm ht
  have hc := inv.msgs p r m
  rw [hperm.count_eq, List.count_cons_self] at hc
  split at hc
  · assumption
  · omega

theorem inv_recv {s : XState} (hm : Matching P R) (inv : XInv P pops0 R s) {r p : Nat} {m : List Nat}
    {rest : List (Nat × Nat × List Nat)} (hp : P r = some p) (hpc : pcOf s r = .toRecv)
    (ht : xtake p r s.inflight = some (m, rest)) : XInv P pops0 R (afterRecv s r m rest) := by
  have hr : r < s.pcs.length := by rw [inv.lenPcs]; exact hm.lt r p hp
  have hr2 : r < s.pops.length := by rw [inv.lenPops]; exact hm.lt r p hp
  have hpc' := pcOf_afterRecv (s := s) (m := m) (rest := rest) hr
  have hpr := hm.sym r p hp
  have hne := hm.irrefl r p hp
  obtain ⟨_, hmd, hps, _⟩ := taken_spec inv ht
  have hperm := xtake_perm ht
  refine ⟨inv.partners, inv.outgoing, ?_, ?_, ?_, ?_, ?_, ?_⟩
  · simp only [afterRecv, List.length_set]; exact inv.lenPcs
  · simp only [afterRecv, List.length_set]; exact inv.lenPops
  · intro a ha
    rw [hpc']
    have := inv.single a ha
    grind
  · intro a b hab ha
    rw [hpc'] at ha ⊢
    have := inv.order a b hab
    have := hm.sym a b hab
    grind
  · intro a
    rw [hpc']
    have h1 := inv.pops a
    have h2 := inv.pops r
    show (s.pops.set r (s.pops.getD r [] ++ m)).getD a [] = _
    rw [getD_set _ _ _ _ _ hr2]
    split
    · subst_vars
      simp only [if_true]
      rw [h2, hpc]
      simp [result, hp]
    · exact h1
  · intro a b m'
    rw [hpc', hpc']
    have h1 := inv.msgs a b m'
    show rest.count (a, b, m') = _
    rw [hperm.count_eq, List.count_cons] at h1
    simp only [beq_iff_eq, Prod.mk.injEq] at h1
    have := hm.sym a b
    grind

theorem inv_step {s s' : XState} (hm : Matching P R) (inv : XInv P pops0 R s) {r : Nat}
    (h : xstep s r = some s') : XInv P pops0 R s' := by
  rcases xstep_cases h with ⟨p, hp, hpc, rfl⟩ | ⟨p, m, rest, hp, hpc, ht, rfl⟩
  · rw [inv.partners] at hp; exact inv_send hm inv hp hpc
  · rw [inv.partners] at hp; exact inv_recv hm inv hp hpc ht

/-! ## the initial state -/

theorem getD_map_range {α : Type} (f : Nat → α) (R r : Nat) (d : α) :
    ((List.range R).map f).getD r d = if r < R then f r else d := by
  simp only [List.getD, List.getElem?_map]
  split
  · rename_i h; simp [List.getElem?_range h]
  · rename_i h; simp [List.getElem?_eq_none (l := List.range R) (by simpa using h)]

theorem partners_initial (order : List Nat) (pops : List (List Nat))
    (hlt : ∀ a b, partner order a = some b → a < order.length) (r : Nat) :
    (xinitial order pops).partners.getD r none = partner order r := by
  simp only [xinitial, getD_map_range]
  split
  · rfl
  · cases h : partner order r with
    | none => rfl
    | some b => exact absurd (hlt r b h) ‹_›

theorem pcOf_initial (order : List Nat) (pops : List (List Nat))
    (hlt : ∀ a b, partner order a = some b → a < order.length) (r : Nat) :
    pcOf (xinitial order pops) r = if (partner order r).isSome then .toSend else .done := by
  simp only [pcOf, xinitial, List.map_map, getD_map_range, Function.comp]
  split
  · rfl
  · cases h : partner order r with
    | none => rfl
    | some b => exact absurd (hlt r b h) ‹_›

theorem inv_initial (order : List Nat) (pops : List (List Nat))
    (hm : Matching (partner order) order.length) (hlen : pops.length ≤ order.length) :
    XInv (partner order) pops order.length (xinitial order pops) := by
  have hpart := partners_initial order pops hm.lt
  have hpc := pcOf_initial order pops hm.lt
  refine ⟨hpart, ?_, ?_, ?_, ?_, ?_, ?_, ?_⟩
  · intro r
    have h1 := hpart r
    simp only [xinitial] at h1
    simp only [xinitial, getD_map_range, dump]
    split
    · rfl
    · cases h : partner order r with
      | none => rfl
      | some b => exact absurd (hm.lt r b h) ‹_›
  · simp [xinitial]
  · simp [xinitial]
  · intro r hr; rw [hpc, hr]; rfl
  · intro r p hp _; rw [hpc, hm.sym r p hp]; simp
  · intro r
    have h1 := hpart r
    simp only [xinitial] at h1
    rw [hpc]
    have hres : (if (if (partner order r).isSome = true then XPc.toSend else XPc.done) = XPc.done
        then result (partner order) pops r else keep (partner order) pops r) = keep (partner order) pops r := by
      cases h : partner order r <;> simp [result, h]
    rw [hres]
    simp only [xinitial, getD_map_range, keep]
    split
    · rfl
    · rename_i hr
      have : pops[r]? = none := List.getElem?_eq_none (by omega)
      simp [this]
  · intro a b m
    rw [hpc, hpc]
    have : (xinitial order pops).inflight = [] := rfl
    rw [this, List.count_nil]
    have := hm.sym a b
    cases h : partner order a <;> cases h' : partner order b <;> simp_all

end ParXchg
end Bingo
