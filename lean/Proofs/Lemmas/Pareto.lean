import Model.HallOfFame
import Proofs.Lemmas.HallOfFame
/-!
# Invariants of `ParetoFront.update`
-/
namespace Bingo
namespace HOF

/-- both keys are non-NaN -/
def Good (it : Item) : Prop := it.key.isNan = false ∧ it.key2.isNan = false

theorem Good.keys {it : Item} (h : Good it) : ∃ x y, it.key = some x ∧ it.key2 = some y := by
  obtain ⟨x, hx⟩ := Key.isNan_false_iff.1 h.1
  obtain ⟨y, hy⟩ := Key.isNan_false_iff.1 h.2
  exact ⟨x, y, hx, hy⟩

theorem firstDominates_iff {a b : Item} {x1 y1 x2 y2 : Int} (ha1 : a.key = some x1)
    (ha2 : a.key2 = some y1) (hb1 : b.key = some x2) (hb2 : b.key2 = some y2) :
    firstDominates a b = true ↔ x1 ≤ x2 ∧ y1 ≤ y2 ∧ (x1 ≠ x2 ∨ y1 ≠ y2) := by
  simp only [firstDominates, ha1, ha2, hb1, hb2, Key.gt, Key.lt, Key.ne]
  by_cases h1 : x2 < x1 <;> by_cases h2 : y2 < y1 <;> simp [h1, h2] <;> omega

theorem dom_irrefl {a : Item} (ha : Good a) : firstDominates a a = false := by
  obtain ⟨x, y, hx, hy⟩ := ha.keys
  cases h : firstDominates a a with
  | false => rfl
  | true => have := (firstDominates_iff hx hy hx hy).1 h; omega

theorem dom_trans {a b c : Item} (ha : Good a) (hb : Good b) (hc : Good c)
    (hab : firstDominates a b = true) (hbc : firstDominates b c = true) :
    firstDominates a c = true := by
  obtain ⟨x1, y1, hx1, hy1⟩ := ha.keys
  obtain ⟨x2, y2, hx2, hy2⟩ := hb.keys
  obtain ⟨x3, y3, hx3, hy3⟩ := hc.keys
  have h1 := (firstDominates_iff hx1 hy1 hx2 hy2).1 hab
  have h2 := (firstDominates_iff hx2 hy2 hx3 hy3).1 hbc
  exact (firstDominates_iff hx1 hy1 hx3 hy3).2 (by omega)

theorem dom_asymm {a b : Item} (ha : Good a) (hb : Good b) (hab : firstDominates a b = true) :
    firstDominates b a = false := by
  cases h : firstDominates b a with
  | false => rfl
  | true => have := dom_trans ha hb ha hab h; rw [dom_irrefl ha] at this; cases this

theorem notDominated_iff {h : List Item} {it : Item} :
    notDominated h it = true ↔ Good it ∧ ∀ mm ∈ h, firstDominates mm it = false := by
  unfold notDominated Good
  cases it.key.isNan <;> cases it.key2.isNan <;> simp

theorem mem_removeDominated {h : List Item} {it x : Item} :
    x ∈ removeDominated h it ↔ x ∈ h ∧ firstDominates it x = false := by
  simp [removeDominated]

theorem pfOffer_cases (sim : Option (Item → Item → Bool)) (h : List Item) (it : Item) :
    (pfOffer sim h it = h ∧ (sim = none → notDominated h it = false)) ∨
    (notDominated h it = true ∧ (∀ f, sim = some f → notSimilar f h it = true) ∧
      pfOffer sim h it = insert (removeDominated h it) it) := by
  unfold pfOffer
  cases sim with
  | none => cases notDominated h it <;> simp
  | some f => cases hd : notDominated h it <;> cases hs : notSimilar f h it <;> simp [hs]

def AllGood (h : List Item) : Prop := ∀ x ∈ h, Good x
def Anti (h : List Item) : Prop := ∀ a ∈ h, ∀ b ∈ h, firstDominates a b = false
/-- every good item seen so far is a member or dominated by a member -/
def Cover (h seen : List Item) : Prop :=
  ∀ o ∈ seen, Good o → o ∈ h ∨ ∃ mm ∈ h, firstDominates mm o = true

theorem pfOffer_mem {sim h it x} (hx : x ∈ pfOffer sim h it) : x ∈ h ∨ (x = it ∧ Good it) := by
  rcases pfOffer_cases sim h it with ⟨he, _⟩ | ⟨hnd, _, he⟩
  · rw [he] at hx; exact Or.inl hx
  · rw [he] at hx
    rcases mem_insert.1 hx with h1 | h1
    · exact Or.inr ⟨h1, (notDominated_iff.1 hnd).1⟩
    · exact Or.inl (mem_removeDominated.1 h1).1

theorem pfOffer_allGood {sim h it} (hg : AllGood h) : AllGood (pfOffer sim h it) := by
  intro x hx
  rcases pfOffer_mem hx with h1 | h1
  · exact hg x h1
  · rw [h1.1]; exact h1.2

theorem pfOffer_anti {sim h it} (ha : Anti h) : Anti (pfOffer sim h it) := by
  rcases pfOffer_cases sim h it with ⟨he, _⟩ | ⟨hnd, _, he⟩
  · rw [he]; exact ha
  · rw [he]
    obtain ⟨hgi, hnd⟩ := notDominated_iff.1 hnd
    intro a hma b hmb
    rcases mem_insert.1 hma with h1 | h1 <;> rcases mem_insert.1 hmb with h2 | h2
    · subst h1; subst h2; exact dom_irrefl hgi
    · subst h1; exact (mem_removeDominated.1 h2).2
    · subst h2; exact hnd a (mem_removeDominated.1 h1).1
    · exact ha a (mem_removeDominated.1 h1).1 b (mem_removeDominated.1 h2).1

theorem pfOffer_cover {h seen it} (hg : AllGood h) (hc : Cover h seen) :
    Cover (pfOffer none h it) (seen ++ [it]) := by
  rcases pfOffer_cases none h it with ⟨he, hnd⟩ | ⟨hnd, _, he⟩
  · rw [he]
    have hnd := hnd rfl
    intro o ho hgo
    rcases List.mem_append.1 ho with h1 | h1
    · exact hc o h1 hgo
    · simp at h1; subst h1
      -- a good item that was rejected is dominated by a member
      have : ¬ (Good o ∧ ∀ mm ∈ h, firstDominates mm o = false) := by
        rw [← notDominated_iff]; simp [hnd]
      refine Or.inr ?_
      apply Classical.byContradiction
      intro hno
      apply this
      refine ⟨hgo, fun mm hmm => ?_⟩
      cases hd : firstDominates mm o with
      | false => rfl
      | true => exact absurd ⟨mm, hmm, hd⟩ hno
  · rw [he]
    obtain ⟨hgi, hnd⟩ := notDominated_iff.1 hnd
    intro o ho hgo
    rcases List.mem_append.1 ho with h1 | h1
    · rcases hc o h1 hgo with h2 | ⟨mm, hmm, hd⟩
      · cases hio : firstDominates it o with
        | false => exact Or.inl (mem_insert.2 (Or.inr (mem_removeDominated.2 ⟨h2, hio⟩)))
        | true => exact Or.inr ⟨it, mem_insert.2 (Or.inl rfl), hio⟩
      · cases him : firstDominates it mm with
        | false => exact Or.inr ⟨mm, mem_insert.2 (Or.inr (mem_removeDominated.2 ⟨hmm, him⟩)), hd⟩
        | true =>
          exact Or.inr ⟨it, mem_insert.2 (Or.inl rfl), dom_trans hgi (hg mm hmm) hgo him hd⟩
    · simp at h1; subst h1
      exact Or.inl (mem_insert.2 (Or.inl rfl))

theorem pfUpdate_cons (sim h it rest) :
    pfUpdate sim h (it :: rest) = pfUpdate sim (pfOffer sim h it) rest := rfl

theorem pfUpdate_inv (sim) : ∀ (pop h : List Item), AllGood h → Anti h →
    AllGood (pfUpdate sim h pop) ∧ Anti (pfUpdate sim h pop) ∧
    ∀ x ∈ pfUpdate sim h pop, x ∈ h ∨ x ∈ pop := by
  intro pop
  induction pop with
  | nil => intro h hg ha; exact ⟨hg, ha, fun x hx => Or.inl hx⟩
  | cons it rest ih =>
    intro h hg ha
    rw [pfUpdate_cons]
    obtain ⟨h1, h2, h3⟩ := ih _ (pfOffer_allGood (sim := sim) (it := it) hg) (pfOffer_anti ha)
    refine ⟨h1, h2, fun x hx => ?_⟩
    rcases h3 x hx with h4 | h4
    · rcases pfOffer_mem h4 with h5 | h5
      · exact Or.inl h5
      · exact Or.inr (by simp [h5.1])
    · exact Or.inr (List.mem_cons_of_mem _ h4)

theorem pfUpdate_cover : ∀ (pop h seen : List Item), AllGood h → Cover h seen →
    Cover (pfUpdate none h pop) (seen ++ pop) := by
  intro pop
  induction pop with
  | nil => intro h seen _ hc; simpa [pfUpdate] using hc
  | cons it rest ih =>
    intro h seen hg hc
    rw [pfUpdate_cons, List.append_cons]
    exact ih _ _ (pfOffer_allGood hg) (pfOffer_cover hg hc)

/-- full characterisation of the Pareto front without similarity filter, from the empty front -/
theorem mem_pfUpdate_none (offered : List Item) (x : Item) :
    x ∈ pfUpdate none [] offered ↔
      x ∈ offered ∧ Good x ∧ ∀ o ∈ offered, Good o → firstDominates o x = false := by
  obtain ⟨hg, ha, hsub⟩ := pfUpdate_inv none offered [] (fun _ h => by simp at h)
    (fun _ h => by simp at h)
  have hc := pfUpdate_cover offered [] [] (fun _ h => by simp at h) (fun _ h => by simp at h)
  simp only [List.nil_append] at hc
  constructor
  · intro hx
    have hxo : x ∈ offered := by
      rcases hsub x hx with h | h
      · simp at h
      · exact h
    refine ⟨hxo, hg x hx, fun o ho hgo => ?_⟩
    rcases hc o ho hgo with h1 | ⟨mm, hmm, hd⟩
    · exact ha o h1 x hx
    · cases hox : firstDominates o x with
      | false => rfl
      | true =>
        have := dom_trans (hg mm hmm) hgo (hg x hx) hd hox
        rw [ha mm hmm x hx] at this; cases this
  · rintro ⟨hxo, hgx, hnd⟩
    rcases hc x hxo hgx with h1 | ⟨mm, hmm, hd⟩
    · exact h1
    · have hmo : mm ∈ offered := by
        rcases hsub mm hmm with h | h
        · simp at h
        · exact h
      rw [hnd mm hmo (hg mm hmm)] at hd; cases hd

/-! ## similarity -/

theorem pairwise_insertAt {β : Type} {R : β → β → Prop} (hsymm : ∀ a b, R a b → R b a)
    {l : List β} (i : Nat) {b : β} (hl : l.Pairwise R) (hb : ∀ a ∈ l, R a b) :
    (insertAt l i b).Pairwise R := by
  unfold insertAt
  have hl' : (l.take i ++ l.drop i).Pairwise R := by rw [List.take_append_drop]; exact hl
  obtain ⟨h1, h2, h3⟩ := List.pairwise_append.1 hl'
  refine List.pairwise_append.2 ⟨h1, List.pairwise_cons.2 ⟨?_, h2⟩, ?_⟩
  · intro x hx; exact hsymm _ _ (hb x (List.mem_of_mem_drop hx))
  · intro a ha y hy
    rcases List.mem_cons.1 hy with h | h
    · rw [h]; exact hb a (List.mem_of_mem_take ha)
    · exact h3 a ha y h

def NoSimilar (f : Item → Item → Bool) (h : List Item) : Prop :=
  h.Pairwise (fun a b => f a b = false ∧ f b a = false)

theorem pfOffer_noSimilar {f h it} (hsymm : ∀ a b, f a b = f b a) (hs : NoSimilar f h) :
    NoSimilar f (pfOffer (some f) h it) := by
  rcases pfOffer_cases (some f) h it with ⟨he, _⟩ | ⟨_, hns, he⟩
  · rw [he]; exact hs
  · rw [he]
    have hns := hns f rfl
    simp only [notSimilar, List.all_eq_true, Bool.not_eq_true'] at hns
    unfold insert
    apply pairwise_insertAt (fun a b hab => ⟨hab.2, hab.1⟩)
    · exact List.Pairwise.sublist List.filter_sublist hs
    · intro a ha
      have := hns a (mem_removeDominated.1 ha).1
      exact ⟨this, by rw [hsymm]; exact this⟩

theorem pfUpdate_noSimilar {f} (hsymm : ∀ a b, f a b = f b a) : ∀ (pop h : List Item),
    NoSimilar f h → NoSimilar f (pfUpdate (some f) h pop) := by
  intro pop
  induction pop with
  | nil => intro h hs; exact hs
  | cons it rest ih => intro h hs; rw [pfUpdate_cons]; exact ih _ (pfOffer_noSimilar hsymm hs)

theorem pfUpdate_flatten (sim) (pops : List (List Item)) (h : List Item) :
    pops.foldl (pfUpdate sim) h = pfUpdate sim h pops.flatten := by
  unfold pfUpdate
  rw [List.foldl_flatten]

end HOF
end Bingo
