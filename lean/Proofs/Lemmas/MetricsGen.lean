import Model.Generated.Metrics
/-!
# C07, structural side: which counted method every public entry point runs

`Gen.Metrics.evalCountIncrements` is read from `ExplicitRegression` (for each method: number of
`self.eval_count += 1` statements, number of other writes to `eval_count`).  `entryPoints` is the
call structure that the four texts `vectorCall`, `explicitVector`, `explicitJacobian`,
`getFitnessAndGradient` (pinned in `C07.gen_ok`) show: which counted methods each public entry
point of the fitness function executes, once each.
-/
namespace Bingo
namespace Metrics

/-- public entry point ↦ the counted methods of `ExplicitRegression` its body calls (once each).
`__call__` is `VectorBasedFunction.__call__` (`Gen.Metrics.vectorCall`);
`get_fitness_and_gradient` is `VectorGradientMixin`'s (`Gen.Metrics.getFitnessAndGradient`). -/
def entryPoints : List (String × List String) :=
  [("__call__", ["evaluate_fitness_vector"]),
   ("evaluate_fitness_vector", ["evaluate_fitness_vector"]),
   ("get_fitness_vector_and_jacobian", ["get_fitness_vector_and_jacobian"]),
   ("get_fitness_and_gradient", ["get_fitness_vector_and_jacobian"])]

/-- number of `self.eval_count += 1` in method `m` according to the table (`none`: the method is
not in the table, so nothing is known about it) -/
def incrOf (tbl : List (String × Nat × Nat)) (m : String) : Option Nat :=
  (tbl.lookup m).map (·.1)

/-- number of other writes to `eval_count` in method `m` according to the table -/
def otherWritesOf (tbl : List (String × Nat × Nat)) (m : String) : Option Nat :=
  (tbl.lookup m).map (·.2)

/-- sum of optional counts; `none` as soon as one is unknown -/
def sumOpt : List (Option Nat) → Option Nat
  | [] => some 0
  | none :: _ => none
  | some a :: rest => (sumOpt rest).map (a + ·)

/-- total number of `eval_count += 1` executed by an entry point calling `callees` -/
def totalIncr (tbl : List (String × Nat × Nat)) (callees : List String) : Option Nat :=
  sumOpt (callees.map (incrOf tbl))

/-- total number of other writes to `eval_count` executed by an entry point calling `callees` -/
def totalOther (tbl : List (String × Nat × Nat)) (callees : List String) : Option Nat :=
  sumOpt (callees.map (otherWritesOf tbl))

end Metrics
end Bingo
