import Model.BestScan
/-!
# Lemmas about `islandScan` / `pyMinBy`

`IsBest b l` is the specification: `b` is a member of `l`, and whenever some member has a
non-NaN key `v`, `b`'s key is a non-NaN `w ≤ v`.
-/
namespace Bingo
namespace BestScan

variable {ι : Type}

def IsBest (b : Key × ι) (l : List (Key × ι)) : Prop :=
  b ∈ l ∧ ∀ p ∈ l, ∀ v, p.1 = some v → ∃ w, b.1 = some w ∧ w ≤ v

theorem scanStep_cases (b x : Key × ι) : scanStep b x = b ∨ scanStep b x = x := by
  unfold scanStep; split <;> simp

theorem scanStep_le_left (b x : Key × ι) (v : Int) (h : b.1 = some v) :
    ∃ w, (scanStep b x).1 = some w ∧ w ≤ v := by
  obtain ⟨bk, bi⟩ := b
  obtain ⟨xk, xi⟩ := x
  simp only at h; subst h
  cases xk with
  | none => exact ⟨v, by simp [scanStep, Key.lt, Key.isNan], Int.le_refl _⟩
  | some u =>
    by_cases huv : u < v
    · exact ⟨u, by simp [scanStep, Key.lt, Key.isNan, huv], by omega⟩
    · exact ⟨v, by simp [scanStep, Key.lt, Key.isNan, huv], Int.le_refl _⟩

theorem scanStep_le_right (b x : Key × ι) (u : Int) (h : x.1 = some u) :
    ∃ w, (scanStep b x).1 = some w ∧ w ≤ u := by
  obtain ⟨bk, bi⟩ := b
  obtain ⟨xk, xi⟩ := x
  simp only at h; subst h
  cases bk with
  | none => exact ⟨u, by simp [scanStep, Key.lt, Key.isNan], Int.le_refl _⟩
  | some v =>
    by_cases huv : u < v
    · exact ⟨u, by simp [scanStep, Key.lt, Key.isNan, huv], Int.le_refl _⟩
    · exact ⟨v, by simp [scanStep, Key.lt, Key.isNan, huv], by omega⟩

theorem foldl_scanStep_isBest (l : List (Key × ι)) (b : Key × ι) :
    IsBest (l.foldl scanStep b) (b :: l) := by
  induction l generalizing b with
  | nil => exact ⟨by simp, by intro p hp v hv; simp at hp; subst hp; exact ⟨v, hv, Int.le_refl _⟩⟩
  | cons x l ih =>
    obtain ⟨hm, hmin⟩ := ih (scanStep b x)
    simp only [List.foldl_cons]
    refine ⟨?_, ?_⟩
    · rcases List.mem_cons.1 hm with h | h
      · rw [h]; rcases scanStep_cases b x with h' | h' <;> rw [h'] <;> simp
      · simp [h]
    · intro p hp v hv
      have key : ∀ v', (scanStep b x).1 = some v' → v' ≤ v →
          ∃ w, (List.foldl scanStep (scanStep b x) l).1 = some w ∧ w ≤ v := by
        intro v' h1 h2
        obtain ⟨w, hw, hle⟩ := hmin _ (List.mem_cons_self) v' h1
        exact ⟨w, hw, by omega⟩
      rcases List.mem_cons.1 hp with h | h
      · subst h
        obtain ⟨v', h1, h2⟩ := scanStep_le_left p x v hv
        exact key v' h1 h2
      · rcases List.mem_cons.1 h with h | h
        · subst h
          obtain ⟨v', h1, h2⟩ := scanStep_le_right b p v hv
          exact key v' h1 h2
        · exact hmin p (List.mem_cons_of_mem _ h) v hv

theorem islandScan_isBest {pop : List (Key × ι)} {b : Key × ι} (h : islandScan pop = some b) :
    IsBest b pop := by
  cases pop with
  | nil => simp [islandScan] at h
  | cons p rest =>
    simp only [islandScan, Option.some.injEq] at h
    subst h
    obtain ⟨hm, hmin⟩ := foldl_scanStep_isBest (p :: rest) p
    refine ⟨?_, ?_⟩
    · rcases List.mem_cons.1 hm with h | h
      · rw [h]; simp
      · exact h
    · intro q hq; exact hmin q (List.mem_cons_of_mem _ hq)

theorem islandScan_eq_none {pop : List (Key × ι)} : islandScan pop = none ↔ pop = [] := by
  cases pop <;> simp [islandScan]

/-! Consequences of `IsBest` in the vocabulary of `Key` -/

theorem IsBest.not_nan {b : Key × ι} {l} (h : IsBest b l) (hex : ∃ p ∈ l, p.1.isNan = false) :
    b.1.isNan = false := by
  obtain ⟨p, hp, hn⟩ := hex
  cases hk : p.1 with
  | none => simp [Key.isNan, hk] at hn
  | some v =>
    obtain ⟨w, hw, _⟩ := h.2 p hp v hk
    simp [Key.isNan, hw]

theorem IsBest.not_lt {b : Key × ι} {l} (h : IsBest b l) : ∀ p ∈ l, Key.lt p.1 b.1 = false := by
  intro p hp
  cases hk : p.1 with
  | none => simp [Key.lt]
  | some v =>
    obtain ⟨w, hw, hle⟩ := h.2 p hp v hk
    simp only [hw, Key.lt, decide_eq_false_iff_not]; omega

theorem IsBest.le_of_not_nan {b : Key × ι} {l} (h : IsBest b l) :
    ∀ p ∈ l, p.1.isNan = false → Key.le b.1 p.1 = true := by
  intro p hp hn
  cases hk : p.1 with
  | none => simp [Key.isNan, hk] at hn
  | some v =>
    obtain ⟨w, hw, hle⟩ := h.2 p hp v hk
    simp only [hw, Key.le, decide_eq_true_eq]; exact hle

theorem IsBest.all_nan {b : Key × ι} {l} (h : IsBest b l) (hb : b.1.isNan = true) :
    ∀ p ∈ l, p.1.isNan = true := by
  intro p hp
  cases hk : p.1 with
  | none => simp [Key.isNan]
  | some v =>
    obtain ⟨w, hw, _⟩ := h.2 p hp v hk
    simp [Key.isNan, hw] at hb

theorem IsBest.key_unique {b b' : Key × ι} {l l'} (h : IsBest b l) (h' : IsBest b' l')
    (hsub : ∀ p, p ∈ l ↔ p ∈ l') : b.1 = b'.1 := by
  cases hk : b.1 with
  | none =>
    cases hk' : b'.1 with
    | none => rfl
    | some v' =>
      obtain ⟨w, hw, _⟩ := h.2 b' ((hsub _).2 h'.1) v' hk'
      simp [hk] at hw
  | some v =>
    obtain ⟨w', hw', hle'⟩ := h'.2 b ((hsub _).1 h.1) v hk
    obtain ⟨w, hw, hle⟩ := h.2 b' ((hsub _).2 h'.1) w' hw'
    rw [hk] at hw; cases hw
    rw [hw']; congr 1; omega

/-- composition: the best of the per-island bests is a best of the union -/
theorem IsBest.flatten {islands : List (List (Key × ι))} {results : List (Key × ι)} {b : Key × ι}
    (hres : ∀ r ∈ results, ∃ isl ∈ islands, IsBest r isl)
    (hcov : ∀ isl ∈ islands, isl ≠ [] → ∃ r ∈ results, IsBest r isl)
    (hb : IsBest b results) : IsBest b islands.flatten := by
  refine ⟨?_, ?_⟩
  · obtain ⟨isl, hisl, hbest⟩ := hres b hb.1
    exact List.mem_flatten.2 ⟨isl, hisl, hbest.1⟩
  · intro p hp v hv
    obtain ⟨isl, hisl, hpi⟩ := List.mem_flatten.1 hp
    obtain ⟨r, hr, hbest⟩ := hcov isl hisl (List.ne_nil_of_mem hpi)
    obtain ⟨w, hw, hle⟩ := hbest.2 p hpi v hv
    obtain ⟨w', hw', hle'⟩ := hb.2 r hr w hw
    exact ⟨w', hw', by omega⟩

/-! `pyMinBy` -/

theorem foldl_pyMin_spec (l : List (Key × ι)) (b : Key × ι)
    (hb : b.1.isNan = false) (hl : ∀ p ∈ l, p.1.isNan = false) :
    IsBest (l.foldl (fun best indv => if Key.lt indv.1 best.1 then indv else best) b) (b :: l) := by
  induction l generalizing b with
  | nil => exact ⟨by simp, by intro p hp v hv; simp at hp; subst hp; exact ⟨v, hv, Int.le_refl _⟩⟩
  | cons x l ih =>
    simp only [List.foldl_cons]
    have hx : x.1.isNan = false := hl x (List.mem_cons_self)
    obtain ⟨v, hv⟩ : ∃ v, b.1 = some v := by
      cases h : b.1 with
      | none => simp [Key.isNan, h] at hb
      | some v => exact ⟨v, rfl⟩
    obtain ⟨u, hu⟩ : ∃ u, x.1 = some u := by
      cases h : x.1 with
      | none => simp [Key.isNan, h] at hx
      | some v => exact ⟨v, rfl⟩
    by_cases huv : u < v
    · have hstep : (if Key.lt x.1 b.1 then x else b) = x := by simp [hu, hv, Key.lt, huv]
      rw [hstep]
      obtain ⟨hm, hmin⟩ := ih x hx (fun p hp => hl p (List.mem_cons_of_mem _ hp))
      refine ⟨List.mem_cons_of_mem _ hm, ?_⟩
      intro p hp v' hv'
      rcases List.mem_cons.1 hp with h | h
      · subst h
        obtain ⟨w, hw, hle⟩ := hmin x (List.mem_cons_self) u hu
        rw [hv] at hv'; cases hv'
        exact ⟨w, hw, by omega⟩
      · exact hmin p h v' hv'
    · have hstep : (if Key.lt x.1 b.1 then x else b) = b := by simp [hu, hv, Key.lt, huv]
      rw [hstep]
      obtain ⟨hm, hmin⟩ := ih b hb (fun p hp => hl p (List.mem_cons_of_mem _ hp))
      refine ⟨?_, ?_⟩
      · rcases List.mem_cons.1 hm with h | h
        · rw [h]; simp
        · simp [h]
      · intro p hp v' hv'
        rcases List.mem_cons.1 hp with h | h
        · subst h; exact hmin _ (List.mem_cons_self) v' hv'
        · rcases List.mem_cons.1 h with h | h
          · subst h
            obtain ⟨w, hw, hle⟩ := hmin b (List.mem_cons_self) v hv
            rw [hu] at hv'; cases hv'
            exact ⟨w, hw, by omega⟩
          · exact hmin p (List.mem_cons_of_mem _ h) v' hv'

end BestScan
end Bingo
